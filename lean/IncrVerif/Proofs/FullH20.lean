import IncrVerif.Proofs.FullH4
/-!
# C01 full fragment: the `didChange` invariant through the linking cascade, part 1 (definitions, frames, `markMapRefUnknown`)

Port of `MapRef20`.  Reused as they are (from `MapRefH`): `VFrame`, `PP`, `Lt`, `lt_run`, `markMapRefUnknown_lt`, `FM`.
New: `MkV` (= `Mk` with VALIDITY: `markMapRefUnknown` reads `kind?`, an invalid map_ref node is not marked and the marking does
not go through it), `CK rk s` (the part of `CFrag` the cascade uses: it is preserved by `CFrame`), `GRk`.
-/
namespace IncrVerif.Proofs.FullH
open IncrVerif.Engine IncrVerif.Proofs IncrVerif.Proofs.Step IncrVerif.Proofs.Sched IncrVerif.Proofs.Quiet
open IncrVerif.Proofs.MapRefH

/-- the nodes `markMapRefUnknown n` marks: `n` if it is a VALID map_ref node, and from a valid map_ref node on to its recorded
parents.  `MkV s a n`: `a` is marked by `markMapRefUnknown n` -/
inductive MkV (s : State) : Nat → Nat → Prop
  | self {n : Nat} : (s.nodeD n).valid = true → IsMapRef (s.nodeD n).kind → MkV s n n
  | up {n p ci a : Nat} : (s.nodeD n).valid = true → IsMapRef (s.nodeD n).kind → (p, ci) ∈ (s.nodeD n).parents →
      MkV s a p → MkV s a n

theorem MkV.isMapRef {s : State} {a n : Nat} (h : MkV s a n) : IsMapRef (s.nodeD n).kind := by
  cases h with
  | self _ h => exact h
  | up _ h _ _ => exact h

theorem MkV.valid {s : State} {a n : Nat} (h : MkV s a n) : (s.nodeD n).valid = true := by
  cases h with
  | self h _ => exact h
  | up h _ _ _ => exact h

/-- `MkV` only reads kinds, validity and parent lists, and is monotone in the parent lists -/
theorem MkV.mono {s s' : State} (hk : ∀ m, (s'.nodeD m).kind = (s.nodeD m).kind)
    (hv : ∀ m, (s'.nodeD m).valid = (s.nodeD m).valid)
    (hp : ∀ m x, x ∈ (s.nodeD m).parents → x ∈ (s'.nodeD m).parents) {a n : Nat} (h : MkV s a n) : MkV s' a n := by
  induction h with
  | self h0 h => exact MkV.self (by rw [hv]; exact h0) (by rw [hk]; exact h)
  | up h0 h1 h2 _ ih => exact MkV.up (by rw [hv]; exact h0) (by rw [hk]; exact h1) (hp _ _ h2) ih

/-! ## the frames: `Unclean`, `KN`, `Inherit` -/

theorem unclean_vframe {env : Env} {g : Nat → Option Val} {s s' : State} (h : VFrame s s') (m : Nat) :
    Unclean env g s' m ↔ Unclean env g s m := by
  unfold Unclean; rw [h.value_eq]

theorem Inherit.of_vframe {env : Env} {g : Nat → Option Val} {s s' : State} (h : VFrame s s')
    (T : Inherit env g s) : Inherit env g s' := by
  intro m pr i hv hk hst hu
  rw [h.kind] at hk
  rw [h.valid] at hv
  rw [h.isStale_mapRef hk] at hst
  rw [unclean_vframe h] at hu
  obtain ⟨h1, h2⟩ := T m pr i hv hk hst hu
  exact ⟨by rw [h.kind]; exact h1, (unclean_vframe h i).2 h2⟩

theorem Inherit.of_cframe {env : Env} {g : Nat → Option Val} {s s' : State} (h : CFrame s s')
    (T : Inherit env g s) : Inherit env g s' := T.of_vframe h.toV

/-- `KN` is monotone: kinds, validity and read values constant, flags only go up -/
theorem KN.mono {env : Env} {g : Nat → Option Val} {s s' : State} (h : VFrame s s') (fm : FM s s') {m : Nat}
    (K : KN env g s m) : KN env g s' m := by
  intro hv hk hu
  rw [h.kind] at hk
  rw [h.valid] at hv
  exact fm m (K hv hk ((unclean_vframe h m).1 hu))

/-! ## `CK`: the part of `CFrag` the cascade uses -/

/-- what the linking cascade reads of the fragment: no expert nodes, the rank decreases along child edges, children are valid -/
structure CK (rk : Nat → Nat) (s : State) : Prop where
  noExp : ∀ n e, (s.nodeD n).kind ≠ .expert e
  kidLt : ∀ n c, c ∈ s.children n → rk c < rk n
  kidsValid : ∀ n c, c ∈ s.children n → (s.nodeD c).valid = true

theorem CFrag.toCK {env : Env} {sp : Nat → Val → Val} {g : Nat → Option Val} {rk : Nat → Nat} {s : State}
    (F : CFrag env sp g rk s) : CK rk s := ⟨F.frag.fr.noExp, F.kidLt, F.kidsValid⟩

namespace KC

theorem cframe_binds {s s' : State} (h : CFrame s s') : s'.binds = s.binds := by
  have := h.key; simp only [stateKey, Prod.mk.injEq] at this; exact this.2.2.2.2.2.2.2.2.2.2.2.2.2.2.2.2.1

theorem children_congr {s s' : State} {n : Nat} (hq : (s'.nodeD n).kind? = (s.nodeD n).kind?)
    (hb : s'.binds = s.binds) (hx : ∀ e, (s.nodeD n).kind ≠ .expert e) : s'.children n = s.children n := by
  unfold State.children
  rw [hq, hb]
  cases hk : (s.nodeD n).kind? with
  | none => rfl
  | some k =>
    cases k <;> try rfl
    rename_i e
    exfalso
    simp only [Node.kind?] at hk
    split at hk
    · exact hx e (Option.some.inj hk)
    · cases hk

theorem cframe_children {s s' : State} (h : CFrame s s') (hx : ∀ n e, (s.nodeD n).kind ≠ .expert e) (n : Nat) :
    s'.children n = s.children n :=
  children_congr (h.toV.kind? n) (cframe_binds h) (hx n)

/-- the children of a valid map_ref node -/
theorem children_mapRef {s : State} {n pr i : Nat} (hv : (s.nodeD n).valid = true)
    (hk : (s.nodeD n).kind = .mapRef pr i) : s.children n = [i] := by
  unfold State.children
  simp [Node.kind?, hv, hk]

end KC

theorem CK.of_cframe {rk : Nat → Nat} {s s' : State} (h : CFrame s s') (F : CK rk s) : CK rk s' := by
  have hc := KC.cframe_children h F.noExp
  refine ⟨fun n e => by rw [h.kind]; exact F.noExp n e, fun n c hm => ?_, fun n c hm => ?_⟩
  · rw [hc] at hm; exact F.kidLt n c hm
  · rw [hc] at hm; rw [h.toV.valid]; exact F.kidsValid n c hm

/-! ## `GRk`: the relation between the states of a linking cascade -/

/-- the relation between the states of a linking cascade: the frame, flags only go up, the pending invalidations
are untouched, parent lists only grow -/
structure GRk (s s' : State) : Prop where
  fr : CFrame s s'
  fm : FM s s'
  pinv : s'.propagateInvalidity = s.propagateInvalidity
  par : ∀ m x, x ∈ (s.nodeD m).parents → x ∈ (s'.nodeD m).parents

theorem GRk.refl (s : State) : GRk s s := ⟨CFrame.refl s, PreOrd.refl s, rfl, fun _ _ h => h⟩
theorem GRk.trans {a b c : State} (h1 : GRk a b) (h2 : GRk b c) : GRk a c :=
  ⟨h1.fr.trans h2.fr, PreOrd.trans h1.fm h2.fm, h2.pinv.trans h1.pinv, fun m x h => h2.par m x (h1.par m x h)⟩

theorem GRk.of_lt {s s' : State} (h : Lt s s') : GRk s s' :=
  ⟨h.fr, h.fm, h.pp.2, fun m x hx => by rw [h.pp.1]; exact hx⟩

theorem GRk.vframe {s s' : State} (h : GRk s s') : VFrame s s' := h.fr.toV

theorem GRk.mk_mono {s s' : State} (h : GRk s s') {a n : Nat} (hm : MkV s a n) : MkV s' a n :=
  hm.mono h.fr.kind h.fr.toV.valid h.par

theorem GRk.kn {env : Env} {g : Nat → Option Val} {s s' : State} (h : GRk s s') {m : Nat} (K : KN env g s m) :
    KN env g s' m := K.mono h.fr.toV h.fm

theorem GRk.ck {rk : Nat → Nat} {s s' : State} (h : GRk s s') (F : CK rk s) : CK rk s' := F.of_cframe h.fr

namespace KC

theorem lt_kn {env : Env} {g : Nat → Option Val} {s s' : State} (h : Lt s s') {m : Nat} (K : KN env g s m) :
    KN env g s' m := K.mono h.fr.toV h.fm

theorem lt_mk {s s' : State} (h : Lt s s') {a n : Nat} (hm : MkV s a n) : MkV s' a n :=
  hm.mono h.fr.kind h.fr.toV.valid (fun m x hx => by rw [h.pp.1]; exact hx)

end KC

/-! ## `markMapRefUnknown` marks -/

/-- **(1)** a successful `markMapRefUnknown n` raises the flag of every node of `MkV s · n` -/
theorem markMapRefUnknown_marksV {fuel n : Nat} {s s' : State} {u : Unit}
    (h : (Engine.markMapRefUnknown fuel n).run.run s = (.ok u, s')) :
    ∀ a, MkV s a n → (s'.nodeD a).didChange = true := by
  induction fuel generalizing n s s' u with
  | zero => unfold Engine.markMapRefUnknown at h; cases h
  | succ fuel ih =>
    intro a hm
    have hmr := hm.isMapRef
    obtain ⟨pr, i, hk⟩ := isMapRef_iff.1 hmr
    unfold Engine.markMapRefUnknown at h
    obtain ⟨nd, hnd, h⟩ := bind_getNode_inv h
    have hndD : s.nodeD n = nd := nodeD_of_some hnd
    have hn : n < s.nodes.size := lt_of_some hnd
    have hq : nd.kind? = some (.mapRef pr i) := by rw [← hndD, Node.kind?, hm.valid, hk]; rfl
    rw [hq] at h
    dsimp only at h
    obtain ⟨s1, hs1, h⟩ := bind_modNode_inv h
    obtain ⟨nd1, hnd1, h⟩ := bind_getNode_inv h
    have L1 : Lt s s1 := by
      rw [hs1]
      exact ⟨CFrame.modNode s n _ (fun _ => rfl), FM.modNode s n _ (fun _ _ => rfl), PP.modNode s n _ (fun _ => rfl)⟩
    have hflag1 : (s1.nodeD n).didChange = true := by
      rw [hs1, nodeD_modify, if_pos ⟨rfl, hn⟩]
    have hpar1 : nd1.parents = (s.nodeD n).parents := by
      rw [← nodeD_of_some hnd1]; exact L1.pp.1 n
    rw [hpar1] at h
    obtain ⟨_, s2, hloop, h⟩ := bind_ok_inv h
    obtain ⟨-, e⟩ := pure_ok_inv h
    rw [e]
    have L := forIn_inv_post (fun t => Lt s t)
      (fun (x : Nat × Nat) t => ∀ a, MkV s a x.1 → (t.nodeD a).didChange = true) _ (s.nodeD n).parents
      (by
        intro x hx t r t' Lt' hb
        obtain ⟨p, ci⟩ := x
        obtain ⟨_, t1, hcall, hb⟩ := bind_ok_inv hb
        obtain ⟨hr, e⟩ := pure_ok_inv hb
        rw [← e] at hcall
        refine ⟨Lt'.trans (markMapRefUnknown_lt hcall), hr, fun a ha => ?_⟩
        exact ih hcall a (KC.lt_mk Lt' ha))
      (by
        intro x y hy t r t' Lt' hp hb a ha
        obtain ⟨p, ci⟩ := y
        obtain ⟨_, t1, hcall, hb⟩ := bind_ok_inv hb
        obtain ⟨hr, e⟩ := pure_ok_inv hb
        rw [← e] at hcall
        exact (markMapRefUnknown_lt hcall).fm a (hp a ha))
      s1 _ s2 L1 hloop
    obtain ⟨L2, hall⟩ := L
    cases hm with
    | self _ _ =>
      have : FM s1 s2 := by
        refine Step.Pres.h ?_ _ _ _ hloop
        apply Step.Pres.forIn; intro a b; qpres
      exact this n hflag1
    | up _ _ hmem hup => exact hall _ hmem a hup

end IncrVerif.Proofs.FullH
