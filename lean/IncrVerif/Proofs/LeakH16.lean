import IncrVerif.Proofs.LeakH15
/-!
# C12 over histories, part 16: node handles may be dropped at any time

`dropHandle` changes nothing but the program's list of node handles, which the invariant does not read: the
prefix of the history may interleave `dropHandle` with the static actions.
-/
namespace IncrVerif.Proofs.LeakH
open IncrVerif.Engine IncrVerif.Driver IncrVerif.Proofs IncrVerif.Proofs.Step IncrVerif.Proofs.Sched
open IncrVerif.Proofs.Quiet IncrVerif.Proofs.Own

/-- the static fragment plus `dropHandle` -/
def PrefixAction (env : Env) (a : Action) : Prop := StaticAction env a ∨ ∃ o, a = .dropHandle o

theorem qinv_handles {env : Env} {s : State} (Q : QInv env s) (hs : List Nat) :
    QInv env { s with handles := hs } :=
  ⟨Q.struct.congr (SameG.of_nodes rfl rfl rfl rfl rfl), ⟨Q.vars.node, Q.vars.cell⟩,
    ⟨Q.obs.inRange, Q.obs.mem, Q.obs.created, Q.obs.newIn, Q.obs.dis, Q.obs.disIn, Q.obs.disNodup⟩,
    Q.now, Q.stamps, Q.varStamp, Q.cons, Q.status, Q.alive, Q.setDuringStab, Q.deadVars, Q.handleAfterStab,
    Q.handlers, Q.pinv, Q.top⟩

theorem prefix_step {env : Env} {s s' : State} {a : Action} {tk : Array Nat} {r : String × Array Nat}
    (Q : QInv env s) (L : VarLive s) (ha : PrefixAction env a)
    (h : (stepAction env a tk).run.run s = (.ok r, s')) : QInv env s' ∧ VarLive s' := by
  rcases ha with ha | ⟨o, rfl⟩
  · exact ⟨step_q Q ha h, varLive_step Q L ha h⟩
  · rw [dropHandle_run] at h
    cases hr : resolve s [] o with
    | error p => rw [hr] at h; cases h
    | ok n =>
      rw [hr] at h
      dsimp only at h
      split at h
      · obtain ⟨-, e⟩ := Prod.mk.inj h
        rw [← e]; exact ⟨qinv_handles Q _, L⟩
      · obtain ⟨-, e⟩ := Prod.mk.inj h
        rw [← e]; exact ⟨Q, L⟩

theorem prefix_run {env : Env} {acts : List Action} {s s' : State} {tk tk' : Array Nat}
    (Q : QInv env s) (L : VarLive s) (ha : ∀ a, a ∈ acts → PrefixAction env a)
    (h : runActions env acts s tk = .ok (s', tk')) : QInv env s' ∧ VarLive s' := by
  induction acts generalizing s tk with
  | nil => simp only [runActions] at h; cases h; exact ⟨Q, L⟩
  | cons a as ih =>
    simp only [runActions] at h
    rcases hx : (stepAction env a tk).run.run s with ⟨_ | r, s1⟩
    · rw [hx] at h; cases h
    · rw [hx] at h
      obtain ⟨Q1, L1⟩ := prefix_step Q L (ha a (List.mem_cons_self ..)) hx
      exact ih Q1 L1 (fun b hb => ha b (List.mem_cons_of_mem _ hb)) h

theorem history_dinv_gen {env : Env} {N : Nat} {d : Bool} {acts drops : List Action} {s : State}
    {tk : Array Nat} (ha : ∀ a, a ∈ acts → PrefixAction env a) (hd : ∀ a, a ∈ drops → DropAction a)
    (h : runActions env (acts ++ drops) (State.init N d) #[] = .ok (s, tk)) : DInv env s := by
  rw [runActions_append] at h
  rcases h1 : runActions env acts (State.init N d) #[] with e | ⟨s1, tk1⟩
  · rw [h1] at h; cases h
  · rw [h1] at h
    obtain ⟨Q1, L1⟩ := prefix_run (qinv_init env N d) (varLive_init N d) ha h1
    have OD1 : ObsDead s1 := obsDead_run (obsDead_init N d) h1
    exact drop_run (dinv_of_live Q1 L1 OD1) hd h

/-- the whole-history statement with drop-order independence, for prefixes that also drop node handles -/
theorem history_perm_freed_gen {env : Env} {N : Nat} {d : Bool} {acts drops drops' : List Action} {s : State}
    {tk : Array Nat} (ha : ∀ a, a ∈ acts → PrefixAction env a) (hd : ∀ a, a ∈ drops → DropAction a)
    (hp : drops'.Perm drops)
    (hrun : runActions env (acts ++ drops) (State.init N d) #[] = .ok (s, tk)) (H : HoldsNothing s) :
    ∃ s2 tk2, runActions env (acts ++ drops') (State.init N d) #[] = .ok (s2, tk2) ∧ HoldsNothing s2 ∧
      DInv env s2 ∧
      ∀ fuel s', (stabilise env fuel).run.run s2 = (.ok (), s') → s'.roots = [] := by
  rw [runActions_append] at hrun
  rcases h0 : runActions env acts (State.init N d) #[] with e | ⟨s0, tk0⟩
  · rw [h0] at hrun; cases hrun
  · rw [h0] at hrun
    obtain ⟨s2, tk2, h2, H2⟩ := perm_runs_holdsNothing hd hp hrun H
    have hrun2 : runActions env (acts ++ drops') (State.init N d) #[] = .ok (s2, tk2) := by
      rw [runActions_append, h0]; exact h2
    have I2 := history_dinv_gen ha (fun a hm => hd a (hp.mem_iff.1 hm)) hrun2
    exact ⟨s2, tk2, hrun2, H2, I2, fun fuel s' hs => freed_roots I2 H2 hs⟩

end IncrVerif.Proofs.LeakH
