import IncrVerif.Proofs.PerKeyH13
import IncrVerif.Proofs.PerKeyH34
/-!
# A run of a per-key change detector, part 2: shared infrastructure (twin/actual transport, `Pot.below`)
-/
namespace IncrVerif.Proofs.PerKeyH
open IncrVerif.Engine IncrVerif.Driver IncrVerif.Proofs IncrVerif.Proofs.Step IncrVerif.Proofs.Sched
open IncrVerif.Proofs.ExpertH IncrVerif.Proofs.EffH IncrVerif.Proofs.DriverH IncrVerif.Proofs.ExpertH.QR

/-! ## 1. twin/actual transport -/

theorem kidsX_twL (l : List Event) (σ : State) (a : Nat) :
    kidsX (twL l σ).experts ((twL l σ).nodeD a).kind = kidsX σ.experts (σ.nodeD a).kind := by
  rw [KtwL_experts, KtwL_kind, KkidsX_tw]

theorem below_tw (l : List Event) (σ : State) (a b : Nat) :
    ExpertH.Below (twL l σ) a b ↔ ExpertH.Below σ a b := by
  constructor
  · intro h
    induction h with
    | refl a => exact .refl a
    | @step a b c h1 _ ih => exact .step (by rw [kidsX_twL] at h1; exact h1) ih
  · intro h
    induction h with
    | refl a => exact .refl a
    | @step a b c h1 _ ih => exact .step (by rw [kidsX_twL]; exact h1) ih

theorem good_tw (env : Env) (l : List Event) (σ : State) (er : ExpertRec) :
    Good (twEnv env) (twL l σ) (twRec er) ↔ Good env σ er := by
  unfold Good
  simp only [twRec_children, twRec_slots, twL_value]

theorem slotInv_tw (env : Env) (l : List Event) (σ : State) :
    SlotInv (twEnv env) (twL l σ) ↔ SlotInv env σ := by
  constructor
  · intro S
    refine ⟨fun e er he => ?_, fun n e er hk he hw => ?_, fun n e er hk he hw => ?_⟩
    · have := S.deps e (twRec er) (by rw [KtwL_expert?, he]; rfl)
      exact this
    · have := S.flag n e (twRec er) (by rw [KtwL_kind, hk]; rfl) (by rw [KtwL_expert?, he]; rfl) hw
      rwa [KtwL_isNecessary] at this
    · have := S.good n e (twRec er) (by rw [KtwL_kind, hk]; rfl) (by rw [KtwL_expert?, he]; rfl)
        (by rw [KtwL_isStale]; exact hw)
      exact (good_tw env l σ er).1 this
  · intro S
    refine ⟨fun e er' he => ?_, fun n e er' hk he hw => ?_, fun n e er' hk he hw => ?_⟩
    · rw [KtwL_expert?] at he
      cases hx : σ.experts[e]? with
      | none => rw [hx] at he; cases he
      | some er =>
        rw [hx] at he; cases he
        exact S.deps e er hx
    · rw [KtwL_expert?] at he
      rw [KtwL_kind, KtwKind_eq_expert] at hk
      cases hx : σ.experts[e]? with
      | none => rw [hx] at he; cases he
      | some er =>
        rw [hx] at he; cases he
        rw [KtwL_isNecessary]
        exact S.flag n e er hk hx hw
    · rw [KtwL_expert?] at he
      rw [KtwL_kind, KtwKind_eq_expert] at hk
      rw [KtwL_isStale] at hw
      cases hx : σ.experts[e]? with
      | none => rw [hx] at he; cases he
      | some er =>
        rw [hx] at he; cases he
        exact (good_tw env l σ er).2 (S.good n e er hk hx hw)

theorem Pot.below {σ : State} {ψ : Nat → Nat} {a b : Nat} (P : Pot σ ψ) (h : ExpertH.Below σ a b) : ψ b ≤ ψ a := by
  induction h with
  | refl a => exact Nat.le_refl _
  | @step a b c h1 _ ih =>
    by_cases ha : a < σ.nodes.size
    · exact Nat.le_trans ih (P.mono a b ha h1)
    · rw [nodeD_default_of_ge σ a (by omega)] at h1
      cases h1

end IncrVerif.Proofs.PerKeyH
