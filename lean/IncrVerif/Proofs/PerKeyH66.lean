import IncrVerif.Proofs.PerKeyH65
/-!
# One `.right` iteration of the per-key loop, part g: **`iterRight`**
-/
namespace IncrVerif.Proofs.PerKeyH
open IncrVerif.Engine IncrVerif.Driver IncrVerif.Proofs IncrVerif.Proofs.Step IncrVerif.Proofs.Sched
open IncrVerif.Proofs.ExpertH IncrVerif.Proofs.EffH IncrVerif.Proofs.DriverH IncrVerif.Proofs.ExpertH.QR IncrVerif.Proofs.Xp

/-- two expert nodes with the same record are the same node -/
theorem r_xinj {env : Env} {σ : State} (F : PFrag env σ) {a b e : Nat} (ha : a < σ.nodes.size)
    (hb : b < σ.nodes.size) (hka : (σ.nodeD a).kind = .expert e) (hkb : (σ.nodeD b).kind = .expert e) : a = b := by
  obtain ⟨er, he, hn⟩ := F.xrec a e ha hka
  obtain ⟨er2, he2, hn2⟩ := F.xrec b e hb hkb
  rw [he] at he2; cases he2
  exact hn.symm.trans hn2

/-- the node the instance returns is a new node or a named node -/
theorem r_mapped {env : Env} {op : Nat} {key : Int} {lc : Nat} {tm : Template} {D : Nat → Prop} {σ τ : State}
    {mapped : Nat} (R : RSh env op key lc tm D σ τ mapped) (hT : TemplOK env tm) :
    σ.nodes.size ≤ mapped ∨ ∃ k : Nat, σ.top[k]? = some mapped := by
  have hret := R.ret
  have hO := hT.ret
  cases hr : tm.ret with
  | loc i =>
    rw [hr] at hret
    have hm : mapped ∈ σ.nodes.size :: List.range' (σ.nodes.size + 1) tm.instrs.length :=
      List.mem_of_getElem? (show (σ.nodes.size :: List.range' (σ.nodes.size + 1) tm.instrs.length)[i]? = some mapped from hret)
    rcases List.mem_cons.1 hm with h | h
    · exact Or.inl (by omega)
    · have := List.mem_range'_1.1 h; exact Or.inl (by omega)
  | outer k =>
    rw [hr] at hret
    exact Or.inr ⟨k, hret⟩
  | abs _ => rw [hr] at hO; exact hO.elim
  | slot _ => rw [hr] at hO; exact hO.elim

/-- **one `.right` iteration (a new key) keeps the loop invariant** -/
theorem iterRight (env : Env) : IterRight env := by
  intro s n op pr eres rk uk σ σ' fuel key v B I hnone hrk hrun
  obtain ⟨pn, hop⟩ := I.pop
  obtain ⟨er0, X⟩ := r_cx B I hop
  have S0 := r_s0 I.lf
  have hOK := B.pd.aux.pk.ops op pr B.hop
  have hrs : pr.result < s.nodes.size := by
    obtain ⟨xs, es, ers, hNs, -⟩ := hOK.nodes
    have := hNs.lt; omega
  obtain ⟨mapped, dep, σ5, hσ', R, E, R5, hpk5⟩ := r_chain I hop X hrun
  have hT : TemplOK env (env.perKey pr.fam) := X.core.templ
  have hlc : pr.lhsChange < σ.nodes.size := by have := X.lc; have := X.rlt; omega
  -- the key is new
  have hlk : pn.lookup key = none := by
    have := I.dom _ hop key
    rw [hnone] at this
    simp only [Option.isSome_none, Bool.false_or, decide_eq_false hrk] at this
    exact Option.not_isSome_iff_eq_none.1 (by rw [this]; simp)
  have hfresh : ∀ x, x ∈ pn → x.1 ≠ key := by
    intro x hx he
    have := List.lookup_eq_none_iff.1 hlk x hx
    simp [he] at this
  have hfilter : pn.filter (·.1 != key) = pn := by
    rw [List.filter_eq_self]
    intro a ha
    simpa using hfresh a ha
  have hop' : σ'.perkeys[op]? = some { pr with prevNodes := (key, (σ.nodes.size, dep)) :: pn } := by
    rw [E.perkeys, Array.getElem?_modify, if_pos rfl, hop]
    show some _ = some _
    simp only [hfilter]
  obtain ⟨er6, he6, hch6, hfs6⟩ := E.xres
  have hkres : (σ'.nodeD pr.result).kind = .expert eres := by
    rw [R.kind_old (by have := X.rlt; omega)]; exact X.hres
  obtain ⟨ψ, P⟩ := I.pot
  have hPop := P.op op _ hop
  have hout : ∀ k, k ∈ templOuter (env.perKey pr.fam) → ∀ o, σ.top[k]? = some o → o < pr.lhsChange := by
    intro k hk o ho
    obtain ⟨o', h1, h2⟩ := X.out k hk
    rw [ho] at h1; cases h1
    have := X.lc; omega
  refine
    { mid := R.mid, lf := I.lf.trans R.lfx.lf, frag := R.frag hT I.frag, slots := R.slots, obs := R.obs I.obs,
      psize := by rw [E.perkeys, Array.size_modify]; exact I.psize,
      pother := fun op' h => by rw [E.perkeys, Array.getElem?_modify, if_neg (Ne.symm h)]; exact I.pother op' h,
      pop := ⟨_, hop'⟩,
      core := fun pr' h => by
        rw [hop'] at h; cases h
        exact r_opcore R E I.mid I.frag I.slots X.core X.hres X.he hfresh X.named R.inst (Or.inr R.input_new),
      dom := ?_, pnOld := ?_, newrec := ?_, pot := ?_, newKids := ?_, resKids := ?_,
      resNec := R.lfx.lf.nec _ I.resNec,
      forcedU := ?_, resAlt := ?_, fsame := ?_ }
  · -- dom
    intro pr' h k
    rw [hop'] at h; cases h
    show (((key, (σ.nodes.size, dep)) :: pn).lookup k).isSome = _
    by_cases hk : k = key
    · subst hk
      simp
    · have h1 : (k == key) = false := by simpa using hk
      rw [List.lookup_cons, h1, I.dom _ hop k]
      simp [hk]
  · -- pnOld
    intro pr' h key' p d hm
    rw [hop'] at h; cases h
    exact List.mem_cons_of_mem _ (I.pnOld _ hop key' p d hm)
  · -- newrec
    intro e er hge he
    by_cases hlt : e < σ.experts.size
    · have h1 : σ.experts[e]? = some σ.experts[e] := Array.getElem?_eq_getElem hlt
      obtain ⟨er2, he2, -, k2, k3, -⟩ := R.lfx.lf.xrec e _ h1
      rw [he] at he2; cases he2
      obtain ⟨pr', key', d, hp, hpk, hmem⟩ := I.newrec e _ hge h1
      rw [hop] at hp; cases hp
      exact ⟨_, key', d, hop', k3.trans hpk, by rw [k2]; exact List.mem_cons_of_mem _ hmem⟩
    · obtain ⟨erX, hx, x1, x2, x3, x4, x5⟩ := R.xnew
      have hlt2 := (Array.getElem?_eq_some_iff.1 he).1
      rw [R.xsize] at hlt2
      have : e = σ.experts.size := by omega
      subst this
      rw [hx] at he; cases he
      exact ⟨_, key, dep, hop', x3, by rw [x2]; exact List.mem_cons_self ..⟩
  · -- pot
    have hlcψ : ψ pr.lhsChange = 2 * pr.lhsChange := hPop.2.1
    have hresψ : ψ pr.result = 2 * pr.lhsChange + 1 := hPop.1
    have he5 : σ5.experts[eres]? = some er6 := by rw [hσ'] at he6; exact he6
    have P5 : Pot σ5 (rPsi σ pr.lhsChange ψ) := by
      refine R5.pot hT I.mid P X.named hlc hlcψ hout hpk5 X.ops ?_
      intro n' e er er' ed hn hk hd he he' hed
      subst hd
      rw [X.he] at he; cases he
      rw [he5] at he'; cases he'
      rw [hch6] at hed
      rcases List.mem_append.1 hed with h | h
      · exact Or.inl h
      · right
        rw [List.mem_singleton.1 h]
        have h2 := R5.pot_mapped hT P hlc hout
        have : n' = pr.result := r_xinj I.frag hn (by have := X.rlt; omega) hk X.hres
        rw [this, hresψ]
        show rPsi σ pr.lhsChange ψ mapped ≤ _
        omega
    refine ⟨rPsi σ pr.lhsChange ψ, ?_⟩
    rw [hσ']
    exact pot_cons (pr5 := { pr with prevNodes := pn }) P5 (by rw [hpk5]; exact hop) (rPsi_ge (Nat.le_refl _))
  · -- newKids
    intro c x hc1 hc2 hx
    by_cases hlt : c < σ.nodes.size
    · rcases R.oldKids I.mid hlt hx with h | ⟨e, er, er', ed, hk, hd, -⟩
      · exact I.newKids c x hc1 hlt h
      · subst hd
        have : c = pr.result := r_xinj I.frag hlt (by have := X.rlt; omega) hk X.hres
        omega
    · rcases R.newKids hT c x (Nat.not_lt.1 hlt) hc2 hx with h | ⟨h, -⟩ | ⟨k, -, h⟩
      · exact Or.inl h
      · exact Or.inr (Or.inl (Nat.le_trans S0.grow h))
      · exact Or.inr (Or.inr ⟨k, by rw [← S0.top]; exact h⟩)
  · -- resKids
    intro ers er' hs h ed hed
    rw [he6] at h; cases h
    rw [hch6] at hed
    rcases List.mem_append.1 hed with h | h
    · exact I.resKids ers er0 hs X.he ed h
    · rw [List.mem_singleton.1 h]
      rcases r_mapped R hT with h1 | ⟨k, h1⟩
      · exact Or.inr (Or.inl (Nat.le_trans S0.grow h1))
      · exact Or.inr (Or.inr ⟨k, by rw [← S0.top]; exact h1⟩)
  · -- forcedU
    intro key' p d hk hm
    have h0 := I.forcedU key' p d hk hm
    have hplt : p < σ.nodes.size := (X.ops op _ hop).2.2 key' p d (I.pnOld _ hop key' p d hm)
    exact R.lfx.lf.stamp hplt h0
  · -- resAlt
    right
    rw [hkres]
    simp only [ExpertH.forced, xRec_some he6]
    exact hfs6
  · -- fsame
    intro e ers er'' hne hs h
    obtain ⟨er1, h1, -⟩ := I.lf.xrec e ers hs
    have h2 := R.lfx.fs e er1 er'' hne h1 h
    rcases I.fsame e ers er1 hne hs h1 with h3 | h3
    · exact Or.inl (h2.trans h3)
    · exact Or.inr h3

end IncrVerif.Proofs.PerKeyH
