import IncrVerif.Proofs.NestH109
import IncrVerif.Proofs.NestH103
import IncrVerif.Proofs.NestH112
import IncrVerif.Proofs.NestH75
import IncrVerif.Proofs.Invalidation
/-!
# Total correctness for nested binds (F2), part i1: `stabilise` returns if the state it ends in has room

`stabilise_total2 : DrainTot env N → StabTot env N`.  From `QT env N s` (`QInv2`, `TInv2`, `RhsRan` for some ghost rank): IF the state `stabilise env fuel` ends in
(whatever the outcome) has at most `N` nodes and `needFuel` of that count is `≤ fuel`, THEN it returned, and `QT env N` holds again.

* the node count only grows, for every outcome (`Inval.PresMono.stabilise`), so the start state has room too;
* the status assertion holds (`QInv2.status`); the two observer loops return (`addNewObservers_total2`, `unlinkDisallowedObservers_total2`: no node is created);
* the drain starts in a state with `DInv`, `F2Inv` (`N4s.drain_start2`), `HBo2` (prefix totals), `RhsRan` (the prefix keeps `binds`, `valid`, `recomputedAt`: `C2s.PreF`),
  `Lim`; if it panicked, the final state would be the drain's final state, which has room: contradiction with `D : DrainTot env N`;
* so the drain returned; the PARTIAL facts (`drainHeap_invB2` with `lcStepF2`) give `DInv`, the `DKey`/`NKey` frame; `stabiliseEnd` returns (`Quiet.stabiliseEnd_total`) and keeps the
  node count, so the state after the drain has room, and `D` gives `DT env N` for it (`F2Inv`, `HBo2`, `RhsRan`, `Lim` for a NEW rank);
* `N4s.qinv2_end` (that rank), `TInv2` and `RhsRan` through `stabiliseEnd` (`Finished'`).
-/
namespace IncrVerif.Proofs.NestH
open IncrVerif.Engine IncrVerif.Driver IncrVerif.Proofs IncrVerif.Proofs.Step IncrVerif.Proofs.Sched IncrVerif.Proofs.Quiet
open IncrVerif.Proofs.BindH

namespace T2i

/-- `RhsRan` reads the bind table and, of the nodes, validity and the `recomputedAt` stamp -/
theorem rhsRan_congr {s s' : State} (H : RhsRan s) (hb : s'.binds = s.binds)
    (hv : ∀ m, (s'.nodeD m).valid = (s.nodeD m).valid)
    (hr : ∀ m, (s'.nodeD m).recomputedAt = (s.nodeD m).recomputedAt) : RhsRan s' := by
  intro b br hbr h1 h2
  rw [hb] at hbr
  rw [hv] at h1
  rw [hr] at h2
  exact H b br hbr h1 h2

/-- the node count only grows in `stabilise`, whatever the outcome -/
theorem stabilise_size {env : Env} {fuel : Nat} {s s' : State} {r : Except Panic Unit}
    (h : (stabilise env fuel).run.run s = (r, s')) : s.nodes.size ≤ s'.nodes.size :=
  ((Inval.PresMono.stabilise env fuel).h s r s' h).size

/-- the node count only grows in the drain, whatever the outcome -/
theorem drainHeap_size {env : Env} {fuel : Nat} {s s' : State} {r : Except Panic Unit}
    (h : (drainHeap env fuel).run.run s = (r, s')) : s.nodes.size ≤ s'.nodes.size :=
  ((Inval.PresMono.drainHeap env fuel).h s r s' h).size

/-- `TInv2` and `RhsRan` through `stabiliseEnd` -/
theorem tinv2_end {rk : Nat → Nat} {N : Nat} {s t3 s' : State} (E : Finished' t3 s') (hb3 : HBo2 rk t3 allClosed) (L3 : Lim N t3)
    (hN : s'.nodes.size ≤ N) (hvars : t3.vars = s.vars) (T : TInv2 rk0 N0 s) (hno : t3.newObservers = []) : TInv2 rk N s' := by
  have hE : ∀ m, NodeG (t3.nodeD m) (s'.nodeD m) := by
    intro m
    obtain ⟨b, hb⟩ := E.node m
    rw [hb]
    exact ⟨rfl, rfl, rfl, rfl, rfl, rfl, rfl, rfl, rfl, rfl, rfl⟩
  have G3 : SameG t3 s' := ⟨E.pc, E.scope, E.size, E.rch, E.vars, hE⟩
  refine ⟨?_, ⟨?_, ?_, hN⟩, ?_, ?_, ?_⟩
  · intro m hm ho
    rw [(hE m).height, E.size]
    exact hb3 m (by rw [← G3.nec]; exact hm) ho
  · rw [E.ahh]; exact L3.ahh
  · rw [E.rch]; exact L3.rch
  · intro c vc hc
    rw [E.vars, hvars] at hc
    exact T.linked c vc hc
  · rw [E.newObservers, hno]; exact List.nodup_nil
  · intro o ob ho
    rw [E.newObservers, hno] at ho; cases ho

end T2i

set_option maxHeartbeats 1000000 in
/-- **`stabilise` on a program with nested binds returns** if the state it ends in — whatever the outcome — has room (`HasRoom N fuel`: at most `N` nodes, and
`needFuel` of the node count within `fuel`), given the same for the drain; the invariant between API actions for the "no panic" argument is kept. -/
theorem stabilise_total2 {env : Env} {N : Nat} (D : DrainTot env N) : StabTot env N := by
  intro fuel s ⟨rk, Q, T, H⟩ r s' hrun hroom
  obtain ⟨hN, hF⟩ := hroom
  have hsz : s.nodes.size ≤ s'.nodes.size := T2i.stabilise_size hrun
  have hF0 : 4 * s.nodes.size + 8 ≤ fuel := by unfold needFuel at hF; omega
  -- the state with the status set
  obtain ⟨s0, hs0⟩ : ∃ s0 : State, s0 = { s with status := .stabilising } := ⟨_, rfl⟩
  have hnd0 : ∀ m, s0.nodeD m = s.nodeD m := fun m => by rw [hs0]; rfl
  have hsz0 : s0.nodes.size = s.nodes.size := by rw [hs0]
  have S0 : SInv2 env rk s0 s0.newObservers s0.disallowedObservers := by
    have I0 : SInv2 env rk s s.newObservers s.disallowedObservers := SInv2.of_qinv2 Q
    rw [hs0]
    exact N4p.sInv2_congr I0 rfl rfl rfl rfl rfl rfl rfl rfl
  have hb0 : HBo2 rk s0 allClosed := by
    intro m hm ho
    rw [hnd0, hsz0]; exact T.hb m (by rw [State.isNecessary, ← hnd0]; exact hm) ho
  have R0 : Room N s0 := by rw [hs0]; exact ⟨T.room.ahh, T.room.rch, T.room.size⟩
  -- the two loops (no node is created)
  obtain ⟨_, t1, h1, hb1, R1, S1, hn1, hd1, F1, O1, -, M1⟩ := addNewObservers_total2 (fuel := fuel) S0 hb0 R0
    (by rw [hs0]; exact T.newNodup) (by rw [hs0]; exact T.newState) (by rw [hsz0]; omega)
  obtain ⟨_, t2, h2, hb2, R2, S2, hn2, hd2, F2, O2, M2⟩ := unlinkDisallowedObservers_total2 (fuel := fuel) S1 hn1 hb1 R1
    (by rw [F1.size, hsz0]; omega)
  have F : C2s.PreF s t2 := C2s.PreF.of hs0 (F1.trans F2) (fun m => (M2 m).trans (M1 m))
  obtain ⟨D2, A2⟩ := N4s.drain_start2 Q F S2
  have H2 : RhsRan t2 := T2i.rhsRan_congr H F.binds F.valid F.recomputedAt
  have DT2 : DT env N t2 := ⟨rk, A2, hb2, H2, ⟨R2.ahh, R2.rch⟩⟩
  -- the run up to the drain
  have hrun2 : (drainHeap env fuel >>= fun _ => stabiliseEnd env fuel).run.run t2 = (r, s') := by
    unfold stabilise at hrun
    have hst : (s.status == Status.notStabilising) = true := by rw [Q.status]; rfl
    rw [run_bind_get, run_bind_ok (show (assertM (s.status == Status.notStabilising)
      "state:stabilise:status").run.run s = (.ok (), s) by rw [run_assertM, hst]; rfl),
      run_bind_modify] at hrun
    rw [← hs0, run_bind_ok h1, run_bind_ok h2] at hrun
    exact hrun
  rw [run_bind] at hrun2
  rcases h3 : (drainHeap env fuel).run.run t2 with ⟨e3 | u3, t3⟩
  · -- a panic in the drain: its final state is the final state, which has room
    rw [h3] at hrun2
    have e1 : s' = t3 := (Prod.mk.inj hrun2).2.symm
    obtain ⟨a, ea, -⟩ := D fuel t2 D2 DT2 _ _ h3 (by rw [← e1]; exact ⟨hN, hF⟩)
    cases ea
  · cases u3
    rw [h3] at hrun2
    replace hrun2 : (stabiliseEnd env fuel).run.run t3 = (r, s') := hrun2
    -- the partial facts about the drain
    have X2 : AuxS2 env t2 t2 := ⟨⟨rk, A2⟩, DKey.refl _, NKey.refl _⟩
    obtain ⟨D3, ⟨⟨rk3', A3'⟩, K3, N3⟩, he3, f3⟩ :=
      drainHeap_invB2 (lcStepsOK_auxS_F2 (lcStepF2 env) t2) fuel t2 t3 D2 X2 h3
    obtain ⟨V3, O3, T3⟩ := N4s.after_drain2 A3' K3 N3 f3.vars (F.varsOK Q.vars) S2.obs S2.obsTop
    have hsd : t3.setDuringStab = [] := by rw [K3.setDuringStab, F.setDuringStab]; exact Q.setDuringStab
    have hdv : t3.deadVars = [] := by rw [K3.deadVars, F.deadVars]; exact Q.deadVars
    have hoh : ∀ (o : Nat) (ob : ObsRec), t3.observers[o]? = some ob → ob.handlers = [] :=
      fun o ob ho => (O3.inRange o ob ho).2
    -- `stabiliseEnd` returns
    have hhas0 : HasRange s0 := by
      intro n hn; rw [hs0] at hn
      have : s.handleAfterStab = [] := Q.handleAfterStab
      rw [show ({ s with status := Status.stabilising } : State).handleAfterStab = s.handleAfterStab from rfl,
        this] at hn
      cases hn
    have hhas2 : HasRange t2 :=
      unlinkDisallowedObservers_hasRange h2 (addNewObservers_hasRange h1 hhas0)
    have hhas3 : HasRange t3 := by
      intro n hn
      rw [K3.handleAfterStab] at hn
      exact Nat.lt_of_lt_of_le (hhas2 n hn) N3.grow
    obtain ⟨_, s4, h4, -⟩ := stabiliseEnd_total (env := env) (fuel := fuel) (s := t3) hsd hdv hoh hhas3
      (by
        intro n o ho
        obtain ⟨ob, hob, -⟩ := (O3.mem n o).1 ho
        exact (Array.getElem?_eq_some_iff.1 hob).1)
    rw [h4] at hrun2
    have e1 : s' = s4 := (Prod.mk.inj hrun2).2.symm
    have e2 : r = .ok () := (Prod.mk.inj hrun2).1.symm
    rw [← e1] at h4
    have E := stabiliseEnd_fin (env := env) (fuel := fuel) hsd hdv hoh h4
    have hb := C2s.stabiliseEnd_binds hsd hdv hoh h4
    -- the state after the drain has room: the total contract of the drain applies
    have hroom3 : HasRoom N fuel t3 := by
      unfold HasRoom; rw [← E.size]; exact ⟨hN, hF⟩
    obtain ⟨_, -, rk3, A3, hb3, H3, L3⟩ := D fuel t2 D2 DT2 _ _ h3 hroom3
    have hno3 : t3.newObservers = [] := by rw [K3.newObservers]; exact hn2
    have hdo3 : t3.disallowedObservers = [] := by rw [K3.disallowedObservers]; exact hd2
    obtain ⟨Q', G, -⟩ := N4s.qinv2_end D3 A3 E hb V3 O3 hno3 hdo3 T3
      (by rw [K3.alive, F.alive]; exact Q.alive)
    refine ⟨(), e2, rk3, Q', ?_, ?_⟩
    · exact T2i.tinv2_end E hb3 L3 hN (by rw [f3.vars, F.vars]) T hno3
    · exact T2i.rhsRan_congr H3 hb (fun m => (G.g.node m).valid) (fun m => (G.g.node m).recomputedAt)

end IncrVerif.Proofs.NestH
