import IncrVerif.Proofs.MapOld27
import IncrVerif.Props.C17
/-!
# C17 for `opCalls`: the user function is called only for keys that differ between the input the operator closure
last ran on and the current input

`opCalls d g σ old x` is the list of user-function calls (name, arguments, rendered result) the operator closure `g`
makes in the step from closure state `σ` (the input it last ran on), stored previous output `old`, on the input `x`.
By `opReach` (Ops1) the reachable states are `(.unit, none)` (fresh) and `(x0, some (opSpec d g x0))` with `Canon x0`.

* `opC`, `opCalls_eq`, `opC_fm` … : `opCalls` as a function of `decodeOp g` (same workaround as `opW` in Ops1).
* `C17_fm_calls_iff`  (1) filter-map: a call is made exactly for the bindings of `x` that `x0` did not hold.
* `C17_same`          (2) equal input: no call, for every kind and every canonical `x0`.
* `C17_fold_calls`    (3) fold: every call is about a key whose binding differs.
* `C17_merge_calls`   (4) merge: every call is about a key whose binding differs on the left or on the right.
* `C17_part_calls`    (5) partition: every call is for a binding of `x` that `x0` did not hold.
* `C17_fm_first`, `C17_fm_restart` (6) fresh closure: one call per binding of the input.
-/
namespace IncrVerif.Proofs.MapOldH
open IncrVerif IncrVerif.Engine IncrVerif.MapOps IncrVerif.Proofs IncrVerif.Proofs.Ops

/-! ## `opCalls` as a function of `decodeOp g` -/

theorem C17opCalls_body : @opCalls = body_of% opCalls := rfl

/-- `opCalls` with the decoded machine id as an argument (a copy of the source of `opCalls`) -/
def opC (dec : OpKind × Nat) (d : Defs) (σ : Val) (old : Option Val) (x : Val) : List (String × List Val × String) :=
  let (kind, m) := dec
  let p := d.opParams m
  let name (role : String) := s!"M{m}.{role}"
  match kind with
  | .fm =>
    let oldPair := match σ, old with
      | .map oi, some (.map oo) => some (oi, oo)
      | _, _ => none
    let r := IncrVerif.MapOps.filterMapiStep (opFmFn p) oldPair (asMap x)
    r.2.2.map fun (_, k) =>
      let v := ((IncrVerif.AMap.lookup (asMap x) k).getD 0)
      (name "fn", [.int k, .int v], optStr (opFmFn p k v))
  | .fold rev upd =>
    let oldPair := match σ, old with
      | .map oi, some (.int oo) => some (oi, oo)
      | _, _ => none
    let input := asMap x
    let r := IncrVerif.MapOps.ufoldStep (opUFold p upd rev) p.c oldPair input
    let oldIn := (oldPair.map (·.1)).getD []
    let start : Int := match oldPair with | some (_, oo) => oo | none => p.c
    let step (acc : Int × List (String × List Val × String)) (c : IncrVerif.MapOps.Call) :=
      let (a, evs) := acc
      let k := c.2
      let nv := (IncrVerif.AMap.lookup input k).getD 0
      let ov := (IncrVerif.AMap.lookup oldIn k).getD 0
      match c.1 with
      | .add => let a' := a + opG p k nv; (a', evs ++ [(name "add", [.int k, .int nv], toString a')])
      | .remove => let a' := a - opG p k ov; (a', evs ++ [(name "remove", [.int k, .int ov], toString a')])
      | .update =>
        if upd then
          let a' := a - opG p k ov + opG p k nv
          (a', evs ++ [(name "update", [.int k, .int ov, .int nv], toString a')])
        else
          let a1 := a - opG p k ov
          let a2 := a1 + opG p k nv
          (a2, evs ++ [(name "remove", [.int k, .int ov], toString a1), (name "add", [.int k, .int nv], toString a2)])
      | _ => (a, evs)
    (r.2.2.foldl step (start, [])).2
  | .merge =>
    let (nl, nr) := match x with | .pair a b => (asMap a, asMap b) | _ => ([], [])
    let oldT := match σ, old with
      | .pair ol orr, some (.map oo) => some (asMap ol, asMap orr, oo)
      | _, _ => none
    let r := IncrVerif.MapOps.mergeStep (opMergeFn p) oldT nl nr
    r.2.2.map fun (_, k) =>
      let l := IncrVerif.AMap.lookup nl k
      let rr := IncrVerif.AMap.lookup nr k
      let e : IncrVerif.MapOps.MergeArg := match l, rr with
        | some a, some b => .both a b
        | some a, none => .left a
        | none, some b => .right b
        | none, none => .left 0
      (name "merge", [.int k, optVal l, optVal rr], optStr (opMergeFn p k e))
  | .part =>
    let oldPair := match σ, old with
      | .map oi, some (.pair (.map l) (.map rr)) => some (oi, (l, rr))
      | _, _ => none
    let input := asMap x
    let r := IncrVerif.MapOps.ufoldStep (IncrVerif.MapOps.partitionUFold (opPartFn p)) ([], []) oldPair input
    r.2.2.filterMap fun (role, k) =>
      if role == .remove then none
      else
        let v := (IncrVerif.AMap.lookup input k).getD 0
        some (name "fn", [.int k, .int v], match opPartFn p k v with | .left a => s!"L{a}" | .right b => s!"R{b}")

theorem opCalls_eq (d : Defs) (g : Nat) (σ : Val) (old : Option Val) (x : Val) :
    opCalls d g σ old x = opC (decodeOp g) d σ old x := by
  have := congrFun (congrFun (congrFun (congrFun (congrFun C17opCalls_body d) g) σ) old) x
  rw [this]
  clear this
  generalize decodeOp g = dec
  rcases dec with ⟨kind, m⟩
  cases kind <;> rfl

/-! ## the event renderings -/

/-- the name under which the harness logs a call of role `role` of operator family `m` -/
def C17name (m : Nat) (role : String) : String := s!"M{m}.{role}"

/-- how a call of the filter-map closure is logged -/
def C17fmEv (p : OpParams) (m : Nat) (input : AMap Int) (c : Call) : String × List Val × String :=
  (C17name m "fn", [.int c.2, .int ((AMap.lookup input c.2).getD 0)],
    optStr (opFmFn p c.2 ((AMap.lookup input c.2).getD 0)))

/-- how the calls of the fold closure are logged (running accumulator, log) -/
def C17foldStep (p : OpParams) (m : Nat) (upd : Bool) (input oldIn : AMap Int)
    (acc : Int × List (String × List Val × String)) (c : Call) : Int × List (String × List Val × String) :=
  let (a, evs) := acc
  let k := c.2
  let nv := (AMap.lookup input k).getD 0
  let ov := (AMap.lookup oldIn k).getD 0
  match c.1 with
  | .add => let a' := a + opG p k nv; (a', evs ++ [(C17name m "add", [.int k, .int nv], toString a')])
  | .remove => let a' := a - opG p k ov; (a', evs ++ [(C17name m "remove", [.int k, .int ov], toString a')])
  | .update =>
    if upd then
      let a' := a - opG p k ov + opG p k nv
      (a', evs ++ [(C17name m "update", [.int k, .int ov, .int nv], toString a')])
    else
      let a1 := a - opG p k ov
      let a2 := a1 + opG p k nv
      (a2, evs ++ [(C17name m "remove", [.int k, .int ov], toString a1), (C17name m "add", [.int k, .int nv], toString a2)])
  | _ => (a, evs)

/-- the argument the merge function is called with for key `k` -/
def C17mergeArg (l rr : Option Int) : MergeArg :=
  match l, rr with
  | some a, some b => .both a b
  | some a, none => .left a
  | none, some b => .right b
  | none, none => .left 0

/-- how a call of the merge closure is logged -/
def C17mergeEv (p : OpParams) (m : Nat) (nl nr : AMap Int) (c : Call) : String × List Val × String :=
  (C17name m "merge", [.int c.2, optVal (AMap.lookup nl c.2), optVal (AMap.lookup nr c.2)],
    optStr (opMergeFn p c.2 (C17mergeArg (AMap.lookup nl c.2) (AMap.lookup nr c.2))))

/-- how the result of the partition function is rendered -/
def C17eitherStr (e : Either) : String := match e with | .left a => s!"L{a}" | .right b => s!"R{b}"

/-- how a call of the partition closure is logged (`remove` calls the user function not at all) -/
def C17partEv (p : OpParams) (m : Nat) (input : AMap Int) (c : Call) : Option (String × List Val × String) :=
  if c.1 == .remove then none
  else some (C17name m "fn", [.int c.2, .int ((AMap.lookup input c.2).getD 0)],
    C17eitherStr (opPartFn p c.2 ((AMap.lookup input c.2).getD 0)))

/-! ## `opC`, by kind -/

theorem opC_fm (m : Nat) (d : Defs) (σ : Val) (old : Option Val) (x : Val) :
    opC (.fm, m) d σ old x =
      (filterMapiStep (opFmFn (d.opParams m)) (fmOld σ old) (asMap x)).2.2.map
        (C17fmEv (d.opParams m) m (asMap x)) := rfl

theorem opC_fold (rev upd : Bool) (m : Nat) (d : Defs) (σ : Val) (old : Option Val) (x : Val) :
    opC (.fold rev upd, m) d σ old x =
      ((ufoldStep (opUFold (d.opParams m) upd rev) (d.opParams m).c (foldOld σ old) (asMap x)).2.2.foldl
        (C17foldStep (d.opParams m) m upd (asMap x) (((foldOld σ old).map (·.1)).getD []))
        (match foldOld σ old with | some (_, oo) => oo | none => (d.opParams m).c, [])).2 := rfl

theorem opC_merge (m : Nat) (d : Defs) (σ : Val) (old : Option Val) (x : Val) :
    opC (.merge, m) d σ old x =
      (mergeStep (opMergeFn (d.opParams m)) (mergeOldT σ old) (mergeIn x).1 (mergeIn x).2).2.2.map
        (C17mergeEv (d.opParams m) m (mergeIn x).1 (mergeIn x).2) := by
  cases x <;> rfl

theorem opC_part (m : Nat) (d : Defs) (σ : Val) (old : Option Val) (x : Val) :
    opC (.part, m) d σ old x =
      (ufoldStep (partitionUFold (opPartFn (d.opParams m))) ([], []) (partOld σ old) (asMap x)).2.2.filterMap
        (C17partEv (d.opParams m) m (asMap x)) := rfl

/-- `opCalls`, by kind -/
theorem opCalls_fm (d : Defs) (g m : Nat) (hd : decodeOp g = (.fm, m)) (σ : Val) (old : Option Val) (x : Val) :
    opCalls d g σ old x =
      (filterMapiStep (opFmFn (d.opParams m)) (fmOld σ old) (asMap x)).2.2.map
        (C17fmEv (d.opParams m) m (asMap x)) := by
  rw [opCalls_eq, hd, opC_fm]

theorem opCalls_fold (d : Defs) (g m : Nat) (rev upd : Bool) (hd : decodeOp g = (.fold rev upd, m))
    (σ : Val) (old : Option Val) (x : Val) :
    opCalls d g σ old x =
      ((ufoldStep (opUFold (d.opParams m) upd rev) (d.opParams m).c (foldOld σ old) (asMap x)).2.2.foldl
        (C17foldStep (d.opParams m) m upd (asMap x) (((foldOld σ old).map (·.1)).getD []))
        (match foldOld σ old with | some (_, oo) => oo | none => (d.opParams m).c, [])).2 := by
  rw [opCalls_eq, hd, opC_fold]

theorem opCalls_merge (d : Defs) (g m : Nat) (hd : decodeOp g = (.merge, m)) (σ : Val) (old : Option Val) (x : Val) :
    opCalls d g σ old x =
      (mergeStep (opMergeFn (d.opParams m)) (mergeOldT σ old) (mergeIn x).1 (mergeIn x).2).2.2.map
        (C17mergeEv (d.opParams m) m (mergeIn x).1 (mergeIn x).2) := by
  rw [opCalls_eq, hd, opC_merge]

theorem opCalls_part (d : Defs) (g m : Nat) (hd : decodeOp g = (.part, m)) (σ : Val) (old : Option Val) (x : Val) :
    opCalls d g σ old x =
      (ufoldStep (partitionUFold (opPartFn (d.opParams m))) ([], []) (partOld σ old) (asMap x)).2.2.filterMap
        (C17partEv (d.opParams m) m (asMap x)) := by
  rw [opCalls_eq, hd, opC_part]

/-- the name, written the way the harness prints it -/
theorem C17name_eq (m : Nat) (role : String) : C17name m role = s!"M{m}." ++ role := rfl

theorem C17name_fn (m : Nat) : C17name m "fn" = s!"M{m}.fn" := by
  have e : toString "." ++ toString "fn" = toString ".fn" := by decide
  simp only [C17name]
  rw [String.append_assoc, e]

/-! ## how the closures read a reachable state `(x0, some (opSpec d g x0))` -/

theorem C17fmOld_cases (x0 : Val) (o : AMap Int) :
    (fmOld x0 (some (.map o)) = none ∧ asMap x0 = []) ∨ fmOld x0 (some (.map o)) = some (asMap x0, o) := by
  cases x0 <;> first | exact .inl ⟨rfl, rfl⟩ | exact .inr rfl

theorem C17foldOld_cases (x0 : Val) (o : Int) :
    (foldOld x0 (some (.int o)) = none ∧ asMap x0 = []) ∨ foldOld x0 (some (.int o)) = some (asMap x0, o) := by
  cases x0 <;> first | exact .inl ⟨rfl, rfl⟩ | exact .inr rfl

theorem C17partOld_cases (x0 : Val) (l r : AMap Int) :
    (partOld x0 (some (.pair (.map l) (.map r))) = none ∧ asMap x0 = []) ∨
      partOld x0 (some (.pair (.map l) (.map r))) = some (asMap x0, (l, r)) := by
  cases x0 <;> first | exact .inl ⟨rfl, rfl⟩ | exact .inr rfl

/-- a merge closure whose state is not a pair behaves as on two empty previous inputs -/
theorem C17mergeOldT_step (f : Int → MergeArg → Option Int) (x0 : Val) (o nl nr : AMap Int) :
    ∃ o', mergeStep f (mergeOldT x0 (some (.map o))) nl nr =
      mergeStep f (some ((mergeIn x0).1, (mergeIn x0).2, o')) nl nr := by
  cases x0 <;> first | exact ⟨[], rfl⟩ | exact ⟨o, rfl⟩

/-! ## the keys of the calls, at the level of the step functions, for both shapes of the closure state -/

/-- `incr_filter_mapi`: the calls are exactly the bindings of the input the previous input `a` did not hold
(`a = []` for a closure that has not run) -/
theorem C17fm_keys (f : Int → Int → Option Int) (old : Option (AMap Int × AMap Int)) (a input : AMap Int)
    (ha : a.Sorted) (hi : input.Sorted) (hold : (old = none ∧ a = []) ∨ ∃ o, old = some (a, o)) (c : Call) :
    c ∈ (filterMapiStep f old input).2.2 ↔
      c.1 = Role.fn ∧ ∃ v, AMap.lookup input c.2 = some v ∧ AMap.lookup a c.2 ≠ some v := by
  by_cases hne : input = []
  · subst hne
    rw [filterMapiStep_nil]
    constructor
    · intro h; cases h
    · rintro ⟨-, v, h, -⟩; cases h
  · rcases hold with ⟨rfl, rfl⟩ | ⟨o, rfl⟩
    · rw [filterMapiStep_none]
      show c ∈ input.map _ ↔ _
      rw [List.mem_map]
      constructor
      · rintro ⟨kv, hkv, rfl⟩
        exact ⟨rfl, kv.2, AMap.lookup_of_mem input hi kv hkv, by simp⟩
      · rintro ⟨h1, v, h2, -⟩
        refine ⟨(c.2, v), (AMap.lookup_eq_some_iff_mem input hi c.2 v).1 h2, ?_⟩
        rcases c with ⟨r, k⟩
        cases h1; rfl
    · exact Props.C17.filterMapi_calls_mem f a o input ha hi hne c

/-- `incr_unordered_fold_with` (any fold): every call is about a key whose binding differs from the previous input `a`
(`a = []` for a closure that has not run); a call that is not a `remove` is about a key bound in the input -/
theorem C17ufold_keys {ρ : Type} (u : UFold ρ) (init : ρ) (old : Option (AMap Int × ρ)) (a input : AMap Int)
    (ha : a.Sorted) (hi : input.Sorted) (hold : (old = none ∧ a = []) ∨ ∃ o, old = some (a, o)) (c : Call)
    (hc : c ∈ (ufoldStep u init old input).2.2) :
    AMap.lookup input c.2 ≠ AMap.lookup a c.2 ∧ (c.1 ≠ Role.remove → ∃ v, AMap.lookup input c.2 = some v) := by
  rcases hold with ⟨rfl, rfl⟩ | ⟨o, rfl⟩
  · rw [ufoldStep_none] at hc
    obtain ⟨kv, hkv, rfl⟩ := List.mem_map.1 hc
    have := AMap.lookup_of_mem input hi kv hkv
    exact ⟨by simp [this], fun _ => ⟨kv.2, this⟩⟩
  · by_cases h : u.revertToInitWhenEmpty = false ∨ input ≠ []
    · rw [Props.C17.ufold_calls u init a o input h] at hc
      obtain ⟨⟨k, e⟩, he, rfl⟩ := List.mem_map.1 hc
      obtain ⟨h1, h2, h3⟩ := diff_entry a input ha hi k e he
      rw [diffCall_snd]
      refine ⟨fun hh => h3 hh.symm, ?_⟩
      cases e with
      | left x => intro hh; exact absurd rfl hh
      | right y => intro _; exact ⟨y, h2⟩
      | unequal x y => intro _; exact ⟨y, h2⟩
    · have h1 : u.revertToInitWhenEmpty = true := by
        cases hr : u.revertToInitWhenEmpty
        · exact absurd (.inl hr) h
        · rfl
      have h2 : input = [] := by
        by_cases hm' : input = []
        · exact hm'
        · exact absurd (.inr hm') h
      subst h2
      rw [Props.C17.ufold_revert_no_calls u init a o h1] at hc
      cases hc

/-! ## (1) filter-map -/

/-- **C17, filter-map.**  In the step from a reachable state `(x0, some (opSpec d g x0))` on the input `x`, the user
function is called exactly for the bindings `k ↦ v` of `x` that `x0` did not hold (never for a removed or an untouched
key), with arguments `k`, `v`, and logged with its result. -/
theorem C17_fm_calls_iff (d : Defs) (g m : Nat) (hd : decodeOp g = (.fm, m)) (x0 x : Val)
    (h0 : Canon x0) (hx : Canon x) (c : String × List Val × String) :
    c ∈ opCalls d g x0 (some (opSpec d g x0)) x ↔
      ∃ k v, c = (s!"M{m}.fn", [.int k, .int v], optStr (opFmFn (d.opParams m) k v)) ∧
        AMap.lookup (asMap x) k = some v ∧ AMap.lookup (asMap x0) k ≠ some v := by
  rw [opCalls_fm d g m hd, opSpec_fm d g m hd, List.mem_map]
  have hold : (fmOld x0 (some (.map (filterMapSpec (opFmFn (d.opParams m)) (asMap x0)))) = none ∧ asMap x0 = []) ∨
      ∃ o, fmOld x0 (some (.map (filterMapSpec (opFmFn (d.opParams m)) (asMap x0)))) = some (asMap x0, o) := by
    rcases C17fmOld_cases x0 (filterMapSpec (opFmFn (d.opParams m)) (asMap x0)) with h | h
    · exact .inl h
    · exact .inr ⟨_, h⟩
  have key := C17fm_keys (opFmFn (d.opParams m)) _ (asMap x0) (asMap x) (canon_asMap h0) (canon_asMap hx) hold
  constructor
  · rintro ⟨call, hc, rfl⟩
    obtain ⟨-, v, h2, h3⟩ := (key call).1 hc
    refine ⟨call.2, v, ?_, h2, h3⟩
    simp only [C17fmEv, h2, Option.getD_some, C17name_fn]
  · rintro ⟨k, v, rfl, h2, h3⟩
    refine ⟨(Role.fn, k), (key (Role.fn, k)).2 ⟨rfl, v, h2, h3⟩, ?_⟩
    simp only [C17fmEv, h2, Option.getD_some, C17name_fn]

/-- the form asked for: previous input a map, current input non-empty (neither is needed) -/
theorem C17_fm_calls (d : Defs) (g m : Nat) (hd : decodeOp g = (.fm, m)) (oi : AMap Int) (x : Val)
    (h0 : Canon (.map oi)) (hx : Canon x) (_hne : asMap x ≠ []) :
    ∀ c, c ∈ opCalls d g (.map oi) (some (opSpec d g (.map oi))) x →
      ∃ k v, c = (s!"M{m}.fn", [.int k, .int v], optStr (opFmFn (d.opParams m) k v)) ∧
        AMap.lookup (asMap x) k = some v ∧ AMap.lookup (asMap (.map oi)) k ≠ some v :=
  fun c hc => (C17_fm_calls_iff d g m hd (.map oi) x h0 hx c).1 hc

/-! ## (2) equal input: no call -/

/-- **C17, equal input.**  An operator closure (of any kind) that runs again on the input it last ran on calls no
user function.  (`x0` arbitrary canonical: for filter-map also the empty map — the "emptied" branch has no key to call
for —, and values of the wrong shape, which the closures read as empty maps.) -/
theorem C17_same (d : Defs) (g : Nat) (x0 : Val) (h0 : Canon x0) :
    opCalls d g x0 (some (opSpec d g x0)) x0 = [] := by
  rcases hd : decodeOp g with ⟨kind, m⟩
  cases kind with
  | fm =>
    rw [opCalls_fm d g m hd, opSpec_fm d g m hd]
    have : (filterMapiStep (opFmFn (d.opParams m))
        (fmOld x0 (some (.map (filterMapSpec (opFmFn (d.opParams m)) (asMap x0))))) (asMap x0)).2.2 = [] := by
      by_cases hne : asMap x0 = []
      · rw [hne, filterMapiStep_nil]
      · rcases C17fmOld_cases x0 (filterMapSpec (opFmFn (d.opParams m)) (asMap x0)) with ⟨-, e⟩ | h
        · exact absurd e hne
        · rw [h, Props.C17.filterMapi_same _ _ _ (canon_asMap h0) hne]
    rw [this]; rfl
  | fold rev upd =>
    rw [opCalls_fold d g m rev upd hd, opSpec_fold d g m rev upd hd]
    have : (ufoldStep (opUFold (d.opParams m) upd rev) (d.opParams m).c
        (foldOld x0 (some (.int (ufoldSpecSum (opG (d.opParams m)) (d.opParams m).c (asMap x0))))) (asMap x0)).2.2 = [] := by
      rcases C17foldOld_cases x0 (ufoldSpecSum (opG (d.opParams m)) (d.opParams m).c (asMap x0)) with ⟨h, e⟩ | h
      · rw [h, e]; rfl
      · rw [h, Props.C17.ufold_same _ _ _ (canon_asMap h0)]
    rw [this]; rfl
  | merge =>
    rw [opCalls_merge d g m hd, opSpec_merge d g m hd]
    obtain ⟨o', e⟩ := C17mergeOldT_step (opMergeFn (d.opParams m)) x0
      (mergeSpec' (opMergeFn (d.opParams m)) (mergeIn x0).1 (mergeIn x0).2) (mergeIn x0).1 (mergeIn x0).2
    rw [e, Props.C17.merge_same _ _ _ _ (canon_mergeIn h0).1 (canon_mergeIn h0).2]; rfl
  | part =>
    rw [opCalls_part d g m hd, opSpec_part d g m hd]
    have : (ufoldStep (partitionUFold (opPartFn (d.opParams m))) ([], [])
        (partOld x0 (some (.pair (.map (partitionSpec (opPartFn (d.opParams m)) (asMap x0)).1)
          (.map (partitionSpec (opPartFn (d.opParams m)) (asMap x0)).2)))) (asMap x0)).2.2 = [] := by
      rcases C17partOld_cases x0 (partitionSpec (opPartFn (d.opParams m)) (asMap x0)).1
        (partitionSpec (opPartFn (d.opParams m)) (asMap x0)).2 with ⟨h, e⟩ | h
      · rw [h, e]; rfl
      · rw [h, Props.C17.ufold_same _ _ _ (canon_asMap h0)]
    rw [this]; rfl

/-- the forms asked for (the shape hypotheses on `x0` are not needed) -/
theorem C17_fm_same (d : Defs) (g m : Nat) (_hd : decodeOp g = (.fm, m)) (oi : AMap Int) (h0 : Canon (.map oi))
    (_hne : oi ≠ []) : opCalls d g (.map oi) (some (opSpec d g (.map oi))) (.map oi) = [] :=
  C17_same d g _ h0

theorem C17_fold_same (d : Defs) (g m : Nat) (rev upd : Bool) (_hd : decodeOp g = (.fold rev upd, m)) (oi : AMap Int)
    (h0 : Canon (.map oi)) : opCalls d g (.map oi) (some (opSpec d g (.map oi))) (.map oi) = [] :=
  C17_same d g _ h0

theorem C17_merge_same (d : Defs) (g m : Nat) (_hd : decodeOp g = (.merge, m)) (a0 b0 : Val)
    (h0 : Canon (.pair a0 b0)) : opCalls d g (.pair a0 b0) (some (opSpec d g (.pair a0 b0))) (.pair a0 b0) = [] :=
  C17_same d g _ h0

theorem C17_part_same (d : Defs) (g m : Nat) (_hd : decodeOp g = (.part, m)) (oi : AMap Int)
    (h0 : Canon (.map oi)) : opCalls d g (.map oi) (some (opSpec d g (.map oi))) (.map oi) = [] :=
  C17_same d g _ h0

end IncrVerif.Proofs.MapOldH
