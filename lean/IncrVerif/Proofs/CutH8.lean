import IncrVerif.Proofs.CutH7
-- Port of Proofs/Quiet2.lean to ARBITRARY cutoffs (scratch name Q2); overview in Props/C06History.lean
/-!
# Part 2: single updates of one node, and what they do to `GInv` (pure step lemmas)
-/
namespace IncrVerif.Proofs.CutH
open IncrVerif.Engine IncrVerif.Proofs IncrVerif.Proofs.Step IncrVerif.Proofs.Sched

/-- `s'` is `s` with node `n` replaced by `f` of it, as far as the invariant can see -/
structure NodeUpd (n : Nat) (f : Node → Node) (s s' : State) : Prop where
  lt : n < s.nodes.size
  pc : s'.panicCountdown = s.panicCountdown
  scope : s'.currentScope = s.currentScope
  size : s'.nodes.size = s.nodes.size
  rch : s'.rch = s.rch
  vars : s'.vars = s.vars
  other : ∀ m, m ≠ n → NodeG (s.nodeD m) (s'.nodeD m)
  self : NodeG (f (s.nodeD n)) (s'.nodeD n)

theorem NodeUpd.modify {n : Nat} (f : Node → Node) {s : State} (h : n < s.nodes.size) :
    NodeUpd n f s { s with nodes := s.nodes.modify n f } := by
  refine ⟨h, rfl, rfl, by simp, rfl, rfl, fun m hm => ?_, ?_⟩
  · rw [nodeD_modify, if_neg (fun e => hm e.1.symm)]; exact NodeG.refl _
  · rw [nodeD_modify, if_pos ⟨rfl, h⟩]; exact NodeG.refl _

theorem NodeG.trans {a b c : Node} (h1 : NodeG a b) (h2 : NodeG b c) : NodeG a c :=
  ⟨h2.valid.trans h1.valid, h2.kind.trans h1.kind, h2.cutoff.trans h1.cutoff, h2.createdIn.trans h1.createdIn,
   h2.forceNecessary.trans h1.forceNecessary, h2.parents.trans h1.parents, h2.observers.trans h1.observers,
   h2.height.trans h1.height, h2.heightInRch.trans h1.heightInRch, h2.recomputedAt.trans h1.recomputedAt,
   h2.changedAt.trans h1.changedAt⟩

theorem SameG.trans {a b c : State} (h1 : SameG a b) (h2 : SameG b c) : SameG a c :=
  ⟨h2.pc.trans h1.pc, h2.scope.trans h1.scope, h2.size.trans h1.size, h2.rch.trans h1.rch,
   h2.vars.trans h1.vars, fun m => (h1.node m).trans (h2.node m)⟩

theorem NodeUpd.then_same {n : Nat} {f : Node → Node} {s s1 s2 : State} (h1 : NodeUpd n f s s1)
    (h2 : SameG s1 s2) : NodeUpd n f s s2 :=
  ⟨h1.lt, h2.pc.trans h1.pc, h2.scope.trans h1.scope, h2.size.trans h1.size, h2.rch.trans h1.rch,
   h2.vars.trans h1.vars, fun m hm => (h1.other m hm).trans (h2.node m), h1.self.trans (h2.node n)⟩

/-- the fields of `f x` the invariant reads only depend on those of `x` -/
def RespG (f : Node → Node) : Prop := ∀ a b, NodeG a b → NodeG (f a) (f b)

theorem NodeUpd.after_same {n : Nat} {f : Node → Node} {s s1 s2 : State} (hf : RespG f) (h1 : SameG s s1)
    (h2 : NodeUpd n f s1 s2) : NodeUpd n f s s2 :=
  ⟨by rw [← h1.size]; exact h2.lt, h2.pc.trans h1.pc, h2.scope.trans h1.scope, h2.size.trans h1.size,
   h2.rch.trans h1.rch, h2.vars.trans h1.vars, fun m hm => (h1.node m).trans (h2.other m hm),
   (hf _ _ (h1.node n)).trans h2.self⟩

/-! ## the update functions -/

def fParents (l : List (Nat × Nat)) : Node → Node := fun x => { x with parents := l }
def fHeight (h : Int) : Node → Node := fun x => { x with height := h }
def fObservers (l : List Nat) : Node → Node := fun x => { x with observers := l }

/-! ## heap lemmas -/

/-- inserting a node that is not queued keeps `HeapG` -/
theorem HeapG.inserted {s : State} (h : HeapG s) {p : Nat} {x : Int} (hp : p < s.nodes.size)
    (hnot : (s.nodeD p).inRch = false) (h0 : 0 ≤ x) (hmax : x ≤ s.rch.maxAllowed) :
    HeapG (inserted p x s) := by
  have hnd := some_of_lt hp
  have hw := (HWF_release_iff s).2 h.wf
  have hmk : markerOf s.nodes p = -1 := hw.marker_neg hnd hnot
  obtain ⟨⟨hb, hl⟩, -⟩ := hw
  have hb0 : BucketsOK s.rch.queues (setMk p (-1) (markerOf s.nodes)) := by
    rw [setMk_self p _ _ hmk]; exact hb
  have hh : x.toNat < s.rch.queues.size := by
    simp only [Heap.maxAllowed] at hmax; omega
  obtain ⟨hb', hs'⟩ := BucketsOK.link hb0 x.toNat hh
  have e : ((x.toNat : Nat) : Int) = x := by omega
  rw [e] at hb'
  have key : ∀ m, (IncrVerif.Proofs.inserted p x s).nodeD m =
      if m = p then { s.nodeD m with heightInRch := x } else s.nodeD m := by
    intro m
    rw [inserted_nodeD]
    by_cases e : m = p
    · subst e; rw [if_pos ⟨rfl, hp⟩, if_pos rfl]
    · have : ¬ (p = m ∧ m < s.nodes.size) := fun h => e h.1.symm
      rw [if_neg this, if_neg e]
  refine ⟨?_, ?_, ?_⟩
  · rw [← HWF_release_iff]
    refine ⟨⟨?_, ?_⟩, by simp⟩
    · show BucketsOK (s.rch.queues.modify x.toNat (· ++ [p]))
        (markerOf (s.nodes.modify p fun y => { y with heightInRch := x }))
      rw [markerOf_modify_set _ _ _ hp]; exact hb'
    · show s.rch.length + 1 = bucketSum (s.rch.queues.modify x.toNat (· ++ [p]))
      rw [hs', hl]
  · intro m hq
    rw [key] at hq ⊢
    show (if x < s.rch.lowerBound then x else s.rch.lowerBound) ≤ _
    by_cases e : m = p
    · rw [if_pos e]
      show _ ≤ x
      split <;> omega
    · rw [if_neg e] at hq ⊢
      have := h.lb m hq
      split <;> omega
  · show 0 ≤ (if x < s.rch.lowerBound then x else s.rch.lowerBound)
    have := h.lb0
    split <;> omega

/-- the state after a successful `rchRemove n` of a node in bucket `h`, at position `idx` of the bucket `q` -/
def removedAt (n h : Nat) (q : List Nat) (idx : Nat) (s : State) : State :=
  { s with nodes := s.nodes.modify n fun x => { x with heightInRch := -1 },
           rch := { s.rch with queues := s.rch.queues.set! h (swapRemoveBack q idx),
                               length := s.rch.length - 1 } }

theorem removedAt_nodeD (n h : Nat) (q : List Nat) (idx : Nat) (s : State) (m : Nat) :
    (removedAt n h q idx s).nodeD m =
      if n = m ∧ m < s.nodes.size then { s.nodeD m with heightInRch := -1 } else s.nodeD m :=
  nodeD_modify s n m _

theorem rchRemove_ok_inv {n : Nat} {s s' : State} {u : Unit}
    (hr : (rchRemove n).run.run s = (.ok u, s')) :
    ∃ nd q idx, s.nodes[n]? = some nd ∧ 0 ≤ nd.heightInRch ∧
      s.rch.queues[nd.heightInRch.toNat]? = some q ∧ q.idxOf? n = some idx ∧
      s' = removedAt n nd.heightInRch.toNat q idx s := by
  unfold rchRemove at hr
  rw [run_bind_get] at hr
  obtain ⟨nd, s1, h1, hr⟩ := bind_ok_inv hr
  obtain ⟨e1, hnd⟩ := getNode_ok_inv h1
  rw [e1] at hr
  obtain ⟨_, s2, h2, hr⟩ := bind_ok_inv hr
  have e2 := dassert_ok_inv h2
  rw [e2] at hr
  obtain ⟨_, s3, h3, hr⟩ := bind_ok_inv hr
  rw [run_bind_modNode, run_modify] at hr
  unfold rchUnlink at h3
  rw [run_bind_ok (run_getNode_some hnd), run_bind_get] at h3
  dsimp only at h3
  cases hq : s.rch.queues[nd.heightInRch.toNat]? with
  | none => rw [hq] at h3; dsimp only at h3; rw [run_panic] at h3; cases h3
  | some q =>
    rw [hq] at h3; dsimp only at h3
    by_cases hneg : nd.heightInRch < 0
    · rw [if_pos hneg, run_bind, run_panic] at h3; cases h3
    · rw [if_neg hneg] at h3
      cases hi : q.idxOf? n with
      | none => rw [hi] at h3; dsimp only at h3; rw [run_panic] at h3; cases h3
      | some idx =>
        rw [hi] at h3; dsimp only at h3; rw [run_modify] at h3
        refine ⟨nd, q, idx, hnd, by omega, hq, hi, ?_⟩
        cases h3
        cases hr
        rfl

/-- a successful `rchRemove` keeps `HeapG`; only the marker of `n` changes -/
theorem HeapG.removed {s s' : State} {n : Nat} {u : Unit} (h : HeapG s)
    (hr : (rchRemove n).run.run s = (.ok u, s')) :
    HeapG s' ∧ (s'.nodeD n).inRch = false ∧
      (∀ m, m ≠ n → (s'.nodeD m).heightInRch = (s.nodeD m).heightInRch) ∧
      s'.rch.lowerBound = s.rch.lowerBound ∧ s'.rch.queues.size = s.rch.queues.size := by
  have hwf : HeapWF s' := by
    have := (triple_iff _ _ _ _).1 (rchRemove_spec .release n) s ((HWF_release_iff s).2 h.wf)
    rw [hr] at this
    exact (HWF_release_iff s').1 this
  obtain ⟨nd, q, idx, hnd, h0, hq, hi, e⟩ := rchRemove_ok_inv hr
  have hlt : n < s.nodes.size := lt_of_some hnd
  have key : ∀ m, s'.nodeD m =
      if m = n then { s.nodeD m with heightInRch := -1 } else s.nodeD m := by
    intro m
    rw [e, removedAt_nodeD]
    by_cases e : m = n
    · subst e; rw [if_pos ⟨rfl, hlt⟩, if_pos rfl]
    · have : ¬ (n = m ∧ m < s.nodes.size) := fun h => e h.1.symm
      rw [if_neg this, if_neg e]
  have hlb : s'.rch.lowerBound = s.rch.lowerBound := by rw [e]; rfl
  have hoth : ∀ m, m ≠ n → (s'.nodeD m).heightInRch = (s.nodeD m).heightInRch := by
    intro m hm; rw [key, if_neg hm]
  have hself : (s'.nodeD n).inRch = false := by
    rw [key, if_pos rfl]; simp [Node.inRch]
  refine ⟨⟨hwf, ?_, by rw [hlb]; exact h.lb0⟩, hself, hoth, hlb, ?_⟩
  · intro m hm
    by_cases em : m = n
    · rw [em, hself] at hm; cases hm
    · have hm' : (s.nodeD m).inRch = true := by
        simpa only [Node.inRch, hoth m em] using hm
      rw [hlb, hoth m em]; exact h.lb m hm'
  · rw [e]
    show (s.rch.queues.set! nd.heightInRch.toNat (swapRemoveBack q idx)).size = _
    simp

end IncrVerif.Proofs.CutH
