import IncrVerif.Proofs.OnceF5
import IncrVerif.Proofs.OnceF9
/-!
# C02, combined fragment, part 10: NON-VACUITY of "inputs before outputs" — it holds at every `stabilise` of the example histories; a stable child that is not vacuous
-/
namespace IncrVerif.Proofs.OnceF
open IncrVerif.Engine IncrVerif.Driver IncrVerif.Proofs IncrVerif.Proofs.Step IncrVerif.Proofs.Sched IncrVerif.Proofs.Quiet
open IncrVerif.Proofs.FullH IncrVerif.Proofs.TidyH IncrVerif.Proofs.BindH

theorem exHistF_order {as bs : List Action} (e : exHistF = as ++ Action.stabilise :: bs) :
    ∃ s tk s1 tk1 s2, Quiet.runActions fEnv exHistF (State.init 128 true) #[] = .ok (s, tk) ∧
      Quiet.runActions fEnv as (State.init 128 true) #[] = .ok (s1, tk1) ∧
      (stabilise fEnv fuelDefault).run.run s1 = (.ok (), s2) ∧ OrderStab fEnv fuelDefault s1 s2 ∧
      Quiet.runActions fEnv bs s2 tk1 = .ok (s, tk) := by
  obtain ⟨s, tk, h⟩ := exHistF_runs
  have hH := exHistF_frag
  have h0 := h
  rw [e] at h hH
  obtain ⟨s1, tk1, s2, k1, k3, k4, k7⟩ := history_orderF fEnv_envS fEnv_first hH h
  exact ⟨s, tk, s1, tk1, s2, h0, k1, k3, k4, k7⟩

theorem exHistG_order {as bs : List Action} (e : exHistG = as ++ Action.stabilise :: bs) :
    ∃ s tk s1 tk1 s2, Quiet.runActions fEnv exHistG (State.init 128 true) #[] = .ok (s, tk) ∧
      Quiet.runActions fEnv as (State.init 128 true) #[] = .ok (s1, tk1) ∧
      (stabilise fEnv fuelDefault).run.run s1 = (.ok (), s2) ∧ OrderStab fEnv fuelDefault s1 s2 ∧
      Quiet.runActions fEnv bs s2 tk1 = .ok (s, tk) := by
  obtain ⟨s, tk, h⟩ := exHistG_runs
  have hH := exHistG_frag
  have h0 := h
  rw [e] at h hH
  obtain ⟨s1, tk1, s2, k1, k3, k4, k7⟩ := history_orderF fEnv_envS fEnv_first hH h
  exact ⟨s, tk, s1, tk1, s2, h0, k1, k3, k4, k7⟩

/-- the child lists (`State.children`) of some nodes of `exHistF` after its first `stabilise`: the map_ref chain `6 → 5 → 0`, the machine `7 → 6`, the map `8 → [7, 2]`, the inner
change detector `9 → 2` (its lhs `n2`), the main node `10 → [9, 13]` (change detector, current rhs), `11 → [8, 10]`, the outer main node `4 → [3, 11]` -/
theorem exHistF_children :
    (C2h.stateB fEnv (exHistF.take 6)).map (fun s => [4, 5, 6, 7, 8, 9, 10, 11].map s.children) =
      some [[3, 11], [0], [5], [6], [7, 2], [2], [9, 13], [8, 10]] := by
  decide +kernel

end IncrVerif.Proofs.OnceF
