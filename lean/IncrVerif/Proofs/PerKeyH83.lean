import IncrVerif.Proofs.PerKeyH82
/-!
# Per-key operators, the semantic theorem, part 2: reading consistency in `V s`; template instances

`Settled env s`: the hypotheses of the semantic theorem (fragment, necessity goes down, no necessary node is stale, every
node that is not stale is consistent in `V s` under `penv env`).
-/
namespace IncrVerif.Proofs.PerKeyH
open IncrVerif IncrVerif.Engine IncrVerif.Driver IncrVerif.Proofs IncrVerif.Proofs.Step IncrVerif.Proofs.Sched
open IncrVerif.Proofs.ExpertH IncrVerif.Proofs.EffH IncrVerif.Proofs.DriverH

/-! ## children in the actual state -/

theorem children_map' {s : State} {n f : Nat} {args : List Nat} (hv : (s.nodeD n).valid = true)
    (hk : (s.nodeD n).kind = .map f args) : s.children n = args := by
  unfold State.children Node.kind?
  simp [hv, hk]

theorem children_fold' {s : State} {n f : Nat} {init : Val} {cs : List Nat} (hv : (s.nodeD n).valid = true)
    (hk : (s.nodeD n).kind = .fold f init cs) : s.children n = cs := by
  unfold State.children Node.kind?
  simp [hv, hk]

theorem children_expert' {s : State} {n e : Nat} {er : ExpertRec} (hv : (s.nodeD n).valid = true)
    (hk : (s.nodeD n).kind = .expert e) (hx : s.experts[e]? = some er) :
    s.children n = er.children.map (·.child) := by
  unfold State.children Node.kind?
  simp [hv, hk, hx]

/-! ## consistency in `V s`, by actual kind -/

theorem plainVals_V (s : State) (args : List Nat) : plainVals (V s) args = plainVals s args := by
  unfold plainVals
  apply evalArgs_congr
  intro a _
  rw [V_nodeD, vNode_value]

theorem V_value' (s : State) (m : Nat) : ((V s).nodeD m).value = (s.nodeD m).value := by
  rw [V_nodeD, vNode_value]

theorem consV_const {env : Env} {s : State} {m : Nat} {v : Val} (hk : (s.nodeD m).kind = .const v)
    (h : Consistent (penv env) (V s) m) : (s.nodeD m).value = some v := by
  obtain ⟨w, ht, hv⟩ := h
  unfold Target at ht
  rw [V_kind, hk] at ht
  simp only [vKind] at ht
  rw [V_value'] at hv
  rw [hv, ht]

theorem consV_var {env : Env} {s : State} {m c : Nat} (hk : (s.nodeD m).kind = .var c)
    (h : Consistent (penv env) (V s) m) : ∃ vc, s.vars[c]? = some vc ∧ (s.nodeD m).value = some vc.value := by
  obtain ⟨w, ht, hv⟩ := h
  unfold Target at ht
  rw [V_kind, hk] at ht
  simp only [vKind] at ht
  obtain ⟨vc, h1, h2⟩ := ht
  rw [V_value'] at hv
  exact ⟨vc, h1, by rw [hv, h2]⟩

theorem consV_map {env : Env} {s : State} {m f : Nat} {args : List Nat} (hk : (s.nodeD m).kind = .map f args)
    (hf : f < fnPerKey) (h : Consistent (penv env) (V s) m) :
    ∃ vals, plainVals s args = some vals ∧ (s.nodeD m).value = some ((penv env).fn f vals) := by
  obtain ⟨w, ht, hv⟩ := h
  unfold Target at ht
  rw [V_kind, hk] at ht
  simp only [vKind, if_neg (Nat.not_le.mpr hf)] at ht
  obtain ⟨vals, h1, h2⟩ := ht
  rw [V_value'] at hv
  rw [plainVals_V] at h1
  exact ⟨vals, h1, by rw [hv, h2]⟩

theorem consV_fold {env : Env} {s : State} {m f : Nat} {init : Val} {cs : List Nat}
    (hk : (s.nodeD m).kind = .fold f init cs) (h : Consistent (penv env) (V s) m) :
    ∃ vals, plainVals s cs = some vals ∧ (s.nodeD m).value = some (vals.foldl ((penv env).foldStep f) init) := by
  obtain ⟨w, ht, hv⟩ := h
  unfold Target at ht
  rw [V_kind, hk] at ht
  simp only [vKind] at ht
  obtain ⟨vals, h1, h2⟩ := ht
  rw [V_value'] at hv
  rw [plainVals_V] at h1
  exact ⟨vals, h1, by rw [hv, h2]⟩

/-- a per-key input node that is consistent stores the value `prevMap` has for its key -/
theorem consV_key {env : Env} {s : State} {m e op : Nat} {key : Int} {er : ExpertRec}
    (hk : (s.nodeD m).kind = .expert e) (hx : s.experts[e]? = some er) (hpk : er.pk = some (op, some key))
    (h : Consistent (penv env) (V s) m) :
    (s.nodeD m).value = some (.int (((pkRec s op).prevMap.lookup key).getD 0)) := by
  obtain ⟨w, ht, hv⟩ := h
  unfold Target at ht
  have hpk' : (xRec s.experts e).pk = some (op, some key) := by rw [xRec_some hx]; exact hpk
  rw [V_kind, hk, vKind_expert_key s hpk'] at ht
  simp only at ht
  obtain ⟨vals, _, h2⟩ := ht
  rw [penv_fold_xConst] at h2
  rw [V_value'] at hv
  rw [hv, h2]

/-- the result node of an operator that is consistent stores the map assembled from its dependencies -/
theorem consV_res {env : Env} {s : State} {m e op : Nat} {er : ExpertRec}
    (hk : (s.nodeD m).kind = .expert e) (hx : s.experts[e]? = some er) (hpk : er.pk = some (op, none))
    (hne : er.children ≠ [])
    (h : Consistent (penv env) (V s) m) :
    ∃ vals, plainVals s (er.children.map (·.child)) = some vals ∧
      (s.nodeD m).value = some (.map (AMap.ofList (asmPairs (tagsOf (pkRec s op).prevNodes er.children) vals))) := by
  obtain ⟨w, ht, hv⟩ := h
  unfold Target at ht
  have hpk' : (xRec s.experts e).pk = some (op, none) := by rw [xRec_some hx]; exact hpk
  rw [V_kind, hk, vKind_expert_res s hpk'] at ht
  simp only at ht
  obtain ⟨vals, h1, h2⟩ := ht
  rw [xRec_some hx] at h1 h2
  rw [plainVals_V] at h1
  have hl : vals.length = er.children.length := by
    have := evalArgs_length _ _ _ h1
    rw [this, List.length_map]
  rw [penv_fold_xAsm env _ vals (by rw [tagsOf_length, hl]) (tagsOf_ne_nil _ hne)] at h2
  rw [V_value'] at hv
  exact ⟨vals, h1, by rw [hv, h2]⟩

/-! ## the hypotheses of the semantic theorem -/

structure Settled (env : Env) (s : State) : Prop where
  frag : PFrag env s
  /-- necessity goes down (`BGraph.child`) -/
  down : ∀ n, s.isNecessary n = true → ∀ c, c ∈ s.children n → s.isNecessary c = true
  /-- no necessary node is stale -/
  settled : ∀ n, s.isNecessary n = true → s.isStale n = false
  /-- every node that is not stale is consistent -/
  cons : ∀ m, m < s.nodes.size → s.isStale m = false → Consistent (penv env) (V s) m

namespace Settled
variable {env : Env} {s : State}

theorem necCons (H : Settled env s) {n : Nat} (hn : s.isNecessary n = true) : Consistent (penv env) (V s) n :=
  H.cons n (ExpertH.QR.nec_lt_size hn) (H.settled n hn)

theorem valid (H : Settled env s) {n : Nat} (hn : s.isNecessary n = true) : (s.nodeD n).valid = true :=
  H.frag.valid n (ExpertH.QR.nec_lt_size hn)

theorem value_some (H : Settled env s) {n : Nat} (hn : s.isNecessary n = true) : ∃ w, (s.nodeD n).value = some w := by
  obtain ⟨w, _, hv⟩ := H.necCons hn
  rw [V_value'] at hv
  exact ⟨w, hv⟩

theorem value_plain (H : Settled env s) (n : Nat) : s.value env n = (s.nodeD n).value := by
  apply Step.value_plain
  intro p i e
  have := H.frag.kindD n
  rw [e] at this
  exact this

end Settled

end IncrVerif.Proofs.PerKeyH
