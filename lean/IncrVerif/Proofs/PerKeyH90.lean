import IncrVerif.Proofs.PerKeyH89
/-!
# `VSim`, part 2: the `vsim` tactics; heap and height functions (port of `Proofs/ExpertH24.lean`)
-/
namespace IncrVerif.Proofs.PerKeyH
open IncrVerif.Engine IncrVerif.Driver IncrVerif.Proofs IncrVerif.Proofs.Step IncrVerif.Proofs.Sched
open IncrVerif.Proofs.ExpertH IncrVerif.Proofs.EffH

theorem VSimAt.forIn_at {β γ : Type} (l : List γ) {f f' : γ → β → M (ForInStep β)} (h : ∀ a b, VSim (f a b) (f' a b))
    (b : β) {s : State} : VSimAt s (ForIn.forIn l b f) (ForIn.forIn l b f') := VSim.forIn l h b s

/-- registered `VSim` lemmas -/
syntax "vsim_leaf" : tactic
macro_rules | `(tactic| vsim_leaf) => `(tactic| fail "no leaf")

set_option hygiene false in
macro "vsim_step" : tactic => `(tactic| first
  | with_reducible exact IncrVerif.Proofs.PerKeyH.VSimAt.ret _
  | with_reducible exact IncrVerif.Proofs.PerKeyH.VSimAt.thr _ _
  | with_reducible exact IncrVerif.Proofs.PerKeyH.VSimAt.pan _ _
  | ((with_reducible refine IncrVerif.Proofs.PerKeyH.VSimAt.get_seq ?_); try vnorm)
  | ((with_reducible refine IncrVerif.Proofs.PerKeyH.VSimAt.getNode_seq fun nd hnd hxk hval => ?_); try vnorm)
  | ((with_reducible refine IncrVerif.Proofs.PerKeyH.VSimAt.mod_seq ?_ ?_ ?_ ?_ ?_ ?_) <;> (first | rfl | skip))
  | ((with_reducible refine IncrVerif.Proofs.PerKeyH.VSimAt.mod ?_ ?_ ?_ ?_ ?_) <;> rfl)
  | ((with_reducible refine IncrVerif.Proofs.PerKeyH.VSim.at ?_ _); vsim_leaf)
  | ((with_reducible refine IncrVerif.Proofs.PerKeyH.VSimAt.forIn_at _ (fun _ _ => ?_) _); intro _)
  | (with_reducible refine IncrVerif.Proofs.PerKeyH.VSimAt.seq ?_ fun _ _ _ => ?_)
  | (refine IncrVerif.Proofs.PerKeyH.VSimAt.cond Iff.rfl (fun _ => ?_) (fun _ => ?_)))

macro "vsim" : tactic => `(tactic| repeat (any_goals vsim_step))

set_option hygiene false in
/-- a `match` on the kind of the node last read by `getNode` -/
macro "vsim_kind" : tactic => `(tactic| (
  simp only [IncrVerif.Proofs.PerKeyH.vNode_kind?, IncrVerif.Proofs.ExpertH.kind?_of_valid hval, Option.map_some]
  cases hk : nd.kind
  all_goals try exact absurd hxk (by rw [hk]; exact fun h => h)
  all_goals simp only [IncrVerif.Proofs.PerKeyH.vKind_expert_eq, IncrVerif.Proofs.PerKeyH.vKind_map,
    IncrVerif.Proofs.PerKeyH.vKind_const, IncrVerif.Proofs.PerKeyH.vKind_var, IncrVerif.Proofs.PerKeyH.vKind_fold]
  vsim))

macro_rules | `(tactic| vsim_leaf) => `(tactic| with_reducible exact IncrVerif.Proofs.PerKeyH.VSim.dassert _ _)
macro_rules | `(tactic| vsim_leaf) => `(tactic| with_reducible exact IncrVerif.Proofs.PerKeyH.VSim.assertM _ _)
macro_rules | `(tactic| vsim_leaf) => `(tactic| with_reducible exact IncrVerif.Proofs.PerKeyH.VSim.tick)
macro_rules | `(tactic| vsim_leaf) => `(tactic|
  ((with_reducible refine IncrVerif.Proofs.PerKeyH.VSim.modNode _ ?_ ?_) <;> first | vcomm | vkind))
macro_rules | `(tactic| vsim_leaf) => `(tactic|
  with_reducible exact IncrVerif.Proofs.PerKeyH.VSim.observabilityChange _ _)
macro_rules | `(tactic| vsim_leaf) => `(tactic|
  with_reducible exact IncrVerif.Proofs.PerKeyH.VSim.runEdgeCallback _ _ _)
macro_rules | `(tactic| vsim_leaf) => `(tactic|
  with_reducible exact IncrVerif.Proofs.PerKeyH.VSim.edgeOnChange _ _ _)

theorem VSim.addParent (c i p : Nat) : VSim (Engine.addParent c i p) (Engine.addParent c i p) := by
  intro s; unfold Engine.addParent; vsim
macro_rules | `(tactic| vsim_leaf) => `(tactic| with_reducible exact IncrVerif.Proofs.PerKeyH.VSim.addParent _ _ _)

theorem VSim.removeParent (c i p : Nat) : VSim (Engine.removeParent c i p) (Engine.removeParent c i p) := by
  intro s; unfold Engine.removeParent; vsim
  split <;> vsim
macro_rules | `(tactic| vsim_leaf) => `(tactic| with_reducible exact IncrVerif.Proofs.PerKeyH.VSim.removeParent _ _ _)

theorem VSim.setHeight (n : Nat) (h : Int) : VSim (Engine.setHeight n h) (Engine.setHeight n h) := by
  intro s; unfold Engine.setHeight; vsim
macro_rules | `(tactic| vsim_leaf) => `(tactic| with_reducible exact IncrVerif.Proofs.PerKeyH.VSim.setHeight _ _)

theorem VSim.rchLink (n : Nat) : VSim (Engine.rchLink n) (Engine.rchLink n) := by
  intro s; unfold Engine.rchLink; vsim
macro_rules | `(tactic| vsim_leaf) => `(tactic| with_reducible exact IncrVerif.Proofs.PerKeyH.VSim.rchLink _)

theorem VSim.rchUnlink (n : Nat) : VSim (Engine.rchUnlink n) (Engine.rchUnlink n) := by
  intro s; unfold Engine.rchUnlink; vsim
  split <;> vsim
  split <;> vsim
  split <;> vsim
macro_rules | `(tactic| vsim_leaf) => `(tactic| with_reducible exact IncrVerif.Proofs.PerKeyH.VSim.rchUnlink _)

theorem VSim.rchInsert (n : Nat) : VSim (Engine.rchInsert n) (Engine.rchInsert n) := by
  intro s; unfold Engine.rchInsert; vsim
macro_rules | `(tactic| vsim_leaf) => `(tactic| with_reducible exact IncrVerif.Proofs.PerKeyH.VSim.rchInsert _)

theorem VSim.rchRemove (n : Nat) : VSim (Engine.rchRemove n) (Engine.rchRemove n) := by
  intro s; unfold Engine.rchRemove; vsim
macro_rules | `(tactic| vsim_leaf) => `(tactic| with_reducible exact IncrVerif.Proofs.PerKeyH.VSim.rchRemove _)

theorem VSim.rchRemoveMin : VSim Engine.rchRemoveMin Engine.rchRemoveMin := by
  intro s; unfold Engine.rchRemoveMin; vsim
  split <;> vsim
macro_rules | `(tactic| vsim_leaf) => `(tactic| with_reducible exact IncrVerif.Proofs.PerKeyH.VSim.rchRemoveMin)

theorem VSim.rchMinHeight : VSim Engine.rchMinHeight Engine.rchMinHeight := by
  intro s; unfold Engine.rchMinHeight; vsim
  exact VSimAt.ret _
macro_rules | `(tactic| vsim_leaf) => `(tactic| with_reducible exact IncrVerif.Proofs.PerKeyH.VSim.rchMinHeight)

theorem VSim.rchIncreaseHeight (n : Nat) : VSim (Engine.rchIncreaseHeight n) (Engine.rchIncreaseHeight n) := by
  intro s; unfold Engine.rchIncreaseHeight; vsim
macro_rules | `(tactic| vsim_leaf) => `(tactic| with_reducible exact IncrVerif.Proofs.PerKeyH.VSim.rchIncreaseHeight _)

theorem VSim.ahhAddUnlessMem (n : Nat) : VSim (Engine.ahhAddUnlessMem n) (Engine.ahhAddUnlessMem n) := by
  intro s; unfold Engine.ahhAddUnlessMem; vsim
macro_rules | `(tactic| vsim_leaf) => `(tactic| with_reducible exact IncrVerif.Proofs.PerKeyH.VSim.ahhAddUnlessMem _)

theorem VSim.ahhRemoveMin : VSim Engine.ahhRemoveMin Engine.ahhRemoveMin := by
  intro s; unfold Engine.ahhRemoveMin; vsim
  split <;> vsim
macro_rules | `(tactic| vsim_leaf) => `(tactic| with_reducible exact IncrVerif.Proofs.PerKeyH.VSim.ahhRemoveMin)

theorem VSim.ensureHeightRequirement (oc op c p : Nat) :
    VSim (Engine.ensureHeightRequirement oc op c p) (Engine.ensureHeightRequirement oc op c p) := by
  intro s; unfold Engine.ensureHeightRequirement; vsim
macro_rules | `(tactic| vsim_leaf) => `(tactic|
  with_reducible exact IncrVerif.Proofs.PerKeyH.VSim.ensureHeightRequirement _ _ _ _)

theorem VSim.getBind (b : Nat) : VSim (Engine.getBind b) (Engine.getBind b) := by
  intro s; unfold Engine.getBind; vsim
  split <;> vsim
macro_rules | `(tactic| vsim_leaf) => `(tactic| with_reducible exact IncrVerif.Proofs.PerKeyH.VSim.getBind _)

theorem VSim.bumpCounter (f : Counters → Counters) : VSim (Engine.bumpCounter f) (Engine.bumpCounter f) := by
  intro s; unfold Engine.bumpCounter; vsim
macro_rules | `(tactic| vsim_leaf) => `(tactic| with_reducible exact IncrVerif.Proofs.PerKeyH.VSim.bumpCounter _)

theorem VSim.scopeHeight (sc : Scope) : VSim (Engine.scopeHeight sc) (Engine.scopeHeight sc) := by
  intro s; unfold Engine.scopeHeight
  cases sc with
  | top => vsim
  | bind b => vsim
macro_rules | `(tactic| vsim_leaf) => `(tactic| with_reducible exact IncrVerif.Proofs.PerKeyH.VSim.scopeHeight _)

theorem VSim.scopeIsNecessary (sc : Scope) : VSim (Engine.scopeIsNecessary sc) (Engine.scopeIsNecessary sc) := by
  intro s; unfold Engine.scopeIsNecessary
  cases sc with
  | top => vsim
  | bind b => vsim
macro_rules | `(tactic| vsim_leaf) => `(tactic| with_reducible exact IncrVerif.Proofs.PerKeyH.VSim.scopeIsNecessary _)

theorem VSim.handleAfterStabilisation (n : Nat) :
    VSim (Engine.handleAfterStabilisation n) (Engine.handleAfterStabilisation n) := by
  intro s; unfold Engine.handleAfterStabilisation; vsim
macro_rules | `(tactic| vsim_leaf) => `(tactic|
  with_reducible exact IncrVerif.Proofs.PerKeyH.VSim.handleAfterStabilisation _)

theorem VSim.maybeHandleAfterStabilisation (n : Nat) :
    VSim (Engine.maybeHandleAfterStabilisation n) (Engine.maybeHandleAfterStabilisation n) := by
  intro s; unfold Engine.maybeHandleAfterStabilisation; vsim
macro_rules | `(tactic| vsim_leaf) => `(tactic|
  with_reducible exact IncrVerif.Proofs.PerKeyH.VSim.maybeHandleAfterStabilisation _)

/-- no map_ref nodes: a no-op on both sides -/
theorem VSim.markMapRefUnknown (fuel n : Nat) :
    VSim (Engine.markMapRefUnknown fuel n) (Engine.markMapRefUnknown fuel n) := by
  intro s
  cases fuel with
  | zero => unfold Engine.markMapRefUnknown; vsim
  | succ fuel =>
    unfold Engine.markMapRefUnknown
    vsim
    vsim_kind
macro_rules | `(tactic| vsim_leaf) => `(tactic| with_reducible exact IncrVerif.Proofs.PerKeyH.VSim.markMapRefUnknown _ _)

/-! ## `adjust_heights` (no bind nodes: the `bindLhsChange` branch is dead) -/

theorem VSim.adjustHeightsLoop (oc op fuel : Nat) :
    VSim (Engine.adjustHeightsLoop oc op fuel) (Engine.adjustHeightsLoop oc op fuel) := by
  induction fuel with
  | zero => intro s; unfold Engine.adjustHeightsLoop; vsim
  | succ fuel ih =>
    intro s
    unfold Engine.adjustHeightsLoop
    refine VSimAt.seq (VSim.ahhRemoveMin s) fun r s1 _ => ?_
    cases r with
    | none => exact VSimAt.ret _
    | some c =>
      dsimp only
      vsim
      all_goals first
        | exact ih _
        | (vsim_kind; all_goals exact ih _)
macro_rules | `(tactic| vsim_leaf) => `(tactic|
  with_reducible exact IncrVerif.Proofs.PerKeyH.VSim.adjustHeightsLoop _ _ _)

theorem VSim.adjustHeights (oc op fuel : Nat) :
    VSim (Engine.adjustHeights oc op fuel) (Engine.adjustHeights oc op fuel) := by
  intro s; unfold Engine.adjustHeights; vsim
  · simp only [V_nodeD, vNode_height]; rfl
macro_rules | `(tactic| vsim_leaf) => `(tactic| with_reducible exact IncrVerif.Proofs.PerKeyH.VSim.adjustHeights _ _ _)

end IncrVerif.Proofs.PerKeyH
