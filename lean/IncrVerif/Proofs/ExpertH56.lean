import IncrVerif.Proofs.ExpertH55
import IncrVerif.Proofs.ExpertH40
/-!
# Expert nodes, E2: what the parent loop of `maybeChangeValueManual` does to the slots of the expert records

* `KE.*`: the heap operations of the loop leave the expert records alone (`Keeps State.experts`).
* `childChanged_x_run`, `childChanged_step`: one `childChanged` on a parent of the fragment, as a state transformer.
* `Walk env c v R S D`: `S` is the state `R` after the callbacks of the parent entries in `D` (of node `c`, whose value
  is `some v`) have been delivered: every record differs from the one in `R` only in `slots`; a slot that was hit by an
  entry of `D` (record with the flag down) holds `v`; every other slot is as in `R`.
* `mcvm_walk`: a successful propagating `maybeChangeValueManual` is a `Walk` over all parent entries.
-/
namespace IncrVerif.Proofs.ExpertH
open IncrVerif.Engine IncrVerif.Driver IncrVerif.Proofs IncrVerif.Proofs.Step IncrVerif.Proofs.Sched
open IncrVerif.Proofs.ExpertH.QR IncrVerif.Proofs.Xp

/-! ## the heap operations keep the expert records -/

macro_rules
  | `(tactic| qleaf) =>
    `(tactic| ((with_reducible apply Step.Pres.modify); intro _; exact (rfl : State.experts _ = State.experts _)))

theorem KE.modNode (n f) : Step.Pres (Keeps State.experts) (modNode n f) := by unfold Engine.modNode; qpres
macro_rules | `(tactic| qleaf) => `(tactic| with_reducible apply KE.modNode)
theorem KE.handleAfterStabilisation (n) : Step.Pres (Keeps State.experts) (handleAfterStabilisation n) := by
  unfold Engine.handleAfterStabilisation; qpres
macro_rules | `(tactic| qleaf) => `(tactic| with_reducible apply KE.handleAfterStabilisation)
theorem KE.maybeHandleAfterStabilisation (n) : Step.Pres (Keeps State.experts) (maybeHandleAfterStabilisation n) := by
  unfold Engine.maybeHandleAfterStabilisation; qpres
macro_rules | `(tactic| qleaf) => `(tactic| with_reducible apply KE.maybeHandleAfterStabilisation)
theorem KE.rchMinHeight : Step.Pres (Keeps State.experts) rchMinHeight := by unfold Engine.rchMinHeight; qpres
macro_rules | `(tactic| qleaf) => `(tactic| with_reducible apply KE.rchMinHeight)
theorem KE.rchLink (n) : Step.Pres (Keeps State.experts) (rchLink n) := by unfold Engine.rchLink; qpres
macro_rules | `(tactic| qleaf) => `(tactic| with_reducible apply KE.rchLink)
theorem KE.rchInsert (n) : Step.Pres (Keeps State.experts) (rchInsert n) := by unfold Engine.rchInsert; qpres
macro_rules | `(tactic| qleaf) => `(tactic| with_reducible apply KE.rchInsert)
theorem KE.parentIterCanRecomputeNow (p child) : Step.Pres (Keeps State.experts) (parentIterCanRecomputeNow p child) := by
  unfold Engine.parentIterCanRecomputeNow; qpres
macro_rules | `(tactic| qleaf) => `(tactic| with_reducible apply KE.parentIterCanRecomputeNow)

/-! ## one `childChanged` on a parent of the fragment -/

/-- `child_changed` on a valid parent that is not a map_ref: the edge callback of an expert parent, nothing otherwise -/
theorem childChanged_x_run (env : Env) (fuel p c i : Nat) (old : Option Val) {s : State} {nd : Node}
    (hn : s.nodes[p]? = some nd) (hv : nd.valid = true) (hk : ∀ pr inp, nd.kind ≠ .mapRef pr inp) :
    (childChanged env (fuel + 1) p c i old).run.run s =
      match nd.kind with
      | .expert e => (runEdgeCallback env e i).run.run s
      | _ => (.ok (), s) := by
  unfold childChanged
  rw [run_bind_ok (run_getNode_some hn)]
  have : nd.kind? = some nd.kind := by simp [Node.kind?, hv]
  rw [this]
  cases hkd : nd.kind <;> first | rfl | exact absurd hkd (hk _ _)

/-- the slots after the callback of dependency `d0` delivered `v` -/
theorem lookup_deliver (d0 : Nat) (v : Val) (l : List (Nat × Val)) (d : Nat) :
    (((d0, v) :: l.filter (·.1 != d0)).lookup d) = if d = d0 then some v else l.lookup d := by
  by_cases h : d = d0
  · subst h; simp [List.lookup]
  · rw [if_neg h]
    have : (d == d0) = false := by simpa using h
    simp only [List.lookup, this]
    exact lookup_filter_ne d d0 l h

/-- a successful `childChanged` on a valid parent `p` (not a map_ref) of a state without armed fault whose records are
user-defined: nothing happens unless `p` is an expert whose flag is down and that has an edge `ci`; then the callback
of that edge is delivered -/
theorem childChanged_step {env : Env} {fuel p c ci : Nat} {old : Option Val} {S S' : State} {u : Unit}
    (hvalid : (S.nodeD p).valid = true) (hk : ∀ pr inp, (S.nodeD p).kind ≠ .mapRef pr inp)
    (hpk : ∀ (e : Nat) (er : ExpertRec), S.experts[e]? = some er → er.pk = none) (hpc : S.panicCountdown = none)
    (h : (childChanged env fuel p c ci old).run.run S = (.ok u, S')) :
    ((∀ e, (S.nodeD p).kind ≠ .expert e) → S' = S) ∧
    ∀ e, (S.nodeD p).kind = .expert e → ∃ er, S.experts[e]? = some er ∧
      (er.willFireAllCallbacks = true → S' = S) ∧
      (er.willFireAllCallbacks = false → er.children[ci]? = none → S' = S) ∧
      (∀ ed, er.willFireAllCallbacks = false → er.children[ci]? = some ed →
        S' = putExpert e (fireRec env S er ed) (logged (cbEvent env S er.node ed) S)) := by
  cases fuel with
  | zero => unfold childChanged at h; cases h
  | succ fuel =>
    have hn : S.nodes[p]? = some (S.nodeD p) := by
      cases hq : S.nodes[p]? with
      | some x => rw [nodeD_of_some hq]
      | none =>
        exfalso
        unfold childChanged at h
        obtain ⟨nd, _, hg, _⟩ := bind_ok_inv h
        obtain ⟨_, hnd⟩ := getNode_ok_inv hg
        rw [hq] at hnd; cases hnd
    rw [childChanged_x_run env fuel p c ci old hn hvalid hk] at h
    constructor
    · intro hne
      cases hkd : (S.nodeD p).kind <;> rw [hkd] at h <;>
        first
          | (cases h; rfl)
          | exact absurd hkd (hne _)
    · intro e hke
      rw [hke] at h
      dsimp only at h
      cases hx : S.experts[e]? with
      | none =>
        exfalso
        unfold runEdgeCallback at h
        obtain ⟨er, _, hg, _⟩ := bind_ok_inv h
        rw [run_getExpert, hx] at hg; cases hg
      | some er =>
        rw [runEdgeCallback_run env ci hx] at h
        refine ⟨er, rfl, ?_, ?_, ?_⟩
        · intro hw; rw [if_pos hw] at h; cases h; rfl
        · intro hw hc
          rw [if_neg (by rw [hw]; simp), hc] at h; cases h; rfl
        · intro ed hw hc
          rw [if_neg (by rw [hw]; simp), hc] at h
          dsimp only at h
          rw [edgeOnChange_run env ed hx (hpk e er hx) hpc] at h
          cases h
          exact fireEdge_eq env e er.node ed hx

/-! ## the walk over the parent entries -/

/-- dependency `d` of record `er` (expert `e`) is the callback edge named by a parent entry in `D` -/
def Hit (R : State) (D : Nat × Nat → Prop) (e : Nat) (er : ExpertRec) (d : Nat) : Prop :=
  ∃ p ci ed, D (p, ci) ∧ (R.nodeD p).kind = .expert e ∧ er.children[ci]? = some ed ∧ ed.dep = d ∧
    ed.cb.isSome = true

theorem Hit.mono {R : State} {D D' : Nat × Nat → Prop} {e : Nat} {er : ExpertRec} {d : Nat}
    (h : Hit R D e er d) (hD : ∀ a, D a → D' a) : Hit R D' e er d := by
  obtain ⟨p, ci, ed, h1, h2⟩ := h
  exact ⟨p, ci, ed, hD _ h1, h2⟩

/-- how the record `er'` relates to the record `er` it was before the entries in `D` were processed -/
structure SlotsRel (v : Val) (R : State) (D : Nat × Nat → Prop) (e : Nat) (er er' : ExpertRec) : Prop where
  hit : ∀ d, er.willFireAllCallbacks = false → Hit R D e er d → er'.slots.lookup d = some v
  keep : ∀ d, er'.slots.lookup d = er.slots.lookup d ∨ (er.willFireAllCallbacks = false ∧ Hit R D e er d)
  keys : ∀ x, x ∈ er'.slots → x ∈ er.slots ∨ ∃ ed, ed ∈ er.children ∧ x.1 = ed.dep

structure Walk (v : Val) (R S : State) (D : Nat × Nat → Prop) : Prop where
  quiet : Quiet R S
  core : Keeps xcore R S
  slots : ∀ e er, R.experts[e]? = some er → ∃ er', S.experts[e]? = some er' ∧ SlotsRel v R D e er er'

theorem Walk.refl (v : Val) (R : State) : Walk v R R (fun _ => False) :=
  ⟨Quiet.refl R, rfl, fun _ er he => ⟨er, he, fun _ _ h => by
    obtain ⟨_, _, _, hD, _⟩ := h; exact hD.elim, fun _ => Or.inl rfl, fun _ hx => Or.inl hx⟩⟩

theorem hit_cons {R : State} {D : Nat × Nat → Prop} {p ci e : Nat} {er : ExpertRec} {d : Nat} :
    Hit R (fun a => a = (p, ci) ∨ D a) e er d ↔
      Hit R D e er d ∨ ((R.nodeD p).kind = .expert e ∧ ∃ ed, er.children[ci]? = some ed ∧ ed.dep = d ∧
        ed.cb.isSome = true) := by
  constructor
  · rintro ⟨p2, ci2, ed, h1 | h1, h2, h3, h4, h5⟩
    · cases h1; exact Or.inr ⟨h2, ed, h3, h4, h5⟩
    · exact Or.inl ⟨p2, ci2, ed, h1, h2, h3, h4, h5⟩
  · rintro (h | ⟨h2, ed, h3, h4, h5⟩)
    · exact h.mono fun a ha => Or.inr ha
    · exact ⟨p, ci, ed, Or.inl rfl, h2, h3, h4, h5⟩

theorem SlotsRel.mono {v : Val} {R : State} {D D' : Nat × Nat → Prop} {e : Nat} {er er' : ExpertRec}
    (h : SlotsRel v R D e er er') (hD : ∀ a, D a → D' a)
    (hnew : ∀ d, er.willFireAllCallbacks = false → Hit R D' e er d → Hit R D e er d) :
    SlotsRel v R D' e er er' :=
  ⟨fun d hw hh => h.hit d hw (hnew d hw hh),
    fun d => (h.keep d).imp id fun ⟨hw, hh⟩ => ⟨hw, hh.mono hD⟩, h.keys⟩

/-- reading a record of `S` back in `R` through `xcore` -/
theorem core_back {R S : State} (k : Keeps xcore R S) {e : Nat} {er' : ExpertRec} (he' : S.experts[e]? = some er') :
    ∃ er, R.experts[e]? = some er ∧ stripSlots er' = stripSlots er := by
  have := xcore_get k e
  rw [he'] at this
  cases hr : R.experts[e]? with
  | none => rw [hr] at this; cases this
  | some er =>
    rw [hr] at this
    simp only [Option.map_some, Option.some.injEq] at this
    exact ⟨er, rfl, this⟩

theorem core_eq {R S : State} (k : Keeps xcore R S) {e : Nat} {er er' : ExpertRec} (he : R.experts[e]? = some er)
    (he' : S.experts[e]? = some er') : stripSlots er' = stripSlots er := by
  obtain ⟨er0, h0, h1⟩ := core_back k he'
  rw [he] at h0; cases h0; exact h1

theorem strip_fields {a b : ExpertRec} (h : stripSlots a = stripSlots b) :
    a.children = b.children ∧ a.willFireAllCallbacks = b.willFireAllCallbacks ∧ a.pk = b.pk ∧
      a.forceStale = b.forceStale ∧ a.node = b.node :=
  ⟨congrArg (·.children) h, congrArg (·.willFireAllCallbacks) h, congrArg (·.pk) h, congrArg (·.forceStale) h,
    congrArg (·.node) h⟩

/-- what the walk needs of the state `R` it starts from: node `c` holds `v`, and its parent entries name edges on `c` -/
structure WalkPre (env : Env) (c : Nat) (v : Val) (R : State) : Prop where
  valid : ∀ m, (R.nodeD m).valid = true
  nomr : ∀ m p i, (R.nodeD m).kind ≠ .mapRef p i
  pk : ∀ (e : Nat) (er : ExpertRec), R.experts[e]? = some er → er.pk = none
  pc : R.panicCountdown = none
  val : (R.nodeD c).value = some v
  edge : ∀ (p ci e : Nat) (er : ExpertRec) (ed : ExpertEdge), (p, ci) ∈ (R.nodeD c).parents →
    (R.nodeD p).kind = .expert e → R.experts[e]? = some er → er.children[ci]? = some ed → ed.child = c

theorem Walk.value {env : Env} {c : Nat} {v : Val} {R S : State} {D : Nat × Nat → Prop} (P : WalkPre env c v R)
    (W : Walk v R S D) : S.value env c = some v := by
  rw [value_plain env S c (by rw [(W.quiet.node c).kind]; exact P.nomr c), (W.quiet.node c).value]
  exact P.val

/-- work that leaves the expert records alone -/
theorem Walk.frame {v : Val} {R S S' : State} {D : Nat × Nat → Prop} (W : Walk v R S D) (q : Quiet S S')
    (k : Keeps State.experts S S') : Walk v R S' D := by
  have k' : S'.experts = S.experts := k
  refine ⟨W.quiet.trans q, ?_, fun e er he => ?_⟩
  · show xcore S' = xcore R
    have : xcore S' = xcore S := by unfold xcore; rw [k']
    rw [this]; exact W.core
  · rw [k']; exact W.slots e er he

theorem Walk.mono {v : Val} {R S : State} {D D' : Nat × Nat → Prop} (W : Walk v R S D)
    (h1 : ∀ a, D a → D' a) (h2 : ∀ a, D' a → D a) : Walk v R S D' :=
  ⟨W.quiet, W.core, fun e er he => by
    obtain ⟨er', he', rel⟩ := W.slots e er he
    exact ⟨er', he', rel.mono h1 fun d _ hh => hh.mono h2⟩⟩

/-- **one parent entry.** -/
theorem Walk.step {env : Env} {c : Nat} {v : Val} {R S S' : State} {D : Nat × Nat → Prop} {fuel p ci : Nat}
    {old : Option Val} {u : Unit} (P : WalkPre env c v R) (W : Walk v R S D)
    (hp : (p, ci) ∈ (R.nodeD c).parents)
    (h : (childChanged env fuel p c ci old).run.run S = (.ok u, S')) :
    Walk v R S' (fun a => a = (p, ci) ∨ D a) := by
  have q : Quiet S S' := (Step.Pres.childChanged env fuel p c ci old).h _ _ _ h
  have k : Keeps xcore S S' := (K.childChanged env fuel p c ci old).h _ _ _ h
  have kindS : ∀ m, (S.nodeD m).kind = (R.nodeD m).kind := fun m => (W.quiet.node m).kind
  have pkS : ∀ (e : Nat) (er' : ExpertRec), S.experts[e]? = some er' → er'.pk = none := by
    intro e er' he'
    obtain ⟨er, he, hs⟩ := core_back W.core he'
    rw [(strip_fields hs).2.2.1]; exact P.pk e er he
  have valS := W.value P
  obtain ⟨hA, hB⟩ := childChanged_step (by rw [(W.quiet.node p).valid]; exact P.valid p)
    (by rw [kindS]; exact P.nomr p) pkS (W.quiet.pc P.pc) h
  refine ⟨W.quiet.trans q, (show xcore S' = xcore R from (show xcore S' = xcore S from k).trans W.core),
    fun e er he => ?_⟩
  obtain ⟨er', he', rel⟩ := W.slots e er he
  obtain ⟨hch, hwf, -, -, -⟩ := strip_fields (core_eq W.core he he')
  by_cases hfire : (R.nodeD p).kind = .expert e ∧ er.willFireAllCallbacks = false ∧ ∃ ed, er.children[ci]? = some ed
  · obtain ⟨hk, hw, ed, hed⟩ := hfire
    obtain ⟨er2, he2, -, -, hfireS⟩ := hB e (by rw [kindS]; exact hk)
    rw [he'] at he2; cases he2
    have hS' := hfireS ed (by rw [hwf]; exact hw) (by rw [hch]; exact hed)
    have hchild : ed.child = c := P.edge p ci e er ed hp hk he hed
    have hget : S'.experts[e]? = some (fireRec env S er' ed) := by
      rw [hS']; exact putExpert_get (s := logged _ S) _ he'
    refine ⟨_, hget, ?_⟩
    cases hcb : ed.cb with
    | none =>
      rw [fireRec_noop env S er' ed (Or.inl hcb)]
      refine rel.mono (fun a ha => Or.inr ha) fun d _ hh => ?_
      rcases hit_cons.1 hh with hh | ⟨-, ed2, h3, -, h5⟩
      · exact hh
      · rw [hed] at h3; cases h3; rw [hcb] at h5; cases h5
    | some cb =>
      have hrec : (fireRec env S er' ed).slots = (ed.dep, v) :: er'.slots.filter (·.1 != ed.dep) := by
        unfold fireRec; rw [hcb, hchild, valS]
      refine ⟨fun d hw' hh => ?_, fun d => ?_, fun x hx => ?_⟩
      · rw [hrec, lookup_deliver]
        split
        · rfl
        · rcases hit_cons.1 hh with hh | ⟨-, ed2, h3, h4, -⟩
          · exact rel.hit d hw' hh
          · rw [hed] at h3; cases h3; exact absurd h4.symm ‹_›
      · rw [hrec, lookup_deliver]
        split
        · rename_i hd
          exact Or.inr ⟨hw, hit_cons.2 (Or.inr ⟨hk, ed, hed, hd.symm, by rw [hcb]; rfl⟩)⟩
        · exact (rel.keep d).imp id fun ⟨hw', hh⟩ => ⟨hw', hh.mono fun a ha => Or.inr ha⟩
      · rw [hrec] at hx
        rcases List.mem_cons.1 hx with rfl | hx
        · exact Or.inr ⟨ed, List.mem_of_getElem? hed, rfl⟩
        · exact rel.keys x (List.mem_filter.1 hx).1
  · have hget : S'.experts[e]? = some er' := by
      by_cases hx : ∃ e2, (S.nodeD p).kind = .expert e2
      · obtain ⟨e2, hk2⟩ := hx
        obtain ⟨er2, he2, h1, h2, h3⟩ := hB e2 hk2
        by_cases hw2 : er2.willFireAllCallbacks = true
        · rw [h1 hw2]; exact he'
        have hw2' : er2.willFireAllCallbacks = false := by simpa using hw2
        cases hc2 : er2.children[ci]? with
        | none => rw [h2 hw2' hc2]; exact he'
        | some ed2 =>
          rw [h3 ed2 hw2' hc2]
          by_cases hee : e2 = e
          · subst hee
            rw [he'] at he2; cases he2
            exact absurd ⟨by rw [← kindS]; exact hk2, by rw [← hwf]; exact hw2', ed2, by rw [← hch]; exact hc2⟩ hfire
          · rw [← he']; exact putExpert_get_ne (logged _ S) _ hee
      · rw [hA fun e2 h2 => hx ⟨e2, h2⟩]; exact he'
    refine ⟨er', hget, rel.mono (fun a ha => Or.inr ha) fun d hw hh => ?_⟩
    rcases hit_cons.1 hh with hh | ⟨hk, ed2, h3, -, -⟩
    · exact hh
    · exact absurd ⟨hk, hw, ed2, h3⟩ hfire

/-- **the loop over the parent entries**, for any loop body that is a `childChanged` followed by work that leaves
the expert records alone -/
theorem Walk.loop {env : Env} {c : Nat} {v : Val} {R : State} {fuel : Nat} {old : Option Val}
    (P : WalkPre env c v R) (f : Nat × Nat → PUnit → M (ForInStep PUnit))
    (hf : ∀ p ci S S' r, (f (p, ci) ⟨⟩).run.run S = (.ok r, S') →
      ∃ u S1, (childChanged env fuel p c ci old).run.run S = (.ok u, S1) ∧ Quiet S1 S' ∧
        Keeps State.experts S1 S' ∧ r = .yield ⟨⟩) :
    ∀ (rest : List (Nat × Nat)) (S S2 : State) (D : Nat × Nat → Prop) (r : PUnit),
      (∀ a, a ∈ rest → a ∈ (R.nodeD c).parents) → Walk v R S D →
      (forIn rest PUnit.unit f).run.run S = (.ok r, S2) → Walk v R S2 (fun a => a ∈ rest ∨ D a) := by
  intro rest
  induction rest with
  | nil =>
    intro S S2 D r _ W h
    rw [List.forIn_nil] at h
    obtain ⟨-, rfl⟩ := pure_ok_inv h
    exact W.mono (fun a ha => Or.inr ha) fun a ha => ha.elim (fun h => by cases h) id
  | cons a l ih =>
    intro S S2 D r hin W h
    obtain ⟨p, ci⟩ := a
    rw [List.forIn_cons] at h
    obtain ⟨x, S1', hx, hrest⟩ := bind_ok_inv h
    obtain ⟨u, S1, hcc, q, k, rfl⟩ := hf p ci S S1' x hx
    have W1 := (W.step P (hin _ (List.mem_cons_self ..)) hcc).frame q k
    have W2 := ih S1' S2 _ r (fun b hb => hin b (List.mem_cons_of_mem _ hb)) W1 hrest
    refine W2.mono ?_ ?_
    · rintro b (hb | hb | hb)
      · exact Or.inl (List.mem_cons_of_mem _ hb)
      · exact Or.inl (by rw [hb]; exact List.mem_cons_self ..)
      · exact Or.inr hb
    · rintro b (hb | hb)
      · rcases List.mem_cons.1 hb with hb | hb
        · exact Or.inr (Or.inl hb)
        · exact Or.inl hb
      · exact Or.inr (Or.inr hb)

/-- **the parent loop of `maybeChangeValueManual`** (the node changed, `child_changed` notifications on): all parent
entries of `c` are walked -/
theorem mcvm_walk {env : Env} {fuel c : Nat} {old : Option Val} {v : Val} {W s' : State} {r : Option Nat}
    (P : WalkPre env c v (touched c W))
    (h : (maybeChangeValueManual env fuel c old true true).run.run W = (.ok r, s')) :
    Walk v (touched c W) s' (fun a => a ∈ ((touched c W).nodeD c).parents) := by
  unfold maybeChangeValueManual at h
  simp only [Bool.not_true, Bool.false_eq_true, if_false, if_true, run_bind_get, run_bind_modNode,
    run_bind_bumpCounter] at h
  obtain ⟨u, s1, h1, h2⟩ := bind_ok_inv h
  have q1 : Quiet (touched c W) s1 := (Step.Pres.maybeHandleAfterStabilisation c).h _ _ _ h1
  have k1 : Keeps State.experts (touched c W) s1 := (KE.maybeHandleAfterStabilisation c).h _ _ _ h1
  have W1 : Walk v (touched c W) s1 (fun _ => False) := (Walk.refl v _).frame q1 k1
  obtain ⟨nd1, s1', hg, h3⟩ := bind_ok_inv h2
  obtain ⟨rfl, hnd1⟩ := getNode_ok_inv hg
  have hpar : nd1.parents = ((touched c W).nodeD c).parents := by
    have := (q1.node c).parents
    rwa [nodeD_of_some hnd1] at this
  rw [← hpar]
  rcases hps : nd1.parents with _ | ⟨⟨p0, ci0⟩, rest⟩
  · rw [hps] at h3
    obtain ⟨-, rfl⟩ := pure_ok_inv h3
    exact W1.mono (fun _ h => h.elim) fun a (h : a ∈ []) => by cases h
  rw [hps] at h3
  dsimp only at h3
  obtain ⟨u2, s2, hloop, hlast⟩ := bind_ok_inv h3
  have hin : ∀ a, a ∈ (p0, ci0) :: rest → a ∈ ((touched c W).nodeD c).parents := by
    intro a ha; rw [← hpar, hps]; exact ha
  have W2 := Walk.loop (fuel := fuel) (old := old) P _ (by
    intro p ci S S' r hb
    obtain ⟨u, t1, hcc, hb1⟩ := bind_ok_inv hb
    refine ⟨u, t1, hcc, Step.Pres.h (by qpres) _ _ _ hb1, Step.Pres.h (by qpres) _ _ _ hb1, ?_⟩
    rw [run_bind_get] at hb1
    obtain ⟨na, hna, hb4⟩ := bind_getNode_inv (bind_dassert_inv hb1)
    split at hb4
    · obtain ⟨_, t5, hins, hb5⟩ := bind_ok_inv hb4
      exact (pure_ok_inv hb5).1
    · exact (pure_ok_inv hb4).1) rest s1' s2 _ u2 (fun a ha => hin a (List.mem_cons_of_mem _ ha)) W1 hloop
  obtain ⟨u3, s3, hcc, hl1⟩ := bind_ok_inv hlast
  have W3 := W2.step P (hin _ (List.mem_cons_self ..)) hcc
  have W4 := W3.frame (Step.Pres.h (by qpres) _ _ _ hl1) (Step.Pres.h (by qpres) _ _ _ hl1)
  refine W4.mono ?_ ?_
  · rintro b (hb | hb | hb)
    · rw [hb]; exact List.mem_cons_self ..
    · exact List.mem_cons_of_mem _ hb
    · exact hb.elim
  · intro b hb
    rcases List.mem_cons.1 hb with hb | hb
    · exact Or.inl hb
    · exact Or.inr (Or.inl hb)

end IncrVerif.Proofs.ExpertH
