import IncrVerif.Proofs.BindH32
/-!
# Binds, `relink`, part 3: `stateAddParent rhs 1 main` from `.linking 1` closes the bind's main node
-/
namespace IncrVerif.Proofs.BindH
open IncrVerif.Engine IncrVerif.Proofs IncrVerif.Proofs.Step IncrVerif.Proofs.Sched IncrVerif.Proofs.Quiet

namespace BR

section proj
variable {s s' : State} (h : KRel s s') (m : Nat)
include h
theorem KRel.kind : (s'.nodeD m).kind = (s.nodeD m).kind := by
  have := h.node m; simp only [nodeKey, Prod.mk.injEq] at this; exact this.1
theorem KRel.valid : (s'.nodeD m).valid = (s.nodeD m).valid := by
  have := h.node m; simp only [nodeKey, Prod.mk.injEq] at this; exact this.2.2.2.2.1
theorem KRel.recomputedAt : (s'.nodeD m).recomputedAt = (s.nodeD m).recomputedAt := by
  have := h.node m; simp only [nodeKey, Prod.mk.injEq] at this; exact this.2.2.2.2.2.1
theorem KRel.changedAt : (s'.nodeD m).changedAt = (s.nodeD m).changedAt := by
  have := h.node m; simp only [nodeKey, Prod.mk.injEq] at this; exact this.2.2.2.2.2.2.1
end proj

theorem KRel.isStale {env : Env} {s s' : State} (h : KRel s s') (A : AllB env s) {m : Nat}
    (hm : m < s.nodes.size) : s'.isStale m = s.isStale m :=
  isStale_congr_B (A.node m hm).kind (h.kind m) (h.valid m) (h.recomputedAt m) h.vars h.binds
    (fun c _ => h.changedAt c)

theorem upd_allClosed_closed (p : Nat) : upd allClosed p .closed = allClosed := upd_eq_self _ _ _ rfl

/-- `state_add_parent rhs 1 main` where `main` (excused, possibly queued) is `.linking 1` with children `[n, rhs]`:
afterwards everything is closed -/
theorem stateAddParent_specB {env : Env} {fuel b n main rhs : Nat} {t t' : State} {ex : Nat → Prop} {br : BindRec}
    (h : (stateAddParent env fuel rhs 1 main).run.run t = (.ok (), t'))
    (I : GInvB env t (upd allClosed main (.linking 1)) ex) (hex : ex main) (hah : AhhEmpty t)
    (hb : t.binds[b]? = some br) (hkm : (t.nodeD main).kind = .bindMain b n)
    (hch : t.children main = [n, rhs]) (hrn : rhs < n) (hnm : n < main)
    (hhn : (t.nodeD n).height < (t.nodeD main).height) (h0 : 0 ≤ (t.nodeD main).height)
    (hgq : (t.nodeD main).inRch = true → (t.nodeD main).heightInRch = (t.nodeD main).height)
    (hpi : t.propagateInvalidity = [])
    (hrhs : ∀ (b' : Nat) (br' : BindRec), t.binds[b']? = some br' → br'.allNodesCreatedOnRhs = [])
    (hst : (t.nodeD main).recomputedAt < (t.nodeD n).changedAt) :
    GInvB env t' allClosed ex ∧ AhhEmpty t' ∧ KRel t t' := by
  have hms : main < t.nodes.size := I.opLt main (by rw [upd_self]; exact Op.linking_ne_closed _)
  have hstale : t.isStale main = true := isStale_main (I.node hms).valid hkm hb hst
  unfold stateAddParent at h
  rw [run_bind_get] at h
  replace h := bind_dassert_inv h
  obtain ⟨_, t1, hap, h⟩ := bind_ok_inv h
  obtain ⟨I1, hab1, hl1, -⟩ := addParentWithoutAdjustingHeights_specB hap I (upd_self _ _ _)
    (by rw [hch]; rfl)
    (by
      intro m hm
      by_cases e : m = main
      · omega
      · rw [upd_other _ _ _ e] at hm; exact absurd rfl hm)
  rw [upd_upd] at I1
  have K1 : KRel t t1 := KRel.of_cframe hl1.fr hl1.pinv
  have E1 : AhhEmpty t1 := ahhEmpty_frame hah (CFrame.ahh hl1.fr) (((PresM.link env fuel).2 _ _ _).h _ _ _ hap)
  have hch1 : t1.children main = [n, rhs] := by
    rw [(BL.KeyEq.of_cframe hl1.fr).children I.frag]; exact hch
  have hm1 : t1.nodeD main = t.nodeD main := hab1 main (by omega)
  have hn1 : t1.nodeD n = t.nodeD n := hab1 n hrn
  have hnec1 : t1.isNecessary main = true := I1.lnec main 2 (upd_self _ _ _)
  obtain ⟨cn, hcn, h⟩ := bind_getNode_inv h
  obtain ⟨pn, hpn, h⟩ := bind_getNode_inv h
  dsimp only at h
  have hcnD : t1.nodeD rhs = cn := nodeD_of_some hcn
  have hpnD : t1.nodeD main = pn := nodeD_of_some hpn
  -- the tail of the function, from a state in which everything is closed
  have tail : ∀ t2, GInvB env t2 allClosed ex → AhhEmpty t2 → KRel t1 t2 → t2.isNecessary main = true →
      (do propagateInvalidity fuel
          let s ← get
          dassert (s.isNecessary main) "node:state_add_parent:parent-necessary"
          let p ← getNode main
          let c ← getNode rhs
          if !p.inRch && (p.recomputedAt == -1 || c.changedAt > p.recomputedAt) then
            rchInsert main).run.run t2 = (.ok (), t') →
      GInvB env t' allClosed ex ∧ AhhEmpty t' ∧ KRel t t' := by
    intro t2 I2 E2 K2 hnec2 h
    have K12 : KRel t t2 := K1.trans K2
    obtain ⟨_, t3, hpi3, h⟩ := bind_ok_inv h
    have e3 : t3 = t2 := propagateInvalidity_nil hpi3 (by rw [K12.pinv]; exact hpi)
    rw [e3] at h
    rw [run_bind_get] at h
    replace h := bind_dassert_inv h
    obtain ⟨p, hp, h⟩ := bind_getNode_inv h
    obtain ⟨c, hc, h⟩ := bind_getNode_inv h
    have hpD : t2.nodeD main = p := nodeD_of_some hp
    split at h
    · rename_i hcond
      have hnq : (t2.nodeD main).inRch = false := by
        rw [hpD]
        simp only [Bool.and_eq_true, Bool.not_eq_true'] at hcond
        exact hcond.1
      obtain ⟨nd, hnd, -, hmax, e, -, hl⟩ := rchInsert_rel h
      have hndD : t2.nodeD main = nd := nodeD_of_some hnd
      have hms2 : main < t2.nodes.size := by rw [K12.size]; exact hms
      have hst2 : t2.isStale main = true := by rw [K12.isStale I.frag hms]; exact hstale
      have I3 := open_full I2 rfl hnec2
      have I4 := BL.GInvB.close_link_stale I3 (upd_self _ _ _) hnq (Nat.le_refl _)
        (by
          intro i c' hk
          have hm := I2.conv main i c' hk ((wants_closed rfl).2 hnec2)
          exact I2.hlt c' main i hm rfl)
        (I2.hpos main hnec2 rfl) (by rw [hndD]; exact hmax) hst2
      rw [upd_upd, upd_allClosed_closed, hndD, ← e] at I4
      exact ⟨I4, ahhEmpty_frame E2 (CFrame.ahh (hl (fun _ => False)).fr) ((PresM.rchInsert main).h _ _ _ h),
        K12.trans (KRel.of_cframe (hl (fun _ => False)).fr (hl (fun _ => False)).pinv)⟩
    · obtain ⟨-, e⟩ := pure_ok_inv h
      rw [e]
      exact ⟨I2, E2, K12⟩
  by_cases hge : cn.height ≥ pn.height
  · rw [if_pos hge] at h
    obtain ⟨_, t2, hadj, h⟩ := bind_ok_inv h
    have hedge : (main, 1) ∈ (t1.nodeD rhs).parents :=
      I1.conv main 1 rhs (by rw [hch1]; rfl) ((wants_linking (upd_self _ _ _)).2 (by omega))
    obtain ⟨I2, E2, R2, -⟩ := adjustHeights_specB_full hadj I1 (by rw [upd_self, hch1]; rfl)
      (fun m e => by rw [upd_other _ _ _ e]; rfl) ⟨1, hedge⟩
      (by
        intro c i hm hc
        have hk := (I1.par c main i hm).1
        rw [hch1] at hk
        rcases i with _ | _ | i
        · simp only [List.getElem?_cons_zero, Option.some.injEq] at hk
          rw [← hk, hm1, hn1]; exact hhn
        · simp only [List.getElem?_cons_succ, List.getElem?_cons_zero, Option.some.injEq] at hk
          exact absurd hk.symm hc
        · simp at hk)
      (by rw [hm1]; exact hgq) (fun _ => Or.inl hex) E1
      (by rw [K1.binds]; exact hrhs)
    rw [upd_upd, upd_allClosed_closed] at I2
    exact tail t2 I2 E2 (KRel.of_hrel R2) (by rw [R2.nec]; exact hnec1) h
  · rw [if_neg hge] at h
    have I2 := close_full I1 (upd_self _ _ _) (by rw [hch1]; exact Nat.le_refl 2)
      (by
        intro i c hk
        rw [hch1] at hk
        rcases i with _ | _ | i
        · simp only [List.getElem?_cons_zero, Option.some.injEq] at hk
          rw [← hk, hm1, hn1]; exact hhn
        · simp only [List.getElem?_cons_succ, List.getElem?_cons_zero, Option.some.injEq] at hk
          rw [← hk, hcnD, hpnD]; omega
        · simp at hk)
      (by rw [hm1]; exact h0) (by rw [hm1]; exact hgq) (fun _ => Or.inl hex)
    rw [upd_upd, upd_allClosed_closed] at I2
    exact tail t1 I2 E1 (KRel.refl _) hnec1 h

end BR

end IncrVerif.Proofs.BindH
