import IncrVerif.Proofs.TidyH40
/-!
# Converse simulation, part 3: the cascades (mirror of ExpertH25, ExpertH26), the notification walk (ExpertH27, 28)
-/
namespace IncrVerif.Proofs.TidyH.XT
namespace XR
open IncrVerif.Engine IncrVerif.Driver IncrVerif.Proofs IncrVerif.Proofs.Step IncrVerif.Proofs.Sched
open IncrVerif.Proofs.ExpertH

/-! ## ExpertH25 -/

set_option maxHeartbeats 600000 in
theorem SimR.link (env : Env) (fuel : Nat) :
    (∀ n, SimR (becameNecessary env fuel n) (becameNecessary (virtEnv env) fuel n)) ∧
    (∀ c i p, SimR (addParentWithoutAdjustingHeights env fuel c i p)
      (addParentWithoutAdjustingHeights (virtEnv env) fuel c i p)) := by
  induction fuel with
  | zero =>
    constructor
    · intro n s; unfold becameNecessary; rsim
    · intro c i p s; unfold addParentWithoutAdjustingHeights; rsim
  | succ fuel ih =>
    constructor
    · intro n s
      unfold becameNecessary
      rsim
      all_goals first
        | exact ih.2 _ _ _ _
        | rsim_kind
    · intro c i p s
      unfold addParentWithoutAdjustingHeights
      rsim
      all_goals first
        | exact ih.1 _ _
        | rsim_kind
        | (exfalso; simp_all; done)
      all_goals first
        | rsim_kind
        | skip

theorem SimR.becameNecessary (env : Env) (fuel n : Nat) :
    SimR (Engine.becameNecessary env fuel n) (Engine.becameNecessary (virtEnv env) fuel n) := (SimR.link env fuel).1 n
theorem SimR.addParentWithoutAdjustingHeights (env : Env) (fuel c i p : Nat) :
    SimR (Engine.addParentWithoutAdjustingHeights env fuel c i p)
      (Engine.addParentWithoutAdjustingHeights (virtEnv env) fuel c i p) := (SimR.link env fuel).2 c i p
macro_rules | `(tactic| rsim_leaf) => `(tactic|
  with_reducible exact IncrVerif.Proofs.TidyH.XT.XR.SimR.becameNecessary _ _ _)
macro_rules | `(tactic| rsim_leaf) => `(tactic|
  with_reducible exact IncrVerif.Proofs.TidyH.XT.XR.SimR.addParentWithoutAdjustingHeights _ _ _ _ _)



/-! ## ExpertH26 -/

theorem SimR.unlink (fuel : Nat) :
    (∀ n, SimR (becameUnnecessary fuel n) (becameUnnecessary fuel n)) ∧
    (∀ n, SimR (checkIfUnnecessary fuel n) (checkIfUnnecessary fuel n)) ∧
    (∀ n, SimR (removeChildren fuel n) (removeChildren fuel n)) := by
  induction fuel with
  | zero =>
    refine ⟨?_, ?_, ?_⟩
    · intro n s; unfold becameUnnecessary; rsim
    · intro n s; unfold checkIfUnnecessary; rsim
    · intro n s; unfold removeChildren; rsim
  | succ fuel ih =>
    refine ⟨?_, ?_, ?_⟩
    · intro n s
      unfold becameUnnecessary
      rsim
      all_goals first
        | exact ih.2.2 _ _
        | rsim_kind
      refine SimRAt.veq_seq (SimRAt.observabilityChange_nd _ hnd hk) fun _ _ => ?_
      rsim
    · intro n s
      unfold checkIfUnnecessary
      rsim
      all_goals exact ih.1 _ _
    · intro n s
      unfold removeChildren
      rsim
      all_goals exact ih.2.1 _ _

theorem SimR.becameUnnecessary (fuel n : Nat) :
    SimR (Engine.becameUnnecessary fuel n) (Engine.becameUnnecessary fuel n) := (SimR.unlink fuel).1 n
theorem SimR.checkIfUnnecessary (fuel n : Nat) :
    SimR (Engine.checkIfUnnecessary fuel n) (Engine.checkIfUnnecessary fuel n) := (SimR.unlink fuel).2.1 n
theorem SimR.removeChildren (fuel n : Nat) :
    SimR (Engine.removeChildren fuel n) (Engine.removeChildren fuel n) := (SimR.unlink fuel).2.2 n
macro_rules | `(tactic| rsim_leaf) => `(tactic|
  with_reducible exact IncrVerif.Proofs.TidyH.XT.XR.SimR.becameUnnecessary _ _)
macro_rules | `(tactic| rsim_leaf) => `(tactic|
  with_reducible exact IncrVerif.Proofs.TidyH.XT.XR.SimR.checkIfUnnecessary _ _)
macro_rules | `(tactic| rsim_leaf) => `(tactic|
  with_reducible exact IncrVerif.Proofs.TidyH.XT.XR.SimR.removeChildren _ _)

/-- `Fr.pinv`: the stack is empty, a no-op on both sides -/
theorem SimR.propagateInvalidity (fuel : Nat) :
    SimR (Engine.propagateInvalidity fuel) (Engine.propagateInvalidity fuel) := by
  intro s hn r t hr
  cases fuel with
  | zero => unfold Engine.propagateInvalidity at hr; cases hr
  | succ fuel =>
    unfold Engine.propagateInvalidity at hr
    rw [run_bind_get, virt_propagateInvalidity, hn.fr.pinv] at hr
    cases hr
    refine ⟨s, ?_, rfl, hn⟩
    unfold Engine.propagateInvalidity
    rw [run_bind_get, hn.fr.pinv]
    rfl
macro_rules | `(tactic| rsim_leaf) => `(tactic|
  with_reducible exact IncrVerif.Proofs.TidyH.XT.XR.SimR.propagateInvalidity _)



/-! ## ExpertH27 -/

theorem keepEv_cut (c n : Nat) (o v : Val) (r : Bool) : keepEv (.cut c n o v r) = true := rfl

theorem SimR.shouldCutoff (env : Env) (n : Nat) (o v : Val) :
    SimR (Engine.shouldCutoff env n o v) (Engine.shouldCutoff (virtEnv env) n o v) := by
  intro s; unfold Engine.shouldCutoff; simp only [virtEnv_cutoff]; rsim
  split <;> rsim
  all_goals exact SimR.logEv_keep _ rfl _
macro_rules | `(tactic| rsim_leaf) => `(tactic| with_reducible exact IncrVerif.Proofs.TidyH.XT.XR.SimR.shouldCutoff _ _ _ _)

/-- an expert parent runs its edge callback (invisible); its virtual `fold` does nothing; there are no map_ref
nodes -/
theorem SimR.childChanged (env : Env) (fuel p c ci : Nat) (o o' : Option Val) :
    SimR (Engine.childChanged env fuel p c ci o) (Engine.childChanged (virtEnv env) fuel p c ci o') := by
  intro s
  cases fuel with
  | zero => unfold Engine.childChanged; rsim
  | succ fuel =>
    unfold Engine.childChanged
    rsim
    rsim_kind
macro_rules | `(tactic| rsim_leaf) => `(tactic|
  with_reducible exact IncrVerif.Proofs.TidyH.XT.XR.SimR.childChanged _ _ _ _ _ _ _)

theorem SimR.parentIterCanRecomputeNow (p child : Nat) :
    SimR (Engine.parentIterCanRecomputeNow p child) (Engine.parentIterCanRecomputeNow p child) := by
  intro s; unfold Engine.parentIterCanRecomputeNow; rsim
  rsim_kind
  all_goals exact SimRAt.ret _
macro_rules | `(tactic| rsim_leaf) => `(tactic|
  with_reducible exact IncrVerif.Proofs.TidyH.XT.XR.SimR.parentIterCanRecomputeNow _ _)



/-! ## ExpertH28 -/

theorem SimR.becameNecessaryPropagate (env : Env) (fuel n : Nat) :
    SimR (Engine.becameNecessaryPropagate env fuel n) (Engine.becameNecessaryPropagate (virtEnv env) fuel n) := by
  intro s; unfold Engine.becameNecessaryPropagate; rsim
macro_rules | `(tactic| rsim_leaf) => `(tactic|
  with_reducible exact IncrVerif.Proofs.TidyH.XT.XR.SimR.becameNecessaryPropagate _ _ _)

theorem SimR.maybeChangeValueManual (env : Env) (fuel n : Nat) (o : Option Val) (did b : Bool) :
    SimR (Engine.maybeChangeValueManual env fuel n o did b)
      (Engine.maybeChangeValueManual (virtEnv env) fuel n o did b) := by
  intro s
  unfold Engine.maybeChangeValueManual
  rsim
  split <;> rsim
macro_rules | `(tactic| rsim_leaf) => `(tactic|
  with_reducible exact IncrVerif.Proofs.TidyH.XT.XR.SimR.maybeChangeValueManual _ _ _ _ _ _)

theorem SimR.maybeChangeValue (env : Env) (fuel n : Nat) (v : Val) :
    SimR (Engine.maybeChangeValue env fuel n v) (Engine.maybeChangeValue (virtEnv env) fuel n v) := by
  intro s
  unfold Engine.maybeChangeValue
  rsim
  split <;> rsim
macro_rules | `(tactic| rsim_leaf) => `(tactic|
  with_reducible exact IncrVerif.Proofs.TidyH.XT.XR.SimR.maybeChangeValue _ _ _ _)



end XR
end IncrVerif.Proofs.TidyH.XT
