import IncrVerif.Proofs.PerKeyH91
import IncrVerif.Proofs.PerKeyH92
import IncrVerif.Proofs.PerKeyH93
/-!
# `VSim`, part 6 (port of ExpertH28): `became_necessary_propagate`; the notification walk, part 2
(`maybeChangeValueManual`, `maybeChangeValue`)
-/
namespace IncrVerif.Proofs.PerKeyH
open IncrVerif.Engine IncrVerif.Driver IncrVerif.Proofs IncrVerif.Proofs.Step IncrVerif.Proofs.Sched
open IncrVerif.Proofs.ExpertH IncrVerif.Proofs.EffH

theorem VSim.becameNecessaryPropagate (env : Env) (fuel n : Nat) :
    VSim (Engine.becameNecessaryPropagate env fuel n) (Engine.becameNecessaryPropagate (penv env) fuel n) := by
  intro s; unfold Engine.becameNecessaryPropagate; vsim
macro_rules | `(tactic| vsim_leaf) => `(tactic|
  with_reducible exact IncrVerif.Proofs.PerKeyH.VSim.becameNecessaryPropagate _ _ _)

theorem VSim.maybeChangeValueManual (env : Env) (fuel n : Nat) (o : Option Val) (did b : Bool) :
    VSim (Engine.maybeChangeValueManual env fuel n o did b)
      (Engine.maybeChangeValueManual (penv env) fuel n o did b) := by
  intro s
  unfold Engine.maybeChangeValueManual
  vsim
  split <;> vsim
macro_rules | `(tactic| vsim_leaf) => `(tactic|
  with_reducible exact IncrVerif.Proofs.PerKeyH.VSim.maybeChangeValueManual _ _ _ _ _ _)

theorem VSim.maybeChangeValue (env : Env) (fuel n : Nat) (v : Val) :
    VSim (Engine.maybeChangeValue env fuel n v) (Engine.maybeChangeValue (penv env) fuel n v) := by
  intro s
  unfold Engine.maybeChangeValue
  vsim
  split <;> vsim
macro_rules | `(tactic| vsim_leaf) => `(tactic|
  with_reducible exact IncrVerif.Proofs.PerKeyH.VSim.maybeChangeValue _ _ _ _)

end IncrVerif.Proofs.PerKeyH
