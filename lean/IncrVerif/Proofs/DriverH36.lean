import IncrVerif.Proofs.DriverH6
/-!
# Drivers: the value of an expert node after a `stabilise` with drivers, in plain terms
(port of `ExpertH.expert_value_sum` from `StabilisedX` to `StabilisedD`)
-/
namespace IncrVerif.Proofs.DriverH
open IncrVerif.Engine IncrVerif.Driver IncrVerif.Proofs IncrVerif.Proofs.Step IncrVerif.Proofs.Sched
open IncrVerif.Proofs.ExpertH IncrVerif.Proofs.ExpertH.QR IncrVerif.Proofs.EffH IncrVerif.Proofs.Xp

/-- the from-scratch evaluation does not read the effects -/
theorem evalX_noEffH (env : Env) (s : State) (k n : Nat) : evalX (noEff env) s k n = evalX env s k n := by
  induction k generalizing n with
  | zero => rfl
  | succ k ih =>
    unfold evalX
    have : (fun a => evalX (noEff env) s k a) = (fun a => evalX env s k a) := funext ih
    rw [this]
    rfl

/-- **value clause with drivers.** In a state `s'` reached by a `stabilise` of a program with drivers: a NECESSARY
expert node `n` with record `er` (closure "sum mod m", `m = er.f / 10`) carries the sum, modulo `m`, of the CURRENT values
of its CURRENT dependencies `er.children` (as left by the last runs of the drivers; in edge order, duplicates counted),
all of which have a value. -/
theorem expert_value_d {env : Env} {fuel : Nat} {s s' : State} (R : StabilisedD env fuel s s')
    {n e : Nat} {er : ExpertRec} (hn : s'.isNecessary n = true) (hk : (s'.nodeD n).kind = .expert e)
    (hx : s'.experts[e]? = some er) :
    ∃ vals : List Val, er.children.map (fun ed => s'.value env ed.child) = vals.map some ∧
      s'.value env n = some (.int (emod ((vals.map Val.toInt).foldl (· + ·) 0) ((er.f / 10 : Nat) : Int))) := by
  obtain ⟨rk, Q⟩ := R.inv
  have I := Q.q.struct
  have hnv : (virt s').isNecessary n = true := by rw [virt_isNecessary]; exact hn
  have h0 : 0 ≤ (s'.nodeD n).height := by
    have := I.hpos n hnv rfl; rwa [virt_nodeD] at this
  obtain ⟨-, hv, hs⟩ := R.values n hn ((s'.nodeD n).height.toNat + 1) (Nat.lt_succ_self _)
  rw [evalX_expert env s' _ n e hk, xRec_some hx] at hv hs
  -- the children read their own from-scratch values
  have hkids : kids ((virt s').nodeD n).kind = er.children.map (·.child) := virt_kids_expert hk hx
  have hchild : ∀ c, c ∈ er.children.map (·.child) →
      evalX env s' (s'.nodeD n).height.toNat c = s'.value env c := by
    intro c hc
    obtain ⟨i, hi⟩ := List.getElem?_of_mem hc
    rw [← hkids] at hi
    have hm := I.conv n i c hi ((wants_closed rfl).2 hnv)
    have hcn : (virt s').isNecessary c = true := nec_of_mem_parents hm
    have hlt := I.hlt c n i hm rfl
    rw [virt_nodeD, virt_nodeD, virtNode_height, virtNode_height] at hlt
    have hc0 : 0 ≤ (s'.nodeD c).height := by
      have := I.hpos c hcn rfl; rwa [virt_nodeD] at this
    have hcn' : s'.isNecessary c = true := by rw [← virt_isNecessary]; exact hcn
    exact ((R.values c hcn' _ (by omega)).2.1).symm
  have hcg := evalArgs_congr (s'.value env) (fun a => evalX env s' (s'.nodeD n).height.toNat a) _
    (fun a ha => hchild a ha)
  rw [hcg] at hv hs
  cases hev : evalArgs (s'.value env) (er.children.map (·.child)) with
  | none => rw [hev] at hs; cases hs
  | some vals =>
    rw [hev] at hv
    refine ⟨vals, ?_, ?_⟩
    · have := evalArgs_map hev
      rw [List.map_map] at this
      exact this
    · rw [hv]; simp only [Option.map_some]; rw [foldl_xStep]

/-- the same for an OBSERVED expert node: what the observer reads -/
theorem expert_read_d {env : Env} {fuel : Nat} {s s' : State} (R : StabilisedD env fuel s s')
    {o : Nat} {ob : ObsRec} (ho : s'.observers[o]? = some ob) (hst : ob.state = .inUse) :
    ∃ v, s'.tryGetValue env o = .ok v ∧
      ∀ k, (s'.nodeD ob.node).height.toNat < k → evalX env s' k ob.node = some v := by
  obtain ⟨v, hv, -⟩ := R.reads o ob ho hst _ (Nat.lt_succ_self _)
  refine ⟨v, hv, fun k hk => ?_⟩
  obtain ⟨v', hv', he⟩ := R.reads o ob ho hst k hk
  rw [hv] at hv'; cases hv'; exact he

end IncrVerif.Proofs.DriverH
