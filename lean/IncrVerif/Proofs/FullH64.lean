import IncrVerif.Proofs.FullH63
/-!
# C01 full fragment: NON-VACUITY, part 3 — structural facts about the states of the example history (kernel-checked)
-/
namespace IncrVerif.Proofs.FullH
open IncrVerif.Engine IncrVerif.Driver IncrVerif.Proofs IncrVerif.Proofs.Step IncrVerif.Proofs.Sched IncrVerif.Proofs.Quiet
open IncrVerif.Proofs.BindH

theorem EX.fact_split {α β : Type} {acts : List Action} {f : State → α} {g : State → β} {a : α} {b : β}
    (h : EX.factF acts (fun s => (f s, g s)) = some (a, b)) : EX.factF acts f = some a ∧ EX.factF acts g = some b := by
  unfold EX.factF at *
  cases hs : C2h.stateB fEnv acts with
  | none => rw [hs] at h; cases h
  | some s =>
    rw [hs] at h
    simp only [Option.map_some, Option.some.injEq, Prod.mk.injEq] at h ⊢
    exact h

set_option maxRecDepth 100000 in
set_option synthInstance.maxSize 4000 in
set_option synthInstance.maxHeartbeats 400000 in
/-- after the first `stabilise`: nodes 3, 4 = the bind; the outer closure created, in scope `.bind 0`, the map_ref CHAIN 5, 6 (`mapRef 1 n0`, `mapRef 1 %0`),
the `mapWithOld 7` node 7 (stored value `a = 5`), `map f0 [7, n2]`, the inner bind 9, 10 (record 1) and `map f0 [8, 10]`; the inner closure created, in scope
`.bind 1`, `mapRef 2 n0` (node 12) and `mapWithOld 7 12` (node 13, stored value `c = 7`) -/
theorem exHistF_first :
    EX.factF (exHistF.take 6) (fun s => s.nodes.size) = some 14 ∧
    EX.factF (exHistF.take 6) (fun s => ((s.nodeD 5).kind, (s.nodeD 6).kind, (s.nodeD 7).kind, (s.nodeD 8).kind)) =
      some (.mapRef 1 0, .mapRef 1 5, .mapWithOld 7 6, .map 0 [7, 2]) ∧
    EX.factF (exHistF.take 6) (fun s => ((s.nodeD 9).kind, (s.nodeD 10).kind, (s.nodeD 11).kind)) =
      some (.bindLhsChange 1, .bindMain 1 9, .map 0 [8, 10]) ∧
    EX.factF (exHistF.take 6) (fun s => ((s.nodeD 12).kind, (s.nodeD 13).kind)) = some (.mapRef 2 0, .mapWithOld 7 12) ∧
    EX.factF (exHistF.take 6) (fun s => ((s.nodeD 5).createdIn, (s.nodeD 7).createdIn, (s.nodeD 12).createdIn)) =
      some (.bind 0, .bind 0, .bind 1) ∧
    EX.factF (exHistF.take 6) (fun s => s.binds.toList.map (·.allNodesCreatedOnRhs)) = some [[5, 6, 7, 8, 9, 10, 11], [12, 13]] ∧
    EX.factF (exHistF.take 6) (fun s => ((s.nodeD 7).value, (s.nodeD 13).value, (s.nodeD 5).value)) =
      some (some (.int 5), some (.int 7), none) := by
  have aux : EX.factF (exHistF.take 6) (fun s => ((s.nodes.size), (((s.nodeD 5).kind, (s.nodeD 6).kind, (s.nodeD 7).kind, (s.nodeD 8).kind)), (((s.nodeD 9).kind, (s.nodeD 10).kind, (s.nodeD 11).kind)), (((s.nodeD 12).kind, (s.nodeD 13).kind)), (((s.nodeD 5).createdIn, (s.nodeD 7).createdIn, (s.nodeD 12).createdIn)), (s.binds.toList.map (·.allNodesCreatedOnRhs)), (((s.nodeD 7).value, (s.nodeD 13).value, (s.nodeD 5).value)))) =
      some ((14), ((.mapRef 1 0, .mapRef 1 5, .mapWithOld 7 6, .map 0 [7, 2])), ((.bindLhsChange 1, .bindMain 1 9, .map 0 [8, 10])), ((.mapRef 2 0, .mapWithOld 7 12)), ((.bind 0, .bind 0, .bind 1)), ([[5, 6, 7, 8, 9, 10, 11], [12, 13]]), ((some (.int 5), some (.int 7), none))) := by decide +kernel
  obtain ⟨h1, aux⟩ := EX.fact_split aux
  obtain ⟨h2, aux⟩ := EX.fact_split aux
  obtain ⟨h3, aux⟩ := EX.fact_split aux
  obtain ⟨h4, aux⟩ := EX.fact_split aux
  obtain ⟨h5, aux⟩ := EX.fact_split aux
  obtain ⟨h6, aux⟩ := EX.fact_split aux
  exact ⟨h1, h2, h3, h4, h5, h6, aux⟩

set_option maxRecDepth 100000 in
set_option synthInstance.maxSize 4000 in
set_option synthInstance.maxHeartbeats 400000 in
/-- the second `stabilise` (ONLY `c` changed; it ran at stamp 1): the first map_ref node 5 was recomputed (stamp 1) but did NOT change (`changedAt = 0`), its
flag is down; the rest of the chain (6, the machine 7, node 8) was NOT recomputed; `mapRef 2 n0` (node 12) changed, the inner machine 13 now stores `70` -/
theorem exHistF_c_only :
    EX.factF (exHistF.take 8) (fun s => ((s.nodeD 5).recomputedAt, (s.nodeD 5).changedAt, (s.nodeD 5).didChange)) = some (1, 0, false) ∧
    EX.factF (exHistF.take 8) (fun s => ((s.nodeD 6).recomputedAt, (s.nodeD 7).recomputedAt, (s.nodeD 8).recomputedAt)) = some (0, 0, 0) ∧
    EX.factF (exHistF.take 8) (fun s => ((s.nodeD 12).recomputedAt, (s.nodeD 12).changedAt, (s.nodeD 13).value, (s.nodeD 7).value)) =
      some (1, 1, some (.int 70), some (.int 5)) := by
  have aux : EX.factF (exHistF.take 8) (fun s => ((((s.nodeD 5).recomputedAt, (s.nodeD 5).changedAt, (s.nodeD 5).didChange)), (((s.nodeD 6).recomputedAt, (s.nodeD 7).recomputedAt, (s.nodeD 8).recomputedAt)), (((s.nodeD 12).recomputedAt, (s.nodeD 12).changedAt, (s.nodeD 13).value, (s.nodeD 7).value)))) =
      some (((1, 0, false)), ((0, 0, 0)), ((1, 1, some (.int 70), some (.int 5)))) := by decide +kernel
  obtain ⟨h1, aux⟩ := EX.fact_split aux
  obtain ⟨h2, aux⟩ := EX.fact_split aux
  exact ⟨h1, h2, aux⟩

set_option maxRecDepth 100000 in
set_option synthInstance.maxSize 4000 in
set_option synthInstance.maxHeartbeats 400000 in
/-- the third `stabilise` (`a` changed; stamp 2): the whole chain changed, the machine stores `9`; `mapRef 2 n0` was recomputed but did not change,
the inner machine was not recomputed -/
theorem exHistF_a_changed :
    EX.factF (exHistF.take 10) (fun s => ((s.nodeD 5).changedAt, (s.nodeD 6).changedAt, (s.nodeD 7).changedAt, (s.nodeD 7).value)) =
      some (2, 2, 2, some (.int 9)) ∧
    EX.factF (exHistF.take 10) (fun s => ((s.nodeD 12).recomputedAt, (s.nodeD 12).changedAt, (s.nodeD 13).recomputedAt)) = some (2, 1, 1) ∧
    EX.factF (exHistF.take 10) (fun s => (List.range 14).all fun n => (s.nodeD n).valid) = some true := by
  have aux : EX.factF (exHistF.take 10) (fun s => ((((s.nodeD 5).changedAt, (s.nodeD 6).changedAt, (s.nodeD 7).changedAt, (s.nodeD 7).value)), (((s.nodeD 12).recomputedAt, (s.nodeD 12).changedAt, (s.nodeD 13).recomputedAt)), ((List.range 14).all fun n => (s.nodeD n).valid))) =
      some (((2, 2, 2, some (.int 9))), ((2, 1, 1)), (true)) := by decide +kernel
  obtain ⟨h1, aux⟩ := EX.fact_split aux
  obtain ⟨h2, aux⟩ := EX.fact_split aux
  exact ⟨h1, h2, aux⟩

end IncrVerif.Proofs.FullH
