import IncrVerif.Proofs.MapOld3
/-!
# map_with_old fragment: simulation of the heap, height and necessity functions
-/
namespace IncrVerif.Proofs.MapOldH
open IncrVerif.Engine IncrVerif.Proofs IncrVerif.Proofs.Step IncrVerif.Proofs.Sched IncrVerif.Proofs.Quiet

/-- registered `Sim` lemmas -/
syntax "wsim_leaf" : tactic
macro_rules | `(tactic| wsim_leaf) => `(tactic| fail "no leaf")

set_option hygiene false in
macro "wsim_step" : tactic => `(tactic| first
  | with_reducible exact SimAt.ret _
  | with_reducible exact SimAt.thr _ _
  | with_reducible exact SimAt.pan _ _
  | ((with_reducible refine SimAt.get_seq ?_); try wnorm)
  | ((with_reducible refine SimAt.getNode_seq fun nd hnd hne hnr hval => ?_); try wnorm)
  | ((with_reducible refine SimAt.mod_seq ?_ ?_ ?_ ?_) <;> (first | rfl | skip))
  | ((with_reducible refine SimAt.mod ?_ ?_ ?_) <;> rfl)
  | ((with_reducible refine Sim.at ?_ _); wsim_leaf)
  | ((with_reducible refine Sim.at (Sim.forIn _ (fun _ _ => ?_) _) _); intro _)
  | (with_reducible refine SimAt.seq ?_ fun _ _ _ => ?_)
  | (refine SimAt.cond Iff.rfl (fun _ => ?_) (fun _ => ?_)))

macro "wsim" : tactic => `(tactic| repeat (any_goals wsim_step))

set_option hygiene false in
/-- a `match` on the kind of the node last read by `getNode` -/
macro "wsim_kind" : tactic => `(tactic| (
  simp only [virtNode_kind?]
  rcases hk : nd.kind? with _ | k
  all_goals try cases k
  all_goals simp only [Option.map_none, Option.map_some, virtKind]
  all_goals try exact absurd (kind_of_kind? hk) (hne _)
  all_goals try exact absurd (kind_of_kind? hk) (hnr _ _)
  wsim))

theorem kind_of_kind? {nd : Node} {k : Kind} (h : nd.kind? = some k) : nd.kind = k := by
  unfold Node.kind? at h; split at h
  · cases h; rfl
  · cases h

section
macro_rules | `(tactic| wsim_leaf) => `(tactic| with_reducible exact Sim.dassert _ _)
macro_rules | `(tactic| wsim_leaf) => `(tactic| with_reducible exact Sim.assertM _ _)
macro_rules | `(tactic| wsim_leaf) => `(tactic| ((with_reducible refine Sim.modNode _ ?_ ?_) <;> first | wcomm | wkindt))

theorem Sim.addParent (c i p : Nat) : Sim (Engine.addParent c i p) (Engine.addParent c i p) := by
  intro s; unfold Engine.addParent; wsim
macro_rules | `(tactic| wsim_leaf) => `(tactic| with_reducible exact Sim.addParent _ _ _)

theorem Sim.setHeight (n : Nat) (h : Int) : Sim (Engine.setHeight n h) (Engine.setHeight n h) := by
  intro s; unfold Engine.setHeight; wsim
macro_rules | `(tactic| wsim_leaf) => `(tactic| with_reducible exact Sim.setHeight _ _)


theorem Sim.rchLink (n : Nat) : Sim (Engine.rchLink n) (Engine.rchLink n) := by
  intro s; unfold Engine.rchLink; wsim
macro_rules | `(tactic| wsim_leaf) => `(tactic| with_reducible exact Sim.rchLink _)

theorem Sim.rchInsert (n : Nat) : Sim (Engine.rchInsert n) (Engine.rchInsert n) := by
  intro s; unfold Engine.rchInsert; wsim
macro_rules | `(tactic| wsim_leaf) => `(tactic| with_reducible exact Sim.rchInsert _)



/-- in the fragment there is no map_ref node: `markMapRefUnknown` does nothing, in both states -/
theorem Sim.markMapRefUnknown (fuel n : Nat) :
    Sim (Engine.markMapRefUnknown fuel n) (Engine.markMapRefUnknown fuel n) := by
  intro s
  cases fuel with
  | zero => unfold Engine.markMapRefUnknown; exact SimAt.thr _ _
  | succ fuel =>
    unfold Engine.markMapRefUnknown
    wsim
    wsim_kind
macro_rules | `(tactic| wsim_leaf) => `(tactic| with_reducible exact Sim.markMapRefUnknown _ _)

end
end IncrVerif.Proofs.MapOldH
