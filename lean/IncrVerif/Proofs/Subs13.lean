import IncrVerif.Proofs.Subs2
import IncrVerif.Proofs.Subs4
import IncrVerif.Proofs.Subs12
/-!
# Subscriptions, part 12a: what the actions other than `stabilise` do to logs, values and handler records;
the observer actions keep the handler bookkeeping
-/
namespace IncrVerif.Proofs.SubsH
open IncrVerif.Engine IncrVerif.Driver IncrVerif.Proofs IncrVerif.Proofs.Step IncrVerif.Proofs.Sched
open IncrVerif.Proofs.Quiet

/-- what every action of the fragment other than `stabilise` does: nothing is logged, stored values are kept,
`nextToken` does not decrease, and every handler record present afterwards either was there before (same
record, same observer, whose node is the same and whose lifecycle state only moved forward) or belongs to a
fresh token and has never been called -/
structure NStep (s s' : State) : Prop where
  log : s'.log = s.log
  stabNum : s'.stabNum = s.stabNum
  value : ∀ m, (s'.nodeD m).value = (s.nodeD m).value
  nextToken : s.nextToken ≤ s'.nextToken
  recs : ∀ (o : Nat) (ob' : ObsRec) (h : HandlerRec), s'.observers[o]? = some ob' → h ∈ ob'.handlers →
    (∃ ob, s.observers[o]? = some ob ∧ h ∈ ob.handlers ∧ ob'.node = ob.node ∧
      Life.lifeLe ob.state ob'.state) ∨
    (s.nextToken ≤ h.token ∧ h.prev = .neverBeenUpdated)

theorem NStep.of_kframe {s s' : State} (K : KFrame s s') : NStep s s' := by
  refine ⟨K.log, K.stabNum, fun m => (K.nk m).2.2.2, Nat.le_of_eq K.nextToken.symm, fun o ob' h ho hh => ?_⟩
  rw [K.observers] at ho
  exact Or.inl ⟨ob', ho, hh, rfl, Life.lifeLe_refl _⟩

theorem P12a.NStep.refl (s : State) : NStep s s := NStep.of_kframe (KFrame.refl s)

/-- the handler list of one observer is replaced; new records carry fresh tokens -/
theorem P12a.nstep_of_modify {s s' : State} {o : Nat} {g : List HandlerRec → List HandlerRec}
    (F : SFrame s s')
    (hobs : s'.observers = s.observers.modify o fun x => { x with handlers := g x.handlers })
    (hg : ∀ l h, h ∈ g l → h ∈ l ∨ (s.nextToken ≤ h.token ∧ h.prev = .neverBeenUpdated)) : NStep s s' := by
  refine ⟨F.log, F.stabNum, F.value, F.nextToken, fun o' ob' h ho hh => ?_⟩
  rw [hobs, Array.getElem?_modify] at ho
  split at ho
  · cases hx : s.observers[o']? with
    | none => rw [hx] at ho; cases ho
    | some x =>
      rw [hx] at ho
      simp only [Option.map_some, Option.some.injEq] at ho
      subst ho
      rcases hg _ h hh with hm | hm
      · exact Or.inl ⟨x, rfl, hm, rfl, Life.lifeLe_refl _⟩
      · exact Or.inr hm
  · exact Or.inl ⟨ob', ho, hh, rfl, Life.lifeLe_refl _⟩

theorem step_subscribe_n {env : Env} {s s' : State} {o hid : Nat} {tokens : Array Nat} {r : String × Array Nat}
    (U : UInv env s) (h : (stepAction env (.subscribe o hid) tokens).run.run s = (.ok r, s')) :
    NStep s s' := by
  obtain ⟨-, F, hc⟩ := step_subscribe U h
  rcases hc with ⟨e, -⟩ | ⟨-, -, ob, -, -, ho⟩
  · rw [e]; exact P12a.NStep.refl s
  · refine P12a.nstep_of_modify
      (g := fun l => l ++ [{ token := s.nextToken, hid := hid, createdAt := s.stabNum }]) F ho ?_
    intro l x hx
    rcases List.mem_append.1 hx with hx | hx
    · exact Or.inl hx
    · rw [List.mem_singleton] at hx
      rw [hx]; exact Or.inr ⟨Nat.le_refl _, rfl⟩

theorem step_unsubscribe_n {env : Env} {s s' : State} {o t : Nat} {tokens : Array Nat} {r : String × Array Nat}
    (U : UInv env s) (h : (stepAction env (.unsubscribe o t) tokens).run.run s = (.ok r, s')) :
    NStep s s' := by
  obtain ⟨-, F, -, -, hc⟩ := step_unsubscribe U h
  rcases hc with e | ⟨-, ob, -, -, ho⟩
  · rw [e]; exact P12a.NStep.refl s
  · exact P12a.nstep_of_modify (g := fun l => l.filter (·.token != t)) F ho
      (fun l x hx => Or.inl (List.mem_filter.1 hx).1)

theorem step_stateUnsub_n {env : Env} {s s' : State} {t : Nat} {tokens : Array Nat} {r : String × Array Nat}
    (U : UInv env s) (h : (stepAction env (.stateUnsub t) tokens).run.run s = (.ok r, s')) :
    NStep s s' := by
  obtain ⟨-, F, -, -, hc⟩ := step_stateUnsub U h
  rcases hc with e | ⟨o, ob, -, -, -, ho⟩
  · rw [e]; exact P12a.NStep.refl s
  · exact P12a.nstep_of_modify (g := fun l => l.filter (·.token != t)) F ho
      (fun l x hx => Or.inl (List.mem_filter.1 hx).1)

/-! ## the observer actions: records keep their handlers or lose all of them -/

theorem P12a.lifeLe_back {a b : ObsState} (h : Life.lifeLe a b) (hb : b = .created ∨ b = .inUse) :
    a = .created ∨ a = .inUse := by
  revert h hb
  cases a <;> cases b <;> decide

/-- the nodes, `nextToken`, the round, the queue are kept; a record keeps node and handlers and moves forward in
the lifecycle, or has no handlers; the records listed by nodes keep their handlers -/
structure P12a.RStep (s s' : State) : Prop where
  nodes : s'.nodes = s.nodes
  nextToken : s'.nextToken = s.nextToken
  stabNum : s'.stabNum = s.stabNum
  handleAfterStab : s'.handleAfterStab = s.handleAfterStab
  log : s'.log = s.log
  recs : ∀ (o : Nat) (ob' : ObsRec), s'.observers[o]? = some ob' → ob'.handlers = [] ∨
    ∃ ob, s.observers[o]? = some ob ∧ ob'.handlers = ob.handlers ∧ ob'.node = ob.node ∧
      Life.lifeLe ob.state ob'.state
  listed : ∀ n o, o ∈ (s.nodeD n).observers → hOf s' o = hOf s o

theorem P12a.RStep.nodeD {s s' : State} (R : P12a.RStep s s') (m : Nat) : s'.nodeD m = s.nodeD m := by
  simp [State.nodeD, R.nodes]

theorem P12a.RStep.refl (s : State) : P12a.RStep s s :=
  ⟨rfl, rfl, rfl, rfl, rfl, fun _ ob h => Or.inr ⟨ob, h, rfl, rfl, Life.lifeLe_refl _⟩, fun _ _ _ => rfl⟩

theorem P12a.RStep.trans {a b c : State} (h1 : P12a.RStep a b) (h2 : P12a.RStep b c) : P12a.RStep a c := by
  refine ⟨h2.nodes.trans h1.nodes, h2.nextToken.trans h1.nextToken, h2.stabNum.trans h1.stabNum,
    h2.handleAfterStab.trans h1.handleAfterStab, h2.log.trans h1.log, fun o ob'' h => ?_, fun n o hm => ?_⟩
  · rcases h2.recs o ob'' h with e | ⟨ob', h', e1, e2, e3⟩
    · exact Or.inl e
    · rcases h1.recs o ob' h' with e | ⟨ob, h0, f1, f2, f3⟩
      · exact Or.inl (e1.trans e)
      · exact Or.inr ⟨ob, h0, e1.trans f1, e2.trans f2, Life.lifeLe_trans f3 e3⟩
  · have hm' : o ∈ (b.nodeD n).observers := by rw [h1.nodeD]; exact hm
    exact (h2.listed n o hm').trans (h1.listed n o hm)

theorem P12a.RStep.hinv {s s' : State} (R : P12a.RStep s s') (H : HInv s) : HInv s' := by
  refine ⟨fun n => ?_, fun n => by rw [R.nodeD]; exact H.obsNodup n, ?_, fun o ob' h => ?_,
    ⟨by rw [R.handleAfterStab]; exact H.has.nodup, fun n => by rw [R.handleAfterStab, R.nodeD]; exact H.has.flag n⟩,
    fun o ob' x h hx => ?_, fun o ob' x h hx => ?_, fun o ob' x h hs hx hp => ?_⟩
  · rw [R.nodeD, H.count n]
    unfold numOf
    rw [R.nodeD]
    congr 1
    exact List.map_congr_left fun o ho => by rw [R.listed n o ho]
  · refine Life.TokWF.of_sub (Nat.le_of_eq R.nextToken.symm) (fun o ob' h => ?_) H.tok
    rcases R.recs o ob' h with e | ⟨ob, h0, e1, -, -⟩
    · exact Or.inl (by simp [Life.tokensOf, e])
    · exact Or.inr ⟨ob, h0, fun t ht => by simpa [Life.tokensOf, e1] using ht⟩
  · rcases R.recs o ob' h with e | ⟨ob, h0, e1, -, -⟩
    · rw [e]; exact List.nodup_nil
    · rw [e1]; exact H.tokNodup o ob h0
  · rcases R.recs o ob' h with e | ⟨ob, h0, e1, -, -⟩
    · rw [e] at hx; cases hx
    · rw [e1] at hx; rw [R.stabNum]; exact H.createdAt o ob x h0 hx
  · rcases R.recs o ob' h with e | ⟨ob, h0, e1, -, -⟩
    · rw [e] at hx; cases hx
    · rw [e1] at hx; exact H.prev o ob x h0 hx
  · rcases R.recs o ob' h with e | ⟨ob, h0, e1, e2, e3⟩
    · rw [e] at hx; cases hx
    · rw [e1] at hx
      rw [R.handleAfterStab, e2]
      exact H.pending o ob x h0 (P12a.lifeLe_back e3 hs) hx hp

theorem P12a.RStep.nstep {s s' : State} (R : P12a.RStep s s') : NStep s s' := by
  refine ⟨R.log, R.stabNum, fun m => by rw [R.nodeD], Nat.le_of_eq R.nextToken.symm, fun o ob' x h hx => ?_⟩
  rcases R.recs o ob' h with e | ⟨ob, h0, e1, e2, e3⟩
  · rw [e] at hx; cases hx
  · rw [e1] at hx
    exact Or.inl ⟨ob, h0, hx, e2, e3⟩

/-- a new record without handlers is pushed -/
theorem P12a.RStep.of_push {s s' : State} {n : Nat} (O : ObsOK s) (h1 : s'.nodes = s.nodes)
    (h2 : s'.nextToken = s.nextToken) (h3 : s'.stabNum = s.stabNum)
    (h4 : s'.handleAfterStab = s.handleAfterStab) (h5 : s'.log = s.log)
    (ho : s'.observers = s.observers.push { node := n }) : P12a.RStep s s' := by
  refine ⟨h1, h2, h3, h4, h5, fun o ob' h => ?_, fun m o hm => ?_⟩
  · rw [ho, Array.getElem?_push] at h
    split at h
    · cases h; exact Or.inl rfl
    · exact Or.inr ⟨ob', h, rfl, rfl, Life.lifeLe_refl _⟩
  · obtain ⟨ob, hob, -⟩ := (O.mem m o).1 hm
    have hne : ¬ o = s.observers.size := by
      intro e
      rw [e] at hob
      simp at hob
    simp only [hOf, ho, Array.getElem?_push, if_neg hne]

/-- one record is modified -/
theorem P12a.RStep.of_modify {s s' : State} {o : Nat} {f : ObsRec → ObsRec} (h1 : s'.nodes = s.nodes)
    (h2 : s'.nextToken = s.nextToken) (h3 : s'.stabNum = s.stabNum)
    (h4 : s'.handleAfterStab = s.handleAfterStab) (h5 : s'.log = s.log)
    (ho : s'.observers = s.observers.modify o f)
    (hf : ∀ ob, s.observers[o]? = some ob → (f ob).node = ob.node ∧ Life.lifeLe ob.state (f ob).state ∧
      ((f ob).handlers = ob.handlers ∨ ((f ob).handlers = [] ∧ ∀ n, o ∉ (s.nodeD n).observers))) :
    P12a.RStep s s' := by
  have hget : ∀ o', s'.observers[o']? = if o = o' then Option.map f s.observers[o']? else s.observers[o']? := by
    intro o'; rw [ho, Array.getElem?_modify]
  refine ⟨h1, h2, h3, h4, h5, fun o' ob' h => ?_, fun m o' hm => ?_⟩
  · rw [hget] at h
    split at h
    · rename_i e
      subst e
      cases hx : s.observers[o]? with
      | none => rw [hx] at h; cases h
      | some x =>
        rw [hx] at h
        simp only [Option.map_some, Option.some.injEq] at h
        subst h
        obtain ⟨f1, f2, f3⟩ := hf x hx
        rcases f3 with f3 | ⟨f3, -⟩
        · exact Or.inr ⟨x, rfl, f3, f1, f2⟩
        · exact Or.inl f3
    · exact Or.inr ⟨ob', h, rfl, rfl, Life.lifeLe_refl _⟩
  · by_cases e : o = o'
    · subst e
      cases hx : s.observers[o]? with
      | none => simp only [hOf, hget, hx, if_true, Option.map_none]
      | some x =>
        obtain ⟨-, -, f3⟩ := hf x hx
        rcases f3 with f3 | ⟨-, f3⟩
        · simp only [hOf, hget, hx, if_true, Option.map_some, f3]
        · exact absurd hm (f3 m)
    · simp only [hOf, hget, if_neg e]

/-- only fields that `HInv` and `NStep` do not read change -/
theorem P12a.RStep.of_same {s s' : State} (h1 : s'.nodes = s.nodes)
    (h2 : s'.nextToken = s.nextToken) (h3 : s'.stabNum = s.stabNum)
    (h4 : s'.handleAfterStab = s.handleAfterStab) (h5 : s'.log = s.log)
    (ho : s'.observers = s.observers) : P12a.RStep s s' :=
  ⟨h1, h2, h3, h4, h5, fun o ob' h => Or.inr ⟨ob', by rw [← ho]; exact h, rfl, rfl, Life.lifeLe_refl _⟩,
    fun _ o _ => hOf_congr ho o⟩

theorem P12a.disallow_r {s s' : State} {o : Nat} {u : Unit} (O : ObsOK s)
    (h : (disallowFutureUse o).run.run s = (.ok u, s')) : P12a.RStep s s' := by
  unfold disallowFutureUse at h
  obtain ⟨ob, hob, h⟩ := bind_getObs_inv h
  cases hst : ob.state with
  | disallowed =>
    rw [hst] at h
    obtain ⟨-, e⟩ := pure_ok_inv h
    rw [e]; exact P12a.RStep.refl s
  | unlinked =>
    rw [hst] at h
    obtain ⟨-, e⟩ := pure_ok_inv h
    rw [e]; exact P12a.RStep.refl s
  | created =>
    rw [hst] at h
    dsimp only at h
    obtain ⟨s1, e1, h⟩ := bind_bumpCounter_inv h
    have e := modObs_ok_inv h
    rw [e, e1]
    refine P12a.RStep.of_modify (o := o) (f := fun x => { x with state := .unlinked, handlers := [] })
      rfl rfl rfl rfl rfl rfl (fun ob' h' => ?_)
    rw [hob] at h'; cases h'
    refine ⟨rfl, by rw [hst]; show Life.lifeLe .created .unlinked; decide, Or.inr ⟨rfl, fun n hm => ?_⟩⟩
    obtain ⟨ob', h', -, hs⟩ := (O.mem n o).1 hm
    rw [hob] at h'; cases h'
    rw [hst] at hs
    rcases hs with hs | hs <;> cases hs
  | inUse =>
    rw [hst] at h
    dsimp only at h
    obtain ⟨s1, e1, h⟩ := bind_bumpCounter_inv h
    obtain ⟨s2, e2, h⟩ := bind_modObs_inv h
    rw [run_modify] at h
    have e : s' = { s2 with disallowedObservers := s2.disallowedObservers ++ [o] } := by cases h; rfl
    rw [e, e2, e1]
    refine P12a.RStep.of_modify (o := o) (f := fun x => { x with state := .disallowed })
      rfl rfl rfl rfl rfl rfl (fun ob' h' => ?_)
    rw [hob] at h'; cases h'
    exact ⟨rfl, by rw [hst]; show Life.lifeLe .inUse .disallowed; decide, Or.inl rfl⟩

/-- the four observer actions of the static fragment -/
def ObsAction : Action → Prop
  | .observe n => OpndOK n
  | .cloneObs _ | .dropObs _ | .disallow _ => True
  | _ => False

theorem P12a.step_obs_r {env : Env} {s s' : State} {a : Action} {tokens : Array Nat} {r : String × Array Nat}
    (Q : QInv env s) (ha : ObsAction a) (h : (stepAction env a tokens).run.run s = (.ok r, s')) :
    QInv env s' ∧ r.2 = tokens ∧ P12a.RStep s s' := by
  cases a with
  | observe n =>
    cases n with
    | outer k =>
      refine ⟨step_observe Q h, ?_⟩
      simp only [stepAction, resolveOpnd] at h
      obtain ⟨n, s0, h0, h⟩ := bind_ok_inv h
      rw [run_bind_get] at h0
      cases hk : s.top[k]? with
      | none => rw [hk] at h0; cases h0
      | some n' =>
        rw [hk] at h0
        obtain ⟨en, e0⟩ := pure_ok_inv h0
        rw [e0] at h
        rw [run_bind_get] at h
        obtain ⟨s1, e1, h⟩ := bind_modify_inv h
        obtain ⟨s2, e2, h⟩ := bind_bumpCounter_inv h
        obtain ⟨er, e⟩ := pure_ok_inv h
        rw [e, e2, e1]
        exact ⟨by rw [er], P12a.RStep.of_push (n := n) Q.obs rfl rfl rfl rfl rfl rfl⟩
    | _ => exact ha.elim
  | cloneObs o =>
    refine ⟨step_cloneObs Q h, ?_⟩
    simp only [stepAction] at h
    obtain ⟨s1, e1, h⟩ := bind_modObs_inv h
    obtain ⟨er, e⟩ := pure_ok_inv h
    rw [e, e1]
    exact ⟨by rw [er], P12a.RStep.of_modify (o := o) (f := fun x => { x with clones := x.clones + 1 })
      rfl rfl rfl rfl rfl rfl (fun ob _ => ⟨rfl, Life.lifeLe_refl _, Or.inl rfl⟩)⟩
  | dropObs o =>
    refine ⟨step_dropObs Q h, ?_⟩
    simp only [stepAction] at h
    obtain ⟨ob, hob, h⟩ := bind_getObs_inv h
    split at h
    · obtain ⟨er, e⟩ := pure_ok_inv h
      rw [e]; exact ⟨by rw [er], P12a.RStep.refl s⟩
    · obtain ⟨s1, e1, h⟩ := bind_modObs_inv h
      have Q1 : QInv env s1 := by
        rw [e1]; exact modObs_same_q Q (fun ob => ⟨rfl, rfl⟩)
      have R1 : P12a.RStep s s1 := by
        rw [e1]
        exact P12a.RStep.of_modify (o := o) (f := fun x => { x with clones := x.clones - 1 })
          rfl rfl rfl rfl rfl rfl (fun ob _ => ⟨rfl, Life.lifeLe_refl _, Or.inl rfl⟩)
      split at h
      · obtain ⟨u, s2, h2, h⟩ := bind_ok_inv h
        obtain ⟨er, e⟩ := pure_ok_inv h
        rw [e]
        exact ⟨by rw [er], R1.trans (P12a.disallow_r Q1.obs h2)⟩
      · obtain ⟨er, e⟩ := pure_ok_inv h
        rw [e]; exact ⟨by rw [er], R1⟩
  | disallow o =>
    refine ⟨step_disallow Q h, ?_⟩
    simp only [stepAction] at h
    obtain ⟨u, s1, h1, h⟩ := bind_ok_inv h
    obtain ⟨er, e⟩ := pure_ok_inv h
    rw [e]
    exact ⟨by rw [er], P12a.disallow_r Q.obs h1⟩
  | _ => exact ha.elim

/-- **the observer actions** keep the invariant (the core part is `step_observe`, `step_cloneObs`, `step_dropObs`,
`step_disallow` of `U3`), leave the token table alone and are `NStep` -/
theorem step_obsAction {env : Env} {s s' : State} {a : Action} {tokens : Array Nat} {r : String × Array Nat}
    (U : UInv env s) (ha : ObsAction a) (h : (stepAction env a tokens).run.run s = (.ok r, s')) :
    UInv env s' ∧ r.2 = tokens ∧ NStep s s' := by
  obtain ⟨Q', hr, R⟩ := P12a.step_obs_r U.core ha h
  exact ⟨⟨Q', R.hinv U.hinv⟩, hr, R.nstep⟩

end IncrVerif.Proofs.SubsH
