import IncrVerif.Proofs.NestH91
/-!
# Total correctness for nested binds (F2), phase 2 of the run of a change detector, part 2: `lhsRelink` returns — `lhsRelink_total2`

Mirror of `NR4` (`NR.link_part`, `NR.unforce_part`) and `NR5` (`relink_spec2`).  What can panic in `lhsRelink = modBind; modNode; changeChildBindRhs`:
* `getNode main`;
* `removeParent old 1 main` (`"not-a-parent"`): the edge `main → old rhs` is recorded (`GInv2.conv`: `main` is necessary and closed);
* `stateAddParent rhs 1 main` (→ `T2d.sap_tot`);
* `checkIfUnnecessary old` (→ `checkIfUnnecessary_full2_size`).
The partial-correctness lemmas supply the invariant of every intermediate state (each step returned, so they apply).
-/
namespace IncrVerif.Proofs.NestH
open IncrVerif.Engine IncrVerif.Proofs IncrVerif.Proofs.Step IncrVerif.Proofs.Sched IncrVerif.Proofs.Quiet
open IncrVerif.Proofs.BindH

namespace T2d
open NR

section
variable {env : Env} {rk : Nat → Nat} {N : Nat} {s : State} {ex : Nat → Prop} {dy : List Nat} {b n rhs : Nat} {br : BindRec}

/-- the linking part, from either prefix: total, with the post-condition of `NR.link_part` -/
theorem link_tot {fuel : Nat} {t : State}
    (I : GInv2 env rk s allClosed ex dy) (It : GInv2 env rk t (upd allClosed br.main (.linking 1)) ex dy)
    (hex : ex br.main) (hat : AhhEmpty t) (hb : s.binds[b]? = some br) (hl : br.lhsChange = n)
    (hnecm : s.isNecessary br.main = true)
    (hpi : t.propagateInvalidity = []) (hrm : (s.nodeD br.main).recomputedAt < s.stabNum)
    (htm : t.nodeD br.main = s.nodeD br.main) (htn : t.nodeD n = { s.nodeD n with changedAt := s.stabNum })
    (htb : t.binds = (BR.pre b n rhs s.stabNum s).binds)
    (hF : ∀ m b' br', (t.nodeD m).forceNecessary = true → (t.nodeD m).createdIn = .bind b' →
      t.binds[b']? = some br' →
      t.isNecessary br'.lhsChange = true ∧ upd allClosed br.main (.linking 1) br'.lhsChange = .closed)
    (hdy : ∀ m, m ∈ dy → (t.nodeD m).createdIn = .bind b)
    (hnf : ∀ m, (s.nodeD m).forceNecessary = false)
    (hth : ∀ m, (t.nodeD m).height = (s.nodeD m).height)
    (htnec : ∀ m, s.isNecessary m = true → t.isNecessary m = true)
    (hB : HBo2 rk s allClosed) (R : Room N t) (hsz : t.nodes.size = s.nodes.size)
    (hnect : ∀ m, t.isNecessary m = true → s.isNecessary m = true)
    (hf : 3 * t.nodes.size + 3 ≤ fuel) :
    Tot (stateAddParent env fuel rhs 1 br.main) t (fun _ t' => HBo2 rk t' allClosed ∧ Room N t' ∧
      GInv2 env rk t' allClosed ex dy ∧ AhhEmpty t' ∧ BR.KRel t t' ∧ t'.isNecessary br.main = true) := by
  have hvm := I.valid_of_nec hnecm
  obtain ⟨hnm, hms, hkn, hkm, -, -, -⟩ := bind_facts I hb hl hvm
  have hbt : t.binds[b]? = some { br with rhs := some rhs } := by rw [htb]; exact BR.pre_binds_self hb
  have hk0 : (s.children br.main)[0]? = some n := by rw [BR.children_main hvm hkm hb]; rfl
  have hmem := I.conv br.main 0 n hk0 ((wants_closed rfl).2 hnecm)
  have hbb : ∀ b', (s.nodeD br.main).createdIn = .bind b' → b' ≠ b := by
    intro b' hc' e
    rw [e] at hc'
    have := (I.frag.scope_rk hms hc' hb).2
    exact Nat.lt_irrefl _ this
  have T : Tot (stateAddParent env fuel rhs 1 br.main) t (fun _ t' => HBo2 rk t' allClosed ∧ Room N t') := by
    refine sap_tot (b := b) (n := n) (br := { br with rhs := some rhs }) It hex hat hbt rfl hl rfl
      ?_ ?_ ?_ hpi hF hdy ?_ ?_ ?_ R ?_ ?_ hf
    · rw [htn, htm]; exact I.hlt n br.main 0 hmem rfl
    · rw [htm]; exact I.hpos br.main hnecm rfl
    · rw [htm]; exact fun hq => I.hgt br.main hq rfl
    · rw [htm, htn]; exact hrm
    · intro b' br' hc' hb'
      rw [htm] at hc'
      rw [htb, BR.pre_binds_other (hbb b' hc')] at hb'
      have hh := I.scopeH br.main b' br' hvm hc' hb' hnecm rfl
      have hn' : s.isNecessary br'.lhsChange = true :=
        NL.GInv2.scope_lc_nec I (fun m k e => by cases e)
          (fun m b0 br0 hf => by rw [hnf m] at hf; cases hf) hc' hb' hnecm
      exact ⟨by rw [hth, hth]; exact hh, htnec _ hn'⟩
    · exact TL.HBo2_transport hB hsz (fun m hm _ => ⟨hnect m hm, rfl, hth m⟩)
    · rw [htm, hsz]; exact hB br.main hnecm rfl
    · intro b' br' hc' hb'
      rw [htm] at hc'
      rw [htb, BR.pre_binds_other (hbb b' hc')] at hb'
      exact htnec _ (TL.scope_main_nec I (fun m k e => by cases e)
        (fun m b0 br0 hf => by rw [hnf m] at hf; cases hf) hc' hb' (hnf _) hnecm)
  obtain ⟨u, t', hrun, hq1, hq2⟩ := T
  obtain ⟨k1, k2, k3, k4⟩ := link_part hrun I It hex hat hb hl hnecm hpi hrm htm htn htb hF hdy hnf hth htnec
  exact ⟨u, t', hrun, hq1, hq2, k1, k2, k3, k4⟩

/-- the unforcing tail returns and keeps the height bound and the room -/
theorem unforce_tot {fuel o : Nat} {t : State}
    (I : GInv2 env rk t allClosed ex dy) (hnec : t.isNecessary o = true) (hB : HBo2 rk t allClosed) (R : Room N t)
    (hf : 3 * t.nodes.size ≤ fuel) :
    Tot (checkIfUnnecessary fuel o) (BR.forced o false t) (fun _ t' => HBo2 rk t' allClosed ∧ Room N t') := by
  have hvo := I.valid_of_nec hnec
  have hsz : (BR.forced o false t).nodes.size = t.nodes.size := by simp [BR.forced]
  have R8 : Room N (BR.forced o false t) := room_nodes R rfl rfl hsz
  have hht : ∀ m, ((BR.forced o false t).nodeD m).height = (t.nodeD m).height := by
    intro m; rw [BR.forced_nodeD]; split <;> rfl
  have hnecO : ∀ m, m ≠ o → (BR.forced o false t).isNecessary m = t.isNecessary m := fun m e => by
    have : (BR.forced o false t).nodeD m = t.nodeD m := by rw [BR.forced_nodeD, if_neg (fun h => e h.1.symm)]
    simp only [State.isNecessary, this]
  have fin : ∀ op, GInv2 env rk (BR.forced o false t) op ex dy → upd op o .closed = allClosed →
      (∀ m, op m ≠ .closed → m = o) →
      (((BR.forced o false t).isNecessary o = true ∧ op o = .closed) ∨
        ((BR.forced o false t).isNecessary o = false ∧ op o = .unlinking 0)) →
      Tot (checkIfUnnecessary fuel o) (BR.forced o false t) (fun _ t' => HBo2 rk t' allClosed ∧ Room N t') := by
    intro op I8 hop hlow hcase
    have hB8 : HBo2 rk (BR.forced o false t) op := by
      refine TL.HBo2_transport hB hsz (fun m hm _ => ⟨?_, rfl, hht m⟩)
      by_cases e : m = o
      · rw [e]; exact hnec
      · rw [← hnecO m e]; exact hm
    obtain ⟨u, t', hrun, -, -, hu, -, hB'⟩ := checkIfUnnecessary_full2_size I8 hB8
      (fun m hm => by rw [hlow m hm]; exact Nat.le_refl _) hcase (by rw [hsz]; exact hf)
    rw [hop] at hB'
    exact ⟨u, t', hrun, hB', R8.of_cframe hu.fr⟩
  cases hno : (BR.forced o false t).isNecessary o with
  | true =>
    exact fin allClosed ((setForce (o := o) (f := false) I hvo).1 (by rw [hno, hnec])) (BR.upd_allClosed_closed o)
      (fun m hm => absurd rfl hm) (Or.inl ⟨hno, rfl⟩)
  | false =>
    refine fin _ ((setForce (o := o) (f := false) I hvo).2 hnec rfl hno) ?_ ?_ (Or.inr ⟨hno, upd_self _ _ _⟩)
    · rw [upd_upd]; exact BR.upd_allClosed_closed o
    · intro m hm
      by_cases e : m = o
      · exact e
      · rw [upd_other _ _ _ e] at hm; exact absurd rfl hm

end

end T2d

open NR T2d in
/-- **Phase 2 of the run of a change detector never panics** (fragment F2): `lhsRelink` returns and keeps the height bound and the room.  Hypotheses: those
of `RelinkSpec2` (without the run equation), the height bound, room for `N` nodes, fuel `3 * size + 3`. -/
theorem lhsRelink_total2 {env : Env} {rk : Nat → Nat} {N fuel b n rhs : Nat} {s : State} {br br1 : BindRec}
    {ex : Nat → Prop} {dy : List Nat}
    (I : GInv2 env rk s allClosed ex dy) (hex : ex br.main) (hah : AhhEmpty s)
    (hb : s.binds[b]? = some br1) (hr1 : br1.rhs = br.rhs) (hm1 : br1.main = br.main) (hl : br1.lhsChange = n)
    (hvm : (s.nodeD br.main).valid = true)
    (hnecm : s.isNecessary br.main = true)
    (hrs : rhs < s.nodes.size) (_hnd : rhs ∉ dy) (hrkd : ∀ b', (s.nodeD rhs).kind ≠ .bindLhsChange b')
    (hrhs0 : ((s.nodeD rhs).createdIn = .top ∧ rk rhs < rk n) ∨
      ((s.nodeD rhs).createdIn = .bind b ∧ (s.nodeD rhs).valid = true))
    (hold : ∀ o, br.rhs = some o → (∀ b', (s.nodeD o).kind ≠ .bindLhsChange b') ∧
      (((s.nodeD o).createdIn = .top ∧ rk o < rk n) ∨
       ((s.nodeD o).createdIn = .bind b ∧ o ∈ dy)))
    (hdy : ∀ m, m ∈ dy → (s.nodeD m).createdIn = .bind b)
    (hnf : ∀ m, (s.nodeD m).forceNecessary = false) (hpi : s.propagateInvalidity = [])
    (hrm : (s.nodeD br.main).recomputedAt < s.stabNum)
    (hB : HBo2 rk s allClosed) (R : Room N s) (hf : 3 * s.nodes.size + 3 ≤ fuel) :
    Tot (Inval.lhsRelink env fuel n b br s.stabNum rhs) s (fun _ s' => HBo2 rk s' allClosed ∧ Room N s') := by
  rw [← hm1] at hex hnecm hrm hvm
  have hrhs : RhsOK2 rk s b n rhs := ⟨hrkd, hrhs0⟩
  unfold Inval.lhsRelink
  rw [← hm1, ← hr1]
  replace hold : ∀ o, br1.rhs = some o → (∀ b', (s.nodeD o).kind ≠ .bindLhsChange b') ∧
      (((s.nodeD o).createdIn = .top ∧ rk o < rk n) ∨
       ((s.nodeD o).createdIn = .bind b ∧ o ∈ dy)) := by
    intro o ho; exact hold o (by rw [← hr1]; exact ho)
  obtain ⟨hnm, hms, hkn, hkm, hvn, hrknm, hcm⟩ := bind_facts I hb hl hvm
  have hn : n < s.nodes.size := by omega
  have hszP : (BR.pre b n rhs s.stabNum s).nodes.size = s.nodes.size := Array.size_modify
  have hfP : ∀ m, ((BR.pre b n rhs s.stabNum s).nodeD m).forceNecessary = false := by
    intro m
    show ((BR.stamped n s.stabNum s).nodeD m).forceNecessary = false
    rw [BR.stamped_nodeD]; split
    · exact hnf m
    · exact hnf m
  have hmP : ∀ m, ((BR.pre b n rhs s.stabNum s).nodeD m).heightInAhh = (s.nodeD m).heightInAhh := by
    intro m
    show ((BR.stamped n s.stabNum s).nodeD m).heightInAhh = _
    rw [BR.stamped_nodeD]; split <;> rfl
  have hcP : ∀ m, ((BR.pre b n rhs s.stabNum s).nodeD m).createdIn = (s.nodeD m).createdIn :=
    fun m => CR.stamped_createdIn (s := s) (n := n) s.stabNum m
  have hhP : ∀ m, ((BR.pre b n rhs s.stabNum s).nodeD m).height = (s.nodeD m).height := by
    intro m
    show ((BR.stamped n s.stabNum s).nodeD m).height = _
    rw [BR.stamped_nodeD]; split <;> rfl
  have hnP : ∀ m, (BR.pre b n rhs s.stabNum s).isNecessary m = s.isNecessary m :=
    fun m => CR.stamped_nec (s := s) (n := n) s.stabNum m
  have EP : AhhEmpty (BR.pre b n rhs s.stabNum s) := BR.ahhEmpty_frame hah rfl hmP
  have RP : Room N (BR.pre b n rhs s.stabNum s) := room_nodes R rfl rfl hszP
  have hBP : HBo2 rk (BR.pre b n rhs s.stabNum s) allClosed :=
    TL.HBo2_transport hB hszP (fun m hm _ => ⟨by rw [← hnP m]; exact hm, rfl, hhP m⟩)
  -- the change detector is necessary
  have hnecn : s.isNecessary n = true := by
    have hk0 : (s.children br1.main)[0]? = some n := by rw [BR.children_main hvm hkm hb]; rfl
    exact nec_of_mem_parents (I.conv br1.main 0 n hk0 ((wants_closed rfl).2 hnecm))
  have hmP' : (BR.pre b n rhs s.stabNum s).nodeD br1.main = s.nodeD br1.main := BR.stamped_main hnm _
  have hnP' : (BR.pre b n rhs s.stabNum s).nodeD n = { s.nodeD n with changedAt := s.stabNum } :=
    BR.stamped_self hn _
  unfold modBind
  refine Tot.bind_modify ?_
  refine Tot.bind_modNode ?_
  show Tot (changeChildBindRhs env fuel br1.main br1.rhs rhs 1) (BR.pre b n rhs s.stabNum s) _
  unfold changeChildBindRhs
  refine Tot.bind_getNode (by rw [hszP]; exact hms) ?_
  have hkq : ((BR.pre b n rhs s.stabNum s).nodeD br1.main).kind? = some (.bindMain b n) := by
    rw [hmP']
    unfold Node.kind?
    rw [hvm, hkm]; rfl
  rw [hkq]
  dsimp only
  cases hr : br1.rhs with
  | none =>
    dsimp only
    have It := pre_inv_none I hex hb hr hl hnecm hrs hrhs hrm
    refine (link_tot I It hex EP hb hl hnecm hpi hrm hmP' hnP' rfl
      (fun m b' br' hf => by rw [hfP m] at hf; cases hf)
      (fun m hmd => by rw [hcP]; exact hdy m hmd) hnf hhP (fun m hm => by rw [hnP]; exact hm)
      hB RP hszP (fun m hm => by rw [← hnP m]; exact hm) (by rw [hszP]; exact hf)).mono ?_
    intro _ t' h
    exact ⟨h.1, h.2.1⟩
  | some o =>
    dsimp only
    have hon : o ≠ n := by
      intro e
      rw [e] at hr
      exact (hold n hr).1 b hkn
    by_cases hor : o = rhs
    · simp only [hor, beq_self_eq_true, if_true]
      exact Tot.pure ⟨hBP, RP⟩
    · have hbeq : (o == rhs) = false := by simpa using hor
      simp only [hbeq, Bool.false_eq_true, if_false]
      have hk1 : (s.children br1.main)[1]? = some o := by
        rw [BR.children_main hvm hkm hb, hr]; rfl
      have ho : o < s.nodes.size := I.kid_in hk1
      have hom : o ≠ br1.main := I.kid_ne hk1
      have memS : (br1.main, 1) ∈ (s.nodeD o).parents := I.conv br1.main 1 o hk1 ((wants_closed rfl).2 hnecm)
      obtain ⟨pi, hidx⟩ := P22.idxOf?_of_mem memS
      have hoP : (BR.pre b n rhs s.stabNum s).nodeD o = s.nodeD o := BR.stamped_other hon _
      have hndo : (BR.pre b n rhs s.stabNum s).nodes[o]? = some (s.nodeD o) := by
        rw [← hoP]; exact some_of_lt (by rw [hszP]; exact ho)
      refine Tot.bind_ok (P22.removeParent_run hndo hidx) ?_
      refine Tot.bind_modNode ?_
      show Tot (do stateAddParent env fuel rhs 1 br1.main
                   modNode o fun x => { x with forceNecessary := false }
                   checkIfUnnecessary fuel o) (BR.pre4 b n rhs o pi s.stabNum s) _
      have hsz4 : (BR.pre4 b n rhs o pi s.stabNum s).nodes.size = s.nodes.size := by
        show ((((BR.pre b n rhs s.stabNum s).nodes.modify o (BR.fDrop pi)).modify o (BR.fForce true)).size) = _
        rw [Array.size_modify, Array.size_modify]; exact hszP
      have It := pre_inv_some I hex hb hr hl hnecm hrs hrhs hon hrm hidx
      have E4 : AhhEmpty (BR.pre4 b n rhs o pi s.stabNum s) := by
        refine BR.ahhEmpty_frame hah rfl fun m => ?_
        rw [BR.pre4_nodeD]
        split
        · exact hmP m
        · exact hmP m
      have R4 : Room N (BR.pre4 b n rhs o pi s.stabNum s) := room_nodes R rfl rfl hsz4
      have htm : (BR.pre4 b n rhs o pi s.stabNum s).nodeD br1.main = s.nodeD br1.main := by
        rw [BR.pre4_nodeD, if_neg (fun e => hom e.1)]; exact hmP'
      have htn : (BR.pre4 b n rhs o pi s.stabNum s).nodeD n = { s.nodeD n with changedAt := s.stabNum } := by
        rw [BR.pre4_nodeD, if_neg (fun e => hon e.1)]; exact hnP'
      have hF4 : ∀ m b' br', ((BR.pre4 b n rhs o pi s.stabNum s).nodeD m).forceNecessary = true →
          ((BR.pre4 b n rhs o pi s.stabNum s).nodeD m).createdIn = .bind b' →
          (BR.pre4 b n rhs o pi s.stabNum s).binds[b']? = some br' →
          (BR.pre4 b n rhs o pi s.stabNum s).isNecessary br'.lhsChange = true ∧
            upd allClosed br1.main (.linking 1) br'.lhsChange = .closed := by
        intro m b' br' hf hc hb'
        have hmo : m = o := by
          apply Decidable.byContradiction
          intro e
          rw [BR.pre4_nodeD, if_neg (fun h => e h.1.symm)] at hf
          have := hfP m
          rw [show (BR.pre b n rhs s.stabNum s).nodeD m = (BR.stamped n s.stabNum s).nodeD m from rfl] at this
          rw [this] at hf; cases hf
        rw [hmo, CR.pre4_createdIn] at hc
        have hbb : b' = b := by
          rcases (hold o hr).2 with ⟨h1, -⟩ | ⟨h1, -⟩
          · rw [h1] at hc; cases hc
          · rw [h1] at hc; injection hc with hc; exact hc.symm
        rw [hbb] at hb'
        have hb4 : (BR.pre4 b n rhs o pi s.stabNum s).binds[b]? = some { br1 with rhs := some rhs } :=
          BR.pre_binds_self (n := n) (v := s.stabNum) hb
        rw [hb4] at hb'
        cases hb'
        show (BR.pre4 b n rhs o pi s.stabNum s).isNecessary br1.lhsChange = true ∧
          upd allClosed br1.main (.linking 1) br1.lhsChange = .closed
        rw [hl]
        refine ⟨?_, ?_⟩
        · simp only [State.isNecessary, htn]
          exact hnecn
        · rw [upd_other _ _ _ (by omega)]; rfl
      have hother4 : ∀ m, m ≠ o →
          (BR.pre4 b n rhs o pi s.stabNum s).nodeD m = (BR.pre b n rhs s.stabNum s).nodeD m := by
        intro m e
        rw [BR.pre4_nodeD, if_neg (fun h => e h.1.symm)]; rfl
      refine Tot.bind (link_tot I It hex E4 hb hl hnecm hpi hrm htm htn rfl hF4
        (fun m hmd => by rw [CR.pre4_createdIn]; exact hdy m hmd) hnf
        (fun m => by
          rw [BR.pre4_nodeD]; split
          · exact hhP m
          · exact hhP m)
        (fun m hm => by
          by_cases e : m = o
          · rw [e, isNecessary_iff, BR.pre4_nodeD, if_pos ⟨rfl, ho⟩]
            exact Or.inr (Or.inr rfl)
          · simp only [State.isNecessary, hother4 m e]
            exact (hnP m).trans hm)
        hB R4 hsz4
        (fun m hm => by
          by_cases e : m = o
          · rw [e]; exact nec_of_mem_parents memS
          · simp only [State.isNecessary, hother4 m e] at hm
            rw [← hnP m]; exact hm)
        (by rw [hsz4]; exact hf)) ?_
      rintro _ s7 _ ⟨hB7, R7, I7, -, K47, -⟩
      refine Tot.bind_modNode ?_
      show Tot (checkIfUnnecessary fuel o) (BR.forced o false s7) _
      have hnec7 : s7.isNecessary o = true := by
        rw [isNecessary_iff, K47.force o, BR.pre4_nodeD, if_pos ⟨rfl, ho⟩]
        exact Or.inr (Or.inr rfl)
      refine unforce_tot I7 hnec7 hB7 R7 ?_
      rw [K47.size, hsz4]
      omega

end IncrVerif.Proofs.NestH
