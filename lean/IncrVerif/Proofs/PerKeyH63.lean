import IncrVerif.Proofs.PerKeyH60
import IncrVerif.Proofs.PerKeyH36
/-!
# One `.right` iteration of the per-key loop, part f: the fragment along the shape `RSh`
(`RSh.inst`, `RSh.below_input`, `RSh.newNode`, `RSh.obs`, `RSh.frag`)
-/
namespace IncrVerif.Proofs.PerKeyH
open IncrVerif.Engine IncrVerif.Driver IncrVerif.Proofs IncrVerif.Proofs.Step IncrVerif.Proofs.Sched
open IncrVerif.Proofs.ExpertH IncrVerif.Proofs.EffH IncrVerif.Proofs.DriverH IncrVerif.Proofs.ExpertH.QR IncrVerif.Proofs.Xp

namespace RSh
variable {env : Env} {op : Nat} {key : Int} {lc : Nat} {tm : Template} {D : Nat → Prop} {σ τ : State} {mapped : Nat}

/-! ## (2c) the instance -/

theorem inst (R : RSh env op key lc tm D σ τ mapped) :
    Inst τ tm key σ.nodes.size (List.range' (σ.nodes.size + 1) tm.instrs.length) mapped := by
  refine ⟨List.length_range', fun c hc => ?_, fun j i c hj hc => ?_, by rw [R.top]; exact R.ret⟩
  · have h1 := List.mem_range'_1.1 hc
    have h2 := R.size
    omega
  · have hlt : j < tm.instrs.length := by
      rcases Nat.lt_or_ge j tm.instrs.length with h | h
      · exact h
      · rw [List.getElem?_eq_none h] at hj; cases hj
    rw [List.getElem?_range' hlt] at hc
    cases hc
    rw [R.top, Nat.one_mul, List.take_range'_of_length_ge (Nat.le_of_lt hlt)]
    exact R.kind_i hj

/-! ## (2e) the returned node reaches the per-key input node (when the template uses it); the input node is new -/

theorem below_input (R : RSh env op key lc tm D σ τ mapped) (hT : UsesInput tm) :
    ExpertH.Below τ mapped σ.nodes.size := inst_below hT R.inst

/-- the new per-key input node has never been computed (whether or not the template uses its input) -/
theorem input_new (R : RSh env op key lc tm D σ τ mapped) : ((V τ).nodeD σ.nodes.size).recomputedAt = -1 := by
  refine (V_stamp_iff τ _).2 (Or.inr ?_)
  have := R.pnode
  simp only [nodeKey, Prod.mk.injEq] at this
  exact this.2.2.2.2.2.1

/-! ## the new nodes, classified -/

/-- a new node is the per-key input node or a node of the instance -/
theorem new_cases (R : RSh env op key lc tm D σ τ mapped) {m : Nat} (h1 : σ.nodes.size ≤ m) (h2 : m < τ.nodes.size) :
    ∃ k, nodeKey (τ.nodeD m) = nodeKey ({ kind := k, createdIn := .top } : Node) ∧
      ((m = σ.nodes.size ∧ k = .expert σ.experts.size) ∨
        ∃ j i, m = σ.nodes.size + 1 + j ∧ tm.instrs[j]? = some i ∧
          instrKind σ.top (σ.nodes.size :: List.range' (σ.nodes.size + 1) j) (.int key) i = some k) := by
  by_cases hm : m = σ.nodes.size
  · subst hm
    exact ⟨_, R.pnode, Or.inl ⟨rfl, rfl⟩⟩
  · have hsz := R.size
    have hj : m - (σ.nodes.size + 1) < tm.instrs.length := by omega
    obtain ⟨k, hk1, hk2⟩ := R.inode _ _ (List.getElem?_eq_getElem hj)
    have e : σ.nodes.size + 1 + (m - (σ.nodes.size + 1)) = m := by omega
    rw [e] at hk2
    exact ⟨k, hk2, Or.inr ⟨_, _, e.symm, List.getElem?_eq_getElem hj, hk1⟩⟩

/-- the kind of a new node -/
theorem new_kind (R : RSh env op key lc tm D σ τ mapped) (hT : TemplOK env tm) {m : Nat} (h1 : σ.nodes.size ≤ m)
    (h2 : m < τ.nodes.size) :
    (m = σ.nodes.size ∧ (τ.nodeD m).kind = .expert σ.experts.size) ∨
      (σ.nodes.size < m ∧ PKind env (τ.nodeD m).kind ∧ (∀ c, (τ.nodeD m).kind ≠ .var c) ∧
        (∀ e, (τ.nodeD m).kind ≠ .expert e) ∧ (∀ p j, (τ.nodeD m).kind ≠ .mapRef p j) ∧
        (∀ f args, (τ.nodeD m).kind = .map f args → f < fnZip)) := by
  obtain ⟨k, hk, h | ⟨j, i, hm, hi, hik⟩⟩ := R.new_cases h1 h2
  · simp only [nodeKey, Prod.mk.injEq] at hk
    exact Or.inl ⟨h.1, by rw [hk.1, h.2]⟩
  · simp only [nodeKey, Prod.mk.injEq] at hk
    rw [hk.1]
    exact Or.inr ⟨by omega, instrKind_facts (hT.instr i (List.mem_of_getElem? hi)) hik⟩

/-- the static attributes of a new node -/
theorem new_attr (R : RSh env op key lc tm D σ τ mapped) {m : Nat} (h1 : σ.nodes.size ≤ m) (h2 : m < τ.nodes.size) :
    (τ.nodeD m).valid = true ∧ (τ.nodeD m).cutoff = .eq ∧ (τ.nodeD m).createdIn = .top ∧
      (τ.nodeD m).forceNecessary = false ∧ (τ.nodeD m).observers = [] := by
  obtain ⟨k, hk, -⟩ := R.new_cases h1 h2
  simp only [nodeKey, Prod.mk.injEq] at hk
  obtain ⟨-, k2, k3, -, k5, -, -, k8, k9, -⟩ := hk
  exact ⟨k5, k3, k2, k9, k8⟩

/-- the static attributes of an old node -/
theorem old_attr (R : RSh env op key lc tm D σ τ mapped) {m : Nat} (h : m < σ.nodes.size) :
    (τ.nodeD m).kind = (σ.nodeD m).kind ∧ (τ.nodeD m).valid = (σ.nodeD m).valid ∧
      (τ.nodeD m).cutoff = (σ.nodeD m).cutoff ∧ (τ.nodeD m).createdIn = (σ.nodeD m).createdIn ∧
      (τ.nodeD m).forceNecessary = (σ.nodeD m).forceNecessary ∧ (τ.nodeD m).observers = (σ.nodeD m).observers := by
  have hk := R.lfx.lf.node m h
  simp only [nodeKey, Prod.mk.injEq] at hk
  obtain ⟨k1, k2, k3, -, k5, -, -, k8, k9, -⟩ := hk
  exact ⟨k1, k5, k3, k2, k9, k8⟩

/-! ## (2d) the new nodes -/

theorem newNode (R : RSh env op key lc tm D σ τ mapped) (hT : TemplOK env tm) :
    ∀ m, σ.nodes.size ≤ m → m < τ.nodes.size →
      (τ.nodeD m).observers = [] ∧ (∀ f args, (τ.nodeD m).kind = .map f args → f < fnZip) ∧
      (∀ e, (τ.nodeD m).kind = .expert e → m = σ.nodes.size ∧ e = σ.experts.size) := by
  intro m h1 h2
  refine ⟨(R.new_attr h1 h2).2.2.2.2, ?_, ?_⟩
  · rcases R.new_kind hT h1 h2 with ⟨-, hk⟩ | ⟨-, -, -, -, -, hf⟩
    · intro f args h; rw [hk] at h; cases h
    · exact hf
  · rcases R.new_kind hT h1 h2 with ⟨hm, hk⟩ | ⟨-, -, -, hx, -⟩
    · intro e h; rw [hk] at h; cases h; exact ⟨hm, rfl⟩
    · intro e h; exact absurd h (hx e)

/-! ## (2b) the observers -/

theorem eKey_facts (R : RSh env op key lc tm D σ τ mapped) :
    τ.observers = σ.observers ∧ τ.panicCountdown = σ.panicCountdown ∧ τ.currentScope = σ.currentScope := by
  have := R.lfx.lf.key
  simp only [eKey, Prod.mk.injEq] at this
  exact ⟨this.2.2.2.2.2.2.1, this.2.2.2.2.2.2.2.2.2.2.2.2.2.2.2.2.2, this.2.2.2.2.2.1⟩

theorem obs (R : RSh env op key lc tm D σ τ mapped) (O : ObsListed σ) : ObsListed τ := by
  intro m o ho
  by_cases h1 : m < σ.nodes.size
  · rw [(R.old_attr h1).2.2.2.2.2] at ho
    rw [R.eKey_facts.1]
    exact O m o ho
  · by_cases h2 : m < τ.nodes.size
    · rw [(R.new_attr (by omega) h2).2.2.2.2] at ho; cases ho
    · rw [nodeD_default_of_ge τ m (by omega)] at ho; cases ho

/-! ## (2a) the fragment -/

/-- the records of `τ` -/
theorem rec_cases (R : RSh env op key lc tm D σ τ mapped) {e : Nat} {er' : ExpertRec} (h : τ.experts[e]? = some er') :
    (∃ er, σ.experts[e]? = some er ∧ er'.f = er.f ∧ er'.node = er.node ∧ er'.pk = er.pk ∧
        er'.numInvalidChildren = er.numInvalidChildren) ∨
      (e = σ.experts.size ∧ er'.f = 0 ∧ er'.node = σ.nodes.size ∧ er'.pk = some (op, some key)) := by
  by_cases he : e < σ.experts.size
  · obtain ⟨er2, h2, a1, a2, a3, -, -, a6, -⟩ := R.lfx.lf.xrec e _ (Array.getElem?_eq_getElem he)
    rw [h] at h2; cases h2
    exact Or.inl ⟨_, Array.getElem?_eq_getElem he, a1, a2, a3, a6⟩
  · have hlt := (Array.getElem?_eq_some_iff.1 h).1
    have hx := R.xsize
    have : e = σ.experts.size := by omega
    subst this
    obtain ⟨erX, h2, b1, b2, b3, -⟩ := R.xnew
    rw [h] at h2; cases h2
    exact Or.inr ⟨rfl, b1, b2, b3⟩

theorem frag (R : RSh env op key lc tm D σ τ mapped) (hT : TemplOK env tm) (F : PFrag env σ) : PFrag env τ where
  pc := by rw [R.eKey_facts.2.1]; exact F.pc
  kind n hn := by
    by_cases h1 : n < σ.nodes.size
    · rw [(R.old_attr h1).1]; exact F.kind n h1
    · rcases R.new_kind hT (Nat.le_of_not_lt h1) hn with ⟨-, hk⟩ | ⟨-, hk, -⟩
      · rw [hk]; trivial
      · exact hk
  valid n hn := by
    by_cases h1 : n < σ.nodes.size
    · rw [(R.old_attr h1).2.1]; exact F.valid n h1
    · exact (R.new_attr (Nat.le_of_not_lt h1) hn).1
  cutoff n hn := by
    by_cases h1 : n < σ.nodes.size
    · rw [(R.old_attr h1).2.2.1]; exact F.cutoff n h1
    · exact (R.new_attr (Nat.le_of_not_lt h1) hn).2.1
  top n hn := by
    by_cases h1 : n < σ.nodes.size
    · rw [(R.old_attr h1).2.2.2.1]; exact F.top n h1
    · exact (R.new_attr (Nat.le_of_not_lt h1) hn).2.2.1
  force n hn := by
    by_cases h1 : n < σ.nodes.size
    · rw [(R.old_attr h1).2.2.2.2.1]; exact F.force n h1
    · exact (R.new_attr (Nat.le_of_not_lt h1) hn).2.2.2.1
  xrec n e hn hk := by
    by_cases h1 : n < σ.nodes.size
    · rw [(R.old_attr h1).1] at hk
      obtain ⟨er, k1, k2⟩ := F.xrec n e h1 hk
      obtain ⟨er', k3, -, k4, -⟩ := R.lfx.lf.xrec e er k1
      exact ⟨er', k3, k4.trans k2⟩
    · rcases R.new_kind hT (Nat.le_of_not_lt h1) hn with ⟨hm, hk'⟩ | ⟨-, -, -, hx, -⟩
      · rw [hk'] at hk; cases hk
        obtain ⟨erX, k1, -, k2, -⟩ := R.xnew
        exact ⟨erX, k1, k2.trans hm.symm⟩
      · exact absurd hk (hx e)
  xnode e er' he := by
    have hsz := R.size
    rcases R.rec_cases he with ⟨er, k1, -, k2, -⟩ | ⟨k1, -, k2, -⟩
    · obtain ⟨k3, k4⟩ := F.xnode e er k1
      rw [k2, (R.old_attr k3).1]
      exact ⟨by omega, k4⟩
    · rw [k2, k1]
      exact ⟨by omega, R.kind_p⟩
  xok e er' he := by
    rcases R.rec_cases he with ⟨er, k1, k2, -, k3, k4⟩ | ⟨-, k2, -, k3⟩
    · rw [k2, k3, k4]; exact F.xok e er k1
    · rw [k2, k3]
      exact ⟨rfl, (R.mid.frag.xok e (twRec er') (r_tw_get he)).2.1, rfl⟩
  scope := by rw [R.eKey_facts.2.2]; exact F.scope

end RSh

end IncrVerif.Proofs.PerKeyH
