import IncrVerif.Proofs.NestH19
import IncrVerif.Proofs.BindH62
import IncrVerif.Proofs.BindH71
/-!
# Nested binds (F2), phase 3 (`lhsInvalidateOld`), part 1: the dying set, the exact description `Mid2` of the final state, reference states

* `Dying s dy` (N2f): basic facts (monotone, transitive, split into the subtrees of the roots, congruence).
* `Mid2 s D t`: `t` is `s` with exactly the nodes of `D` invalidated (`CI.deadNode`) and the lists of the binds whose main node is in `D` emptied.
* `opened r b2 s`: the reference state while the main node `r` of the inner bind `b2` is being invalidated (stamped, its list emptied).
* `Sub rk s r`: what the run needs to know about the dying subtree of `r` (in the reference state `s`).
-/
namespace IncrVerif.Proofs.NestH
open IncrVerif.Engine IncrVerif.Proofs IncrVerif.Proofs.Step IncrVerif.Proofs.Sched IncrVerif.Proofs.Quiet
open IncrVerif.Proofs.BindH

namespace NI

/-! ## the dying set -/

theorem dying_mono {s : State} {dy dy' : List Nat} (h : ∀ m, m ∈ dy → m ∈ dy') {m : Nat} (hm : Dying s dy m) :
    Dying s dy' m := by
  induction hm with
  | base h1 => exact .base (h _ h1)
  | inner _ hk hl hv hsc ih => exact .inner ih hk hl hv hsc

theorem dying_trans {s : State} {dy : List Nat} {p m : Nat} (hp : Dying s dy p) (hm : Dying s [p] m) :
    Dying s dy m := by
  induction hm with
  | base h1 =>
    rw [List.mem_singleton] at h1
    rw [h1]; exact hp
  | inner _ hk hl hv hsc ih => exact .inner ih hk hl hv hsc

theorem dying_of_mem {s : State} {dy : List Nat} {r m : Nat} (hr : r ∈ dy) (hm : Dying s [r] m) : Dying s dy m :=
  dying_trans (.base hr) hm

theorem dying_split {s : State} {dy : List Nat} {m : Nat} (hm : Dying s dy m) : ∃ r, r ∈ dy ∧ Dying s [r] m := by
  induction hm with
  | base h1 => exact ⟨_, h1, .base (List.mem_singleton.2 rfl)⟩
  | inner _ hk hl hv hsc ih =>
    obtain ⟨r, hr, hd⟩ := ih
    exact ⟨r, hr, .inner hd hk hl hv hsc⟩

theorem dying_self (s : State) (r : Nat) : Dying s [r] r := .base (List.mem_singleton.2 rfl)

theorem dying_nil {s : State} {m : Nat} (hm : Dying s [] m) : False := by
  induction hm with
  | base h1 => cases h1
  | inner _ _ _ _ _ ih => exact ih

theorem dying_cons {s : State} {a : Nat} {l : List Nat} {m : Nat} :
    Dying s (a :: l) m ↔ (Dying s [a] m ∨ Dying s l m) := by
  constructor
  · intro h
    obtain ⟨r, hr, hd⟩ := dying_split h
    rcases List.mem_cons.1 hr with e | e
    · subst e; exact Or.inl hd
    · exact Or.inr (dying_of_mem e hd)
  · rintro (h | h)
    · exact dying_mono (fun x hx => by rw [List.mem_singleton.1 hx]; exact List.mem_cons_self ..) h
    · exact dying_mono (fun x hx => List.mem_cons_of_mem _ hx) h

/-- the two states have the same skeleton: node count, kinds, validity, scopes -/
structure SameSk (s t : State) : Prop where
  size : t.nodes.size = s.nodes.size
  kind : ∀ m, (t.nodeD m).kind = (s.nodeD m).kind
  valid : ∀ m, (t.nodeD m).valid = (s.nodeD m).valid
  createdIn : ∀ m, (t.nodeD m).createdIn = (s.nodeD m).createdIn

theorem SameSk.symm {s t : State} (h : SameSk s t) : SameSk t s :=
  ⟨h.size.symm, fun m => (h.kind m).symm, fun m => (h.valid m).symm, fun m => (h.createdIn m).symm⟩

theorem dying_congr1 {s t : State} (h : SameSk s t) {dy : List Nat} {m : Nat} (hm : Dying s dy m) : Dying t dy m := by
  induction hm with
  | base h1 => exact .base h1
  | inner _ hk hl hv hsc ih =>
    exact .inner ih (by rw [h.kind]; exact hk) (by rw [h.size]; exact hl) (by rw [h.valid]; exact hv)
      (by rw [h.createdIn]; exact hsc)

theorem dying_congr {s t : State} (h : SameSk s t) (dy : List Nat) (m : Nat) : Dying t dy m ↔ Dying s dy m :=
  ⟨dying_congr1 h.symm, dying_congr1 h⟩

/-- a node that is not the main node of a bind dies alone -/
theorem dying_leaf {s : State} {r m : Nat} (hk : ∀ b lc, (s.nodeD r).kind ≠ .bindMain b lc) (hm : Dying s [r] m) :
    m = r := by
  induction hm with
  | base h1 => exact List.mem_singleton.1 h1
  | inner _ hk' _ _ _ ih =>
    rw [ih] at hk'
    exact absurd hk' (hk _ _)

/-- `D` contains, with a node, its dying subtree -/
def Closed (s : State) (D : Nat → Prop) : Prop := ∀ p m, D p → Dying s [p] m → D m

theorem closed_or {s : State} {D : Nat → Prop} {l : List Nat} (h : Closed s D) :
    Closed s (fun m => D m ∨ Dying s l m) := by
  intro p m hp hm
  rcases hp with hp | hp
  · exact Or.inl (h p m hp hm)
  · exact Or.inr (dying_trans hp hm)

theorem closed_false (s : State) : Closed s (fun _ => False) := fun _ _ h _ => h

/-! ## the exact description of the state after the nodes of `D` have died -/

/-- the state `t` is `s` with exactly the nodes of `D` invalidated and the lists of the binds whose main node is in `D` emptied -/
structure Mid2 (s : State) (D : Nat → Prop) (t : State) : Prop where
  size : t.nodes.size = s.nodes.size
  other : ∀ m, ¬ D m → t.nodeD m = s.nodeD m
  dead : ∀ m, D m → t.nodeD m = CI.deadNode (s.nodeD m) s.stabNum
  bindsSize : t.binds.size = s.binds.size
  binds : ∀ (b' : Nat) (br0 : BindRec), s.binds[b']? = some br0 →
    (D br0.main → t.binds[b']? = some { br0 with allNodesCreatedOnRhs := [] }) ∧
    (¬ D br0.main → t.binds[b']? = some br0)
  vars : t.vars = s.vars
  stabNum : t.stabNum = s.stabNum
  status : t.status = s.status
  cfg : t.cfg = s.cfg
  scope : t.currentScope = s.currentScope
  pc : t.panicCountdown = s.panicCountdown
  rch : t.rch = s.rch
  ahh : t.ahh = s.ahh
  top : t.top = s.top
  pinv : t.propagateInvalidity = s.propagateInvalidity

theorem Mid2.refl (s : State) : Mid2 s (fun _ => False) s :=
  ⟨rfl, fun _ _ => rfl, fun _ h => h.elim, rfl, fun _ _ h => ⟨fun h' => h'.elim, fun _ => h⟩,
    rfl, rfl, rfl, rfl, rfl, rfl, rfl, rfl, rfl, rfl⟩

theorem Mid2.congr {s t : State} {D D' : Nat → Prop} (M : Mid2 s D t) (h : ∀ m, D' m ↔ D m) : Mid2 s D' t :=
  ⟨M.size, fun m hm => M.other m (fun hd => hm ((h m).2 hd)), fun m hm => M.dead m ((h m).1 hm), M.bindsSize,
    fun b' br0 hb => ⟨fun hd => (M.binds b' br0 hb).1 ((h _).1 hd), fun hd => (M.binds b' br0 hb).2 (fun hd' => hd ((h _).2 hd'))⟩,
    M.vars, M.stabNum, M.status, M.cfg, M.scope, M.pc, M.rch, M.ahh, M.top, M.pinv⟩

/-- kinds, scopes of `t` are those of `s`; validity outside `D` too -/
theorem Mid2.kindEq {s t : State} {D : Nat → Prop} (M : Mid2 s D t) (m : Nat) : (t.nodeD m).kind = (s.nodeD m).kind := by
  by_cases h : D m
  · rw [M.dead m h]; rfl
  · rw [M.other m h]

theorem Mid2.createdEq {s t : State} {D : Nat → Prop} (M : Mid2 s D t) (m : Nat) :
    (t.nodeD m).createdIn = (s.nodeD m).createdIn := by
  by_cases h : D m
  · rw [M.dead m h]; rfl
  · rw [M.other m h]

/-! ## the reference state while a main node is being invalidated -/

/-- the bookkeeping at the start of `invalidate_node` -/
def stamp (now : Int) (x : Node) : Node := { x with value := none, changedAt := now, recomputedAt := now }

/-- `s` with node `r` stamped and the list of bind `b2` emptied -/
def opened (r b2 : Nat) (s : State) : State :=
  { s with nodes := s.nodes.modify r (stamp s.stabNum),
           binds := s.binds.modify b2 fun x => { x with allNodesCreatedOnRhs := [] } }

theorem opened_nodeD (r b2 m : Nat) (s : State) :
    (opened r b2 s).nodeD m = if r = m ∧ m < s.nodes.size then stamp s.stabNum (s.nodeD m) else s.nodeD m :=
  Inval.nodeD_of_modify (t := opened r b2 s) (s := s) (n := r) (f := stamp s.stabNum) rfl m

theorem opened_other {r b2 m : Nat} (s : State) (h : m ≠ r) : (opened r b2 s).nodeD m = s.nodeD m := by
  rw [opened_nodeD, if_neg (fun hc => h hc.1.symm)]

theorem opened_binds (r b2 b' : Nat) (s : State) :
    (opened r b2 s).binds[b']? =
      if b2 = b' then (s.binds[b']?).map (fun x => { x with allNodesCreatedOnRhs := [] }) else s.binds[b']? := by
  unfold opened
  simp only [Array.getElem?_modify]

theorem opened_sameSk (r b2 : Nat) (s : State) : SameSk s (opened r b2 s) := by
  refine ⟨by simp [opened], fun m => ?_, fun m => ?_, fun m => ?_⟩ <;>
  · rw [opened_nodeD]
    split <;> rfl

end NI

end IncrVerif.Proofs.NestH
