/-!
# Sorted association lists: the model of `BTreeMap<K,V>`, `Rc<BTreeMap<K,V>>` and `im_rc::OrdMap<K,V>`

Keys are `Int`.  A map is a list of pairs whose keys are strictly ascending (`Sorted`).
Only core Lean is imported so the driver executable can link.
-/
namespace IncrVerif

abbrev AMap (α : Type) := List (Int × α)

namespace AMap
variable {α : Type}

def keys (m : AMap α) : List Int := m.map (·.1)

/-- `BTreeMap::get` -/
def lookup (m : AMap α) (k : Int) : Option α :=
  match m with
  | [] => none
  | (k', v) :: rest => if k = k' then some v else lookup rest k

/-- `BTreeMap::insert` (ordered insert, replacing an existing binding) -/
def insert (m : AMap α) (k : Int) (v : α) : AMap α :=
  match m with
  | [] => [(k, v)]
  | (k', v') :: rest =>
    if k < k' then (k, v) :: (k', v') :: rest
    else if k = k' then (k, v) :: rest
    else (k', v') :: insert rest k v

/-- `BTreeMap::remove` -/
def erase (m : AMap α) (k : Int) : AMap α :=
  match m with
  | [] => []
  | (k', v') :: rest => if k = k' then rest else (k', v') :: erase rest k

/-- strictly ascending keys -/
def Sorted (m : AMap α) : Prop := List.Pairwise (· < ·) (keys m)

instance (m : AMap α) : Decidable (Sorted m) := by unfold Sorted; infer_instance

/-- build a sorted map from arbitrary pairs (later bindings win) -/
def ofList (l : List (Int × α)) : AMap α := l.foldl (fun m kv => insert m kv.1 kv.2) []

end AMap
end IncrVerif
