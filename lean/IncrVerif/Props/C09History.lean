import IncrVerif.Proofs.Subs16
/-!
# C09 for whole histories of static programs with subscriptions

`Props/C01History.lean` proves the whole-history theorem of the static fragment under the invariant `Quiet.QInv`,
which contains "no observer has an update handler".  Here the fragment is extended by the actions
`subscribe o h`, `unsubscribe o t`, `stateUnsub t` (`State::unsubscribe`), for environments whose handlers have
no effects (`SubsH.PureHandlers env : ∀ hid u, env.handler hid u = []`), and property C09 is proved for every
history of the extended fragment.  All statements are about the executable model (`stepAction`, `stabilise`,
`runAll`, … of `Engine/*.lean`); a run is `(m).run.run s : Except Panic α × State`.

FRAGMENT.  `SubsH.SubAction env a`: `a` is a static action (`Quiet.StaticAction env a`: `create` of `const`/`var`/
pure `map`/`fold`/`zip` with `.outer` operands, `observe` of a top-level node, `cloneObs`, `dropObs`,
`disallow`, the five variable writes, `get`, `stabilise`, `isStable`, `stats`) or one of `subscribe`,
`unsubscribe`, `stateUnsub`.  Histories are `Quiet.runActions` (fold of `stepAction`, stopping at the first
panic; the event log `State.log` accumulates over the whole history, newest event first).

DEFINITIONS (`Proofs/Subs1.lean` … `Subs16.lean`, namespace `IncrVerif.Proofs.SubsH`).
* `QInv env s`: `Quiet.QInv` WITHOUT its three clauses about handlers (`ob.handlers = []`,
  `numOnUpdateHandlers ≤ 0`, `handleAfterStab = []`); `QInv.of_quiet : Quiet.QInv env s → QInv env s`;
  `QInv.quiet : QInv env s → Sched.QuietInv env s`.
* `HInv s` — what the model maintains about update handlers:
  `count`: `numOnUpdateHandlers n = numOf s n` = the number of handler records on the observers in the observer
  list of `n`, i.e. on the observers of `n` that are in use or disallowed-and-not-yet-unlinked (handlers of a
  `created` observer are counted when `add_new_observers` links it; `unsubscribe` on a disallowed observer is a
  no-op so its records stay counted until `unlink_disallowed_observers`); `obsNodup`: observer lists have no
  duplicates; `tok` (`Life.TokWF`: registered tokens `< nextToken`, on one observer only) and `tokNodup` (once per
  observer); `has : HasOK s`: `handleAfterStab` has no duplicates and `n ∈ handleAfterStab ↔ inHandleAfterStab n`;
  `createdAt ≤ stabNum` for every record (hence `created_at < now` holds for every handler at every
  `stabilise_end` of the fragment); `prev ∈ {neverBeenUpdated, necessary, changed}`; `pending`: a record that has
  never been called, on a created or in-use observer, has its node in `handleAfterStab`.
* `UInv env s := QInv env s ∧ HInv s`: the invariant between API actions.
* `Stabilised env fuel s s'`: the conclusions of `Quiet.Stabilised` (with `UInv`), plus `mid` (`MidState`: the
  state `t3` between the drain and `stabilise_end`) and `called`.
* `expected s s' o h`, `endNotifs`, `notifOf`, `stepPrev`, `nuAt` (S2); `tokLog`, `liveObs`, `nextUpdates`,
  `specT`, `Shape` (S3).

PROVED.
* **S1** `inv_init`, `action_keeps`, `stabilise_keeps`, `history_inv`, `history_every_stabilise`: `UInv` holds
  initially, every action of the fragment that returns keeps it, hence every state of a history satisfies it.
  Behind it: the cascades, the drain and the observer phases are `Hush` (`Subs5`, `Subs7`: handler counts and
  `nextToken` kept, the queue only grows consistently with the flags, a node whose `changedAt` changed and that
  has handlers is queued, no notification is logged); `add_new_observers`/`unlink_disallowed_observers` with
  handler counts (`Subs6`); `stabilise_end` with effect-free handlers in closed form (`Subs9`: `runAll_spec`,
  `stabiliseEnd_spec`: every flag reset, the records of the in-use observers of queued nodes stepped by
  `handlerStep`, the log extended by `endNotifs`); the `changedAt` stamp of the round is exact
  (`drainHeap_valchg` in `Proofs/Subs8.lean`: after the drain `changedAt = stabNum ↔ stored value ≠ stored value before`).
* **S2** `stabilise_delivers`: for a state with `UInv` and a `stabilise` that returns, the log grows by `pre`
  (observer phases and drain: no notification) and then by `del`, logged by `stabilise_end` after the drain
  (status `runningOnUpdateHandlers`); `del` consists of notifications only, contains `notif t u` iff some handler
  record `h` registered BEFORE the call on observer `o` has token `t` and `expected s s' o h = some u`, and every
  token at most once.  `expected_live`: for a record on a created or in-use observer `o` the observer is in use
  afterwards, reads `v` (`tryGetValue = .ok v`, `v` the stored value `= Sched.eval`, `stabilise_keeps`) and the
  handler is told `Initialised v` if it had never been called, otherwise `Changed v` iff the stored value of the
  node differs from the one before the call (the `.eq` cutoff), otherwise nothing — whatever else happened to the
  node (more observers, more subscriptions, other nodes in the queue: the D4 situation).  `expected_dead`: a
  record on a disallowed or unlinked observer is told nothing.  The order inside `del` is that of the model's
  lists (`endNotifs`: queue order, observer-list order, handler order; the implementation uses hash maps).
* **S3** `history_notifications`: for every history of the fragment from `State.init` and EVERY token `t`,
  `tokLog t s.log = specT env t acts (State.init N d) #[] []`: the updates logged for `t` over the whole history
  are: nothing by actions other than `stabilise`; at a `stabilise` at whose start `t` is registered on a created or
  in-use observer `o` (`liveObs`): `Initialised v` if nothing was delivered to `t` so far, else `Changed v` iff
  `v` differs from the value delivered last, where `v` is what `o` reads after that `stabilise`; nothing at any
  other `stabilise`.  `spec_shape`: hence at most one `Initialised`, first, then only `Changed`; `Invalidated`
  never occurs (every node of the fragment is valid).  `dead_token_not_live`, `fresh_token_not_live`: a token
  that is `Life.Dead` (after `unsubscribe`, `disallow`, the last `dropObs`: `Props/C10History.lean`
  `unsubscribe_kills`, `disallow_kills`, `last_drop_kills`, and it stays dead and silent along EVERY history:
  `dead_stays_dead_and_silent`) or not yet issued has `liveObs = none`, so `specT` appends nothing for it.
* Liveness is determined by the history: `subscribe_makes_live` (a successful `subscribe` makes its fresh token
  live on its observer), `live_stays_live` (a live registration stays live under every action of the fragment —
  `stabilise` included — except `unsubscribe o t`, `stateUnsub t`, `disallow o`, `dropObs o`: `Kills t o`), and
  dead stays dead (`Props/C10History.lean`).
* Non-vacuity: `exHist` (var, map, observe, subscribe, stabilise, set, stabilise, set to the same value,
  stabilise, second observer, stabilise, unsubscribe, set, stabilise) runs; token 0 receives exactly
  `Initialised 1, Changed 5`.

ASSUMED.  `PureHandlers env`; partial correctness (every theorem assumes that the run returns `.ok`; total
correctness of the static fragment is `Props/C01History.lean`, not redone with handlers).  Nothing else.

NOT PROVED.  Handlers with effects (writes, `disallow`, nested `stabilise` inside a handler); total correctness
with handlers; the status `runningOnUpdateHandlers` at the moment of a delivery is not visible in the log (what
is proved: every notification of a `stabilise` is logged after all events of its observer phases and drain).

FOUND (true of the model, differs from the informal statement of the invariant).
* `handleAfterStab` is NOT empty between actions and flags are not all false: `subscribe` calls
  `handle_after_stabilisation` on the node (also for a `created` observer), so the node stays queued until the
  next `stabilise_end`.  The invariant is `HasOK` (list without duplicates = flagged nodes) and `pending`.
* The cascades `became_necessary`/`became_unnecessary` also call `maybe_handle_after_stabilisation`; in the
  fragment they never queue anything new because a node that changes necessity there has no linked observer.
* The drain invariant of `Props/C01Global.lean` allows cutoff `.never`; with `.never` "stamp of this round ⇒ value
  changed" is false (`SubsH.valchg_without_hcut_false` in `Proofs/Subs8.lean`, kernel-checked counterexample); the fragment has `.eq` everywhere.
-/
namespace IncrVerif.Props.C09History
open IncrVerif.Engine IncrVerif.Driver IncrVerif.Proofs IncrVerif.Proofs.Sched IncrVerif.Proofs.Quiet
open IncrVerif.Proofs.SubsH

/-! ## S1: the invariant -/

theorem inv_init (env : Env) (maxHeight : Nat) (debug : Bool) : UInv env (State.init maxHeight debug) :=
  uinv_init env maxHeight debug

/-- the invariant of `Props/C01History.lean` is the special case "no handler anywhere" -/
theorem inv_of_quiet {env : Env} {s : State} (Q : Quiet.QInv env s) : SubsH.QInv env s := QInv.of_quiet Q

/-- **S1.** Every action of the extended fragment that returns keeps the invariant. -/
theorem action_keeps {env : Env} {s s' : State} {a : Action} {tokens : Array Nat} {r : String × Array Nat}
    (U : UInv env s) (heff : PureHandlers env) (ha : SubAction env a)
    (h : (stepAction env a tokens).run.run s = (.ok r, s')) : UInv env s' :=
  (step_u U heff ha h).1

/-- every action other than `stabilise` logs nothing, keeps every stored value and only removes handler records
or adds never-called records with fresh tokens -/
theorem action_quiet {env : Env} {s s' : State} {a : Action} {tokens : Array Nat} {r : String × Array Nat}
    (U : UInv env s) (heff : PureHandlers env) (ha : SubAction env a) (hns : a ≠ .stabilise)
    (h : (stepAction env a tokens).run.run s = (.ok r, s')) : NStep s s' :=
  (step_u U heff ha h).2 hns

/-- `subscribe`: error on a disallowed/unlinked observer, otherwise the fresh token `s.nextToken` is registered -/
theorem subscribe_spec {env : Env} {s s' : State} {o hid : Nat} {tokens : Array Nat} {r : String × Array Nat}
    (U : UInv env s) (h : (stepAction env (.subscribe o hid) tokens).run.run s = (.ok r, s')) :
    (s' = s ∧ r.2 = tokens ∧ ∃ ob, s.observers[o]? = some ob ∧ (ob.state = .disallowed ∨ ob.state = .unlinked)) ∨
    (r.2 = tokens.push o ∧ s'.nextToken = s.nextToken + 1 ∧
      ∃ ob, s.observers[o]? = some ob ∧ (ob.state = .created ∨ ob.state = .inUse) ∧
        s'.observers = s.observers.modify o fun x =>
          { x with handlers := x.handlers ++ [{ token := s.nextToken, hid := hid, createdAt := s.stabNum }] }) :=
  (step_subscribe U h).2.2

/-- **S1/G2 with handlers.** `stabilise` re-establishes the invariant; all conclusions of
`Props.C01History.stabilise_pending` hold (`Stabilised`: nothing pending, variables unchanged, every necessary
node non-stale and equal — stored value and observer read — to `Sched.eval`, created observers in use,
disallowed ones unlinked, the drain ran no node twice), and afterwards every handler of an observer in use has
been called at least once. -/
theorem stabilise_keeps {env : Env} {fuel : Nat} {s s' : State} (U : UInv env s) (heff : PureHandlers env)
    (h : (stabilise env fuel).run.run s = (.ok (), s')) : SubsH.Stabilised env fuel s s' :=
  stabilise_u U heff h

theorem history_inv {env : Env} {N : Nat} {d : Bool} {acts : List Action} {s : State} {tk : Array Nat}
    (heff : PureHandlers env) (ha : ∀ a, a ∈ acts → SubAction env a)
    (h : runActions env acts (State.init N d) #[] = .ok (s, tk)) : UInv env s :=
  history_u heff ha h

/-- at every `stabilise` of a history of the extended fragment: the invariant before it and `Stabilised` -/
theorem history_every_stabilise {env : Env} {N : Nat} {d : Bool} {as bs : List Action} {s : State}
    {tk : Array Nat} (heff : PureHandlers env)
    (ha : ∀ a, a ∈ as ++ Action.stabilise :: bs → SubAction env a)
    (h : runActions env (as ++ Action.stabilise :: bs) (State.init N d) #[] = .ok (s, tk)) :
    ∃ s1 tk1 s2, runActions env as (State.init N d) #[] = .ok (s1, tk1) ∧ UInv env s1 ∧
      (stabilise env fuelDefault).run.run s1 = (.ok (), s2) ∧ SubsH.Stabilised env fuelDefault s1 s2 ∧
      runActions env bs s2 tk1 = .ok (s, tk) :=
  history_stabilise_u heff ha h

/-! ## S2: what one `stabilise` delivers -/

/-- **S2.** The log of a returning `stabilise` from a state with the invariant: `s'.log = del.reverse ++ pre ++
s.log` (newest first) where `pre` (observer phases, drain) contains no notification and `del` (logged by
`stabilise_end`, after the drain) consists of exactly the expected notifications of the handler records
registered before the call, each token at most once. -/
theorem stabilise_delivers {env : Env} {fuel : Nat} {s s' : State} (U : UInv env s) (heff : PureHandlers env)
    (h : (stabilise env fuel).run.run s = (.ok (), s')) :
    ∃ (pre del : List Event), s'.log = del.reverse ++ (pre ++ s.log) ∧ (∀ e, e ∈ pre → NotNotif e) ∧
      (∀ e, e ∈ del → ∃ t u, e = .notif t u) ∧
      (∀ t u, Event.notif t u ∈ del ↔
        ∃ (o : Nat) (ob : ObsRec) (h : HandlerRec), s.observers[o]? = some ob ∧ h ∈ ob.handlers ∧
          h.token = t ∧ expected s s' o h = some u) ∧
      (del.filterMap notifTok).Nodup :=
  SubsH.stabilise_delivers U heff h

/-- what a record on a created or in-use observer is told: the observer is in use afterwards and reads `v`;
`Initialised v` if the handler was never called, else `Changed v` iff the stored value of the node is not the
one from before the call, else nothing -/
theorem expected_live {env : Env} {fuel : Nat} {s s' : State} (U : UInv env s) (heff : PureHandlers env)
    (hrun : (stabilise env fuel).run.run s = (.ok (), s')) {o : Nat} {ob : ObsRec} (h : HandlerRec)
    (ho : s.observers[o]? = some ob) (hs : ob.state = .created ∨ ob.state = .inUse) :
    ∃ ob' v, s'.observers[o]? = some ob' ∧ ob'.node = ob.node ∧ ob'.state = .inUse ∧
      (s'.nodeD ob.node).value = some v ∧ s'.tryGetValue env o = .ok v ∧
      expected s s' o h = (if h.prev = .neverBeenUpdated then some (.initialised v)
        else if (s.nodeD ob.node).value = some v then none else some (.changed v)) := by
  have R := stabilise_u U heff hrun
  obtain ⟨t3, M⟩ := R.mid
  exact stab_live R M h ho hs

/-- a record on a disallowed or unlinked observer is told nothing -/
theorem expected_dead {env : Env} {fuel : Nat} {s s' : State} (U : UInv env s) (heff : PureHandlers env)
    (hrun : (stabilise env fuel).run.run s = (.ok (), s')) {o : Nat} {ob : ObsRec} (h : HandlerRec)
    (ho : s.observers[o]? = some ob) (hs : ¬ (ob.state = .created ∨ ob.state = .inUse)) :
    expected s s' o h = none :=
  stab_dead (stabilise_u U heff hrun) h ho hs

/-- the delivered value is what the observer reads after the call, and that is the from-scratch evaluation
`Sched.eval` of its node on the current variable values -/
theorem delivered_value_is_eval {env : Env} {fuel : Nat} {s s' : State} (U : UInv env s)
    (heff : PureHandlers env) (hrun : (stabilise env fuel).run.run s = (.ok (), s')) {o : Nat} {ob : ObsRec}
    (ho : s.observers[o]? = some ob) (hs : ob.state = .created ∨ ob.state = .inUse) :
    ∃ v, s'.tryGetValue env o = .ok v ∧ (s'.nodeD ob.node).value = some v ∧
      ∀ k, (s'.nodeD ob.node).height.toNat < k → eval env s' k ob.node = some v := by
  have R := stabilise_u U heff hrun
  obtain ⟨t3, M⟩ := R.mid
  obtain ⟨ob', v, ho', hn', hst', hval, hread, -⟩ := stab_live R M (default : HandlerRec) ho hs
  refine ⟨v, hread, hval, fun k hk => ?_⟩
  have O' := obsInv_final R
  have hmem : o ∈ (s'.nodeD ob.node).observers :=
    (O'.mem ob.node o).2 ⟨ob', ho', hn', Or.inl hst'⟩
  have hnec : s'.isNecessary ob.node = true := by
    rw [isNecessary_iff]; right; left; exact List.ne_nil_of_mem hmem
  obtain ⟨-, -, h3, -, -⟩ := R.values ob.node hnec k hk
  rw [← h3]; exact hval

/-- the `changedAt` stamp of the round is exact: a node carries it after the `stabilise` iff its stored value
differs from the one before -/
theorem changed_iff_value_changed {env : Env} {fuel : Nat} {s s' : State} (U : UInv env s)
    (heff : PureHandlers env) (hrun : (stabilise env fuel).run.run s = (.ok (), s')) (m : Nat) :
    (s'.nodeD m).changedAt = s.stabNum ↔ (s'.nodeD m).value ≠ (s.nodeD m).value := by
  obtain ⟨t3, M⟩ := (stabilise_u U heff hrun).mid
  have := (M.valchg m).1
  rw [M.ended.node m]
  exact this

/-! ## S3: whole histories -/

/-- **S3 / C09 for the fragment.** The updates logged for token `t` along a whole history are exactly `specT`. -/
theorem history_notifications {env : Env} (heff : PureHandlers env) {N : Nat} {d : Bool}
    {acts : List Action} {s : State} {tk : Array Nat} (ha : ∀ a, a ∈ acts → SubAction env a)
    (h : runActions env acts (State.init N d) #[] = .ok (s, tk)) (t : Nat) :
    tokLog t s.log = specT env t acts (State.init N d) #[] [] :=
  SubsH.history_notifications heff ha h t

/-- hence: `Initialised` at most once and first, then only `Changed`; never `Invalidated` -/
theorem history_shape {env : Env} (heff : PureHandlers env) {N : Nat} {d : Bool}
    {acts : List Action} {s : State} {tk : Array Nat} (ha : ∀ a, a ∈ acts → SubAction env a)
    (h : runActions env acts (State.init N d) #[] = .ok (s, tk)) (t : Nat) : Shape (tokLog t s.log) := by
  rw [SubsH.history_notifications heff ha h t]
  exact specT_shape env t acts _ _ trivial

/-- the unfolding of `specT` at one action that returns -/
theorem spec_step (env : Env) (t : Nat) (a : Action) (as : List Action) (s s' : State) (tk : Array Nat)
    (acc : List Update) (r : String × Array Nat) (hx : (stepAction env a tk).run.run s = (.ok r, s')) :
    specT env t (a :: as) s tk acc = specT env t as s' r.2 (stepAcc env t a s s' acc) :=
  specT_cons_ok env t a as s s' tk acc r hx

/-- a dead token (after `unsubscribe`, `disallow`, the last `dropObs`; `Props/C10History.lean`) is not live:
`specT` appends nothing for it -/
theorem dead_token_not_live {s : State} {t : Nat} (h : Life.Dead s t) : liveObs s t = none :=
  liveObs_none_of_dead h

theorem fresh_token_not_live {env : Env} {s : State} {t : Nat} (U : UInv env s) (h : s.nextToken ≤ t) :
    liveObs s t = none :=
  liveObs_none_of_fresh U.hinv h

/-- a successful `subscribe` (it issued a token: `nextToken` grew) makes the new token live on its observer -/
theorem subscribe_makes_live {env : Env} {s s' : State} {o hid : Nat} {tokens : Array Nat}
    {r : String × Array Nat} (U : UInv env s)
    (h : (stepAction env (.subscribe o hid) tokens).run.run s = (.ok r, s'))
    (hr : s'.nextToken = s.nextToken + 1) : liveObs s' s.nextToken = some o :=
  subscribe_live U h hr

/-- **a live registration stays live** under every action of the fragment that returns, except the actions that
may kill it: `unsubscribe o t`, `stateUnsub t`, `disallow o`, `dropObs o` -/
theorem live_stays_live {env : Env} {s s' : State} {a : Action} {tokens : Array Nat} {r : String × Array Nat}
    {t o : Nat} (U : UInv env s) (heff : PureHandlers env) (ha : SubAction env a) (hk : ¬ Kills t o a)
    (h : (stepAction env a tokens).run.run s = (.ok r, s')) (hl : liveObs s t = some o) :
    liveObs s' t = some o :=
  live_persists U heff ha hk h hl

/-! ## non-vacuity -/

/-- var, map, observe, subscribe, stabilise (Initialised 1), set 5, stabilise (Changed 5), set 5 again,
stabilise (nothing), a second observer on the same node, stabilise (nothing), unsubscribe, set 7, stabilise
(nothing).  The same history on the driver: `hdl h0`, `fn f0 lin 7 0 1`, `var 1`, `map f0 n0`, `observe n1`,
`subscribe o0 h0`, `stabilise`, `set v0 5`, `stabilise`, `set v0 5`, `stabilise`, `observe n1`, `stabilise`,
`unsubscribe o0 t0`, `set v0 7`, `stabilise` logs `notif t0 Initialised 1`, `notif t0 Changed 5` and nothing else. -/
def exHist : List Action :=
  [.create (.var (.int 1)), .create (.map 0 [.outer 0]), .observe (.outer 1), .subscribe 0 0, .stabilise,
   .set 0 (.int 5), .stabilise, .set 0 (.int 5), .stabilise, .observe (.outer 1), .stabilise,
   .unsubscribe 0 0, .set 0 (.int 7), .stabilise]

theorem exEnv_pure : PureHandlers Step.exEnv := fun _ _ => rfl

theorem exHist_ok : ∀ a, a ∈ exHist → SubAction Step.exEnv a := by
  intro a ha
  simp only [exHist, List.mem_cons, List.mem_nil_iff, or_false] at ha
  rcases ha with rfl | rfl | rfl | rfl | rfl | rfl | rfl | rfl | rfl | rfl | rfl | rfl | rfl | rfl
  all_goals first
    | trivial
    | (refine ⟨by decide, fun _ _ => rfl, ?_⟩
       intro a ha
       simp only [List.mem_cons, List.mem_nil_iff, or_false] at ha
       rcases ha with rfl
       trivial)

/-- the updates logged for token `t` by the history (if it runs) -/
def tokLogAfter (env : Env) (acts : List Action) (t : Nat) : Option (List Update) :=
  match runActions env acts (State.init 128 true) #[] with
  | .ok (s, _) => some (tokLog t s.log)
  | .error _ => none

theorem tokLogAfter_some {env : Env} {acts : List Action} {t : Nat} {l : List Update}
    (h : tokLogAfter env acts t = some l) :
    ∃ s tk, runActions env acts (State.init 128 true) #[] = .ok (s, tk) ∧ tokLog t s.log = l := by
  unfold tokLogAfter at h
  rcases hx : runActions env acts (State.init 128 true) #[] with e | ⟨s, tk⟩
  · rw [hx] at h; cases h
  · rw [hx] at h; cases h; exact ⟨s, tk, rfl, rfl⟩

set_option maxRecDepth 100000 in
/-- the example runs, and token 0 receives `Initialised 1`, `Changed 5` and nothing else: nothing for the
unchanged value, nothing when a second observer of the node is linked, nothing after `unsubscribe` -/
theorem exHist_log : tokLogAfter Step.exEnv exHist 0 = some [.initialised (.int 1), .changed (.int 5)] := by
  decide +kernel

set_option maxRecDepth 100000 in
/-- the prefixes: after the first `stabilise` `Initialised 1`, after the second also `Changed 5`, unchanged by
the third (same value) and the fourth (second observer) -/
example : tokLogAfter Step.exEnv (exHist.take 5) 0 = some [.initialised (.int 1)] ∧
    tokLogAfter Step.exEnv (exHist.take 7) 0 = some [.initialised (.int 1), .changed (.int 5)] ∧
    tokLogAfter Step.exEnv (exHist.take 9) 0 = some [.initialised (.int 1), .changed (.int 5)] ∧
    tokLogAfter Step.exEnv (exHist.take 11) 0 = some [.initialised (.int 1), .changed (.int 5)] ∧
    tokLogAfter Step.exEnv (exHist.take 4) 0 = some [] :=
  ⟨by decide +kernel, by decide +kernel, by decide +kernel, by decide +kernel, by decide +kernel⟩

set_option maxRecDepth 100000 in
/-- the specification computes the same list (as `history_notifications` proves for every history) -/
example : specT Step.exEnv 0 exHist (State.init 128 true) #[] [] = [.initialised (.int 1), .changed (.int 5)] := by
  decide +kernel

/-- the theorems apply to the example: its final state satisfies the invariant and its log is the specified one -/
example : ∃ s tk, runActions Step.exEnv exHist (State.init 128 true) #[] = .ok (s, tk) ∧ UInv Step.exEnv s ∧
    tokLog 0 s.log = specT Step.exEnv 0 exHist (State.init 128 true) #[] [] ∧ Shape (tokLog 0 s.log) := by
  obtain ⟨s, tk, h, -⟩ := tokLogAfter_some exHist_log
  exact ⟨s, tk, h, history_inv exEnv_pure exHist_ok h, history_notifications exEnv_pure exHist_ok h 0,
    history_shape exEnv_pure exHist_ok h 0⟩

/-- the situation of the repaired defect D4: a second subscription on the same observer queues the node again
without changing it: the first subscription is told nothing, the new one `Initialised`; then both `Changed` -/
def exHist2 : List Action :=
  [.create (.var (.int 1)), .create (.map 0 [.outer 0]), .observe (.outer 1), .subscribe 0 0, .stabilise,
   .subscribe 0 0, .stabilise, .set 0 (.int 5), .stabilise]

set_option maxRecDepth 100000 in
example : tokLogAfter Step.exEnv (exHist2.take 7) 0 = some [.initialised (.int 1)] ∧
    tokLogAfter Step.exEnv (exHist2.take 7) 1 = some [.initialised (.int 1)] ∧
    tokLogAfter Step.exEnv exHist2 0 = some [.initialised (.int 1), .changed (.int 5)] ∧
    tokLogAfter Step.exEnv exHist2 1 = some [.initialised (.int 1), .changed (.int 5)] :=
  ⟨by decide +kernel, by decide +kernel, by decide +kernel, by decide +kernel⟩

end IncrVerif.Props.C09History
