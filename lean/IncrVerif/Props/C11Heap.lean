import IncrVerif.Proofs.HeapWF
/-!
# C11 — the recompute heap is well-formed at all times

`HeapWF s` (defined in `Proofs/HeapWF.lean`):
  (a) `n ∈ s.rch.queues[h] ↔ n < s.nodes.size ∧ (s.nodeD n).heightInRch = h` for every bucket `h`,
  (b) every bucket is duplicate-free,
  (c) `s.rch.length` is the sum of the bucket lengths,
  (d) every marker is `-1` or a bucket index.

Every theorem is a Hoare triple over `M = ExceptT Panic (StateM State)` with the same assertion as
normal *and* exceptional postcondition: the state at a panic point is well-formed too.

Two groups.
* any build (nothing assumed about `cfg.debug`): `writeVar`, `subscribe`, `unsubscribe`,
  `disallowFutureUse`, `elabInstr`, `elabInstrM`, `memoCall`, `elabTemplate`, the expert operations other than
  `expertAddDependency`, `unlinkDisallowedObservers`, and all of the heap primitives / the
  becoming-unnecessary and invalidation cascades (see `Proofs/HeapWF.lean`).
* debug builds (`cfg.debug = true` before, and it stays true): `stabilise`, `expertAddDependency`
  (everything that can reach `becameNecessary` or `adjustHeights`), `setMaxHeightAllowed`.  The hypothesis cannot be dropped:
  `stabilise_needs_debug` is a concrete release-mode state that is well-formed before `stabilise` and
  ill-formed after it.

NOT YET COVERED: in release mode (`cfg.debug = false`): `setMaxHeightAllowed` (a release build can drop
non-empty buckets: the emptiness check is a `debug_assert!`), `becameNecessary`,
`addParentWithoutAdjustingHeights`, `becameNecessaryPropagate`, `adjustHeightsLoop`, `adjustHeights`,
`stateAddParent`, `changeChildBindRhs`, `expertAddDependency`, `runEffects`, `perKeyDriver`, `recomputeOne`,
`recompute`, `drainHeap`, `addNewObservers`, `runAll`, `stabiliseEnd`, `stabilise` — for these
`HeapWF` alone is not inductive (counterexample below); they are covered in debug mode only.
-/
namespace IncrVerif.Props.C11
open IncrVerif.Engine IncrVerif.Proofs Std.Do

/-- the initial state -/
theorem init (maxHeight : Nat) (debug : Bool) : HeapWF (State.init maxHeight debug) :=
  heapWF_init maxHeight debug

/-! ## any build -/

theorem writeVar (v : Nat) (f : Val → Val) (isSet : Bool) :
    ⦃fun s => ⌜HeapWF s⌝⦄ writeVar v f isSet ⦃post⟨fun _ s => ⌜HeapWF s⌝, fun _ s => ⌜HeapWF s⌝⟩⦄ :=
  (writeVar_spec .release v f isSet).heapWF

theorem subscribe (o hid : Nat) :
    ⦃fun s => ⌜HeapWF s⌝⦄ subscribe o hid ⦃post⟨fun _ s => ⌜HeapWF s⌝, fun _ s => ⌜HeapWF s⌝⟩⦄ :=
  (subscribe_spec .release o hid).heapWF

theorem unsubscribe (o token owner : Nat) :
    ⦃fun s => ⌜HeapWF s⌝⦄ unsubscribe o token owner
    ⦃post⟨fun _ s => ⌜HeapWF s⌝, fun _ s => ⌜HeapWF s⌝⟩⦄ :=
  (unsubscribe_spec .release o token owner).heapWF

theorem disallowFutureUse (o : Nat) :
    ⦃fun s => ⌜HeapWF s⌝⦄ disallowFutureUse o ⦃post⟨fun _ s => ⌜HeapWF s⌝, fun _ s => ⌜HeapWF s⌝⟩⦄ :=
  (disallowFutureUse_spec .release o).heapWF

theorem elabInstr (loc : List Nat) (lhsVal : Val) (i : Instr) :
    ⦃fun s => ⌜HeapWF s⌝⦄ elabInstr loc lhsVal i
    ⦃post⟨fun _ s => ⌜HeapWF s⌝, fun _ s => ⌜HeapWF s⌝⟩⦄ :=
  (elabInstr_spec .release loc lhsVal i).heapWF

theorem elabTemplate (env : Env) (t : Template) (lhsVal : Val) :
    ⦃fun s => ⌜HeapWF s⌝⦄ elabTemplate env t lhsVal
    ⦃post⟨fun _ s => ⌜HeapWF s⌝, fun _ s => ⌜HeapWF s⌝⟩⦄ :=
  (elabTemplate_spec .release env t lhsVal).heapWF

/-- instructions including memoised calls (what closures and top-level `create` actions run) -/
theorem elabInstrM (env : Env) (loc : List Nat) (lhsVal : Val) (i : Instr) :
    ⦃fun s => ⌜HeapWF s⌝⦄ elabInstrM env loc lhsVal i
    ⦃post⟨fun _ s => ⌜HeapWF s⌝, fun _ s => ⌜HeapWF s⌝⟩⦄ :=
  (elabInstrM_spec .release env loc lhsVal i).heapWF

theorem memoCall (env : Env) (m : Nat) (key : Int) :
    ⦃fun s => ⌜HeapWF s⌝⦄ memoCall env m key
    ⦃post⟨fun _ s => ⌜HeapWF s⌝, fun _ s => ⌜HeapWF s⌝⟩⦄ :=
  (memoCall_spec .release env m key).heapWF

theorem expertRemoveDependency (fuel n dep : Nat) :
    ⦃fun s => ⌜HeapWF s⌝⦄ expertRemoveDependency fuel n dep
    ⦃post⟨fun _ s => ⌜HeapWF s⌝, fun _ s => ⌜HeapWF s⌝⟩⦄ :=
  (expertRemoveDependency_spec .release fuel n dep).heapWF

theorem expertMakeStale (n : Nat) :
    ⦃fun s => ⌜HeapWF s⌝⦄ expertMakeStale n ⦃post⟨fun _ s => ⌜HeapWF s⌝, fun _ s => ⌜HeapWF s⌝⟩⦄ :=
  (expertMakeStale_spec .release n).heapWF

theorem expertInvalidate (fuel n : Nat) :
    ⦃fun s => ⌜HeapWF s⌝⦄ expertInvalidate fuel n
    ⦃post⟨fun _ s => ⌜HeapWF s⌝, fun _ s => ⌜HeapWF s⌝⟩⦄ :=
  (expertInvalidate_spec .release fuel n).heapWF

/-! ## debug builds -/

theorem stabilise (env : Env) (fuel : Nat) :
    ⦃fun s => ⌜HeapWF s ∧ s.cfg.debug = true⌝⦄ stabilise env fuel
    ⦃post⟨fun _ s => ⌜HeapWF s ∧ s.cfg.debug = true⌝, fun _ s => ⌜HeapWF s ∧ s.cfg.debug = true⌝⟩⦄ :=
  (stabilise_spec env fuel).heapWF_debug

theorem expertAddDependency (env : Env) (fuel n child : Nat) (cb : Bool) :
    ⦃fun s => ⌜HeapWF s ∧ s.cfg.debug = true⌝⦄ expertAddDependency env fuel n child cb
    ⦃post⟨fun _ s => ⌜HeapWF s ∧ s.cfg.debug = true⌝, fun _ s => ⌜HeapWF s ∧ s.cfg.debug = true⌝⟩⦄ :=
  (expertAddDependency_spec env fuel n child cb).heapWF_debug

theorem setMaxHeightAllowed (newMax : Nat) :
    ⦃fun s => ⌜HeapWF s ∧ s.cfg.debug = true⌝⦄ setMaxHeightAllowed newMax
    ⦃post⟨fun _ s => ⌜HeapWF s ∧ s.cfg.debug = true⌝, fun _ s => ⌜HeapWF s ∧ s.cfg.debug = true⌝⟩⦄ :=
  (setMaxHeightAllowed_spec newMax).heapWF_debug

/-- the same in plain form: whatever the outcome (value or panic), the state `stabilise` leaves is
well-formed -/
theorem stabilise_run (env : Env) (fuel : Nat) (s : State) (h : HeapWF s) (hd : s.cfg.debug = true) :
    HeapWF ((IncrVerif.Engine.stabilise env fuel).run.run s).2 :=
  ((stabilise_spec env fuel).run s ((HWF_debug_iff s).2 ⟨h, hd⟩)).heapWF

/-- the debug-mode functions also preserve the invariant in the any-build functions' sense when
composed: every any-build function keeps `cfg.debug` -/
theorem writeVar_debug (v : Nat) (f : Val → Val) (isSet : Bool) :
    ⦃fun s => ⌜HeapWF s ∧ s.cfg.debug = true⌝⦄ IncrVerif.Engine.writeVar v f isSet
    ⦃post⟨fun _ s => ⌜HeapWF s ∧ s.cfg.debug = true⌝, fun _ s => ⌜HeapWF s ∧ s.cfg.debug = true⌝⟩⦄ :=
  (writeVar_spec .debug v f isSet).heapWF_debug

/-- release builds: `HeapWF` alone is not preserved by `stabilise` -/
theorem stabilise_needs_debug :
    HeapWF cexState ∧ cexState.cfg.debug = false ∧
      ¬ HeapWF ((IncrVerif.Engine.stabilise cexEnv 10).run.run cexState).2 :=
  release_counterexample

/-! ## non-vacuity -/

/-- three nodes; node 0 queued at height 1, node 2 queued at height 0, node 1 not queued -/
def exState : State :=
  { State.init 2 true with
    nodes := #[{ kind := .const .unit, createdIn := .top, height := 1, heightInRch := 1 },
               { kind := .const .unit, createdIn := .top },
               { kind := .const .unit, createdIn := .top, height := 0, heightInRch := 0 }],
    rch := { queues := #[[2], [0], []], length := 2, lowerBound := 0 } }

example : HeapWF exState ∧ exState.cfg.debug = true := by
  refine ⟨⟨?_, ?_, ?_, ?_⟩, rfl⟩
  · intro h hh n
    have hh' : h < 3 := hh
    match h, hh' with
    | 0, _ => rcases n with _ | _ | _ | n <;> simp [exState, State.nodeD] <;> omega
    | 1, _ => rcases n with _ | _ | _ | n <;> simp [exState, State.nodeD] <;> omega
    | 2, _ => rcases n with _ | _ | _ | n <;> simp [exState, State.nodeD] <;> omega
  · intro h hh
    have hh' : h < 3 := hh
    match h, hh' with
    | 0, _ => simp [exState]
    | 1, _ => simp [exState]
    | 2, _ => simp [exState]
  · rfl
  · intro n hn
    have hn' : n < 3 := hn
    match n, hn' with
    | 0, _ => simp [exState, State.nodeD]
    | 1, _ => simp [exState, State.nodeD]
    | 2, _ => simp [exState, State.nodeD]

end IncrVerif.Props.C11
