import IncrVerif.Proofs.FaultH18
import IncrVerif.Props.C10
import IncrVerif.Props.C09History
/-!
# C13 for whole histories of static programs with subscriptions and injected faults

Property C13 (informal): "After a panic escaped from `stabilise` nothing half-updated is ever shown: if it came from
propagation every read fails with `CurrentlyStabilising`; if it came from an update handler the reads are the fully
propagated values; a further `stabilise` refuses to run (and runs no node function); the state and all handles can still be
dropped."  `Props/C13.lean` proves the status part for ALL programs.  Here the fragment of `Props/C09History.lean` (static
programs, `subscribe`/`unsubscribe`/`stateUnsub`, effect-free handlers `SubsH.PureHandlers env`) is extended by the actions
`arm k` (fault injection: `State.panicCountdown := some k`; every user-closure invocation site of the model calls
`Engine.tick`, which raises `Panic.site "user"` at the armed invocation) and `dropAll`, and C13 is proved for whole histories.
All statements are about the executable model (`stepAction`, `stabilise` … of `Engine/*.lean`); a run is
`(m).run.run s : Except Panic α × State`, and on `.error p` the state is the one at the panic point.

FRAGMENT.  `FaultH.AAction env a` (before the first panic): `SubsH.SubAction env a` or `arm k`.  `FaultH.FAction env a` (after
it): the same or `dropAll`.  Histories before the first panic: `Quiet.runActions` (stops at a panic).  Histories after it:
`FaultH.runCatch` (a panic of an action is caught as the harness / `traceAction` do: state at the panic point, token table
unchanged, next action).  `tick` sites in the fragment: the function of a `map` node with a user function (`f < fnZip`; the
built-in `zip` does not tick), every `fold` pass, every update-handler call.  (Cutoff closures, bind bodies, `map_with_old`,
expert callbacks, memoised functions are outside the fragment.)

DEFINITIONS (`Proofs/FaultH1.lean` … `FaultH18.lean`, namespace `IncrVerif.Proofs.FaultH`).
* `setCd c s`: `s` with `panicCountdown := c`.  `eff k = max k 1`: the invocation at which a fault armed with `k` fires
  (`tick` fires when the countdown is `≤ 1`: `arm 0` behaves like `arm 1`).
* `UInvA env s := SubsH.UInv env (setCd none s)`: the invariant of `Props/C09History.lean` modulo the countdown
  (`SubsH.UInv` itself contains `panicCountdown = none`).
* `IsInv e` / `IsNotif e`: `e` is the log entry of a node function or fold pass / of an update-handler call.
* `Armed env fuel s s' k pre del` (F1): the three outcomes of `stabilise` with the fault armed at `k`, see `classification`.
* `HRel a b`: `b` is `a` up to the `prev` fields of handler records, the log, the countdown and the memo tables.
* `AfterR s s'` (F2): what every later action keeps, see `after_panic_forever`.

PROVED.
* **F1** `classification`.  Let `UInv env s` and let the fault-free `stabilise` return `s'`.  Its log grows by `pre` (one
  entry per invocation of a node function or fold pass, in order; no notification) and then by `del` (one entry per handler
  call; exactly the delivery list of `C09History.stabilise_delivers`).  Put `T = pre.length`, `H = del.length`.  Started in
  `setCd (some k) s` the same call
  - `eff k > T + H`: returns `()` in the state `setCd (some (k - (T + H))) s'` — EXACTLY the fault-free final state, the
    countdown decreased by the number of invocations;
  - `eff k ≤ T`: panics with `Panic.site "user"` DURING PROPAGATION: status `stabilising`, countdown consumed (`none`), the
    log is the old log plus exactly the first `eff k - 1` entries of `pre` (the first `k-1` closures ran exactly as in the
    fault-free run, the `k`-th did not complete, nothing was delivered), `alive`/`cfg` untouched;
  - `T < eff k ≤ T + H`: panics with `Panic.site "user"` IN THE HANDLER PHASE: status `runningOnUpdateHandlers`, countdown
    `none`, the log is the old log, ALL of `pre`, and exactly the first `eff k - T - 1` notifications of `del`; the state is
    `HRel` to the fault-free final state `s'`.  `handler_panic_shows_completed_propagation`: hence every read answers what
    it answers in `s'`, every necessary node is valid, not stale and equal (stored and read) to `Sched.eval` on the current
    variable values, the variables are those before the call, and every observer that was created or in use before the call
    is in use and reads its `eval` value.
  `T_counts_invoking_nodes`: `T` is the number of nodes with a user closure (`map` with a user function, `fold`) among the
  nodes the fault-free drain runs (`Sched.drainTrace`), NOT the length of the trace (`var`, `const`, `zip` nodes run without an
  invocation; kernel-checked example: trace of 4 nodes, `T = 3`).
  Behind it: `Comm` (`FaultH1/2`: every model function the fragment reaches, except `tick`, has the same outcome whatever the
  countdown and logs nothing — a port of the exact-simulation ladder of `TidyH9–11`), `Lock` (`FaultH3/4`: in the fragment
  ticks and log entries are in lockstep: `recomputeOne`, the drain, the observer phases, the handler loop).
  The position of a notification in `del` is that of the model's lists (queue order, observer-list order, handler order); the
  real crate iterates hash maps, so "the first `k-T-1` notifications" is meaningful for the model only (which handler the
  `k`-th one is differs between runs of the real crate; the classification into the three cases does not).
* **F2** (after the panic; `t` poisoned: `t.status ≠ notStabilising`; any further history of `FAction`s, any outcomes)
  `after_panic_forever` (`AfterR t u`: status and configuration kept, NOTHING logged — no node function, no handler is ever
  invoked again —, stored node values, kinds, validity kept, no observer newly in use), `stabilise_refuses_forever` (every
  later `stabilise` panics with `state:stabilise:status` and leaves the state untouched), `reads_refused_forever`
  (propagation case: every read of every observer is `Err CurrentlyStabilising` while the state is alive,
  `Err ObservingInvalid` after `dropAll`; never a value), `values_parked_forever` + `write_deferred` (propagation case: a
  write returns, the cell's value never changes, only `pending` — the write is deferred for ever), `write_immediate`
  (handler case: the cell holds the new value at once; nothing will ever propagate it), `reads_stable_forever` +
  `handler_reads_are_eval_forever` (handler case: an observer in use later was in use at the panic and reads, for ever, the
  fully propagated value `= Sched.eval` of the fault-free final state), `handler_case_shadows_healthy` (handler case: for
  every history WITHOUT `stabilise` the poisoned engine gives the same `api` answers, panics, token tables and reads as the
  healthy engine that completed the `stabilise` — `Proofs/FaultH13–16`: no action but `stabilise` reads the status, the
  `prev` of a handler record, the log or the memo tables), `only_model_panics` (no engine panic after a propagation panic:
  an action other than `stabilise` can only fail on an index that does not exist), `dropAll_returns` (`ok live=0`, always).
* **F3** `no_fault_nothing_applies` (with `panicCountdown = none` `UInvA` is `UInv`: the fault-free theorems of
  `Props/C09History.lean` apply verbatim), `action_ignores_fault` (an action other than `stabilise` runs exactly as without
  the fault, keeps the countdown, logs nothing), `stabilise_returns_iff_not_reached` / `history_before_first_panic` (a
  history with `arm` that has not panicked ends in a healthy state; a `stabilise` that returns with a fault armed is the
  fault-free one up to the countdown), and in both panic cases of `classification` the countdown is `none` afterwards: the
  armed fault is consumed by exactly one closure invocation.
* Non-vacuity (`decide +kernel`): fault at the 2nd of 3 node functions, fault at the 1st handler, fault not reached
  (countdown `5 → 3 → 1 →` fires), the same histories agree with the real crate on `api`/`read` lines.

ASSUMED.  `SubsH.PureHandlers env`; F1 assumes that the fault-free `stabilise` returns (partial correctness, as
`Props/C09History.lean`; for valid histories it does: `Props/C17History.subs_history_never_panics`).  Nothing else.

NOT PROVED.  Total correctness after the panic is proved only in the forms `only_model_panics` (no ENGINE panic: propagation
case all actions, handler case all actions but writes) and `handler_case_shadows_healthy` (handler case: same outcomes as the
healthy engine, for which `Props/C17History.subs_action_returns` gives "valid actions return"); index validity of histories
continued after a panic is not tracked.  Node functions, handlers, cutoffs with effects; binds, `map_with_old`,
experts (their `tick` sites are not followed by exactly one log entry, the lockstep argument would need the per-site log
shapes).

FOUND.
* `tick` fires when the countdown is `≤ 1`, so `arm 0` = `arm 1` except that a `stabilise` without any invocation leaves
  `some 0` in place.  All statements use `eff k = max k 1`.
* At a handler panic the record of the handler that panicked has ALREADY been stepped (`prev` updated by `modObs` before the
  call): the handler that never completed is marked as called.  Irrelevant for the observable behaviour (no `stabilise` ever
  runs again), but `SubsH.HInv.pending` does not hold in the poisoned state.
* Writes: in the `stabilising` poisoned state they are parked for ever (also reads of the variable through `get` show the old
  value); in the `runningOnUpdateHandlers` poisoned state they are applied at once (`get` shows the new value, the watch node
  is queued in the recompute heap, and nothing ever propagates) — the two poisoned states differ observably through `get`.
-/
namespace IncrVerif.Props.C13History
open IncrVerif.Engine IncrVerif.Driver IncrVerif.Proofs
open IncrVerif.Proofs.SubsH (PureHandlers UInv SubAction)
open IncrVerif.Proofs.FaultH

/-! ## F1: classification of a `stabilise` started with an armed fault -/

/-- **F1.**  The events of the fault-free run and, for every `k`, the outcome of the run with the fault armed at `k`
(`FaultH.Armed`: `notReached`, `inPropagation`, `inHandlers`). -/
theorem classification {env : Env} {fuel : Nat} {s s' : State} (U : UInv env s) (heff : PureHandlers env)
    (h : (stabilise env fuel).run.run s = (.ok (), s')) :
    ∃ pre del : List Event, s'.log = del.reverse ++ (pre.reverse ++ s.log) ∧
      (∀ e, e ∈ pre → IsInv e) ∧ (∀ e, e ∈ del → IsNotif e) ∧
      (∀ t u, Event.notif t u ∈ del ↔
        ∃ (o : Nat) (ob : ObsRec) (hr : HandlerRec), s.observers[o]? = some ob ∧ hr ∈ ob.handlers ∧
          hr.token = t ∧ SubsH.expected s s' o hr = some u) ∧
      (del.filterMap SubsH.notifTok).Nodup ∧
      ∀ k, Armed env fuel s s' k pre del :=
  stabilise_classified U heff h

/-- **`T` = the invocations of the fault-free drain.**  The observer phases return in some `tb`, the drain returns, and for
every decomposition of the new log entries as in `classification`: `T = pre.length` is `ticksOf (TidyH.drainSteps env fuel
tb)`: the number of nodes the drain runs (`TidyH.drainSteps_fst`: they are `Sched.drainTrace env fuel tb`) whose kind
`invokes` a user closure — `map` with a user function, `fold`; NOT one per node of the trace (`var`, `const`, `zip` run
without an invocation). -/
theorem T_counts_invoking_nodes {env : Env} {fuel : Nat} {s s' : State} (U : UInv env s) (heff : PureHandlers env)
    (h : (stabilise env fuel).run.run s = (.ok (), s')) :
    ∃ ta tb s1, (addNewObservers env fuel).run.run { s with status := .stabilising } = (.ok (), ta) ∧
      (unlinkDisallowedObservers fuel).run.run ta = (.ok (), tb) ∧ (drainHeap env fuel).run.run tb = (.ok (), s1) ∧
      ∀ pre del : List Event, s'.log = del.reverse ++ (pre.reverse ++ s.log) → (∀ e, e ∈ pre → IsInv e) →
        (∀ e, e ∈ del → IsNotif e) → pre.length = ticksOf (TidyH.drainSteps env fuel tb) :=
  T_is_drain_invocations U heff h

/-- the three cases are exhaustive and exclusive: `eff k` is compared with `T` and `T + H` -/
theorem cases_exhaustive (k T H : Nat) :
    (T + H < eff k ∧ ¬ eff k ≤ T) ∨ eff k ≤ T ∨ (T < eff k ∧ eff k ≤ T + H) := by omega

/-- `arm 0` fires at the first invocation, like `arm 1` -/
theorem eff_zero : eff 0 = 1 ∧ ∀ k, 1 ≤ k → eff k = k := ⟨rfl, fun _ h => eff_of_pos h⟩

/-- **F1, handler case: propagation is complete.**  `t`: the state left by a panic in an update handler. -/
theorem handler_panic_shows_completed_propagation {env : Env} {fuel : Nat} {s s' t : State} (U : UInv env s)
    (heff : PureHandlers env) (h : (stabilise env fuel).run.run s = (.ok (), s'))
    (hst : t.status = .runningOnUpdateHandlers) (R : HRel s' { t with status := .notStabilising }) :
    (∀ o, t.tryGetValue env o = s'.tryGetValue env o) ∧ t.vars = s.vars ∧
    (∀ n, t.isNecessary n = true → ∀ k, (t.nodeD n).height.toNat < k →
      (t.nodeD n).valid = true ∧ t.isStale n = false ∧ (t.nodeD n).value = Sched.eval env t k n ∧
        t.value env n = Sched.eval env t k n ∧ (Sched.eval env t k n).isSome = true) ∧
    (∀ (o : Nat) (ob : ObsRec), s.observers[o]? = some ob → ob.state = .created ∨ ob.state = .inUse →
      ∃ ob' v, t.observers[o]? = some ob' ∧ ob'.node = ob.node ∧ ob'.state = .inUse ∧
        t.tryGetValue env o = .ok v ∧
        ∀ k, (t.nodeD ob.node).height.toNat < k → Sched.eval env t k ob.node = some v) :=
  handler_panic_state U heff h hst R

/-- propagation case, the reads at once: `Err CurrentlyStabilising` for every observer (the state is alive) -/
theorem propagation_panic_reads {env : Env} {t : State} (hst : t.status = .stabilising) (ha : t.alive = true) (o : Nat) :
    t.tryGetValue env o = .error .currentlyStabilising := by
  have := reads_refused_history (env := env) (acts := []) (st := (t, #[])) (fun _ h => by cases h) hst o
  rw [runCatch_nil] at this
  rw [this, ha]; rfl

/-! ## F2: for ever after -/

/-- **F2.**  Along any further history of the fragment, whatever the outcomes of its actions. -/
theorem after_panic_forever {env : Env} {acts : List Action} {t : State} {tk : Array Nat}
    (ha : ∀ a, a ∈ acts → FAction env a) (hp : t.status ≠ .notStabilising) :
    AfterR t (runCatch env acts (t, tk)).1 :=
  runCatch_after acts (t, tk) ha hp

/-- status, configuration and LOG never change again: no node function, no fold pass, no handler is invoked any more -/
theorem nothing_runs_forever {env : Env} {acts : List Action} {t : State} {tk : Array Nat}
    (ha : ∀ a, a ∈ acts → FAction env a) (hp : t.status ≠ .notStabilising) :
    (runCatch env acts (t, tk)).1.status = t.status ∧ (runCatch env acts (t, tk)).1.log = t.log ∧
      (runCatch env acts (t, tk)).1.cfg = t.cfg :=
  have R := runCatch_after acts (t, tk) ha hp
  ⟨R.status, R.log, R.cfg⟩

/-- every later `stabilise` refuses: the status diagnostic, the state untouched -/
theorem stabilise_refuses_forever {env : Env} {as : List Action} {t : State} {tk : Array Nat}
    (ha : ∀ a, a ∈ as → FAction env a) (hp : t.status ≠ .notStabilising) :
    (stepAction env .stabilise (runCatch env as (t, tk)).2).run.run (runCatch env as (t, tk)).1
      = (.error (.site "state:stabilise:status"), (runCatch env as (t, tk)).1) :=
  stabilise_refuses_history ha hp

/-- propagation case: never a value -/
theorem reads_refused_forever {env : Env} {acts : List Action} {t : State} {tk : Array Nat}
    (ha : ∀ a, a ∈ acts → FAction env a) (hs : t.status = .stabilising) (o : Nat) :
    (runCatch env acts (t, tk)).1.tryGetValue env o =
      if (runCatch env acts (t, tk)).1.alive then .error .currentlyStabilising else .error .observingInvalid :=
  reads_refused_history ha hs o

/-- propagation case: no variable value ever changes again -/
theorem values_parked_forever {env : Env} {acts : List Action} {t : State} {tk : Array Nat}
    (ha : ∀ a, a ∈ acts → FAction env a) (hs : t.status = .stabilising) {v : Nat} {vc : VarCell}
    (hv : t.vars[v]? = some vc) :
    ∃ vc', (runCatch env acts (t, tk)).1.vars[v]? = some vc' ∧ vc'.value = vc.value :=
  values_parked_history ha hs hv

/-- propagation case: a write (`set`, `modify`, `update`, `replace`, `replaceWith`: `writeFn a = some (v, f)`) returns and is
deferred: the cell keeps its value, `pending` holds the new one; by `stabilise_refuses_forever` no `stabilise_end` ever applies it -/
theorem write_deferred (env : Env) {a : Action} {v : Nat} {f : Val → Val} (hw : writeFn a = some (v, f))
    {s : State} {vc : VarCell} (tk : Array Nat) (hst : s.status = .stabilising) (hv : s.vars[v]? = some vc) :
    ∃ r, (stepAction env a tk).run.run s = (.ok (r, tk), Proofs.deferred v vc f s) ∧
      (Proofs.deferred v vc f s).vars[v]? = some { vc with pending := some (f (vc.pending.getD vc.value)) } ∧
      (Proofs.deferred v vc f s).nodes = s.nodes ∧ (Proofs.deferred v vc f s).rch = s.rch :=
  FaultH.write_deferred env hw tk hst hv

/-- handler case: a write is immediate (whatever its outcome the cell holds the new value) -/
theorem write_immediate (env : Env) {a : Action} {v : Nat} {f : Val → Val} (hw : writeFn a = some (v, f))
    {s s' : State} {vc : VarCell} {tk : Array Nat} {r : Except Panic (String × Array Nat)}
    (hst : s.status ≠ .stabilising) (hv : s.vars[v]? = some vc)
    (h : (stepAction env a tk).run.run s = (r, s')) :
    ∃ vc', s'.vars[v]? = some vc' ∧ vc'.value = f vc.value :=
  FaultH.write_immediate env hw hst hv h

/-- handler case: an observer in use later was in use at the panic, on the same node, and reads what it read then -/
theorem reads_stable_forever {env : Env} {acts : List Action} {t : State} {tk : Array Nat}
    (ha : ∀ a, a ∈ acts → FAction env a) (hs : t.status = .runningOnUpdateHandlers)
    (hk : ∀ (n : Nat) (nd : Node), t.nodes[n]? = some nd → ∀ p i, nd.kind ≠ .mapRef p i)
    (hr : ∀ (o : Nat) (ob : ObsRec), t.observers[o]? = some ob → ob.node < t.nodes.size)
    {o : Nat} {ob : ObsRec} (ho : (runCatch env acts (t, tk)).1.observers[o]? = some ob) (hu : ob.state = .inUse)
    (hal : (runCatch env acts (t, tk)).1.alive = true) :
    (runCatch env acts (t, tk)).1.tryGetValue env o = t.tryGetValue env o ∧
      ∃ ob0, t.observers[o]? = some ob0 ∧ ob0.state = .inUse ∧ ob0.node = ob.node :=
  reads_stable_history ha hs hk hr ho hu hal

/-- **F2, handler case, end to end.**  `t` is the state left by a handler panic of a `stabilise` whose fault-free run ends
in `s'`.  Along any further history every read of an observer in use (state alive) answers the value it has in `s'`, the
fully propagated one. -/
theorem handler_reads_are_eval_forever {env : Env} {fuel : Nat} {s s' t : State} {acts : List Action} {tk : Array Nat}
    (U : UInv env s) (heff : PureHandlers env) (h : (stabilise env fuel).run.run s = (.ok (), s'))
    (hst : t.status = .runningOnUpdateHandlers) (R : HRel s' { t with status := .notStabilising })
    (ha : ∀ a, a ∈ acts → FAction env a)
    {o : Nat} {ob : ObsRec} (ho : (runCatch env acts (t, tk)).1.observers[o]? = some ob) (hu : ob.state = .inUse)
    (hal : (runCatch env acts (t, tk)).1.alive = true) :
    ∃ v, (runCatch env acts (t, tk)).1.tryGetValue env o = .ok v ∧ s'.tryGetValue env o = .ok v ∧
      ∀ k, (s'.nodeD ob.node).height.toNat < k → Sched.eval env s' k ob.node = some v := by
  have S := SubsH.stabilise_u U heff h
  have Q' := S.inv.core
  have hnodes : t.nodes = s'.nodes := R.nodes
  have hk : ∀ (n : Nat) (nd : Node), t.nodes[n]? = some nd → ∀ p i, nd.kind ≠ .mapRef p i := by
    intro n nd hn p i he
    rw [hnodes] at hn
    have := (fr_of_qinv Q').noRef n p i
    rw [Step.nodeD_of_some hn] at this
    exact this he
  have hr : ∀ (o : Nat) (ob : ObsRec), t.observers[o]? = some ob → ob.node < t.nodes.size := by
    intro o ob hob
    have hsym := R.symm
    obtain ⟨ob', ho', hn', -, -⟩ := hsym.obsSome (o := o) (oa := ob) hob
    rw [hnodes, ← hn']
    exact Q'.obs.inRange o ob' ho'
  obtain ⟨e1, ob0, h0, hu0, hn0⟩ := reads_stable_history ha hst hk hr ho hu hal
  have hread := (handler_panic_state U heff h hst R).1 o
  obtain ⟨ob', ho', hn', hs', -⟩ := R.symm.obsSome (o := o) (oa := ob0) h0
  have hst' : ob'.state = .inUse := hs'.trans hu0
  -- the observer is in use in `s'`: it reads the value of its node, which is `eval`
  have O' := SubsH.obsInv_final S
  have hmem : o ∈ (s'.nodeD ob'.node).observers := (O'.mem ob'.node o).2 ⟨ob', ho', rfl, Or.inl hst'⟩
  have hnec : s'.isNecessary ob'.node = true := by
    rw [Quiet.isNecessary_iff]; right; left; exact List.ne_nil_of_mem hmem
  have hnode : ob'.node = ob.node := hn'.trans hn0
  have hal' : s'.alive = true := Q'.alive
  have hval := S.values ob'.node hnec
  obtain ⟨-, -, -, h4, h5⟩ := hval ((s'.nodeD ob'.node).height.toNat + 1) (Nat.lt_succ_self _)
  obtain ⟨v, hv⟩ := Option.isSome_iff_exists.1 h5
  have hrs : s'.tryGetValue env o = .ok v := by
    rw [Props.C10.read_inUse env s' o ob' v hal' (by rw [Q'.status]; intro e; cases e) ho' hst' (by rw [h4, hv])]
  refine ⟨v, by rw [e1, hread]; exact hrs, hrs, fun k hk' => ?_⟩
  rw [← hnode] at hk' ⊢
  obtain ⟨-, -, -, h4', -⟩ := S.values ob'.node hnec k hk'
  rw [← h4', h4, hv]

/-- **F2, handler case: the poisoned engine shadows the healthy one.**  `t`: the state left by a handler panic, `s'`: the
final state of the fault-free run.  For EVERY history without `stabilise` (any actions of the fragment, `arm`, `dropAll`),
run with panics caught: the `api` answers — results and panics alike — are the same from `t` as from `s'`, the token tables
are the same, and after the history every read of every observer answers the same.  So whatever `Props/C09History.lean`,
`Props/C17History.lean` (valid histories never panic: `subs_action_returns`) say about the healthy engine holds for the
poisoned one, except that it refuses to stabilise. -/
theorem handler_case_shadows_healthy {env : Env} {fuel : Nat} {s s' t : State} {acts : List Action} {tk : Array Nat}
    (U : UInv env s) (heff : PureHandlers env) (h : (stabilise env fuel).run.run s = (.ok (), s'))
    (hst : t.status = .runningOnUpdateHandlers) (hp : t.panicCountdown = none)
    (R : HRel s' { t with status := .notStabilising })
    (ha : ∀ a, a ∈ acts → FAction env a ∧ a ≠ .stabilise) :
    apis env acts (t, tk) = apis env acts (s', tk) ∧
      (runCatch env acts (t, tk)).2 = (runCatch env acts (s', tk)).2 ∧
      ∀ o, (runCatch env acts (t, tk)).1.tryGetValue env o = (runCatch env acts (s', tk)).1.tryGetValue env o := by
  have S := SubsH.stabilise_u U heff h
  have hp' : s'.panicCountdown = none := S.inv.core.struct.static.pc
  have he : er t = er s' := er_of_hrel R (hp.trans hp'.symm)
  have n1 : NS t := by unfold NS; rw [hst]; intro e; cases e
  have n2 : NS s' := by unfold NS; rw [S.inv.core.status]; intro e; cases e
  obtain ⟨h1, h2, h3, h4, h5⟩ := shadow_history acts t s' tk ha he n1 n2
  exact ⟨h1, h2, fun o => read_er h3 h4 h5 o⟩

/-- **no engine panic after the panic.**  An action other than `stabilise` and other than a write never raises an engine
panic in ANY state, and a write does not in the state poisoned by a propagation panic: if such an action panics, an index
named by the history does not exist (`FaultH.modelSites`).  (Handler case, writes: `handler_case_shadows_healthy`.) -/
theorem only_model_panics {env : Env} {a : Action} (ha : FAction env a) (hns : a ≠ .stabilise) {s s' : State}
    {tk : Array Nat} {p : Panic} (hst : writeFn a = none ∨ s.status = .stabilising)
    (h : (stepAction env a tk).run.run s = (.error p, s')) : ModelSite p :=
  FaultH.only_model_panics ha hns hst h

/-- `dropAll` always returns `ok live=0` -/
theorem dropAll_returns (env : Env) (s : State) (tk : Array Nat) :
    (stepAction env .dropAll tk).run.run s = (.ok ("ok live=0", tk), { s with alive := false }) :=
  FaultH.dropAll_returns env s tk

/-! ## F3: completeness -/

/-- with `panicCountdown = none` nothing of this applies: the invariant is `SubsH.UInv`, the theorems of
`Props/C09History.lean` -/
theorem no_fault_nothing_applies {env : Env} {s : State} (hp : s.panicCountdown = none) : UInvA env s ↔ UInv env s := by
  unfold UInvA; rw [setCd_self hp]

/-- an action other than `stabilise` runs exactly as without the fault: same result, same state up to the countdown,
which it keeps; it logs nothing -/
theorem action_ignores_fault {env : Env} {s s' : State} {a : Action} {tk : Array Nat} {r : String × Array Nat}
    (U : UInvA env s) (heff : PureHandlers env) (ha : SubAction env a) (hns : a ≠ .stabilise)
    (h : (stepAction env a tk).run.run s = (.ok r, s')) :
    UInvA env s' ∧ s'.panicCountdown = s.panicCountdown ∧ s'.log = s.log ∧
      (stepAction env a tk).run.run (setCd none s) = (.ok r, setCd none s') :=
  step_healthy U heff ha hns h

/-- a `stabilise` that returns from a healthy state (whatever is armed) is the fault-free one up to the countdown -/
theorem stabilise_returns_iff_not_reached {env : Env} {s s' : State} {tk : Array Nat} {r : String × Array Nat}
    (U : UInvA env s) (heff : PureHandlers env)
    (h : (stepAction env .stabilise tk).run.run s = (.ok r, s')) :
    UInvA env s' ∧ (stabilise env fuelDefault).run.run (setCd none s) = (.ok (), setCd none s') :=
  stabilise_healthy U heff h

/-- a history of the fragment with `arm` that has not panicked so far ends in a healthy state -/
theorem history_before_first_panic {env : Env} {N : Nat} {d : Bool} {acts : List Action} {s : State} {tk : Array Nat}
    (heff : PureHandlers env) (ha : ∀ a, a ∈ acts → AAction env a)
    (h : Quiet.runActions env acts (State.init N d) #[] = .ok (s, tk)) : UInvA env s :=
  history_uA heff ha h

/-! ## non-vacuity -/

/-- what a read answers, comparable -/
inductive Rd where
  | val (v : Val) | err (e : ObsError)
deriving DecidableEq, Repr

def rd (env : Env) (s : State) (o : Nat) : Rd :=
  match s.tryGetValue env o with
  | .ok v => .val v
  | .error e => .err e

/-- the panic of an action (`none`: it returned) -/
def panicOfAction (env : Env) (a : Action) (st : State × Array Nat) : Option Panic :=
  match (stepAction env a st.2).run.run st.1 with
  | (.ok _, _) => none
  | (.error p, _) => some p

/-- per action: its panic (if any), then the status, the number of log entries, the countdown and what every observer
reads in the state it leaves -/
def summary (env : Env) : List Action → State × Array Nat → List (Option Panic × Status × Nat × Option Nat × List Rd)
  | [], _ => []
  | a :: as, st =>
    let st' := stepCatch env a st
    (panicOfAction env a st, st'.1.status, st'.1.log.length, st'.1.panicCountdown,
      (List.range st'.1.observers.size).map (rd env st'.1)) :: summary env as st'

/-- `var 1`, three user functions in a chain, an observer with a handler -/
def exGraph : List Action :=
  [.create (.var (.int 1)), .create (.map 0 [.outer 0]), .create (.map 1 [.outer 1]), .create (.map 2 [.outer 2]),
   .observe (.outer 3), .subscribe 0 0]

theorem exGraph_ok : ∀ a, a ∈ exGraph → AAction Step.exEnv a := by
  intro a ha
  simp only [exGraph, List.mem_cons, List.mem_nil_iff, or_false] at ha
  rcases ha with rfl | rfl | rfl | rfl | rfl | rfl
  all_goals first
    | trivial
    | (refine ⟨by decide, fun _ _ => rfl, ?_⟩
       intro a ha
       simp only [List.mem_cons, List.mem_nil_iff, or_false] at ha
       rcases ha with rfl
       trivial)

theorem exGraph_sub : ∀ a, a ∈ exGraph → SubAction Step.exEnv a := by
  intro a ha
  simp only [exGraph, List.mem_cons, List.mem_nil_iff, or_false] at ha
  rcases ha with rfl | rfl | rfl | rfl | rfl | rfl
  all_goals first
    | trivial
    | (refine ⟨by decide, fun _ _ => rfl, ?_⟩
       intro a ha
       simp only [List.mem_cons, List.mem_nil_iff, or_false] at ha
       rcases ha with rfl
       trivial)

def st0 : State × Array Nat := (State.init 128 true, #[])

set_option maxRecDepth 100000 in
/-- **fault at the 2nd of 3 node functions** (`arm 2`): the fault-free run logs 3 node-function entries and 1 notification
(`T = 3`, `H = 1`); with `arm 2` `stabilise` panics with `user`, status `stabilising`, ONE new log entry (the first
function), countdown consumed, the observer reads `CurrentlyStabilising`; then `set` returns, `stabilise` panics with the
status diagnostic, a new observer and a subscription are accepted, every read stays `CurrentlyStabilising`, nothing more is
ever logged; `dropAll` returns and the reads become `ObservingInvalid`.
Driver syntax: `hdl h0`, `fn f0 lin 7 0 1`, `fn f1 lin 7 1 1`, `fn f2 lin 7 2 1`, `var 1`, `map f0 n0`, `map f1 n1`, `map f2 n2`,
`observe n3`, `subscribe o0 h0`, `arm 2`, `stabilise`, `set v0 5`, `stabilise`, `observe n1`, `subscribe o1 h0`, `dropall` —
the real crate prints the same `api`/`read` lines. -/
example : (summary Step.exEnv (exGraph ++ [.arm 2, .stabilise, .set 0 (.int 5), .stabilise, .observe (.outer 1),
      .subscribe 1 0, .dropAll]) st0).drop 6 =
    [(none, .notStabilising, 0, some 2, [.err .neverStabilised]),
     (some (.site "user"), .stabilising, 1, none, [.err .currentlyStabilising]),
     (none, .stabilising, 1, none, [.err .currentlyStabilising]),
     (some (.site "state:stabilise:status"), .stabilising, 1, none, [.err .currentlyStabilising]),
     (none, .stabilising, 1, none, [.err .currentlyStabilising, .err .currentlyStabilising]),
     (none, .stabilising, 1, none, [.err .currentlyStabilising, .err .currentlyStabilising]),
     (none, .stabilising, 1, none, [.err .observingInvalid, .err .observingInvalid])] := by
  decide +kernel

set_option maxRecDepth 100000 in
/-- the same graph without fault: 3 node-function entries, then 1 notification; with `arm 4` (`= T + 1`) **the fault fires
in the 1st handler**: status `runningOnUpdateHandlers`, 3 log entries (all of `pre`, no notification), the observer reads
the fully propagated value `1`; a later `set` is immediate but nothing propagates: the read stays `1` for ever. -/
example : (summary Step.exEnv (exGraph ++ [.stabilise]) st0).drop 6 =
      [(none, .notStabilising, 4, none, [.val (.int 1)])] ∧
    (summary Step.exEnv (exGraph ++ [.arm 4, .stabilise, .set 0 (.int 5), .stabilise, .get 0, .dropAll]) st0).drop 7 =
      [(some (.site "user"), .runningOnUpdateHandlers, 3, none, [.val (.int 1)]),
       (none, .runningOnUpdateHandlers, 3, none, [.val (.int 1)]),
       (some (.site "state:stabilise:status"), .runningOnUpdateHandlers, 3, none, [.val (.int 1)]),
       (none, .runningOnUpdateHandlers, 3, none, [.val (.int 1)]),
       (none, .runningOnUpdateHandlers, 3, none, [.err .observingInvalid])] :=
  ⟨by decide +kernel, by decide +kernel⟩

set_option maxRecDepth 100000 in
/-- **fault not reached**: `arm 9`; the first `stabilise` makes 4 invocations (countdown `9 → 5`), after `set` the second
makes 4 more (`5 → 1`), the third fires at its first node function. -/
example : ((summary Step.exEnv (exGraph ++ [.arm 9, .stabilise, .set 0 (.int 5), .stabilise, .set 0 (.int 6), .stabilise])
      st0).drop 7).map (fun x => (x.1, x.2.1, x.2.2.2.1)) =
    [(none, .notStabilising, some 5), (none, .notStabilising, some 5), (none, .notStabilising, some 1),
     (none, .notStabilising, some 1), (some (.site "user"), .stabilising, none)] := by
  decide +kernel

/-- the state a history reaches if it does not panic -/
def stateAfter (env : Env) (acts : List Action) : Option (State × Array Nat) :=
  match Quiet.runActions env acts (State.init 128 true) #[] with
  | .ok r => some r
  | .error _ => none

theorem stateAfter_some {env : Env} {acts : List Action} (h : (stateAfter env acts).isSome = true) :
    ∃ s tk, Quiet.runActions env acts (State.init 128 true) #[] = .ok (s, tk) := by
  unfold stateAfter at h
  rcases hx : Quiet.runActions env acts (State.init 128 true) #[] with e | ⟨s, tk⟩
  · rw [hx] at h; cases h
  · exact ⟨s, tk, rfl⟩

set_option maxRecDepth 100000 in
/-- `T` counts invocations, not nodes: the drain of the example runs 4 nodes (`Sched.drainTrace`: the variable and the three
maps), `T = 3`: a `var`, `const` or `zip` node runs without invoking a user closure -/
example : (stateAfter Step.exEnv exGraph).map (fun st =>
      Sched.drainTrace Step.exEnv fuelDefault
        ((do addNewObservers Step.exEnv fuelDefault; unlinkDisallowedObservers fuelDefault : M Unit).run.run
          { st.1 with status := .stabilising }).2) = some [0, 1, 2, 3] := by
  decide +kernel

set_option maxRecDepth 100000 in
/-- the hypotheses of `classification` hold for the example: the state after `exGraph` satisfies the invariant and the
fault-free `stabilise` returns; hence for every `k` one of the three outcomes, computed above for `k = 2, 4, 9` -/
example : ∃ s tk s', Quiet.runActions Step.exEnv exGraph (State.init 128 true) #[] = .ok (s, tk) ∧ UInv Step.exEnv s ∧
    (stabilise Step.exEnv fuelDefault).run.run s = (.ok (), s') ∧
    ∃ pre del : List Event, s'.log = del.reverse ++ (pre.reverse ++ s.log) ∧
      ∀ k, Armed Step.exEnv fuelDefault s s' k pre del := by
  obtain ⟨s2, tk2, h2⟩ := stateAfter_some (env := Step.exEnv) (acts := exGraph ++ [.stabilise]) (by decide +kernel)
  obtain ⟨s, tk, h1, h3⟩ := Quiet.runActions_prefix h2
  have U : UInv Step.exEnv s := C09History.history_inv C09History.exEnv_pure exGraph_sub h1
  simp only [Quiet.runActions] at h3
  rcases hx : (stepAction Step.exEnv .stabilise tk).run.run s with ⟨_ | r, s'⟩
  · rw [hx] at h3; cases h3
  · have hst := Quiet.step_stabilise hx
    obtain ⟨pre, del, hl, -, -, -, -, A⟩ := classification U C09History.exEnv_pure hst
    exact ⟨s, tk, s', h1, U, hst, pre, del, hl, A⟩

end IncrVerif.Props.C13History
