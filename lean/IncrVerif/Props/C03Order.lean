import IncrVerif.Proofs.BindH3
import IncrVerif.Proofs.BindH13
import IncrVerif.Proofs.BindH18
import IncrVerif.Proofs.BindH44
import IncrVerif.Proofs.BindH79
import IncrVerif.Proofs.BindH86
import IncrVerif.Proofs.BindH87
import IncrVerif.Proofs.BindH88
import IncrVerif.Proofs.BindH97
import IncrVerif.Proofs.BindH100
import IncrVerif.Proofs.BindH102
import IncrVerif.Proofs.BindH106
import IncrVerif.Proofs.BindH111
/-!
# C03 (ordering) — nodes built inside a bind closure never run before the bind's change detector

A bind `x.bind(f)` is two nodes: `bindLhsChange b` (the CHANGE DETECTOR: child `x`; its recompute runs the closure,
invalidates the nodes the previous run created, installs the new right-hand side) and `bindMain b lc`.  C03 needs:
within one stabilisation the change detector of `b` runs BEFORE any node created in scope `.bind b`, so that a node
of a generation that is about to die never runs on the new input.

## PROVED HERE (milestone B1, "the ordering lemma"; pure logic over explicit invariants, for the model)

`BindH.OrderInv s x` (`Proofs/BindH1.lean`) — the invariants of a state `s` during a drain, `x` = the node that is
running / about to run:
* `heap : Sched.HeapInv s` (`HeapWF`, queued node sits in the bucket of its height, lower bound below every queued
  node and `≥ 0`, queued ⟹ necessary);
* `scope` (THE SCOPE HEIGHT RULE): a valid necessary node created in scope `.bind b` is strictly higher than the
  change detector of `b`;
* `scopeNec`: such a node makes the change detector of `b` necessary;
* `pending`: a necessary stale node is queued or is `x`;
* `mainLc`: a valid necessary `bindMain b' lc'`: `lc'` exists, is valid, necessary and was created in the same scope;
* `lcPar`: a parent of the change detector of `b` was not created in scope `.bind b`.

`BindH.Settled s b`: the change detector of `b` is neither queued nor stale ("it has had its chance in this round").

* `pop_order`: `OrderInv s none`, `remove_min` returns a VALID node `n` created in scope `.bind b` ⟹ `Settled` before
  and after the pop, and `n` is not the change detector.
* `handover_order`: `OrderInv s (some c)`, `p` a necessary parent of the running node `c`, created in scope `.bind b`,
  `parent_iter_can_recompute_now p c = true` (the direct-recompute chain, BOTH ways it can answer `true`: the flag
  `child.height > scope.height ∧ min_height > scope.height` — for a `bindMain` parent with ITS change detector in
  place of the scope — and `p.height ≤ min_height`) ⟹ `Settled` before and after the call; the change detector is
  neither `c` nor `p`.
* `queued_blocks_handover` (what the D2 repair `min_height > scope.height()` buys): while the change detector of `b`
  is queued, `parent_iter_can_recompute_now` answers `true` for NO valid necessary node of scope `b`.
* Boolean checkers `BindH.heapInvB`, `BindH.orderInvB` with soundness proofs (`Proofs/BindH2.lean`).
* Non-vacuity (`Proofs/BindH3.lean`, all by kernel evaluation of the model on histories run through `stepAction`):
  `exA` — a history (two vars, `bind`, observe, stabilise, write) whose drain reaches a state satisfying `OrderInv`
  in which `remove_min` returns a node created in the bind's scope; `exB` — the same with a one-child closure node:
  the hand-over really happens; `exD` — a state in which the change detector is queued, a node of its scope has a
  changed child ABOVE the scope height, and only the `min_height` guard keeps it from running at once.

## PROVED HERE (milestone B3, pure part: the drain invariant with a CHANGING graph; `Proofs/BindH4.lean` … `BindH13.lean`)

FRAGMENT (of states): every valid node is of kind `const`, `var`, pure `map`, `fold`, `bindLhsChange`, `bindMain`; cutoff `.eq`/`.never`;
no fault armed.  Nodes may be created, re-linked, made (un)necessary and invalidated DURING the drain by the runs of change detectors.
* `BindH.Edge s a c`: `c ∈ s.children a` (for ANY valid `a`, necessary or not), or `a` is a valid node created in scope `.bind b` and `c` is the change
  detector of `b` (virtual edge: the scope height rule makes the change detector a quasi-child of every node of its scope); `BindH.Below` = its
  reflexive-transitive closure.
* `BindH.BGraph env s`: structure at rest between two `recomputeOne`s (kinds, edge symmetry with indices, heights strictly decreasing along recorded
  edges, the scope height rule, bind kinds ↔ records, acyclicity of all edges).
* `BindH.DInv env s x` — the drain invariant (`x` = node about to run): `graph`, `heap` (`Sched.HeapInv`), `stamps`, `qstale` (queued ⟹ stale), `pending`
  (necessary ∧ stale ⟹ queued ∨ current), `cons` (EVERY valid non-stale node, necessary or not, satisfies its defining equation `ConsistentB`: for `bindMain`
  value = value of the bind's current rhs), `fresh` (if `d` is stale or current and `Below s a d` then `a` has not been recomputed in this round — through ALL
  edges, including edges of unnecessary nodes and the virtual scope edges: this is what survives re-linking), `cur` (nothing at or below the current node is queued).
* `BindH.StepRelB` (a run of a static or `bindMain` node: the graph is unchanged; generalises `Sched.StepRel`, the hand-over condition `HandOK` includes the D2 guard
  `ScopeClear`) and `BindH.StepL` (a run of a change detector: new nodes, dead nodes, the new record, wholesale structure of the new state, frame for old nodes).
THEOREMS.
* `recomputeOne_stepB` (monadic, no hypothesis beyond `BGraph`/`HeapInv`): a successful `recomputeOne` on a necessary static or `bindMain` node whose children have
  values satisfies `StepRelB` with the node's `TargetB` value — parents may be bind nodes, all three ways `parent_iter_can_recompute_now` can say yes are covered.
* `stepB_inv`, `stepL_inv` (pure): `DInv env s (some n)` + the step relation ⟹ `DInv env s' r`.
* `pop_invB`, `recomputeOne_invB`, `recompute_invB`, `drainHeap_invB`: the drain keeps `DInv` (and an auxiliary invariant `Aux`), GIVEN `LcStepsOK env Aux`:
  every successful run of a change detector from a state with `DInv ∧ Aux` satisfies `StepL` and keeps `Aux` (and the other steps keep `Aux`).
* `drainHeap_valuesB`: then, after a successful `drainHeap`, every necessary node is valid, not stale, and carries (stored value and observer read) `evalB env s' k n` —
  from-scratch evaluation in which a bind's main node evaluates to the from-scratch value of the bind's CURRENT rhs; every necessary change detector is non-stale
  (it last ran on the current lhs value).
* `drain_onceB`: the nodes run by the drain are pairwise distinct (no node runs twice); each had not run in this round before and is STILL VALID at the end of
  the drain — no node of a generation invalidated during this drain was recomputed in it.
* `scope_not_yet_run` (C03, step form): when a change detector is about to run, no valid node of its scope has been recomputed in this round;
  `scope_node_settled` (C03, ordering form): when a valid node created in scope `.bind b` is about to run, the change detector of `b` is neither queued nor stale.

## PROVED HERE (milestone B2 + B3 END TO END for fragment F0; `Proofs/BindH19.lean` … `BindH44.lean`)

FRAGMENT F0 (`BindH.F0Inv env s`, carried through the drain as auxiliary invariant): every node is valid and top-level, of kind `const`/`var`/pure `map`/`fold`/`bindLhsChange`/
`bindMain`; bind closures CREATE NO NODES: they return (`ret nK`) a top-level node that is OLDER than the bind and is not a change detector (`closures`, `rhsOld`); change
detectors are unobserved and have cutoff `.never`; no node is forced necessary; the adjust-heights heap is empty; `propagateInvalidity` is empty.  So the GRAPH CHANGES during the
drain (a bind's main node is re-linked to another right-hand side, nodes become necessary/unnecessary, heights are adjusted), but no node is created or invalidated.
* `BindH.GInvB env s op ex` (`BindH19`): `Quiet.GInv` (structural invariant with open nodes `.linking k`/`.unlinking k`) ported to graphs with bind kinds, with a set `ex` of
  excused nodes (stale, necessary, unqueued: the running node; the main node while its bind's change detector runs).
* the two necessity cascades keep it: `becameNecessary_specB`, `addParentWithoutAdjustingHeights_specB` (`BindH20–22`), `checkIfUnnecessary_specB`, `becameUnnecessary_specB`,
  `removeChildren_specB`, `removeParent_dropLast*` (`BindH23–26`).
* `adjustHeights_specB` (`BindH27–29`): `adjustHeights child parent` from a state in which only the edges into `parent` may violate the height order re-establishes the whole
  invariant (heights only grow, queued nodes are re-bucketed, the adjust-heights heap is empty again); partial correctness, any `cfg.debug`.
* `relink_specB : RelinkSpec env` (`BindH30–35`): `modBind rhs; modNode changedAt; changeChildBindRhs` (old rhs unlinked and kept alive by `forceNecessary`, new rhs linked by
  `stateAddParent` incl. `adjustHeights`, `checkIfUnnecessary old`) keeps the structural invariant.
* `recomputeOne_lcF0` (`BindH36–41`): a successful run of a change detector from `DInv ∧ F0Inv` satisfies `StepL` and keeps `F0Inv`; `recomputeOne_stepB_F0`, `pop_F0` (`BindH42–43`).
* `lcStepsOK_F0 : LcStepsOK env (F0Inv env)`, hence WITHOUT any hypothesis about the steps: `drainHeap_F0` (values = `evalB` in the final graph, all change detectors non-stale),
  `drain_once_F0` (no node runs twice) (`BindH44`).

## PROVED HERE (milestone B2 + B3 END TO END for fragment F1: closures that CREATE nodes; `Proofs/BindH45.lean` … `BindH79.lean`)

FRAGMENT F1 (`BindH.F1Inv env s`, `BindH.All1`, `BindH.GInv1`): top-level nodes `const`/`var`/pure `map`/`fold`/`bindLhsChange`/`bindMain` (valid for ever); a run of the
closure of bind `b` elaborates a template (`TemplOK`) whose instructions are `const`, `lhsConst`, pure `map`, `fold` — each creates one node in scope `.bind b` — over top-level
nodes OLDER than the bind (`.outer k`) and earlier locals (`.loc j`), and returns one of these; NO nested binds.  When the change detector runs again the previous generation is invalidated.
* `BindH.rkOf`: a rank that decreases along every child edge and from a scope node to the change detector of its scope (creation order does not: a bind's main node is older than
  the nodes its closure creates); injective (`All1.rk_inj`).
* `BindH.GInv1 env s op ex dy` (`BindH45`): `GInvB` + THE SCOPE HEIGHT RULE `scopeH` (a closed necessary valid node of scope `b` is strictly higher than `b`'s change detector) + invalid
  nodes are isolated (`inv`) + scope nodes/change detectors are unobserved; `All1.gen`: the registered nodes `allNodesCreatedOnRhs` (plus the dying generation `dy`) are EXACTLY the valid
  nodes of the scope; `GInv1.scope_no_parents` (scope necessity: nodes of a scope are necessary only through the bind's main node), `bgraph_of_ginv1`.
* the cascades in rank order: `becameNecessary_spec1` (a node created in a scope starts at `scope.height() + 1`; when a change detector becomes necessary no node of its scope is),
  `addParentWithoutAdjustingHeights_spec1`, `checkIfUnnecessary_spec1`, `removeParent_dropLast*1` (`BindH49–57`).
* `adjustHeights_spec1` (`BindH58–60`): the loop over `allNodesCreatedOnRhs` restores the scope height rule when a change detector is raised.
* the four phases of a run of a change detector: `closure_spec1 : ClosureSpec1 env` (`elabTemplate`: node creation in the scope, `BindH62–65`), `relink_spec1 : RelinkSpec1 env`
  (`changeChildBindRhs`, `BindH66–70`), `inval_spec1 : InvalSpec1 env` (the previous generation is invalidated, `BindH71–72`), and `recomputeOne_lcF1` (`BindH73–77`): the run
  satisfies `StepL` and keeps `F1Inv`; `recomputeOne_stepB_F1`, `pop_F1` (`BindH78`).
* `lcStepsOK_F1 : LcStepsOK env (F1Inv env)`, hence WITHOUT any hypothesis about the steps: `drainHeap_F1`, `drain_once_F1` (`BindH79`).

## PROVED HERE (milestone B4: the invariant between API actions, `stabilise`, API actions; `Proofs/BindH80.lean` … `BindH97.lean`)

* `BindH.QInv1 env s` (`BindH80`): `Struct1` (structural invariant at rest: the heap holds EXACTLY the necessary stale nodes) + `F1Inv` + `VarsOK` + `ObsOK` + observers watch top-level nodes
  that are not change detectors + all stamps from earlier rounds + EVERY valid non-stale node (necessary or not) satisfies its defining equation + nothing deferred.
* programs: `BindH.ActionF1 env T a` (`T` = number of handles created so far): `create` of `const`/`var`/pure `map`/`fold`/`zip` over handles, `create (bind body (outer k))` with
  `BodyF1 env T body` (for EVERY input value the closure's template consists of `const`/`lhsConst`/pure `map`/`fold` over handles `n0 … n(T-1)` and earlier locals), `observe`, `cloneObs`,
  `dropObs`, `disallow`, the five write operations, `get`, `stabilise`, `isStable`, `stats`.
* `step_create1` (incl. `createBind`), `step_observe1`, `step_cloneObs1`, `step_dropObs1`, `step_disallow1`, `writeVar_q1`, `step_write1`: each action that returns keeps `QInv1` (`BindH81–88`).
* `addNewObservers_s1`, `unlinkDisallowedObservers_s1` (`BindH89–90`): the observer prefix of `stabilise` keeps the structure (cascades through bind nodes and scopes).
* `recomputeOne_dkey`, `pop_dkey` (`BindH95–96`): every step of a drain leaves the observer tables, deferred lists, status alone and keeps kinds/scopes/observer lists of existing nodes.
* `stabilise_F1` (`BindH97`): from `QInv1`, a successful `stabilise` with ARBITRARY pending new/disallowed observers ends in `QInv1`; variables unchanged; every necessary node valid,
  non-stale, reading `evalB` in the final graph; the drain ran no node twice and no node of a generation that died in it.  `stabilise_reads_F1`: every in-use observer reads `evalB` of its node.
* `BindH.den` (`BindH98`): the specification-level FROM-SCRATCH semantics — a bind's main node: evaluate the lhs, apply the closure `env.body` to that value, evaluate the template it
  yields (`denT`); no node created by a closure is looked at.  `GenOK env s` ("generations are current"): for every non-stale change detector the bind's registered nodes and rhs are the
  image (`ElabOf`) of the template for the CURRENT lhs value.  `closure_elab` (`BindH101–102`): the closure run registers exactly that image.  `den_of_consistent_fuel` (`BindH99–100`):
  with `GenOK`, the stored value of every necessary top-level node is `den`.

## PROVED HERE (whole histories; `Proofs/BindH103.lean` … `BindH111.lean`)

* `lcStepsOK_gen`, `drainHeap_gen`, `stabilise_gen`, `step_gen`, `genOK_init` (`BindH103–105`): `GenOK` ("generations are current") is kept by every step of a drain, by `stabilise`, by every API action.
* `stabilise_reads_den` (`BindH105`): after a `stabilise` every in-use observer reads `den env s' k node` — the specification-level from-scratch value.
* `DInv.orderInv` (`BindH106`): the drain invariant implies the hypotheses `OrderInv` of the B1 ordering lemmas (given that bind records name change detectors).
* `BindH.HistF1 env T acts` (`BindH109`): a history of the fragment (`ActionF1` for each action, `T` counting the handles created so far); `step_q1`, `qinv1_init`, `history_q1`.
* `BindH.QG env s := QInv1 env s ∧ GenOK env s`; `step_F1`, `history_F1`: EVERY state reached from `State.init N d` by a history of the fragment (that runs without panic) satisfies `QG`;
  `history_stabilise_F1`: at EVERY `stabilise` of such a history: the state before satisfies `QG`, the `stabilise` returns with all conclusions of `stabilise_F1`, and every in-use observer reads
  `den` of its node (`BindH111`).
* Non-vacuity (`BindH110–111`): `exHistB` (two vars; `bind b0 v0` whose closure creates `map f0 [n1, n1]` on an even and `map f0 [n1]` on an odd lhs value; observe; stabilise; `v0 := 1`;
  stabilise; `v1 := 5`; stabilise) is a history of the fragment, runs (kernel evaluation), reads `2`, `1`, `5` after the three stabilises; at the second one the closure variant switches:
  node 4 is invalidated and node 5 created (`exHistB_switch`).

## ASSUMED (explicit hypotheses), NOT PROVED HERE

PARTIAL CORRECTNESS throughout: every theorem assumes that the call / the history returns `(.ok _, s')` (no panic, enough fuel); total correctness (that valid histories with binds never panic)
is NOT proved here.  Outside fragments F0/F1 (nested binds, closures referring to nodes younger than the bind, `map_ref`, `map_with_old`, expert nodes, user cutoffs, effects), `LcStepsOK env Aux` (the structural half, milestone B2: that `recomputeOne` on a change detector — closure run, `elabTemplate`, `changeChildBindRhs`, `adjustHeights`,
invalidation of the old generation — satisfies `StepL`) is a HYPOTHESIS of the drain theorems here.  It was validated by running the Boolean versions of `DInv`,
`StepRelB`, `StepL` (`BindH.dinvB`, `stepRelBReport`, `stepLReport`) on every step of the drains of 400 generated histories of the fragment (9009 steps, 1739 runs of
change detectors, 0 violations).  The B1 theorems take `OrderInv` as a hypothesis; `DInv` implies what they need.  The theorems say nothing about INVALID popped nodes
(`recomputeOne` panics on them; that queued nodes are valid is `NecWF`, `Props/C05.lean`).
-/
namespace IncrVerif.Props.C03Order
open IncrVerif.Engine IncrVerif.Proofs IncrVerif.Proofs.Sched IncrVerif.Proofs.BindH

/-- **Ordering lemma, pop.** In a draining state with the ordering invariants, a VALID node `n` created in scope
`.bind b` that `remove_min` returns finds the change detector of `b` neither queued nor stale (before the pop and
in the state in which `n` is about to run); `n` is not that change detector. -/
theorem pop_order {s s1 : State} {n b : Nat} (I : OrderInv s none)
    (hr : rchRemoveMin.run.run s = (.ok (some n), s1))
    (hv : (s.nodeD n).valid = true) (hsc : (s.nodeD n).createdIn = .bind b) :
    Settled s b ∧ Settled s1 b ∧ ∀ br, s.binds[b]? = some br → br.lhsChange ≠ n :=
  BindH.pop_order I hr hv hsc

/-- non-vacuity: `exA` is reached by running a history; it satisfies the invariants; the pop returns node 4, valid,
created in scope `.bind 0`; hence the conclusion -/
example : OrderInv exA none ∧ rchRemoveMin.run.run exA = (.ok (some 4), after rchRemoveMin exA) ∧
    (exA.nodeD 4).valid = true ∧ (exA.nodeD 4).createdIn = .bind 0 ∧ Settled exA 0 :=
  ⟨exA_order, exA_pop, by decide +kernel, by decide +kernel,
    (BindH.pop_order exA_order exA_pop (by decide +kernel) (by decide +kernel)).1⟩

/-- **Ordering lemma, hand-over.** `c` is the running node, `p` a necessary parent of `c` created in scope `.bind b`.
If `parent_iter_can_recompute_now p c` answers `true`, the change detector of `b` is neither queued nor stale, and it
is neither `c` nor `p`. -/
theorem handover_order {s s' : State} {c p i b : Nat} (I : OrderInv s (some c))
    (hpar : (p, i) ∈ (s.nodeD c).parents)
    (hr : (parentIterCanRecomputeNow p c).run.run s = (.ok true, s'))
    (hnec : s.isNecessary p = true) (hsc : (s.nodeD p).createdIn = .bind b) :
    Settled s b ∧ Settled s' b ∧ ∀ br, s.binds[b]? = some br → br.lhsChange ≠ c ∧ br.lhsChange ≠ p :=
  BindH.handover_order I hpar hr hnec hsc

/-- non-vacuity: in `exB` node 1 (a var) is current, node 4 (`map f0 [1]`, created in scope `.bind 0`) is its parent
and the call answers `true` -/
example : OrderInv exB (some 1) ∧ (4, 0) ∈ (exB.nodeD 1).parents ∧
    (parentIterCanRecomputeNow 4 1).run.run exB = (.ok true, after (parentIterCanRecomputeNow 4 1) exB) ∧
    exB.isNecessary 4 = true ∧ (exB.nodeD 4).createdIn = .bind 0 :=
  ⟨exB_order, by decide +kernel, exB_handover, by decide +kernel, by decide +kernel⟩

/-- **The D2 guard.** While the change detector of `b` is queued, no valid necessary node of scope `b` is handed
over for direct recomputation. -/
theorem queued_blocks_handover {s s' : State} {x : Option Nat} {c p b : Nat} {br : BindRec} (I : OrderInv s x)
    (hb : s.binds[b]? = some br) (hq : (s.nodeD br.lhsChange).inRch = true)
    (hv : (s.nodeD p).valid = true) (hnec : s.isNecessary p = true) (hsc : (s.nodeD p).createdIn = .bind b) :
    (parentIterCanRecomputeNow p c).run.run s ≠ (.ok true, s') :=
  BindH.queued_blocks_handover I hb hq hv hnec hsc

/-- non-vacuity: in `exD` the change detector (node 7, height 3) is queued, node 9 of its scope is valid and
necessary, its child node 5 (height 4, above the scope) is current; node 5's `recomputeOne` queues node 9 -/
example : OrderInv exD (some 5) ∧ (exD.binds[0]?.map (·.lhsChange)) = some 7 ∧ (exD.nodeD 7).inRch = true ∧
    (exD.nodeD 9).valid = true ∧ exD.isNecessary 9 = true ∧ (exD.nodeD 9).createdIn = .bind 0 ∧
    retOf (recomputeOne bEnv 9 5) exD = some none ∧
    ((after (recomputeOne bEnv 9 5) exD).nodeD 9).inRch = true :=
  ⟨exD_order, by decide +kernel, by decide +kernel, by decide +kernel, by decide +kernel, by decide +kernel,
    by decide +kernel, by decide +kernel⟩

/-! ## B3: the drain invariant with a changing graph -/

/-- **One run of a static or bind-main node**, as a relation (no hypothesis on the rest of the drain). -/
theorem recomputeOne_stepB {env : Env} {fuel n : Nat} {s s' : State} {r : Option Nat}
    (g : BGraph env s) (hi : HeapInv s) (hn : s.isNecessary n = true)
    (hk : StaticKind env (s.nodeD n).kind ∨ ∃ b lc, (s.nodeD n).kind = .bindMain b lc)
    (hvals : ∀ c, c ∈ s.children n → ∃ v, (s.nodeD c).value = some v)
    (h : (recomputeOne env fuel n).run.run s = (.ok r, s')) :
    ∃ v ch, TargetB env s n v ∧ StepRelB n v ch r s s' :=
  BindH.recomputeOne_stepB g hi hn hk hvals h

/-- **A run of a static or bind-main node keeps the drain invariant.** -/
theorem stepB_inv {env : Env} {n : Nat} {v : Val} {ch : Bool} {r : Option Nat} {s s' : State}
    (I : DInv env s (some n)) (ht : TargetB env s n v) (R : StepRelB n v ch r s s') : DInv env s' r :=
  BindH.stepB_inv I ht R

/-- **A run of a change detector keeps the drain invariant** (from its relational description `StepL`). -/
theorem stepL_inv {env : Env} {n b : Nat} {br br' : BindRec} {r : Option Nat} {s s' : State}
    (I : DInv env s (some n)) (hk : (s.nodeD n).kind = .bindLhsChange b)
    (R : StepL env n b br br' r s s') : DInv env s' r :=
  BindH.stepL_inv I hk R

/-- **The drain.** Values after a successful `drainHeap`: every necessary node is valid, not stale, and reads its from-scratch value `evalB`. -/
theorem drainHeap_valuesB {env : Env} {Aux : State → Prop} (H : LcStepsOK env Aux) {fuel : Nat} {s s' : State}
    (I : DInv env s none) (hA : Aux s) (h : (drainHeap env fuel).run.run s = (.ok (), s')) :
    DInv env s' none ∧ Aux s' ∧ s'.rch.length = 0 ∧ s'.vars = s.vars ∧ s'.stabNum = s.stabNum ∧
    ∀ n, s'.isNecessary n = true → ∀ k, (s'.nodeD n).height.toNat < k →
      (s'.nodeD n).valid = true ∧ s'.isStale n = false ∧
        (s'.nodeD n).value = evalB env s' k n ∧ s'.value env n = evalB env s' k n ∧
        (evalB env s' k n).isSome = true :=
  BindH.drainHeap_valuesB H I hA h

/-- **No node runs twice; no node of a dying generation runs.** -/
theorem drain_onceB {env : Env} {Aux : State → Prop} (H : LcStepsOK env Aux) (fuel : Nat) (s s' : State)
    (I : DInv env s none) (hA : Aux s) (h : (drainHeap env fuel).run.run s = (.ok (), s')) :
    (drainTrace env fuel s).Nodup ∧ ∀ m, m ∈ drainTrace env fuel s → RanOnceB s s' m :=
  BindH.drain_onceB H fuel s s' I hA h

/-- **C03, step form.** -/
theorem scope_not_yet_run {env : Env} {s : State} {n b m : Nat} {br : BindRec} (I : DInv env s (some n))
    (hb : s.binds[b]? = some br) (hlc : br.lhsChange = n)
    (hv : (s.nodeD m).valid = true) (hsc : (s.nodeD m).createdIn = .bind b) :
    (s.nodeD m).recomputedAt < s.stabNum :=
  BindH.scope_not_yet_run I hb hlc hv hsc

/-- **C03, ordering form.** -/
theorem scope_node_settled {env : Env} {s : State} {m b : Nat} {br : BindRec} (I : DInv env s (some m))
    (hb : s.binds[b]? = some br) (hsc : (s.nodeD m).createdIn = .bind b) :
    (s.nodeD br.lhsChange).inRch = false ∧ s.isStale br.lhsChange = false :=
  BindH.scope_node_settled I hb hsc

/-! ## B2 + B3 end to end, fragment F0 -/

/-- **The drain of an F0 program** (bind closures return older top-level nodes): no hypothesis about the steps. -/
theorem drainHeap_F0 {env : Env} {fuel : Nat} {s s' : State} (I : DInv env s none) (A : F0Inv env s)
    (h : (drainHeap env fuel).run.run s = (.ok (), s')) :
    DInv env s' none ∧ F0Inv env s' ∧ s'.rch.length = 0 ∧ s'.vars = s.vars ∧ s'.stabNum = s.stabNum ∧
    ∀ n, s'.isNecessary n = true → ∀ k, (s'.nodeD n).height.toNat < k →
      (s'.nodeD n).valid = true ∧ s'.isStale n = false ∧
        (s'.nodeD n).value = evalB env s' k n ∧ s'.value env n = evalB env s' k n ∧
        (evalB env s' k n).isSome = true :=
  BindH.drainHeap_F0 I A h

/-- **No node runs twice in a drain of an F0 program.** -/
theorem drain_once_F0 {env : Env} (fuel : Nat) (s s' : State) (I : DInv env s none) (A : F0Inv env s)
    (h : (drainHeap env fuel).run.run s = (.ok (), s')) :
    (drainTrace env fuel s).Nodup ∧ ∀ m, m ∈ drainTrace env fuel s → RanOnceB s s' m :=
  BindH.drain_once_F0 fuel s s' I A h

/-- a run of a change detector in F0 satisfies `StepL` and keeps the auxiliary invariant -/
theorem recomputeOne_lcF0 {env : Env} {fuel n b : Nat} {s s' : State} {r : Option Nat}
    (I : DInv env s (some n)) (A : F0Inv env s) (hk : (s.nodeD n).kind = .bindLhsChange b)
    (h : (recomputeOne env fuel n).run.run s = (.ok r, s')) :
    (∃ br br', StepL env n b br br' r s s') ∧ F0Inv env s' :=
  BindH.recomputeOne_lcF0 (relink_specB env) I A hk h

/-! ## B2 + B3 end to end, fragment F1 (closures create nodes) -/

/-- **The drain of an F1 program**: no hypothesis about the steps.  Values = `evalB` in the final graph; every necessary change detector is non-stale. -/
theorem drainHeap_F1 {env : Env} {fuel : Nat} {s s' : State} (I : DInv env s none) (A : F1Inv env s)
    (h : (drainHeap env fuel).run.run s = (.ok (), s')) :
    DInv env s' none ∧ F1Inv env s' ∧ s'.rch.length = 0 ∧ s'.vars = s.vars ∧ s'.stabNum = s.stabNum ∧
    ∀ n, s'.isNecessary n = true → ∀ k, (s'.nodeD n).height.toNat < k →
      (s'.nodeD n).valid = true ∧ s'.isStale n = false ∧
        (s'.nodeD n).value = evalB env s' k n ∧ s'.value env n = evalB env s' k n ∧
        (evalB env s' k n).isSome = true :=
  BindH.drainHeap_F1 I A h

/-- **C02 + C03 for F1 programs**: the nodes run by a drain are pairwise distinct; each had not run in this round before, and each is still VALID at the end — no node
of a generation that is invalidated during the drain ran in it. -/
theorem drain_once_F1 {env : Env} (fuel : Nat) (s s' : State) (I : DInv env s none) (A : F1Inv env s)
    (h : (drainHeap env fuel).run.run s = (.ok (), s')) :
    (drainTrace env fuel s).Nodup ∧ ∀ m, m ∈ drainTrace env fuel s → RanOnceB s s' m :=
  BindH.drain_once_F1 fuel s s' I A h

/-- a run of a change detector in F1 (closure run with node creation, re-linking, invalidation of the previous generation) satisfies `StepL` and keeps `F1Inv` -/
theorem recomputeOne_lcF1 {env : Env} {fuel n b : Nat} {s s' : State} {r : Option Nat}
    (I : DInv env s (some n)) (A : F1Inv env s) (hk : (s.nodeD n).kind = .bindLhsChange b)
    (h : (recomputeOne env fuel n).run.run s = (.ok r, s')) :
    (∃ br br', StepL env n b br br' r s s') ∧ F1Inv env s' :=
  BindH.recomputeOne_lcF1 (closure_spec1 env) (relink_spec1 env) (inval_spec1 env) I A hk h

/-! ## B4: `stabilise` and the API, programs with binds -/

/-- **`stabilise` on a program with binds** (fragment F1), arbitrary pending observers: see `Stabilised1` for the conclusions (invariant again, values = `evalB`, at most once, …). -/
theorem stabilise_F1 {env : Env} {fuel : Nat} {s s' : State} (Q : QInv1 env s)
    (h : (stabilise env fuel).run.run s = (.ok (), s')) : Stabilised1 env fuel s s' :=
  BindH.stabilise_F1 Q h

/-- after a `stabilise` every in-use observer reads the from-scratch value `evalB` of its node; every observer is in use or unlinked -/
theorem stabilise_reads_F1 {env : Env} {fuel : Nat} {s s' : State} (Q : QInv1 env s)
    (h : (stabilise env fuel).run.run s = (.ok (), s')) : ReadsOK1 env s' ∧ Quiet.ObsSettled s' :=
  BindH.stabilise_reads_F1 Q h

/-- creating a node — including `bind` — keeps the invariant between actions -/
theorem step_create1 {env : Env} {s s' : State} {i : Instr} {tokens : Array Nat} {r : String × Array Nat}
    (Q : QInv1 env s) (hi : InstrTop env s.top.size i)
    (h : (stepAction env (.create i) tokens).run.run s = (.ok r, s')) : QInv1 env s' :=
  BindH.step_create1 Q hi h

/-- a write outside `stabilise` keeps the invariant between actions -/
theorem writeVar_q1 {env : Env} {s s' : State} {v : Nat} {f : Val → Val} {isSet : Bool} {r : Val}
    (Q : QInv1 env s) (h : (writeVar v f isSet).run.run s = (.ok r, s')) :
    QInv1 env s' ∧ ∃ vc, s.vars[v]? = some vc ∧ r = vc.value ∧
      s'.vars[v]? = some { vc with value := f vc.value, setAt := s.stabNum } ∧ (∀ w, w ≠ v → s'.vars[w]? = s.vars[w]?) :=
  BindH.writeVar_q1 Q h

/-- the closure run registers exactly the image of the closure's template for the lhs value -/
theorem closure_elab {env : Env} {n b rhs : Nat} {br : BindRec} {s s' : State} {ex : Nat → Prop}
    (h : (Inval.lhsRunClosure env n b br).run.run s = (.ok rhs, s'))
    (I : GInv1 env s Quiet.allClosed ex []) (hah : AhhEmpty s) (hb : s.binds[b]? = some br) (hlc : br.lhsChange = n)
    (hT : ∀ v, TemplOK env s n (env.body br.body v))
    (htop : ∀ (k r : Nat), s.top[k]? = some r →
      r < s.nodes.size ∧ (s.nodeD r).createdIn = .top ∧ ∀ b', (s.nodeD r).kind ≠ .bindLhsChange b') :
    ∃ v l, (s.nodeD br.lhs).value = some v ∧ s'.binds[b]? = some { br with allNodesCreatedOnRhs := l } ∧
      ElabOf s' (env.body br.body v) v l rhs :=
  BindH.closure_elab h I hah hb hlc hT htop

/-- with current generations, stored values are the specification-level from-scratch values `den` -/
theorem den_of_consistent_fuel {env : Env} {s : State} (g : BGraph env s) (A : F1Inv env s) (G : GenOK env s)
    (hall : ∀ m, s.isNecessary m = true → s.isStale m = false ∧ ConsistentB env s m)
    (n : Nat) (hn : s.isNecessary n = true) (htop : (s.nodeD n).createdIn = .top) (k : Nat) (hk : n < k) :
    den env s k n = (s.nodeD n).value :=
  BindH.den_of_consistent_fuel g A G hall n hn htop k hk

/-! ## whole histories of programs with binds -/

/-- **Every API action of the fragment keeps the invariant** `QG = QInv1 ∧ GenOK`. -/
theorem step_F1 {env : Env} {s s' : State} {a : Action} {tokens : Array Nat} {r : String × Array Nat}
    (Q : QG env s) (ha : ActionF1 env s.top.size a) (h : (stepAction env a tokens).run.run s = (.ok r, s')) :
    QG env s' :=
  BindH.step_F1 Q ha h

/-- **Whole histories.** Every state reached from the initial state by a history of the fragment (that runs without panic) satisfies the invariant. -/
theorem history_F1 {env : Env} {N : Nat} {d : Bool} {acts : List Action} {s : State} {tk : Array Nat}
    (hH : HistF1 env 0 acts) (h : Quiet.runActions env acts (State.init N d) #[] = .ok (s, tk)) : QG env s :=
  BindH.history_F1 hH h

/-- **C01 for programs with binds: every `stabilise` of a history.**  At each `stabilise` of a history of the fragment: all conclusions of `stabilise_F1` (`Stabilised1`: invariant again,
every necessary node valid, non-stale, = `evalB`; the drain ran no node twice and no node of a generation that died in it), and every in-use observer reads the FROM-SCRATCH value `den`
of its node: evaluate the lhs of each bind, run the closure on that value, evaluate the template it returns. -/
theorem history_stabilise_F1 {env : Env} {N : Nat} {d : Bool} {as bs : List Action} {s : State} {tk : Array Nat}
    (hH : HistF1 env 0 (as ++ Action.stabilise :: bs))
    (h : Quiet.runActions env (as ++ Action.stabilise :: bs) (State.init N d) #[] = .ok (s, tk)) :
    ∃ s1 tk1 s2, Quiet.runActions env as (State.init N d) #[] = .ok (s1, tk1) ∧ QG env s1 ∧
      (stabilise env fuelDefault).run.run s1 = (.ok (), s2) ∧ Stabilised1 env fuelDefault s1 s2 ∧ QG env s2 ∧
      (∀ (o : Nat) (ob : ObsRec), s2.observers[o]? = some ob → ob.state = .inUse →
        ∃ v, s2.tryGetValue env o = .ok v ∧ ∀ k, ob.node < k → den env s2 k ob.node = some v) ∧
      Quiet.runActions env bs s2 tk1 = .ok (s, tk) :=
  BindH.history_stabilise_F1 hH h

/-- after a `stabilise` every in-use observer reads `den` -/
theorem stabilise_reads_den {env : Env} {fuel : Nat} {s s' : State} (Q : QInv1 env s) (G : GenOK env s)
    (h : (stabilise env fuel).run.run s = (.ok (), s')) :
    ∀ (o : Nat) (ob : ObsRec), s'.observers[o]? = some ob → ob.state = .inUse →
      ∃ v, s'.tryGetValue env o = .ok v ∧ ∀ k, ob.node < k → den env s' k ob.node = some v :=
  BindH.stabilise_reads_den Q G h

/-- the drain invariant implies the hypotheses of the B1 ordering lemmas -/
theorem orderInv_of_dinv {env : Env} {s : State} {x : Option Nat} (I : DInv env s x)
    (hrec : ∀ (b : Nat) (br : BindRec), s.binds[b]? = some br → (s.nodeD br.lhsChange).kind = .bindLhsChange b) :
    OrderInv s x :=
  I.orderInv hrec

/-- non-vacuity: the example history with a bind whose lhs changes is in the fragment, runs, ends in a state satisfying the invariant, and reads `1 + 1`, `1`, `5` after its three stabilises;
at the second stabilise the closure switches variants: node 4 (the first run's `map f0 [1,1]`) is invalid afterwards and node 5 (`map f0 [1]`) has been created -/
example : HistF1 bEnv 0 exHistB ∧
    (∃ s tk, Quiet.runActions bEnv exHistB (State.init 128 true) #[] = .ok (s, tk) ∧ QG bEnv s) ∧
    C2h.readB bEnv (exHistB.take 5) 0 = some (.int 2) ∧ C2h.readB bEnv (exHistB.take 7) 0 = some (.int 1) ∧
    C2h.readB bEnv exHistB 0 = some (.int 5) :=
  ⟨exHistB_F1.1, exHistB_F1.2, exHistB_reads.1, exHistB_reads.2.1, exHistB_reads.2.2⟩

/-! ### non-vacuity of the drain invariant and of the step relation for change detectors

`Proofs/BindH14.lean` … `BindH17.lean`: executable checkers `dinvRB`, `stepLRB` (with a rank table and two labellings as certificates) and their SOUNDNESS proofs;
`Proofs/BindH18.lean`: the checkers evaluated by the kernel on states reached by real runs of the model. -/

/-- the drain invariant holds in the states of `Proofs/BindH3.lean` (reached by histories with a bind): between two pops (`exA`), with a current node while the
change detector is queued (`exD`), and with the change detector itself as current node (`exL`: the lhs var was written, popped and recomputed, and handed the
change detector over) -/
example : DInv bEnv exA none ∧ DInv bEnv exD (some 5) ∧ DInv bEnv exL (some 2) := ⟨exA_dinv, exD_dinv, exL_dinv⟩

/-- a real run of a change detector satisfies `StepL`: in `exL` the change detector (node 2) runs, the closure creates node 5 in scope `.bind 0`, node 4 (the previous
generation) dies, the main node 3 and the new node are queued; the state after the run satisfies the drain invariant again — as `stepL_inv` says it must -/
example : (recomputeOne bEnv 20 2).run.run exL = (.ok none, exL') ∧ (∃ br br', StepL bEnv 2 0 br br' none exL exL') ∧
    exL.nodes.size = 5 ∧ exL'.nodes.size = 6 ∧ (exL'.nodeD 4).valid = false ∧ DInv bEnv exL' none :=
  ⟨exL_run, exL_stepL, by decide +kernel, by decide +kernel, by decide +kernel, exL'_dinv⟩

/-- `stepL_inv` applied to that run -/
example : DInv bEnv exL' none := by
  obtain ⟨br, br', R⟩ := exL_stepL
  exact BindH.stepL_inv exL_dinv (by decide +kernel) R

/-- C03 on that run: before the change detector runs, the node of the dying generation (node 4) has not been recomputed in this round -/
example : (exL.nodeD 4).recomputedAt < exL.stabNum := by
  have h7 : (exL.binds[0]?.map (·.lhsChange)) = some 2 := by decide +kernel
  cases hb : exL.binds[0]? with
  | none => rw [hb] at h7; cases h7
  | some br =>
    rw [hb] at h7
    have e : br.lhsChange = 2 := by simpa using h7
    exact BindH.scope_not_yet_run exL_dinv hb e (by decide +kernel) (by decide +kernel)

/-- the Boolean checker of the ordering invariants is sound -/
theorem orderInvB_sound {s : State} {x : Option Nat} (h : orderInvB s x = true) : OrderInv s x :=
  BindH.orderInvB_sound h

end IncrVerif.Props.C03Order
