import IncrVerif.Proofs.DriverH40
/-!
# C14 with DRIVERS — expert nodes whose dependencies are edited from inside node functions, over whole histories

`Props/C14History.lean` proved C14 (value clause) for expert nodes whose dependencies are added at TOP LEVEL, and — as
pure logic only (`Drv.StepD`, `driver_step_keeps`) — what a driver step would have to satisfy.  Here the missing link:
REAL RUNS of drivers, the drain and `stabilise` with drivers, whole histories.

FRAGMENT.  Fragment X1 of `Props/C14History.lean` (static programs, `sumdeps` expert nodes, top-level `addDep`) for the
environment with the effects erased (`E = EffH.noEff env`), so ANY `map f args` with a user function (`f < fnZip`) may be
created; such a node is a DRIVER when its effect list `env.fnEff f vals` is not empty.  Well-formedness is required when a
`stabilise` starts (`DriverH.DrvOK env s`; `DActionOK`, `RunOKD`: the rule of the history language "an expert node is
mutated only from the function of a node attached as one of its dependencies, and the attachment precedes the
`stabilise`"): every effect of every user `map` node `n`, for every argument list, is
  `xAdd e c cb` / `xRm e i` / `xSel e cb always targets` / `xStale e`
where `e` names an expert node `x` with `Drives s n x` — `n` is a dependency of `x` by a PROTECTED edge: one that no
script removes (its name is not in the record's `script` list, it is not the selected dependency, it is `< nextDep`;
the edge a top-level `addDep x n` creates is protected) — and every target `c` satisfies `PS s c`: an existing node below
which there is NO expert node (so the new edge closes no cycle: the acyclicity side condition `¬ Below s c x` of
`AddDepOK` holds for free, and the target's cone never changes).  Everything else is allowed: several drivers per expert
node and several expert nodes per driver, the same target added several times (duplicates on one child), targets that
are unobserved / never computed / higher than the expert node / the driver's own input / the driver itself, maps and
observers on top of expert nodes and of drivers, unobserving and re-observing, both `cfg.debug` settings.
NOT in the fragment: `xInval`, targets that depend on expert nodes (a driver of one expert node adding ANOTHER expert
node: `finding_2.hist` of the previous round), write effects in the same functions, `cbsum` closures.

DESIGN.  (1) The contract `Drv.StepD` of `Proofs/ExpertH54.lean` is NOT what the model does: its clause `ret` demands
that a handed-over parent is not higher than anything queued; but a driver whose first parent is a one-child `map` hands
that parent over through the recompute-now shortcut (`parent_iter_can_recompute_now`) also when the rewiring has just
queued a LOWER node (transient necessity: a never-computed target enters the heap below the current height) —
`exRet`/`stepsRet` below (kernel-checked; as a `.hist` file `/tmp/drivers/ex/ret.hist`: model = real implementation,
values correct).  CORRECTED CONTRACT: a run of a driver `n` is TWO steps of the virtual static state (`ExpertH.virt`),
  `virt s  —StepW→  Ŝ  —BindH.StepRelB→  virt s'`,
the REWIRING `DriverH.StepW env X n s Ŝ` (the nodes `x` with `X x` get new child lists, children become
necessary/unnecessary — link and unlink cascades, nodes enter and leave the heap, heights are adjusted —, each `x` is
stale afterwards; `n` is unchanged, still current, NOT yet stamped: `Ŝ = unstamp n _ (virt s2)`), followed by an ordinary
static step of `n` in the NEW graph (`BindH.StepRelB`, whose hand-over condition `HandOK` has the shortcut).
(2) Between two effects of a running driver the invariant is `DriverH.Mid E s`: the driver is stamped, so no necessary
stale node is unqueued and the virtual state satisfies the structural invariant AT REST `QR.Struct` (rank form); each
expert API call is proved `Mid → Mid` by opening the edited node (`.linking k`) as `addDep_nec` does.
(3) The drain invariant is `DriverH.DD env s x` = `BindH.DInv (virtEnv E) (virt s) x` (the drain invariant with a CHANGING
graph of `Props/C03Order.lean`: `fresh` over all edges is what tolerates transient necessity) ∧ `AuxD E s` ∧ `DrvOK env s`.

PROVED (for the model; partial correctness: each statement assumes that the call returns `(.ok _, s')`).
* D1 `rewiring_keeps` (`stepW_inv`, pure): `DInv env s (some n)` + `StepW` ⟹ `DInv env s' (some n)`.
* D1 `add_in_driver`, `remove_in_driver`, `make_stale_in_driver` (`AddSpec`, `RmSpec`, `StaleSpec`): `expert_add_dependency`
  (necessary expert: `state_add_parent` — linking cascade, stale nodes enter the heap at ANY height, `adjust_heights`
  when the new child is higher, the expert queued exactly once), `expert_remove_dependency` (index swap of the last edge
  in the children's parent lists, duplicates on one child, `remove_parent`, `check_if_unnecessary` — unlink cascade
  INSIDE the drain: nodes leave the heap —, the expert queued unless it is already, the last edge dropped) and
  `expert_make_stale`, each from `Mid` to `Mid`, with the frame `EF` and the exact new record; on an unnecessary expert
  node only the record changes.
* D1 `effects_in_driver` (`EffectsSpec`): the whole effect list (`xSel`: add the new dependency, then drop the previously
  selected one), from `Mid` to `Mid`; protected edges stay protected; the driver stays necessary.
* D1 `driver_run`: a successful `recomputeOne` of a user `map` node on the current node of the drain invariant IS a
  rewiring step followed by a static step (the decomposition above, explicitly); `driver_run_keeps` (`StepMapSpec`): it
  keeps `DD`.  `other_run_keeps`, `pop_keeps`: the other nodes (expert nodes included) and `remove_min`.
* D2 `drain_keeps`: `drainHeap` keeps `DD`, ends with an empty heap, and NO NODE RUNS TWICE (`drainTrace … Nodup`).
* D2 `stabilise_drivers` (`StabSpec`/`StabilisedD`): from the invariant between actions `QInvX E rk s` and `DrvOK env s`, a
  successful `stabilise` ends in `QInvX E rk' s'` (some rank) and `DrvOK env s'`; EVERY NECESSARY NODE is not stale and
  READS `evalX env s' k n` — from-scratch evaluation in the FINAL graph: an expert node = the sum of the from-scratch
  values of its CURRENT dependencies, as left by the drivers' last runs —; every in-use observer reads it.
  `expert_value_drivers`: the stored value of a necessary expert node is the sum modulo `m` of the current values of its
  current dependencies.
* D3 `no_pending_make_stale`: after a `stabilise` no necessary expert node has its `forceStale` flag up.
  `make_stale_forces'`: a raised flag survives every step of the drain except the recompute of its own node (frame `FS`),
  so from any state between two pops with the flag of `x` up, if `x` is needed at the end then `x` runs in the rest of
  the drain — exactly once (no node runs twice).  `make_stale_next_stabilise'`: a flag that is up when a `stabilise`
  starts (raised while the node was unneeded) on a node needed at its end: the node is run exactly once by the drain of
  THAT `stabilise`.  On an unneeded node the flag simply stays up.
* D2 `history_inv`, `history_every_stabilise`: whole histories from `State.init`.
* Non-vacuity (kernel evaluation): `exSel` (a driver that `xsel`s between two targets), `exAddRm` (a driver that `xadd`s
  twice and `xrm`s the oldest scripted dependency in every run): both are histories of the fragment (`runOKDB`), run,
  read 3, 6, 0, 6 resp. 4, 1, 0 (as the real implementation does: `/tmp/drivers/ex/sel.hist`, `addrm.hist`), and the
  dependency lists change as described; the check rejects the history in which the driver is not attached.

VALIDATION.  `BindH.DInv (virtEnv E) (virt s) x` was first CHECKED (executable checker `BindH.dinvReport`) at all 521 962
drain states of 6400 random histories of the fragment (62 141 driver runs, 75 062 `xadd`, 54 897 `xrm`, 26 597 `xsel`,
16 543 `xstale`, 22 490 driver runs with a link cascade, 14 546 with an unlink cascade, 23 040 with `adjust_heights`):
no violation, no node run twice, no panic, model = real implementation (`/tmp/drivers/hunt`).  No finding.

ASSUMED / NOT PROVED.  Partial correctness throughout (no "never panics" theorem; in debug builds
`assert_currently_running_node_is_child` is implied by `Drives`, but that is not stated).  `xInval` and per-key
operators (C16, D4: their drivers CREATE and INVALIDATE nodes inside the drain — outside "all nodes valid, no creation
in the drain") are not covered.  The callback clause of C14 is false as literally stated (see `Props/C14History.lean`).
-/
namespace IncrVerif.Props.C14Drivers
open IncrVerif.Engine IncrVerif.Driver IncrVerif.Proofs IncrVerif.Proofs.Step IncrVerif.Proofs.Sched
open IncrVerif.Proofs.ExpertH IncrVerif.Proofs.ExpertH.QR IncrVerif.Proofs.EffH IncrVerif.Proofs.DriverH
open IncrVerif.Props.C14History (readAfter)

/-! ## D1: the pure contract -/

/-- **a rewiring step keeps the drain invariant** (the current node stays current) -/
theorem rewiring_keeps {env : Env} {X : Nat → Prop} {n : Nat} {s s' : State}
    (I : BindH.DInv env s (some n)) (R : StepW env X n s s') : BindH.DInv env s' (some n) := stepW_inv I R

/-- a rewiring step followed by a static step of the driver keeps the drain invariant (the corrected `driver_step_keeps`) -/
theorem driver_step_keeps' {env : Env} {X : Nat → Prop} {n : Nat} {v : Val} {ch : Bool} {r : Option Nat}
    {s ŝ s' : State} (I : BindH.DInv env s (some n)) (W : StepW env X n s ŝ)
    (ht : BindH.TargetB env ŝ n v) (R : BindH.StepRelB n v ch r ŝ s') : BindH.DInv env s' r :=
  BindH.stepB_inv (stepW_inv I W) ht R

/-! ## D1: the three expert API calls between two effects -/

theorem add_in_driver (E : Env) : AddSpec E := addSpec E
theorem remove_in_driver (E : Env) : RmSpec E := rmSpec E
theorem make_stale_in_driver (E : Env) : StaleSpec E := staleSpec E

/-- **the effect list of a driver**, from `Mid` to `Mid` -/
theorem effects_in_driver (env : Env) : EffectsSpec env := effects_spec env

/-! ## D1: real runs -/

/-- **one `recomputeOne` of a user `map` node (a driver) keeps the drain invariant with drivers** -/
theorem driver_run_keeps (env : Env) : StepMapSpec env := stepMap_spec env

/-- **A REAL RUN OF A DRIVER IS A REWIRING STEP FOLLOWED BY A STATIC STEP.**  `s2`: the state after the effect list;
`Ŝ = unstamp n _ (virt s2)`: its virtual state with the stamp of `n` put back. -/
theorem driver_run {env : Env} {fuel n f : Nat} {args : List Nat} {s s' : State} {r : Option Nat}
    (D : DD env s (some n)) (hk : (s.nodeD n).kind = .map f args) (hf : f < fnZip)
    (h : (recomputeOne env fuel n).run.run s = (.ok r, s')) :
    ∃ (vals : List Val) (s2 : State) (ch : Bool),
      (runEffects env fuel (env.fnEff f vals) ((vals.headD .unit).toInt)).run.run (started n s) = (.ok (), s2) ∧
      Mid (noEff env) (started n s) ∧ Mid (noEff env) s2 ∧
      StepW (virtEnv (noEff env)) (Rewired s s2) n (virt s) (unstamp n (s.nodeD n).recomputedAt (virt s2)) ∧
      BindH.TargetB (virtEnv (noEff env)) (unstamp n (s.nodeD n).recomputedAt (virt s2)) n (env.fn f vals) ∧
      BindH.StepRelB n (env.fn f vals) ch r (unstamp n (s.nodeD n).recomputedAt (virt s2)) (virt s') := by
  have I := D.inv
  have A := D.aux
  obtain ⟨hnecV, hltV, -, -, -⟩ := I.cur_facts
  have hlt : n < s.nodes.size := by rw [← virt_size]; exact hltV
  have hnec : s.isNecessary n = true := by rw [← virt_isNecessary]; exact hnecV
  have frs : Fr s := A.frag.fr A.pinv
  have hne := map_not_expert hk
  obtain ⟨vals, s2, hvals, hX, hrun⟩ := run_split A.frag hlt hk hf h
  have M1 : Mid (noEff env) (started n s) := midOfDInv _ n s I A hne
  have hOK : ∀ eff, eff ∈ env.fnEff f vals → EffOK (started n s) n eff := fun eff he =>
    (D.drv n f args hlt hk hf vals eff he).to_started
  obtain ⟨M2, ef, -, hn2⟩ := effects_in_driver env fuel n _ _ (started n s) s2 M1 hOK hX
  have hnec2 : s2.isNecessary n = true := hn2 (by rw [started_isNecessary]; exact hnec)
  obtain ⟨W, -⟩ := stepWOfMid _ n (DOf (started n s) n) s s2 I A hne M2 ef
    (fun e x hD hkx => driver_child A.frag hD hkx) hnec2
  obtain ⟨ch, R, ht, -⟩ := static_step frs hlt hk hvals M2 ef (stepW_inv I W) hrun
  exact ⟨vals, s2, ch, hX, M1, M2, W, ht, R⟩

/-- one `recomputeOne` of any other node of the fragment (`const`, `var`, built-in `map`, `fold`, expert node) -/
theorem other_run_keeps (env : Env) : StepOtherSpec env := stepOtherSpec env

/-- **one `recomputeOne` of the drain** -/
theorem step_keeps (env : Env) : StepSpec env := step_spec env

theorem pop_keeps (env : Env) : PopSpec env := popSpec env

/-! ## D2: the drain, `stabilise`, histories -/

/-- **the drain with drivers**: the invariant is kept, the heap is empty at the end, no node runs twice -/
theorem drain_keeps (env : Env) : DrainSpec env := drain_spec env

/-- every node the drain runs had not been recomputed in this round before, and carries the stamp of the round at the
end (stamps read in the virtual state: a pending `make_stale`/edit counts as "never computed") -/
theorem drain_once' (env : Env) (fuel : Nat) (s s' : State) (D : DD env s none)
    (h : (drainHeap env fuel).run.run s = (.ok (), s')) : ∀ m, m ∈ drainTrace env fuel s → RanV s s' m :=
  drain_once env (step_keeps env) (pop_keeps env) fuel s s' D h

/-- **`stabilise` with drivers** -/
theorem stabilise_drivers (env : Env) : StabSpec env := stab_spec env

/-- **C14, the value clause, with drivers**: after a `stabilise` a necessary expert node stores the sum modulo
`m = er.f / 10` of the current values of its CURRENT dependencies (as the drivers left them) -/
theorem expert_value_drivers {env : Env} {rk : Nat → Nat} {fuel : Nat} {s s' : State}
    (Q : QInvX (noEff env) rk s) (K : DrvOK env s) (h : (stabilise env fuel).run.run s = (.ok (), s'))
    {n e : Nat} {er : ExpertRec} (hn : s'.isNecessary n = true) (hk : (s'.nodeD n).kind = .expert e)
    (hx : s'.experts[e]? = some er) :
    ∃ vals : List Val, er.children.map (fun ed => s'.value env ed.child) = vals.map some ∧
      s'.value env n = some (.int (emod ((vals.map Val.toInt).foldl (· + ·) 0) ((er.f / 10 : Nat) : Int))) :=
  expert_value_d (stabilise_drivers env rk fuel s s' Q K h) hn hk hx

/-- **D3 (partly): no pending `make_stale`.**  After a `stabilise` no necessary expert node has its `forceStale` flag up:
every `make_stale` (and every edit) of a node that is needed was followed by a recompute of that node in the same
`stabilise` — by exactly one, since no node runs twice. -/
theorem no_pending_make_stale {env : Env} {rk : Nat → Nat} {fuel : Nat} {s s' : State}
    (Q : QInvX (noEff env) rk s) (K : DrvOK env s) (h : (stabilise env fuel).run.run s = (.ok (), s'))
    {n e : Nat} {er : ExpertRec} (hn : s'.isNecessary n = true) (hk : (s'.nodeD n).kind = .expert e)
    (hx : s'.experts[e]? = some er) : er.forceStale = false := by
  have R := stabilise_drivers env rk fuel s s' Q K h
  obtain ⟨rk', Q'⟩ := R.inv
  have hst := (R.values n hn _ (Nat.lt_succ_self _)).1
  have hlt : n < s'.nodes.size := Q'.frag.lt_of_expert hk
  have hX : Xp.IsExpert s' n (s'.nodeD n) e er := ⟨some_of_lt hlt, Q'.frag.valid n hlt, hk, hx⟩
  cases hf : er.forceStale with
  | false => rfl
  | true => rw [hX.isStale_of_forceStale hf] at hst; cases hst

/-- **D3: a raised `make_stale` flag forces a recompute.**  From ANY state between two pops of a drain in which the flag
`forceStale` of the expert node `x` is up (raised by `xStale`, or by an edit `xAdd`/`xRm`/`xSel`, in this or an earlier
round): if `x` is needed at the end of the drain, `x` is among the nodes the remaining drain runs — once, since
`drainTrace` has no duplicates (`drain_keeps`). -/
theorem make_stale_forces' (env : Env) (fuel : Nat) (s s' : State) (D : DD env s none)
    (h : (drainHeap env fuel).run.run s = (.ok (), s')) (x e : Nat) (er : ExpertRec)
    (hk : (s.nodeD x).kind = .expert e) (hx : s.experts[e]? = some er) (hf : er.forceStale = true)
    (hn : s'.isNecessary x = true) : x ∈ drainTrace env fuel s ∧ (drainTrace env fuel s).Nodup :=
  ⟨make_stale_forces env fuel s s' D h x e er hk hx hf hn, (drain_keeps env fuel s s' D h).2.2.2⟩

/-- **D3 for a whole `stabilise`: `make_stale` forces exactly one recompute at the next `stabilise` in which the node is
needed.**  If the flag of the expert node `x` is up when a `stabilise` starts (it was raised while `x` was not needed:
`no_pending_make_stale`) and `x` is needed when it ends, then `x` is run by the drain of THIS `stabilise`, exactly once. -/
theorem make_stale_next_stabilise' {env : Env} {rk : Nat → Nat} {fuel : Nat} {s s' : State}
    (Q : QInvX (noEff env) rk s) (K : DrvOK env s) (h : (stabilise env fuel).run.run s = (.ok (), s'))
    {x e : Nat} {er : ExpertRec} (hk : (s.nodeD x).kind = .expert e) (hx : s.experts[e]? = some er)
    (hf : er.forceStale = true) (hn : s'.isNecessary x = true) :
    ∃ t1 t2 t3, (addNewObservers env fuel).run.run { s with status := .stabilising } = (.ok (), t1) ∧
      (unlinkDisallowedObservers fuel).run.run t1 = (.ok (), t2) ∧
      (drainHeap env fuel).run.run t2 = (.ok (), t3) ∧ (stabiliseEnd env fuel).run.run t3 = (.ok (), s') ∧
      x ∈ drainTrace env fuel t2 ∧ (drainTrace env fuel t2).Nodup :=
  make_stale_next_stabilise_phases Q K h hk hx hf hn

/-- every action of the fragment keeps the invariant between actions (`stabilise`: when the drivers are well-formed) -/
theorem action_keeps {env : Env} {rk : Nat → Nat} {s s' : State} {a : Action} {tk : Array Nat}
    {r : String × Array Nat} (Q : QInvX (noEff env) rk s) (ha : DActionOK env s a)
    (h : (stepAction env a tk).run.run s = (.ok r, s')) : ∃ rk', QInvX (noEff env) rk' s' :=
  step_d (stabilise_drivers env) Q ha h

theorem history_inv {env : Env} {N : Nat} {d : Bool} {acts : List Action} {s : State} {tk : Array Nat}
    (ha : RunOKD env acts (State.init N d) #[])
    (h : runActions env acts (State.init N d) #[] = .ok (s, tk)) : ∃ rk, QInvX (noEff env) rk s :=
  history_d (stabilise_drivers env) ha h

/-- **C14 (value clause) for whole histories WITH DRIVERS.**  At every `stabilise` of a history of the fragment that
runs from the initial state: the state before satisfies the invariant and its drivers are well-formed; the `stabilise`
returns with all conclusions of `StabilisedD`: invariant again, every necessary node non-stale and reading the
from-scratch value of the FINAL graph, every in-use observer reads `evalX` of its node (`reads`), every observer is in
use or unlinked, the drain ran no node twice. -/
theorem history_every_stabilise {env : Env} {N : Nat} {d : Bool} {as bs : List Action} {s : State} {tk : Array Nat}
    (ha : RunOKD env (as ++ Action.stabilise :: bs) (State.init N d) #[])
    (h : runActions env (as ++ Action.stabilise :: bs) (State.init N d) #[] = .ok (s, tk)) :
    ∃ s1 tk1 s2 rk1, runActions env as (State.init N d) #[] = .ok (s1, tk1) ∧ QInvX (noEff env) rk1 s1 ∧
      DrvOK env s1 ∧ (stabilise env fuelDefault).run.run s1 = (.ok (), s2) ∧ StabilisedD env fuelDefault s1 s2 ∧
      runActions env bs s2 tk1 = .ok (s, tk) :=
  history_stabilise_d (stabilise_drivers env) ha h

/-- a decidable sufficient check of `RunOKD` (it runs the history on the model; `effOf`: the effect list of each function) -/
theorem runOKD_of_check' {env : Env} {effOf : Nat → List Effect} (heff : ∀ f vals, env.fnEff f vals = effOf f)
    {mapOK xOK : Nat → Bool} (hm : ∀ f, mapOK f = true → f < fnPerKey)
    (hx : ∀ f, xOK f = true → XEnvOK env f ∧ f < xBase) {acts : List Action} {s : State} {tk : Array Nat}
    (h : runOKDB env effOf mapOK xOK acts s tk = true) : RunOKD env acts s tk :=
  runOKDB_sound heff hm hx acts s tk h

/-! ## non-vacuity -/

/-- the two example histories are histories of the fragment, run, and end in states satisfying the invariant -/
theorem examples_ok :
    RunOKD exEnvD exSel (State.init 128 true) #[] ∧ RunOKD exEnvD exAddRm (State.init 128 true) #[] ∧
    (∃ s tk rk, runActions exEnvD exSel (State.init 128 true) #[] = .ok (s, tk) ∧ QInvX (noEff exEnvD) rk s) ∧
    (∃ s tk rk, runActions exEnvD exAddRm (State.init 128 true) #[] = .ok (s, tk) ∧ QInvX (noEff exEnvD) rk s) :=
  ⟨exSel_ok, exAddRm_ok, exSel_inv (stabilise_drivers exEnvD), exAddRm_inv (stabilise_drivers exEnvD)⟩

/-- the reads of the in-use observer and the dependency lists `(dependency, child)` of the expert record after each
`stabilise`: `exSel` (driver `n5 = map f10 [n0]` selects `n1` or `n2` by the parity of its input; the previously selected
dependency is dropped): reads 3, 6, 0, 6; `exAddRm` (driver `n4` adds `n2` twice and removes the oldest scripted
dependency in every run — `swap_remove` visible in the last list): reads 4, 1, 0 -/
theorem examples_reads :
    (readAfter exEnvD (exSel.take 9) 0 = some (.int 3) ∧ readAfter exEnvD (exSel.take 11) 0 = some (.int 6) ∧
      readAfter exEnvD (exSel.take 13) 0 = some (.int 0) ∧ readAfter exEnvD exSel 0 = some (.int 6)) ∧
    (depsAfter exEnvD (exSel.take 8) 0 = [(0, 5)] ∧ depsAfter exEnvD (exSel.take 9) 0 = [(0, 5), (1, 1)] ∧
      depsAfter exEnvD (exSel.take 11) 0 = [(0, 5), (2, 2)] ∧ depsAfter exEnvD (exSel.take 13) 0 = [(0, 5), (2, 2)] ∧
      depsAfter exEnvD exSel 0 = [(0, 5), (3, 1)]) ∧
    (readAfter exEnvD (exAddRm.take 8) 0 = some (.int 4) ∧ readAfter exEnvD (exAddRm.take 10) 0 = some (.int 1) ∧
      readAfter exEnvD exAddRm 0 = some (.int 0)) ∧
    (depsAfter exEnvD (exAddRm.take 7) 0 = [(0, 4)] ∧ depsAfter exEnvD (exAddRm.take 8) 0 = [(0, 4), (2, 2)] ∧
      depsAfter exEnvD (exAddRm.take 10) 0 = [(0, 4), (4, 2), (3, 2)] ∧
      depsAfter exEnvD exAddRm 0 = [(0, 4), (4, 2), (6, 2), (5, 2)]) :=
  ⟨exSel_reads, exSel_deps, exAddRm_reads, exAddRm_deps⟩

/-! ### why `Drv.StepD` had to be corrected: a hand-over above a queued node -/

/-- as `exSel`, with a one-child `map` `n6` on top of the driver `n5`, observed (and linked) BEFORE the expert node `n4`
becomes necessary: `n6` is the driver's FIRST parent -/
def exRet : List Action :=
  [.create (.var (.int 0)), .create (.var (.int 3)), .create (.var (.int 5)), .create (.map 1 [.outer 2]),
   .create (.expert 70), .create (.map 10 [.outer 0]), .addDep (.outer 4) (.outer 5) false,
   .create (.map 1 [.outer 5]), .observe (.outer 6), .stabilise, .observe (.outer 4), .stabilise,
   .set 0 (.int 1)]

/-- the state in which the drain of the next `stabilise` starts -/
def drainStart (env : Env) (acts : List Action) : Option State :=
  match runActions env acts (State.init 128 true) #[] with
  | .ok (s, _) =>
    match (do modify (fun s => { s with status := .stabilising }); addNewObservers env 1000
              unlinkDisallowedObservers 1000 : M Unit).run.run s with
    | (.ok _, t) => some t
    | _ => none
  | .error _ => none

/-- the first pop of that drain, the run of the popped node and the run of the node it hands over: (popped node,
what its run returns, what the next run returns, is `n2` queued afterwards?, height of `n2`, height of `n6`) -/
def stepsRet : Option (Option Nat × Option Nat × Option Nat × Bool × Int × Int) :=
  match drainStart exEnvD exRet with
  | none => none
  | some t2 =>
    match rchRemoveMin.run.run t2 with
    | (.ok (some a), t3) =>
      match (recomputeOne exEnvD 1000 a).run.run t3 with
      | (.ok (some b), t4) =>
        match (recomputeOne exEnvD 1000 b).run.run t4 with
        | (.ok r2, t5) => some (some a, some b, r2, (t5.nodeD 2).inRch, (t5.nodeD 2).height, (t5.nodeD 6).height)
        | _ => none
      | _ => none
    | _ => none

set_option maxRecDepth 100000 in
/-- the var `n0` is popped and hands the driver `n5` over; the driver's run selects the never-computed target `n2`,
which enters the heap at height 1 (transient necessity), and RETURNS ITS FIRST PARENT `n6` (height 3) for direct
recomputation through the recompute-now shortcut — above a queued node: the clause `ret` of `Drv.StepD` fails for this
run, the pair `StepW` + `StepRelB` (`HandOK`) describes it -/
example : stepsRet = some (some 0, some 5, some 6, true, 1, 3) := by decide +kernel

end IncrVerif.Props.C14Drivers
