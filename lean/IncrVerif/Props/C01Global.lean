import IncrVerif.Proofs.Sched6
import IncrVerif.Proofs.SchedEx
import IncrVerif.Proofs.Sched9
import IncrVerif.Proofs.SchedW
import IncrVerif.Proofs.SchedEx2
import IncrVerif.Proofs.Sched13
import IncrVerif.Proofs.SchedEx3
/-!
# C01/C02/C06 global, static fragment — glitch-free propagation on a static graph

MILESTONES 1–4: L1, L2, L3, "at most once", L4 (the connection to `stabilise` and `writeVar`), and
TOTAL CORRECTNESS of the drain and of `stabilise` (no assertion fails; with enough fuel they return).

FRAGMENT.  States in which every NECESSARY node is valid and of kind `const`, `var`, `map f args`
(`f < fnPerKey`, i.e. a user function or one of the built-ins `fnZip`/`fnFirst`/`fnIdent`; a user function
`f < fnZip` must have no side effects: `∀ vals, env.fnEff f vals = []`) or `fold`; cutoff `.eq` or `.never`
on every necessary node; no fault armed (`panicCountdown = none`).  This is `Sched.Graph env s`, which
also contains the structural well-formedness the argument needs, as explicit hypotheses (fields):
edge symmetry between child lists and `parents` entries (with indices), children of necessary nodes are
necessary and strictly lower, necessary nodes have height `≥ 0`, `var` nodes point at existing cells.
Both `cfg.debug = true` and `cfg.debug = false` are covered (nothing is assumed about `cfg`).

DEFINITIONS (all in `Proofs/Sched1.lean`).
* `Sched.eval env s k n`: from-scratch evaluation of node `n` with fuel `k`: `const v ↦ v`, `var c ↦` the
  cell's current value, `map f args ↦ env.fn f` of the evaluations of `args`, `fold f init cs ↦` left fold of
  `env.foldStep f` from `init`.
* `Sched.Inv env s x` (`x : Option Nat` = the node taken out of the heap / handed over by the direct
  recompute chain, about to run) with fields
  `graph : Graph env s`; `heap : HeapInv s` (`HeapWF`, queued node sits in the bucket of its height, the
  heap's lower bound is `≥ 0` and below every queued node, queued nodes are necessary); `stamps` (no stamp above the
  round number `stabNum`, which is `≥ 0`);
  `pending` (b): necessary ∧ stale ⟹ queued (or `= x`);
  `cons` (c): necessary ∧ not stale ⟹ `Consistent`: the stored value is the node's defining expression
  applied to the CURRENT stored values of its children / the current value of its cell;
  `fresh` (d): for every pending node `d` (queued or `= x`) and every reflexive-transitive parent `a` of
  `d` (`Anc s a d`): `recomputedAt a < stabNum` — nothing at or above a pending node has run in this
  round; in particular a queued node has not run yet;
  `cur`: `x` is necessary and neither `x` nor anything below it is queued.
* `Sched.DrainInv env s := Inv env s none`: the state between two pops of `drainHeap`.
* `Sched.Frame s s'`: node count, `vars`, `stabNum` and the shape of every node (kind, validity, cutoff,
  height, parents, observers, forceNecessary) are equal in `s` and `s'`; a node with
  `recomputedAt = stabNum` keeps that stamp.
* `Sched.drainTrace env fuel s`: the list of nodes on which `drainHeap env fuel`, started in `s`, invokes
  `recomputeOne` (pops and direct-recompute chains), in order.

PROVED HERE (for the model, every state of the fragment, every `env` of the fragment, no bounds).
* `drained_values` (L1): `DrainInv env s`, empty heap ⟹ every necessary node is valid, not stale, and both
  its stored value and what an observer reads (`State.value`) equal `eval env s k n` for every fuel `k`
  above the node's height; that value exists.
* `pop_inv`, `recomputeOne_inv`, `recompute_inv`, `pop_recompute_inv` (L2): one `remove_min` turns
  `DrainInv` into `Inv … (some n)`; a successful `recomputeOne` on the current node re-establishes `Inv`
  with the handed-over parent (or none) as current node — this covers the direct-recompute chain, where
  a node above queued nodes runs; hence a successful pop + `recompute` re-establishes `DrainInv`.
  The current node always has `recomputedAt < stabNum` (`current_not_yet`).
* `drainHeap_inv` (L3): a successful `drainHeap` from `DrainInv` ends in `DrainInv` with an empty heap and
  `Frame s s'` (in particular `s'.vars = s.vars`);
  `drainHeap_values` (L3 + L1): then every necessary node carries `eval env s k n` — its defining
  expression evaluated from scratch in the graph and on the variable values of the state before the
  drain: no glitch, no stale value survives.
* `drain_once`: the nodes run by such a `drainHeap` are pairwise distinct (no node runs twice in one
  round); each is necessary, had `recomputedAt < stabNum` before and has `recomputedAt = stabNum` after.
* Non-vacuity: `exD_drainInv` (a concrete three-node state — a var written in this round and queued;
  `map f0 [v]`, which the engine recomputes through the direct chain; `map f0 [v, m]`, observed — satisfies
  `DrainInv`), its drain returns, runs the nodes `[0, 1, 2]`, and ends with the from-scratch value.

L4 (`Proofs/Sched7.lean` … `Sched9.lean`, `SchedW.lean`).
* `Sched.QuietInv env s`: the invariant BETWEEN stabilisations: `Graph`, `HeapInv`, every `recomputedAt`/
  `changedAt` stamp is from an earlier round (`< stabNum`), `setAt ≤ stabNum`; the heap holds EXACTLY the
  necessary stale nodes; necessary non-stale nodes are `Consistent`; a necessary `var c` node is the watch
  node of cell `c` and vice versa; `status = notStabilising`.
* `Sched.Idle s`: nothing but the heap waits for the next `stabilise`: `newObservers`,
  `disallowedObservers`, `setDuringStab`, `deadVars`, `handleAfterStab` are empty and no node has update
  handlers.
* `stabilise_quiet`: from `QuietInv` and `Idle`, a successful `stabilise env fuel` is exactly: set the
  status (the resulting state satisfies `DrainInv`), run `drainHeap` (which returns, with `DrainInv` and an
  empty heap), then `stabiliseEnd`, which only bumps the round number and resets the status
  (`Sched.Finished`).  Afterwards `QuietInv` and `Idle` hold again, variables and graph are unchanged, the
  round number went up by one, no necessary node is stale, and every necessary node carries — also as
  seen by observers — `eval env s k n`.
* `writeVar_quiet`: a successful `writeVar` outside `stabilise` keeps `QuietInv` and `Idle`; the cell
  gets the new value and `setAt = stabNum`; other cells and the graph are unchanged.
* `round_values`: write, then stabilise: every necessary node reads the from-scratch value of its
  defining expression on the UPDATED variable values.
* Non-vacuity: `exQ_quietInv`, `exQ_idle` (the example graph at rest); the write and the following
  `stabilise` return and the observed node reads the new from-scratch value.

TOTAL CORRECTNESS (`Proofs/Sched10.lean` … `Sched13.lean`).
* `Sched.Safe s`: every necessary node's height is `≤ rch.maxAllowed` and every necessary node was created
  at top level (`createdIn = .top`, so `scope.height()` cannot fail).
* `drainHeap_safe` (also `recomputeOne_safe`, `recompute_safe`): from `DrainInv` and `Safe`, a run of
  `drainHeap` that ends in a panic ran out of fuel: no `assert!`, no `debug_assert!` (with `cfg.debug = true`
  they are all checked: `needs_to_be_computed` of notified parents, `!in_rch`, `lower_bound ≥ 0`, heights
  within the heap, …), no `unwrap`, no model lookup fails.  `recomputeOne` runs out of fuel only for `fuel = 0`.
* `drainHeap_total`: with `fuel ≥ s.nodes.size + 2` the drain RETURNS, and the conclusions of L3 + L1 hold
  (`Sched.unrun s`, the number of nodes not yet stamped in this round, is the termination measure).
* `stabilise_total`: on an idle quiescent engine (`QuietInv`, `Idle`, `Safe`) `stabilise env fuel` returns for
  `fuel ≥ s.nodes.size + 2`, and then `stabilise_quiet` applies.
* Non-vacuity: `exD_safe`, `exQ_safe`.

ASSUMED, NOT PROVED.  The partial-correctness theorems (L2, L3, `stabilise_quiet`, `writeVar_quiet`)
assume that the call returns (`= (.ok _, s')`); the total-correctness theorems remove that assumption
for `drainHeap`/`stabilise` under `Safe` and a fuel bound; for `writeVar` it is NOT shown that the call
returns (it panics e.g. on a var whose watch node was abandoned).  L4 covers only an `Idle` engine: no
new or disallowed observers pending (so: no graph/necessity change by `stabilise`), no writes deferred
from inside a stabilisation, no dropped vars, no update handlers.  That `QuietInv` holds for states built
through the node-creation API (and is kept by observer creation/removal) is NOT proved: `QuietInv`/
`DrainInv` contain edge symmetry, height monotonicity and the watch-node correspondence as explicit
hypotheses.  Nothing is claimed outside the fragment (bind, map_ref, map_with_old, expert nodes,
user/`always`/`dependOn` cutoffs, functions with effects, faults, graph changes during the drain).
-/
namespace IncrVerif.Props.C01Global
open IncrVerif.Engine IncrVerif.Proofs IncrVerif.Proofs.Sched

/-! ## L1 -/

/-- **L1.** With the drain invariant and an empty recompute heap, every necessary node `n` is valid, is
not stale, and carries — in its `value` field and as seen by observers — the from-scratch evaluation of
its defining expression on the current variable values, for any fuel `k` above its height. -/
theorem drained_values {env : Env} {s : State} (h : DrainInv env s) (he : s.rch.length = 0)
    (n : Nat) (hn : s.isNecessary n = true) (k : Nat) (hk : (s.nodeD n).height.toNat < k) :
    (s.nodeD n).valid = true ∧ s.isStale n = false ∧
      (s.nodeD n).value = eval env s k n ∧ s.value env n = eval env s k n ∧
      (eval env s k n).isSome = true :=
  Sched.drained_values h he n hn k hk

/-- non-vacuity of the invariant: the example state satisfies it (its heap is not empty) -/
example : DrainInv Step.exEnv exD ∧ exD.rch.length = 1 := ⟨exD_drainInv, rfl⟩

/-! ## L2 -/

/-- **L2, pop.** `remove_min` returning `n` from a state with the drain invariant: `n` becomes the
current node of the invariant; nothing but the heap changes. -/
theorem pop_inv {env : Env} {s s1 : State} {n : Nat} (I : DrainInv env s)
    (hr : rchRemoveMin.run.run s = (.ok (some n), s1)) : Inv env s1 (some n) ∧ Frame s s1 :=
  Sched.pop_inv I hr

/-- the current node has not been recomputed in this round -/
theorem current_not_yet {env : Env} {s : State} {n : Nat} (I : Inv env s (some n)) :
    (s.nodeD n).recomputedAt < s.stabNum := I.cur_not_yet

/-- **L2, one `recomputeOne`.** On the current node `n` of the invariant a successful `recomputeOne`
re-establishes the invariant, with the parent handed over for direct recomputation (if any) as the new
current node; `n` is now stamped. -/
theorem recomputeOne_inv {env : Env} {fuel n : Nat} {s s' : State} {r : Option Nat}
    (I : Inv env s (some n)) (h : (recomputeOne env fuel n).run.run s = (.ok r, s')) :
    Inv env s' r ∧ Frame s s' ∧ (s'.nodeD n).recomputedAt = s.stabNum :=
  Sched.recomputeOne_inv I h

/-- **L2, the direct-recompute chain.** -/
theorem recompute_inv {env : Env} (fuel n : Nat) (s s' : State) (I : Inv env s (some n))
    (h : (recompute env fuel n).run.run s = (.ok (), s')) : DrainInv env s' ∧ Frame s s' :=
  Sched.recompute_inv fuel n s s' I h

/-- **L2, one pop of `drainHeap`.** -/
theorem pop_recompute_inv {env : Env} {fuel n : Nat} {s s1 s' : State} (I : DrainInv env s)
    (hpop : rchRemoveMin.run.run s = (.ok (some n), s1))
    (hrec : (recompute env fuel n).run.run s1 = (.ok (), s')) : DrainInv env s' ∧ Frame s s' :=
  Sched.pop_recompute_inv I hpop hrec

/-- which node a `remove_min` run returned (a decidable test for the example below) -/
def poppedNode (x : Except Panic (Option Nat) × State) : Option Nat :=
  match x.1 with
  | .ok (some n) => some n
  | _ => none

theorem poppedNode_some {x : Except Panic (Option Nat) × State} {n : Nat} (h : poppedNode x = some n) :
    x = (.ok (some n), x.2) := by
  rcases x with ⟨_ | _ | m, s1⟩ <;> simp [poppedNode] at h
  subst h; rfl

/-- non-vacuity of L2: in the example the pop returns node 0 and its `recompute` returns -/
example : ∃ s1, rchRemoveMin.run.run exD = (.ok (some 0), s1) ∧
    ∃ s', (recompute Step.exEnv 9 0).run.run s1 = (.ok (), s') := by
  refine ⟨(rchRemoveMin.run.run exD).2, poppedNode_some (by decide +kernel), ?_⟩
  have h : Step.returned ((recompute Step.exEnv 9 0).run.run (rchRemoveMin.run.run exD).2) = true := by
    decide +kernel
  obtain ⟨r, s', e⟩ := (Step.returned_iff _).1 h
  exact ⟨s', e⟩

/-! ## L3 -/

/-- **L3.** A successful `drainHeap` from a state with the drain invariant ends with the drain invariant
and an empty heap; variables, round number and the graph are untouched. -/
theorem drainHeap_inv {env : Env} (fuel : Nat) (s s' : State) (I : DrainInv env s)
    (h : (drainHeap env fuel).run.run s = (.ok (), s')) :
    DrainInv env s' ∧ s'.rch.length = 0 ∧ Frame s s' :=
  Sched.drainHeap_inv fuel s s' I h

/-- **L3 + L1: glitch-free propagation.** After a successful `drainHeap` from a state with the drain
invariant, every necessary node is (still) necessary and valid, is not stale, and carries — in its
`value` field and as seen by observers — its defining expression evaluated from scratch in the graph
and on the variable values of the initial state (which are those of the final state). -/
theorem drainHeap_values {env : Env} {fuel : Nat} {s s' : State} (I : DrainInv env s)
    (h : (drainHeap env fuel).run.run s = (.ok (), s')) (n : Nat) (hn : s.isNecessary n = true)
    (k : Nat) (hk : (s.nodeD n).height.toNat < k) :
    s'.vars = s.vars ∧ s'.isNecessary n = true ∧ (s'.nodeD n).valid = true ∧ s'.isStale n = false ∧
      (s'.nodeD n).value = eval env s k n ∧ s'.value env n = eval env s k n ∧
      (eval env s k n).isSome = true :=
  Sched.drainHeap_values I h n hn k hk

/-- **No node runs twice in one round.** The nodes on which a successful `drainHeap` invokes
`recomputeOne` are pairwise distinct; each is necessary, had `recomputedAt < stabNum` before the drain
and has `recomputedAt = stabNum` after it. -/
theorem drain_once {env : Env} (fuel : Nat) (s s' : State) (I : DrainInv env s)
    (h : (drainHeap env fuel).run.run s = (.ok (), s')) :
    (drainTrace env fuel s).Nodup ∧ ∀ m, m ∈ drainTrace env fuel s →
      s.isNecessary m = true ∧ (s.nodeD m).recomputedAt < s.stabNum ∧
        (s'.nodeD m).recomputedAt = s.stabNum :=
  Sched.drain_once fuel s s' I h

/-- non-vacuity of L3: the drain of the example returns; it runs node 0 (popped), node 1 (direct
chain) and node 2 (popped); the observed node 2 ends with `4 + 4 = 8`, which is its from-scratch value -/
example : (∃ s', (drainHeap Step.exEnv 10).run.run exD = (.ok (), s')) ∧
    drainTrace Step.exEnv 10 exD = [0, 1, 2] ∧
    (((drainHeap Step.exEnv 10).run.run exD).2.nodeD 2).value = some (.int 8) ∧
    eval Step.exEnv exD 3 2 = some (.int 8) :=
  ⟨exD_drains, by decide +kernel, by decide +kernel, by decide +kernel⟩

/-! ## L4 -/

/-- **L4, entering `stabilise`.** The quiescent invariant is the drain invariant of the state in which
`drainHeap` starts. -/
theorem quiet_toDrain {env : Env} {s : State} (Q : QuietInv env s) :
    DrainInv env { s with status := .stabilising } := Q.toDrain

/-- **L4, `stabilise`.** From the quiescent invariant with nothing deferred, a successful `stabilise` is
a `drainHeap` from a state satisfying the drain invariant followed by the bump of the round number;
afterwards the quiescent invariant holds again, still nothing is deferred, variables and graph are
unchanged, and every necessary node is not stale and carries (also as seen by observers) the
from-scratch value of its defining expression. -/
theorem stabilise_quiet {env : Env} {fuel : Nat} {s s' : State} (Q : QuietInv env s) (I : Idle s)
    (h : (stabilise env fuel).run.run s = (.ok (), s')) :
    (∃ s2, DrainInv env { s with status := .stabilising } ∧
      (drainHeap env fuel).run.run { s with status := .stabilising } = (.ok (), s2) ∧
      DrainInv env s2 ∧ s2.rch.length = 0 ∧ Finished s2 s') ∧
    QuietInv env s' ∧ Idle s' ∧ s'.stabNum = s.stabNum + 1 ∧ s'.vars = s.vars ∧
    s'.nodes.size = s.nodes.size ∧ (∀ m, SameShape (s.nodeD m) (s'.nodeD m)) ∧
    ∀ n, s.isNecessary n = true → ∀ k, (s.nodeD n).height.toNat < k →
      s'.isNecessary n = true ∧ (s'.nodeD n).valid = true ∧ s'.isStale n = false ∧
      (s'.nodeD n).value = eval env s k n ∧ s'.value env n = eval env s k n ∧
      (eval env s k n).isSome = true :=
  Sched.stabilise_quiet Q I h

/-- **L4, `writeVar`.** A successful write outside `stabilise` keeps the quiescent invariant (the watch
node, if necessary, is now stale and queued); only cell `v` changes. -/
theorem writeVar_quiet {env : Env} {s s' : State} {v : Nat} {f : Val → Val} {isSet : Bool} {r : Val}
    (Q : QuietInv env s) (I : Idle s) (h : (writeVar v f isSet).run.run s = (.ok r, s')) :
    ∃ vc, s.vars[v]? = some vc ∧ r = vc.value ∧ QuietInv env s' ∧ Idle s' ∧
      s'.stabNum = s.stabNum ∧ s'.nodes.size = s.nodes.size ∧
      (∀ m, SameShape (s.nodeD m) (s'.nodeD m)) ∧
      s'.vars[v]? = some { vc with value := f vc.value, setAt := s.stabNum } ∧
      (∀ w, w ≠ v → s'.vars[w]? = s.vars[w]?) :=
  Sched.writeVar_quiet Q I h

/-- **A round.** Write a variable, then stabilise: afterwards every necessary node reads the
from-scratch value of its defining expression on the updated variable values (those of the state `s1`
after the write), and the engine is quiescent again. -/
theorem round_values {env : Env} {fuel : Nat} {s s1 s' : State} {v : Nat} {f : Val → Val} {isSet : Bool}
    {r : Val} (Q : QuietInv env s) (I : Idle s)
    (hw : (writeVar v f isSet).run.run s = (.ok r, s1))
    (hs : (stabilise env fuel).run.run s1 = (.ok (), s')) :
    QuietInv env s' ∧ Idle s' ∧ s'.vars = s1.vars ∧
    ∀ n, s.isNecessary n = true → ∀ k, (s.nodeD n).height.toNat < k →
      s'.isStale n = false ∧ s'.value env n = eval env s1 k n ∧ (eval env s1 k n).isSome = true := by
  obtain ⟨vc, -, -, Q1, I1, -, -, hsh, -, -⟩ := Sched.writeVar_quiet Q I hw
  obtain ⟨-, Q', I', -, hv, -, -, hall⟩ := Sched.stabilise_quiet Q1 I1 hs
  refine ⟨Q', I', hv, ?_⟩
  intro n hn k hk
  have hn1 : s1.isNecessary n = true := by rw [isNecessary_of_shape hsh]; exact hn
  obtain ⟨-, -, h3, -, h5, h6⟩ := hall n hn1 k (by rw [(hsh n).height]; exact hk)
  exact ⟨h3, h5, h6⟩

/-- non-vacuity of L4: the example graph at rest satisfies `QuietInv` and `Idle`; a write to its
variable returns, the following `stabilise` returns, and the observed node then reads `4 + 4` -/
example : QuietInv Step.exEnv exQ ∧ Idle exQ ∧
    (∃ r s1, (writeVar 0 (fun _ => .int 4) true).run.run exQ = (.ok r, s1)) ∧
    (∃ s2, (stabilise Step.exEnv 10).run.run ((writeVar 0 (fun _ => .int 4) true).run.run exQ).2
      = (.ok (), s2)) ∧
    ((stabilise Step.exEnv 10).run.run ((writeVar 0 (fun _ => .int 4) true).run.run exQ).2).2.value
      Step.exEnv 2 = some (.int 8) :=
  ⟨exQ_quietInv, exQ_idle, exQ_write, exQ_write_stabilise, by decide +kernel⟩

/-! ## total correctness -/

/-- **No assertion fails during a drain.** From the drain invariant and `Safe`, a `drainHeap` that does
not return has run out of fuel — whatever `cfg.debug` is. -/
theorem drainHeap_safe {env : Env} (fuel : Nat) (s s' : State) (e : Panic) (I : DrainInv env s)
    (S : Safe s) (h : (drainHeap env fuel).run.run s = (.error e, s')) : e = .outOfFuel :=
  Sched.drainHeap_safe fuel s s' e I S h

/-- the same for one `recomputeOne` on the current node; it can run out of fuel only with `fuel = 0` -/
theorem recomputeOne_safe {env : Env} {fuel n : Nat} {s s' : State} {e : Panic}
    (I : Inv env s (some n)) (S : Safe s)
    (h : (recomputeOne env fuel n).run.run s = (.error e, s')) : e = .outOfFuel ∧ fuel = 0 :=
  Sched.recomputeOne_safe I S h

/-- **Total correctness of the drain.** From the drain invariant and `Safe`, with
`fuel ≥ s.nodes.size + 2`, `drainHeap` returns; the final state satisfies the drain invariant, has an
empty heap, the graph and the variables are unchanged, and every necessary node is not stale and reads
its from-scratch value. -/
theorem drainHeap_total {env : Env} {fuel : Nat} {s : State} (I : DrainInv env s) (S : Safe s)
    (hf : s.nodes.size + 2 ≤ fuel) :
    ∃ s', (drainHeap env fuel).run.run s = (.ok (), s') ∧ DrainInv env s' ∧ s'.rch.length = 0 ∧
      Frame s s' ∧ ∀ n, s.isNecessary n = true → ∀ k, (s.nodeD n).height.toNat < k →
        s'.isStale n = false ∧ s'.value env n = eval env s k n ∧ (eval env s k n).isSome = true :=
  Sched.drainHeap_total_values I S hf

/-- **Total correctness of `stabilise`** on an idle quiescent engine of the static fragment: it
returns, and (by `stabilise_quiet`) the engine is quiescent again with every necessary node reading its
from-scratch value. -/
theorem stabilise_total {env : Env} {fuel : Nat} {s : State} (Q : QuietInv env s) (I : Idle s)
    (S : Safe s) (hf : s.nodes.size + 2 ≤ fuel) :
    ∃ s', (stabilise env fuel).run.run s = (.ok (), s') ∧ QuietInv env s' ∧ Idle s' ∧
      s'.vars = s.vars ∧
      ∀ n, s.isNecessary n = true → ∀ k, (s.nodeD n).height.toNat < k →
        s'.isStale n = false ∧ s'.value env n = eval env s k n ∧ (eval env s k n).isSome = true := by
  obtain ⟨s', h⟩ := Sched.stabilise_total Q I S hf
  obtain ⟨-, Q', I', -, hv, -, -, hall⟩ := Sched.stabilise_quiet Q I h
  refine ⟨s', h, Q', I', hv, ?_⟩
  intro n hn k hk
  obtain ⟨-, -, h3, -, h5, h6⟩ := hall n hn k hk
  exact ⟨h3, h5, h6⟩

/-- non-vacuity: both example states are `Safe` (and 10 ≥ 3 + 2) -/
example : Safe exD ∧ Safe exQ ∧ exD.nodes.size + 2 ≤ 10 ∧ exQ.nodes.size + 2 ≤ 10 :=
  ⟨exD_safe, exQ_safe, by decide, by decide⟩

end IncrVerif.Props.C01Global
