import IncrVerif.Proofs.EffH18
/-!
# C08 (and C01/C02) for whole histories of programs whose node functions WRITE variables

`Props/C08.lean` describes a single write (both modes) and the var phase of `stabiliseEnd`; `Props/C01History.lean`
proves the whole-history theorem for static programs whose functions have NO effects.  Here both are combined:
programs whose `map` functions issue `set`/`modify`/`update`/`replace`/`replace_with` on variables while they run.

FRAGMENT.  `EffH.EAction env a` = `Quiet.StaticAction (EffH.noEff env) a`: the static API actions of
`Props/C01History.lean` (`create` of `const`/`var`/`map`/`fold`/`zip` on top-level operands, `observe`, `cloneObs`, `dropObs`,
`disallow`, `set`/`modify`/`update`/`replace`/`replaceWith`/`get`, `stabilise`, `isStable`, `stats`) — but the user functions
of `map` nodes may have effects, restricted by `EffH.WOnly env`: every effect in every `env.fnEff f vals` is one of
`setVar`/`modifyVar`/`updateVar`/`replaceVar`/`replaceWithVar` (any variable index; a write to a variable that does
not exist makes the model panic, so such a run is not "returning").  NOT in the fragment: `dropVar` (every handle is
alive: `CellsOK`), the other effects (`readObs`, `disallow`, `stabilise`, `panic`, expert effects), everything
`Props/C01History.lean` excludes; subscriptions (handlers) are the second stage, V3 below.  Nothing is assumed about `cfg.debug`.

DEFINITIONS (`Proofs/EffH1.lean` … `EffH10.lean` for V1/V2, `EffH11.lean` … `EffH18.lean` for V3; namespace `IncrVerif.Proofs.EffH`).
* `noEff env`: `env` with `fnEff := fun _ _ => []` and `handler := fun _ _ => []`.  Every engine function except the
  `map` case of `recomputeOne` and the handler loop of `stabiliseEnd` is the same program under `env` and `noEff env`
  (`stepAction_noEff`, `addNewObservers_noEff`, `mcv_noEff`, …), so all invariants are stated for `noEff env`
  (`Sched.Inv (noEff env)`, `Quiet.QInv (noEff env)`, `SubsH.UInv (noEff env)`); `Sched.eval` does not depend on
  effects (`eval_noEff`).
* `EInv env s` (the invariant between API actions) = `Quiet.QInv (noEff env) s` (so: the heap holds EXACTLY the
  necessary stale nodes, every non-stale node is consistent, nothing deferred, …) ∧ `CellsOK s` (every var cell has
  `pending = none` and a live handle).
* `effStep`/`effSteps es s`: closed form of running the write effects `es` while `status = stabilising`: cell `v` gets
  `pending := some (f (pending.getD value))`, `v` is pushed on `setDuringStab` iff nothing was pending, `replace*` log
  the value they return; NOTHING else changes — in particular not `vars[v].value`.
* `SameP s s'`: equal up to `vars[·].pending`, `setDuringStab`, `log`.  The scheduling invariant, `UnnecOK`, `QInv`, `eval`
  do not read these (`SameP.inv`, `SameP.qinv`, …).
* `nodeEffs env s n`: the effects node `n` issues when recomputed in `s`; `evalEffs env t m`: the same with the
  arguments evaluated from scratch in `t`; `drainSteps env fuel t`: the nodes the drain runs, each WITH THE STATE IT RAN
  IN (`(drainSteps …).map (·.1) = Sched.drainTrace …`); `stepsWrites`: their writes `(cell, new-from-old)` in program
  order; `writesTo v W`; `foldW fs x` (program-order composition); `cellAfter now fs c` (`c` if `fs = []`, else
  `{ c with value := foldW fs c.value, setAt := now }`).
* `EStab env fuel s t2 t3 S s'`: the conclusions about one `stabilise` `s → s'` (`t2`/`t3`: start/end of the drain,
  `S`: the state the `stabilise` would have ended in without the deferred writes).

PROVED (for the model; partial correctness: every statement assumes that the call returns `(.ok _, s')`).
* V1 (a) `recomputeOne_defers`: on the current node of the scheduling invariant, a `recomputeOne` whose function has
  write effects = the deferred writes (`effSteps`, which leave every `vars[v].value` alone) followed by the EFFECT-FREE
  `recomputeOne` — same result, same final state.  `drain_with_effects`: hence the drain keeps the scheduling
  invariant (`DI`), with the frame `DR` (= `Sched.Frame` with "vars unchanged" weakened to "unchanged except `pending`");
  no node runs twice.  `step_saw`: EVERY node function that ran saw, for every variable, the PRE-STABILISE value, and
  for every argument the from-scratch value on the pre-stabilise variables.
  `values_pre_stabilise`: after the call every necessary node carries (stored and as read by observers) `eval` of the
  final graph on the PRE-STABILISE variables `s.vars`.
* V1 (b) `written_value` + `writes_in_trace_order`: after the call a written variable holds the program-order fold of
  its writes over its pre-stabilise value, stamped with the NEW round; an unwritten cell is untouched; the writes
  are those of `Sched.drainTrace` in the order the functions ran.
* V1 (c) `stabilise_effects`: `EInv env s'` holds again; `stale_after`: a necessary node is stale (hence queued) afterwards
  iff it is the watch node of a written variable; `isStable_def`: in a state satisfying `QInv`,
  `isStable = true ↔ newObservers = [] ∧ no necessary node is stale`; `isStable_after`: after the `stabilise`,
  `isStable = true ↔` no written variable has a necessary watch node.  (A write of the value the variable already
  has still makes `isStable` false.)
* V1 (d) `next_stabilise_propagates`: the following `stabilise` leaves every necessary node with `eval` on the
  variables as written.
* V2 `history_inv`, `history_every_state`, `history_every_stabilise`: every state reached from `State.init` by a history
  of the fragment satisfies `EInv`; at every `stabilise` V1 holds.  `get_returns`, `replace_returns`,
  `replaceWith_returns`, `set_stores`: `get`/`replace`/`replace_with` return the logical value, writes outside `stabilise`
  take effect immediately.  `stable_reads`, `loop_fixpoint`: in a reached state with `isStable = true` — e.g. when a loop
  `while !is_stable() { stabilise() }` stops — every in-use observer reads `eval` on the FINAL variable contents.
* Non-vacuity: the history `exHist` (two functions writing `v1`, a reader of `v1` running after them) — checked with
  `decide +kernel` and also against the Rust harness: same `read`/`api` lines.

* V3 (second stage: SUBSCRIPTIONS whose handlers have write effects; fragment `EffH.WAction env a` =
  `SubsH.SubAction (noEff env) a`, i.e. the fragment of `Props/C09History.lean`, with `WOnly env` for the functions and
  `WHandlers env` for the handlers: every effect of every `env.handler hid u` is one of the five writes).  Handlers run
  at the end of `stabilise` under status `runningOnUpdateHandlers`, so their writes are IMMEDIATE (`runEffects_imm`,
  closed form `immSteps` = a sequence of `VarWrites.wroteOutside`), not deferred.  Invariant `UInvE env s` =
  `SubsH.UInv (noEff env) s ∧ CellsOK s`.
  `handler_writes_immediate`: closed form of the effects of one handler.  `stabiliseEnd_with_handlers`: `stabiliseEnd`
  with deferred function writes and handler writes is `EndedW`: the handler bookkeeping (records stepped by
  `stepPrev`, flags reset) and the NOTIFICATIONS logged are exactly those of the effect-free `stabiliseEnd`
  (`SubsH.endNotifs`, same order), besides them only the `note`s of `replace*` are logged; the variables receive first the
  deferred function writes (var phase) and then the handlers' writes in delivery order, each acting on the then-current
  logical value; the subscription invariant holds again.  `stabilise_handlers` (`WStab`): all of V1 for such a
  `stabilise`: every function saw the pre-stabilise values (`drain`/`step_saw`), the final variable = fold of (function
  writes in trace order) ++ (handler writes in delivery order) over the pre-stabilise value (`vars`), every necessary
  node carries `eval` on the PRE-STABILISE variables (`values`) — in particular what the handlers were told —, nothing
  is delivered before the end of the drain (`log`), the `changedAt` stamp is exact (`valchg`), `UInvE` holds again;
  `stale_after_handlers`, `isStable_after_handlers`; `history_inv_handlers`, `history_every_stabilise_handlers`,
  `stable_reads_handlers`, `loop_fixpoint_handlers`.  Non-vacuity: `exHistH` (a function writes `v1 := 4`, the handler
  then does `v1 += 1` and `replace(v1, 2)`, which returns `5`), also checked against the Rust harness.

  C09 WITH EFFECTS (`Proofs/EffH18.lean`, ports of `Subs11`/`Subs15`): `delivers_with_effects` (S2: the notifications of a
  `stabilise` are exactly the `SubsH.expected` ones, every token at most once), `expected_live_with_effects`,
  `expected_dead_with_effects` (a live handler is told `Initialised v` once, then `Changed v` iff the stored value of
  its node changed; `v` is what its observer reads afterwards — computed from the PRE-STABILISE variables; handler and
  function writes of the same `stabilise` never show in what is delivered in that `stabilise`),
  `history_notifications_with_effects` (S3: `tokLog t s.log = specT env t acts …` for every token along every history of
  the fragment), `history_shape_with_effects`.

ASSUMED / NOT PROVED.  Partial correctness only (no bound on the number of iterations of the `is_stable` loop: a
function that writes a variable it depends on never stabilises — that is the engine's behaviour).  No total
correctness for the fragment (that the calls return).  Handlers with other effects (`disallow`, nested `stabilise`,
`readObs`, `dropVar`) are outside the fragment.

FOUND (true of the model; the implementation differs in ORDER only).  The handlers' writes are applied in the order in
which the handlers run.  The model runs them in list order (`endEffs`: queued nodes, their observers, their handlers,
each in insertion order); the implementation iterates over `HashMap`s with a per-process random state, so when several
handlers of one `stabilise` write the SAME variable with non-commuting writes, the final contents of the variable depend
on the run: for `hdl h0 setvar v1 1`, `hdl h1 setvar v1 2`, `hdl h2 setvar v1 3`, `fn f0 lin 7 0 1`, `var 1`, `var 5`,
`map f0 n0`, `observe n2`, `subscribe o0 h0`, `subscribe o0 h1`, `subscribe o0 h2`, `stabilise`, `get v1` the model answers
`3`, the Rust harness `1`, `2` or `3` depending on the run (six runs: 1, 2, 2, 1, 3, 3).  Everything else (which
notifications, their values, function writes before handler writes, node values from the pre-stabilise variables,
`is_stable`) is order-independent.  `exHistH` has a single handler.
-/
namespace IncrVerif.Props.C08History
open IncrVerif.Engine IncrVerif.Driver IncrVerif.Proofs IncrVerif.Proofs.Step IncrVerif.Proofs.Sched
open IncrVerif.Proofs.Quiet IncrVerif.Proofs.EffH

/-! ## V1 (a): the drain -/

/-- **A write from inside a node function is not visible in the running stabilise.**  On the current node `n` of the
scheduling invariant, while `status = stabilising`: a successful `recomputeOne env fuel n` is the deferred writes
`effSteps (nodeEffs env s n)` — which change only `pending`, the stack `setDuringStab` and the log (`effSteps_sameP`) —
followed by the `recomputeOne` of the EFFECT-FREE environment: same result, same final state.  Every written cell
exists. -/
theorem recomputeOne_defers {env : Env} {fuel n : Nat} {s s' : State} {r : Option Nat}
    (I : Inv (noEff env) s (some n)) (hst : s.status = .stabilising) (hw : WOnly env) (hh : HandlesOK s)
    (h : (recomputeOne env fuel n).run.run s = (.ok r, s')) :
    SameP s (effSteps (nodeEffs env s n) s) ∧
    (recomputeOne (noEff env) fuel n).run.run (effSteps (nodeEffs env s n) s) = (.ok r, s') ∧
    ∀ v f, (v, f) ∈ writesOf (nodeEffs env s n) → ∃ c, s.vars[v]? = some c :=
  ⟨effSteps_sameP _ s, recomputeOne_eff_eq I hst hw hh h⟩

/-- closed form of the write effects of one function: exactly `effSteps` -/
theorem effects_closed_form {env : Env} {fuel : Nat} {es : List Effect} {arg : Int} {s s' : State} {u : Unit}
    (hst : s.status = .stabilising) (hw : ∀ e, e ∈ es → (effWrite e).isSome = true) (hh : HandlesOK s)
    (h : (runEffects env fuel es arg).run.run s = (.ok u, s')) :
    s' = effSteps es s ∧ SameP s s' := by
  obtain ⟨e, -⟩ := runEffects_writes hst hw hh h
  exact ⟨e, e ▸ effSteps_sameP es s⟩

/-- **The drain with write effects.**  From `DI env s none` (the scheduling invariant of `Props/C01Global.lean` for the
effect-free environment + `UnnecOK` + `status = stabilising` + live handles) a returning `drainHeap env fuel`:
`RunOK` = the same facts at the end, the frame `DR` (graph, round number, `vars[·].value`/`setAt` untouched), every step
`p = (node, state it ran in)` satisfied the invariant with that node current (`StepOK`), the trace has no duplicates
and each of its nodes ran exactly in this round; the heap is empty at the end. -/
theorem drain_with_effects {env : Env} (hw : WOnly env) {fuel : Nat} {s s' : State} (D : DI env s none)
    (h : (drainHeap env fuel).run.run s = (.ok (), s')) :
    RunOK env (drainSteps env fuel s) s s' ∧ s'.rch.length = 0 ∧
      (drainSteps env fuel s).map (·.1) = drainTrace env fuel s :=
  ⟨(drainHeap_eff hw fuel s s' D h).1, (drainHeap_eff hw fuel s s' D h).2, drainSteps_fst env fuel s⟩

/-- **(a) every node function that ran saw the pre-stabilise values**: in the state `p.2` in which node `p.1` ran,
every variable has the value it had when the drain started (`t`), the node has the kind it had, and each of its
children reads — through `State.value`, which is what `recomputeOne` passes to the function — its from-scratch value
on the variables of `t`. -/
theorem step_saw {env : Env} {t : State} {p : Nat × State} (o : StepOK env t p) :
    (∀ (v : Nat) (c : VarCell), t.vars[v]? = some c → ∃ c', p.2.vars[v]? = some c' ∧ c'.value = c.value) ∧
    (p.2.nodeD p.1).kind = (t.nodeD p.1).kind ∧
    ∀ a, a ∈ kids (p.2.nodeD p.1).kind → ∀ k, (t.nodeD a).height.toNat < k →
      p.2.value env a = eval env t k a ∧ (eval env t k a).isSome = true :=
  EffH.step_saw o

/-! ## V1: one `stabilise` -/

/-- **V1.** From the invariant between actions, a returning `stabilise` of a program whose functions have write
effects: see `EffH.EStab` — `inv : EInv env s'`; `clean : StabilisedC (noEff env) s S` (all of `Quiet.stabilise_q` for
the outcome `S` without the writes: `S.vars = s.vars`, observers added/unlinked, every necessary node of `S` not stale
and `= eval`); `start`/`run`/`drain`: the drain `t2 → t3` with `drain_with_effects`; `vars` (b); `node`: the nodes of `s'`
are those of `S` up to the heap marker; `observers`, `newObservers = []`, `disallowedObservers = []`, `stabNum`. -/
theorem stabilise_effects {env : Env} (hw : WOnly env) {fuel : Nat} {s s' : State} (E : EInv env s)
    (h : (stabilise env fuel).run.run s = (.ok (), s')) : ∃ t2 t3 S, EStab env fuel s t2 t3 S s' :=
  stabilise_eff hw E h

section one
variable {env : Env} {fuel : Nat} {s t2 t3 S s' : State}

/-- **(a)/(d) values after the call**: every necessary node is valid and carries — stored, and as read by observers —
its defining expression evaluated from scratch in the final graph on the PRE-STABILISE variables. -/
theorem values_pre_stabilise (X : EStab env fuel s t2 t3 S s') (n : Nat) (hn : s'.isNecessary n = true) (k : Nat)
    (hk : (s'.nodeD n).height.toNat < k) :
    (s'.nodeD n).valid = true ∧ (s'.nodeD n).value = eval env { s' with vars := s.vars } k n ∧
      s'.value env n = eval env { s' with vars := s.vars } k n ∧
      (eval env { s' with vars := s.vars } k n).isSome = true :=
  X.values n hn k hk

/-- **(b) successive deferred writes compose in program order**: after the call, cell `v` is the old cell if no
function wrote it; otherwise its value is the left fold of the writes to `v` (in program order, `X.writes`) over the
PRE-STABILISE value, its stamp is the new round number, and nothing is pending. -/
theorem written_value (X : EStab env fuel s t2 t3 S s') (v : Nat) (c : VarCell) (hc : s.vars[v]? = some c) :
    s'.vars[v]? = some (cellAfter (s.stabNum + 1) (writesTo v X.writes) c) ∧
    (writesTo v X.writes = [] → s'.vars[v]? = some c) ∧
    (∀ f fs, writesTo v X.writes = f :: fs →
      s'.vars[v]? = some { c with value := foldW (f :: fs) c.value, setAt := s.stabNum + 1 }) := by
  have h := X.vars v c hc
  refine ⟨h, fun e => ?_, fun f fs e => ?_⟩
  · rw [h]; unfold EStab.writes at e; rw [e]; rfl
  · rw [h]; unfold EStab.writes at e; rw [e]; rfl

/-- **(b) the order is the order in which the functions ran**: the writes are, for each node of `Sched.drainTrace` in
order, the writes of its function applied to the from-scratch values of its arguments on the pre-stabilise
variables. -/
theorem writes_in_trace_order (X : EStab env fuel s t2 t3 S s') :
    X.writes = (drainTrace env fuel t2).flatMap fun m => writesOf (evalEffs env t2 m) :=
  stepsWrites_eq_trace X.drain

/-- **(c) staleness afterwards**: a necessary node is stale (and therefore queued: `X.inv.q.struct.queued_iff`) iff it
is the watch node of a written variable. -/
theorem stale_after (X : EStab env fuel s t2 t3 S s') (m : Nat) (hm : s'.isNecessary m = true) :
    s'.isStale m = true ↔ ∃ v, (s'.nodeD m).kind = .var v ∧ writesTo v X.writes ≠ [] :=
  X.stale_iff m hm

/-- the queue afterwards: exactly the necessary watch nodes of written variables -/
theorem queued_after (X : EStab env fuel s t2 t3 S s') (m : Nat) :
    (s'.nodeD m).inRch = true ↔
      (s'.isNecessary m = true ∧ ∃ v, (s'.nodeD m).kind = .var v ∧ writesTo v X.writes ≠ []) := by
  rw [X.inv.q.struct.queued_iff m]
  constructor
  · rintro ⟨a, b⟩; exact ⟨a, (X.stale_iff m a).1 b⟩
  · rintro ⟨a, b⟩; exact ⟨a, (X.stale_iff m a).2 b⟩

/-- **(c) `is_stable()` afterwards** is `true` iff no written variable has a necessary watch node. -/
theorem isStable_after (X : EStab env fuel s t2 t3 S s') :
    s'.isStable = true ↔
      ∀ v, writesTo v X.writes ≠ [] → ∀ m, (s'.nodeD m).kind = .var v → s'.isNecessary m = false :=
  X.isStable_iff

end one

/-- what `State.isStable` says in a state satisfying the invariant -/
theorem isStable_def {env : Env} {s : State} (Q : QInv env s) :
    s.isStable = true ↔ (s.newObservers = [] ∧ ∀ m, s.isNecessary m = true → s.isStale m = false) :=
  EffH.isStable_iff Q

/-- **(d) the next `stabilise` propagates the written values**: after `s → s'` (with writes) and `s' → s''`, every
necessary node of `s''` carries `eval` on the variables of `s'`, i.e. (by `written_value`) on the folds of the writes
of the first call. -/
theorem next_stabilise_propagates {env : Env} (hw : WOnly env) {fuel fuel' : Nat} {s t2 t3 S s' s'' : State}
    (X : EStab env fuel s t2 t3 S s') (h : (stabilise env fuel').run.run s' = (.ok (), s'')) (n : Nat)
    (hn : s''.isNecessary n = true) (k : Nat) (hk : (s''.nodeD n).height.toNat < k) :
    s''.value env n = eval env { s'' with vars := s'.vars } k n ∧
      (eval env { s'' with vars := s'.vars } k n).isSome = true := by
  obtain ⟨_, _, _, X2⟩ := stabilise_eff hw X.inv h
  obtain ⟨-, -, h3, h4⟩ := X2.values n hn k hk
  exact ⟨h3, h4⟩

/-! ## V2: whole histories -/

theorem init_inv (env : Env) (N : Nat) (d : Bool) : EInv env (State.init N d) := einv_init env N d

/-- every action of the fragment that returns keeps the invariant -/
theorem action_keeps {env : Env} (hw : WOnly env) {s s' : State} {a : Action} {tk : Array Nat}
    {r : String × Array Nat} (E : EInv env s) (ha : EAction env a)
    (h : (stepAction env a tk).run.run s = (.ok r, s')) : EInv env s' :=
  step_e hw E ha h

theorem history_inv {env : Env} (hw : WOnly env) {N : Nat} {d : Bool} {acts : List Action} {s : State}
    {tk : Array Nat} (ha : ∀ a, a ∈ acts → EAction env a)
    (h : runActions env acts (State.init N d) #[] = .ok (s, tk)) : EInv env s :=
  history_e hw ha h

theorem history_every_state {env : Env} (hw : WOnly env) {N : Nat} {d : Bool} {as bs : List Action} {s : State}
    {tk : Array Nat} (ha : ∀ a, a ∈ as ++ bs → EAction env a)
    (h : runActions env (as ++ bs) (State.init N d) #[] = .ok (s, tk)) :
    ∃ s1 tk1, runActions env as (State.init N d) #[] = .ok (s1, tk1) ∧ EInv env s1 ∧
      runActions env bs s1 tk1 = .ok (s, tk) :=
  history_prefix_e hw ha h

/-- at every `stabilise` of a history of the fragment, V1 holds -/
theorem history_every_stabilise {env : Env} (hw : WOnly env) {N : Nat} {d : Bool} {as bs : List Action}
    {s : State} {tk : Array Nat} (ha : ∀ a, a ∈ as ++ Action.stabilise :: bs → EAction env a)
    (h : runActions env (as ++ Action.stabilise :: bs) (State.init N d) #[] = .ok (s, tk)) :
    ∃ s1 tk1 s2 t2 t3 S, runActions env as (State.init N d) #[] = .ok (s1, tk1) ∧ EInv env s1 ∧
      (stabilise env fuelDefault).run.run s1 = (.ok (), s2) ∧ EStab env fuelDefault s1 t2 t3 S s2 ∧
      runActions env bs s2 tk1 = .ok (s, tk) :=
  history_stabilise_e hw ha h

/-- `get` returns the logical value and changes nothing -/
theorem get_returns {env : Env} {s s' : State} {v : Nat} {tk : Array Nat} {r : String × Array Nat}
    (h : (stepAction env (.get v) tk).run.run s = (.ok r, s')) :
    ∃ vc, s.vars[v]? = some vc ∧ r = ("ok " ++ vc.value.render, tk) ∧ s' = s := step_get h

/-- `replace` outside `stabilise` returns the logical value and stores the new one at once -/
theorem replace_returns {env : Env} {s s' : State} {v : Nat} {x : Val} {tk : Array Nat}
    {r : String × Array Nat} (E : EInv env s)
    (h : (stepAction env (.replace v x) tk).run.run s = (.ok r, s')) :
    ∃ vc, s.vars[v]? = some vc ∧ r = ("ok " ++ vc.value.render, tk) ∧
      ∃ vc', s'.vars[v]? = some vc' ∧ vc'.value = x :=
  step_replace (by rw [E.q.status]; intro e; cases e) h

theorem replaceWith_returns {env : Env} {s s' : State} {v : Nat} {d : Int} {tk : Array Nat}
    {r : String × Array Nat} (E : EInv env s)
    (h : (stepAction env (.replaceWith v d) tk).run.run s = (.ok r, s')) :
    ∃ vc, s.vars[v]? = some vc ∧ r = ("ok " ++ vc.value.render, tk) ∧
      ∃ vc', s'.vars[v]? = some vc' ∧ vc'.value = vc.value.addInt d 7 :=
  step_replaceWith (by rw [E.q.status]; intro e; cases e) h

theorem set_stores {env : Env} {s s' : State} {v : Nat} {x : Val} {tk : Array Nat}
    {r : String × Array Nat} (E : EInv env s)
    (h : (stepAction env (.set v x) tk).run.run s = (.ok r, s')) :
    ∃ vc', s'.vars[v]? = some vc' ∧ vc'.value = x :=
  step_set (by rw [E.q.status]; intro e; cases e) h

/-- **a stable state reads the current variables** -/
theorem stable_reads {env : Env} {s : State} (E : EInv env s) (hs : s.isStable = true) :
    (∀ (o : Nat) (ob : ObsRec), s.observers[o]? = some ob → ob.state = .inUse →
      ∀ k, (s.nodeD ob.node).height.toNat < k →
        ∃ v, s.tryGetValue env o = .ok v ∧ eval env s k ob.node = some v) ∧
    (∀ (o : Nat) (ob : ObsRec), s.observers[o]? = some ob → ob.state ≠ .created) :=
  EffH.stable_reads E hs

/-- **fixed point, partial correctness**: if after a history of the fragment and `k` further calls of `stabilise` the
engine reports `is_stable()`, every in-use observer reads the from-scratch value of its node on the final contents of
the variables. -/
theorem loop_fixpoint {env : Env} (hw : WOnly env) {N : Nat} {d : Bool} {acts : List Action} {k : Nat}
    {s : State} {tk : Array Nat} (ha : ∀ a, a ∈ acts → EAction env a)
    (h : runActions env (acts ++ List.replicate k Action.stabilise) (State.init N d) #[] = .ok (s, tk))
    (hs : s.isStable = true) :
    ∀ (o : Nat) (ob : ObsRec), s.observers[o]? = some ob → ob.state = .inUse →
      ∀ j, (s.nodeD ob.node).height.toNat < j →
        ∃ v, s.tryGetValue env o = .ok v ∧ eval env s j ob.node = some v :=
  EffH.loop_fixpoint hw ha h hs

/-! ## V3: update handlers with write effects -/

/-- **Handler writes are immediate.**  While the handlers run (`status ≠ stabilising`), a returning run of write effects
is `immSteps es s` (each effect = the ordinary immediate write `wroteOutside`, `replace*` then log the value they
return); the subscription invariant — read with the status reset — is kept; only `vars`, heap markers, the recompute
heap, the counters and the log change (`AppliedL`); the cells are updated in program order and stamped with the
current round. -/
theorem handler_writes_immediate {env env0 : Env} {fuel : Nat} {es : List Effect} {arg : Int} {s s' : State}
    {u : Unit} (hst : s.status ≠ .stabilising) (hw : ∀ e, e ∈ es → (effWrite e).isSome = true) (hh : HandlesOK s)
    (Q : SubsH.QInv env0 (quiet s)) (h : (runEffects env fuel es arg).run.run s = (.ok u, s')) :
    s' = immSteps es s ∧ SubsH.QInv env0 (quiet s') ∧ AppliedL s s' ∧ HandlesOK s' ∧
    (∀ (v : Nat) (c : VarCell), s.vars[v]? = some c →
      s'.vars[v]? = some (cellAfter s.stabNum (writesTo v (writesOf es)) c)) :=
  runEffects_imm hst hw hh Q h

/-- **`stabilise_end` with deferred function writes and handlers with write effects**: `EndedW` (fields: the handler
bookkeeping `obs`, `node`, … exactly as `SubsH.Ended`; `logN`: the notifications logged are `SubsH.endNotifs env s`, in
that order; `logExt`: besides notifications only `note`s; `vars`: var phase, then handler writes in delivery order;
`q`: the subscription invariant). -/
theorem stabiliseEnd_with_handlers {env : Env} {fuel : Nat} {s s' : State} (hH : WHandlers env)
    (hpc : s.panicCountdown = none) (hst : s.status = .stabilising) (h2 : s.deadVars = [])
    (O : SubsH.ObsInv s [] []) (H : SubsH.HInv s)
    (hval : ∀ n, s.isNecessary n = true → (s.nodeD n).valid = true ∧ (s.value env n).isSome = true)
    (hh : HandlesOK s) (Q : SubsH.QInv (noEff env) (quiet (bump s)))
    (h : (stabiliseEnd env fuel).run.run s = (.ok (), s')) : EndedW env s s' :=
  stabiliseEnd_specW hH hpc hst h2 O H hval hh Q h

/-- **V3: one `stabilise`** with subscriptions, write effects in node functions and in update handlers: `WStab`. -/
theorem stabilise_handlers {env : Env} (hw : WOnly env) (hH : WHandlers env) {fuel : Nat} {s s' : State}
    (U : UInvE env s) (h : (stabilise env fuel).run.run s = (.ok (), s')) :
    ∃ t2 t3, WStab env fuel s t2 t3 s' :=
  stabilise_w hw hH U h

/-- the notifications of such a `stabilise`: none before the end of the drain, then exactly `endNotifs env t3` -/
theorem notifications_with_handlers {env : Env} {fuel : Nat} {s t2 t3 s' : State} (X : WStab env fuel s t2 t3 s') :
    notifs s'.log = (SubsH.endNotifs env t3).reverse ++ notifs s.log := by
  obtain ⟨pre, e, hp⟩ := X.mid.log
  rw [X.mid.ended.logN, e]
  unfold notifs
  rw [List.filter_append]
  have : pre.filter isNotif = [] := by
    rw [List.filter_eq_nil_iff]
    intro a ha
    have := hp a ha
    cases a <;> first | exact this.elim | simp [isNotif]
  rw [this, List.nil_append]

theorem stale_after_handlers {env : Env} {fuel : Nat} {s t2 t3 s' : State} (X : WStab env fuel s t2 t3 s')
    (m : Nat) (hm : s'.isNecessary m = true) :
    s'.isStale m = true ↔ ∃ v, (s'.nodeD m).kind = .var v ∧
      writesTo v (stepsWrites env (drainSteps env fuel t2) ++ writesOf (endEffs env t3)) ≠ [] :=
  X.stale_iff m hm

theorem isStable_after_handlers {env : Env} {fuel : Nat} {s t2 t3 s' : State} (X : WStab env fuel s t2 t3 s') :
    s'.isStable = true ↔
      ∀ v, writesTo v (stepsWrites env (drainSteps env fuel t2) ++ writesOf (endEffs env t3)) ≠ [] →
        ∀ m, (s'.nodeD m).kind = .var v → s'.isNecessary m = false :=
  X.isStable_iff

theorem init_inv_handlers (env : Env) (N : Nat) (d : Bool) : UInvE env (State.init N d) := uinve_init env N d

theorem action_keeps_handlers {env : Env} (hw : WOnly env) (hH : WHandlers env) {s s' : State} {a : Action}
    {tk : Array Nat} {r : String × Array Nat} (U : UInvE env s) (ha : WAction env a)
    (h : (stepAction env a tk).run.run s = (.ok r, s')) : UInvE env s' :=
  step_w hw hH U ha h

theorem history_inv_handlers {env : Env} (hw : WOnly env) (hH : WHandlers env) {N : Nat} {d : Bool}
    {acts : List Action} {s : State} {tk : Array Nat} (ha : ∀ a, a ∈ acts → WAction env a)
    (h : runActions env acts (State.init N d) #[] = .ok (s, tk)) : UInvE env s :=
  history_w hw hH ha h

theorem history_every_stabilise_handlers {env : Env} (hw : WOnly env) (hH : WHandlers env) {N : Nat} {d : Bool}
    {as bs : List Action} {s : State} {tk : Array Nat}
    (ha : ∀ a, a ∈ as ++ Action.stabilise :: bs → WAction env a)
    (h : runActions env (as ++ Action.stabilise :: bs) (State.init N d) #[] = .ok (s, tk)) :
    ∃ s1 tk1 s2 t2 t3, runActions env as (State.init N d) #[] = .ok (s1, tk1) ∧ UInvE env s1 ∧
      (stabilise env fuelDefault).run.run s1 = (.ok (), s2) ∧ WStab env fuelDefault s1 t2 t3 s2 ∧
      runActions env bs s2 tk1 = .ok (s, tk) :=
  history_stabilise_w hw hH ha h

theorem stable_reads_handlers {env : Env} {s : State} (U : UInvE env s) (hs : s.isStable = true) :
    ∀ (o : Nat) (ob : ObsRec), s.observers[o]? = some ob → ob.state = .inUse →
      ∀ k, (s.nodeD ob.node).height.toNat < k →
        ∃ v, s.tryGetValue env o = .ok v ∧ eval env s k ob.node = some v :=
  stable_readsU U hs

theorem loop_fixpoint_handlers {env : Env} (hw : WOnly env) (hH : WHandlers env) {N : Nat} {d : Bool}
    {acts : List Action} {k : Nat} {s : State} {tk : Array Nat} (ha : ∀ a, a ∈ acts → WAction env a)
    (h : runActions env (acts ++ List.replicate k Action.stabilise) (State.init N d) #[] = .ok (s, tk))
    (hs : s.isStable = true) :
    ∀ (o : Nat) (ob : ObsRec), s.observers[o]? = some ob → ob.state = .inUse →
      ∀ j, (s.nodeD ob.node).height.toNat < j →
        ∃ v, s.tryGetValue env o = .ok v ∧ eval env s j ob.node = some v :=
  loop_fixpoint_w hw hH ha h hs

/-! ## C09 with effects: what the handlers are told -/

/-- **S2 with effects**: the notifications in the log grow by `del` = the expected notification (`SubsH.expected`) of
every handler record registered before the call, every token at most once -/
theorem delivers_with_effects {env : Env} (hw : WOnly env) (hH : WHandlers env) {fuel : Nat} {s s' : State}
    (U : UInvE env s) (h : (stabilise env fuel).run.run s = (.ok (), s')) :
    ∃ del : List Event, notifs s'.log = del.reverse ++ notifs s.log ∧
      (∀ e, e ∈ del → ∃ t u, e = .notif t u) ∧
      (∀ t u, Event.notif t u ∈ del ↔
        ∃ (o : Nat) (ob : ObsRec) (h : HandlerRec), s.observers[o]? = some ob ∧ h ∈ ob.handlers ∧
          h.token = t ∧ SubsH.expected s s' o h = some u) ∧
      (del.filterMap SubsH.notifTok).Nodup :=
  stabilise_delivers_w hw hH U h

/-- what a record on a created or in-use observer is told: the observer is in use afterwards and reads `v`;
`Initialised v` if the handler was never called, else `Changed v` iff the stored value of the node is not the one from
before the call, else nothing.  (`v` is computed from the pre-stabilise variables: `WStab.values`.) -/
theorem expected_live_with_effects {env : Env} {fuel : Nat} {s t2 t3 s' : State} (U : UInvE env s)
    (X : WStab env fuel s t2 t3 s') {o : Nat} {ob : ObsRec} (h : HandlerRec)
    (ho : s.observers[o]? = some ob) (hs : ob.state = .created ∨ ob.state = .inUse) :
    ∃ ob' v, s'.observers[o]? = some ob' ∧ ob'.node = ob.node ∧ ob'.state = .inUse ∧
      (s'.nodeD ob.node).value = some v ∧ s'.tryGetValue env o = .ok v ∧
      SubsH.expected s s' o h = (if h.prev = .neverBeenUpdated then some (.initialised v)
        else if (s.nodeD ob.node).value = some v then none else some (.changed v)) :=
  expected_live_w U X h ho hs

theorem expected_dead_with_effects {env : Env} {fuel : Nat} {s t2 t3 s' : State} (U : UInvE env s)
    (X : WStab env fuel s t2 t3 s') {o : Nat} {ob : ObsRec} (h : HandlerRec)
    (ho : s.observers[o]? = some ob) (hs : ¬ (ob.state = .created ∨ ob.state = .inUse)) :
    SubsH.expected s s' o h = none :=
  expected_dead_w U X h ho hs

/-- **S3 / C09 with effects**: along every history of the fragment the updates logged for token `t` are exactly
`SubsH.specT` -/
theorem history_notifications_with_effects {env : Env} (hw : WOnly env) (hH : WHandlers env) {N : Nat} {d : Bool}
    {acts : List Action} {s : State} {tk : Array Nat} (ha : ∀ a, a ∈ acts → WAction env a)
    (h : runActions env acts (State.init N d) #[] = .ok (s, tk)) (t : Nat) :
    SubsH.tokLog t s.log = SubsH.specT env t acts (State.init N d) #[] [] :=
  history_notifications_w hw hH ha h t

theorem history_shape_with_effects {env : Env} (hw : WOnly env) (hH : WHandlers env) {N : Nat} {d : Bool}
    {acts : List Action} {s : State} {tk : Array Nat} (ha : ∀ a, a ∈ acts → WAction env a)
    (h : runActions env acts (State.init N d) #[] = .ok (s, tk)) (t : Nat) : SubsH.Shape (SubsH.tokLog t s.log) :=
  history_shape_w hw hH ha h t

/-! ## non-vacuity -/

/-- `f0` = sum of the integer views; `f2` = first argument, and it sets `v1 := 3`; `f3` = first argument, and it does
`modify(v1, +1)` (mod 7) -/
def exEnvW : Env :=
  { Step.exEnv with
    fnEff := fun f _ => if f = 2 then [.setVar 1 (.int 3)] else if f = 3 then [.modifyVar 1 1] else [] }

theorem exEnvW_wonly : WOnly exEnvW := by
  intro f vals e he
  simp only [exEnvW] at he
  split at he
  · simp only [List.mem_singleton] at he; subst he; rfl
  · split at he
    · simp only [List.mem_singleton] at he; subst he; rfl
    · cases he

/-- `v0 = 1`, `v1 = 5`, `n2 = f2(v0)` (writes `v1 := 3`), `n3 = v1 + n2`, `n4 = f3(v0)` (writes `v1 += 1`),
`n5 = n3 + n4`, observe `n5`, stabilise, stabilise -/
def exHist : List Action :=
  [.create (.var (.int 1)), .create (.var (.int 5)), .create (.map 2 [.outer 0]),
   .create (.map 0 [.outer 1, .outer 2]), .create (.map 3 [.outer 0]), .create (.map 0 [.outer 3, .outer 4]),
   .observe (.outer 5), .stabilise, .stabilise]

theorem exHist_actions : ∀ a, a ∈ exHist → EAction exEnvW a := by
  intro a ha
  simp only [exHist, List.mem_cons, List.mem_nil_iff, or_false] at ha
  rcases ha with rfl | rfl | rfl | rfl | rfl | rfl | rfl | rfl | rfl
  all_goals first
    | trivial
    | (refine ⟨by decide, fun _ _ => rfl, ?_⟩
       intro a ha
       simp only [List.mem_cons, List.mem_nil_iff, or_false] at ha
       first
         | (rcases ha with rfl | rfl <;> trivial)
         | (subst ha; trivial))

def ranOk (env : Env) (acts : List Action) : Bool :=
  match runActions env acts (State.init 128 true) #[] with
  | .ok _ => true
  | .error _ => false

/-- what observer `o` reads after the history -/
def readAfter (env : Env) (acts : List Action) (o : Nat) : Option Val :=
  match runActions env acts (State.init 128 true) #[] with
  | .ok (s, _) => match s.tryGetValue env o with | .ok v => some v | .error _ => none
  | .error _ => none

/-- the logical value of variable `v` after the history -/
def varAfter (env : Env) (acts : List Action) (v : Nat) : Option Val :=
  match runActions env acts (State.init 128 true) #[] with
  | .ok (s, _) => (s.vars[v]?).map (·.value)
  | .error _ => none

def stableAfter (env : Env) (acts : List Action) : Option Bool :=
  match runActions env acts (State.init 128 true) #[] with
  | .ok (s, _) => some s.isStable
  | .error _ => none

theorem ranOk_iff {env : Env} {acts : List Action} (h : ranOk env acts = true) :
    ∃ s tk, runActions env acts (State.init 128 true) #[] = .ok (s, tk) := by
  unfold ranOk at h
  rcases hx : runActions env acts (State.init 128 true) #[] with e | ⟨s, tk⟩
  · rw [hx] at h; cases h
  · exact ⟨s, tk, rfl⟩

set_option maxRecDepth 100000 in
/-- the example history is in the fragment and runs, so all theorems above apply to it (in particular
`history_every_stabilise` to both of its `stabilise`s) -/
example : ∃ s tk, runActions exEnvW exHist (State.init 128 true) #[] = .ok (s, tk) ∧ EInv exEnvW s := by
  obtain ⟨s, tk, h⟩ := ranOk_iff (env := exEnvW) (acts := exHist) (by decide +kernel)
  exact ⟨s, tk, h, history_inv exEnvW_wonly exHist_actions h⟩

set_option maxRecDepth 100000 in
/-- after the FIRST `stabilise`: the reader `n3 = v1 + n2` ran after both writers and still saw the old `v1 = 5`
(`n5 = (5 + 1) + 1 = 7`); the two writes composed in program order (`v1 = (3 + 1) mod 7 = 4`: the later write wins over /
builds on the earlier one); `is_stable()` is false.  After the SECOND: `n5 = (4 + 1) + 1 = 6`, consistent with the final
`v1 = 4`, and `is_stable()` is true. -/
example : readAfter exEnvW (exHist.take 8) 0 = some (.int 7) ∧
    varAfter exEnvW (exHist.take 8) 1 = some (.int 4) ∧
    stableAfter exEnvW (exHist.take 8) = some false ∧
    readAfter exEnvW exHist 0 = some (.int 6) ∧
    varAfter exEnvW exHist 1 = some (.int 4) ∧
    stableAfter exEnvW exHist = some true :=
  ⟨by decide +kernel, by decide +kernel, by decide +kernel, by decide +kernel, by decide +kernel,
    by decide +kernel⟩

/-! ### V3 example -/

/-- `f0`, `f1` = first argument; `f1` also sets `v1 := 4`; handler `h0` does `modify(v1, +1)` and then
`replace(v1, 2)` -/
def exEnvH : Env :=
  { Step.exEnv with
    fn := fun _ vals => vals.headD .unit
    fnEff := fun f _ => if f = 1 then [.setVar 1 (.int 4)] else []
    handler := fun _ _ => [.modifyVar 1 1, .replaceVar 1 (.int 2)] }

theorem exEnvH_wonly : WOnly exEnvH := by
  intro f vals e he
  simp only [exEnvH] at he
  split at he
  · simp only [List.mem_singleton] at he; subst he; rfl
  · cases he

theorem exEnvH_whandlers : WHandlers exEnvH := by
  intro hid u e he
  simp only [exEnvH, List.mem_cons, List.mem_nil_iff, or_false] at he
  rcases he with rfl | rfl <;> rfl

/-- `v0 = 1`, `v1 = 5`, `n2 = f1(v0)` (writes `v1 := 4`), `n3 = f0(v1)`, observers `o0` on `n2`, `o1` on `n3`, subscribe
`h0` to `o0`, stabilise, stabilise, `set v0 2`, stabilise, stabilise -/
def exHistH : List Action :=
  [.create (.var (.int 1)), .create (.var (.int 5)), .create (.map 1 [.outer 0]), .create (.map 0 [.outer 1]),
   .observe (.outer 2), .observe (.outer 3), .subscribe 0 0, .stabilise, .stabilise, .set 0 (.int 2), .stabilise,
   .stabilise]

theorem exHistH_actions : ∀ a, a ∈ exHistH → WAction exEnvH a := by
  intro a ha
  simp only [exHistH, List.mem_cons, List.mem_nil_iff, or_false] at ha
  rcases ha with rfl | rfl | rfl | rfl | rfl | rfl | rfl | rfl | rfl | rfl | rfl | rfl
  all_goals first
    | trivial
    | (refine ⟨by decide, fun _ _ => rfl, ?_⟩
       intro a ha
       simp only [List.mem_cons, List.mem_nil_iff, or_false] at ha
       subst ha; trivial)

/-- the events logged by the history, oldest first, rendered as in the traces -/
def logAfter (env : Env) (acts : List Action) : Option (List String) :=
  match runActions env acts (State.init 128 true) #[] with
  | .ok (s, _) => some (s.log.reverse.map Event.render)
  | .error _ => none

set_option maxRecDepth 100000 in
/-- the example is in the fragment and runs: all V3 theorems apply to it -/
example : ∃ s tk, runActions exEnvH exHistH (State.init 128 true) #[] = .ok (s, tk) ∧ UInvE exEnvH s := by
  obtain ⟨s, tk, h⟩ := ranOk_iff (env := exEnvH) (acts := exHistH) (by decide +kernel)
  exact ⟨s, tk, h, history_inv_handlers exEnvH_wonly exEnvH_whandlers exHistH_actions h⟩

set_option maxRecDepth 100000 in
/-- first `stabilise`: the function defers `v1 := 4`; the handler is told `Initialised 1` and then — immediately —
does `v1 += 1` (5) and `replace(v1, 2)`, which returns 5 (the logged `note`): the final `v1` is 2, although the reader
`n3` of `v1` still shows the pre-stabilise 5 and `is_stable()` is false; the second `stabilise` propagates 2 and is
stable.  After `set v0 2` the same happens with `Changed 2`. -/
example : readAfter exEnvH (exHistH.take 8) 1 = some (.int 5) ∧
    varAfter exEnvH (exHistH.take 8) 1 = some (.int 2) ∧
    stableAfter exEnvH (exHistH.take 8) = some false ∧
    readAfter exEnvH (exHistH.take 9) 1 = some (.int 2) ∧
    stableAfter exEnvH (exHistH.take 9) = some true ∧
    varAfter exEnvH (exHistH.take 11) 1 = some (.int 2) ∧
    stableAfter exEnvH (exHistH.take 11) = some false ∧
    stableAfter exEnvH exHistH = some true ∧
    logAfter exEnvH exHistH = some
      ["inv f1@n2 (1)->1", "inv f0@n3 (5)->5", "notif t0 Initialised 1", "note replace v1 -> 5",
       "inv f0@n3 (2)->2", "inv f1@n2 (2)->2", "notif t0 Changed 2", "note replace v1 -> 5"] :=
  ⟨by decide +kernel, by decide +kernel, by decide +kernel, by decide +kernel, by decide +kernel,
    by decide +kernel, by decide +kernel, by decide +kernel, by decide +kernel⟩

/-- the updates logged for token `t` by the history -/
def tokLogAfter (env : Env) (acts : List Action) (t : Nat) : Option (List Update) :=
  match runActions env acts (State.init 128 true) #[] with
  | .ok (s, _) => some (SubsH.tokLog t s.log)
  | .error _ => none

set_option maxRecDepth 100000 in
/-- token 0 receives `Initialised 1`, `Changed 2`, and the specification `specT` computes the same list (as
`history_notifications_with_effects` proves for every history) -/
example : tokLogAfter exEnvH exHistH 0 = some [.initialised (.int 1), .changed (.int 2)] ∧
    SubsH.specT exEnvH 0 exHistH (State.init 128 true) #[] [] = [.initialised (.int 1), .changed (.int 2)] :=
  ⟨by decide +kernel, by decide +kernel⟩

end IncrVerif.Props.C08History
