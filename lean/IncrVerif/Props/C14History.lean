import IncrVerif.Proofs.ExpertH70
import IncrVerif.Proofs.ExpertH54
/-!
# C14 for whole histories — expert nodes with dynamically added dependencies (fragment X1)

C14 (informal): "an expert node with dynamically added and removed dependencies behaves like the equivalent static
node: after every stabilise its value is its recompute function applied to the current values of its current
dependencies; an edge callback is invoked for a dependency exactly when …; make_stale forces exactly one recompute …".
`Props/C14.lean` has the LOCAL facts (one API call each).  Here: the VALUE clause for whole histories.

FRAGMENT X1 (`ExpertH.XActionOK env s a`, `ExpertH.RunOK env acts s tk`).  Static programs (as in
`Props/C01History.lean`: `create` of `const`, `var`, pure `map`, `fold` with id `< xBase = 1000000`, `zip`, over
top-level operands; `observe`, `cloneObs`, `dropObs`, `disallow`; the five writes, `get`; `stabilise`, `isStable`,
`stats`) PLUS `create (expert f)` for closures `f` that are "sum of the dependencies' values modulo m"
(`ExpertH.XEnvOK env f`; `toEnv_sumdeps`: the harness' `expert sumdeps m`, i.e. `f = 10 * m`, is one; `f < xBase`) PLUS
the top-level action `addDep e c cb` (with or without callback), executed BETWEEN stabilisations, under the
well-formedness condition `ExpertH.AddDepOK s e c`: `e` names an expert node and the new edge closes no cycle
(`¬ Below s c n`: `c` does not depend on `e` in the current graph).  Everything else is allowed: dependencies that are
NEWER than the expert node, the same child added several times, children that are expert nodes themselves, children
that are unobserved / never computed (they become necessary at once: `becameNecessary` cascade outside a stabilise),
children HIGHER than the expert node (`adjustHeights` raises the expert node and everything above it), maps and
observers on top of expert nodes, unobserving and re-observing.  The action language has no top-level removal
(`Run.lean`); removal exists only as an effect of node functions (`xRm`, E3 below).  Both `cfg.debug` settings.

METHOD.  (1) `virt s` (`Proofs/ExpertH1.lean`): the VIRTUAL STATIC STATE — every expert node `expert e` is replaced by
the static node `fold (xBase + er.f) (.int 0) [c1, …, ck]` over the CURRENT dependency list of its record, with
`recomputedAt := -1` ("never computed") while the record's `forceStale` flag is up; the expert records are erased and
the events only expert nodes produce are filtered out of the log.  Parents, heights, `changedAt`, values, heap,
staleness and necessity are the same in `s` and `virt s`.  (2) The engine running on `s` SIMULATES the engine running on
`virt s` (`ExpertH23…31`: `Sim`), for every function except the recompute of an expert node (whose effect on the virtual
state is `Sched.StepRel`, `ExpertH39`), `create (expert f)` (`ExpertH50`) and `addDep` (`ExpertH44…48`).  (3) Because an
expert node may get a NEWER node as a child, the invariants of the static fragment (`Quiet1…19`, `MapRef17`) were
re-proved with the creation order replaced by an abstract injective RANK `rk` (`ExpertH3…22`, namespace
`ExpertH.QR`; `adjustHeights`: `ExpertH36…38`); `addDep` may change the rank (`RankOK.addEdge`: a new edge that closes no
cycle admits a rank).

INVARIANT between API actions, `ExpertH.QInvX env rk s`: `XFrag env s` (kinds of the fragment, all nodes valid, expert
nodes and records name each other, records are user-defined, count NO invalid children and have "sum" closures);
`QR.QInv (virtEnv env) rk (virt s)` — the quiescent invariant of the static fragment for the virtual state, which says
in terms of `s`: the expert's edge list is mirrored in the children's `parents` with the right indices (duplicates on one
child allowed) exactly when the expert node is necessary, heights strictly increase along recorded edges, the recompute
heap holds exactly the necessary stale nodes (`forceStale` counts as stale), EVERY non-stale node (necessary or not)
stores its function of its children's values, nothing deferred; and the adjust-heights heap is empty (`QR.AhhEmpty`).

PROVED (for the model; partial correctness: each statement assumes that the call returns `(.ok _, s')`).
* `addDep_keeps`: `addDep` under `AddDepOK` keeps the invariant — on an unnecessary expert node only the record changes;
  on a NECESSARY one the child is linked at once (cascade), heights are adjusted through the expert's own parents, the
  node is queued exactly once.  `create_expert_keeps`, `static_action_keeps`, `action_keeps` (every action of X1).
* `stabilise_pending`: from the invariant with ARBITRARY pending observers a successful `stabilise` ends in the invariant
  (same rank); every necessary node is non-stale and READS `evalX env s' k n`; the state in which `drainHeap` starts and
  the one in which it ends satisfy the drain invariant `ExpertH.DInvX` (scheduling invariant of the virtual state).
  `drain_keeps`: the drain invariant through `drainHeap`.
* `expert_value` (the VALUE CLAUSE of C14): after such a `stabilise` a necessary expert node with record `er` stores
  `(Σ values of er.children) mod m` over the CURRENT values of its CURRENT dependencies, all of which have a value.
  `evalX_expert`: the from-scratch semantics `evalX` of an expert node.
* `init_inv`, `history_inv`, `history_every_stabilise`: every state reached from `State.init N d` by a history of X1
  satisfies the invariant (for some rank); at every `stabilise` of the history EVERY IN-USE OBSERVER READS `evalX` of
  its node, no necessary node is stale, every observer is in use or unlinked.
* Non-vacuity: `exHistX` (20 actions: an expert node created BEFORE its dependencies, `addDep` to the unobserved and to
  the observed node, with and without callback, a map on top of the expert, a dependency of height 4 added to the
  necessary expert of height 3 — heights adjusted to 5 and 6 —, a duplicate dependency) is a history of X1
  (`runOKB`, checked by kernel evaluation), runs, and its reads are the sums; `exHistX_inv`.

FINDINGS (none contradicts the value clause; model and real implementation agree on all 22 300 random histories).
The CALLBACK clause of C14 as literally stated ("a callback is invoked exactly when the dependency is new since the
node's last recompute and has a value, or its value changed") is FALSE for model and implementation alike, because
`became_unnecessary` sets `will_fire_all_callbacks`: (F-a) an expert node that is unobserved and re-observed while not
stale keeps the flag over the next stabilise; its next recompute fires the callbacks of ALL dependencies, also of the
unchanged, non-new ones (`/tmp/expert/hunt/finding_1.hist`); (F-b) if a driver of another expert node unlinks and
re-links an expert node inside one stabilise after one of its children has already changed, that dependency gets TWO
callbacks with the same value in one stabilise (`finding_2.hist`).  Also: `addDep … cb` on a necessary expert node
fires the callback at the `addDep` action itself when the child has a value.

E2 — THE CALLBACK DISCIPLINE (`Proofs/ExpertH55…65`), proved for the same fragment X1 (expert nodes whose dependencies
were added with `cb` keep `slots`; the "sum" closures of X1 ignore them, so this is a statement about the bookkeeping).
`ExpertH.Good env s er`: for every dependency of the record that has a callback, the stored slot is the CURRENT value of
the dependency's child (absent iff the child has no value).  `ExpertH.SlotInv env s`: dependency names are pairwise
distinct and below `nextDep`; the "fire all callbacks" flag is down only on necessary nodes; every expert node whose
flag is down OR that is not stale is `Good`.
* `slots_stabilise`, `slots_action`, `slots_history`, `history_every_stabilise_slots`: `SlotInv` is kept by `stabilise`
  (through `addNewObservers`, `unlinkDisallowedObservers`, every `recomputeOne` of the drain — `ExpertH.mcv_slots`: the
  parent walk of `maybe_change_value_manual` delivers the new value to the callback of EVERY edge, of every flag-down
  expert parent, that has the changed node as child, also several edges on one child —, `stabiliseEnd`), by every action
  of X1 (`addDep … cb` on a necessary expert node: the link-time callback stores the child's value if it has one) and
  hence by whole histories; after every `stabilise` (`ExpertH.SlotsCurrent`): for every NECESSARY expert node and every
  dependency with a callback the child has a value `v` and the slot holds `v` — so a closure that sums the slots
  ("cbsum") sees exactly the current values of its callback dependencies.
* Outside recomputes a slot changes only by a delivery of the current value of the child of the dependency it is named
  after, and only on a record whose flag is down (`ExpertH.SR`, ladder `PresR.*`).
* FRAGMENT X2 (`Proofs/ExpertH66…70`) = X1 + closures that READ THE SLOTS ("cbsum": `ExpertH.XEnvCb env f` — applied to slots that are the
  dependency values, `f` is the sum modulo m; `toEnv_cbsum`: the harness' `expert cbsum m`, `f = 10 * m + 1`), for expert
  nodes ALL of whose dependencies are added with a callback (`ExpertH.XActionOK2`: `addDep … nocb` only on nodes whose
  closure does not read the slots; invariant `ExpertH.CbInv`).  `ExpertH.envS env`: the environment in which every
  closure gets the dependency values in place of the slots.  `runs_agree` (`stabilise_agrees`, `ExpertH.recomputeOne_eq`,
  `drainHeap_eq`, `step_eq`): under the callback discipline the engine behaves IDENTICALLY under `env` and `envS env` —
  at every recompute of an expert node the slots of its callback edges ARE the dependency values (`readyRec_good`) —, so
  `history_every_stabilise_x2`: at every `stabilise` of a history of X2 run under the ACTUAL `env`, every in-use observer
  reads `evalX` (a "cbsum" node: the sum of the current values of its current dependencies), all callback slots of
  necessary expert nodes are current, and the invariants hold (for `envS env`).  Non-vacuity: `exHistC` (a `cbsum` expert
  that is unobserved and re-observed — finding F-a —, gets a third dependency while observed; a `sumdeps` expert with a
  `cb` and a `nocb` edge on the same child).
* NOT PROVED for E2: "cbsum" experts with a MIX of callback and non-callback dependencies (their value is the sum over
  the callback dependencies only; the virtual `fold` node cannot express a positional mask); EXACTNESS of the callback
  events on the log — as literally stated it is FALSE, see FINDINGS.

E3 — DEPENDENCIES EDITED FROM INSIDE NODE FUNCTIONS (`Proofs/ExpertH54.lean`, pure logic over explicit invariants, as
`Props/C03Order.lean` did for binds with `StepL`).  `Drv.StepD env X n v ch r s s'`: the contract of a DRIVER step —
node `n` (a child of every rewired node `x`, `X x`: `assertRunningIsChild`) runs, computes `v`, and rewires the nodes
`x`: their child lists change, children become necessary/unnecessary, heights are adjusted, `x` is stale afterwards and
not stamped in this round; no node is created or invalidated; the new structure/heap are given wholesale (`BGraph`,
`HeapInv`, `qstale'`, `pending'`), every node `≠ n` keeps validity, value, `changedAt`, and — unless rewired — kind,
stamp and children.  States are states whose valid nodes have `BindH.BKind` kinds (in the application: virtual states).
* `driver_step_keeps` (`stepD_inv`): `BindH.DInv env s (some n)` + `StepD` ⟹ `BindH.DInv env s' r` — the drain invariant
  with a CHANGING graph (consistency of every non-stale node, "nothing above a stale node has run in this round" through
  the edges of the NEW graph, nothing at or below the current node queued) survives a driver step.
* `expert_after_drivers`: when a node `x` is about to run under `DInv`, every child of `x` — in particular every driver —
  is necessary, not queued, not stale and carries its defining value: the expert node runs after all its drivers.
* `drained_values`: with `DInv … none` and an empty heap every necessary node carries `BindH.evalB` in the FINAL graph:
  the expert's final value is its function of its final dependencies.
* NOT PROVED for E3: that a run of the model's `recomputeOne` on a node with `xAdd`/`xRm`/`xSel`/`xStale` effects
  satisfies `StepD` for the virtual states (it needs the unlinking analogue of `addDep_necessary` inside the drain and a
  virtualisation of effectful `map` nodes), `xInval`, and therefore no whole-history theorem with drivers; `make_stale`
  is only reachable from node functions and is covered only by the local facts of `Props/C14.lean`.

ASSUMED / NOT PROVED (all parts).  Partial correctness throughout (no "never panics" theorem for X1; a cyclic `addDep` on
a necessary node panics with `cyclic`, on an unnecessary node it silently records the cycle — excluded by `AddDepOK`).
No top-level removal exists in the action language.
-/
namespace IncrVerif.Props.C14History
open IncrVerif.Engine IncrVerif.Driver IncrVerif.Proofs IncrVerif.Proofs.Sched IncrVerif.Proofs.ExpertH
open IncrVerif.Proofs.ExpertH.QR

/-! ## the fragment -/

/-- the harness' closure `expert sumdeps m` (`f = 10 * m`) is "sum of the dependencies' values modulo m" -/
theorem toEnv_sumdeps (d : Defs) (f : Nat) (h : f % 10 = 0) : XEnvOK d.toEnv f := toEnv_xEnvOK d f h

/-- what the closure is: `xStep f` folded over the values = the sum of the integer views modulo `f / 10` -/
theorem closure_sum (f : Nat) (vals : List Val) :
    vals.foldl (xStep f) (.int 0) = .int (emod ((vals.map Val.toInt).foldl (· + ·) 0) ((f / 10 : Nat) : Int)) :=
  foldl_xStep f vals

/-- a new edge `n → c` that closes no cycle admits a rank again -/
theorem acyclic_rank {rk : Nat → Nat} {s s' : State} (R : RankOK rk s) {n c : Nat}
    (hn : n < s.nodes.size) (hc : c < s.nodes.size) (hacyc : ¬ Below s c n)
    (hsz : s'.nodes.size = s.nodes.size)
    (hother : ∀ m, m ≠ n → kidsX s'.experts (s'.nodeD m).kind = kidsX s.experts (s.nodeD m).kind)
    (hself : kidsX s'.experts (s'.nodeD n).kind = kidsX s.experts (s.nodeD n).kind ++ [c]) :
    ∃ rk', RankOK rk' s' := R.addEdge hn hc hacyc hsz hother hself

/-- the invariant, spelled out -/
theorem inv_parts {env : Env} {rk : Nat → Nat} {s : State} (Q : QInvX env rk s) :
    XFrag env s ∧ QR.QInv (virtEnv env) rk (virt s) ∧ QR.AhhEmpty s := ⟨Q.frag, Q.q, Q.ahh⟩

/-- the virtual state has the children, staleness, necessity and values of the actual state -/
theorem virt_reads (env : Env) (s : State) (F : XFrag env s) (m : Nat) :
    (virt s).children m = s.children m ∧ (virt s).isStale m = s.isStale m ∧
      (virt s).isNecessary m = s.isNecessary m ∧ (virt s).value (virtEnv env) m = s.value env m :=
  ⟨virt_children s m, virt_isStale s m, virt_isNecessary s m, virt_value s env m F.noMapRef⟩

/-! ## E1: the actions -/

/-- **`addDep` keeps the invariant** (for a new rank): the expert node is necessary or not, the child is older or
newer, necessary or not, lower or higher. -/
theorem addDep_keeps {env : Env} {rk : Nat → Nat} {s s' : State} {eo co : Opnd} {cb : Bool} {tk : Array Nat}
    {r : String × Array Nat} (Q : QInvX env rk s) (hok : AddDepOK s eo co)
    (h : (stepAction env (.addDep eo co cb) tk).run.run s = (.ok r, s')) : ∃ rk', QInvX env rk' s' :=
  step_addDep Q hok h

/-- `addDep` on an expert node that is NOT necessary: exactly the record changes -/
theorem addDep_unnecessary {env : Env} {rk : Nat → Nat} {s s' : State} {fuel n c e dep : Nat} {cb : Bool}
    {nd : Node} {er : ExpertRec} (Q : QInvX env rk s) (hx : Xp.IsExpert s n nd e er)
    (hnec : nd.isNecessary = false) (hc : c < s.nodes.size) (hacyc : ¬ Below s c n)
    (h : (expertAddDependency env fuel n c cb).run.run s = (.ok dep, s')) :
    ∃ rk', QInvX env rk' s' ∧ s' = addedState e er c cb s := by
  obtain ⟨rk', F', Q', A', e'⟩ := addDep_unnec Q.frag Q.q Q.ahh hx hnec hc hacyc h
  exact ⟨rk', ⟨F', Q', A'⟩, e'⟩

/-- `addDep` on a NECESSARY expert node (`state_add_parent`: linking cascade, `adjust_heights`, heap insertion) -/
theorem addDep_necessary {env : Env} {rk : Nat → Nat} {s s' : State} {fuel n c e dep : Nat} {cb : Bool}
    {nd : Node} {er : ExpertRec} (Q : QInvX env rk s) (hx : Xp.IsExpert s n nd e er)
    (hnec : nd.isNecessary = true) (hc : c < s.nodes.size) (hacyc : ¬ Below s c n)
    (h : (expertAddDependency env fuel n c cb).run.run s = (.ok dep, s')) : ∃ rk', QInvX env rk' s' := by
  obtain ⟨rk', F', Q', A'⟩ := addDep_nec Q.frag Q.q Q.ahh hx hnec hc hacyc h
  exact ⟨rk', ⟨F', Q', A'⟩⟩

theorem create_expert_keeps {env : Env} {rk : Nat → Nat} {f : Nat} {tk : Array Nat} {s s' : State}
    {r : String × Array Nat} (Q : QInvX env rk s) (hf : XEnvOK env f) (hfb : f < xBase)
    (h : (stepAction env (.create (.expert f)) tk).run.run s = (.ok r, s')) : QInvX env rk s' :=
  step_create_expert Q hf hfb h

theorem static_action_keeps {env : Env} {rk : Nat → Nat} {s s' : State} {a : Action} {tk : Array Nat}
    {r : String × Array Nat} (Q : QInvX env rk s) (ha : XStaticAction env a)
    (h : (stepAction env a tk).run.run s = (.ok r, s')) : QInvX env rk s' :=
  action_static Q ha h

/-- **every action of fragment X1 that returns keeps the invariant** -/
theorem action_keeps {env : Env} {rk : Nat → Nat} {s s' : State} {a : Action} {tk : Array Nat}
    {r : String × Array Nat} (Q : QInvX env rk s) (ha : XActionOK env s a)
    (h : (stepAction env a tk).run.run s = (.ok r, s')) : ∃ rk', QInvX env rk' s' :=
  step_x Q ha h

/-! ## E1: `stabilise` -/

/-- the drain invariant (scheduling invariant of the virtual state) through `drainHeap` -/
theorem drain_keeps {env : Env} {fuel : Nat} {s s' : State} (D : DInvX env s none)
    (h : (drainHeap env fuel).run.run s = (.ok (), s')) : DInvX env s' none ∧ s'.rch.length = 0 := by
  obtain ⟨D', he, -⟩ := drainHeapX_inv fuel s s' D h
  exact ⟨D', he⟩

/-- one `recomputeOne` on the current node of the drain invariant — an expert node or a static node -/
theorem recomputeOne_keeps {env : Env} {fuel n : Nat} {s s' : State} {r : Option Nat}
    (D : DInvX env s (some n)) (h : (recomputeOne env fuel n).run.run s = (.ok r, s')) : DInvX env s' r :=
  (recomputeOneX_inv D h).1

/-- **`stabilise` with pending observers.**  See `ExpertH.StabilisedX`: `inv : QInvX env rk s'`, `values` (every
necessary node is not stale and READS `evalX env s' k n`, which exists), `drain`, `virt` (the conclusions of
`C01History.stabilise_pending` for the virtual states). -/
theorem stabilise_pending {env : Env} {rk : Nat → Nat} {fuel : Nat} {s s' : State} (Q : QInvX env rk s)
    (h : (stabilise env fuel).run.run s = (.ok (), s')) : StabilisedX env rk fuel s s' :=
  stabiliseX Q h

theorem stabilise_reads {env : Env} {rk : Nat → Nat} {fuel : Nat} {s s' : State} (Q : QInvX env rk s)
    (h : (stabilise env fuel).run.run s = (.ok (), s')) :
    ReadsOKX env s' ∧ ObsSettled s' ∧ ∀ n, s'.isNecessary n = true → s'.isStale n = false :=
  stabilisedX_reads (stabiliseX Q h)

/-- from-scratch evaluation of an expert node: its closure folded over the evaluations of its CURRENT dependencies -/
theorem evalX_expert (env : Env) (s : State) (k n e : Nat) (hk : (s.nodeD n).kind = .expert e) :
    evalX env s (k + 1) n =
      (evalArgs (fun a => evalX env s k a) ((xRec s.experts e).children.map (·.child))).map
        (List.foldl (xStep (xRec s.experts e).f) (.int 0)) :=
  ExpertH.evalX_expert env s k n e hk

/-- **C14, the value clause.**  After a `stabilise` of the fragment a necessary expert node carries the sum modulo
`m = er.f / 10` of the current values of its current dependencies (edge order, duplicates counted). -/
theorem expert_value {env : Env} {rk : Nat → Nat} {fuel : Nat} {s s' : State} (Q : QInvX env rk s)
    (h : (stabilise env fuel).run.run s = (.ok (), s')) {n e : Nat} {er : ExpertRec}
    (hn : s'.isNecessary n = true) (hk : (s'.nodeD n).kind = .expert e) (hx : s'.experts[e]? = some er) :
    ∃ vals : List Val, er.children.map (fun ed => s'.value env ed.child) = vals.map some ∧
      s'.value env n = some (.int (emod ((vals.map Val.toInt).foldl (· + ·) 0) ((er.f / 10 : Nat) : Int))) :=
  expert_value_sum (stabiliseX Q h) hn hk hx

/-! ## E1: whole histories -/

theorem init_inv (env : Env) (N : Nat) (d : Bool) : QInvX env (fun m => m) (State.init N d) := qinvX_init env N d

theorem history_inv {env : Env} {N : Nat} {d : Bool} {acts : List Action} {s : State} {tk : Array Nat}
    (ha : RunOK env acts (State.init N d) #[])
    (h : runActions env acts (State.init N d) #[] = .ok (s, tk)) : ∃ rk, QInvX env rk s :=
  history_x ha h

/-- **C14 (value clause) for whole histories.**  At every `stabilise` of a history of fragment X1 that runs from the
initial state: the state before satisfies the invariant; afterwards every observer in use reads the from-scratch value
`evalX` of its node (an expert node: the sum of the from-scratch values of its current dependencies), no necessary node
is stale, every observer is in use or unlinked. -/
theorem history_every_stabilise {env : Env} {N : Nat} {d : Bool} {as bs : List Action} {s : State} {tk : Array Nat}
    (ha : RunOK env (as ++ Action.stabilise :: bs) (State.init N d) #[])
    (h : runActions env (as ++ Action.stabilise :: bs) (State.init N d) #[] = .ok (s, tk)) :
    ∃ s1 tk1 s2 rk1, runActions env as (State.init N d) #[] = .ok (s1, tk1) ∧ QInvX env rk1 s1 ∧
      (stabilise env fuelDefault).run.run s1 = (.ok (), s2) ∧ StabilisedX env rk1 fuelDefault s1 s2 ∧
      ReadsOKX env s2 ∧ ObsSettled s2 ∧ (∀ n, s2.isNecessary n = true → s2.isStale n = false) ∧
      runActions env bs s2 tk1 = .ok (s, tk) :=
  history_stabilise_x ha h

/-- a decidable sufficient check of `RunOK` (it runs the history on the model) -/
theorem runOK_of_check {env : Env} {mapOK xOK : Nat → Bool}
    (hm : ∀ f, mapOK f = true → f < fnPerKey ∧ (f < fnZip → ∀ vals, env.fnEff f vals = []))
    (hx : ∀ f, xOK f = true → XEnvOK env f ∧ f < xBase) {acts : List Action} {s : State} {tk : Array Nat}
    (h : runOKB env mapOK xOK acts s tk = true) : RunOK env acts s tk :=
  runOKB_sound hm hx acts s tk h

/-! ## E2: the callback discipline -/

/-- `stabilise` keeps the callback discipline -/
theorem slots_stabilise {env : Env} {rk : Nat → Nat} {fuel : Nat} {s s' : State} (Q : QInvX env rk s)
    (L : SlotInv env s) (h : (stabilise env fuel).run.run s = (.ok (), s')) :
    SlotInv env s' ∧ SlotsCurrent env s' := by
  have L' := stabilise_slots Q L h
  exact ⟨L', slotsCurrent_of_stabilised (stabiliseX Q h) L'⟩

/-- one `recomputeOne` of the drain keeps the callback discipline (`U`: the unnecessary nodes have not been recomputed in
this round and the non-stale ones are consistent — part of what `stabilise` knows when the drain starts) -/
theorem slots_recomputeOne {env : Env} {fuel n : Nat} {s s' : State} {r : Option Nat}
    (D : DInvX env s (some n)) (U : UnnecOK (virtEnv env) (virt s)) (L : SlotInv env s)
    (h : (recomputeOne env fuel n).run.run s = (.ok r, s')) : SlotInv env s' :=
  recomputeOneX_slots D U L h

/-- every action of fragment X1 keeps the callback discipline -/
theorem slots_action {env : Env} {rk : Nat → Nat} {s s' : State} {a : Action} {tk : Array Nat}
    {r : String × Array Nat} (Q : QInvX env rk s) (L : SlotInv env s) (ha : XActionOK env s a)
    (h : (stepAction env a tk).run.run s = (.ok r, s')) : SlotInv env s' :=
  step_x_slots Q L ha h

theorem slots_history {env : Env} {N : Nat} {d : Bool} {acts : List Action} {s : State} {tk : Array Nat}
    (ha : RunOK env acts (State.init N d) #[])
    (h : runActions env acts (State.init N d) #[] = .ok (s, tk)) : ∃ rk, QInvX env rk s ∧ SlotInv env s :=
  history_slots ha h

/-- **E2 for whole histories.**  At every `stabilise` of a history of fragment X1: afterwards, for every necessary
expert node and every dependency with a callback, the stored slot is the current value of the dependency's child. -/
theorem history_every_stabilise_slots {env : Env} {N : Nat} {d : Bool} {as bs : List Action} {s : State}
    {tk : Array Nat} (ha : RunOK env (as ++ Action.stabilise :: bs) (State.init N d) #[])
    (h : runActions env (as ++ Action.stabilise :: bs) (State.init N d) #[] = .ok (s, tk)) :
    ∃ s1 tk1 s2 rk1, runActions env as (State.init N d) #[] = .ok (s1, tk1) ∧ QInvX env rk1 s1 ∧ SlotInv env s1 ∧
      (stabilise env fuelDefault).run.run s1 = (.ok (), s2) ∧ StabilisedX env rk1 fuelDefault s1 s2 ∧
      SlotInv env s2 ∧ SlotsCurrent env s2 ∧ ReadsOKX env s2 ∧
      runActions env bs s2 tk1 = .ok (s, tk) :=
  history_stabilise_slots ha h

/-! ## E2, fragment X2: closures that read the slots -/

/-- the harness' closure `expert cbsum m` (`f = 10 * m + 1`), on slots that are the dependency values -/
theorem toEnv_cbsum (d : Defs) (f : Nat) (h : f % 10 = 1) : XEnvCb d.toEnv f := toEnv_xEnvCb d f h

/-- under `envS env` every such closure is a "sum of the dependencies" closure of fragment X1 -/
theorem envS_closure {env : Env} {f : Nat} (h : XEnvCb env f) : XEnvOK (envS env) f := xEnvOK_envS h

/-- **`stabilise` behaves identically under `env` and `envS env`** (same result, same final state, also when it panics) -/
theorem stabilise_agrees {env : Env} {rk : Nat → Nat} {fuel : Nat} {s : State} (Q : QInvX (envS env) rk s)
    (L : SlotInv (envS env) s) (C : CbInv env s) :
    (stabilise env fuel).run.run s = (stabilise (envS env) fuel).run.run s := stabilise_eq Q L C

/-- **whole runs of fragment X2 behave identically under `env` and `envS env`**, and are runs of fragment X1 under
`envS env` -/
theorem runs_agree {env : Env} {rk : Nat → Nat} {acts : List Action} {s : State} {tk : Array Nat}
    (Q : QInvX (envS env) rk s) (L : SlotInv (envS env) s) (C : CbInv env s) (ha : RunOK2 env acts s tk) :
    runActions env acts s tk = runActions (envS env) acts s tk ∧ RunOK (envS env) acts s tk :=
  ⟨(run_eq Q L C ha).1, (run_eq Q L C ha).2.1⟩

/-- **C14 (value clause and callback discipline) for whole histories of fragment X2.** -/
theorem history_every_stabilise_x2 {env : Env} {N : Nat} {d : Bool} {as bs : List Action} {s : State}
    {tk : Array Nat} (ha : RunOK2 env (as ++ Action.stabilise :: bs) (State.init N d) #[])
    (h : runActions env (as ++ Action.stabilise :: bs) (State.init N d) #[] = .ok (s, tk)) :
    ∃ s1 tk1 s2 rk1, runActions env as (State.init N d) #[] = .ok (s1, tk1) ∧ QInvX (envS env) rk1 s1 ∧
      SlotInv (envS env) s1 ∧ CbInv env s1 ∧
      (stabilise env fuelDefault).run.run s1 = (.ok (), s2) ∧ StabilisedX (envS env) rk1 fuelDefault s1 s2 ∧
      SlotInv (envS env) s2 ∧ SlotsCurrent env s2 ∧ ReadsOKX env s2 ∧
      runActions env bs s2 tk1 = .ok (s, tk) :=
  history_stabilise_x2 ha h

/-- a decidable sufficient check of `RunOK2` (`xOK f`: closure usable in expert nodes; `sOK f`: it does not read the
slots) -/
theorem runOK2_of_check {env : Env} {mapOK xOK sOK : Nat → Bool}
    (hm : ∀ f, mapOK f = true → f < fnPerKey ∧ (f < fnZip → ∀ vals, env.fnEff f vals = []))
    (hx : ∀ f, xOK f = true → XEnvCb env f ∧ f < xBase) (hs : ∀ f, sOK f = true → XEnvOK env f)
    {acts : List Action} {s : State} {tk : Array Nat}
    (h : runOKB2 env mapOK xOK sOK acts s tk = true) : RunOK2 env acts s tk :=
  runOKB2_sound hm hx hs acts s tk h

/-! ## E3: driver steps (pure logic over explicit invariants) -/

/-- **a driver step keeps the drain invariant** (graph changing during the drain) -/
theorem driver_step_keeps {env : Env} {X : Nat → Prop} {n : Nat} {v : Val} {ch : Bool} {r : Option Nat}
    {s s' : State} (I : BindH.DInv env s (some n)) (R : Drv.StepD env X n v ch r s s') : BindH.DInv env s' r :=
  Drv.stepD_inv I R

/-- **the expert node runs after all its drivers**: when `x` is about to run every child of `x` is necessary, not
queued, not stale, and carries its defining value -/
theorem expert_after_drivers {env : Env} {x : Nat} {s : State} (I : BindH.DInv env s (some x)) :
    ∀ c, c ∈ s.children x → s.isNecessary c = true ∧ (s.nodeD c).inRch = false ∧ s.isStale c = false ∧
      BindH.ConsistentB env s c :=
  fun c hc => ⟨(Drv.children_settled I c hc).1, (Drv.children_settled I c hc).2.1,
    (Drv.children_settled I c hc).2.2, Drv.children_consistent I c hc⟩

/-- the stamp clause of the contract holds when the rewiring leaves the stamp of `x` alone -/
theorem driver_parent_fresh {env : Env} {s : State} {n x : Nat} (I : BindH.DInv env s (some n))
    (h : n ∈ s.children x) : (s.nodeD x).recomputedAt < s.stabNum := Drv.parent_fresh I h

/-- **the final values**: drain invariant and empty heap ⟹ every necessary node carries the from-scratch value of the
FINAL graph -/
theorem drained_values {env : Env} {s : State} (I : BindH.DInv env s none) (he : s.rch.length = 0)
    (n : Nat) (hn : s.isNecessary n = true) (k : Nat) (hk : (s.nodeD n).height.toNat < k) :
    (s.nodeD n).valid = true ∧ s.isStale n = false ∧ s.value env n = BindH.evalB env s k n ∧
      (BindH.evalB env s k n).isSome = true := by
  obtain ⟨h1, h2, -, h4, h5⟩ := BindH.drained_valuesB I he n hn k hk
  exact ⟨h1, h2, h4, h5⟩

/-! ## non-vacuity -/

/-- `fn f0 lin 7 1 1` (`1 + x mod 7`), `fn f1 lin 7 0 2` (`2x mod 7`), the harness' expert closures -/
def exEnvX : Env where
  fn := fun f args =>
    let x : Int := (args.headD .unit).toInt
    match f with
    | 0 => .int (emod (1 + x) 7)
    | 1 => .int (emod (2 * x) 7)
    | _ => .int 0
  fnEff := fun _ _ => []
  foldStep := fun _ acc _ => acc
  proj := fun _ v => v
  withOld := fun _ σ _ x => (σ, x, true)
  cutoff := fun _ a b => a == b
  body := fun _ _ => { instrs := [], ret := .outer 0 }
  handler := fun _ _ => []
  expertFn := fun f deps slots =>
    let m : Int := f / 10
    let un (o : Option Val) : Int := match o with | some v => v.toInt | none => 100
    if f % 10 == 0 then .int (emod (deps.foldl (fun a o => a + un o) 0) m)
    else .int (emod ((slots.zip deps).foldl (fun a (so : Option Val × Option Val) =>
      a + (match so.1 with | some v => v.toInt | none => 0)) 0) m)
  withOldCalls := fun _ _ _ _ => []
  memo := fun _ => { instrs := [], ret := .abs 0 }
  perKey := fun _ => { instrs := [], ret := .loc 0 }

theorem foldl_un (un : Option Val → Int) (hun : ∀ v, un (some v) = v.toInt) (vals : List Val) (a : Int) :
    (vals.map some).foldl (fun a o => a + un o) a = (vals.map Val.toInt).foldl (· + ·) a := by
  induction vals generalizing a with
  | nil => rfl
  | cons v vs ih => simp only [List.map_cons, List.foldl_cons, hun]; exact ih _

theorem exEnvX_sumdeps (f : Nat) (h : f % 10 = 0) : XEnvOK exEnvX f := by
  intro vals slots
  rw [foldl_xStep]
  show (if (f % 10 == 0) = true then _ else _) = _
  rw [if_pos (by simp [h])]
  have e2 : ((f : Int) / 10) = ((f / 10 : Nat) : Int) := by omega
  rw [foldl_un _ (fun _ => rfl), e2]

/-- `var 2; var 3; expert sumdeps 7; map f0 n0; adddep n2 n3 nocb; observe n2; stabilise; adddep n2 n1 cb; stabilise;
set v0 5; stabilise; map f1 n2; observe n4; stabilise; map f0 n3; map f0 n5; adddep n2 n6 nocb; stabilise;
adddep n2 n3 nocb; stabilise` -/
def exHistX : List Action :=
  [.create (.var (.int 2)), .create (.var (.int 3)), .create (.expert 70), .create (.map 0 [.outer 0]),
   .addDep (.outer 2) (.outer 3) false, .observe (.outer 2), .stabilise,
   .addDep (.outer 2) (.outer 1) true, .stabilise,
   .set 0 (.int 5), .stabilise,
   .create (.map 1 [.outer 2]), .observe (.outer 4), .stabilise,
   .create (.map 0 [.outer 3]), .create (.map 0 [.outer 5]), .addDep (.outer 2) (.outer 6) false, .stabilise,
   .addDep (.outer 2) (.outer 3) false, .stabilise]

set_option maxRecDepth 100000 in
/-- the example is a history of fragment X1: every action is checked in the state in which it is executed (the acyclicity
condition of each `addDep` by computing the nodes below the new child) -/
theorem exHistX_ok : RunOK exEnvX exHistX (State.init 128 true) #[] :=
  runOK_of_check (mapOK := fun f => decide (f < 2)) (xOK := fun f => f == 70)
    (fun f hf => by
      have : f < 2 := by simpa using hf
      exact ⟨by unfold fnPerKey; omega, fun _ _ => rfl⟩)
    (fun f hf => by
      have : f = 70 := by simpa using hf
      subst this
      exact ⟨exEnvX_sumdeps 70 (by decide), by decide⟩)
    (by decide +kernel)

def ranOk (env : Env) (acts : List Action) : Bool :=
  match runActions env acts (State.init 128 true) #[] with
  | .ok _ => true
  | .error _ => false

/-- what observer `o` reads after the history -/
def readAfter (env : Env) (acts : List Action) (o : Nat) : Option Val :=
  match runActions env acts (State.init 128 true) #[] with
  | .ok (s, _) => match s.tryGetValue env o with | .ok v => some v | .error _ => none
  | .error _ => none

/-- the heights after the history -/
def heightsAfter (env : Env) (acts : List Action) : List Int :=
  match runActions env acts (State.init 128 true) #[] with
  | .ok (s, _) => (List.range s.nodes.size).map fun n => (s.nodeD n).height
  | .error _ => []

theorem ranOk_iff {env : Env} {acts : List Action} (h : ranOk env acts = true) :
    ∃ s tk, runActions env acts (State.init 128 true) #[] = .ok (s, tk) := by
  unfold ranOk at h
  rcases hx : runActions env acts (State.init 128 true) #[] with e | ⟨s, tk⟩
  · rw [hx] at h; cases h
  · exact ⟨s, tk, rfl⟩

set_option maxRecDepth 100000 in
/-- the example history runs (so `history_every_stabilise` applies to each of its seven `stabilise`s) and its final
state satisfies the invariant -/
theorem exHistX_inv : ∃ s tk rk, runActions exEnvX exHistX (State.init 128 true) #[] = .ok (s, tk) ∧
    QInvX exEnvX rk s := by
  obtain ⟨s, tk, h⟩ := ranOk_iff (env := exEnvX) (acts := exHistX) (by decide +kernel)
  obtain ⟨rk, Q⟩ := history_inv exHistX_ok h
  exact ⟨s, tk, rk, h, Q⟩

set_option maxRecDepth 100000 in
/-- the reads of observer `o0` (on the expert node `n2`) after each stabilise: `f0(2) = 3`; `+ v1 = 6`;
`f0(5) + 3 = 9 mod 7 = 2`; unchanged; `6 + 3 + f0(f0(6)) = 10 mod 7 = 3`; with `n3` counted twice `= 2`; observer `o1`
(on `n4 = 2 * n2 mod 7`) reads `4`, `6`, `4`; the expert node (height 3 after the var was added, its parent 4) ends at height 5, its
parent at 6 -/
example : readAfter exEnvX (exHistX.take 7) 0 = some (.int 3) ∧ readAfter exEnvX (exHistX.take 9) 0 = some (.int 6) ∧
    readAfter exEnvX (exHistX.take 11) 0 = some (.int 2) ∧ readAfter exEnvX (exHistX.take 14) 0 = some (.int 2) ∧
    readAfter exEnvX (exHistX.take 14) 1 = some (.int 4) ∧
    readAfter exEnvX (exHistX.take 18) 0 = some (.int 3) ∧ readAfter exEnvX (exHistX.take 18) 1 = some (.int 6) ∧
    readAfter exEnvX exHistX 0 = some (.int 2) ∧ readAfter exEnvX exHistX 1 = some (.int 4) ∧
    heightsAfter exEnvX (exHistX.take 14) = [1, 1, 3, 2, 4] ∧
    heightsAfter exEnvX exHistX = [1, 1, 5, 2, 6, 3, 4] :=
  ⟨by decide +kernel, by decide +kernel, by decide +kernel, by decide +kernel, by decide +kernel,
    by decide +kernel, by decide +kernel, by decide +kernel, by decide +kernel, by decide +kernel,
    by decide +kernel⟩

/-- the slots of expert record `e` after the history -/
def slotsAfter (env : Env) (acts : List Action) (e : Nat) : List (Nat × Val) :=
  match runActions env acts (State.init 128 true) #[] with
  | .ok (s, _) => ((s.experts[e]?).map ExpertRec.slots).getD []
  | .error _ => []

set_option maxRecDepth 100000 in
/-- E2: the dependency `d1` (on the var node `n1`) was added with a callback to the NECESSARY expert node; `n1` had never
been computed, so nothing is stored at the `addDep` action; the next `stabilise` computes `n1 = 3` and the callback
stores it; the slot holds 3 ever after -/
example : slotsAfter exEnvX (exHistX.take 8) 0 = [] ∧ slotsAfter exEnvX (exHistX.take 9) 0 = [(1, .int 3)] ∧
    slotsAfter exEnvX exHistX 0 = [(1, .int 3)] :=
  ⟨by decide +kernel, by decide +kernel, by decide +kernel⟩

/-- E2 for the example: the final state satisfies the callback discipline -/
theorem exHistX_slots : ∃ s tk rk, runActions exEnvX exHistX (State.init 128 true) #[] = .ok (s, tk) ∧
    QInvX exEnvX rk s ∧ SlotInv exEnvX s := by
  obtain ⟨s, tk, rk, h, -⟩ := exHistX_inv
  obtain ⟨rk', Q, L⟩ := slots_history exHistX_ok h
  exact ⟨s, tk, rk', h, Q, L⟩

/-! ### fragment X2 -/

theorem foldl_zip_un (un : Option Val → Int) (hun : ∀ v, un (some v) = v.toInt) (vals : List Val) (a : Int) :
    (((vals.map some).zip (vals.map some)).foldl (fun a (so : Option Val × Option Val) => a + un so.1) a) =
      (vals.map Val.toInt).foldl (· + ·) a := by
  induction vals generalizing a with
  | nil => rfl
  | cons v vs ih => simp only [List.map_cons, List.zip_cons_cons, List.foldl_cons, hun]; exact ih _

theorem exEnvX_cbsum (f : Nat) (h : f % 10 = 1) : XEnvCb exEnvX f := by
  intro vals
  rw [foldl_xStep]
  show (if (f % 10 == 0) = true then _ else _) = _
  rw [if_neg (by simp [h])]
  have e2 : ((f : Int) / 10) = ((f / 10 : Nat) : Int) := by omega
  have key := foldl_zip_un (fun o => match o with | some v => v.toInt | none => 0) (fun _ => rfl) vals 0
  rw [e2]
  exact congrArg (fun x => Val.int (emod x ((f / 10 : Nat) : Int))) key

/-- `var 2; var 3; expert cbsum 7; adddep n2 n0 cb; adddep n2 n1 cb; observe n2; stabilise; disallow o0; stabilise;
observe n2; stabilise` (re-observed, not stale, not recomputed: the fire-all flag stays up — finding F-a) `; set v0 3;
stabilise; map f0 n0; adddep n2 n3 cb; stabilise; set v0 4; set v1 0; stabilise; expert sumdeps 7; adddep n4 n2 cb;
adddep n4 n2 nocb; observe n4; stabilise; set v1 6; stabilise` -/
def exHistC : List Action :=
  [.create (.var (.int 2)), .create (.var (.int 3)), .create (.expert 71),
   .addDep (.outer 2) (.outer 0) true, .addDep (.outer 2) (.outer 1) true, .observe (.outer 2), .stabilise,
   .disallow 0, .stabilise, .observe (.outer 2), .stabilise, .set 0 (.int 3), .stabilise,
   .create (.map 0 [.outer 0]), .addDep (.outer 2) (.outer 3) true, .stabilise, .set 0 (.int 4), .set 1 (.int 0),
   .stabilise, .create (.expert 70), .addDep (.outer 4) (.outer 2) true, .addDep (.outer 4) (.outer 2) false,
   .observe (.outer 4), .stabilise, .set 1 (.int 6), .stabilise]

set_option maxRecDepth 100000 in
theorem exHistC_ok : RunOK2 exEnvX exHistC (State.init 128 true) #[] :=
  runOK2_of_check (mapOK := fun f => decide (f < 2)) (xOK := fun f => f == 70 || f == 71) (sOK := fun f => f == 70)
    (fun f hf => by
      have : f < 2 := by simpa using hf
      exact ⟨by unfold fnPerKey; omega, fun _ _ => rfl⟩)
    (fun f hf => by
      have : f = 70 ∨ f = 71 := by simpa using hf
      rcases this with rfl | rfl
      · exact ⟨xEnvCb_of_ok (exEnvX_sumdeps 70 (by decide)), by decide⟩
      · exact ⟨exEnvX_cbsum 71 (by decide), by decide⟩)
    (fun f hf => by
      have : f = 70 := by simpa using hf
      subst this
      exact exEnvX_sumdeps 70 (by decide))
    (by decide +kernel)

set_option maxRecDepth 100000 in
/-- the reads of the observers of the `cbsum` node `n2` (`o0`, then `o1`) and of the `sumdeps` node `n4` (`o2`, two edges
on `n2`): `2 + 3`; after re-observing, `3 + 3`; with `f0(3) = 4`: `10 mod 7 = 3`; `4 + 0 + 5 = 9 mod 7 = 2`, `n4 = 2 + 2`;
`4 + 6 + 5 = 15 mod 7 = 1`, `n4 = 2` -/
example : readAfter exEnvX (exHistC.take 7) 0 = some (.int 5) ∧ readAfter exEnvX (exHistC.take 13) 1 = some (.int 6) ∧
    readAfter exEnvX (exHistC.take 16) 1 = some (.int 3) ∧ readAfter exEnvX (exHistC.take 24) 1 = some (.int 2) ∧
    readAfter exEnvX (exHistC.take 24) 2 = some (.int 4) ∧ readAfter exEnvX exHistC 1 = some (.int 1) ∧
    readAfter exEnvX exHistC 2 = some (.int 2) ∧
    slotsAfter exEnvX exHistC 0 = [(1, .int 6), (2, .int 5), (0, .int 4)] :=
  ⟨by decide +kernel, by decide +kernel, by decide +kernel, by decide +kernel, by decide +kernel, by decide +kernel,
    by decide +kernel, by decide +kernel⟩

end IncrVerif.Props.C14History
