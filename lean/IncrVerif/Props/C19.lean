import IncrVerif.Proofs.Heights
/-!
# C19 — the height limit is exact

`setHeight` (= `AdjustHeightsHeap::set_height`) accepts exactly the heights `≤ max_height_allowed`,
both heaps are created and resized with `N + 1` buckets, `set_max_height_allowed` refuses exactly the
limits below the largest height seen.  All statements are about the executable model
(`Engine/Core.lean`, `Engine/Recompute.lean`) in the `(m).run.run s = (result, final state)` style.
`Proofs.resizeQ`, `Proofs.resized`, `Proofs.linked`, `Proofs.DroppedEmpty` are closed-form
descriptions defined next to the proofs.
-/
namespace IncrVerif.Props.C19
open IncrVerif.Engine IncrVerif.Proofs

/-! ## 1. creation -/

/-- A heap created for limit `N` has `N + 1` buckets (heights `0..N`), all empty, so its
`max_height_allowed` is exactly `N`. -/
theorem mkHeap_limits (N : Nat) :
    (mkHeap N).queues.size = N + 1 ∧ (mkHeap N).maxAllowed = N ∧
      ∀ i, i ≤ N → (mkHeap N).queues[i]? = some [] :=
  ⟨mkHeap_size N, mkHeap_maxAllowed N, fun i h => mkHeap_bucket N i h⟩

example : (mkHeap 4).queues.size = 5 ∧ (mkHeap 4).maxAllowed = 4 := ⟨rfl, rfl⟩

/-- A fresh engine with limit `N`: both heaps allow heights up to exactly `N`, no height seen yet,
both heaps empty. -/
theorem init_limits (N : Nat) (d : Bool) :
    (State.init N d).rch.maxAllowed = N ∧ (State.init N d).ahh.maxAllowed = N ∧
      (State.init N d).maxHeightSeen = 0 ∧ (State.init N d).rch.length = 0 ∧
      (State.init N d).ahh.length = 0 :=
  Proofs.init_limits N d

example : (State.init 128 true).rch.maxAllowed = 128 := (init_limits 128 true).1

/-! ## 2. `set_height` -/

/-- Complete description of `set_height n h` in any state: it panics ("height-limit") exactly when
`h` is above both the largest height seen and the limit, and then it has ALREADY recorded `h` as
the largest height seen; otherwise node `n` gets height `h` and the largest height seen is updated. -/
theorem setHeight_run (n : Nat) (h : Int) (s : State) :
    (setHeight n h).run.run s =
      if h > s.maxHeightSeen ∧ h > s.ahh.maxAllowed then
        (.error (.site "height-limit"), { s with maxHeightSeen := h })
      else
        (.ok (), { s with maxHeightSeen := max s.maxHeightSeen h,
                          nodes := s.nodes.modify n fun x => { x with height := h } }) :=
  Proofs.setHeight_run n h s

example : ((setHeight 0 5).run.run exH).1 = .error (.site "height-limit") := rfl
example : ((setHeight 0 4).run.run exH).1 = .ok () := rfl

/-- `set_height` panics with "height-limit" iff `h` exceeds both the largest height seen and the limit. -/
theorem setHeight_panics_iff (n : Nat) (h : Int) (s : State) :
    ((setHeight n h).run.run s).1 = .error (.site "height-limit") ↔
      (h > s.maxHeightSeen ∧ h > s.ahh.maxAllowed) :=
  Proofs.setHeight_err_iff n h s

/-- ... it succeeds in all other cases ... -/
theorem setHeight_ok_iff (n : Nat) (h : Int) (s : State) :
    ((setHeight n h).run.run s).1 = .ok () ↔ ¬ (h > s.maxHeightSeen ∧ h > s.ahh.maxAllowed) :=
  Proofs.setHeight_ok_iff n h s

/-- ... and "height-limit" is the only panic it can raise. -/
theorem setHeight_only_panic (n : Nat) (h : Int) (s : State) (p : Panic)
    (hp : ((setHeight n h).run.run s).1 = .error p) : p = .site "height-limit" :=
  Proofs.setHeight_only_panic n h s p hp

example : ((setHeight 0 5).run.run exH).1 = .error (.site "height-limit") := rfl

/-- THE LIMIT IS EXACT: in a state where the largest height seen is within the limit (true initially,
preserved by every successful `set_height`, see `setHeight_ok_state`), `set_height n h` panics iff
`h > max_height_allowed` and succeeds iff `h ≤ max_height_allowed`. -/
theorem setHeight_exact (n : Nat) (h : Int) (s : State) (inv : s.maxHeightSeen ≤ s.ahh.maxAllowed) :
    (((setHeight n h).run.run s).1 = .error (.site "height-limit") ↔ h > s.ahh.maxAllowed) ∧
    (((setHeight n h).run.run s).1 = .ok () ↔ h ≤ s.ahh.maxAllowed) :=
  Proofs.setHeight_exact n h s inv

example : exH.maxHeightSeen ≤ exH.ahh.maxAllowed := by decide

/-- A successful `set_height n h`: node `n` (if it exists) has height `h`, the largest height seen
is `max old h`, both heaps, all var cells and all other nodes are untouched, and "largest height
seen ≤ limit" is preserved. -/
theorem setHeight_ok_state (n : Nat) (h : Int) (s s' : State)
    (hr : (setHeight n h).run.run s = (.ok (), s')) :
    (n < s.nodes.size → (s'.nodeD n).height = h) ∧
    s'.maxHeightSeen = max s.maxHeightSeen h ∧
    s'.rch = s.rch ∧ s'.ahh = s.ahh ∧ s'.vars = s.vars ∧
    s'.nodes.size = s.nodes.size ∧
    (∀ m, m ≠ n → s'.nodes[m]? = s.nodes[m]?) ∧
    (s.maxHeightSeen ≤ s.ahh.maxAllowed → s'.maxHeightSeen ≤ s'.ahh.maxAllowed) :=
  Proofs.setHeight_ok_state n h s s' hr

example : ∃ s', (setHeight 0 3).run.run exH = (.ok (), s') := ⟨_, rfl⟩

/-- A panicking `set_height n h`: the panic is "height-limit", no node and no heap changed, but the
largest height seen is now `h`, i.e. ABOVE the limit (the invariant of `setHeight_exact` is broken). -/
theorem setHeight_panic_state (n : Nat) (h : Int) (s s' : State) (p : Panic)
    (hr : (setHeight n h).run.run s = (.error p, s')) :
    p = .site "height-limit" ∧ s'.maxHeightSeen = h ∧ s'.nodes = s.nodes ∧
      s'.rch = s.rch ∧ s'.ahh = s.ahh ∧ s'.maxHeightSeen > s'.ahh.maxAllowed :=
  Proofs.setHeight_panic_state n h s s' p hr

example : ∃ p s', (setHeight 0 9).run.run exH = (.error p, s') := ⟨_, _, rfl⟩

/-- FINDING (limit not exact after a caught panic): any height up to the largest height seen is
accepted, whatever the limit.  After a "height-limit" panic for height `h` that the application
catches, `set_height` therefore accepts every height `≤ h`, including heights above
`max_height_allowed`. -/
theorem setHeight_accepts_up_to_seen (n : Nat) (h : Int) (s : State) (hle : h ≤ s.maxHeightSeen) :
    ((setHeight n h).run.run s).1 = .ok () :=
  Proofs.setHeight_above_limit n h s hle

/-- the scenario of the finding on a concrete state: limit 4; `set_height 0 9` panics; then
`set_height 0 7` succeeds and leaves node 0 at height 7 > 4. -/
example :
    ((setHeight 0 9).run.run exH).1 = .error (.site "height-limit") ∧
    ((setHeight 0 7).run.run ((setHeight 0 9).run.run exH).2).1 = .ok () ∧
    ((((setHeight 0 7).run.run ((setHeight 0 9).run.run exH).2).2).nodeD 0).height = 7 ∧
    ((((setHeight 0 7).run.run ((setHeight 0 9).run.run exH).2).2).ahh.maxAllowed) = 4 :=
  ⟨rfl, rfl, rfl, rfl⟩

/-! ## 3. `set_max_height_allowed` -/

/-- Complete description of `set_max_height_allowed N`: the checks in order (stabilising; below the
largest height seen; [debug] adjust-heights heap non-empty; [debug] a dropped recompute-heap bucket
non-empty — at that point the adjust-heights heap has already been resized), else both bucket
vectors are resized to `N + 1` buckets by `resizeQ`. -/
theorem setMaxHeightAllowed_run (N : Nat) (s : State) :
    (setMaxHeightAllowed N).run.run s =
      if s.status = .stabilising then
        (.error (.site "state:set_max_height_allowed:during-stabilisation"), s)
      else if (N : Int) < s.maxHeightSeen then
        (.error (.site "adjust_heights_heap:set_max_height_allowed:below-max-seen"), s)
      else if s.cfg.debug = true ∧ s.ahh.length ≠ 0 then
        (.error (.site "adjust_heights_heap:set_max_height_allowed:empty"), s)
      else if s.cfg.debug = true ∧ ((s.rch.queues.toList.drop (N + 1)).all (·.isEmpty)) = false then
        (.error (.site "recompute_heap:set_max_height_allowed:dropped-buckets-empty"),
          { s with ahh := { s.ahh with queues := resizeQ N s.ahh.queues, lowerBound := (N : Int) + 1 } })
      else
        (.ok (), { s with
          ahh := { s.ahh with queues := resizeQ N s.ahh.queues, lowerBound := (N : Int) + 1 },
          rch := { s.rch with queues := resizeQ N s.rch.queues,
                              lowerBound := min s.rch.lowerBound (((resizeQ N s.rch.queues).size : Int) + 1) } }) :=
  Proofs.setMaxHeightAllowed_run N s

example : ((setMaxHeightAllowed 2).run.run exHd).1 = .ok () := rfl

/-- During a stabilisation `set_max_height_allowed` panics and changes nothing. -/
theorem setMaxHeightAllowed_stabilising (N : Nat) (s : State) (h : s.status = .stabilising) :
    (setMaxHeightAllowed N).run.run s =
      (.error (.site "state:set_max_height_allowed:during-stabilisation"), s) :=
  Proofs.smha_stabilising N s h

example : exHs.status = .stabilising := rfl

/-- Outside a stabilisation it panics with "below-max-seen" iff the new limit is below the largest
height seen. -/
theorem setMaxHeightAllowed_below_iff (N : Nat) (s : State) (h : s.status ≠ .stabilising) :
    ((setMaxHeightAllowed N).run.run s).1 =
        .error (.site "adjust_heights_heap:set_max_height_allowed:below-max-seen") ↔
      (N : Int) < s.maxHeightSeen :=
  Proofs.smha_below_iff N s h

example : exH.status ≠ .stabilising := by decide

/-- EXACT success condition: `set_max_height_allowed N` succeeds iff the engine is not stabilising,
`N` is at least the largest height seen and (debug assertions off, or the adjust-heights heap is
empty and every recompute-heap bucket above `N` is empty); the final state is `resized N s`. -/
theorem setMaxHeightAllowed_ok_iff (N : Nat) (s s' : State) :
    (setMaxHeightAllowed N).run.run s = (.ok (), s') ↔
      (s.status ≠ .stabilising ∧ s.maxHeightSeen ≤ (N : Int) ∧
        (s.cfg.debug = false ∨ (s.ahh.length = 0 ∧ DroppedEmpty N s.rch.queues)) ∧
        s' = resized N s) :=
  Proofs.smha_ok_iff N s s'

example : exHd.status ≠ .stabilising ∧ exHd.maxHeightSeen ≤ ((2 : Nat) : Int) ∧
    (exHd.cfg.debug = false ∨ (exHd.ahh.length = 0 ∧ DroppedEmpty 2 exHd.rch.queues)) ∧
    resized 2 exHd = resized 2 exHd :=
  (setMaxHeightAllowed_ok_iff 2 exHd (resized 2 exHd)).1 rfl

/-- The resized state: BOTH heaps have exactly `N + 1` buckets (limit exactly `N`); buckets `≤ N`
that existed keep their contents, new buckets are empty; nodes, vars, the largest height seen, the
heap lengths and the status are unchanged. -/
theorem resized_facts (N : Nat) (s : State) :
    (resized N s).rch.queues.size = N + 1 ∧ (resized N s).ahh.queues.size = N + 1 ∧
    (resized N s).rch.maxAllowed = N ∧ (resized N s).ahh.maxAllowed = N ∧
    (∀ i, (resized N s).rch.queues[i]? =
      if i ≤ N then (if i < s.rch.queues.size then s.rch.queues[i]? else some []) else none) ∧
    (∀ i, (resized N s).ahh.queues[i]? =
      if i ≤ N then (if i < s.ahh.queues.size then s.ahh.queues[i]? else some []) else none) ∧
    (resized N s).nodes = s.nodes ∧ (resized N s).vars = s.vars ∧
    (resized N s).maxHeightSeen = s.maxHeightSeen ∧
    (resized N s).rch.length = s.rch.length ∧ (resized N s).ahh.length = s.ahh.length ∧
    (resized N s).status = s.status :=
  Proofs.resized_facts N s

example : (resized 7 exH).rch.queues.size = 8 := (resized_facts 7 exH).1

/-- Corollary: after a successful `set_max_height_allowed N`, `set_height n h` succeeds iff `h ≤ N`. -/
theorem setMaxHeightAllowed_then_setHeight (N : Nat) (s s' : State) (n : Nat) (h : Int)
    (hr : (setMaxHeightAllowed N).run.run s = (.ok (), s')) :
    ((setHeight n h).run.run s').1 = .ok () ↔ h ≤ (N : Int) :=
  Proofs.smha_then_setHeight N s s' n h hr

example : ∃ s', (setMaxHeightAllowed 2).run.run exHd = (.ok (), s') := ⟨_, rfl⟩
example : ∃ s', (setMaxHeightAllowed 9).run.run exH = (.ok (), s') := ⟨_, rfl⟩

/-! ## 4. the recompute heap enforces the same limit -/

/-- Complete description of `RecomputeHeap::link`: it panics iff the node's height is negative or
above the heap's limit; otherwise the node is appended to the bucket of its height. -/
theorem rchLink_run (n : Nat) (s : State) :
    (rchLink n).run.run s = match s.nodes[n]? with
      | none => (.error (.site "model:no-such-node"), s)
      | some nd =>
        if nd.height < 0 then (.error (.site "recompute_heap:link:height>=0"), s)
        else if nd.height > s.rch.maxAllowed then (.error (.site "recompute_heap:link:height<=max"), s)
        else (.ok (), linked n nd.height s) :=
  Proofs.rchLink_run n s

example : ((rchLink 0).run.run exH).1 = .ok () ∧
    (((rchLink 0).run.run exH).2).rch.queues[2]? = some [0] := ⟨rfl, rfl⟩

/-- `link` succeeds iff `0 ≤ height ≤ max_height_allowed`. -/
theorem rchLink_ok_iff (n : Nat) (s : State) (nd : Node) (hn : s.nodes[n]? = some nd) :
    ((rchLink n).run.run s).1 = .ok () ↔ (0 ≤ nd.height ∧ nd.height ≤ s.rch.maxAllowed) :=
  Proofs.rchLink_ok_iff n s nd hn

example : ∃ nd, exH.nodes[0]? = some nd := ⟨_, rfl⟩

/-- Without debug assertions `insert` succeeds iff `0 ≤ height ≤ max_height_allowed`. -/
theorem rchInsert_ok_iff (n : Nat) (s : State) (nd : Node) (hn : s.nodes[n]? = some nd)
    (hd : s.cfg.debug = false) :
    ((rchInsert n).run.run s).1 = .ok () ↔ (0 ≤ nd.height ∧ nd.height ≤ s.rch.maxAllowed) :=
  Proofs.rchInsert_ok_iff n s nd hn hd

example : (∃ nd, exH.nodes[0]? = some nd) ∧ exH.cfg.debug = false := ⟨⟨_, rfl⟩, rfl⟩

/-! ## 5. where heights grow: `ensure_height_requirement` -/

/-- If `ensure_height_requirement` returns, either the child was already strictly below the parent
and nothing changed, or the parent now has height `child + 1`, and that height was acceptable to
`set_height` (at most the largest height seen, or at most the limit); the limit itself is unchanged. -/
theorem ensureHeightRequirement_ok (oc op child parent : Nat) (s s' : State) (c p : Node)
    (hc : s.nodes[child]? = some c) (hp : s.nodes[parent]? = some p)
    (hr : (ensureHeightRequirement oc op child parent).run.run s = (.ok (), s')) :
    (c.height < p.height → s' = s) ∧
    (p.height ≤ c.height →
      (s'.nodeD parent).height = c.height + 1 ∧
      (c.height + 1 ≤ s.maxHeightSeen ∨ c.height + 1 ≤ s.ahh.maxAllowed) ∧
      s'.maxHeightSeen = max s.maxHeightSeen (c.height + 1) ∧
      s'.ahh.maxAllowed = s.ahh.maxAllowed) :=
  Proofs.ensureHeightRequirement_ok oc op child parent s s' c p hc hp hr

example : ∃ c p s', exHfull.nodes[0]? = some c ∧ exHfull.nodes[1]? = some p ∧
    (ensureHeightRequirement 1 0 1 0).run.run (resized 5 exHfull) = (.ok (), s') := ⟨_, _, _, rfl, rfl, rfl⟩

/-- A parent can never be raised above the limit: if the child sits at a height whose successor
exceeds `max_height_allowed` (and the largest height seen is within the limit),
`ensure_height_requirement` panics. -/
theorem ensureHeightRequirement_limit (oc op child parent : Nat) (s : State) (c p : Node)
    (hc : s.nodes[child]? = some c) (hp : s.nodes[parent]? = some p)
    (inv : s.maxHeightSeen ≤ s.ahh.maxAllowed)
    (hge : p.height ≤ c.height) (hlim : c.height + 1 > s.ahh.maxAllowed) :
    ((ensureHeightRequirement oc op child parent).run.run s).1 ≠ .ok () :=
  Proofs.ensureHeightRequirement_limit oc op child parent s c p hc hp inv hge hlim

example : ∃ c p, exHfull.nodes[0]? = some c ∧ exHfull.nodes[1]? = some p ∧
    exHfull.maxHeightSeen ≤ exHfull.ahh.maxAllowed ∧ p.height ≤ c.height ∧
    c.height + 1 > exHfull.ahh.maxAllowed := ⟨_, _, rfl, rfl, by decide, by decide, by decide⟩
example : ((ensureHeightRequirement 0 1 0 1).run.run exHfull).1 = .error (.site "height-limit") := rfl

end IncrVerif.Props.C19
