import IncrVerif.Proofs.Step
/-!
# C01 — local consistency established by one recompute (LOCAL STEP theorems)

PROVED HERE (for every state; one call of `recomputeOne env fuel n` on a valid existing node, no
injected fault armed, the call returns without panic):
* `step_map_value`, `step_map_value_post`: a `map f args` node ends with `value = f(values of args)`,
  the values being those of the pre-state — and, since the step changes no other node's value, also
  those of the post-state;
* `step_var_value`, `step_const_value`, `step_fold_value`, `step_mapWithOld_value`,
  `step_bindMain_value`: the analogous facts for the other kinds;
* `step_value` : all of these in one statement, via the relation `Step.Computes`;
* `step_frame`, `step_frame_plain`: the frame — the step changes the `value` of no node other than `n`,
  and the `valid`/`kind` of no node at all (also `cutoff`, `height`, `parents`, vars, binds, round
  number; and the `changedAt`/`recomputedAt` of no node other than `n`).

NOT PROVED HERE: the global property "after every completed stabilise each in-use observer reads the
from-scratch value" (it needs the scheduling invariant of `drainHeap`: every stale necessary node is
recomputed, children first, developed separately).  OUT OF SCOPE of these step theorems:
`BindLhsChange` (runs the bind closure, creates nodes, re-links, invalidates), `MapRef` (no stored
value), `Expert` nodes, `BindMain` whose rhs is invalid (invalidates itself) or has no value, `map`
nodes whose function has side effects (`env.fnEff f vals ≠ []`).

ASSUMPTIONS.  `s.panicCountdown = none`: no injected fault armed, so `tick` is a no-op.
`nd.valid = true`: an invalid node panics (see `C02.step_invalid_node`).  "All args have a value" is
`args.map (s.value env) = vals.map some`.  `Step.StepFrame`, `Step.Computes`, `Step.MapRefsBack` are
defined in `Proofs/Step.lean`.
-/
namespace IncrVerif.Props.C01
open IncrVerif.Engine IncrVerif.Proofs IncrVerif.Proofs.Step

/-! ## 1. map -/

/-- `map f args` (user function `f < fnZip`, without side effects): afterwards the node's value is
`f` applied to the values the arguments had in the pre-state. -/
theorem step_map_value (env : Env) (fuel n : Nat) (s s' : State) (nd : Node) (f : Nat)
    (args : List Nat) (vals : List Val) (r : Option Nat)
    (hn : s.nodes[n]? = some nd) (hv : nd.valid = true) (hk : nd.kind = .map f args)
    (hf : f < fnZip) (hargs : args.map (s.value env) = vals.map some)
    (heff : env.fnEff f vals = []) (hp : s.panicCountdown = none)
    (h : (recomputeOne env fuel n).run.run s = (.ok r, s')) :
    (s'.nodeD n).value = some (env.fn f vals) ∧ s'.value env n = some (env.fn f vals) := by
  have hvals := (valuesOf_eq_some_iff env s args vals).2 hargs
  have post := recomputeOne_map_post env fuel n s s' nd f args vals r hn hv hk hf hvals heff hp h
  refine ⟨post.value, ?_⟩
  rw [value_plain env s' n, post.value]
  intro p i hk'
  rw [post.frame.kind n, nodeD_of_some hn, hk] at hk'
  cases hk'

example : exS.nodes[1]? = some (exS.nodeD 1) ∧ (exS.nodeD 1).valid = true ∧
    (exS.nodeD 1).kind = .map 0 [0] ∧ [0].map (exS.value exEnv) = [Val.int 1].map some ∧
    exEnv.fnEff 0 [.int 1] = [] ∧ exS.panicCountdown = none ∧
    ∃ r s', (recomputeOne exEnv 5 1).run.run exS = (.ok r, s') :=
  ⟨rfl, rfl, rfl, rfl, rfl, rfl, (returned_iff _).1 (by decide +kernel)⟩

/-- … and since the step changes no other node's value, the node's value is also `f` applied to the
values of the arguments in the POST-state.  Explicit well-formedness hypotheses (they make "the value
of an argument does not depend on `n`" provable): the arguments are earlier nodes than `n`, and MapRef
inputs are earlier nodes than the MapRef (both hold for graphs built through the API with operands
naming existing nodes). -/
theorem step_map_value_post (env : Env) (fuel n : Nat) (s s' : State) (nd : Node) (f : Nat)
    (args : List Nat) (vals : List Val) (r : Option Nat)
    (hn : s.nodes[n]? = some nd) (hv : nd.valid = true) (hk : nd.kind = .map f args)
    (hf : f < fnZip) (hargs : args.map (s.value env) = vals.map some)
    (heff : env.fnEff f vals = []) (hp : s.panicCountdown = none)
    (hwf : MapRefsBack s) (hlt : ∀ a, a ∈ args → a < n)
    (h : (recomputeOne env fuel n).run.run s = (.ok r, s')) :
    args.map (s'.value env) = vals.map some ∧ s'.value env n = some (env.fn f vals) := by
  have hvals := (valuesOf_eq_some_iff env s args vals).2 hargs
  have post := recomputeOne_map_post env fuel n s s' nd f args vals r hn hv hk hf hvals heff hp h
  refine ⟨?_, (step_map_value env fuel n s s' nd f args vals r hn hv hk hf hargs heff hp h).2⟩
  rw [← valuesOf_eq_some_iff, valuesOf_after env n s s' post.frame hwf args hlt (lt_of_some hn)]
  exact hvals

/-- `exS` satisfies the well-formedness hypothesis: its only MapRef (node 3) reads node 0 -/
theorem exS_mapRefsBack : MapRefsBack exS := by
  intro n nd p i hn hk
  have hlt : n < 7 := lt_of_some hn
  have h7 : n = 0 ∨ n = 1 ∨ n = 2 ∨ n = 3 ∨ n = 4 ∨ n = 5 ∨ n = 6 := by omega
  rcases h7 with rfl | rfl | rfl | rfl | rfl | rfl | rfl
  · have e : exS.nodes[0]? = some (exS.nodeD 0) := rfl
    have k : (exS.nodeD 0).kind = .var 0 := rfl
    rw [e] at hn; cases hn; rw [k] at hk; cases hk
  · have e : exS.nodes[1]? = some (exS.nodeD 1) := rfl
    have k : (exS.nodeD 1).kind = .map 0 [0] := rfl
    rw [e] at hn; cases hn; rw [k] at hk; cases hk
  · have e : exS.nodes[2]? = some (exS.nodeD 2) := rfl
    have k : (exS.nodeD 2).kind = .fold 0 (.int 10) [0, 0] := rfl
    rw [e] at hn; cases hn; rw [k] at hk; cases hk
  · have e : exS.nodes[3]? = some (exS.nodeD 3) := rfl
    have k : (exS.nodeD 3).kind = .mapRef 0 0 := rfl
    rw [e] at hn; cases hn; rw [k] at hk; cases hk; decide
  · have e : exS.nodes[4]? = some (exS.nodeD 4) := rfl
    have k : (exS.nodeD 4).kind = .mapWithOld 0 0 := rfl
    rw [e] at hn; cases hn; rw [k] at hk; cases hk
  · have e : exS.nodes[5]? = some (exS.nodeD 5) := rfl
    have k : (exS.nodeD 5).kind = .const (.int 7) := rfl
    rw [e] at hn; cases hn; rw [k] at hk; cases hk
  · have e : exS.nodes[6]? = some (exS.nodeD 6) := rfl
    have k : (exS.nodeD 6).kind = .bindMain 0 0 := rfl
    rw [e] at hn; cases hn; rw [k] at hk; cases hk

example : MapRefsBack exS ∧ ∀ a, a ∈ [0] → a < 1 := ⟨exS_mapRefsBack, by simp⟩

/-! ## 2. var, const -/

/-- `var c`: afterwards the watch node's value is the value the var cell holds. -/
theorem step_var_value (env : Env) (fuel n : Nat) (s s' : State) (nd : Node) (c : Nat)
    (vc : VarCell) (r : Option Nat)
    (hn : s.nodes[n]? = some nd) (hv : nd.valid = true) (hk : nd.kind = .var c)
    (hc : s.vars[c]? = some vc) (hp : s.panicCountdown = none)
    (h : (recomputeOne env fuel n).run.run s = (.ok r, s')) :
    (s'.nodeD n).value = some vc.value ∧ s'.vars[c]? = some vc :=
  have post := recomputeOne_var_post env fuel n s s' nd c vc r hn hv hk hc hp h
  ⟨post.value, by rw [post.frame.vars]; exact hc⟩

example : exS.nodes[0]? = some (exS.nodeD 0) ∧ (exS.nodeD 0).kind = .var 0 ∧
    exS.vars[0]? = some { value := .int 4, setAt := 1, node := 0 } ∧
    ∃ r s', (recomputeOne exEnv 5 0).run.run exS = (.ok r, s') := ⟨rfl, rfl, rfl, (returned_iff _).1 (by decide +kernel)⟩
example : (((recomputeOne exEnv 5 0).run.run exS).2.nodeD 0).value = some (.int 4) := by decide +kernel

/-- `const v`: afterwards the node's value is `v`. -/
theorem step_const_value (env : Env) (fuel n : Nat) (s s' : State) (nd : Node) (v : Val)
    (r : Option Nat)
    (hn : s.nodes[n]? = some nd) (hv : nd.valid = true) (hk : nd.kind = .const v)
    (hp : s.panicCountdown = none)
    (h : (recomputeOne env fuel n).run.run s = (.ok r, s')) :
    (s'.nodeD n).value = some v :=
  (recomputeOne_const_post env fuel n s s' nd v r hn hv hk hp h).value

example : exS.nodes[5]? = some (exS.nodeD 5) ∧ (exS.nodeD 5).kind = .const (.int 7) ∧
    ∃ r s', (recomputeOne exEnv 5 5).run.run exS = (.ok r, s') := ⟨rfl, rfl, (returned_iff _).1 (by decide +kernel)⟩

/-! ## 3. fold -/

/-- `fold f init cs`: afterwards the node's value is the left fold of `f` over the children's
pre-state values, in `cs` order, starting from `init`. -/
theorem step_fold_value (env : Env) (fuel n : Nat) (s s' : State) (nd : Node) (f : Nat)
    (init : Val) (cs : List Nat) (vals : List Val) (r : Option Nat)
    (hn : s.nodes[n]? = some nd) (hv : nd.valid = true) (hk : nd.kind = .fold f init cs)
    (hargs : cs.map (s.value env) = vals.map some) (hp : s.panicCountdown = none)
    (h : (recomputeOne env fuel n).run.run s = (.ok r, s')) :
    (s'.nodeD n).value = some (vals.foldl (env.foldStep f) init) :=
  (recomputeOne_fold_post env fuel n s s' nd f init cs vals r hn hv hk
    ((valuesOf_eq_some_iff env s cs vals).2 hargs) hp h).value

example : exS.nodes[2]? = some (exS.nodeD 2) ∧ (exS.nodeD 2).kind = .fold 0 (.int 10) [0, 0] ∧
    [0, 0].map (exS.value exEnv) = [Val.int 1, Val.int 1].map some ∧
    ∃ r s', (recomputeOne exEnv 5 2).run.run exS = (.ok r, s') := ⟨rfl, rfl, rfl, (returned_iff _).1 (by decide +kernel)⟩
example : (((recomputeOne exEnv 5 2).run.run exS).2.nodeD 2).value = some (.int 12) := by decide +kernel

/-! ## 4. map_with_old -/

/-- `map_with_old g i` with a user-written machine (`g < opBase`; ids from `opBase` up are the closures of
the incremental-map operators, which log one event per inner call and are not treated here): the
machine is run once on (closure state, old value, input value); its second component becomes the
node's value and its first component the new closure state. -/
theorem step_mapWithOld_value (env : Env) (fuel n : Nat) (s s' : State) (nd : Node) (g i : Nat)
    (x σ' new : Val) (did : Bool) (r : Option Nat)
    (hn : s.nodes[n]? = some nd) (hv : nd.valid = true) (hk : nd.kind = .mapWithOld g i)
    (hg : g < opBase) (hx : s.value env i = some x) (hp : s.panicCountdown = none)
    (hw : env.withOld g nd.oldState nd.value x = (σ', new, did))
    (h : (recomputeOne env fuel n).run.run s = (.ok r, s')) :
    (s'.nodeD n).value = some new ∧ (s'.nodeD n).oldState = σ' :=
  have post := recomputeOne_mapWithOld_post env fuel n s s' nd g i x σ' new did r hn hv hk hg hx hp hw h
  ⟨post.value, post.oldState⟩

example : exS.nodes[4]? = some (exS.nodeD 4) ∧ (exS.nodeD 4).kind = .mapWithOld 0 0 ∧ 0 < opBase ∧
    exS.value exEnv 0 = some (.int 1) ∧
    exEnv.withOld 0 (exS.nodeD 4).oldState (exS.nodeD 4).value (.int 1) = (.int 1, .int 2, true) ∧
    ∃ r s', (recomputeOne exEnv 5 4).run.run exS = (.ok r, s') :=
  ⟨rfl, rfl, by decide, rfl, rfl, (returned_iff _).1 (by decide +kernel)⟩
example : (((recomputeOne exEnv 5 4).run.run exS).2.nodeD 4).oldState = .int 1 := by decide +kernel

/-! ## 5. bind_main -/

/-- `bind_main b lc` whose current rhs `r0` is a valid node with value `v`: afterwards the bind's
value is `v` (the value is copied from the rhs). -/
theorem step_bindMain_value (env : Env) (fuel n : Nat) (s s' : State) (nd : Node) (b lc r0 : Nat)
    (br : BindRec) (rn : Node) (v : Val) (r : Option Nat)
    (hn : s.nodes[n]? = some nd) (hv : nd.valid = true) (hk : nd.kind = .bindMain b lc)
    (hb : s.binds[b]? = some br) (hr : br.rhs = some r0) (hrn : s.nodes[r0]? = some rn)
    (hrv : rn.valid = true) (hval : s.value env r0 = some v) (hp : s.panicCountdown = none)
    (h : (recomputeOne env fuel n).run.run s = (.ok r, s')) :
    (s'.nodeD n).value = some v :=
  (recomputeOne_bindMain_post env fuel n s s' nd b lc r0 br rn v r hn hv hk hb hr hrn hrv hval hp
    h).value

example : exS.nodes[6]? = some (exS.nodeD 6) ∧ (exS.nodeD 6).kind = .bindMain 0 0 ∧
    exS.binds[0]? = some { lhs := 0, body := 0, lhsChange := 0, main := 6, rhs := some 5 } ∧
    exS.nodes[5]? = some (exS.nodeD 5) ∧ (exS.nodeD 5).valid = true ∧
    exS.value exEnv 5 = some (.int 7) ∧
    ∃ r s', (recomputeOne exEnv 5 6).run.run exS = (.ok r, s') :=
  ⟨rfl, rfl, rfl, rfl, rfl, rfl, (returned_iff _).1 (by decide +kernel)⟩
example : (((recomputeOne exEnv 5 6).run.run exS).2.nodeD 6).value = some (.int 7) := by decide +kernel

/-! ## all treated kinds at once; the frame -/

/-- For every treated kind (`Step.Computes env s n nd v σ evs`: "from the values its inputs have in
`s`, node `n`'s function yields `v`, closure state `σ`, user-function events `evs`"): afterwards
`value n = some v` and `oldState n = σ`. -/
theorem step_value (env : Env) (fuel n : Nat) (s s' : State) (nd : Node) (v σ : Val)
    (evs : List Event) (r : Option Nat)
    (hn : s.nodes[n]? = some nd) (hv : nd.valid = true) (hp : s.panicCountdown = none)
    (hc : Computes env s n nd v σ evs)
    (h : (recomputeOne env fuel n).run.run s = (.ok r, s')) :
    (s'.nodeD n).value = some v ∧ (s'.nodeD n).oldState = σ ∧ s'.value env n = some v := by
  have post := recomputeOne_post env fuel n s s' nd v σ evs r hn hv hp hc h
  refine ⟨post.value, post.oldState, ?_⟩
  rw [value_plain env s' n, post.value]
  intro p i hk'
  rw [post.frame.kind n, nodeD_of_some hn] at hk'
  exact hc.not_mapRef p i hk'

example : Computes exEnv exS 5 (exS.nodeD 5) (.int 7) (exS.nodeD 5).oldState [] :=
  Computes.const (.int 7) rfl

/-- The frame of a step of a treated kind (`Step.StepFrame n s s'`): it changes the `value`,
`changedAt`, `recomputedAt`, `oldState` of no node other than `n`; the `kind`, `valid`, `cutoff`,
`height`, `parents`, `observers`, `createdIn`, `forceNecessary` of no node at all; no node leaves the
recompute heap; vars, binds, the round number, the configuration and the current scope are
unchanged; no node is created. -/
theorem step_frame (env : Env) (fuel n : Nat) (s s' : State) (nd : Node) (v σ : Val)
    (evs : List Event) (r : Option Nat)
    (hn : s.nodes[n]? = some nd) (hv : nd.valid = true) (hp : s.panicCountdown = none)
    (hc : Computes env s n nd v σ evs)
    (h : (recomputeOne env fuel n).run.run s = (.ok r, s')) :
    StepFrame n s s' :=
  (recomputeOne_post env fuel n s s' nd v σ evs r hn hv hp hc h).frame

/-- The part of the frame used by the value theorems, spelled out: no other node's `value` field
changes, no node's `valid` or `kind` changes, and no node is created. -/
theorem step_frame_plain (env : Env) (fuel n : Nat) (s s' : State) (nd : Node) (v σ : Val)
    (evs : List Event) (r : Option Nat)
    (hn : s.nodes[n]? = some nd) (hv : nd.valid = true) (hp : s.panicCountdown = none)
    (hc : Computes env s n nd v σ evs)
    (h : (recomputeOne env fuel n).run.run s = (.ok r, s')) :
    s'.nodes.size = s.nodes.size ∧
    (∀ m, m ≠ n → (s'.nodeD m).value = (s.nodeD m).value) ∧
    (∀ m, (s'.nodeD m).valid = (s.nodeD m).valid) ∧
    (∀ m, (s'.nodeD m).kind = (s.nodeD m).kind) :=
  have fr := step_frame env fuel n s s' nd v σ evs r hn hv hp hc h
  ⟨fr.size, fr.value, fr.valid, fr.kind⟩

example : ∃ r s', (recomputeOne exEnv 5 5).run.run exS = (.ok r, s') :=
  (returned_iff _).1 (by decide +kernel)

end IncrVerif.Props.C01
