import IncrVerif.Proofs.Operators
/-!
# C17 — the diff-based map operators do work proportional to the change

Property theorems only; helper lemmas are in `IncrVerif/Proofs/Operators.lean`.  The steps
(`filterMapiStep`, `ufoldStep`, `mergeStep`, in `IncrVerif/MapOps/Operators.lean`) return, next to the
output and the `did_change` flag, the list of user-function calls `(role, key)` they made, in call
order.  "Work" is that list.  `symmetricDiff old new` is the list of keys whose presence or value
differs between the previous and the current input (C18: exactly those keys, once each, ascending).

PROVED HERE (for every step that has a previous state, `old = some …`)
* `filterMapi_calls`, `filterMapi_calls_mem`, `filterMapi_calls_ascending`, `filterMapi_calls_length`,
  `filterMapi_run_calls`: the user function of `incr_filter_mapi` (non-empty input) is called exactly
  for the diff entries that are not removals; i.e. exactly for the keys bound in the new input whose
  binding differs from the old one, once each, ascending, never for removed keys.
* `ufold_calls`, `ufold_calls_ascending`, `ufold_run_calls`: `incr_unordered_fold_with` (outside the
  revert-to-init branch) makes exactly one call per diff entry, `remove` / `add` / `update` for
  `Left` / `Right` / `Unequal`.  `ufold_revert_no_calls`: the revert-to-init branch makes no call.
* `merge_calls`, `merge_calls_length`, `merge_calls_ascending`, `merge_calls_only_changed`:
  `incr_merge` calls the merge function at most once per key of the merged diff stream, only for keys
  that differ in the left or in the right input.
* `filterMapi_same`, `ufold_same`, `merge_same`: equal inputs — no call, `did_change = false`.
* `filterMapi_initial`, `ufold_initial`, `merge_initial`: the initial branch makes one call per key of
  the input(s), ascending; `filterMapi_empty_reports_change`: the emptied branch of
  `incr_filter_mapi` makes no call but reports `did_change = true` even when the previous input was
  empty too (the side condition "non-empty input" of `filterMapi_same` is necessary).

NOT PROVED HERE
* Cost of the container operations themselves (`insert` / `remove` / `get` are O(log n) in Rust; the
  lists of the model say nothing about that) and of computing the diff (`symmetric_diff` walks both
  maps: linear in their sizes, not in the size of the change).
* That the engine recomputes the node only when an input changed (cutoff and scheduling are C04–C11).
-/
namespace IncrVerif.Props.C17
open IncrVerif IncrVerif.MapOps IncrVerif.Proofs.Ops

/-! ## 1. `incr_filter_mapi` -/

/-- With a previous state and a non-empty input, the calls are the non-removal entries of the diff
between the previous and the current input, in diff order, each as `(fn, key)`. -/
theorem filterMapi_calls (f : Int → Int → Option Int) (oldIn oldOut input : AMap Int)
    (hne : input ≠ []) :
    (filterMapiStep f (some (oldIn, oldOut)) input).2.2 =
      ((symmetricDiff oldIn input).filter isNew).map fun e => (Role.fn, e.1) := by
  rw [filterMapiStep_some f oldIn oldOut input hne]

/-- what `isNew` selects: `Right` and `Unequal` entries, not `Left` (removed keys) -/
theorem isNew_spec (k x y : Int) :
    isNew (k, .left x) = false ∧ isNew (k, .right y) = true ∧ isNew (k, .unequal x y) = true :=
  ⟨rfl, rfl, rfl⟩

/-- The user function is called for key `k` iff `k` is bound in the new input and the old input did
not hold that same binding; in particular never for a removed key. -/
theorem filterMapi_calls_mem (f : Int → Int → Option Int) (oldIn oldOut input : AMap Int)
    (ho : oldIn.Sorted) (hi : input.Sorted) (hne : input ≠ []) (c : Call) :
    c ∈ (filterMapiStep f (some (oldIn, oldOut)) input).2.2 ↔
      c.1 = Role.fn ∧ ∃ v, input.lookup c.2 = some v ∧ oldIn.lookup c.2 ≠ some v := by
  rw [filterMapi_calls f oldIn oldOut input hne]
  exact fmCalls_mem oldIn input ho hi c

/-- The keys of the calls are strictly ascending: at most one call per key. -/
theorem filterMapi_calls_ascending (f : Int → Int → Option Int) (oldIn oldOut input : AMap Int)
    (ho : oldIn.Sorted) (hi : input.Sorted) (hne : input ≠ []) :
    List.Pairwise (· < ·) ((filterMapiStep f (some (oldIn, oldOut)) input).2.2.map (·.2)) := by
  rw [filterMapi_calls f oldIn oldOut input hne]
  exact fmCalls_ascending oldIn input ho hi

/-- The number of calls is at most the size of the diff. -/
theorem filterMapi_calls_length (f : Int → Int → Option Int) (oldIn oldOut input : AMap Int)
    (hne : input ≠ []) :
    (filterMapiStep f (some (oldIn, oldOut)) input).2.2.length ≤ (symmetricDiff oldIn input).length := by
  rw [filterMapi_calls f oldIn oldOut input hne]
  exact fmCalls_length_le oldIn input

/-- In a run, every step after the first with a non-empty input does the work of the diff between its
input and the input before. -/
theorem filterMapi_run_calls (f : Int → Int → Option Int) (inputs : List (AMap Int)) (n : Nat)
    (h : n + 1 < inputs.length) (hne : inputs[n + 1] ≠ []) :
    ((filterMapiRun f inputs)[n + 1]'(by simpa [filterMapiRun] using h)).2.2 =
      ((symmetricDiff inputs[n] inputs[n + 1]).filter isNew).map fun e => (Role.fn, e.1) := by
  rw [filterMapiRun_succ f inputs n h]
  exact filterMapi_calls f _ _ _ hne

/-! ## 2. `incr_unordered_fold_with` -/

/-- the call a diff entry causes: `remove` for `Left`, `add` for `Right`, `update` for `Unequal` -/
theorem diffCall_spec (k x y : Int) :
    diffCall (k, .left x) = (Role.remove, k) ∧ diffCall (k, .right y) = (Role.add, k) ∧
      diffCall (k, .unequal x y) = (Role.update, k) := ⟨rfl, rfl, rfl⟩

/-- Outside the revert-to-init branch, there is exactly one call per diff entry, in diff order. -/
theorem ufold_calls {ρ : Type} (u : UFold ρ) (init : ρ) (oldIn : AMap Int) (oldOut : ρ)
    (input : AMap Int) (h : u.revertToInitWhenEmpty = false ∨ input ≠ []) :
    (ufoldStep u init (some (oldIn, oldOut)) input).2.2 = (symmetricDiff oldIn input).map diffCall := by
  rw [ufoldStep_diff u init oldIn oldOut input h]

/-- The keys of the calls are strictly ascending: at most one call per key. -/
theorem ufold_calls_ascending {ρ : Type} (u : UFold ρ) (init : ρ) (oldIn : AMap Int) (oldOut : ρ)
    (input : AMap Int) (ho : oldIn.Sorted) (hi : input.Sorted)
    (h : u.revertToInitWhenEmpty = false ∨ input ≠ []) :
    List.Pairwise (· < ·) ((ufoldStep u init (some (oldIn, oldOut)) input).2.2.map (·.2)) := by
  rw [ufold_calls u init oldIn oldOut input h]
  exact ufCalls_ascending oldIn input ho hi

/-- The revert-to-init branch (flag set, input empty) makes no call at all. -/
theorem ufold_revert_no_calls {ρ : Type} (u : UFold ρ) (init : ρ) (oldIn : AMap Int) (oldOut : ρ)
    (hr : u.revertToInitWhenEmpty = true) :
    (ufoldStep u init (some (oldIn, oldOut)) []).2.2 = [] := by
  rw [ufoldStep_revert u init oldIn oldOut hr]

/-- In a run, every step after the first (outside the revert branch) does the work of the diff between
its input and the input before. -/
theorem ufold_run_calls {ρ : Type} (u : UFold ρ) (init : ρ) (inputs : List (AMap Int)) (n : Nat)
    (h : n + 1 < inputs.length) (hb : u.revertToInitWhenEmpty = false ∨ inputs[n + 1] ≠ []) :
    ((ufoldRun u init inputs)[n + 1]'(by simpa [ufoldRun] using h)).2.2 =
      (symmetricDiff inputs[n] inputs[n + 1]).map diffCall := by
  rw [ufoldRun_succ u init inputs n h]
  exact ufold_calls u init _ _ _ hb

/-! ## 3. `incr_merge` -/

/-- The calls are the elements of the merged diff stream whose key is still bound in the new left or
the new right input, each as `(merge, key)`, in stream order.  (A key removed from both makes no
call.) -/
theorem merge_calls (f : Int → MergeArg → Option Int) (oldL oldR oldOut newL newR : AMap Int)
    (hoL : oldL.Sorted) (hoR : oldR.Sorted) (hnL : newL.Sorted) (hnR : newR.Sorted) :
    (mergeStep f (some (oldL, oldR, oldOut)) newL newR).2.2 =
      ((mergeDiffs (symmetricDiff oldL newL) (symmetricDiff oldR newR)).filter
        (fun e => (newL.lookup e.key).isSome || (newR.lookup e.key).isSome)).map
        fun e => (Role.merge, e.key) := by
  rw [mergeStep_alter f (some (oldL, oldR, oldOut)) hoL hoR newL newR hnL hnR]
  rfl

/-- At most one call per element of the merged stream, which is at most the sum of the two diffs. -/
theorem merge_calls_length (f : Int → MergeArg → Option Int) (oldL oldR oldOut newL newR : AMap Int)
    (hoL : oldL.Sorted) (hoR : oldR.Sorted) (hnL : newL.Sorted) (hnR : newR.Sorted) :
    (mergeStep f (some (oldL, oldR, oldOut)) newL newR).2.2.length ≤
        (mergeDiffs (symmetricDiff oldL newL) (symmetricDiff oldR newR)).length ∧
      (mergeDiffs (symmetricDiff oldL newL) (symmetricDiff oldR newR)).length ≤
        (symmetricDiff oldL newL).length + (symmetricDiff oldR newR).length := by
  rw [merge_calls f oldL oldR oldOut newL newR hoL hoR hnL hnR]
  refine ⟨?_, mergeDiffs_length_le _ _⟩
  rw [List.length_map]
  exact List.length_filter_le _ _

/-- The keys of the calls are strictly ascending: at most one call per key. -/
theorem merge_calls_ascending (f : Int → MergeArg → Option Int) (oldL oldR oldOut newL newR : AMap Int)
    (hoL : oldL.Sorted) (hoR : oldR.Sorted) (hnL : newL.Sorted) (hnR : newR.Sorted) :
    List.Pairwise (· < ·) ((mergeStep f (some (oldL, oldR, oldOut)) newL newR).2.2.map (·.2)) := by
  rw [merge_calls f oldL oldR oldOut newL newR hoL hoR hnL hnR]
  exact mergeCalls_ascending _ _ (Proofs.symmetricDiff_ascending oldL newL hoL hnL)
    (Proofs.symmetricDiff_ascending oldR newR hoR hnR) _

/-- A call is made only for a key whose binding differs between the old and the new left input, or
between the old and the new right input. -/
theorem merge_calls_only_changed (f : Int → MergeArg → Option Int)
    (oldL oldR oldOut newL newR : AMap Int)
    (hoL : oldL.Sorted) (hoR : oldR.Sorted) (hnL : newL.Sorted) (hnR : newR.Sorted) (c : Call)
    (hc : c ∈ (mergeStep f (some (oldL, oldR, oldOut)) newL newR).2.2) :
    c.1 = Role.merge ∧
      (oldL.lookup c.2 ≠ newL.lookup c.2 ∨ oldR.lookup c.2 ≠ newR.lookup c.2) := by
  rw [merge_calls f oldL oldR oldOut newL newR hoL hoR hnL hnR] at hc
  obtain ⟨e, he, rfl⟩ := List.mem_map.mp hc
  exact ⟨rfl, stream_key_differs oldL oldR newL newR hoL hoR hnL hnR e (List.mem_filter.mp he).1⟩

/-! ## 4. equal inputs: no call, `did_change = false`, output unchanged -/

theorem filterMapi_same (f : Int → Int → Option Int) (input oldOut : AMap Int) (hi : input.Sorted)
    (hne : input ≠ []) :
    filterMapiStep f (some (input, oldOut)) input = (oldOut, false, []) :=
  filterMapiStep_same f input oldOut hi hne

/-- (in the revert-to-init branch with two empty inputs the output is `init`, not `oldOut`; C15 shows
that then `oldOut = init`, so the statement is about the flag and the calls) -/
theorem ufold_same {ρ : Type} (u : UFold ρ) (init : ρ) (input : AMap Int) (hi : input.Sorted)
    (oldOut : ρ) : (ufoldStep u init (some (input, oldOut)) input).2 = (false, []) :=
  ufoldStep_same u init input hi oldOut

theorem merge_same (f : Int → MergeArg → Option Int) (l r oldOut : AMap Int) (hl : l.Sorted)
    (hr : r.Sorted) : mergeStep f (some (l, r, oldOut)) l r = (oldOut, false, []) :=
  mergeStep_same f l r oldOut hl hr

/-! ## 5. the initial / emptied branch -/

/-- On a fresh node `incr_filter_mapi` calls the user function once per binding of the input, in key
order. -/
theorem filterMapi_initial (f : Int → Int → Option Int) (input : AMap Int) :
    (filterMapiStep f none input).2.2 = input.map fun kv => (Role.fn, kv.1) := by
  rw [filterMapiStep_none]

/-- On an empty input `incr_filter_mapi` takes the same branch: no call (there is no key), output
empty, but `did_change = true` — also when the previous input was already empty. -/
theorem filterMapi_empty_reports_change (f : Int → Int → Option Int)
    (old : Option (AMap Int × AMap Int)) : filterMapiStep f old [] = ([], true, []) :=
  filterMapiStep_nil f old

/-- On a fresh node the unordered fold calls `add` once per binding of the input, in key order. -/
theorem ufold_initial {ρ : Type} (u : UFold ρ) (init : ρ) (input : AMap Int) :
    (ufoldStep u init none input).2.2 = input.map fun kv => (Role.add, kv.1) := rfl

/-- On a fresh node `incr_merge` calls the merge function once per key of either input, in ascending
key order. -/
theorem merge_initial (f : Int → MergeArg → Option Int) (l r : AMap Int) (hl : l.Sorted)
    (hr : r.Sorted) :
    (∀ c ∈ (mergeStep f none l r).2.2, c.1 = Role.merge) ∧
    List.Pairwise (· < ·) ((mergeStep f none l r).2.2.map (·.2)) ∧
    ∀ k, k ∈ (mergeStep f none l r).2.2.map (·.2) ↔ k ∈ l.keys ∨ k ∈ r.keys := by
  rw [mergeStep_initial_calls f l r hl hr]
  have hla := Proofs.symmetricDiff_ascending [] l AMap.sorted_nil hl
  have hra := Proofs.symmetricDiff_ascending [] r AMap.sorted_nil hr
  refine ⟨?_, ?_, ?_⟩
  · intro c hc
    obtain ⟨e, -, rfl⟩ := List.mem_map.mp hc
    rfl
  · rw [List.map_map]
    exact Proofs.mergeDiffs_ascending _ _ hla hra
  · intro k
    rw [List.map_map]
    exact mergeInitial_stream_key l r hl hr k

/-! ## Non-vacuity: concrete steps where the hypotheses hold and the call lists are non-trivial. -/

/-- keep values below 35, add the key -/
def fEx (k v : Int) : Option Int := if v < 35 then some (v + k) else none

/-- old input `{1↦10, 2↦25, 4↦40, 6↦60}`, new input: 1 removed, 2 changed, 3 added, 4 and 6 untouched:
two calls (keys 2 and 3), none for the removed key 1 or the untouched keys 4, 6. -/
example :
    let oldIn : AMap Int := [(1, 10), (2, 25), (4, 40), (6, 60)]
    let input : AMap Int := [(2, 21), (3, 30), (4, 40), (6, 60)]
    (oldIn.Sorted ∧ input.Sorted ∧ input ≠ []) ∧
    symmetricDiff oldIn input = [(1, .left 10), (2, .unequal 25 21), (3, .right 30)] ∧
    filterMapiStep fEx (some (oldIn, filterMapSpec fEx oldIn)) input =
      ([(2, 23), (3, 33)], true, [(.fn, 2), (.fn, 3)]) := by decide

example : filterMapiStep fEx (some ([(1, 10), (2, 25)], [(1, 11), (2, 27)])) [(1, 10), (2, 25)] =
    ([(1, 11), (2, 27)], false, []) := by decide

example : filterMapiStep fEx none [(1, 10), (2, 25), (4, 40)] =
    ([(1, 11), (2, 27)], true, [(.fn, 1), (.fn, 2), (.fn, 4)]) := by decide

example : filterMapiStep fEx (some ([], [])) [] = ([], true, []) := by decide

/-- the sum fold: one `remove`, one `update`, one `add` for the same change as above -/
example :
    let u : UFold Int := UFold.plain (fun acc k v => acc + (k + v)) (fun acc k v => acc - (k + v)) true
    ufoldStep u 100 (some ([(1, 10), (2, 25), (4, 40), (6, 60)], 248)) [(2, 21), (3, 30), (4, 40), (6, 60)] =
      (266, true, [(.remove, 1), (.update, 2), (.add, 3)]) ∧
    ufoldStep u 100 (some ([(1, 10)], 111)) [] = (100, true, []) ∧
    ufoldStep u 100 (some ([(1, 10)], 111)) [(1, 10)] = (111, false, []) ∧
    ufoldStep u 100 none [(1, 10), (2, 25)] = (138, true, [(.add, 1), (.add, 2)]) := by decide

/-- a merge function using all three cases -/
def mEx (_k : Int) : MergeArg → Option Int
  | .left x => some x
  | .right y => some (-y)
  | .both x y => some (x + y)

/-- left: 1 removed, 2 changed; right: 1 removed, 3 added; keys 5 (left) and 7 (right) untouched.
Key 1 is gone from both sides: no call.  Calls for 2 and 3 only. -/
example :
    let oldL : AMap Int := [(1, 10), (2, 20), (5, 50)]
    let oldR : AMap Int := [(1, 1), (7, 70)]
    let newL : AMap Int := [(2, 21), (5, 50)]
    let newR : AMap Int := [(3, 30), (7, 70)]
    (oldL.Sorted ∧ oldR.Sorted ∧ newL.Sorted ∧ newR.Sorted) ∧
    mergeStep mEx (some (oldL, oldR, mergeSpec' mEx oldL oldR)) newL newR =
      ([(2, 21), (3, -30), (5, 50), (7, -70)], true, [(.merge, 2), (.merge, 3)]) := by decide

example : mergeStep mEx (some ([(1, 10)], [(2, 5)], [(1, 10), (2, -5)])) [(1, 10)] [(2, 5)] =
    ([(1, 10), (2, -5)], false, []) := by decide

example : mergeStep mEx none [(1, 10), (2, 20)] [(2, 5), (3, 7)] =
    ([(1, 10), (2, 25), (3, -7)], true, [(.merge, 1), (.merge, 2), (.merge, 3)]) := by decide

end IncrVerif.Props.C17
