import IncrVerif.Proofs.Step
/-!
# C06 — cutoffs gate propagation (LOCAL STEP theorems)

PROVED HERE (for every state, one call of the step function):
* the cutoff table of `shouldCutoff` (`cutoff_never`, `cutoff_always`, `cutoff_eq`, `cutoff_fn`,
  `cutoff_boxed`, `cutoff_dependOn`, the armed-fault variants `cutoff_fn_armed`,
  `cutoff_fn_fault_fires`) and its frame (`cutoff_frame`: only `log` and `panicCountdown` can change);
* `maybeChangeValue`: the suppress branch (`step_suppress`, `step_suppress_facts`), the propagate branch
  (`step_propagate_facts`, `step_propagate_parents` = "changes are never lost", in full generality:
  MapRef and Expert parents included), the first result (`step_first_result`,
  `step_first_result_facts`);
* `childChanged`: no-op for parents that are neither MapRef nor Expert (`childChanged_plain`), the
  MapRef case (`childChanged_mapRef`), an invalidated parent panics (`childChanged_invalid`);
* `parentIterCanRecomputeNow`: complete description (`canRecomputeNow_run`), `true` only if
  `can ∨ height ≤ minHeight` (`canRecomputeNow_true`), `false` means inserted
  (`canRecomputeNow_false`), parents with ≥ 2 children never have `can` (`canRecomputeNow_multi`).

NOT PROVED HERE: the global property "a node whose value was cut off causes no recomputation of its
dependants during the stabilisation" for whole histories.  It needs the scheduling invariant of
`drainHeap` (every stale necessary node is in the heap or on the direct-recompute chain), which is
developed separately; the theorems here are the per-step facts that invariant proof consumes.

ASSUMPTIONS.  `s.panicCountdown = none` (no injected fault armed; then `tick` is a no-op) wherever a
user cutoff function may run, except in the two `…_armed`/`…_fault_fires` theorems.  Nodes are named by
index; `s.nodes[n]? = some nd` says node `n` exists.  `Step.cutoffLog`, `Step.logged`, `Step.setValue`,
`Step.changedState`, `Step.InHeap`, `Step.Noise`, `Step.minHeightOf`, `Step.withMinHeight`,
`Step.canRecomputeNow` are defined in `Proofs/Step.lean`.
-/
namespace IncrVerif.Props.C06
open IncrVerif.Engine IncrVerif.Proofs IncrVerif.Proofs.Step

/-! ## 1. the cutoff table -/

/-- `Cutoff::Never`: never suppress; nothing at all changes. -/
theorem cutoff_never (env : Env) (n : Nat) (old new : Val) (s : State) (nd : Node)
    (hn : s.nodes[n]? = some nd) (hc : nd.cutoff = .never) :
    (shouldCutoff env n old new).run.run s = (.ok false, s) := by
  unfold shouldCutoff; rw [run_bind_ok (run_getNode_some hn), hc]; rfl

example : exS.nodes[0]? = some (exS.nodeD 0) ∧ (exS.nodeD 0).cutoff = .never := ⟨rfl, rfl⟩
example : (shouldCutoff exEnv 0 (.int 1) (.int 1)).run.run exS = (.ok false, exS) := rfl

/-- `Cutoff::Always`: always suppress; nothing at all changes. -/
theorem cutoff_always (env : Env) (n : Nat) (old new : Val) (s : State) (nd : Node)
    (hn : s.nodes[n]? = some nd) (hc : nd.cutoff = .always) :
    (shouldCutoff env n old new).run.run s = (.ok true, s) := by
  unfold shouldCutoff; rw [run_bind_ok (run_getNode_some hn), hc]; rfl

example : exS.nodes[5]? = some (exS.nodeD 5) ∧ (exS.nodeD 5).cutoff = .always := ⟨rfl, rfl⟩
example : (shouldCutoff exEnv 5 (.int 1) (.int 2)).run.run exS = (.ok true, exS) := rfl

/-- `Cutoff::PartialEq` (the default): suppress iff the old and new value are equal. -/
theorem cutoff_eq (env : Env) (n : Nat) (old new : Val) (s : State) (nd : Node)
    (hn : s.nodes[n]? = some nd) (hc : nd.cutoff = .eq) :
    (shouldCutoff env n old new).run.run s = (.ok (old == new), s) := by
  unfold shouldCutoff; rw [run_bind_ok (run_getNode_some hn), hc]; rfl

example : exS.nodes[2]? = some (exS.nodeD 2) ∧ (exS.nodeD 2).cutoff = .eq := ⟨rfl, rfl⟩
example : (shouldCutoff exEnv 2 (.int 1) (.int 2)).run.run exS = (.ok false, exS) := rfl

/-- `Cutoff::Fn c`: the user function is called once, with the arguments in the order (old, new);
its answer is the verdict; exactly one `cut` event recording node, arguments and answer is logged;
nothing else changes.  (No fault armed.) -/
theorem cutoff_fn (env : Env) (n c : Nat) (old new : Val) (s : State) (nd : Node)
    (hn : s.nodes[n]? = some nd) (hc : nd.cutoff = .fn c) (hp : s.panicCountdown = none) :
    (shouldCutoff env n old new).run.run s =
      (.ok (env.cutoff c old new),
       { s with log := Event.cut c n old new (env.cutoff c old new) :: s.log }) := by
  unfold shouldCutoff
  rw [run_bind_ok (run_getNode_some hn), hc]
  simp only [run_bind_tick_none, hp, run_bind_logEv, run_pure]

example : exS.nodes[1]? = some (exS.nodeD 1) ∧ (exS.nodeD 1).cutoff = .fn 0 ∧
    exS.panicCountdown = none := ⟨rfl, rfl, rfl⟩
example : ((shouldCutoff exEnv 1 (.int 1) (.int 3)).run.run exS).1 = .ok true := rfl

/-- `Cutoff::FnBoxed c`: as `Cutoff::Fn`. -/
theorem cutoff_boxed (env : Env) (n c : Nat) (old new : Val) (s : State) (nd : Node)
    (hn : s.nodes[n]? = some nd) (hc : nd.cutoff = .boxed c) (hp : s.panicCountdown = none) :
    (shouldCutoff env n old new).run.run s =
      (.ok (env.cutoff c old new),
       { s with log := Event.cut c n old new (env.cutoff c old new) :: s.log }) := by
  unfold shouldCutoff
  rw [run_bind_ok (run_getNode_some hn), hc]
  simp only [run_bind_tick_none, hp, run_bind_logEv, run_pure]

/-- `exS` with node 1's cutoff boxed -/
def exSboxed : State := { exS with nodes := exS.nodes.modify 1 fun x => { x with cutoff := .boxed 0 } }
example : exSboxed.nodes[1]? = some (exSboxed.nodeD 1) ∧ (exSboxed.nodeD 1).cutoff = .boxed 0 ∧
    exSboxed.panicCountdown = none := ⟨rfl, rfl, rfl⟩

/-- The call of a user cutoff function is a `tick`: with a fault armed for a later invocation
(`k ≥ 2`) the countdown is decremented, and everything else is as in `cutoff_fn`. -/
theorem cutoff_fn_armed (env : Env) (n c k : Nat) (old new : Val) (s : State) (nd : Node)
    (hn : s.nodes[n]? = some nd) (hc : nd.cutoff = .fn c ∨ nd.cutoff = .boxed c)
    (hp : s.panicCountdown = some k) (hk : 2 ≤ k) :
    (shouldCutoff env n old new).run.run s =
      (.ok (env.cutoff c old new),
       { s with panicCountdown := some (k - 1),
                log := Event.cut c n old new (env.cutoff c old new) :: s.log }) := by
  have hk' : ¬ k ≤ 1 := by omega
  unfold shouldCutoff
  rw [run_bind_ok (run_getNode_some hn)]
  rcases hc with hc | hc <;> rw [hc] <;>
    simp only [tick, bind_assoc, run_bind_get, hp, hk', if_false, run_bind_modify, run_bind_logEv,
      run_pure]

/-- `exS` with a fault armed for the third user-closure invocation from now -/
def exSarmed : State := { exS with panicCountdown := some 3 }
example : exSarmed.nodes[1]? = some (exSarmed.nodeD 1) ∧ (exSarmed.nodeD 1).cutoff = .fn 0 ∧
    exSarmed.panicCountdown = some 3 := ⟨rfl, rfl, rfl⟩

/-- With the fault armed for this very invocation (`k ≤ 1`) the call panics ("user") before the
cutoff function runs: no `cut` event, the fault is disarmed, nothing else changes. -/
theorem cutoff_fn_fault_fires (env : Env) (n c k : Nat) (old new : Val) (s : State) (nd : Node)
    (hn : s.nodes[n]? = some nd) (hc : nd.cutoff = .fn c ∨ nd.cutoff = .boxed c)
    (hp : s.panicCountdown = some k) (hk : k ≤ 1) :
    (shouldCutoff env n old new).run.run s =
      (.error (.site "user"), { s with panicCountdown := none }) := by
  unfold shouldCutoff
  rw [run_bind_ok (run_getNode_some hn)]
  rcases hc with hc | hc <;> rw [hc] <;>
    simp only [tick, bind_assoc, run_bind_get, hp, hk, if_true, run_bind_modify] <;> rfl

/-- `exS` with a fault armed for the next user-closure invocation -/
def exSfire : State := { exS with panicCountdown := some 1 }
example : exSfire.nodes[1]? = some (exSfire.nodeD 1) ∧ (exSfire.nodeD 1).cutoff = .fn 0 ∧
    exSfire.panicCountdown = some 1 := ⟨rfl, rfl, rfl⟩

/-- `depend_on` (`preserve_cutoff`): suppress iff the named input's `changedAt` equals this node's
`changedAt`; the values are not looked at; nothing changes. -/
theorem cutoff_dependOn (env : Env) (n i : Nat) (old new : Val) (s : State) (nd ni : Node)
    (hn : s.nodes[n]? = some nd) (hc : nd.cutoff = .dependOn i) (hi : s.nodes[i]? = some ni) :
    (shouldCutoff env n old new).run.run s = (.ok (ni.changedAt == nd.changedAt), s) := by
  unfold shouldCutoff
  rw [run_bind_ok (run_getNode_some hn), hc]
  simp only [run_bind_ok (run_getNode_some hi), run_bind_ok (run_getNode_some hn), run_pure]

example : exS.nodes[6]? = some (exS.nodeD 6) ∧ (exS.nodeD 6).cutoff = .dependOn 5 ∧
    exS.nodes[5]? = some (exS.nodeD 5) := ⟨rfl, rfl, rfl⟩
example : (shouldCutoff exEnv 6 .unit .unit).run.run exS = (.ok false, exS) := rfl

/-- Whatever the cutoff and however the call ends (verdict or panic), a cutoff check changes no
field of the state other than `log` and `panicCountdown`. -/
theorem cutoff_frame (env : Env) (n : Nat) (old new : Val) (s s' : State) (r : Except Panic Bool)
    (h : (shouldCutoff env n old new).run.run s = (r, s')) :
    s' = { s with log := s'.log, panicCountdown := s'.panicCountdown } :=
  (Pres.shouldCutoff_onlyLogPc env n old new).h s r s' h

example : ∃ r s', (shouldCutoff exEnv 1 (.int 1) (.int 3)).run.run exSfire = (r, s') := ⟨_, _, rfl⟩


/-! ## 2. `maybeChangeValue`: suppress or propagate -/

/-- Cutoff says "suppress" (node `n` has a value `old`, `shouldCutoff … old new` returns `true`, no
fault armed): `maybe_change_value` returns `none` (nothing to recompute directly) and the final state
is the initial one with the cutoff's `cut` event (if any) logged and the `value` of node `n`
replaced by `new` — the value IS replaced even though the change is cut off. -/
theorem step_suppress (env : Env) (fuel n : Nat) (old new : Val) (s : State) (nd : Node)
    (hn : s.nodes[n]? = some nd) (hv : nd.value = some old) (hp : s.panicCountdown = none)
    (hcut : ((shouldCutoff env n old new).run.run s).1 = .ok true) :
    (maybeChangeValue env fuel n new).run.run s =
      (.ok none, setValue n (some new) (logged (cutoffLog env s n old new) s)) := by
  obtain ⟨hd, hl⟩ := mcvChanges_some env n old new s nd true hn hv hp hcut
  rw [mcv_suppress env fuel n new s nd hn hp hd, hl]

example : exS.nodes[1]? = some (exS.nodeD 1) ∧ (exS.nodeD 1).value = some (.int 1) ∧
    exS.panicCountdown = none ∧
    ((shouldCutoff exEnv 1 (.int 1) (.int 3)).run.run exS).1 = .ok true := ⟨rfl, rfl, rfl, rfl⟩

/-- The same, field by field: after a suppressed change node `n` is as before except for its
`value` (in particular `changedAt` is unchanged), no other node changed, the recompute heap, the
counters (`changed` included), vars and the round number are unchanged, and the log grew by exactly
the cutoff's events. -/
theorem step_suppress_facts (env : Env) (fuel n : Nat) (old new : Val) (s s' : State) (nd : Node)
    (r : Option Nat)
    (hn : s.nodes[n]? = some nd) (hv : nd.value = some old) (hp : s.panicCountdown = none)
    (hcut : ((shouldCutoff env n old new).run.run s).1 = .ok true)
    (h : (maybeChangeValue env fuel n new).run.run s = (.ok r, s')) :
    r = none ∧ s'.nodes[n]? = some { nd with value := some new } ∧
    (∀ m, m ≠ n → s'.nodes[m]? = s.nodes[m]?) ∧
    s'.rch = s.rch ∧ s'.counters = s.counters ∧ s'.vars = s.vars ∧ s'.stabNum = s.stabNum ∧
    s'.log = cutoffLog env s n old new ++ s.log := by
  rw [step_suppress env fuel n old new s nd hn hv hp hcut] at h
  cases h
  refine ⟨rfl, ?_, ?_, rfl, rfl, rfl, rfl, rfl⟩
  · rw [setValue_getElem?]
    show Option.map _ s.nodes[n]? = _
    rw [hn]; simp
  · intro m hm
    rw [setValue_getElem?]
    show Option.map _ s.nodes[m]? = _
    cases s.nodes[m]? <;> simp [Ne.symm hm]

example : ∃ r s', (maybeChangeValue exEnv 5 1 (.int 3)).run.run exS = (.ok r, s') := ⟨_, _, rfl⟩

/-- Cutoff says "propagate" (`shouldCutoff … old new` returns `false`) and the call returns:
node `n` now has `value = some new` and `changedAt = s.stabNum` (its `recomputedAt` is untouched), the
`changed` counter went up by one and no other counter moved, and the frame `StepFrame n s s'` holds:
no other node's `value`/`changedAt`/`recomputedAt` changed, no node's `kind`/`valid`/`cutoff`/`height`/
`parents` changed, no node left the recompute heap, vars/binds/round number unchanged.  The log
grew by the cutoff's own events followed by notification noise (cutoff checks of MapRef parents,
edge callbacks of Expert parents). -/
theorem step_propagate_facts (env : Env) (fuel n : Nat) (old new : Val) (s s' : State) (nd : Node)
    (r : Option Nat)
    (hn : s.nodes[n]? = some nd) (hv : nd.value = some old) (hp : s.panicCountdown = none)
    (hcut : ((shouldCutoff env n old new).run.run s).1 = .ok false)
    (h : (maybeChangeValue env fuel n new).run.run s = (.ok r, s')) :
    StepFrame n s s' ∧
    (s'.nodeD n).value = some new ∧ (s'.nodeD n).changedAt = s.stabNum ∧
    (s'.nodeD n).recomputedAt = nd.recomputedAt ∧
    s'.counters = { s.counters with changed := s.counters.changed + 1 } ∧
    (∃ tail, s'.log = tail ++ cutoffLog env s n old new ++ s.log ∧ ∀ e, e ∈ tail → Noise e) := by
  obtain ⟨hd, hl⟩ := mcvChanges_some env n old new s nd false hn hv hp hcut
  obtain ⟨h1, h2, h3, h4, h5, h6, _⟩ := mcv_propagate_facts env fuel n new s s' nd r hn hp hd h
  rw [hl] at h6
  exact ⟨h1, h2, h3, h4, h5, h6⟩

example : exS.nodes[0]? = some (exS.nodeD 0) ∧ (exS.nodeD 0).value = some (.int 1) ∧
    exS.panicCountdown = none ∧
    ((shouldCutoff exEnv 0 (.int 1) (.int 4)).run.run exS).1 = .ok false ∧
    ∃ r s', (maybeChangeValue exEnv 5 0 (.int 4)).run.run exS = (.ok r, s') :=
  ⟨rfl, rfl, rfl, rfl, _, _, rfl⟩

/-- "Changes are never lost": when the cutoff says "propagate" and the call returns, EVERY parent `p`
in node `n`'s `parents` list is afterwards in the recompute heap (`InHeap p s'`: the node exists and
its `heightInRch ≥ 0`), or it is the node `some p` returned to the caller for direct recomputation —
and that can only be the FIRST parent.  Full generality: parents of any kind, `child_changed`
forwarding through MapRef parents and edge callbacks of Expert parents included. -/
theorem step_propagate_parents (env : Env) (fuel n : Nat) (old new : Val) (s s' : State) (nd : Node)
    (r : Option Nat)
    (hn : s.nodes[n]? = some nd) (hv : nd.value = some old) (hp : s.panicCountdown = none)
    (hcut : ((shouldCutoff env n old new).run.run s).1 = .ok false)
    (h : (maybeChangeValue env fuel n new).run.run s = (.ok r, s')) :
    ∀ p, p ∈ nd.parents.map (·.1) →
      InHeap p s' ∨ (p < s'.nodes.size ∧ r = some p ∧ (nd.parents.head?).map (·.1) = some p) := by
  obtain ⟨hd, _⟩ := mcvChanges_some env n old new s nd false hn hv hp hcut
  exact (mcv_propagate env fuel n new s s' nd r hn hp hd h).2

example : (exS.nodeD 0).parents.map (·.1) = [1, 2, 3, 4] := rfl
example : ((maybeChangeValue exEnv 5 0 (.int 4)).run.run exS).1 = .ok (some 1) := rfl
example : (((maybeChangeValue exEnv 5 0 (.int 4)).run.run exS).2.nodeD 2).inRch = true := rfl
example : (((maybeChangeValue exEnv 5 0 (.int 4)).run.run exS).2.nodeD 1).inRch = false := rfl

/-! ## 3. the first result is always propagated -/

/-- A node that has never been computed (`value = none`): `maybe_change_value` stores the value and
goes straight to `maybe_change_value_manual` with "did change" — the node's cutoff is not consulted
at all (so `Cutoff::Always` only ever suppresses after the first result).  No assumption on
`panicCountdown` is needed: no user code runs before the notifications. -/
theorem step_first_result (env : Env) (fuel n : Nat) (new : Val) (s : State) (nd : Node)
    (hn : s.nodes[n]? = some nd) (hv : nd.value = none) :
    (maybeChangeValue env fuel n new).run.run s =
      (maybeChangeValueManual env fuel n none true true).run.run (setValue n (some new) s) := by
  rw [mcv_run env fuel n new s nd hn, hv]

example : exS.nodes[6]? = some (exS.nodeD 6) ∧ (exS.nodeD 6).value = none ∧
    (exS.nodeD 6).cutoff = .dependOn 5 := ⟨rfl, rfl, rfl⟩

/-- The first result, field by field (no fault armed): as `step_propagate_facts`, and the cutoff
logs nothing (`tail` is notification noise only). -/
theorem step_first_result_facts (env : Env) (fuel n : Nat) (new : Val) (s s' : State) (nd : Node)
    (r : Option Nat)
    (hn : s.nodes[n]? = some nd) (hv : nd.value = none) (hp : s.panicCountdown = none)
    (h : (maybeChangeValue env fuel n new).run.run s = (.ok r, s')) :
    StepFrame n s s' ∧
    (s'.nodeD n).value = some new ∧ (s'.nodeD n).changedAt = s.stabNum ∧
    s'.counters = { s.counters with changed := s.counters.changed + 1 } ∧
    (∃ tail, s'.log = tail ++ s.log ∧ ∀ e, e ∈ tail → Noise e) ∧
    (∀ p, p ∈ nd.parents.map (·.1) →
      InHeap p s' ∨ (p < s'.nodes.size ∧ r = some p ∧ (nd.parents.head?).map (·.1) = some p)) := by
  obtain ⟨hd, hl⟩ := mcvChanges_none env n new s nd hn hv
  obtain ⟨h1, h2, h3, _, h5, h6, _⟩ := mcv_propagate_facts env fuel n new s s' nd r hn hp hd h
  rw [hl] at h6
  simp only [List.append_nil] at h6
  exact ⟨h1, h2, h3, h5, h6, (mcv_propagate env fuel n new s s' nd r hn hp hd h).2⟩

/-- `exS` with node 5 (cutoff `Always`) never computed and node 6 linked as its parent -/
def exSfirst : State :=
  { exS with nodes := exS.nodes.modify 5 fun x => { x with value := none, recomputedAt := -1 } }
example : exSfirst.nodes[5]? = some (exSfirst.nodeD 5) ∧ (exSfirst.nodeD 5).value = none ∧
    (exSfirst.nodeD 5).cutoff = .always ∧ exSfirst.panicCountdown = none ∧
    ∃ r s', (maybeChangeValue exEnv 5 5 (.int 7)).run.run exSfirst = (.ok r, s') :=
  ⟨rfl, rfl, rfl, rfl, _, _, rfl⟩
example : (((maybeChangeValue exEnv 5 5 (.int 7)).run.run exSfirst).2.nodeD 5).changedAt = 1 := rfl


/-! ## 3b. what `child_changed` does, by kind of the parent -/

/-- For a valid parent that is neither a MapRef nor an Expert node, `child_changed` does nothing. -/
theorem childChanged_plain (env : Env) (fuel p child ci : Nat) (o : Option Val) (s : State) (nd : Node)
    (hp : s.nodes[p]? = some nd) (hv : nd.valid = true)
    (hm : ∀ pr i, nd.kind ≠ .mapRef pr i) (he : ∀ e, nd.kind ≠ .expert e) :
    (childChanged env (fuel + 1) p child ci o).run.run s = (.ok (), s) := by
  unfold childChanged
  rw [run_bind_ok (run_getNode_some hp)]
  have : nd.kind? = some nd.kind := by simp [Node.kind?, hv]
  rw [this]
  cases hk : nd.kind <;> first | rfl | exact absurd hk (hm _ _) | exact absurd hk (he _)

example : exS.nodes[1]? = some (exS.nodeD 1) ∧ (exS.nodeD 1).valid = true ∧
    (exS.nodeD 1).kind = .map 0 [0] := ⟨rfl, rfl, rfl⟩

/-- An invalidated parent makes `child_changed` panic (`ParentInvalidated`), state untouched. -/
theorem childChanged_invalid (env : Env) (fuel p child ci : Nat) (o : Option Val) (s : State) (nd : Node)
    (hp : s.nodes[p]? = some nd) (hv : nd.valid = false) :
    (childChanged env (fuel + 1) p child ci o).run.run s =
      (.error (.site "node:child_changed:ParentInvalidated"), s) := by
  unfold childChanged
  rw [run_bind_ok (run_getNode_some hp)]
  have : nd.kind? = none := by simp [Node.kind?, hv]
  rw [this]
  rfl

/-- `exS` with node 1 invalidated -/
def exSinvalid : State := { exS with nodes := exS.nodes.modify 1 fun x => { x with valid := false } }
example : exSinvalid.nodes[1]? = some (exSinvalid.nodeD 1) ∧ (exSinvalid.nodeD 1).valid = false :=
  ⟨rfl, rfl⟩

/-- For a MapRef parent `p = map_ref(pr, ·)` and a child that has the value `cn`: the child's old and
new value are projected through `pr`; if there was no old value the projection counts as changed,
otherwise `p`'s OWN cutoff is asked about (projected old, projected new); the answer is OR-ed into
the sticky flag `p.didChange := p.didChange || !cutoff`; and the notification is forwarded to every
parent of `p` with the projected old value (`Step.forwardChildChanged`). -/
theorem childChanged_mapRef (env : Env) (fuel p child ci : Nat) (oldOpt : Option Val) (s : State)
    (nd : Node) (pr i : Nat) (cn : Val)
    (hp : s.nodes[p]? = some nd) (hk : nd.kind? = some (.mapRef pr i))
    (hv : s.value env child = some cn) :
    (childChanged env (fuel + 1) p child ci oldOpt).run.run s =
      match oldOpt with
      | none => (forwardChildChanged env fuel p none nd.parents).run.run (orDidChange p true s)
      | some o =>
        match (shouldCutoff env p (env.proj pr o) (env.proj pr cn)).run.run s with
        | (.ok c, s1) =>
          (forwardChildChanged env fuel p (some (env.proj pr o)) (s1.nodeD p).parents).run.run
            (orDidChange p (!c) s1)
        | (.error e, s1) => (.error e, s1) :=
  childChanged_mapRef_run env fuel p child ci oldOpt s nd pr i cn hp hk hv

example : exS.nodes[3]? = some (exS.nodeD 3) ∧ (exS.nodeD 3).kind? = some (.mapRef 0 0) ∧
    exS.value exEnv 0 = some (.int 1) := ⟨rfl, rfl, rfl⟩
example : (((childChanged exEnv 3 3 0 0 (some (.int 2))).run.run exS).2.nodeD 3).didChange = true := rfl

/-! ## 4. `parent_iter_can_recompute_now` -/

/-- Complete description of `parent_iter_can_recompute_now p child`: an invalid parent gives
`false` with nothing done; otherwise `min_height` is taken (which also raises the heap's lower bound:
`withMinHeight`), the flag `can` is computed (`Step.canRecomputeNow`), and
`can ∨ p.height ≤ minHeight` gives `true`; else [debug assertions] `p` is inserted in the recompute
heap and the answer is `false`. -/
theorem parentIter_run (p child : Nat) (s : State) :
    (parentIterCanRecomputeNow p child).run.run s =
      match s.nodes[p]? with
      | none => (.error (.site "model:no-such-node"), s)
      | some pn => match pn.kind? with
        | none => (.ok false, s)
        | some k => match s.nodes[child]? with
          | none => (.error (.site "model:no-such-node"), withMinHeight s)
          | some cn => match canRecomputeNow s pn k cn.height (minHeightOf s) with
            | .error e => (.error e, withMinHeight s)
            | .ok can =>
              if (can || decide (pn.height ≤ minHeightOf s)) = true then (.ok true, withMinHeight s)
              else if s.cfg.debug = true ∧ s.needsToBeComputed p = false then
                (.error (.site "node:parent_iter_can_recompute_now:needs-to-be-computed"), withMinHeight s)
              else if s.cfg.debug = true ∧ pn.inRch = true then
                (.error (.site "node:parent_iter_can_recompute_now:not-in-rch"), withMinHeight s)
              else mapOk' false ((rchInsert p).run.run (withMinHeight s)) :=
  picrn_run p child s

example : ((parentIterCanRecomputeNow 1 0).run.run exS).1 = .ok true := rfl

/-- It answers `true` ONLY IF `can ∨ p.height ≤ minHeight`; and then nothing but the heap's lower
bound changed. -/
theorem parentIter_true (p child : Nat) (s s' : State)
    (h : (parentIterCanRecomputeNow p child).run.run s = (.ok true, s')) :
    ∃ pn k cn can, s.nodes[p]? = some pn ∧ pn.kind? = some k ∧ s.nodes[child]? = some cn ∧
      canRecomputeNow s pn k cn.height (minHeightOf s) = .ok can ∧
      (can = true ∨ pn.height ≤ minHeightOf s) ∧ s' = withMinHeight s := by
  rw [picrn_run] at h
  cases hp : s.nodes[p]? with
  | none => rw [hp] at h; cases h
  | some pn =>
    rw [hp] at h; dsimp only at h
    cases hk : pn.kind? with
    | none => rw [hk] at h; cases h
    | some k =>
      rw [hk] at h; dsimp only at h
      cases hc : s.nodes[child]? with
      | none => rw [hc] at h; cases h
      | some cn =>
        rw [hc] at h; dsimp only at h
        cases hcan : canRecomputeNow s pn k cn.height (minHeightOf s) with
        | error e => rw [hcan] at h; cases h
        | ok can =>
          rw [hcan] at h; dsimp only at h
          split at h
          · rename_i hc1
            cases h
            refine ⟨pn, k, cn, can, rfl, hk, rfl, hcan, ?_, rfl⟩
            simpa using hc1
          split at h
          · cases h
          split at h
          · cases h
          rcases hi : (rchInsert p).run.run (withMinHeight s) with ⟨_ | u, s2⟩ <;>
            rw [hi] at h <;> cases h

example : ∃ s', (parentIterCanRecomputeNow 1 0).run.run exS = (.ok true, s') := ⟨_, rfl⟩

/-- It answers `false` for a valid parent ONLY BY inserting it in the recompute heap: `p` is in the
heap afterwards. -/
theorem parentIter_false (p child : Nat) (s s' : State) (pn : Node)
    (hp : s.nodes[p]? = some pn) (hv : pn.valid = true)
    (h : (parentIterCanRecomputeNow p child).run.run s = (.ok false, s')) :
    InHeap p s' :=
  picrn_false_inHeap h (lt_of_some hp) (by rw [nodeD_of_some hp]; exact hv)

/-- `exS` with node 4 (height 1) already waiting in the recompute heap (so the minimum height is 1) and
the two-child node 2 moved up to height 2 and never computed: node 2 cannot be recomputed now -/
def exSbusy : State :=
  { exS with
    nodes := (exS.nodes.modify 4 fun x => { x with heightInRch := 1 }).modify 2 fun x =>
      { x with height := 2, recomputedAt := -1 },
    rch := { exS.rch with queues := exS.rch.queues.modify 1 (· ++ [4]), length := 1, lowerBound := 1 } }
example : exSbusy.nodes[2]? = some (exSbusy.nodeD 2) ∧ (exSbusy.nodeD 2).valid = true ∧
    ∃ s', (parentIterCanRecomputeNow 2 0).run.run exSbusy = (.ok false, s') := ⟨rfl, rfl, _, rfl⟩
example : (((parentIterCanRecomputeNow 2 0).run.run exSbusy).2.nodeD 2).inRch = true := rfl

/-- Parents with two or more children (`map` of arity ≥ 2, `fold`, expert nodes) never have the `can`
flag … -/
theorem parentIter_multi_can (s : State) (pn : Node) (k : Kind) (ch minH : Int)
    (hk : (∃ f args, k = .map f args ∧ 2 ≤ args.length) ∨ (∃ f i cs, k = .fold f i cs) ∨
      (∃ e, k = .expert e)) :
    canRecomputeNow s pn k ch minH = .ok false := by
  rcases hk with ⟨f, args, rfl, h2⟩ | ⟨f, i, cs, rfl⟩ | ⟨e, rfl⟩
  · simp only [canRecomputeNow]; rw [if_pos h2]
  · rfl
  · rfl

/-- … so for them the answer `true` means exactly `p.height ≤ minHeight`: nothing lower is waiting in
the heap, all their other children are up to date. -/
theorem parentIter_multi_true (p child : Nat) (s s' : State) (pn : Node) (k : Kind)
    (hp : s.nodes[p]? = some pn) (hkind : pn.kind? = some k)
    (hk : (∃ f args, k = .map f args ∧ 2 ≤ args.length) ∨ (∃ f i cs, k = .fold f i cs) ∨
      (∃ e, k = .expert e))
    (h : (parentIterCanRecomputeNow p child).run.run s = (.ok true, s')) :
    pn.height ≤ minHeightOf s := by
  obtain ⟨pn', k', cn, can, h1, h2, _, h4, h5, _⟩ := parentIter_true p child s s' h
  rw [hp] at h1; cases h1
  rw [hkind] at h2; cases h2
  rw [parentIter_multi_can s pn k cn.height (minHeightOf s) hk] at h4
  cases h4
  rcases h5 with h5 | h5
  · cases h5
  · exact h5

example : exS.nodes[2]? = some (exS.nodeD 2) ∧ (exS.nodeD 2).kind? = some (.fold 0 (.int 10) [0, 0]) ∧
    ∃ s', (parentIterCanRecomputeNow 2 0).run.run exS = (.ok true, s') := ⟨rfl, rfl, _, rfl⟩

end IncrVerif.Props.C06
