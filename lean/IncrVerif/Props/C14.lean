import IncrVerif.Proofs.ExpertLemmas
/-!
# C14 — expert nodes with dynamic dependencies (LOCAL theorems, one call of an API function each)

PROVED HERE (for every state; hypotheses are listed under ASSUMPTIONS):
* (a) `expert_remove_dependency` on a node that is NOT necessary: exact run equation
  (`remove_dependency_unnecessary`), the edge-list bookkeeping read off from it
  (`remove_dependency_bookkeeping`: `swap_remove` shape, length, multiset, slots, no other node and no
  heap touched; `remove_dependency_no_dep_left`), and the three ways it can refuse
  (`remove_dependency_not_attached`, `remove_dependency_assert_fails`, `remove_dependency_invalid`);
* (a) on a NECESSARY node (last section): the exact factorisation of the call through the closed-form
  state before `remove_parent` (`remove_dependency_necessary_factor`), where `remove_parent` finds the
  entry (`remove_dependency_necessary_remove_parent`, `remove_dependency_necessary_asym`), the run
  equation when the removed child stays necessary (`remove_dependency_necessary_stays`), the tail
  (`rm_finish_queued`, `rm_finish_insert`, `rm_finish_in_heap`), the `swapEdgeIndices` specification
  (`swap_edge_indices_run`), preservation of edge symmetry with duplicates on one child — repaired D8
  (`remove_dependency_edge_symmetry`, `edge_symmetry_no_stale_index`), and the complete post-condition
  incl. "`numInvalidChildren` decremented iff the removed child is invalid" — repaired D6 — and "`n` is in
  the recompute heap" (`remove_dependency_necessary_post`);
* (b) `expert_add_dependency` on a node that is not necessary (`add_dependency_unnecessary`), on an
  invalid node (`add_dependency_invalid`) and on a non-expert (`add_dependency_not_expert`);
* (c) `expert_make_stale`: exact run equation (`make_stale_run`), the no-op cases
  (`make_stale_invalid`, `make_stale_not_expert`, `make_stale_already`), the debug assertion
  (`make_stale_assert_fails`), "the node is stale afterwards" (`make_stale_is_stale`), and "the next
  recompute resets the flag" (`recompute_resets_flags`);
* (d) the `.expert` branch of `recompute_one`: invalid children ⇒ the node invalidates itself
  (`recompute_expert_invalid_children`); otherwise the master equation (`recompute_expert_run`), "every
  callback has fired with the child's current value before the closure runs, if the node had been
  unobserved" (`recompute_expert_fires_all`, `recompute_expert_slots_kept`), and what the record looks
  like afterwards whatever the rest of the step does (`recompute_resets_flags`);
* (e) `run_edge_callback` (`run_edge_callback_run`), `Edge::on_change` (`edge_on_change_run`,
  `edge_on_change_no_cb`, `edge_on_change_no_value`), `child_changed` on an expert parent
  (`child_changed_expert`);
* (f) `observability_change` (`observability_false`, `observability_true`).

NOT PROVED HERE:
* `expert_add_dependency` on a NECESSARY node (it runs `state_add_parent`: the `became_necessary`
  cascade, `adjust_heights`, `propagate_invalidity`); only the unnecessary/invalid cases are treated;
* `expert_invalidate` (it is `invalidate_node` + `propagate_invalidity`, both fuel-recursive cascades);
* the effect of the `check_if_unnecessary` cascade inside `expert_remove_dependency` on a necessary
  node is not described: `remove_dependency_necessary_factor` factors the run through that call, and the
  closed forms / the post-condition are for the case that the removed child stays necessary (then the
  cascade does not start).  In a cyclic state the cascade could reach `n` itself;
* the "step form" of (e) through the parents loop of `maybe_change_value_manual` (only the statement
  about one `child_changed` call is given; that every parent entry gets such a call is the loop of
  `maybeChangeValueManual`, see `Props/C06.lean` `step_propagate_parents` for its heap part);
* the whole-history statement "after every stabilise an expert shows the value of its closure on its
  current dependencies" (it needs the scheduling invariant of `drainHeap`); the theorems here are the
  per-call facts that proof consumes;
* internal per-key operator nodes (`er.pk ≠ none`): they skip the `tick`/log lines; only
  `observability_false_internal` is stated for them.

ASSUMPTIONS.
* `Xp.IsExpert s n nd e er`: node `n` exists (`s.nodes[n]? = some nd`), is valid, has kind `.expert e`,
  and expert record `e` exists and is `er`.  (The engine creates both together; a dangling expert index
  makes `getExpert` panic with a `model:` site.)
* `er.pk = none`: a user-defined expert (the per-key operators of `incr_map` use internal expert nodes
  whose callbacks are not user closures and are not logged).
* `Xp.runningOk s n = true`: the debug-build assertion `assert_currently_running_node_is_child`
  passes, i.e. `s.cfg.debug = false`, or some node is being recomputed and it is a child of `n`.
  When it is `false` the call panics and leaves the state alone (`…_assert_fails`).
* `s.panicCountdown = none`: no injected fault armed (then `tick` is a no-op), wherever a user closure
  (edge callback, recompute closure) may run.
* "not necessary" is `nd.isNecessary = false`: no parents, no observers, not force-necessary.
* distinct dependency names (`(er.children.map (·.dep)).Nodup`) where a statement is about "the slot
  of a dependency": names come from the counter `nextDep`, which `expert_add_dependency` bumps on
  every call (`add_dependency_unnecessary`), so they are distinct in every reachable state.

The state transformers `Xp.putExpert`, `Xp.forced`, `Xp.removedRec`, `Xp.swapPop`, `Xp.newEdge`,
`Xp.bumpDep`, `Xp.deliver`, `Xp.fireEdge`, `Xp.readyRec`, `Xp.readyState`, `Xp.expertResult` are defined
in `Proofs/ExpertLemmas.lean`; `Step.started`, `Step.logged` in `Proofs/Step.lean`; `inserted`,
`lowered` in `Proofs/Heights.lean`.
-/
namespace IncrVerif.Props.C14
open IncrVerif.Engine IncrVerif.Proofs IncrVerif.Proofs.Step IncrVerif.Proofs.Xp

/-! ## (b) `expert_add_dependency` -/

/-- Adding a dependency to a valid expert node that nobody needs never panics, returns the fresh
dependency name `s.nextDep`, appends the edge (callback id = dependency name iff `cb`) at the end of
the edge list, sets `forceStale`, bumps `nextDep`, and changes nothing else: no node, no heap. -/
theorem add_dependency_unnecessary (env : Env) (fuel n child : Nat) (cb : Bool) (s : State) (nd : Node)
    (e : Nat) (er : ExpertRec) (hx : IsExpert s n nd e er) (hnec : nd.isNecessary = false) :
    (expertAddDependency env fuel n child cb).run.run s =
      (.ok s.nextDep,
        putExpert e { er with children := er.children ++ [newEdge s child cb], forceStale := true }
          (bumpDep s)) :=
  expertAddDependency_unnecessary env fuel n child cb hx hnec

example : IsExpert exU 2 (exU.nodeD 2) 0 (exU.experts[0]?.getD default) ∧
    (exU.nodeD 2).isNecessary = false := ⟨⟨rfl, rfl, rfl, rfl⟩, rfl⟩
example : ((expertAddDependency xEnv 5 2 1 true).run.run exU).1 = .ok 2 := rfl

/-- the frame of `add_dependency_unnecessary`, spelled out -/
theorem add_dependency_unnecessary_frame (env : Env) (fuel n child : Nat) (cb : Bool) (s : State)
    (nd : Node) (e : Nat) (er : ExpertRec) (hx : IsExpert s n nd e er) (hnec : nd.isNecessary = false) :
    let s' := ((expertAddDependency env fuel n child cb).run.run s).2
    s'.nodes = s.nodes ∧ s'.rch = s.rch ∧ s'.ahh = s.ahh ∧ s'.log = s.log ∧ s'.nextDep = s.nextDep + 1 ∧
    (∀ e', e' ≠ e → s'.experts[e']? = s.experts[e']?) ∧
    s'.experts[e]? = some { er with children := er.children ++ [newEdge s child cb], forceStale := true } := by
  rw [add_dependency_unnecessary env fuel n child cb s nd e er hx hnec]
  refine ⟨rfl, rfl, rfl, rfl, rfl, ?_, ?_⟩
  · intro e' h; exact putExpert_get_ne _ _ (Ne.symm h)
  · exact putExpert_get (s := bumpDep s) _ hx.xrec

example : (((expertAddDependency xEnv 5 2 1 true).run.run exU).2.experts[0]?.map (·.children.length))
    = some 3 := rfl

/-- On an invalid node the dependency is created (its name is consumed) but not attached: only
`nextDep` moves. -/
theorem add_dependency_invalid (env : Env) (fuel n child : Nat) (cb : Bool) (s : State) (nd : Node)
    (hn : s.nodes[n]? = some nd) (hv : nd.valid = false) :
    (expertAddDependency env fuel n child cb).run.run s = (.ok s.nextDep, bumpDep s) :=
  expertAddDependency_invalid env fuel n child cb hn hv

example : exI.nodes[2]? = some (exI.nodeD 2) ∧ (exI.nodeD 2).valid = false := ⟨rfl, rfl⟩

/-- The same on a node that is not an expert. -/
theorem add_dependency_not_expert (env : Env) (fuel n child : Nat) (cb : Bool) (s : State) (nd : Node)
    (hn : s.nodes[n]? = some nd) (hk : ∀ e, nd.kind ≠ .expert e) :
    (expertAddDependency env fuel n child cb).run.run s = (.ok s.nextDep, bumpDep s) :=
  expertAddDependency_not_expert env fuel n child cb hn hk

example : exU.nodes[1]? = some (exU.nodeD 1) ∧ ∀ e, (exU.nodeD 1).kind ≠ .expert e :=
  ⟨rfl, fun _ h => by cases h⟩

/-! ## (c) `expert_make_stale` -/

/-- On an invalid node `make_stale` does nothing. -/
theorem make_stale_invalid (n : Nat) (s : State) (nd : Node) (hn : s.nodes[n]? = some nd)
    (hv : nd.valid = false) : (expertMakeStale n).run.run s = (.ok (), s) :=
  expertMakeStale_invalid hn hv

example : exI.nodes[2]? = some (exI.nodeD 2) ∧ (exI.nodeD 2).valid = false := ⟨rfl, rfl⟩

/-- On a node that is not an expert `make_stale` does nothing. -/
theorem make_stale_not_expert (n : Nat) (s : State) (nd : Node) (hn : s.nodes[n]? = some nd)
    (hk : ∀ e, nd.kind ≠ .expert e) : (expertMakeStale n).run.run s = (.ok (), s) :=
  expertMakeStale_not_expert hn hk

example : exU.nodes[0]? = some (exU.nodeD 0) ∧ ∀ e, (exU.nodeD 0).kind ≠ .expert e :=
  ⟨rfl, fun _ h => by cases h⟩

/-- Exact run equation on a valid expert (running-node assertion passing).  Already forced: nothing.
Otherwise `forceStale := true` (state `forced e er s`), and the node is inserted in the recompute heap
iff it is necessary and not already queued; the insertion can only fail on the height checks of the
heap (debug assertion first, then the hard asserts of `link`). -/
theorem make_stale_run (n : Nat) (s : State) (nd : Node) (e : Nat) (er : ExpertRec)
    (hx : IsExpert s n nd e er) (hr : runningOk s n = true) :
    (expertMakeStale n).run.run s =
      if er.forceStale = true then (.ok (), s)
      else if (nd.isNecessary && !nd.inRch) = true then
        if s.cfg.debug = true ∧ nd.height > s.rch.maxAllowed then
          (.error (.site "recompute_heap:insert:height<=max"), forced e er s)
        else if nd.height < 0 then
          (.error (.site "recompute_heap:link:height>=0"), lowered nd.height (forced e er s))
        else if nd.height > s.rch.maxAllowed then
          (.error (.site "recompute_heap:link:height<=max"), lowered nd.height (forced e er s))
        else (.ok (), inserted n nd.height (forced e er s))
      else (.ok (), forced e er s) :=
  expertMakeStale_run' hx hr

example : IsExpert exN 2 (exN.nodeD 2) 0 (exN.experts[0]?.getD default) ∧ runningOk exN 2 = true :=
  ⟨⟨rfl, rfl, rfl, rfl⟩, rfl⟩
example : returned ((expertMakeStale 2).run.run exN) = true := rfl
example : ((((expertMakeStale 2).run.run exN).2.nodeD 2).inRch) = true := rfl

/-- `forceStale` already set: nothing happens (so two `make_stale` calls force one recompute). -/
theorem make_stale_already (n : Nat) (s : State) (nd : Node) (e : Nat) (er : ExpertRec)
    (hx : IsExpert s n nd e er) (hr : runningOk s n = true) (hf : er.forceStale = true) :
    (expertMakeStale n).run.run s = (.ok (), s) := by
  rw [make_stale_run n s nd e er hx hr, if_pos hf]

example : IsExpert (forced 0 (exN.experts[0]?.getD default) exN) 2 (exN.nodeD 2) 0
    { (exN.experts[0]?.getD default) with forceStale := true } := ⟨rfl, rfl, rfl, rfl⟩

/-- The common case: a necessary expert at a legal height that is not queued gets `forceStale` and is
queued; nothing else changes. -/
theorem make_stale_queues (n : Nat) (s : State) (nd : Node) (e : Nat) (er : ExpertRec)
    (hx : IsExpert s n nd e er) (hr : runningOk s n = true) (hf : er.forceStale = false)
    (hnec : nd.isNecessary = true) (hq : nd.inRch = false)
    (h0 : 0 ≤ nd.height) (h1 : nd.height ≤ s.rch.maxAllowed) :
    (expertMakeStale n).run.run s = (.ok (), inserted n nd.height (forced e er s)) := by
  rw [make_stale_run n s nd e er hx hr]
  simp only [hf, Bool.false_eq_true, if_false, hnec, hq, Bool.not_false, Bool.and_self, if_true]
  rw [if_neg (by omega), if_neg (by omega), if_neg (by omega)]

example : (exN.experts[0]?.getD default).forceStale = false ∧ (exN.nodeD 2).isNecessary = true ∧
    (exN.nodeD 2).inRch = false ∧ 0 ≤ (exN.nodeD 2).height ∧ (exN.nodeD 2).height ≤ exN.rch.maxAllowed :=
  ⟨rfl, rfl, rfl, by decide, by decide⟩

/-- An expert nobody needs is only marked. -/
theorem make_stale_unnecessary (n : Nat) (s : State) (nd : Node) (e : Nat) (er : ExpertRec)
    (hx : IsExpert s n nd e er) (hr : runningOk s n = true) (hf : er.forceStale = false)
    (hnec : nd.isNecessary = false) :
    (expertMakeStale n).run.run s = (.ok (), forced e er s) := by
  rw [make_stale_run n s nd e er hx hr]
  simp [hf, hnec]

example : IsExpert exU 2 (exU.nodeD 2) 0 (exU.experts[0]?.getD default) ∧ runningOk exU 2 = true ∧
    (exU.experts[0]?.getD default).forceStale = false ∧ (exU.nodeD 2).isNecessary = false :=
  ⟨⟨rfl, rfl, rfl, rfl⟩, rfl, rfl, rfl⟩

/-- Debug build and the call does not come from the recompute of one of the node's children: the
assertion panics, the state is untouched. -/
theorem make_stale_assert_fails (n : Nat) (s : State) (nd : Node) (e : Nat) (er : ExpertRec)
    (hx : IsExpert s n nd e er) (hr : runningOk s n = false) :
    ∃ p, (expertMakeStale n).run.run s = (.error p, s) :=
  expertMakeStale_assert_fails hx hr

example : runningOk { exN with currentlyRunning := none } 2 = false := rfl
example : runningOk { exN with currentlyRunning := some 2 } 2 = false := rfl

/-- After a `make_stale` that returned, the node is stale: the next visit of the scheduler recomputes
it even if no child changed. -/
theorem make_stale_is_stale (n : Nat) (s s' : State) (nd : Node) (e : Nat) (er : ExpertRec)
    (hx : IsExpert s n nd e er) (h : (expertMakeStale n).run.run s = (.ok (), s')) :
    s'.isStale n = true :=
  expertMakeStale_isStale hx h

example : (((expertMakeStale 2).run.run exN).2).isStale 2 = true := rfl

/-- …and that recompute (user-defined expert, no invalid children, no fault armed) ends with
`forceStale = false` and `willFireAllCallbacks = false`, same edges, same invalid-children count —
whatever the rest of the step (cutoff, parents' callbacks, heap insertions) does, returning or
panicking.  So `make_stale` forces exactly one recompute. -/
theorem recompute_resets_flags (env : Env) (fuel n : Nat) (s s' : State) (nd : Node) (e : Nat)
    (er : ExpertRec) (r : Except Panic (Option Nat))
    (hx : IsExpert s n nd e er) (hpk : er.pk = none) (hp : s.panicCountdown = none)
    (hinv : ¬ er.numInvalidChildren > 0)
    (h : (recomputeOne env fuel n).run.run s = (r, s')) :
    ∃ er', s'.experts[e]? = some er' ∧ er'.forceStale = false ∧ er'.willFireAllCallbacks = false ∧
      er'.children = er.children ∧ er'.numInvalidChildren = er.numInvalidChildren ∧ er'.f = er.f :=
  recomputeOne_expert_flags env fuel n hx hpk hp hinv r s' h

example : (exN.experts[0]?.getD default).pk = none ∧ exN.panicCountdown = none ∧
    ¬ (exN.experts[0]?.getD default).numInvalidChildren > 0 := ⟨rfl, rfl, by decide⟩

/-! ## (f) `observability_change` -/

/-- The node stopped being observed: all callbacks will fire at the next recompute, the
invalid-children count restarts from 0; one note is logged (`Xp.obsNote er b s` =
`.note "obschange n<node> <b> stab=<is the engine stabilising>"`). -/
theorem observability_false (e : Nat) (s : State) (er : ExpertRec) (he : s.experts[e]? = some er)
    (hpk : er.pk = none) :
    (observabilityChange e false).run.run s =
      (.ok (), putExpert e { er with willFireAllCallbacks := true, numInvalidChildren := 0 }
        { s with log := obsNote er false s :: s.log }) :=
  observabilityChange_false_run he hpk

example : exN'.experts[0]? = some (exN'.experts[0]?.getD default) ∧
    (exN'.experts[0]?.getD default).pk = none := ⟨rfl, rfl⟩
example : (((observabilityChange 0 false).run.run exN').2.experts[0]?.map (·.willFireAllCallbacks))
    = some true := rfl

/-- (internal per-key operator nodes: the same without the log line) -/
theorem observability_false_internal (e : Nat) (s : State) (er : ExpertRec)
    (he : s.experts[e]? = some er) (hpk : er.pk.isNone = false) :
    (observabilityChange e false).run.run s =
      (.ok (), putExpert e { er with willFireAllCallbacks := true, numInvalidChildren := 0 } s) :=
  observabilityChange_false_run_pk he hpk

example : ({ (default : ExpertRec) with pk := some (0, none) }).pk.isNone = false := rfl

/-- The node became observed: only a note is logged. -/
theorem observability_true (e : Nat) (s : State) (er : ExpertRec) (he : s.experts[e]? = some er)
    (hpk : er.pk = none) :
    (observabilityChange e true).run.run s =
      (.ok (), { s with log := obsNote er true s :: s.log }) :=
  observabilityChange_true_run he hpk

example : ((observabilityChange 0 true).run.run exN').2.experts = exN'.experts := rfl
/-- the text of the note -/
theorem obs_note_eq (er : ExpertRec) (b : Bool) (s : State) :
    obsNote er b s = .note s!"obschange n{er.node} {b} stab={s.status != .notStabilising}" := rfl

example : (match obsNote (exN'.experts[0]?.getD default) false exN' with | .note t => t | _ => "") =
    "obschange n2 false stab=true" := by decide

/-! ## (e) edge callbacks -/

/-- `Edge::on_change` of a user-defined expert, no fault armed: if the edge has a callback and the
child has a value `v`, exactly one `inv "cb"` event is logged and the slot of the dependency now holds
`v` (older entries for that dependency are dropped); otherwise nothing. -/
theorem edge_on_change_run (env : Env) (e : Nat) (edge : ExpertEdge) (s : State) (er : ExpertRec)
    (he : s.experts[e]? = some er) (hpk : er.pk = none) (hp : s.panicCountdown = none) :
    (edgeOnChange env e edge).run.run s =
      (.ok (), match edge.cb, s.value env edge.child with
        | some _, some v =>
          { s with log := .inv "cb" er.node [v] s!"d{edge.dep}" :: s.log,
                   experts := s.experts.modify e fun x =>
                     { x with slots := (edge.dep, v) :: x.slots.filter (·.1 != edge.dep) } }
        | _, _ => s) :=
  edgeOnChange_run env edge he hpk hp

example : (((edgeOnChange xEnv 0 ⟨0, 0, some 0⟩).run.run exN').2.experts[0]?.map (·.slots))
    = some [(0, .int 5)] := rfl

theorem edge_on_change_no_cb (env : Env) (e : Nat) (edge : ExpertEdge) (s : State)
    (hcb : edge.cb = none) : (edgeOnChange env e edge).run.run s = (.ok (), s) :=
  edgeOnChange_no_cb env e edge s hcb

example : (⟨1, 1, none⟩ : ExpertEdge).cb = none := rfl

/-- (repaired D7) a child without a value does not trigger the callback -/
theorem edge_on_change_no_value (env : Env) (e : Nat) (edge : ExpertEdge) (s : State)
    (hv : s.value env edge.child = none) : (edgeOnChange env e edge).run.run s = (.ok (), s) :=
  edgeOnChange_no_value env e edge s hv

example : exN'.value xEnv 2 = none := rfl

/-- `run_edge_callback i`: while "fire all callbacks" is pending nothing happens (they will all fire
at the next recompute); otherwise it is exactly `on_change` of edge `i`, if that edge exists. -/
theorem run_edge_callback_run (env : Env) (e i : Nat) (s : State) (er : ExpertRec)
    (he : s.experts[e]? = some er) :
    (runEdgeCallback env e i).run.run s =
      if er.willFireAllCallbacks = true then (.ok (), s)
      else match er.children[i]? with
        | none => (.ok (), s)
        | some edge => (edgeOnChange env e edge).run.run s :=
  runEdgeCallback_run env i he

example : (runEdgeCallback xEnv 0 0).run.run exN = (.ok (), exN) := rfl
example : (((runEdgeCallback xEnv 0 0).run.run exN').2.experts[0]?.map (·.slots))
    = some [(0, .int 5)] := rfl

/-- `child_changed` on a valid expert parent `p` for child index `i` is `run_edge_callback i`: when a
child's value changes (the loop over `parents` in `maybe_change_value` calls `child_changed p c i old`
for every entry `(p, i)`), the callback of exactly that edge is invoked with the new value — unless all
callbacks are going to fire anyway. -/
theorem child_changed_expert (env : Env) (fuel p c i : Nat) (old : Option Val) (s : State) (nd : Node)
    (e : Nat) (hn : s.nodes[p]? = some nd) (hv : nd.valid = true) (hk : nd.kind = .expert e) :
    (childChanged env (fuel + 1) p c i old).run.run s = (runEdgeCallback env e i).run.run s :=
  childChanged_expert_run env fuel p c i old hn hv hk

example : (((childChanged xEnv 1 2 0 0 none).run.run exN').2.experts[0]?.map (·.slots))
    = some [(0, .int 5)] := rfl

/-! ## (a) `expert_remove_dependency`, node not necessary -/

/-- Exact run equation: on a valid expert that nobody needs, with the dependency attached at position
`i` (first edge carrying that name), the call returns; the record becomes `removedRec er i dep`
(edges: `swap_remove(i)`; `forceStale`; slots of `dep` dropped); nothing else in the state changes. -/
theorem remove_dependency_unnecessary (fuel n dep : Nat) (s : State) (nd : Node) (e : Nat)
    (er : ExpertRec) (i : Nat) (hx : IsExpert s n nd e er) (hr : runningOk s n = true)
    (hi : er.children.findIdx? (·.dep == dep) = some i) (hnec : nd.isNecessary = false) :
    (expertRemoveDependency fuel n dep).run.run s = (.ok (), putExpert e (removedRec er i dep) s) :=
  expertRemoveDependency_unnecessary fuel n dep hx hr hi hnec

example : IsExpert exU 2 (exU.nodeD 2) 0 (exU.experts[0]?.getD default) ∧ runningOk exU 2 = true ∧
    (exU.experts[0]?.getD default).children.findIdx? (fun x : ExpertEdge => x.dep == 0) = some 0 ∧
    (exU.nodeD 2).isNecessary = false := ⟨⟨rfl, rfl, rfl, rfl⟩, rfl, rfl, rfl⟩
example : (((expertRemoveDependency 5 2 0).run.run exU).2.experts[0]?.map
    fun x => (x.children.map (·.dep), x.forceStale, x.slots)) = some ([1], true, []) := rfl

/-- The bookkeeping, read off: `i` is a position of the old list and the edge there is named `dep`;
the new edge list is `(children.set i last).dropLast` (= the model's `swapRemove`, Rust's
`Vec::swap_remove`), one shorter, as a multiset the old list without position `i`; position `j` holds
the old last edge if `j = i` and the old edge `j` otherwise; `forceStale` is set; no slot mentions `dep`;
all other fields of the record, all other expert records, every node (in particular every `parents`
list) and both heaps are untouched. -/
theorem remove_dependency_bookkeeping (fuel n dep : Nat) (s : State) (nd : Node) (e : Nat)
    (er : ExpertRec) (i : Nat) (hx : IsExpert s n nd e er) (hr : runningOk s n = true)
    (hi : er.children.findIdx? (·.dep == dep) = some i) (hnec : nd.isNecessary = false) :
    let s' := ((expertRemoveDependency fuel n dep).run.run s).2
    ∃ er', s'.experts[e]? = some er' ∧
      i < er.children.length ∧ (∃ edge, er.children[i]? = some edge ∧ edge.dep = dep) ∧
      er'.children = (er.children.set i (er.children[er.children.length - 1]?.getD default)).dropLast ∧
      er'.children = swapRemove er.children i ∧
      er'.children.length = er.children.length - 1 ∧
      er'.children.Perm (er.children.eraseIdx i) ∧
      (∀ j, er'.children[j]? =
        if j + 1 < er.children.length then
          (if j = i then some (er.children[er.children.length - 1]?.getD default) else er.children[j]?)
        else none) ∧
      er'.forceStale = true ∧ (∀ p ∈ er'.slots, p.1 ≠ dep) ∧
      er'.slots = er.slots.filter (·.1 != dep) ∧
      er'.f = er.f ∧ er'.numInvalidChildren = er.numInvalidChildren ∧
      er'.willFireAllCallbacks = er.willFireAllCallbacks ∧
      (∀ e', e' ≠ e → s'.experts[e']? = s.experts[e']?) ∧
      s'.nodes = s.nodes ∧ s'.rch = s.rch ∧ s'.ahh = s.ahh ∧ s'.log = s.log := by
  rw [remove_dependency_unnecessary fuel n dep s nd e er i hx hr hi hnec]
  obtain ⟨hlt, hedge, _⟩ := findIdx_facts _ _ _ hi
  refine ⟨removedRec er i dep, putExpert_get _ hx.xrec, hlt, hedge, rfl,
    (swapRemove_eq_swapPop _ _ hlt).symm, removedRec_length er i dep, removedRec_perm er i dep hlt,
    swapPop_getElem? er.children i, rfl, removedRec_slots er i dep, rfl, rfl, rfl, rfl, ?_,
    rfl, rfl, rfl, rfl⟩
  intro e' h
  exact putExpert_get_ne _ _ (Ne.symm h)

example : (((expertRemoveDependency 5 2 0).run.run exU).2.nodes.size) = 3 := rfl

/-- With pairwise distinct dependency names no remaining edge is named `dep`. -/
theorem remove_dependency_no_dep_left (er : ExpertRec) (i dep : Nat)
    (hi : er.children.findIdx? (·.dep == dep) = some i) (hnd : (er.children.map (·.dep)).Nodup) :
    ∀ x ∈ (removedRec er i dep).children, x.dep ≠ dep :=
  removedRec_no_dep er i dep hi hnd

example : ((exU.experts[0]?.getD default).children.map ExpertEdge.dep).Nodup := by decide

/-- The dependency is attached iff `findIdx?` finds it; if it is not, the call panics
(`edge-not-attached`) and leaves the state alone. -/
theorem remove_dependency_not_attached (fuel n dep : Nat) (s : State) (nd : Node) (e : Nat)
    (er : ExpertRec) (hx : IsExpert s n nd e er) (hr : runningOk s n = true)
    (hi : ∀ x ∈ er.children, x.dep ≠ dep) :
    (expertRemoveDependency fuel n dep).run.run s =
      (.error (.site "expert:remove_dependency:edge-not-attached"), s) := by
  apply expertRemoveDependency_not_attached fuel n dep hx hr
  rw [List.findIdx?_eq_none_iff]
  intro x hx'
  simpa using hi x hx'

example : ∀ x ∈ (exU.experts[0]?.getD default).children, x.dep ≠ 7 := by decide

theorem remove_dependency_assert_fails (fuel n dep : Nat) (s : State) (nd : Node) (e : Nat)
    (er : ExpertRec) (hx : IsExpert s n nd e er) (hr : runningOk s n = false) :
    ∃ p, (expertRemoveDependency fuel n dep).run.run s = (.error p, s) :=
  expertRemoveDependency_assert_fails fuel n dep hx hr

example : runningOk { exU with currentlyRunning := none } 2 = false := rfl

theorem remove_dependency_invalid (fuel n dep : Nat) (s : State) (nd : Node)
    (hn : s.nodes[n]? = some nd) (hv : nd.valid = false) :
    (expertRemoveDependency fuel n dep).run.run s = (.ok (), s) :=
  expertRemoveDependency_invalid fuel n dep hn hv

example : (expertRemoveDependency 5 2 0).run.run exI = (.ok (), exI) := rfl

/-! ## (d) the `.expert` branch of `recompute_one` -/

/-- `before_main_computation` with invalid children: after the usual stamping (`started n s`) the node
invalidates itself (`invalidate_node`, then `propagate_invalidity`) and reports no parent to recompute;
the recompute closure does not run. -/
theorem recompute_expert_invalid_children (env : Env) (fuel n : Nat) (s : State) (nd : Node) (e : Nat)
    (er : ExpertRec) (hx : IsExpert s n nd e er) (hinv : er.numInvalidChildren > 0) :
    (recomputeOne env fuel n).run.run s =
      (do invalidateNode fuel n; propagateInvalidity fuel; pure none : M (Option Nat)).run.run
        (started n s) :=
  recomputeOne_expert_invalid_run env fuel n hx hinv

example : IsExpert exNbad 2 (exNbad.nodeD 2) 0 (exNbad.experts[0]?.getD default) ∧
    (exNbad.experts[0]?.getD default).numInvalidChildren > 0 := ⟨⟨rfl, rfl, rfl, rfl⟩, by decide⟩

/-- Master equation (user-defined expert, no invalid children, no fault armed).  After the stamping,
`forceStale := false` and `willFireAllCallbacks := false`; if "fire all" was pending, the callback of
every edge is run in edge order (`readyRec`/`readyState`: slots updated, one `inv "cb"` event each);
then the closure `env.expertFn f depVals slotVals` runs on the current values of the dependencies (in
edge order) and the slots of the edges that have a callback, one `inv "x<f>"` event is logged, and the
result is handed to `maybe_change_value`. -/
theorem recompute_expert_run (env : Env) (fuel n : Nat) (s : State) (nd : Node) (e : Nat)
    (er : ExpertRec) (hx : IsExpert s n nd e er) (hpk : er.pk = none)
    (hp : s.panicCountdown = none) (hinv : ¬ er.numInvalidChildren > 0) :
    (recomputeOne env fuel n).run.run s =
      (maybeChangeValue env fuel n (expertResult env s (readyRec env s er))).run.run
        (logged [.inv s!"x{er.f}" n [] (expertResult env s (readyRec env s er)).render]
          (readyState env n e s er)) :=
  recomputeOne_expert_run env fuel n hx hpk hp hinv

example : IsExpert exN 2 (exN.nodeD 2) 0 (exN.experts[0]?.getD default) ∧
    (exN.experts[0]?.getD default).pk = none ∧ exN.panicCountdown = none ∧
    ¬ (exN.experts[0]?.getD default).numInvalidChildren > 0 := ⟨⟨rfl, rfl, rfl, rfl⟩, rfl, rfl, by decide⟩
-- 3 + (5 + 7) + 10 · 5: the stale slot value 4 has been replaced by the child's current value 5
example : (((recomputeOne xEnv 5 2).run.run exN).2.nodeD 2).value = some (.int 65) := rfl
-- no "fire all" pending: the closure sees the slot as the callbacks left it (4)
example : (((recomputeOne xEnv 5 2).run.run exN').2.nodeD 2).value = some (.int 55) := rfl

/-- what `expertResult` is: the closure applied to the dependency values and the callback slots -/
theorem expert_result_eq (env : Env) (s : State) (er : ExpertRec) :
    expertResult env s er =
      env.expertFn er.f (er.children.map fun edge => s.value env edge.child)
        (er.children.map fun edge => match edge.cb with
          | some _ => er.slots.lookup edge.dep
          | none => none) := rfl

example : expertResult xEnv exN' (exN'.experts[0]?.getD default) = .int 55 := rfl

/-- "On the first recompute after the node became observed again every dependency's callback has been
invoked with the child's up-to-date value": if "fire all" was pending, then in the record the closure
reads (`readyRec`), for EVERY edge that has a callback and whose child has a value `v`, the slot of
that dependency holds `v` (dependency names pairwise distinct).  The edge list and `f` are those of
`er`. -/
theorem recompute_expert_fires_all (env : Env) (s : State) (er : ExpertRec)
    (hw : er.willFireAllCallbacks = true) (hnd : (er.children.map (·.dep)).Nodup)
    (edge : ExpertEdge) (v : Val) (hmem : edge ∈ er.children) (hcb : edge.cb.isSome = true)
    (hv : s.value env edge.child = some v) :
    (readyRec env s er).slots.lookup edge.dep = some v ∧
    (readyRec env s er).children = er.children ∧ (readyRec env s er).f = er.f :=
  ⟨readyRec_slots env s er hw hnd edge v hmem hcb hv, (readyRec_fields env s er).2.2.1,
    (readyRec_fields env s er).1⟩

example : (exN.experts[0]?.getD default).willFireAllCallbacks = true ∧
    ((exN.experts[0]?.getD default).children.map ExpertEdge.dep).Nodup ∧
    (⟨0, 0, some 0⟩ : ExpertEdge) ∈ (exN.experts[0]?.getD default).children ∧
    exN.value xEnv 0 = some (.int 5) := ⟨rfl, by decide, by simp [exN, exU], rfl⟩

/-- No "fire all" pending: the closure reads the slots exactly as the individual callbacks left them. -/
theorem recompute_expert_slots_kept (env : Env) (s : State) (er : ExpertRec)
    (hw : er.willFireAllCallbacks = false) :
    (readyRec env s er).slots = er.slots ∧ (readyRec env s er).children = er.children :=
  ⟨readyRec_slots_unchanged env s er hw, (readyRec_fields env s er).2.2.1⟩

example : (exN'.experts[0]?.getD default).willFireAllCallbacks = false := rfl

/-! ## (a) `expert_remove_dependency`, necessary node

Notation: `i` is the position of the dependency, `last = children.length - 1`, `c = children[i].child`.
`Xp.rmPrepared n e er i s` is the state just before `remove_parent`: if `i ≠ last` the entries
`(n, i)` and `(n, last)` are renamed into each other in the `parents` lists of `children[i].child` and
`children[last].child` (`Xp.swappedIdx`; ONE renaming pass when both are the same node — the repaired
D8) and the two edges are exchanged in the edge list (`Xp.swapToEnd`); `forceStale` is set.
`Xp.parentRemoved c pi S` removes position `pi` (`swap_remove`) from `c`'s `parents` list.
`Xp.rmFinish n e c dep` is the tail: queue `n` unless it is queued, decrement `numInvalidChildren` iff
`c` is invalid (repaired D6), pop the last edge, `forceStale`, drop the slots of `dep`.
`Xp.EdgeSym s n L`: every node `c'` lists `(n, j)` exactly once if `L[j].child = c'` and not at all
otherwise — i.e. the multiset of `(n, ·)` entries over all `parents` lists is `{(n, j) | j < L.length}`,
each in the list of the child the edge points at. -/

/-- Factorisation of the call on a necessary node: everything up to `remove_parent` is the closed-form
state `rmPrepared`; then `remove_parent`, the `check_if_unnecessary` cascade on the removed child, and
the tail `rmFinish`. -/
theorem remove_dependency_necessary_factor (fuel n dep : Nat) (s : State) (nd : Node) (e : Nat)
    (er : ExpertRec) (i : Nat) (hx : IsExpert s n nd e er) (hr : runningOk s n = true)
    (hi : er.children.findIdx? (·.dep == dep) = some i) (hnec : nd.isNecessary = true) :
    (expertRemoveDependency fuel n dep).run.run s =
      (do removeParent (er.children[i]?.getD default).child (er.children.length - 1) n
          checkIfUnnecessary fuel (er.children[i]?.getD default).child
          rmFinish n e (er.children[i]?.getD default).child dep : M Unit).run.run
        (rmPrepared n e er i s) :=
  expertRemoveDependency_necessary fuel n dep hx hr hi hnec

example : IsExpert exDup 2 (exDup.nodeD 2) 0 (exDup.experts[0]?.getD default) ∧ runningOk exDup 2 = true ∧
    (exDup.experts[0]?.getD default).children.findIdx? (fun x : ExpertEdge => x.dep == 0) = some 0 ∧
    (exDup.nodeD 2).isNecessary = true := ⟨⟨rfl, rfl, rfl, rfl⟩, rfl, rfl, rfl⟩

/-- `remove_parent` in the prepared state looks for `(n, last)`; it finds it exactly where the child
listed `(n, i)` originally; if the child does not list the edge at all (an asymmetric state) the call
panics with `not-a-parent` in the prepared state. -/
theorem remove_dependency_necessary_remove_parent (n e : Nat) (er : ExpertRec) (i : Nat) (s : State)
    (cnd : Node) (hc : s.nodes[(er.children[i]?.getD default).child]? = some cnd) :
    (removeParent (er.children[i]?.getD default).child (er.children.length - 1) n).run.run
        (rmPrepared n e er i s) =
      match cnd.parents.idxOf? (n, i) with
      | none => (.error (.site "node:remove_parent:not-a-parent"), rmPrepared n e er i s)
      | some pi => (.ok (), parentRemoved (er.children[i]?.getD default).child pi (rmPrepared n e er i s)) :=
  rmPrepared_removeParent hc

example : exDup.nodes[0]? = some (exDup.nodeD 0) ∧ (exDup.nodeD 0).parents.idxOf? (2, 0) = some 0 :=
  ⟨rfl, rfl⟩

/-- The removed child keeps another reason to be necessary (another parent entry, an observer, …):
the cascade does not start (fuel ≥ 1; with fuel 0 the model reports `outOfFuel`) and the whole call is
the tail `rmFinish` run in the closed-form state. -/
theorem remove_dependency_necessary_stays (fuel n dep : Nat) (s : State) (nd : Node) (e : Nat)
    (er : ExpertRec) (i : Nat) (hx : IsExpert s n nd e er) (hr : runningOk s n = true)
    (hi : er.children.findIdx? (·.dep == dep) = some i) (hnec : nd.isNecessary = true)
    (cnd : Node) (hc : s.nodes[(er.children[i]?.getD default).child]? = some cnd) (pi : Nat)
    (hpi : cnd.parents.idxOf? (n, i) = some pi)
    (hstay : (parentRemoved (er.children[i]?.getD default).child pi (rmPrepared n e er i s)).isNecessary
      (er.children[i]?.getD default).child = true) :
    (expertRemoveDependency (fuel + 1) n dep).run.run s =
      (rmFinish n e (er.children[i]?.getD default).child dep).run.run
        (parentRemoved (er.children[i]?.getD default).child pi (rmPrepared n e er i s)) :=
  expertRemoveDependency_necessary_stays fuel n dep hx hr hi hnec hc hpi hstay

example : (parentRemoved 0 0 (rmPrepared 2 0 (exDup.experts[0]?.getD default) 0 exDup)).isNecessary 0
    = true := rfl

/-- The tail, `n` already queued: only the expert record changes. -/
theorem rm_finish_queued (S : State) (n e child dep : Nat) (ndn : Node) (r : ExpertRec) (cnd : Node)
    (hn : S.nodes[n]? = some ndn) (hq : ndn.inRch = true)
    (hr : S.experts[e]? = some r) (hc : S.nodes[child]? = some cnd) :
    (rmFinish n e child dep).run.run S = (.ok (), putExpert e (finishRec r (!cnd.valid) dep) S) :=
  rmFinish_run_queued hn hq hr hc

example : (inserted 2 1 exDup).nodes[2]? = some ((inserted 2 1 exDup).nodeD 2) ∧
    ((inserted 2 1 exDup).nodeD 2).inRch = true := ⟨rfl, rfl⟩

/-- The tail, `n` not queued: it is inserted (this can only fail on the heap's own checks), then the
record changes. -/
theorem rm_finish_insert (S : State) (n e child dep : Nat) (ndn : Node) (r : ExpertRec) (cnd : Node)
    (hn : S.nodes[n]? = some ndn) (hq : ndn.inRch = false)
    (hr : S.experts[e]? = some r) (hc : S.nodes[child]? = some cnd) :
    (rmFinish n e child dep).run.run S =
      match (rchInsert n).run.run S with
      | (.error p, S') => (.error p, S')
      | (.ok _, _) => (.ok (), putExpert e (finishRec r (!cnd.valid) dep) (inserted n ndn.height S)) :=
  rmFinish_run_insert hn hq hr hc

example : exDup.nodes[2]? = some (exDup.nodeD 2) ∧ (exDup.nodeD 2).inRch = false := ⟨rfl, rfl⟩

/-- Whenever the tail returns, `n` is in the recompute heap. -/
theorem rm_finish_in_heap (S S' : State) (n e child dep : Nat)
    (h : (rmFinish n e child dep).run.run S = (.ok (), S')) :
    n < S'.nodes.size ∧ (S'.nodeD n).inRch = true :=
  rmFinish_inHeap h

example : returned ((rmFinish 2 0 0 0).run.run exDup) = true := rfl

/-- `swapEdgeIndices` (the index bookkeeping of `expert_swap_children_except_in_kind`): the renaming
`(n,i) ↔ (n,j)` is applied to `c1`'s list and, if `c2` is a different node, to `c2`'s list — exactly one
pass over each list, in particular one pass when both edges point at the same child (repaired D8:
two passes would rename the entries back). -/
theorem swap_edge_indices_run (n c1 i c2 j : Nat) (s : State) :
    (swapEdgeIndices n c1 i c2 j).run.run s = (.ok (), swappedIdx n c1 i c2 j s) ∧
    (∀ m, (swappedIdx n c1 i c2 j s).nodeD m =
      if (m = c1 ∨ m = c2) ∧ m < s.nodes.size then renameNode n i j (s.nodeD m) else s.nodeD m) :=
  ⟨swapEdgeIndices_run n c1 i c2 j s, swappedIdx_nodeD n c1 i c2 j s⟩

example : ((swappedIdx 2 0 0 0 2 exDup).nodeD 0).parents = [(2, 2), (2, 0)] := rfl

/-- Edge symmetry is preserved up to and including `remove_parent`: if every node lists `(n, j)` exactly
for the edges `j` pointing at it, then after the renaming and the removal the same holds for the new edge
list `swap_remove(i)`.  Duplicate edges to one child are allowed (`EdgeSym` counts entries). -/
theorem remove_dependency_edge_symmetry (s : State) (n e : Nat) (er : ExpertRec) (i : Nat)
    (h : EdgeSym s n er.children) (hi : i < er.children.length)
    (cnd : Node) (hc : s.nodes[(er.children[i]?.getD default).child]? = some cnd) (pi : Nat)
    (hpi : cnd.parents.idxOf? (n, i) = some pi) :
    EdgeSym (parentRemoved (er.children[i]?.getD default).child pi (rmPrepared n e er i s)) n
      (swapPop er.children i) :=
  h.removed hi hc hpi

example : EdgeSym exDup 2 (exDup.experts[0]?.getD default).children := exDup_edgeSym

/-- Complete post-condition when the removed child stays necessary, the state is edge-symmetric for `n`
and the call returns: the record has the `swap_remove`d edge list, `forceStale`, no slot of `dep`, the
invalid-children count decremented iff the removed child is invalid (repaired D6); edge symmetry holds
for the new list (so: the removed child no longer lists the removed edge, the edge that was last is
listed with index `i` by its child, no index ≥ the new length is listed anywhere — also with duplicate
edges to one child, repaired D8); `n` is in the recompute heap. -/
theorem remove_dependency_necessary_post (fuel n dep : Nat) (s s' : State) (nd : Node) (e : Nat)
    (er : ExpertRec) (i : Nat) (hx : IsExpert s n nd e er) (hr : runningOk s n = true)
    (hi : er.children.findIdx? (·.dep == dep) = some i) (hnec : nd.isNecessary = true)
    (cnd : Node) (hc : s.nodes[(er.children[i]?.getD default).child]? = some cnd) (pi : Nat)
    (hpi : cnd.parents.idxOf? (n, i) = some pi)
    (hstay : (parentRemoved (er.children[i]?.getD default).child pi (rmPrepared n e er i s)).isNecessary
      (er.children[i]?.getD default).child = true)
    (hsym : EdgeSym s n er.children)
    (h : (expertRemoveDependency (fuel + 1) n dep).run.run s = (.ok (), s')) :
    ∃ er', s'.experts[e]? = some er' ∧
      er'.children = swapPop er.children i ∧ er'.forceStale = true ∧
      er'.slots = er.slots.filter (·.1 != dep) ∧
      er'.numInvalidChildren = (if cnd.valid = true then er.numInvalidChildren else er.numInvalidChildren - 1) ∧
      er'.f = er.f ∧ er'.willFireAllCallbacks = er.willFireAllCallbacks ∧
      EdgeSym s' n er'.children ∧
      n < s'.nodes.size ∧ (s'.nodeD n).inRch = true :=
  expertRemoveDependency_necessary_post fuel n dep hx hr hi hnec hc hpi hstay hsym h

-- all hypotheses hold together on the D8 example state `exDup`
example : ∃ er', ((expertRemoveDependency 5 2 0).run.run exDup).2.experts[0]? = some er' ∧
    EdgeSym ((expertRemoveDependency 5 2 0).run.run exDup).2 2 er'.children := by
  obtain ⟨er', h1, _, _, _, _, _, _, h8, _⟩ :=
    remove_dependency_necessary_post 4 2 0 exDup ((expertRemoveDependency 5 2 0).run.run exDup).2
      (exDup.nodeD 2) 0 (exDup.experts[0]?.getD default) 0 ⟨rfl, rfl, rfl, rfl⟩ rfl rfl rfl
      (exDup.nodeD 0) rfl 0 rfl rfl
      (show EdgeSym exDup 2 (exDup.experts[0]?.getD default).children from exDup_edgeSym) rfl
  exact ⟨er', h1, h8⟩
-- the D8 situation, run: edges d0 → 0, d1 → 1, d2 → 0; remove d0
example : returned ((expertRemoveDependency 5 2 0).run.run exDup) = true := rfl
example : (((expertRemoveDependency 5 2 0).run.run exDup).2.experts[0]?.map
    fun x => x.children.map fun ed => (ed.dep, ed.child)) = some [(2, 0), (1, 1)] := rfl
example : ((((expertRemoveDependency 5 2 0).run.run exDup).2.nodeD 0).parents,
    (((expertRemoveDependency 5 2 0).run.run exDup).2.nodeD 1).parents) = ([(2, 0)], [(2, 1)]) := rfl
example : ((((expertRemoveDependency 5 2 0).run.run exDup).2.nodeD 2).inRch) = true := rfl

/-- what `EdgeSym` says about the indices that no longer exist: nobody lists them -/
theorem edge_symmetry_no_stale_index (s : State) (n : Nat) (L : List ExpertEdge) (h : EdgeSym s n L)
    (c j : Nat) (hj : L.length ≤ j) : (n, j) ∉ (s.nodeD c).parents := by
  have := h c j
  rw [List.getElem?_eq_none hj] at this
  simp only [Option.map_none, reduceCtorEq, if_false] at this
  exact List.count_eq_zero.1 this

example : (2, 5) ∉ (exDup.nodeD 0).parents := by decide

/-- An asymmetric state (the child does not list the edge): hard panic in `remove_parent`; the state is
the prepared one (indices already renamed, `forceStale` set). -/
theorem remove_dependency_necessary_asym (fuel n dep : Nat) (s : State) (nd : Node) (e : Nat)
    (er : ExpertRec) (i : Nat) (hx : IsExpert s n nd e er) (hr : runningOk s n = true)
    (hi : er.children.findIdx? (·.dep == dep) = some i) (hnec : nd.isNecessary = true)
    (cnd : Node) (hc : s.nodes[(er.children[i]?.getD default).child]? = some cnd)
    (hpi : cnd.parents.idxOf? (n, i) = none) :
    (expertRemoveDependency fuel n dep).run.run s =
      (.error (.site "node:remove_parent:not-a-parent"), rmPrepared n e er i s) :=
  expertRemoveDependency_necessary_asym fuel n dep hx hr hi hnec hc hpi

example : ((exN.nodes.modify 0 fun x => { x with parents := [] })[0]?.map (·.parents.idxOf? (2, 0)))
    = some none := rfl

end IncrVerif.Props.C14
