import IncrVerif.Proofs.VarWrites
/-!
# C08 — var writes apply in program order; writes during stabilise defer to the next

All five write operations of `var.rs` are `writeVar v f` ("new value from old value") in the model.
Outside a stabilisation the write is immediate; during a stabilisation it goes to the cell's
`pending` slot (`value_set_during_stabilisation`) and is applied by the first phase of
`stabiliseEnd`, after the stabilisation number has been incremented.
Statements are in the `(m).run.run s = (result, final state)` style.  `Proofs.withCell`,
`Proofs.bumped`, `Proofs.stampedWrite`, `Proofs.deferred`, `Proofs.applyCell` are closed-form state
descriptions, `Proofs.writeAll`, `Proofs.stabiliseEndVars`, `Proofs.stabiliseEndRest` name pieces of
model code; all are defined in `Proofs/VarWrites.lean`.
-/
namespace IncrVerif.Props.C08
open IncrVerif.Engine IncrVerif.Proofs

/-! ## 1. outside a stabilisation: the write is immediate -/

/-- Complete description of a write outside a stabilisation.  The value is written first; then
(a) a var whose watch node was abandoned panics; (b) same round as the last write: only the
`var_sets` counter moves; (c) later round: `set_at` becomes the current round, [debug] the watch node
must be invalid or stale, and if the watch node is valid, necessary and not yet queued it is inserted
in the recompute heap (D14: an invalidated watch node is never scheduled).  The result is the OLD
value. -/
theorem write_outside_run (v : Nat) (f : Val → Val) (isSet : Bool) (s : State) (vc : VarCell)
    (hv : s.vars[v]? = some vc) (hst : s.status ≠ .stabilising) :
    (writeVar v f isSet).run.run s =
      if vc.linked = false then
        (.error (.site "var:abandoned-watch-node"), withCell v { vc with value := f vc.value } s)
      else if s.stabNum ≤ vc.setAt then
        (.ok vc.value, bumped (withCell v { vc with value := f vc.value } s))
      else if s.cfg.debug = true ∧ (!(s.nodeD vc.node).valid ||
          (stampedWrite v vc (f vc.value) s).isStale vc.node) = false then
        (.error (.site "var:did_set:watch-stale"), stampedWrite v vc (f vc.value) s)
      else if ((s.nodeD vc.node).valid && s.isNecessary vc.node && !(s.nodeD vc.node).inRch) = true then
        mapOk vc.value ((rchInsert vc.node).run.run (stampedWrite v vc (f vc.value) s))
      else (.ok vc.value, stampedWrite v vc (f vc.value) s) :=
  Proofs.writeVar_outside_closed v f isSet s vc hv hst

example : exV.vars[0]? = some { value := .int 1, setAt := 1, node := 0 } ∧ exV.status ≠ .stabilising :=
  ⟨rfl, by decide⟩
example : ((writeVar 0 (fun _ => .int 5)).run.run exV).1 = .ok (.int 1) := rfl

/-- A successful write outside a stabilisation returns the old value; the cell now holds
`f old`; `pending`, `node`, `linked`, `handles` are unchanged; `set_at` is the current round if it was
older and unchanged otherwise; no other var cell, no node other than the watch node, neither the
status, the round number, the deferred-writes stack nor the adjust-heights heap change; the
`var_sets` counter is incremented. -/
theorem write_outside_ok (v : Nat) (f : Val → Val) (isSet : Bool) (s s' : State)
    (vc : VarCell) (r : Val) (hv : s.vars[v]? = some vc) (hst : s.status ≠ .stabilising)
    (hr : (writeVar v f isSet).run.run s = (.ok r, s')) :
    r = vc.value ∧ vc.linked = true ∧
    s'.vars[v]? = some { vc with value := f vc.value,
                                 setAt := if vc.setAt < s.stabNum then s.stabNum else vc.setAt } ∧
    (∀ w, w ≠ v → s'.vars[w]? = s.vars[w]?) ∧
    s'.stabNum = s.stabNum ∧ s'.status = s.status ∧ s'.setDuringStab = s.setDuringStab ∧
    s'.counters.varSets = s.counters.varSets + 1 ∧
    s'.nodes.size = s.nodes.size ∧ (∀ n, n ≠ vc.node → s'.nodes[n]? = s.nodes[n]?) ∧
    s'.ahh = s.ahh ∧ s'.maxHeightSeen = s.maxHeightSeen :=
  Proofs.writeVar_outside_ok_facts v f isSet s s' vc r hv hst hr

example : ∃ r s', (writeVar 0 (fun _ => .int 5)).run.run exV = (.ok r, s') := ⟨_, _, rfl⟩

/-- Second write in the same round (`set_at` already is the current round): nothing but the value
and the `var_sets` counter changes — in particular no node, no heap. -/
theorem write_outside_same_round (v : Nat) (f : Val → Val) (isSet : Bool) (s s' : State)
    (vc : VarCell) (r : Val) (hv : s.vars[v]? = some vc) (hst : s.status ≠ .stabilising)
    (hge : s.stabNum ≤ vc.setAt)
    (hr : (writeVar v f isSet).run.run s = (.ok r, s')) :
    s' = bumped (withCell v { vc with value := f vc.value } s) :=
  Proofs.writeVar_outside_same_round v f isSet s s' vc r hv hst hge hr

example : exVsame.vars[0]? = some { value := .int 1, setAt := 3, node := 0 } ∧
    exVsame.status ≠ .stabilising ∧ exVsame.stabNum ≤ (3 : Int) ∧
    ∃ r s', (writeVar 0 (fun _ => .int 5)).run.run exVsame = (.ok r, s') :=
  ⟨rfl, by decide, by decide, _, _, rfl⟩

/-- First write in a round, watch node a `Var` node of this cell: afterwards the watch node is stale
iff it is valid and was last recomputed in an earlier round; with debug assertions on a VALID watch
node IS stale (otherwise the write would have panicked; an invalid one is never stale). -/
theorem write_outside_stale (v : Nat) (f : Val → Val) (isSet : Bool) (s s' : State)
    (vc : VarCell) (r : Val) (nd : Node) (hv : s.vars[v]? = some vc) (hst : s.status ≠ .stabilising)
    (hlt : vc.setAt < s.stabNum)
    (hn : s.nodes[vc.node]? = some nd) (hk : nd.kind = .var v)
    (hr : (writeVar v f isSet).run.run s = (.ok r, s')) :
    s'.isStale vc.node = (nd.valid && decide (nd.recomputedAt < s.stabNum)) ∧
    (s.cfg.debug = true → nd.valid = true → s'.isStale vc.node = true) :=
  Proofs.writeVar_outside_stale v f isSet s s' vc r nd hv hst hlt hn hk hr

example : ∃ nd, exV.nodes[0]? = some nd ∧ nd.kind = .var 0 ∧ (1 : Int) < exV.stabNum :=
  ⟨_, rfl, rfl, by decide⟩
example : (((writeVar 0 (fun _ => .int 5)).run.run exV).2).isStale 0 = true := rfl

/-- First write in a round, heap side: afterwards the watch node is queued iff it was queued before
or is valid and necessary.  If it was valid, necessary and not queued, it has been appended to the
bucket of its height (which therefore is within `0..max_height_allowed`), the heap length grew by one
and the engine is not stable; otherwise (in particular for an invalidated watch node) heap and nodes
are untouched. -/
theorem write_outside_heap (v : Nat) (f : Val → Val) (isSet : Bool) (s s' : State)
    (vc : VarCell) (r : Val) (hv : s.vars[v]? = some vc) (hst : s.status ≠ .stabilising)
    (hlt : vc.setAt < s.stabNum)
    (hr : (writeVar v f isSet).run.run s = (.ok r, s')) :
    (s'.nodeD vc.node).inRch =
      ((s.nodeD vc.node).inRch || ((s.nodeD vc.node).valid && s.isNecessary vc.node)) ∧
    s'.isNecessary vc.node = s.isNecessary vc.node ∧
    (((s.nodeD vc.node).valid && s.isNecessary vc.node && !(s.nodeD vc.node).inRch) = true →
      0 ≤ (s.nodeD vc.node).height ∧ (s.nodeD vc.node).height ≤ s.rch.maxAllowed ∧
      s'.rch.queues = s.rch.queues.modify (s.nodeD vc.node).height.toNat (· ++ [vc.node]) ∧
      s'.rch.length = s.rch.length + 1 ∧
      (s'.nodeD vc.node).heightInRch = (s.nodeD vc.node).height ∧
      s'.isStable = false) ∧
    (¬ ((s.nodeD vc.node).valid && s.isNecessary vc.node && !(s.nodeD vc.node).inRch) = true →
      s'.rch = s.rch ∧ s'.nodes = s.nodes) :=
  Proofs.writeVar_outside_heap v f isSet s s' vc r hv hst hlt hr

example : ((exV.nodeD 0).valid && exV.isNecessary 0 && !(exV.nodeD 0).inRch) = true := rfl
example : (((writeVar 0 (fun _ => .int 5)).run.run exV).2).rch.queues[0]? = some [0] := rfl

/-- EXACT panic characterisation of a write outside a stabilisation: which panic is raised, or the
old value, as a decision list over the pre-state (`stampedWrite` is the state after value and
`set_at` have been written). -/
theorem write_outside_result (v : Nat) (f : Val → Val) (isSet : Bool) (s : State) (vc : VarCell)
    (hv : s.vars[v]? = some vc) (hst : s.status ≠ .stabilising) :
    ((writeVar v f isSet).run.run s).1 =
      if vc.linked = false then .error (.site "var:abandoned-watch-node")
      else if s.stabNum ≤ vc.setAt then .ok vc.value
      else if s.cfg.debug = true ∧ (!(s.nodeD vc.node).valid ||
          (stampedWrite v vc (f vc.value) s).isStale vc.node) = false then
        .error (.site "var:did_set:watch-stale")
      else if ((s.nodeD vc.node).valid && s.isNecessary vc.node && !(s.nodeD vc.node).inRch) = false then
        .ok vc.value
      else if s.cfg.debug = true ∧ (s.nodeD vc.node).height > s.rch.maxAllowed then
        .error (.site "recompute_heap:insert:height<=max")
      else if (s.nodeD vc.node).height < 0 then .error (.site "recompute_heap:link:height>=0")
      else if (s.nodeD vc.node).height > s.rch.maxAllowed then
        .error (.site "recompute_heap:link:height<=max")
      else .ok vc.value :=
  Proofs.writeVar_outside_result v f isSet s vc hv hst

example : exVdead.vars[0]? = some { value := .int 1, setAt := 1, node := 0, linked := false } ∧
    exVdead.status ≠ .stabilising := ⟨rfl, by decide⟩
/-- a write through a var whose watch node was abandoned panics -/
example : ((writeVar 0 (fun _ => .int 5)).run.run exVdead).1 =
    .error (.site "var:abandoned-watch-node") := rfl
/-- Since the D14 repair a write (first of its round) to a var whose watch node is INVALID no longer
trips `debug_assert!(watch.is_stale())` (an invalid node is never stale; the assertion now reads
`!watch.is_valid() || watch.is_stale()`): it returns the old value.  See `write_outside_invalid_watch`
at the end of this file.  (Such a var is not reachable through the history language of the model,
which creates vars at top scope only; `var_current_scope` inside a bind whose left-hand side later
changes produces one.) -/
example : ((writeVar 0 (fun _ => .int 5)).run.run exVinv).1 = .ok (.int 1) := rfl

/-- In particular: a linked var, debug assertions off, watch node invalid or unnecessary or already
queued or of a height within the heap — the write does not panic and returns the old value. -/
theorem write_outside_no_panic (v : Nat) (f : Val → Val) (isSet : Bool) (s : State) (vc : VarCell)
    (hv : s.vars[v]? = some vc) (hst : s.status ≠ .stabilising)
    (hl : vc.linked = true) (hd : s.cfg.debug = false)
    (hq : (s.nodeD vc.node).valid = false ∨ s.isNecessary vc.node = false ∨
      (s.nodeD vc.node).inRch = true ∨
      (0 ≤ (s.nodeD vc.node).height ∧ (s.nodeD vc.node).height ≤ s.rch.maxAllowed)) :
    ((writeVar v f isSet).run.run s).1 = .ok vc.value :=
  Proofs.writeVar_outside_no_panic v f isSet s vc hv hst hl hd hq

example : exVnd.vars[0]? = some { value := .int 1, setAt := 1, node := 0 } ∧
    exVnd.status ≠ .stabilising ∧ exVnd.cfg.debug = false ∧
    (0 ≤ (exVnd.nodeD 0).height ∧ (exVnd.nodeD 0).height ≤ exVnd.rch.maxAllowed) :=
  ⟨rfl, by decide, rfl, by decide, by decide⟩

/-! ## 2. during a stabilisation: the write is deferred -/

/-- Complete description of a write during a stabilisation: it never panics; the result is the
value the previous write of this stabilisation left (or the current value if there was none); the
cell's `value` is NOT touched (every reader still sees the pre-stabilisation value); `pending`
becomes `f` of that; the var is pushed on the deferred-writes stack iff nothing was pending; nothing
else in the state changes (`deferred` only touches `vars[v]` and `setDuringStab`). -/
theorem write_inside_run (v : Nat) (f : Val → Val) (isSet : Bool) (s : State) (vc : VarCell)
    (hv : s.vars[v]? = some vc) (hst : s.status = .stabilising) :
    (writeVar v f isSet).run.run s = (.ok (vc.pending.getD vc.value), deferred v vc f s) :=
  Proofs.writeVar_inside_run v f isSet s vc hv hst

/-- `deferred` spelled out -/
theorem deferred_facts (v : Nat) (vc : VarCell) (f : Val → Val) (s : State)
    (hv : s.vars[v]? = some vc) :
    (deferred v vc f s).vars[v]? = some { vc with pending := some (f (vc.pending.getD vc.value)) } ∧
    (deferred v vc f s).setDuringStab =
      (if vc.pending = none then v :: s.setDuringStab else s.setDuringStab) ∧
    (deferred v vc f s).nodes = s.nodes ∧ (deferred v vc f s).rch = s.rch ∧
    (deferred v vc f s).ahh = s.ahh ∧ (deferred v vc f s).stabNum = s.stabNum ∧
    (deferred v vc f s).status = s.status ∧ (deferred v vc f s).counters = s.counters ∧
    (deferred v vc f s).observers = s.observers ∧ (deferred v vc f s).cfg = s.cfg ∧
    (∀ w, w ≠ v → (deferred v vc f s).vars[w]? = s.vars[w]?) :=
  ⟨Proofs.deferred_get v vc f s hv, rfl, Proofs.deferred_frame v vc f s⟩

example : exVs.vars[0]? = some { value := .int 1, setAt := 1, node := 0 } ∧ exVs.status = .stabilising :=
  ⟨rfl, rfl⟩
example : ((writeVar 0 (fun _ => .int 5)).run.run exVs).1 = .ok (.int 1) ∧
    (((writeVar 0 (fun _ => .int 5)).run.run exVs).2).vars[0]? =
      some { value := .int 1, setAt := 1, node := 0, pending := some (.int 5) } ∧
    (((writeVar 0 (fun _ => .int 5)).run.run exVs).2).setDuringStab = [0] := ⟨rfl, rfl, rfl⟩
example : ((writeVar 0 (fun x => x.addInt 1 100)).run.run exVs2).1 = .ok (.int 8) ∧
    (((writeVar 0 (fun x => x.addInt 1 100)).run.run exVs2).2).vars[0]? =
      some { value := .int 1, setAt := 1, node := 0, pending := some (.int 9) } ∧
    (((writeVar 0 (fun x => x.addInt 1 100)).run.run exVs2).2).setDuringStab = [0] := ⟨rfl, rfl, rfl⟩

/-! ## 3. several writes during one stabilisation compose in program order -/

/-- Running the writes `fs` in order during a stabilisation is the same as ONE deferred write with
the composed function `x ↦ (fs.foldl (fun acc f => f acc) x)` (and a no-op if `fs = []`). -/
theorem writes_inside_run (v : Nat) (fs : List (Val → Val)) (s : State) (vc : VarCell)
    (hv : s.vars[v]? = some vc) (hst : s.status = .stabilising) :
    (writeAll v fs).run.run s = (.ok (), match fs with
      | [] => s
      | _ :: _ => deferred v vc (fun x => fs.foldl (fun acc f => f acc) x) s) :=
  Proofs.writeAll_inside_run v fs s vc hv hst

/-- `writeAll v fs` is the plain iteration of `writeVar v f` over `fs` -/
theorem writeAll_eq_forM (v : Nat) (fs : List (Val → Val)) :
    writeAll v fs = forM fs (fun f => do let _ ← writeVar v f; pure ()) :=
  Proofs.writeAll_eq_forM v fs

/-- Spelled out: `value` is unchanged, `pending` is the left fold of `fs` over the value the first
write saw, `v` occurs on the deferred-writes stack exactly once more than before iff nothing was
pending and `fs ≠ []`, the engine is still stabilising, nodes, heap and round number are unchanged. -/
theorem writes_inside_facts (v : Nat) (fs : List (Val → Val)) (s : State) (vc : VarCell)
    (hv : s.vars[v]? = some vc) (hst : s.status = .stabilising) :
    ∃ s', (writeAll v fs).run.run s = (.ok (), s') ∧
      s'.vars[v]? = some { vc with pending :=
        (if fs = [] then vc.pending
          else some (fs.foldl (fun acc f => f acc) (vc.pending.getD vc.value))) } ∧
      (∀ w, w ≠ v → s'.vars[w]? = s.vars[w]?) ∧
      s'.setDuringStab =
        (if vc.pending = none ∧ fs ≠ [] then v :: s.setDuringStab else s.setDuringStab) ∧
      s'.setDuringStab.count v =
        s.setDuringStab.count v + (if vc.pending = none ∧ fs ≠ [] then 1 else 0) ∧
      s'.status = .stabilising ∧ s'.nodes = s.nodes ∧ s'.rch = s.rch ∧ s'.stabNum = s.stabNum :=
  Proofs.writeAll_inside_facts v fs s vc hv hst

example : (((writeAll 0 [fun _ => .int 5, fun x => x.addInt 1 100, fun x => x.addInt 2 100]).run.run
    exVs).2).vars[0]? = some { value := .int 1, setAt := 1, node := 0, pending := some (.int 8) } := rfl

/-! ## 4. `stabiliseEnd` applies the deferred value after the counter bump -/

/-- `stabiliseEnd` is its var phase (`stabiliseEndVars`: bump the round number, take the stack of
deferred vars, run `applyPending` on each) followed by the rest (dead vars, update handlers). -/
theorem stabiliseEnd_eq (env : Env) (fuel : Nat) :
    stabiliseEnd env fuel = (do stabiliseEndVars; stabiliseEndRest env fuel) :=
  Proofs.stabiliseEnd_eq env fuel

/-- The var phase runs the loop on the state with the round number ALREADY incremented. -/
theorem stabiliseEndVars_run (s : State) :
    stabiliseEndVars.run.run s = (applyAll s.setDuringStab).run.run
      { s with stabNum := s.stabNum + 1, currentlyRunning := none, setDuringStab := [] } :=
  Proofs.stabiliseEndVars_run s

/-- One iteration of the loop (`applyPending v`): a var without a pending value is skipped; otherwise
`pending` moves to `value` and the ordinary immediate-write bookkeeping
(`didSetVarWhileNotStabilising`) runs on the result. -/
theorem applyPending_run (v : Nat) (s : State) :
    (applyPending v).run.run s = match s.vars[v]? with
      | none => (.error (.site "model:no-such-var"), s)
      | some vc => match vc.pending with
        | none => (.ok (), s)
        | some x => (didSetVarWhileNotStabilising v).run.run
            (withCell v { vc with pending := none, value := x } s) :=
  Proofs.applyPending_run v s

/-- A var phase that does not panic: the round number is the old one plus one, the stack is empty,
the status is unchanged, and every var cell on the stack has had `applyCell (new round)` applied
(`pending := none`, `value := the pending value`, `set_at := new round` if it was older); all
other cells are unchanged. -/
theorem stabiliseEndVars_ok (s s' : State) (u : Unit)
    (hr : stabiliseEndVars.run.run s = (.ok u, s')) :
    s'.stabNum = s.stabNum + 1 ∧ s'.status = s.status ∧ s'.setDuringStab = [] ∧
    (∀ w, s'.vars[w]? =
      if w ∈ s.setDuringStab then (s.vars[w]?).map (applyCell (s.stabNum + 1)) else s.vars[w]?) :=
  Proofs.stabiliseEndVars_ok s s' u hr

/-- In particular for one deferred var with pending value `x` (and `set_at` not in the future): after
the var phase `value = x`, `pending = none`, `set_at = old round + 1`, i.e. the write counts as a
write of the NEXT round. -/
theorem stabiliseEndVars_applies (s s' : State) (u : Unit) (v : Nat) (vc : VarCell) (x : Val)
    (hr : stabiliseEndVars.run.run s = (.ok u, s'))
    (hmem : v ∈ s.setDuringStab) (hv : s.vars[v]? = some vc) (hp : vc.pending = some x)
    (hset : vc.setAt ≤ s.stabNum) :
    s'.vars[v]? = some { vc with value := x, pending := none, setAt := s.stabNum + 1 } :=
  Proofs.stabiliseEndVars_applies s s' u v vc x hr hmem hv hp hset

example : (∃ u s', stabiliseEndVars.run.run exVs2 = (.ok u, s')) ∧ 0 ∈ exVs2.setDuringStab ∧
    exVs2.vars[0]? = some { value := .int 1, setAt := 1, node := 0, pending := some (.int 8) } ∧
    (1 : Int) ≤ exVs2.stabNum :=
  ⟨⟨_, _, rfl⟩, by decide, rfl, by decide⟩
example : ((stabiliseEndVars.run.run exVs2).2).vars[0]? =
    some { value := .int 8, setAt := 4, node := 0, pending := none } := rfl

/-- A var that is not on the stack is not touched by the var phase. -/
theorem stabiliseEndVars_untouched (s s' : State) (u : Unit) (v : Nat)
    (hr : stabiliseEndVars.run.run s = (.ok u, s')) (hmem : v ∉ s.setDuringStab) :
    s'.vars[v]? = s.vars[v]? :=
  Proofs.stabiliseEndVars_untouched s s' u v hr hmem

example : (∃ u s', stabiliseEndVars.run.run exVs = (.ok u, s')) ∧ 0 ∉ exVs.setDuringStab :=
  ⟨⟨_, _, rfl⟩, by decide⟩

/-! ## 5. D14: a var whose watch node has been invalidated -/

/-- D14 GUARANTEE.  A var created with `var_current_scope` inside a bind scope keeps its handle after
the scope (hence its watch node) has been invalidated.  A write through such a handle outside a
stabilisation, while the var is still linked, NEVER panics — with or without debug assertions (no
hypothesis on `s.cfg.debug`), whatever the height, necessity or heap membership of the dead watch
node — and returns the old value.  The final state is `wroteQuiet v vc (f vc.value) s`, i.e. the
cell holds `f old` with `set_at` raised to the current round if it was older and the `var_sets` counter
incremented; the node array and the recompute heap are UNCHANGED (the invalid watch node is not
scheduled again), and so is everything else (other cells, adjust-heights heap, round, status,
deferred-writes stack, observers, config, `max_height_seen`).  Before the repair the same write
panicked at `var:did_set:watch-stale` in debug builds and, in release builds, linked the invalid
node into the recompute heap when it still looked necessary. -/
theorem write_outside_invalid_watch (v : Nat) (f : Val → Val) (isSet : Bool) (s : State)
    (vc : VarCell) (hv : s.vars[v]? = some vc) (hst : s.status ≠ .stabilising)
    (hl : vc.linked = true) (hinv : (s.nodeD vc.node).valid = false) :
    ∃ s', (writeVar v f isSet).run.run s = (.ok vc.value, s') ∧
      s' = wroteQuiet v vc (f vc.value) s ∧
      s' = (if s.stabNum ≤ vc.setAt then bumped (withCell v { vc with value := f vc.value } s)
            else stampedWrite v vc (f vc.value) s) ∧
      s'.vars[v]? = some { vc with value := f vc.value,
                                   setAt := if vc.setAt < s.stabNum then s.stabNum else vc.setAt } ∧
      (∀ w, w ≠ v → s'.vars[w]? = s.vars[w]?) ∧
      s'.nodes = s.nodes ∧ s'.rch = s.rch ∧ s'.ahh = s.ahh ∧
      s'.stabNum = s.stabNum ∧ s'.status = s.status ∧ s'.setDuringStab = s.setDuringStab ∧
      s'.observers = s.observers ∧ s'.cfg = s.cfg ∧ s'.maxHeightSeen = s.maxHeightSeen ∧
      s'.counters.varSets = s.counters.varSets + 1 :=
  ⟨_, Proofs.writeVar_outside_invalid v f isSet s vc hv hst hl hinv, rfl,
    Proofs.wroteQuiet_eq v vc (f vc.value) s, Proofs.wroteQuiet_facts v vc (f vc.value) s hv⟩

/-- the hypotheses hold on `exVinv` (debug assertions ON, watch node invalid but still observed, i.e.
"necessary", and not queued) -/
example : exVinv.vars[0]? = some { value := .int 1, setAt := 1, node := 0 } ∧
    exVinv.status ≠ .stabilising ∧ (exVinv.nodeD 0).valid = false ∧ exVinv.cfg.debug = true ∧
    (exVinv.isNecessary 0 && !(exVinv.nodeD 0).inRch) = true :=
  ⟨rfl, by decide, rfl, rfl, rfl⟩
/-- and the write indeed returns the old value, stores the new one and leaves heap and nodes alone -/
example : ((writeVar 0 (fun _ => .int 5)).run.run exVinv).1 = .ok (.int 1) ∧
    (((writeVar 0 (fun _ => .int 5)).run.run exVinv).2).vars[0]? =
      some { value := .int 5, setAt := 3, node := 0 } ∧
    (((writeVar 0 (fun _ => .int 5)).run.run exVinv).2).rch.length = 0 ∧
    (((writeVar 0 (fun _ => .int 5)).run.run exVinv).2).rch.queues[0]? = some [] ∧
    (((writeVar 0 (fun _ => .int 5)).run.run exVinv).2).nodes = exVinv.nodes := ⟨rfl, rfl, rfl, rfl, rfl⟩

end IncrVerif.Props.C08
