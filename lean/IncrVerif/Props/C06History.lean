import IncrVerif.Proofs.CutH28
import IncrVerif.Proofs.CutH40
import IncrVerif.Props.C01History
/-!
# C06 for whole histories of static programs with ARBITRARY cutoffs — cutoffs gate propagation

`Props/C06.lean` has the cutoff table and the two branches of ONE `maybeChangeValue`; `Props/C01Global.lean` /
`Props/C01History.lean` have the scheduling invariant and whole histories for cutoffs `.eq`/`.never` (resp. `.eq`)
only, with the action `cutoff` outside the fragment.  Here the static fragment is extended by the actions
`cutoff n c` (ANY `CutoffK`: `.always`, `.never`, `.eq`, `.fn c`, `.boxed c`, `.dependOn i`; on any existing top-level
node, vars included; at any time between stabilisations) and `dependOn a b`, with arbitrary pure user predicates
`env.cutoff c old new`.  With non-exact cutoffs observers do not read from-scratch values, so the theorems are
about GATING (who runs, whose `changedAt` is bumped), not about values; for histories all of whose cutoffs are
exact the values theorem of `C01History` is recovered (Q3).

FRAGMENT (`CutH.StaticAction env a`, `Proofs/CutH24.lean`/`CutH16.lean`).  `create` of `const`, `var`, `map f args`
(`f < fnPerKey`; a user function `f < fnZip` has no side effects), `fold`, `zip`, `dependOn a b`, `cutoff n c`, with
operands naming existing top-level nodes (`.outer k`); `observe`, `cloneObs`, `dropObs`, `disallow`; `set`, `modify`,
`update`, `replace`, `replaceWith`, `get`; `stabilise`, `isStable`, `stats`.  NOT in the fragment: bind, map_ref,
map_with_old, expert nodes, memoised calls, subscriptions/handlers, effects, `dropVar`, `dropHandle`, `dropAll`,
`setMaxHeight`, faults (`arm`: user cutoff predicates cannot panic).  Nothing is assumed about `cfg.debug` or the
height limit.  `CutH.ExactAction a`: `a` is not `dependOn` and not `cutoff n c` with `c ∉ {.eq, .never}`.

DEFINITIONS (namespace `IncrVerif.Proofs.CutH`, files `Proofs/CutH1.lean` … `CutH40.lean`; the development is a port of
`Proofs/Sched1…9` and `Proofs/Quiet1…19` in which the cutoff clauses are dropped; `Sched.eval`, `Sched.Target`,
`Sched.Consistent`, `Sched.HeapInv`, `Sched.Frame`, `Sched.drainTrace`, … are re-used unchanged).
* `Graph env s`, `Anc`, `Inv env e s x`, `DrainInv env e s`, `StepRel env n v ch r s s'` (`CutH1`): the scheduling
  invariant of `drainHeap` for ANY cutoffs.  `e : Bool` is the flag "every cutoff that was ever in force was exact".
  With respect to `Sched.Inv`: the cutoff clause of `Graph.nec` is gone; `cons` is `ConsE env e s m` (a necessary
  non-stale node HAS a value — and is `Sched.Consistent` if `e`); staleness itself is the relational statement that
  is true for arbitrary cutoffs (`¬ stale n` ⟺ `n` has run and every child's `changedAt ≤ recomputedAt n`:
  "nothing unsuppressed has happened to its inputs since"); new field `qstale` (queued nodes and the current node are
  stale — the "only if" half of the gate); new field `exact` (`e = true` ⟹ every cutoff is `.eq`/`.never`).
  `StepRel.verdict`: the step stamps `changedAt` iff `Step.mcvChanges env s n v = some true`, evaluated in the PRE-state;
  `StepRel.log`: the log grows by the events of the node's function followed by the `cut` event, and nothing else.
* `GInv env s op`, `Struct env s`, `QInv env e s` (`CutH7`, `CutH15`): the structural invariant with open nodes and the
  invariant between API actions, as in `Quiet`, without `cutoff = .eq`; `QInv.cons : ConsE`; `QInv.exact`.
* `Stabilised env e fuel s s'` (`CutH22`), `Gated env e fuel s s'`, `Invoked env s s' ρ`, `staleMix s s' m`,
  `drainRuns env fuel t` (`CutH26`, `CutH27`): see below.

PROVED (for the model; partial correctness: every statement assumes that the call returns `(.ok _, s')`).
* (Q1) `init_inv`, `action_keeps`, `history_inv`, `history_every_state`: every state reached from `State.init` by a
  history of static actions with arbitrary cutoffs satisfies `QInv env e s`, where `e = acts.all ExactAction`:
  edges symmetric with indices, heights increase along edges, the heap holds EXACTLY the necessary stale nodes, every
  non-stale node has a value, observer bookkeeping, stamps from earlier rounds.  Cutoffs do not enter it.
  `struct_graph`; `stabilise_pending` (`Stabilised`: invariant again, nothing pending, every necessary node valid,
  NOT STALE and with a value that observers read; the drain starts in `DrainInv`, runs no node twice and only
  necessary nodes); the drain lemmas `pop_inv`, `recomputeOne_inv`, `drainHeap_inv`, `drain_once`.
* (Q2) `stabilise_gate`, `history_gate`: THE GATING THEOREM, for every `stabilise` of every history (`Gated`):
  - `ran_iff`: a node's function is invoked in this `stabilise` (`recomputedAt` is stamped with this round; equivalently
    the node occurs in `drainRuns`, at most once) IFF it is necessary after the observer phases AND
    `staleMix s s' m`: it has never run (`recomputedAt = -1`), or — `var` — its cell was set after it last ran, or some
    child's `changedAt` AT THE MOMENT OF THE INVOCATION (= after the `stabilise`: `Invoked.kids`, no child runs after
    its parent) is newer than the node's previous `recomputedAt`;
  - `Invoked`: at the moment of the invocation the node is necessary and stale, still has its old value/stamps/cutoff,
    the call is described by `StepRel` and its outcome is what the node has after the `stabilise`;
  - `bump_iff`: `changedAt` is set to this round IFF the node ran and (`mcvChanges` in the pre-state) it had no previous
    value or `shouldCutoff env n old new = false`; closed form `mcvChanges_closed`: `.never ↦` propagate, `.always ↦`
    suppress, `.eq ↦` suppress iff `old == new`, `.fn c`/`.boxed c ↦ env.cutoff c old new` with (old, new) IN THAT ORDER,
    logged (`mcvLog_closed`, `fn_verdict`), `.dependOn i ↦ changedAt i == changedAt n` in the pre-state
    (`dependOn_verdict`);
  - `notRan`: a node that did not run keeps value and stamps; `ran_consistent`: a node that ran carries, after the
    `stabilise`, its defining expression applied to the FINAL values of its children (for any cutoffs) — together with
    "not stale" this is the relational replacement of `cons`: value = F(values the children had when the node last
    ran), and every child's `changedAt ≤ recomputedAt` since.
  `between_stabilisations` (`CutH28`): a static action other than `stabilise` leaves value, stamps, kind of every
  existing node untouched, and the cutoffs unless it is a `cutoff` action.
  Corollaries: (a) `never_lost`: if a child's new result was not suppressed, every NECESSARY parent runs in the same
  `stabilise`; (b) `always_keeps`, `always_parent`, `always_history`: a node with `.always` that has a value never bumps
  `changedAt` — per `stabilise`, and over any list of static actions that replaces no cutoff —, and a parent that runs
  nevertheless has another reason; (c) `never_bumps`: with `.never` every run bumps `changedAt`
  (so by (a) every necessary parent re-runs); (d) `eq_iff`: with the default cutoff a run bumps `changedAt` iff the
  value is new or different; a run producing an equal value bumps nothing (and by `ran_iff` no parent runs because of it).
* (Q3) `history_exact`: at a `stabilise` of a history all of whose previous actions are `ExactAction`s, every necessary
  node carries, and every observer in use reads, the from-scratch value `Sched.eval` (`Stabilised.values`, `ReadsOK`);
  `old_fragment_recovered`: every history of `Quiet.StaticAction`s (the fragment of `Props/C01History.lean`) is such a
  history, and the reads conclusion of `C01History.history_every_stabilise` (`Quiet.ReadsOK`) follows from the new
  invariant — the new development subsumes the old one for that fragment.
* Non-vacuity (`decide +kernel`): `exAlways` (var → map with `.always` → map, observed; write; the first map runs
  twice, the second map ONCE, the observer keeps reading the old value `1`, not the from-scratch `5`); `exFn` (a `.fn c0`
  cutoff: the logged `cut` events are `(1, 3) ↦ true` then `(3, 4) ↦ false`: (old, new) in that order; the parent runs
  only after the second); `exDep`/`exDep2` (finding FC1 below).

FINDINGS.
* FC1 (`depend_on`, model = real engine, checked with the harness on the two histories below).  The closure installed
  by `depend_on` (`preserve_cutoff`: "input.changed_at == output.changed_at") suppresses only when the input's last
  change and the output's last change happened in the SAME round.  If the input last changed BEFORE the output node
  first ran (input observed and stabilised earlier), the stamps differ for ever and EVERY re-run of the output (caused
  by the `on` argument) propagates, although the value depended on never changes:
  `var 1; var 2; observe n0; stabilise; dependon n0 n1; map f0 n2; observe n3; stabilise; set v1 3; stabilise; set v1 4;
  stabilise` invokes `f0@n3` three times (`exDep`), whereas without the first `observe n0; stabilise` it is invoked once
  (`exDep2`).  Performance only (values are right); `dependOn_verdict` is the exact statement.
* O1.  Exactness of the cutoffs CURRENTLY in force is not enough for from-scratch values: `cutoff n always`, write,
  stabilise, `cutoff n eq` leaves the parents of `n` computed from the old value and not stale (model = real engine on
  `var 1; map f0 n0; cutoff n1 always; map f0 n1; observe n2; stabilise; set v0 5; stabilise; cutoff n1 eq; stabilise`:
  the observer still reads 1).  Hence the flag `e`
  ("every cutoff EVER in force") in Q3.  Changing a cutoff never makes a node stale.

* TOTAL CORRECTNESS / C04 for the fragment (`CutH29` … `CutH40`, port of Sched10–12 and Quiet20–28).  `Safe s` and
  `TInv N s` as in the old development plus `dep`: the input of every `.dependOn i` cutoff exists (otherwise
  `should_cutoff` panics with a `model:` site).  `ActionOK`/`ValidHist`: existing indices, at most `N = maxHeight` nodes,
  `3 * nodes + 4 ≤ fuelDefault`, and the cutoff installed by `cutoff n c` is `PlainCut` (not `.dependOn _`: the history
  language cannot write it; `dependOn a b` itself is allowed).  `drainHeap_safe` (a drain that does not return ran out of
  fuel — no assertion fails, whatever the cutoffs, user predicates included), `drainHeap_total`, `stabilise_returns`,
  `action_returns`, `history_never_panics`, `valid_history_gate`: for a VALID history of static actions with arbitrary
  cutoffs nothing panics, and the gating theorem holds unconditionally at each of its `stabilise`s.

ASSUMED / NOT PROVED.  The partial-correctness theorems assume that the call returns; the total-correctness theorems
remove that assumption for valid histories.  User predicates cannot panic in the model (no `arm` in the fragment).
Operands are handles on top-level nodes; `cutoff n (.dependOn i)` with an arbitrary `i` is allowed (the gate is then
stated in the pre-state, `bump_iff`; the closed form `dependOn_verdict` needs `i` to be a child).  The `log` clause is
per invocation (`Invoked.step` → `StepRel.log`); it is not threaded through whole histories.  `always_history` excludes ALL `cutoff` actions from the suffix (also those on other nodes).
-/
namespace IncrVerif.Props.C06History
open IncrVerif.Engine IncrVerif.Driver IncrVerif.Proofs IncrVerif.Proofs.Step
open IncrVerif.Proofs.Sched (HeapInv Frame Target kids eval drainTrace)
open IncrVerif.Proofs.CutH

/-! ## Q1: the invariant, for every history with arbitrary cutoffs -/

/-- `Struct` and `VarsOK` give the structural hypotheses of the scheduling theorem -/
theorem struct_graph {env : Env} {s : State} (S : Struct env s) (V : VarsOK s) :
    Graph env s ∧ HeapInv s ∧
      ∀ m, (s.nodeD m).inRch = true ↔ (s.isNecessary m = true ∧ s.isStale m = true) :=
  ⟨S.graph V, S.heapInv, S.queued_iff⟩

theorem init_inv (env : Env) (maxHeight : Nat) (debug : Bool) : QInv env true (State.init maxHeight debug) :=
  qinv_init env maxHeight debug

/-- the invariant with the flag up implies the one with the flag down -/
theorem inv_weaken {env : Env} {e : Bool} {s : State} (Q : QInv env e s) : QInv env false s := Q.weaken

/-- **every static action (any cutoff) keeps the invariant**; the flag survives the `ExactAction`s -/
theorem action_keeps {env : Env} {e : Bool} {s s' : State} {a : Action} {tokens : Array Nat}
    {r : String × Array Nat} (Q : QInv env e s) (ha : StaticAction env a)
    (h : (stepAction env a tokens).run.run s = (.ok r, s')) : QInv env (e && ExactAction a) s' :=
  step_qx Q ha h

/-- the action `cutoff n c`, pure part: replacing any cutoff by any cutoff keeps the invariant (flag down) -/
theorem cutoff_keeps {env : Env} {e : Bool} {s : State} (n : Nat) (c : CutoffK) (Q : QInv env e s) :
    QInv env false (cutSet n c s) :=
  cutSet_qinv n c Q.weaken (fun h => by cases h)

theorem history_inv {env : Env} {N : Nat} {d : Bool} {acts : List Action} {s : State} {tk : Array Nat}
    (ha : ∀ a, a ∈ acts → StaticAction env a)
    (h : runActions env acts (State.init N d) #[] = .ok (s, tk)) : QInv env (acts.all ExactAction) s :=
  history_q ha h

theorem history_every_state {env : Env} {N : Nat} {d : Bool} {as bs : List Action} {s : State}
    {tk : Array Nat} (ha : ∀ a, a ∈ as ++ bs → StaticAction env a)
    (h : runActions env (as ++ bs) (State.init N d) #[] = .ok (s, tk)) :
    ∃ s1 tk1, runActions env as (State.init N d) #[] = .ok (s1, tk1) ∧ QInv env (as.all ExactAction) s1 ∧
      runActions env bs s1 tk1 = .ok (s, tk) :=
  history_prefix ha h

/-- **`stabilise` with pending observers, any cutoffs.**  See `CutH.Stabilised`: `inv`, nothing pending, `vars`,
`stabNum`, `size`, `kind`, `obs`, `settled` (every necessary node: valid, NOT STALE, has a value, which observers
read), `values` (if `e`: the from-scratch values), `drain` (starts in `DrainInv`, no node runs twice, only necessary
nodes run), `gate`. -/
theorem stabilise_pending {env : Env} {e : Bool} {fuel : Nat} {s s' : State} (Q : QInv env e s)
    (h : (stabilise env fuel).run.run s = (.ok (), s')) : Stabilised env e fuel s s' :=
  stabilise_q Q h

/-- the drain: one pop -/
theorem pop_inv {env : Env} {e : Bool} {s s1 : State} {n : Nat} (I : DrainInv env e s)
    (hr : rchRemoveMin.run.run s = (.ok (some n), s1)) : Inv env e s1 (some n) ∧ Frame s s1 :=
  CutH.pop_inv I hr

/-- the drain: one `recomputeOne` on the current node, with the step relation (`StepRel.verdict` is the gate) -/
theorem recomputeOne_inv {env : Env} {e : Bool} {fuel n : Nat} {s s' : State} {r : Option Nat}
    (I : Inv env e s (some n)) (h : (recomputeOne env fuel n).run.run s = (.ok r, s')) :
    ∃ v ch, Target env s n v ∧ StepRel env n v ch r s s' ∧ Inv env e s' r :=
  recomputeOne_step I h

/-- the current node is necessary, stale, and has not run in this round -/
theorem current_stale {env : Env} {e : Bool} {s : State} {n : Nat} (I : Inv env e s (some n)) :
    s.isNecessary n = true ∧ s.isStale n = true ∧ (s.nodeD n).recomputedAt < s.stabNum :=
  ⟨(I.cur n rfl).1, I.qstale n (Or.inr rfl), I.cur_not_yet⟩

theorem drainHeap_inv {env : Env} {e : Bool} (fuel : Nat) (s s' : State) (I : DrainInv env e s)
    (h : (drainHeap env fuel).run.run s = (.ok (), s')) :
    DrainInv env e s' ∧ s'.rch.length = 0 ∧ Frame s s' :=
  CutH.drainHeap_inv fuel s s' I h

/-- after the drain every necessary node is valid, not stale, and has a value -/
theorem drained_settled {env : Env} {e : Bool} {s : State} (h : DrainInv env e s) (he : s.rch.length = 0)
    (n : Nat) (hn : s.isNecessary n = true) :
    (s.nodeD n).valid = true ∧ s.isStale n = false ∧ ∃ v, (s.nodeD n).value = some v ∧ s.value env n = some v :=
  CutH.drained_settled h he n hn

theorem drain_once {env : Env} {e : Bool} (fuel : Nat) (s s' : State) (I : DrainInv env e s)
    (h : (drainHeap env fuel).run.run s = (.ok (), s')) :
    (drainTrace env fuel s).Nodup ∧ ∀ m, m ∈ drainTrace env fuel s →
      s.isNecessary m = true ∧ (s.nodeD m).recomputedAt < s.stabNum ∧
        (s'.nodeD m).recomputedAt = s.stabNum :=
  CutH.drain_once fuel s s' I h

/-! ## Q2: the gating theorem -/

/-- the gate of one drain: who runs -/
theorem drain_ran_iff {env : Env} {e : Bool} {fuel : Nat} {s s' : State} (I : DrainInv env e s)
    (h : (drainHeap env fuel).run.run s = (.ok (), s')) (m : Nat) :
    m ∈ drainTrace env fuel s ↔ (s.isNecessary m = true ∧ staleMix s s' m = true) :=
  ran_iff I h m

/-- **THE GATING THEOREM, one `stabilise`.** -/
theorem stabilise_gate {env : Env} {e : Bool} {fuel : Nat} {s s' : State} (Q : QInv env e s)
    (h : (stabilise env fuel).run.run s = (.ok (), s')) : Gated env e fuel s s' :=
  CutH.stabilise_gate Q h

/-- **THE GATING THEOREM, every `stabilise` of every history** of static actions with arbitrary cutoffs. -/
theorem history_gate {env : Env} {N : Nat} {d : Bool} {as bs : List Action} {s : State}
    {tk : Array Nat} (ha : ∀ a, a ∈ as ++ Action.stabilise :: bs → StaticAction env a)
    (h : runActions env (as ++ Action.stabilise :: bs) (State.init N d) #[] = .ok (s, tk)) :
    ∃ s1 tk1 s2, runActions env as (State.init N d) #[] = .ok (s1, tk1) ∧
      QInv env (as.all ExactAction) s1 ∧
      (stabilise env fuelDefault).run.run s1 = (.ok (), s2) ∧
      Gated env (as.all ExactAction) fuelDefault s1 s2 ∧
      Stabilised env (as.all ExactAction) fuelDefault s1 s2 ∧
      ReadsSome env s2 ∧ ObsSettled s2 ∧ (∀ n, s2.isNecessary n = true ↔ InCone s2 n) ∧
      runActions env bs s2 tk1 = .ok (s, tk) := by
  obtain ⟨s1, tk1, s2, h1, Q1, h2, R, hr, hs, hc, -, h3⟩ := history_stabilise ha h
  exact ⟨s1, tk1, s2, h1, Q1, h2, CutH.stabilise_gate Q1 h2, R, hr, hs, hc, h3⟩

/-- the gate in closed form -/
theorem gate_closed (env : Env) (p : State) (n : Nat) (new : Val) :
    mcvChanges env p n new =
      match (p.nodeD n).value with
      | none => some true
      | some old =>
        match (p.nodeD n).cutoff with
        | .never => some true
        | .always => some false
        | .eq => some (!(old == new))
        | .fn c => some (!(env.cutoff c old new))
        | .boxed c => some (!(env.cutoff c old new))
        | .dependOn i => (p.nodes[i]?).map fun ni => !(ni.changedAt == (p.nodeD n).changedAt) :=
  mcvChanges_closed env p n new

/-- `changedAt` is set to this round iff the node ran and its result was not suppressed -/
theorem bump_iff {env : Env} {e : Bool} {fuel : Nat} {s s' : State} (G : Gated env e fuel s s') (m : Nat) :
    (s'.nodeD m).changedAt = s.stabNum ↔
      ∃ ρ, ρ.node = m ∧ Invoked env s s' ρ ∧ (s'.nodeD m).recomputedAt = s.stabNum ∧
        ∃ v, (s'.nodeD m).value = some v ∧ mcvChanges env ρ.pre m v = some true :=
  G.bump_iff m

/-- the relational statement that replaces `cons`: a node that ran in this `stabilise` is, after it, `Sched.Consistent`
with the FINAL values of its children (its value is its defining expression on them), whatever the cutoffs are -/
theorem ran_consistent {env : Env} {e : Bool} {fuel : Nat} {s s' : State} (G : Gated env e fuel s s') {m : Nat}
    (hm : (s'.nodeD m).recomputedAt = s.stabNum) : IncrVerif.Proofs.Sched.Consistent env s' m :=
  G.ran_consistent hm

/-- (a) changes are never lost -/
theorem never_lost {env : Env} {e : Bool} {fuel : Nat} {s s' : State} (G : Gated env e fuel s s') {c p : Nat}
    (hc : (s'.nodeD c).changedAt = s.stabNum) (hp : s'.isNecessary p = true)
    (hk : c ∈ kids (s.nodeD p).kind) : (s'.nodeD p).recomputedAt = s.stabNum :=
  G.never_lost hc hp hk

/-- (b) `.always`: no bump once the node has a value -/
theorem always_keeps {env : Env} {e : Bool} {fuel : Nat} {s s' : State} (G : Gated env e fuel s s') {m : Nat}
    (hc : (s.nodeD m).cutoff = .always) (hv : (s.nodeD m).value ≠ none) :
    (s'.nodeD m).changedAt = (s.nodeD m).changedAt :=
  G.always_keeps hc hv

/-- (b) `.always`: a parent that runs has another reason -/
theorem always_parent {env : Env} {e : Bool} {fuel : Nat} {s s' : State} (G : Gated env e fuel s s') {m p : Nat}
    (hc : (s.nodeD m).cutoff = .always) (hv : (s.nodeD m).value ≠ none)
    (hran : (s'.nodeD p).recomputedAt = s.stabNum) (hk : m ∈ kids (s.nodeD p).kind)
    (hnever : (s.nodeD p).recomputedAt ≠ -1) (hbefore : (s.nodeD m).changedAt ≤ (s.nodeD p).recomputedAt) :
    ∃ c, c ∈ kids (s.nodeD p).kind ∧ c ≠ m ∧ (s'.nodeD c).changedAt > (s.nodeD p).recomputedAt :=
  G.always_parent hc hv hran hk hnever hbefore

/-- between stabilisations nothing happens to values, stamps and kinds; cutoffs change only by `cutoff` actions -/
theorem between_stabilisations {env : Env} {e : Bool} {s s' : State} {a : Action} {tokens : Array Nat}
    {r : String × Array Nat} (Q : QInv env e s) (ha : StaticAction env a) (hns : a ≠ .stabilise)
    (h : (stepAction env a tokens).run.run s = (.ok r, s')) :
    Kept s s' ∧ (IsCutoff a = false → KeptCut s s') :=
  step_kept Q ha hns h

/-- (b) `.always`, whole histories: after its first result the node NEVER bumps `changedAt` again (over any list of
static actions that does not replace cutoffs) -/
theorem always_history {env : Env} {e : Bool} {acts : List Action} {s s' : State} {tk tk' : Array Nat} {m : Nat}
    (Q : QInv env e s) (ha : ∀ a, a ∈ acts → StaticAction env a) (hnc : ∀ a, a ∈ acts → IsCutoff a = false)
    (hm : m < s.nodes.size) (hc : (s.nodeD m).cutoff = .always) (hv : (s.nodeD m).value ≠ none)
    (h : runActions env acts s tk = .ok (s', tk')) :
    (s'.nodeD m).cutoff = .always ∧ (s'.nodeD m).value ≠ none ∧
      (s'.nodeD m).changedAt = (s.nodeD m).changedAt :=
  CutH.always_history Q ha hnc hm hc hv h

/-- (c) `.never`: every run bumps `changedAt`; every necessary parent runs -/
theorem never_propagates {env : Env} {e : Bool} {fuel : Nat} {s s' : State} (G : Gated env e fuel s s') {m : Nat}
    (hc : (s.nodeD m).cutoff = .never) (hran : (s'.nodeD m).recomputedAt = s.stabNum) :
    (s'.nodeD m).changedAt = s.stabNum ∧
      ∀ p, s'.isNecessary p = true → m ∈ kids (s.nodeD p).kind → (s'.nodeD p).recomputedAt = s.stabNum :=
  ⟨G.never_bumps hc hran, fun _ hp hk => G.never_lost (G.never_bumps hc hran) hp hk⟩

/-- (d) the default cutoff -/
theorem eq_iff {env : Env} {e : Bool} {fuel : Nat} {s s' : State} (G : Gated env e fuel s s') {m : Nat}
    (hc : (s.nodeD m).cutoff = .eq) (hran : (s'.nodeD m).recomputedAt = s.stabNum) :
    ((s'.nodeD m).changedAt = s.stabNum ↔ ((s.nodeD m).value = none ∨ (s'.nodeD m).value ≠ (s.nodeD m).value)) ∧
    ((s'.nodeD m).changedAt ≠ s.stabNum → (s'.nodeD m).changedAt = (s.nodeD m).changedAt) :=
  G.eq_iff hc hran

/-- (d) a node whose children all kept their `changedAt` does not run (unless it never ran / its variable was set):
"recomputation stops at the first node whose value is equal to its previous value" -/
theorem stops {env : Env} {e : Bool} {fuel : Nat} {s s' : State} (G : Gated env e fuel s s') {p : Nat}
    (hkids : ∀ c, c ∈ kids (s.nodeD p).kind → (s'.nodeD c).changedAt = (s.nodeD c).changedAt)
    (hran : (s'.nodeD p).recomputedAt = s.stabNum) : staleMix s s p = true := by
  have := ((G.ran_iff p).1 hran).2
  rw [staleMix_self, ← staleMix_eq_staleOf (s := s) (s' := s') (p := s) rfl rfl rfl (fun c hc => hkids c hc)]
  exact this

/-- function cutoffs: consulted with (old, new) in that order, logged -/
theorem fn_verdict {env : Env} {e : Bool} {fuel : Nat} {s s' : State} (G : Gated env e fuel s s') {m c : Nat}
    {old : Val} (hc : (s.nodeD m).cutoff = .fn c ∨ (s.nodeD m).cutoff = .boxed c)
    (hold : (s.nodeD m).value = some old) (hran : (s'.nodeD m).recomputedAt = s.stabNum) :
    ∃ ρ new, ρ.node = m ∧ Invoked env s s' ρ ∧ (s'.nodeD m).value = some new ∧
      (s'.nodeD m).changedAt = (if env.cutoff c old new = true then (s.nodeD m).changedAt else s.stabNum) ∧
      ∃ evs, ρ.post.log = Event.cut c m old new (env.cutoff c old new) :: (evs ++ ρ.pre.log) ∧
        ∀ ev, ev ∈ evs → IsInvOf m ev :=
  G.fn_verdict hc hold hran

/-- `depend_on` -/
theorem dependOn_verdict {env : Env} {e : Bool} {fuel : Nat} {s s' : State} (G : Gated env e fuel s s') {m i : Nat}
    {old : Val} (hc : (s.nodeD m).cutoff = .dependOn i) (hi : i ∈ kids (s.nodeD m).kind)
    (hold : (s.nodeD m).value = some old) (hran : (s'.nodeD m).recomputedAt = s.stabNum) :
    (s'.nodeD m).changedAt =
      (if (s'.nodeD i).changedAt = (s.nodeD m).changedAt then (s.nodeD m).changedAt else s.stabNum) :=
  G.dependOn_verdict hc hi hold hran

/-! ## Q3: exact cutoffs — the values theorem of `C01History` recovered -/

/-- **Q3.** At a `stabilise` of a history whose previous actions are all `ExactAction`s (no `dependOn`, every `cutoff`
action installs `.eq` or `.never`): every necessary node carries its from-scratch value and every observer in use
reads it. -/
theorem history_exact {env : Env} {N : Nat} {d : Bool} {as bs : List Action} {s : State}
    {tk : Array Nat} (ha : ∀ a, a ∈ as ++ Action.stabilise :: bs → StaticAction env a)
    (hx : as.all ExactAction = true)
    (h : runActions env (as ++ Action.stabilise :: bs) (State.init N d) #[] = .ok (s, tk)) :
    ∃ s1 tk1 s2, runActions env as (State.init N d) #[] = .ok (s1, tk1) ∧ QInv env true s1 ∧
      (stabilise env fuelDefault).run.run s1 = (.ok (), s2) ∧ Stabilised env true fuelDefault s1 s2 ∧
      ReadsOK env s2 ∧ ObsSettled s2 ∧
      (∀ n, s2.isNecessary n = true → ∀ k, (s2.nodeD n).height.toNat < k →
        (s2.nodeD n).valid = true ∧ s2.isStale n = false ∧ (s2.nodeD n).value = eval env s2 k n ∧
          s2.value env n = eval env s2 k n ∧ (eval env s2 k n).isSome = true) ∧
      runActions env bs s2 tk1 = .ok (s, tk) := by
  obtain ⟨s1, tk1, s2, h1, Q1, h2, R, -, hs, -, hr, h3⟩ := history_stabilise ha h
  rw [hx] at Q1 R
  exact ⟨s1, tk1, s2, h1, Q1, h2, R, hr hx, hs, R.values rfl, h3⟩

/-- the actions of the old fragment (`Props/C01History.lean`) are static actions of the new one, and exact -/
theorem static_is_exact {env : Env} {a : Action} (h : Quiet.StaticAction env a) :
    StaticAction env a ∧ ExactAction a = true := by
  cases a <;> try exact h.elim
  case create i =>
    cases i <;> try exact h.elim
    all_goals exact ⟨h, rfl⟩
  case observe n => cases n <;> first | exact h.elim | exact ⟨trivial, rfl⟩
  all_goals exact ⟨trivial, rfl⟩

theorem runActions_eq (env : Env) (acts : List Action) (s : State) (tk : Array Nat) :
    Quiet.runActions env acts s tk = runActions env acts s tk := by
  induction acts generalizing s tk with
  | nil => rfl
  | cons a as ih =>
    simp only [Quiet.runActions, runActions]
    rcases (stepAction env a tk).run.run s with ⟨_ | r, s'⟩
    · rfl
    · exact ih s' r.2

/-- **the old development is subsumed**: for a history of the fragment of `Props/C01History.lean` (stated with its own
`Quiet.StaticAction`, `Quiet.runActions`), the reads conclusion of `C01History.history_every_stabilise` — every
observer in use reads `Sched.eval`, every observer is in use or unlinked — follows from the invariant for arbitrary
cutoffs. -/
theorem old_fragment_recovered {env : Env} {N : Nat} {d : Bool} {as bs : List Action} {s : State}
    {tk : Array Nat} (ha : ∀ a, a ∈ as ++ Action.stabilise :: bs → Quiet.StaticAction env a)
    (h : Quiet.runActions env (as ++ Action.stabilise :: bs) (State.init N d) #[] = .ok (s, tk)) :
    ∃ s1 tk1 s2, Quiet.runActions env as (State.init N d) #[] = .ok (s1, tk1) ∧
      (stabilise env fuelDefault).run.run s1 = (.ok (), s2) ∧
      Quiet.ReadsOK env s2 ∧ Quiet.ObsSettled s2 ∧
      Quiet.runActions env bs s2 tk1 = .ok (s, tk) := by
  rw [runActions_eq] at h
  have hx : as.all ExactAction = true := by
    rw [List.all_eq_true]
    intro a hm
    exact (static_is_exact (ha a (List.mem_append_left _ hm))).2
  obtain ⟨s1, tk1, s2, h1, -, h2, -, hr, hs, -, h3⟩ :=
    history_exact (fun a hm => (static_is_exact (ha a hm)).1) hx h
  exact ⟨s1, tk1, s2, by rw [runActions_eq]; exact h1, h2, hr, hs, by rw [runActions_eq]; exact h3⟩

/-! ## total correctness: C04 for the fragment with arbitrary cutoffs -/

/-- **No assertion fails during a drain**, whatever the cutoffs: a `drainHeap` that does not return ran out of fuel -/
theorem drainHeap_safe {env : Env} {e : Bool} (fuel : Nat) (s s' : State) (pe : Panic) (I : DrainInv env e s)
    (S : Safe s) (h : (drainHeap env fuel).run.run s = (.error pe, s')) : pe = .outOfFuel :=
  CutH.drainHeap_safe fuel s s' pe I S h

/-- **Total correctness of the drain.** -/
theorem drainHeap_total {env : Env} {e : Bool} {fuel : Nat} {s : State} (I : DrainInv env e s) (S : Safe s)
    (hf : s.nodes.size + 2 ≤ fuel) :
    ∃ s', (drainHeap env fuel).run.run s = (.ok (), s') ∧ DrainInv env e s' ∧ s'.rch.length = 0 ∧
      Frame s s' ∧ Safe s' :=
  drainHeap_total_inv I S hf

/-- `stabilise` returns (pending observers allowed, any cutoffs); all of `Stabilised` and `Gated` hold for the result -/
theorem stabilise_returns {env : Env} {e : Bool} {N fuel : Nat} {s : State} (Q : QInv env e s) (T : TInv N s)
    (hf : 3 * s.nodes.size + 4 ≤ fuel) :
    ∃ s', (stabilise env fuel).run.run s = (.ok (), s') ∧ TInv N s' ∧ Stabilised env e fuel s s' ∧
      Gated env e fuel s s' := by
  obtain ⟨_, s', h, T'⟩ := stabilise_total_q (env := env) Q T hf
  exact ⟨s', h, T', stabilise_q Q h, CutH.stabilise_gate Q h⟩

/-- every static API action (any cutoff) whose indices exist returns, and keeps both invariants -/
theorem action_returns {env : Env} {e : Bool} {N : Nat} {s : State} {a : Action} {tk : Array Nat}
    (Q : QInv env e s) (T : TInv N s) (ha : StaticAction env a) (hok : ActionOK N s a) :
    ∃ r s', (stepAction env a tk).run.run s = (.ok r, s') ∧ r.2 = tk ∧ QInv env (e && ExactAction a) s' ∧
      TInv N s' ∧ Grown a s s' :=
  step_total Q T ha hok

/-- **C04 for the fragment.** A valid history of static actions with arbitrary cutoffs never panics. -/
theorem history_never_panics {env : Env} {N : Nat} {d : Bool} {acts : List Action}
    (ha : ∀ a, a ∈ acts → StaticAction env a) (hv : ValidHist N 0 0 0 acts) :
    ∃ s', runActions env acts (State.init N d) #[] = .ok (s', #[]) ∧ QInv env (acts.all ExactAction) s' ∧
      TInv N s' :=
  history_total ha hv

/-- hence, unconditionally: at every `stabilise` of a valid history the gating theorem holds -/
theorem valid_history_gate {env : Env} {N : Nat} {d : Bool} {as bs : List Action}
    (ha : ∀ a, a ∈ as ++ Action.stabilise :: bs → StaticAction env a)
    (hv : ValidHist N 0 0 0 (as ++ Action.stabilise :: bs)) :
    ∃ s1 tk1 s2 s, runActions env as (State.init N d) #[] = .ok (s1, tk1) ∧
      QInv env (as.all ExactAction) s1 ∧
      (stabilise env fuelDefault).run.run s1 = (.ok (), s2) ∧
      Gated env (as.all ExactAction) fuelDefault s1 s2 ∧
      Stabilised env (as.all ExactAction) fuelDefault s1 s2 ∧
      ReadsSome env s2 ∧ ObsSettled s2 ∧
      runActions env bs s2 tk1 = .ok (s, #[]) := by
  obtain ⟨s, h, -, -⟩ := history_total (env := env) (d := d) ha hv
  obtain ⟨s1, tk1, s2, h1, Q1, h2, G, R, hr, hs, -, h3⟩ := history_gate ha h
  exact ⟨s1, tk1, s2, s, h1, Q1, h2, G, R, hr, hs, h3⟩

/-! ## non-vacuity -/

/-- the final state of a history (from `State.init 128 true`) -/
def finalState (env : Env) (acts : List Action) : Option State :=
  match runActions env acts (State.init 128 true) #[] with
  | .ok (s, _) => some s
  | .error _ => none

/-- how often the function of node `n` has been invoked (the log is never reset by `runActions`) -/
def invCount (s : State) (n : Nat) : Nat :=
  (s.log.filter fun ev => match ev with | .inv _ m _ _ => m == n | _ => false).length

/-- the `cut` events of the log, oldest first: (predicate, node, old, new, answer) -/
def cutEvents (s : State) : List (Nat × Nat × Val × Val × Bool) :=
  s.log.reverse.filterMap fun ev => match ev with | .cut c n o v r => some (c, n, o, v, r) | _ => none

def readObs (env : Env) (s : State) (o : Nat) : Option Val :=
  match s.tryGetValue env o with | .ok v => some v | .error _ => none

theorem finalState_some {env : Env} {acts : List Action} {s : State} (h : finalState env acts = some s) :
    ∃ tk, runActions env acts (State.init 128 true) #[] = .ok (s, tk) := by
  unfold finalState at h
  rcases hx : runActions env acts (State.init 128 true) #[] with e | ⟨s1, tk⟩
  · rw [hx] at h; cases h
  · rw [hx] at h; cases h; exact ⟨tk, rfl⟩

theorem finalState_isSome {env : Env} {acts : List Action} (h : (finalState env acts).isSome = true) :
    ∃ s tk, runActions env acts (State.init 128 true) #[] = .ok (s, tk) := by
  obtain ⟨s, hs⟩ := Option.isSome_iff_exists.1 h
  obtain ⟨tk, h⟩ := finalState_some hs
  exact ⟨s, tk, h⟩

/-- a tactic-free check that a list of actions is static -/
def staticB : Action → Bool
  | .create (.const _) | .create (.var _) => true
  | .create (.map f args) => decide (f < fnZip) && args.all fun a => match a with | .outer _ => true | _ => false
  | .create (.dependOn (.outer _) (.outer _)) => true
  | .create (.cutoff (.outer _) _) => true
  | .observe (.outer _) => true
  | .set _ _ | .stabilise => true
  | _ => false

theorem staticB_sound {a : Action} (h : staticB a = true) : StaticAction Step.exEnv a := by
  cases a <;> try (simp [staticB] at h; done)
  case create i =>
    cases i <;> try (simp [staticB] at h; done)
    case const => trivial
    case var => trivial
    case map f args =>
      simp only [staticB, Bool.and_eq_true, decide_eq_true_eq, List.all_eq_true] at h
      refine ⟨by have := h.1; unfold fnZip at this; unfold fnPerKey; omega, fun _ _ => rfl, fun a ha => ?_⟩
      have := h.2 a ha
      cases a <;> first | trivial | (simp at this)
    case dependOn a b =>
      cases a <;> cases b <;> first | exact ⟨trivial, trivial⟩ | (simp [staticB] at h)
    case cutoff n c =>
      cases n <;> first | trivial | (simp [staticB] at h)
  case observe n => cases n <;> first | trivial | (simp [staticB] at h)
  case set => trivial
  case stabilise => trivial

theorem static_of_all {acts : List Action} (h : acts.all staticB = true) :
    ∀ a, a ∈ acts → StaticAction Step.exEnv a := by
  rw [List.all_eq_true] at h
  exact fun a ha => staticB_sound (h a ha)

/-- var 1 → `n1 = f0 [n0]` with cutoff ALWAYS → `n2 = f0 [n1]`, observed; stabilise; write 5; stabilise -/
def exAlways : List Action :=
  [.create (.var (.int 1)), .create (.map 0 [.outer 0]), .create (.cutoff (.outer 1) .always),
   .create (.map 0 [.outer 1]), .observe (.outer 2), .stabilise, .set 0 (.int 5), .stabilise]

theorem exAlways_static : ∀ a, a ∈ exAlways → StaticAction Step.exEnv a := static_of_all (by decide)

set_option maxRecDepth 100000 in
/-- the history runs; the first map ran twice, the SECOND MAP ONCE; `n1` holds the new value `5`, `n2` and the observer
still the old `1`; `n1.changedAt` is still the first round -/
example : (finalState Step.exEnv exAlways).isSome = true ∧
    (finalState Step.exEnv exAlways).map (fun s => (invCount s 1, invCount s 2)) = some (2, 1) ∧
    (finalState Step.exEnv exAlways).map (fun s => ((s.nodeD 1).value, (s.nodeD 2).value, readObs Step.exEnv s 0))
      = some (some (.int 5), some (.int 1), some (.int 1)) ∧
    (finalState Step.exEnv exAlways).map (fun s => ((s.nodeD 1).changedAt, (s.nodeD 1).recomputedAt, s.stabNum))
      = some (0, 1, 2) :=
  ⟨by decide +kernel, by decide +kernel, by decide +kernel, by decide +kernel⟩

set_option maxRecDepth 100000 in
/-- … so the gating theorem applies to both of its `stabilise`s, with the flag down (`cutoff … always` is not exact) -/
example : ∃ s1 tk1 s2, runActions Step.exEnv (exAlways.take 7) (State.init 128 true) #[] = .ok (s1, tk1) ∧
    (stabilise Step.exEnv fuelDefault).run.run s1 = (.ok (), s2) ∧ Gated Step.exEnv false fuelDefault s1 s2 := by
  obtain ⟨s, tk, h⟩ := finalState_isSome (env := Step.exEnv) (acts := exAlways) (by decide +kernel)
  obtain ⟨s1, tk1, s2, h1, -, h2, G, -⟩ :=
    history_gate (as := exAlways.take 7) (bs := []) (fun a ha => exAlways_static a (by simpa [exAlways] using ha)) h
  exact ⟨s1, tk1, s2, h1, h2, G⟩

/-- var 1 → `n1 = f0 [n0]` with cutoff `fn c0` ("equal mod 2") → `n2 = f0 [n1]`, observed; stabilise; write 3
(same parity: suppressed); stabilise; write 4 (propagates); stabilise -/
def exFn : List Action :=
  [.create (.var (.int 1)), .create (.map 0 [.outer 0]), .create (.cutoff (.outer 1) (.fn 0)),
   .create (.map 0 [.outer 1]), .observe (.outer 2), .stabilise, .set 0 (.int 3), .stabilise,
   .set 0 (.int 4), .stabilise]

theorem exFn_static : ∀ a, a ∈ exFn → StaticAction Step.exEnv a := static_of_all (by decide)

set_option maxRecDepth 100000 in
/-- the predicate `c0` of node 1 is consulted with (old, new) IN THAT ORDER: `(1, 3) ↦ true`, then `(3, 4) ↦ false`
(the old value of the second call is the SUPPRESSED new value of the first); the parent `n2` runs twice (first result,
and after the second call); the observer reads `1`, `1`, `4` -/
example : (finalState Step.exEnv exFn).map cutEvents =
      some [(0, 1, .int 1, .int 3, true), (0, 1, .int 3, .int 4, false)] ∧
    (finalState Step.exEnv exFn).map (fun s => (invCount s 1, invCount s 2)) = some (3, 2) ∧
    (finalState Step.exEnv (exFn.take 8)).map (fun s => readObs Step.exEnv s 0) = some (some (.int 1)) ∧
    (finalState Step.exEnv exFn).map (fun s => readObs Step.exEnv s 0) = some (some (.int 4)) :=
  ⟨by decide +kernel, by decide +kernel, by decide +kernel, by decide +kernel⟩

/-- FC1: the input `n0` is observed and stabilised BEFORE the `depend_on` node exists -/
def exDep : List Action :=
  [.create (.var (.int 1)), .create (.var (.int 2)), .observe (.outer 0), .stabilise,
   .create (.dependOn (.outer 0) (.outer 1)), .create (.map 0 [.outer 2]), .observe (.outer 3), .stabilise,
   .set 1 (.int 3), .stabilise, .set 1 (.int 4), .stabilise]

/-- the same without the early `observe n0; stabilise` -/
def exDep2 : List Action :=
  [.create (.var (.int 1)), .create (.var (.int 2)),
   .create (.dependOn (.outer 0) (.outer 1)), .create (.map 0 [.outer 2]), .observe (.outer 3), .stabilise,
   .set 1 (.int 3), .stabilise, .set 1 (.int 4), .stabilise]

theorem exDep_static : ∀ a, a ∈ exDep → StaticAction Step.exEnv a := static_of_all (by decide)

set_option maxRecDepth 100000 in
/-- **FC1.**  In `exDep` the function of the parent `n3` of the `depend_on` node is invoked at EVERY change of the `on`
argument (3 times), in `exDep2` once — the value depended on (`n0 = 1`) never changes in either. -/
example : (finalState Step.exEnv exDep).map (fun s => invCount s 3) = some 3 ∧
    (finalState Step.exEnv exDep2).map (fun s => invCount s 3) = some 1 ∧
    (finalState Step.exEnv exDep).map (fun s => ((s.nodeD 0).changedAt, (s.nodeD 2).changedAt)) = some (0, 3) ∧
    (finalState Step.exEnv exDep2).map (fun s => ((s.nodeD 0).changedAt, (s.nodeD 2).changedAt)) = some (0, 0) :=
  ⟨by decide +kernel, by decide +kernel, by decide +kernel, by decide +kernel⟩

/-- Q3, non-vacuity: the example history of `Props/C01History.lean`, with a `cutoff … never` thrown in, is static and
exact; it runs, so `history_exact` applies to its `stabilise`s -/
def exExact : List Action :=
  [.create (.var (.int 1)), .create (.var (.int 2)), .create (.map 0 [.outer 0, .outer 1]),
   .create (.cutoff (.outer 2) .never), .observe (.outer 2), .stabilise, .set 0 (.int 5), .stabilise]

set_option maxRecDepth 100000 in
example : (∀ a, a ∈ exExact → StaticAction Step.exEnv a) ∧ exExact.all ExactAction = true ∧
    (finalState Step.exEnv exExact).map (fun s => readObs Step.exEnv s 0) = some (some (.int 7)) :=
  ⟨static_of_all (by decide), by decide, by decide +kernel⟩

/-- the example histories are VALID: they never panic (proved, not computed) and `valid_history_gate` applies -/
theorem exAlways_valid : ValidHist 128 0 0 0 exAlways := by
  simp only [exAlways, ValidHist, ActionOKc, grow, fuelDefault, PlainCut]
  refine ⟨⟨trivial, by decide⟩, ⟨?_, by decide⟩, ⟨⟨1, rfl, by decide⟩, trivial⟩, ⟨?_, by decide⟩, ⟨2, rfl, by decide⟩,
    by decide, by decide, by decide, trivial⟩
  · intro a ha
    simp only [List.mem_cons, List.mem_nil_iff, or_false] at ha
    subst ha; exact ⟨0, rfl, by decide⟩
  · intro a ha
    simp only [List.mem_cons, List.mem_nil_iff, or_false] at ha
    subst ha; exact ⟨1, rfl, by decide⟩

example : ∃ s', runActions Step.exEnv exAlways (State.init 128 true) #[] = .ok (s', #[]) ∧
    QInv Step.exEnv false s' ∧ TInv 128 s' := by
  have hx : exAlways.all ExactAction = false := by decide
  have := history_never_panics (env := Step.exEnv) (d := true) exAlways_static exAlways_valid
  rw [hx] at this
  exact this

end IncrVerif.Props.C06History
