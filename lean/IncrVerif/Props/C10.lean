import IncrVerif.Proofs.Observers
/-!
# C10 — observer handles follow a strict lifecycle with precise errors

The theorems are about the definitions the executable model runs: `State.tryGetValue`
(`Observer::try_get_value`), `disallowFutureUse`, `subscribe` (`Observer::try_subscribe`),
`unsubscribe` (`InternalObserver::unsubscribe`).  A run is `(m).run.run s : Except Panic α × State`;
`.ok r` is a normal return with result `r`, `.error p` a panic.  All theorems hold for *every*
state `s` (no reachability assumption).  Hypotheses of the form `s.observers[o]? = some ob` say
"`o` is an observer handle that exists, and `ob` is its record".

The only well-formedness hypothesis is in `subscribe_ok`: the observed node exists
(`ob.node < s.nodes.size`); without it the model's `getNode` panics with `model:no-such-node`.

The non-vacuity examples use `Proofs.Obs.exState` (five observers, one in each lifecycle state plus
one in use on an invalid node) and `Proofs.Obs.exEnv`.
-/
namespace IncrVerif.Props.C10
open IncrVerif.Engine IncrVerif.Proofs.Obs

/-! ## 1. the read table -/

/-- The complete read table of an existing observer: a dropped engine gives `ObservingInvalid`;
otherwise a stabilising engine gives `CurrentlyStabilising`; otherwise the answer is decided by the
observer's lifecycle state: created ↦ `NeverStabilised`, in use ↦ the node's value (or
`ObservingInvalid` if it has none), disallowed and unlinked ↦ `Disallowed`. -/
theorem read_table (env : Env) (s : State) (o : Nat) (ob : ObsRec)
    (h : s.observers[o]? = some ob) :
    s.tryGetValue env o =
      if s.alive = false then .error .observingInvalid
      else if s.status = .stabilising then .error .currentlyStabilising
      else match ob.state with
        | .created => .error .neverStabilised
        | .inUse => match s.value env ob.node with
          | some v => .ok v
          | none => .error .observingInvalid
        | .disallowed => .error .disallowed
        | .unlinked => .error .disallowed := by
  simp only [State.tryGetValue, h]
  cases s.alive <;> cases s.status <;> cases ob.state <;> simp <;>
    (cases State.value env s ob.node <;> rfl)

example : exState.tryGetValue exEnv 0 = .ok (.int 5) := (read_table exEnv exState 0 _ rfl).trans rfl

/-- row: once the engine state has been dropped every read fails with `ObservingInvalid` -/
theorem read_dead (env : Env) (s : State) (o : Nat) (h : s.alive = false) :
    s.tryGetValue env o = .error .observingInvalid := by
  simp [State.tryGetValue, h]

example : ({ exState with alive := false }).tryGetValue exEnv 0 = .error .observingInvalid :=
  read_dead _ _ _ rfl

/-- row: during a stabilisation every read fails with `CurrentlyStabilising`, whatever the observer -/
theorem read_stabilising (env : Env) (s : State) (o : Nat) (ha : s.alive = true)
    (hs : s.status = .stabilising) : s.tryGetValue env o = .error .currentlyStabilising := by
  simp [State.tryGetValue, ha, hs]

example : ({ exState with status := .stabilising }).tryGetValue exEnv 0
    = .error .currentlyStabilising := read_stabilising _ _ _ rfl rfl

/-- row: an observer that has not been through a stabilisation yet reads `NeverStabilised` -/
theorem read_created (env : Env) (s : State) (o : Nat) (ob : ObsRec) (ha : s.alive = true)
    (hs : s.status ≠ .stabilising) (h : s.observers[o]? = some ob) (hst : ob.state = .created) :
    s.tryGetValue env o = .error .neverStabilised := by
  rw [read_table env s o ob h]; simp [ha, hs, hst]

example : exState.tryGetValue exEnv 1 = .error .neverStabilised :=
  read_created exEnv exState 1 _ rfl (by decide) rfl rfl

/-- row: an observer in use reads the current value of its node … -/
theorem read_inUse (env : Env) (s : State) (o : Nat) (ob : ObsRec) (v : Val) (ha : s.alive = true)
    (hs : s.status ≠ .stabilising) (h : s.observers[o]? = some ob) (hst : ob.state = .inUse)
    (hv : s.value env ob.node = some v) : s.tryGetValue env o = .ok v := by
  rw [read_table env s o ob h]; simp [ha, hs, hst, hv]

example : exState.tryGetValue exEnv 0 = .ok (.int 5) :=
  read_inUse exEnv exState 0 _ _ rfl (by decide) rfl rfl rfl

/-- row: … and `ObservingInvalid` when the node has no value (it was invalidated) -/
theorem read_inUse_invalid (env : Env) (s : State) (o : Nat) (ob : ObsRec) (ha : s.alive = true)
    (hs : s.status ≠ .stabilising) (h : s.observers[o]? = some ob) (hst : ob.state = .inUse)
    (hv : s.value env ob.node = none) : s.tryGetValue env o = .error .observingInvalid := by
  rw [read_table env s o ob h]; simp [ha, hs, hst, hv]

example : exState.tryGetValue exEnv 4 = .error .observingInvalid :=
  read_inUse_invalid exEnv exState 4 _ rfl (by decide) rfl rfl rfl

/-- row: a disallowed or unlinked observer reads `Disallowed` -/
theorem read_disallowed (env : Env) (s : State) (o : Nat) (ob : ObsRec) (ha : s.alive = true)
    (hs : s.status ≠ .stabilising) (h : s.observers[o]? = some ob)
    (hst : ob.state = .disallowed ∨ ob.state = .unlinked) :
    s.tryGetValue env o = .error .disallowed := by
  rw [read_table env s o ob h]; rcases hst with hst | hst <;> simp [ha, hs, hst]

example : exState.tryGetValue exEnv 2 = .error .disallowed :=
  read_disallowed exEnv exState 2 _ rfl (by decide) rfl (.inl rfl)
example : exState.tryGetValue exEnv 3 = .error .disallowed :=
  read_disallowed exEnv exState 3 _ rfl (by decide) rfl (.inr rfl)

/-- an index that names no observer record reads `ObservingInvalid` (model convention) -/
theorem read_no_such_observer (env : Env) (s : State) (o : Nat) (ha : s.alive = true)
    (hs : s.status ≠ .stabilising) (h : s.observers[o]? = none) :
    s.tryGetValue env o = .error .observingInvalid := by
  simp [State.tryGetValue, ha, hs, h]

example : exState.tryGetValue exEnv 17 = .error .observingInvalid :=
  read_no_such_observer exEnv exState 17 rfl (by decide) rfl

/-! ## 2. `disallow_future_use` -/

/-- `disallow_future_use` on an existing observer never panics.  The observer moves
created ↦ unlinked, in use ↦ disallowed, disallowed ↦ disallowed, unlinked ↦ unlinked and keeps its
node; every other observer's record is unchanged, and so are `nodes`, `vars`, `status`, `alive`,
`stabNum`. -/
theorem disallow_spec (s : State) (o : Nat) (ob : ObsRec) (h : s.observers[o]? = some ob) :
    ∃ s', (disallowFutureUse o).run.run s = (.ok (), s') ∧
      (∃ ob', s'.observers[o]? = some ob' ∧ ob'.node = ob.node ∧
        ob'.state = match ob.state with
          | .created => .unlinked
          | .inUse => .disallowed
          | .disallowed => .disallowed
          | .unlinked => .unlinked) ∧
      (∀ o', o' ≠ o → s'.observers[o']? = s.observers[o']?) ∧
      s'.observers.size = s.observers.size ∧
      s'.nodes = s.nodes ∧ s'.vars = s.vars ∧ s'.status = s.status ∧ s'.alive = s.alive ∧
      s'.stabNum = s.stabNum := by
  obtain ⟨s', hr, ⟨ob', h1, h2, h3⟩, rest⟩ := disallow_run s o ob h
  refine ⟨s', hr, ⟨ob', h1, h3, ?_⟩, rest⟩
  rw [h2]; cases ob.state <;> rfl

example : ∃ s', (disallowFutureUse 0).run.run exState = (.ok (), s') :=
  (disallow_spec exState 0 _ rfl).imp fun _ h => h.1
example : (((disallowFutureUse 0).run.run exState).2.observers[0]?).map (·.state)
    = some .disallowed := rfl
example : (((disallowFutureUse 1).run.run exState).2.observers[1]?).map (·.state)
    = some .unlinked := rfl

/-- whatever `disallow_future_use o` does (also when `o` is not a handle and the model panics),
every other observer's read is unchanged -/
theorem disallow_reads_others (env : Env) (s : State) (o : Nat) (r : Except Panic Unit)
    (s' : State) (hrun : (disallowFutureUse o).run.run s = (r, s')) (o' : Nat) (ho' : o' ≠ o) :
    s'.tryGetValue env o' = s.tryGetValue env o' := by
  cases h : s.observers[o]? with
  | none =>
    rw [disallow_out_of_range s o h] at hrun
    cases hrun; rfl
  | some ob =>
    obtain ⟨s'', hr, _, hoth, _, hn, _, hst, ha, _⟩ := disallow_run s o ob h
    rw [hr] at hrun
    cases hrun
    exact read_congr env ha hst (hoth o' ho') hn

example : ((disallowFutureUse 0).run.run exState).2.tryGetValue exEnv 4
    = exState.tryGetValue exEnv 4 := disallow_reads_others exEnv exState 0 _ _ rfl 4 (by decide)

/-- after `disallow_future_use o` the observer itself reads `Disallowed` (engine alive and not
stabilising), whatever its lifecycle state was before — in particular when it was created or in use -/
theorem disallow_read_self (env : Env) (s : State) (o : Nat) (ob : ObsRec)
    (h : s.observers[o]? = some ob) (ha : s.alive = true) (hs : s.status ≠ .stabilising)
    (r : Except Panic Unit) (s' : State) (hrun : (disallowFutureUse o).run.run s = (r, s')) :
    s'.tryGetValue env o = .error .disallowed := by
  obtain ⟨s'', hr, ⟨ob', h1, h2, _⟩, _, _, _, _, hst, hal, _⟩ := disallow_run s o ob h
  rw [hr] at hrun
  cases hrun
  refine read_disallowed env _ o ob' (hal.trans ha) (by rw [hst]; exact hs) h1 ?_
  rw [h2]; cases ob.state <;> simp [afterDisallow]

example : exState.tryGetValue exEnv 0 = .ok (.int 5) ∧
    ((disallowFutureUse 0).run.run exState).2.tryGetValue exEnv 0 = .error .disallowed :=
  ⟨rfl, disallow_read_self exEnv exState 0 _ rfl rfl (by decide) _ _ rfl⟩

/-- `disallow_future_use` is idempotent: a second call returns normally and changes nothing -/
theorem disallow_idempotent (s : State) (o : Nat) (s' : State)
    (hrun : (disallowFutureUse o).run.run s = (.ok (), s')) :
    (disallowFutureUse o).run.run s' = (.ok (), s') := by
  cases h : s.observers[o]? with
  | none =>
    rw [disallow_out_of_range s o h] at hrun
    cases hrun
  | some ob =>
    obtain ⟨s'', hr, ⟨ob', h1, h2, _⟩, _⟩ := disallow_run s o ob h
    rw [hr] at hrun
    cases hrun
    refine disallow_noop _ o ob' h1 ?_
    rw [h2]; cases ob.state <;> simp [afterDisallow]

example : (disallowFutureUse 0).run.run ((disallowFutureUse 0).run.run exState).2
    = (.ok (), ((disallowFutureUse 0).run.run exState).2) := disallow_idempotent exState 0 _ rfl

/-! ## 3. `subscribe` -/

/-- subscribing through a disallowed or unlinked observer is refused with `Disallowed` and changes
nothing -/
theorem subscribe_disallowed (s : State) (o hid : Nat) (ob : ObsRec) (ha : s.alive = true)
    (h : s.observers[o]? = some ob) (hst : ob.state = .disallowed ∨ ob.state = .unlinked) :
    (subscribe o hid).run.run s = (.ok (.error .disallowed), s) :=
  Proofs.Obs.subscribe_disallowed s o hid ob ha h hst

example : (subscribe 2 0).run.run exState = (.ok (.error .disallowed), exState) :=
  subscribe_disallowed exState 2 0 _ rfl rfl (.inl rfl)
example : (subscribe 3 0).run.run exState = (.ok (.error .disallowed), exState) :=
  subscribe_disallowed exState 3 0 _ rfl rfl (.inr rfl)

/-- subscribing after the engine state was dropped is refused with `ObservingInvalid` and changes
nothing -/
theorem subscribe_dead (s : State) (o hid : Nat) (h : s.alive = false) :
    (subscribe o hid).run.run s = (.ok (.error .observingInvalid), s) :=
  Proofs.Obs.subscribe_dead s o hid h

example : (subscribe 0 0).run.run { exState with alive := false }
    = (.ok (.error .observingInvalid), { exState with alive := false }) := subscribe_dead _ _ _ rfl

/-- subscribing through a created or in-use observer (engine alive, observed node exists) returns
the fresh token `s.nextToken` without panicking; the observer keeps its node and lifecycle state
and gets the new handler appended; every other observer's record is unchanged; `nextToken` is
bumped; `vars`, `stabNum`, the recompute heap and every node other than the observed one are
untouched (the observed node only has `numOnUpdateHandlers`/`inHandleAfterStab` updated, see
`subscribe_frame` for its `kind`/`valid`/`value`). -/
theorem subscribe_ok (s : State) (o hid : Nat) (ob : ObsRec) (ha : s.alive = true)
    (h : s.observers[o]? = some ob) (hst : ob.state = .created ∨ ob.state = .inUse)
    (hn : ob.node < s.nodes.size) :
    ∃ s', (subscribe o hid).run.run s = (.ok (.ok s.nextToken), s') ∧
      (∃ ob', s'.observers[o]? = some ob' ∧ ob'.state = ob.state ∧ ob'.node = ob.node ∧
        ob'.handlers
          = ob.handlers ++ [{ token := s.nextToken, hid := hid, createdAt := s.stabNum }]) ∧
      (∀ o', o' ≠ o → s'.observers[o']? = s.observers[o']?) ∧
      s'.observers.size = s.observers.size ∧ s'.nextToken = s.nextToken + 1 ∧
      s'.vars = s.vars ∧ s'.stabNum = s.stabNum ∧ s'.rch = s.rch ∧
      (∀ n, n ≠ ob.node → s'.nodes[n]? = s.nodes[n]?) :=
  Proofs.Obs.subscribe_ok s o hid ob ha h hst hn

example : ∃ s', (subscribe 0 7).run.run exState = (.ok (.ok 0), s') :=
  (subscribe_ok exState 0 7 _ rfl rfl (.inr rfl) (by decide)).imp fun _ h => h.1
example : ∃ s', (subscribe 1 7).run.run exState = (.ok (.ok 0), s') :=
  (subscribe_ok exState 1 7 _ rfl rfl (.inl rfl) (by decide)).imp fun _ h => h.1

/-- the hypothesis `ob.node < s.nodes.size` of `subscribe_ok` is needed in the model: through an
observer record that points at a node that does not exist, `subscribe` panics (`getNode`), after
having registered the handler.  (Unreachable through handles.) -/
example : ((subscribe 4 0).run.run exDanglingObs).1 = .error (.site "model:no-such-node") ∧
    ((subscribe 4 0).run.run exDanglingObs).2.nextToken = exDanglingObs.nextToken + 1 := ⟨rfl, rfl⟩

/-- whatever `subscribe` does — refuse, succeed, or panic on a dangling handle — the read of EVERY
observer (including the one subscribed through) is unchanged, and so are `status`, `alive`, the
number of nodes and of observers, and every observer's node and lifecycle state -/
theorem subscribe_frame (env : Env) (s : State) (o hid : Nat) (r : Except Panic (Except ObsError Nat))
    (s' : State) (hrun : (subscribe o hid).run.run s = (r, s')) :
    (∀ o' : Nat, s'.tryGetValue env o' = s.tryGetValue env o') ∧
      s'.status = s.status ∧ s'.alive = s.alive ∧ s'.nodes.size = s.nodes.size ∧
      s'.observers.size = s.observers.size ∧
      (∀ o' : Nat, (s'.observers[o']?).map (fun x : ObsRec => (x.node, x.state))
          = (s.observers[o']?).map (fun x : ObsRec => (x.node, x.state))) := by
  have hf := (Pres.subscribe o hid).h s r s' hrun
  exact ⟨fun o' => hf.read_eq env o', hf.status, hf.alive, hf.nodesEq, hf.obsEq, hf.obs_all⟩

example : ((subscribe 0 7).run.run exState).2.tryGetValue exEnv 0 = exState.tryGetValue exEnv 0 :=
  (subscribe_frame exEnv exState 0 7 _ _ rfl).1 0

/-! ## 4. `unsubscribe` -/

/-- a token presented to an observer that did not issue it is refused with `Mismatch`; nothing
changes -/
theorem unsubscribe_mismatch (s : State) (o token owner : Nat) (h : owner ≠ o) :
    (unsubscribe o token owner).run.run s = (.ok (.error .mismatch), s) :=
  Proofs.Obs.unsubscribe_mismatch s o token owner h

example : (unsubscribe 0 0 1).run.run exState = (.ok (.error .mismatch), exState) :=
  unsubscribe_mismatch exState 0 0 1 (by decide)

/-- unsubscribing from a disallowed or unlinked observer succeeds and changes nothing -/
theorem unsubscribe_noop (s : State) (o token : Nat) (ob : ObsRec)
    (h : s.observers[o]? = some ob) (hst : ob.state = .disallowed ∨ ob.state = .unlinked) :
    (unsubscribe o token o).run.run s = (.ok (.ok ()), s) :=
  Proofs.Obs.unsubscribe_noop s o token ob h hst

example : (unsubscribe 2 0 2).run.run exState = (.ok (.ok ()), exState) :=
  unsubscribe_noop exState 2 0 _ rfl (.inl rfl)

/-- unsubscribing (with the right owner) from a created or in-use observer never panics and returns
`Ok(())`; the observer keeps its node and lifecycle state and loses exactly the handlers with that
token; every other observer's record is unchanged -/
theorem unsubscribe_ok (s : State) (o token : Nat) (ob : ObsRec)
    (h : s.observers[o]? = some ob) (hst : ob.state = .created ∨ ob.state = .inUse) :
    ∃ s', (unsubscribe o token o).run.run s = (.ok (.ok ()), s') ∧
      (∃ ob', s'.observers[o]? = some ob' ∧ ob'.state = ob.state ∧ ob'.node = ob.node ∧
        ob'.handlers = ob.handlers.filter (·.token != token)) ∧
      (∀ o', o' ≠ o → s'.observers[o']? = s.observers[o']?) ∧
      s'.observers.size = s.observers.size ∧ s'.nextToken = s.nextToken ∧
      s'.vars = s.vars ∧ s'.stabNum = s.stabNum ∧ s'.rch = s.rch ∧
      (∀ n, n ≠ ob.node → s'.nodes[n]? = s.nodes[n]?) :=
  Proofs.Obs.unsubscribe_ok s o token ob h hst

example : ∃ s', (unsubscribe 0 0 0).run.run ((subscribe 0 7).run.run exState).2
    = (.ok (.ok ()), s') :=
  (unsubscribe_ok _ 0 0 _ rfl (.inr rfl)).imp fun _ h => h.1

/-- on an existing observer, `unsubscribe` with the right owner never panics and returns `Ok(())`,
whatever the lifecycle state -/
theorem unsubscribe_never_panics (s : State) (o token : Nat) (ob : ObsRec)
    (h : s.observers[o]? = some ob) :
    ∃ s', (unsubscribe o token o).run.run s = (.ok (.ok ()), s') := by
  cases hst : ob.state
  · exact (unsubscribe_ok s o token ob h (.inl hst)).imp fun _ h => h.1
  · exact (unsubscribe_ok s o token ob h (.inr hst)).imp fun _ h => h.1
  · exact ⟨s, unsubscribe_noop s o token ob h (.inl hst)⟩
  · exact ⟨s, unsubscribe_noop s o token ob h (.inr hst)⟩

example : ∃ s', (unsubscribe 1 9 1).run.run exState = (.ok (.ok ()), s') :=
  unsubscribe_never_panics exState 1 9 _ rfl

/-- whatever `unsubscribe` does, the read of EVERY observer is unchanged, and so are `status`,
`alive`, the number of nodes, and every observer's node and lifecycle state -/
theorem unsubscribe_frame (env : Env) (s : State) (o token owner : Nat)
    (r : Except Panic (Except ObsError Unit)) (s' : State)
    (hrun : (unsubscribe o token owner).run.run s = (r, s')) :
    (∀ o' : Nat, s'.tryGetValue env o' = s.tryGetValue env o') ∧
      s'.status = s.status ∧ s'.alive = s.alive ∧ s'.nodes.size = s.nodes.size ∧
      s'.observers.size = s.observers.size ∧
      (∀ o' : Nat, (s'.observers[o']?).map (fun x : ObsRec => (x.node, x.state))
          = (s.observers[o']?).map (fun x : ObsRec => (x.node, x.state))) := by
  have hf := (Pres.unsubscribe o token owner).h s r s' hrun
  exact ⟨fun o' => hf.read_eq env o', hf.status, hf.alive, hf.nodesEq, hf.obsEq, hf.obs_all⟩

example : ((unsubscribe 0 0 0).run.run ((subscribe 0 7).run.run exState).2).2.tryGetValue exEnv 0
    = ((subscribe 0 7).run.run exState).2.tryGetValue exEnv 0 :=
  (unsubscribe_frame exEnv ((subscribe 0 7).run.run exState).2 0 0 0 _ _ rfl).1 0

/-! ## 5. no call changes another observer's lifecycle state -/

/-- corollary: none of the three calls on observer `o`, whatever its outcome, changes the lifecycle
state of any other observer `o'` -/
theorem lifecycle_of_others (s : State) (o o' : Nat) (ho' : o' ≠ o) :
    (∀ r s', (disallowFutureUse o).run.run s = (r, s') →
      (s'.observers[o']?).map (·.state) = (s.observers[o']?).map (·.state)) ∧
    (∀ hid r s', (subscribe o hid).run.run s = (r, s') →
      (s'.observers[o']?).map (·.state) = (s.observers[o']?).map (·.state)) ∧
    (∀ token owner r s', (unsubscribe o token owner).run.run s = (r, s') →
      (s'.observers[o']?).map (·.state) = (s.observers[o']?).map (·.state)) := by
  have key : ∀ {s' : State}, FrameS s s' →
      (s'.observers[o']?).map (·.state) = (s.observers[o']?).map (·.state) := by
    intro s' hf
    have := congrArg (Option.map Prod.snd) (hf.obs_all o')
    simpa [Option.map_map, Function.comp_def, obsCore] using this
  refine ⟨?_, ?_, ?_⟩
  · intro r s' hrun
    cases h : s.observers[o]? with
    | none =>
      rw [disallow_out_of_range s o h] at hrun
      cases hrun; rfl
    | some ob =>
      obtain ⟨s'', hr, _, hoth, _⟩ := disallow_run s o ob h
      rw [hr] at hrun
      cases hrun
      rw [hoth o' ho']
  · intro hid r s' hrun
    exact key ((Pres.subscribe o hid).h s r s' hrun)
  · intro token owner r s' hrun
    exact key ((Pres.unsubscribe o token owner).h s r s' hrun)

example : (((subscribe 0 7).run.run exState).2.observers[1]?).map (·.state) = some .created :=
  ((lifecycle_of_others exState 0 1 (by decide)).2.1 7 _ _ rfl).trans rfl

end IncrVerif.Props.C10
