import IncrVerif.Proofs.Operators
/-!
# C15 — every diff-based map operator equals its non-incremental definition, for every input history

Property theorems only; helper lemmas are in `IncrVerif/Proofs/Operators.lean` and
`IncrVerif/Proofs/AssocMapLemmas.lean`.  The operators are the literal transcriptions of the Rust
closures in `IncrVerif/MapOps/Operators.lean`; maps are strictly sorted association lists
(`AMap.Sorted`, the model of `BTreeMap` / `OrdMap`), keys and values `Int`.

A *run* (`filterMapiRun`, `ufoldRun`, `mergeRun`) feeds a list of inputs to a fresh node and threads the
state exactly as `with_old_input_output` does: the first step sees `none`; after a step with input `m`
and output `o` the next step sees `some (m, o)` (for merge `some (l, r, o)`).  This is stated by the
`*_threading` theorems.  The input lists are arbitrary: insertions, deletions, value changes, emptying,
refilling and repeated equal inputs are all covered; there is no bound on lengths or sizes.

PROVED HERE
* `filterMapi_run_eq_spec`, `filterMapi_outputs_sorted`, `filterMapi_did_change`;
  corollaries `incr_map_run`, `incr_mapi_run`, `incr_filter_map_run`.
* `ufold_run_eq_spec` for any `add` / `remove` / `update` satisfying the explicit laws `UFoldLaws`
  (adds of different keys commute; `remove` undoes `add`; `update` replaces an added binding);
  instances `ufold_sum_plain_run` (`PlainUnorderedFold`, both values of `revert_to_init_when_empty`) and
  `ufold_sum_custom_update_run`; `ufold_did_change`.
  `ufold_add_comm_needed`: a concrete run where `add` does not commute and the incremental result
  differs from the definition, i.e. the commutation law cannot be dropped.
* `merge_run_eq_spec`, `mergeSpec_lookup` (the reference merge is the key-wise merge), `merge_did_change`.
* `partition_run_eq_spec`.

NOT PROVED HERE
* Anything about the Rust code below the closures (the `BTreeMap` / `im_rc` containers themselves, the
  `Rc` sharing, the engine's scheduling and cutoff).  `symmetricDiff` / `mergeDiffs` are the models
  proved equal to the textbook definitions in C18.
* Values and keys other than `Int`; user functions are total and pure (Lean functions).
* `did_change = true` does not imply that the output changed (e.g. `incr_filter_mapi` on an empty
  input always reports a change; see C17 `filterMapi_empty_reports_change`).
* For the unordered fold with user functions that violate `UFoldLaws` nothing is claimed.
-/
namespace IncrVerif.Props.C15
open IncrVerif IncrVerif.MapOps IncrVerif.Proofs.Ops

/-! ## 1. `incr_filter_mapi` -/

/-- The run threads the state as the Rust wrapper does: the first result is the step from `none`, and
result `n+1` is the step from `some (input n, output n)` on input `n+1`. -/
theorem filterMapi_threading (f : Int → Int → Option Int) (inputs : List (AMap Int)) :
    (∀ m ms, inputs = m :: ms → (filterMapiRun f inputs).head? = some (filterMapiStep f none m)) ∧
    (filterMapiRun f inputs).length = inputs.length ∧
    ∀ (n : Nat) (h : n + 1 < inputs.length),
      (filterMapiRun f inputs)[n + 1]'(by simpa [filterMapiRun] using h) =
        filterMapiStep f (some (inputs[n], ((filterMapiRun f inputs)[n]'(by
          simp [filterMapiRun]; omega)).1)) inputs[n + 1] := by
  refine ⟨?_, by simp [filterMapiRun], filterMapiRun_succ f inputs⟩
  rintro m ms rfl
  rfl

/-- For every sequence of sorted input maps, the `i`-th output of `incr_filter_mapi` is
`filter_map_collect f` of the `i`-th input. -/
theorem filterMapi_run_eq_spec (f : Int → Int → Option Int) (inputs : List (AMap Int))
    (hs : ∀ m ∈ inputs, m.Sorted) :
    (filterMapiRun f inputs).map (·.1) = inputs.map (filterMapSpec f) :=
  filterMapiRun_out f inputs hs

/-- Every output is a sorted map. -/
theorem filterMapi_outputs_sorted (f : Int → Int → Option Int) (inputs : List (AMap Int))
    (hs : ∀ m ∈ inputs, m.Sorted) : ∀ r ∈ filterMapiRun f inputs, r.1.Sorted := by
  intro r hr
  have h1 : r.1 ∈ (filterMapiRun f inputs).map (·.1) := List.mem_map.mpr ⟨r, hr, rfl⟩
  rw [filterMapi_run_eq_spec f inputs hs] at h1
  obtain ⟨m, hm, h2⟩ := List.mem_map.mp h1
  rw [← h2]
  exact filterMapSpec_sorted f m (hs m hm)

/-- `did_change = false` is reported only when the input equals the previous input, and then the
output equals the previous output. -/
theorem filterMapi_did_change (f : Int → Int → Option Int) (inputs : List (AMap Int))
    (hs : ∀ m ∈ inputs, m.Sorted) (n : Nat) (h : n + 1 < inputs.length)
    (hflag : ((filterMapiRun f inputs)[n + 1]'(by simpa [filterMapiRun] using h)).2.1 = false) :
    inputs[n + 1] = inputs[n] ∧
      ((filterMapiRun f inputs)[n + 1]'(by simpa [filterMapiRun] using h)).1 =
        ((filterMapiRun f inputs)[n]'(by simp [filterMapiRun]; omega)).1 := by
  rw [filterMapiRun_succ f inputs n h] at hflag ⊢
  obtain ⟨-, h2, h3⟩ := filterMapiStep_flag_false f _ _ _ (hs _ (List.getElem_mem _))
    (hs _ (List.getElem_mem _)) hflag
  exact ⟨h2.symm, h3⟩

/-- `incr_map g` is `incr_filter_mapi (fun _ v => Some (g v))`: every output is the input with `g`
applied to every value. -/
theorem incr_map_run (g : Int → Int) (inputs : List (AMap Int)) (hs : ∀ m ∈ inputs, m.Sorted) :
    (filterMapiRun (fun _ v => some (g v)) inputs).map (·.1) =
      inputs.map fun m => m.map fun kv => (kv.1, g kv.2) := by
  rw [filterMapi_run_eq_spec _ inputs hs]
  congr 1
  funext m
  exact filterMapSpec_mapi (fun _ v => g v) m

/-- `incr_mapi g` is `incr_filter_mapi (fun k v => Some (g k v))`. -/
theorem incr_mapi_run (g : Int → Int → Int) (inputs : List (AMap Int)) (hs : ∀ m ∈ inputs, m.Sorted) :
    (filterMapiRun (fun k v => some (g k v)) inputs).map (·.1) =
      inputs.map fun m => m.map fun kv => (kv.1, g kv.1 kv.2) := by
  rw [filterMapi_run_eq_spec _ inputs hs]
  congr 1
  funext m
  exact filterMapSpec_mapi g m

/-- `incr_filter_map g` is `incr_filter_mapi (fun _ v => g v)`: every output keeps exactly the bindings
whose value `g` maps to `Some`. -/
theorem incr_filter_map_run (g : Int → Option Int) (inputs : List (AMap Int))
    (hs : ∀ m ∈ inputs, m.Sorted) :
    (filterMapiRun (fun _ v => g v) inputs).map (·.1) =
      inputs.map fun m => m.filterMap fun kv => (g kv.2).map fun v2 => (kv.1, v2) :=
  filterMapi_run_eq_spec _ inputs hs

/-! ## 2. `incr_unordered_fold_with` -/

/-- The run threads the state as the Rust wrapper does. -/
theorem ufold_threading {ρ : Type} (u : UFold ρ) (init : ρ) (inputs : List (AMap Int)) :
    (∀ m ms, inputs = m :: ms → (ufoldRun u init inputs).head? = some (ufoldStep u init none m)) ∧
    (ufoldRun u init inputs).length = inputs.length ∧
    ∀ (n : Nat) (h : n + 1 < inputs.length),
      (ufoldRun u init inputs)[n + 1]'(by simpa [ufoldRun] using h) =
        ufoldStep u init (some (inputs[n], ((ufoldRun u init inputs)[n]'(by
          simp [ufoldRun]; omega)).1)) inputs[n + 1] := by
  refine ⟨?_, by simp [ufoldRun], ufoldRun_succ u init inputs⟩
  rintro m ms rfl
  rfl

/-- General form.  If adds of different keys commute, `remove` undoes an `add` of the same binding and
`update` replaces an added binding (`UFoldLaws`), then for every sequence of sorted inputs the `i`-th
output is the plain fold of `add` over the `i`-th input, whatever `revert_to_init_when_empty` is. -/
theorem ufold_run_eq_spec {ρ : Type} (u : UFold ρ) (hl : UFoldLaws u) (init : ρ)
    (inputs : List (AMap Int)) (hs : ∀ m ∈ inputs, m.Sorted) :
    (ufoldRun u init inputs).map (·.1) = inputs.map (ufoldSpec u init) :=
  ufoldRun_out u hl init inputs hs

/-- Sum fold with the default `update` (`PlainUnorderedFold`: remove then add), for both values of
`revert_to_init_when_empty`: every output is `init + Σ g k v` over the current input. -/
theorem ufold_sum_plain_run (g : Int → Int → Int) (init : Int) (revert : Bool)
    (inputs : List (AMap Int)) (hs : ∀ m ∈ inputs, m.Sorted) :
    (ufoldRun (UFold.plain (fun acc k v => acc + g k v) (fun acc k v => acc - g k v) revert) init
        inputs).map (·.1) = inputs.map (ufoldSpecSum g init) := by
  rw [ufold_run_eq_spec _ (sumLaws_plain g revert) init inputs hs]
  congr 1

/-- Sum fold with a custom `update` that satisfies `update acc k old new = acc - g k old + g k new`. -/
theorem ufold_sum_custom_update_run (g : Int → Int → Int) (u : UFold Int)
    (hadd : ∀ acc k v, u.add acc k v = acc + g k v)
    (hrem : ∀ acc k v, u.remove acc k v = acc - g k v)
    (hupd : ∀ acc k o n, u.update acc k o n = acc - g k o + g k n)
    (init : Int) (inputs : List (AMap Int)) (hs : ∀ m ∈ inputs, m.Sorted) :
    (ufoldRun u init inputs).map (·.1) = inputs.map (ufoldSpecSum g init) := by
  rw [ufold_run_eq_spec u (sumLaws g u hadd hrem hupd) init inputs hs]
  congr 1
  funext m
  exact ufoldSpec_sum g u hadd init m

/-- `did_change = false` is reported only when the input equals the previous input (and then, under
the laws, the output equals the previous output). -/
theorem ufold_did_change {ρ : Type} (u : UFold ρ) (hl : UFoldLaws u) (init : ρ)
    (inputs : List (AMap Int)) (hs : ∀ m ∈ inputs, m.Sorted) (n : Nat) (h : n + 1 < inputs.length)
    (hflag : ((ufoldRun u init inputs)[n + 1]'(by simpa [ufoldRun] using h)).2.1 = false) :
    inputs[n + 1] = inputs[n] ∧
      ((ufoldRun u init inputs)[n + 1]'(by simpa [ufoldRun] using h)).1 =
        ((ufoldRun u init inputs)[n]'(by simp [ufoldRun]; omega)).1 := by
  have hout := ufold_run_eq_spec u hl init inputs hs
  have h1 := getElem_of_map_eq _ _ _ _ hout (n + 1) (by simpa [ufoldRun] using h) h
  have h0 := getElem_of_map_eq _ _ _ _ hout n (by simp [ufoldRun]; omega) (by omega)
  rw [ufoldRun_succ u init inputs n h] at hflag
  have heq := ufoldStep_flag_false u init _ _ _ (hs _ (List.getElem_mem _))
    (hs _ (List.getElem_mem _)) hflag
  exact ⟨heq.symm, h1.trans ((congrArg (ufoldSpec u init) heq.symm).trans h0.symm)⟩

/-- The commutation law cannot be dropped: with `add acc _ v = 10 * acc + v` (and the matching
`remove`, which does undo `add`), inserting a smaller key later gives 21 incrementally, while the
definition (fold in key order) gives 12. -/
theorem ufold_add_comm_needed :
    let u : UFold Int := UFold.plain (fun acc _ v => 10 * acc + v) (fun acc _ v => (acc - v) / 10) false
    (∀ acc k v, u.remove (u.add acc k v) k v = acc) ∧
    (ufoldRun u 0 [[(2, 2)], [(1, 1), (2, 2)]]).map (·.1) = [2, 21] ∧
    [[(2, 2)], [(1, 1), (2, 2)]].map (ufoldSpec u 0) = [2, 12] := by
  refine ⟨?_, by decide, by decide⟩
  intro acc k v
  show (10 * acc + v - v) / 10 = acc
  omega

/-! ## 3. `incr_merge` -/

/-- The run threads the state as the Rust wrapper does (`with_old_input_output2`). -/
theorem merge_threading (f : Int → MergeArg → Option Int) (inputs : List (AMap Int × AMap Int)) :
    (∀ lr ms, inputs = lr :: ms → (mergeRun f inputs).head? = some (mergeStep f none lr.1 lr.2)) ∧
    (mergeRun f inputs).length = inputs.length ∧
    ∀ (n : Nat) (h : n + 1 < inputs.length),
      (mergeRun f inputs)[n + 1]'(by simpa [mergeRun] using h) =
        mergeStep f (some (inputs[n].1, inputs[n].2, ((mergeRun f inputs)[n]'(by
          simp [mergeRun]; omega)).1)) inputs[n + 1].1 inputs[n + 1].2 := by
  refine ⟨?_, by simp [mergeRun], mergeRun_succ f inputs⟩
  rintro lr ms rfl
  rfl

/-- For every sequence of pairs of sorted maps, the `i`-th output of `incr_merge` is the reference
merge of the `i`-th pair. -/
theorem merge_run_eq_spec (f : Int → MergeArg → Option Int) (inputs : List (AMap Int × AMap Int))
    (hs : ∀ lr ∈ inputs, lr.1.Sorted ∧ lr.2.Sorted) :
    (mergeRun f inputs).map (·.1) = inputs.map fun lr => mergeSpec' f lr.1 lr.2 :=
  mergeRun_out f inputs hs

/-- The reference merge is the key-wise merge: it is sorted and its binding for `k` is `f k` applied to
`Left x` / `Right y` / `Both x y` according to what the two maps hold for `k`, nothing if neither
holds `k`. -/
theorem mergeSpec_lookup (f : Int → MergeArg → Option Int) (l r : AMap Int) (hl : l.Sorted)
    (hr : r.Sorted) :
    (mergeSpec' f l r).Sorted ∧
    ∀ k, (mergeSpec' f l r).lookup k =
      match l.lookup k, r.lookup k with
      | none, none => none
      | some x, none => f k (.left x)
      | none, some y => f k (.right y)
      | some x, some y => f k (.both x y) := by
  refine ⟨mergeSpec'_sorted f l r hl hr, fun k => ?_⟩
  rw [lookup_mergeSpec' f l r hl hr k]
  rcases l.lookup k with _ | x <;> rcases r.lookup k with _ | y <;> rfl

/-- `did_change = false` is reported only when both inputs equal the previous inputs, and then the
output equals the previous output. -/
theorem merge_did_change (f : Int → MergeArg → Option Int) (inputs : List (AMap Int × AMap Int))
    (hs : ∀ lr ∈ inputs, lr.1.Sorted ∧ lr.2.Sorted) (n : Nat) (h : n + 1 < inputs.length)
    (hflag : ((mergeRun f inputs)[n + 1]'(by simpa [mergeRun] using h)).2.1 = false) :
    inputs[n + 1] = inputs[n] ∧
      ((mergeRun f inputs)[n + 1]'(by simpa [mergeRun] using h)).1 =
        ((mergeRun f inputs)[n]'(by simp [mergeRun]; omega)).1 := by
  have hout := merge_run_eq_spec f inputs hs
  have h1 := getElem_of_map_eq _ _ _ _ hout (n + 1) (by simpa [mergeRun] using h) h
  have h0 := getElem_of_map_eq _ _ _ _ hout n (by simp [mergeRun]; omega) (by omega)
  rw [mergeRun_succ f inputs n h] at hflag
  have hsn := hs _ (List.getElem_mem (by omega : n < inputs.length))
  have hsn1 := hs _ (List.getElem_mem h)
  obtain ⟨e1, e2⟩ := mergeStep_flag_false f _ _ _ _ _ hsn.1 hsn.2 hsn1.1 hsn1.2 hflag
  have heq : inputs[n + 1] = inputs[n] := Prod.ext e1.symm e2.symm
  exact ⟨heq, h1.trans ((congrArg (fun lr => mergeSpec' f lr.1 lr.2) heq).trans h0.symm)⟩

/-! ## 4. `incr_partition_mapi` -/

/-- `incr_partition_mapi f` is the unordered fold `PartitionMapi` started from two empty maps: for every
sequence of sorted inputs the `i`-th output is the pair (bindings `f` sends left, bindings `f` sends
right) of the `i`-th input. -/
theorem partition_run_eq_spec (f : Int → Int → Either) (inputs : List (AMap Int))
    (hs : ∀ m ∈ inputs, m.Sorted) :
    (ufoldRun (partitionUFold f) ([], []) inputs).map (·.1) = inputs.map (partitionSpec f) :=
  partitionRun_out f inputs hs

/-! ## Non-vacuity: concrete histories with insertion, deletion, value change, emptying, refilling and
a repeated input; the hypotheses hold and the runs produce non-trivial outputs. -/

/-- a history: fill, change a value + insert + delete, repeat, empty, refill -/
def history : List (AMap Int) :=
  [[(1, 10), (2, 25), (4, 40)], [(2, 21), (3, 30), (4, 40)], [(2, 21), (3, 30), (4, 40)], [],
   [(5, 50)]]

/-- keep values below 35, add the key -/
def fEx (k v : Int) : Option Int := if v < 35 then some (v + k) else none

example : (∀ m ∈ history, AMap.Sorted m) ∧
    (filterMapiRun fEx history).map (·.1) =
      [[(1, 11), (2, 27)], [(2, 23), (3, 33)], [(2, 23), (3, 33)], [], []] ∧
    (filterMapiRun fEx history).map (·.2.1) = [true, true, false, true, true] := by decide

example : (filterMapiRun (fun _ v => some (v + 1)) history).map (·.1) =
    history.map fun m => m.map fun kv => (kv.1, kv.2 + 1) := by decide

example : (filterMapiRun (fun k v => some (v + k)) history).map (·.1) =
    history.map fun m => m.map fun kv => (kv.1, kv.2 + kv.1) := by decide

example : (filterMapiRun (fun _ v => if v < 35 then some v else none) history).map (·.1) =
    [[(1, 10), (2, 25)], [(2, 21), (3, 30)], [(2, 21), (3, 30)], [], []] := by decide

example : (ufoldRun (UFold.plain (fun acc k v => acc + (k + v)) (fun acc k v => acc - (k + v)) true)
      100 history).map (·.1) = [182, 200, 200, 100, 155] ∧
    history.map (ufoldSpecSum (fun k v => k + v) 100) = [182, 200, 200, 100, 155] := by decide

example : (ufoldRun (UFold.plain (fun acc k v => acc + (k + v)) (fun acc k v => acc - (k + v)) false)
      100 history).map (·.1) = [182, 200, 200, 100, 155] := by decide

/-- a custom `update` meeting the hypothesis of `ufold_sum_custom_update_run` -/
def uCustom : UFold Int :=
  { add := fun acc k v => acc + (k + v), remove := fun acc k v => acc - (k + v),
    update := fun acc k o n => acc - (k + o) + (k + n), revertToInitWhenEmpty := false }

example : (∀ acc k o n, uCustom.update acc k o n = acc - (k + o) + (k + n)) ∧
    (ufoldRun uCustom 100 history).map (·.1) = [182, 200, 200, 100, 155] :=
  ⟨fun _ _ _ _ => rfl, by decide⟩

/-- a merge function using all three cases and dropping some keys -/
def mEx (_k : Int) : MergeArg → Option Int
  | .left x => some x
  | .right y => if y < 100 then some (-y) else none
  | .both x y => some (x + y)

/-- a history of pairs: both change, only left changes, nothing changes, both emptied, refilled -/
def pairHistory : List (AMap Int × AMap Int) :=
  [([(1, 10), (2, 20)], [(2, 5), (3, 200)]), ([(2, 21)], [(2, 5), (3, 7)]),
   ([(2, 21)], [(2, 5), (3, 7)]), ([], []), ([(4, 1)], [(4, 2)])]

example : (∀ lr ∈ pairHistory, lr.1.Sorted ∧ lr.2.Sorted) ∧
    (mergeRun mEx pairHistory).map (·.1) =
      [[(1, 10), (2, 25)], [(2, 26), (3, -7)], [(2, 26), (3, -7)], [], [(4, 3)]] ∧
    (mergeRun mEx pairHistory).map (·.2.1) = [true, true, false, true, true] := by decide

example : (mergeSpec' mEx [(1, 10), (2, 20)] [(2, 5), (3, 200)]).lookup 2 = some 25 ∧
    (mergeSpec' mEx [(1, 10), (2, 20)] [(2, 5), (3, 200)]).lookup 3 = none := by decide

/-- send even values left (halved), odd values right -/
def pEx (_k v : Int) : Either := if v % 2 = 0 then .left (v / 2) else .right v

example : (ufoldRun (partitionUFold pEx) ([], []) history).map (·.1) =
      [([(1, 5), (4, 20)], [(2, 25)]), ([(3, 15), (4, 20)], [(2, 21)]),
       ([(3, 15), (4, 20)], [(2, 21)]), ([], []), ([(5, 25)], [])] ∧
    history.map (partitionSpec pEx) =
      [([(1, 5), (4, 20)], [(2, 25)]), ([(3, 15), (4, 20)], [(2, 21)]),
       ([(3, 15), (4, 20)], [(2, 21)]), ([], []), ([(5, 25)], [])] := by decide

/-- the laws of the general theorem are satisfiable by a non-trivial fold -/
example : UFoldLaws (UFold.plain (fun acc k v => acc + (k + v)) (fun acc k v => acc - (k + v)) true) :=
  sumLaws_plain (fun k v => k + v) true

end IncrVerif.Props.C15
