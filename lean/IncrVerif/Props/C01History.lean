import IncrVerif.Proofs.Quiet28
/-!
# C01/C02/C05/C06/C11 for whole histories of static programs

What `Props/C01Global.lean` lists as "not proved" — that states BUILT THROUGH THE API satisfy the quiescent
invariant, and `stabilise` with pending observers — is proved here for the static fragment.

FRAGMENT.  Programs whose API actions are (`Quiet.StaticAction env a`):
`create` of `const`, `var`, `map f args` (`f < fnPerKey`; a user function `f < fnZip` has no side effects:
`∀ vals, env.fnEff f vals = []`), `fold`, `zip`, with operands naming existing top-level nodes (`.outer k`);
`observe` (of a top-level node), `cloneObs`, `dropObs`, `disallow`; `set`, `modify`, `update`, `replace`,
`replaceWith`, `get`; `stabilise`, `isStable`, `stats`.  NOT in the fragment: bind, map_ref, map_with_old,
expert nodes, `dependOn`/custom cutoffs, memoised calls, subscriptions/handlers, effects, `dropVar`, `dropHandle`,
`dropAll`, `setMaxHeight`, faults (`arm`).  Nothing is assumed about `cfg.debug` or the height limit.

DEFINITIONS.
* `Quiet.AllStatic env s`, `Quiet.GInv env s op`, `Quiet.Struct env s`, `Quiet.VarsOK s` (`Proofs/Quiet1.lean`):
  the structural invariant, with a labelling `op` of the nodes as `.closed`, `.linking k` (inside
  `becameNecessary`, exactly the first `k` child edges recorded) or `.unlinking k` (inside `becameUnnecessary`,
  exactly the child edges from index `k` on still recorded); `Struct := GInv … (fun _ => .closed)`:
  every node valid/static/default cutoff/top-level/children created earlier; a recorded parent entry
  `(p, i) ∈ parents c` is a real child edge of a NECESSARY `p`, and every child edge of a necessary node is
  recorded (both directions, with indices); no duplicate parent entries; `height child < height parent` along
  recorded edges; necessary nodes have height `≥ 0`; the recompute heap is well-formed (`HeapWF`), lower bound
  `≥ 0` and below every queued node, a queued node sits in the bucket of its height, and the heap holds EXACTLY the
  necessary stale nodes.  (Unnecessary nodes have no recorded parents by definition of `isNecessary`.)
* `Quiet.ObsInv`/`ObsOK` (`Proofs/Quiet9.lean`): the observer list of a node = the in-use/disallowed observers of
  that node; created observers are in `newObservers`, disallowed ones exactly in `disallowedObservers`
  (no duplicates); no observer has update handlers.
* `Quiet.QInv env s` (the invariant between API actions, `Proofs/Quiet9.lean`): `Struct`, `VarsOK`, `ObsOK`, all
  node stamps from earlier rounds, `setAt ≤ stabNum`, EVERY non-stale node (necessary or not) is
  `Sched.Consistent` with its children, status `notStabilising`, engine alive, nothing deferred
  (`setDuringStab`, `deadVars`, `handleAfterStab`, `propagateInvalidity` empty, no update handlers), the naming
  table `top` names existing nodes.  `QInv.quiet : QInv env s → Sched.QuietInv env s`.
* `Quiet.runActions env acts s tokens`: fold of `stepAction`, stopping at the first panic.
* `Quiet.Stabilised env fuel s s'`, `Quiet.ReadsOK`, `Quiet.ObsSettled`, `Quiet.InCone` (below).

PROVED (for the model; partial correctness: each statement assumes that the call returns `(.ok _, s')`).
* G1 `becameNecessary_keeps`, `checkIfUnnecessary_keeps`: the two mutually recursive cascades keep the structural
  invariant (heights are computed bottom-up by the linking cascade; `adjustHeights` is never called in the
  fragment); `create_keeps`; `struct_graph`.
* G2 `stabilise_pending`: from `QInv` with ARBITRARY pending new/disallowed observers, a successful `stabilise`
  ends in `QInv` with both lists empty, variables unchanged, every necessary node non-stale and equal (stored
  value and observer read) to `Sched.eval`, created observers now in use, disallowed ones unlinked; the state in
  which `drainHeap` starts satisfies `Sched.DrainInv` (newly necessary nodes are stale hence queued; nodes that
  became unnecessary were removed from the heap), the drain runs no node twice and only nodes that are necessary.
  `stabilise_reads`: then every in-use observer `o` reads `tryGetValue = .ok v` with
  `eval env s' k (node of o) = some v`, and every observer is in use or unlinked.
* G3 `action_keeps`: every static API action that returns keeps `QInv`.
* G4 `init_inv`, `history_inv`, `history_every_state`, `history_every_stabilise`: every state reached from
  `State.init maxHeight debug` by a history of static actions satisfies `QInv`; at every `stabilise` of the history
  all conclusions of G2 hold; `necessary_iff_cone`: necessary ⟺ reachable through child edges from the node of a
  linked observer (C05's cone; after a `stabilise`: of an observer in use).
* Non-vacuity: the history `exHist` (var, var, map2, observe, stabilise, set, stabilise, disallow, stabilise) is
  static, runs, and its reads after the first two stabilises are `1 + 2` and `5 + 2`.

* TOTAL CORRECTNESS / C04 for the fragment (`Proofs/Quiet20.lean` … `Quiet28.lean`).  `Quiet.TInv N s`: closed
  necessary nodes have `height ≤ creation index + 1`, both heaps have `maxAllowed = N`, at most `N` nodes, every var
  cell is linked, `top` names every node, the pending new observers are duplicate-free and each still `created` or
  already `unlinked`.  `Quiet.ActionOK N s a`: the action names existing things (operands `< top.size`, observer
  `< observers.size` for dropObs/disallow, var `< vars.size`), a `create` leaves `nodes.size + 1 ≤ N`, a `stabilise`
  has `3 * nodes.size + 4 ≤ fuelDefault`.  `Quiet.ValidHist N nn nv no acts`: the same along a history, computed from
  the numbers of nodes/var cells/observers.
  `becameNecessary_returns`, `checkIfUnnecessary_returns`: the cascades return (no `assert!`/`debug_assert!` fails
  whatever `cfg.debug` is, the height limit is not hit, fuel `2n+2` resp. `3c+3` suffices);
  `stabilise_returns`; `action_returns` (every static action that is `ActionOK` returns and keeps `QInv`, `TInv`);
  `history_never_panics`: a valid history of static actions runs without panic from `State.init N debug`;
  `valid_history_stabilise`: hence at each of its `stabilise`s all conclusions of G2/G4 hold unconditionally.

ASSUMED / NOT PROVED.  The partial-correctness theorems (G1–G4) assume that the call returns; the total-correctness
theorems remove that assumption for valid histories (`ValidHist`: existing indices, at most `N = maxHeight` nodes,
`3 * nodes + 4 ≤ fuelDefault = 100000`).  Histories with dangling indices (a `set` on a var that does not exist, …)
panic in the model with a `model:` site and are outside `ValidHist`.  The fragment excludes everything listed above;
nothing is claimed for histories that leave it.
-/
namespace IncrVerif.Props.C01History
open IncrVerif.Engine IncrVerif.Driver IncrVerif.Proofs IncrVerif.Proofs.Sched IncrVerif.Proofs.Quiet

/-! ## G1: structure -/

/-- `Struct` and `VarsOK` give the structural hypotheses of the scheduling theorem. -/
theorem struct_graph {env : Env} {s : State} (S : Struct env s) (V : VarsOK s) :
    Graph env s ∧ HeapInv s ∧
      ∀ m, (s.nodeD m).inRch = true ↔ (s.isNecessary m = true ∧ s.isStale m = true) :=
  ⟨S.graph V, S.heapInv, S.queued_iff⟩

/-- the invariant between actions implies the quiescent invariant of `Props/C01Global.lean` -/
theorem inv_quiet {env : Env} {s : State} (Q : QInv env s) : QuietInv env s := Q.quiet

/-- **The linking cascade keeps the structure.** `n` has just become necessary (label `.linking 0`: no child
edge recorded yet), its recorded parents are all open, no open node is below it: a successful
`becameNecessary n` closes `n`; nodes with a larger index are untouched; parent lists only grew; necessary nodes
other than `n` kept their heights. -/
theorem becameNecessary_keeps {env : Env} {fuel n : Nat} {s s' : State} {op : Nat → Op}
    (h : (becameNecessary env fuel n).run.run s = (.ok (), s')) (I : GInv env s op)
    (hop : op n = .linking 0) (hlow : ∀ m, op m ≠ .closed → n ≤ m)
    (hpar : ∀ p i, (p, i) ∈ (s.nodeD n).parents → op p ≠ .closed) :
    GInv env s' (upd op n .closed) ∧ Above n s s' ∧ LRel (· = n) s s' :=
  becameNecessary_spec h I hop hlow hpar

/-- **The unlinking cascade keeps the structure.** `c` is closed and still necessary, or has just become
unnecessary (label `.unlinking 0`: all its child edges still recorded). -/
theorem checkIfUnnecessary_keeps {env : Env} {fuel c : Nat} {s s' : State} {op : Nat → Op}
    (h : (checkIfUnnecessary fuel c).run.run s = (.ok (), s')) (I : GInv env s op)
    (hlow : ∀ m, op m ≠ .closed → c ≤ m)
    (hcase : (s.isNecessary c = true ∧ op c = .closed) ∨ (s.isNecessary c = false ∧ op c = .unlinking 0)) :
    GInv env s' (upd op c .closed) ∧ Above c s s' ∧ URel s s' :=
  checkIfUnnecessary_spec h I hlow hcase

/-- the two loops at the start of `stabilise` -/
theorem addNewObservers_keeps {env : Env} {fuel : Nat} {s s' : State}
    (I : SInv env s s.newObservers s.disallowedObservers)
    (h : (addNewObservers env fuel).run.run s = (.ok (), s')) :
    SInv env s' [] s'.disallowedObservers ∧ s'.newObservers = [] ∧
      s'.disallowedObservers = s.disallowedObservers ∧ PFrame s s' ∧ ObsMap addedState s s' ∧
      (∀ m, s.isNecessary m = true → s'.isNecessary m = true) :=
  addNewObservers_s I h

theorem unlinkDisallowedObservers_keeps {env : Env} {fuel : Nat} {s s' : State}
    (I : SInv env s [] s.disallowedObservers) (hn : s.newObservers = [])
    (h : (unlinkDisallowedObservers fuel).run.run s = (.ok (), s')) :
    SInv env s' [] [] ∧ s'.newObservers = [] ∧ s'.disallowedObservers = [] ∧ PFrame s s' ∧
      ObsMap unlinkedState s s' :=
  unlinkDisallowedObservers_s I hn h

/-- node creation keeps the invariant -/
theorem create_keeps {env : Env} {s s' : State} {i : Instr} {tokens : Array Nat} {r : String × Array Nat}
    (Q : QInv env s) (hi : StaticInstr env i)
    (h : (stepAction env (.create i) tokens).run.run s = (.ok r, s')) : QInv env s' :=
  step_create Q hi h

/-- a write outside `stabilise` keeps the invariant -/
theorem writeVar_keeps {env : Env} {s s' : State} {v : Nat} {f : Val → Val} {isSet : Bool} {r : Val}
    (Q : QInv env s) (h : (writeVar v f isSet).run.run s = (.ok r, s')) :
    QInv env s' ∧ ∃ vc, s.vars[v]? = some vc ∧ r = vc.value ∧
      s'.vars[v]? = some { vc with value := f vc.value, setAt := s.stabNum } ∧
      (∀ w, w ≠ v → s'.vars[w]? = s.vars[w]?) :=
  writeVar_q Q h

/-! ## G2: `stabilise` with pending observers -/

/-- **G2.** See `Quiet.Stabilised` for the fields: `inv : QInv env s'`, `newObservers`/`disallowedObservers`
empty, `vars`, `stabNum`, `size`, `kind` unchanged resp. bumped, `obs : ObsMap stabilisedState s s'`
(created ↦ in use, disallowed ↦ unlinked), `values` (every necessary node: valid, not stale, stored value and
observer read `= eval env s' k n`, which exists), `drain` (the state in which `drainHeap` starts satisfies
`DrainInv`, has the final necessity, the initial variables; `drainTrace` has no duplicates, its nodes are
necessary and are stamped exactly in this round). -/
theorem stabilise_pending {env : Env} {fuel : Nat} {s s' : State} (Q : QInv env s)
    (h : (stabilise env fuel).run.run s = (.ok (), s')) : Stabilised env fuel s s' :=
  stabilise_q Q h

/-- after a `stabilise` every in-use observer reads the from-scratch value of its node; no observer is pending -/
theorem stabilise_reads {env : Env} {fuel : Nat} {s s' : State} (Q : QInv env s)
    (h : (stabilise env fuel).run.run s = (.ok (), s')) :
    (∀ (o : Nat) (ob : ObsRec), s'.observers[o]? = some ob → ob.state = .inUse →
      ∀ k, (s'.nodeD ob.node).height.toNat < k →
        ∃ v, s'.tryGetValue env o = .ok v ∧ eval env s' k ob.node = some v) ∧
    (∀ (o : Nat) (ob : ObsRec), s'.observers[o]? = some ob → ob.state = .inUse ∨ ob.state = .unlinked) :=
  stabilised_reads (stabilise_q Q h)

/-! ## G3: every static action keeps the invariant -/

theorem action_keeps {env : Env} {s s' : State} {a : Action} {tokens : Array Nat} {r : String × Array Nat}
    (Q : QInv env s) (ha : StaticAction env a)
    (h : (stepAction env a tokens).run.run s = (.ok r, s')) : QInv env s' :=
  step_q Q ha h

/-! ## G4: whole histories -/

theorem init_inv (env : Env) (maxHeight : Nat) (debug : Bool) : QInv env (State.init maxHeight debug) :=
  qinv_init env maxHeight debug

theorem history_inv {env : Env} {N : Nat} {d : Bool} {acts : List Action} {s : State} {tk : Array Nat}
    (ha : ∀ a, a ∈ acts → StaticAction env a)
    (h : runActions env acts (State.init N d) #[] = .ok (s, tk)) : QInv env s :=
  history_q ha h

/-- every state reached by a prefix of the history satisfies the invariant -/
theorem history_every_state {env : Env} {N : Nat} {d : Bool} {as bs : List Action} {s : State}
    {tk : Array Nat} (ha : ∀ a, a ∈ as ++ bs → StaticAction env a)
    (h : runActions env (as ++ bs) (State.init N d) #[] = .ok (s, tk)) :
    ∃ s1 tk1, runActions env as (State.init N d) #[] = .ok (s1, tk1) ∧ QInv env s1 ∧
      runActions env bs s1 tk1 = .ok (s, tk) :=
  history_prefix ha h

/-- at every `stabilise` of the history: G2, the reads, and the cone -/
theorem history_every_stabilise {env : Env} {N : Nat} {d : Bool} {as bs : List Action} {s : State}
    {tk : Array Nat} (ha : ∀ a, a ∈ as ++ Action.stabilise :: bs → StaticAction env a)
    (h : runActions env (as ++ Action.stabilise :: bs) (State.init N d) #[] = .ok (s, tk)) :
    ∃ s1 tk1 s2, runActions env as (State.init N d) #[] = .ok (s1, tk1) ∧ QInv env s1 ∧
      (stabilise env fuelDefault).run.run s1 = (.ok (), s2) ∧ Stabilised env fuelDefault s1 s2 ∧
      ReadsOK env s2 ∧ ObsSettled s2 ∧ (∀ n, s2.isNecessary n = true ↔ InCone s2 n) ∧
      runActions env bs s2 tk1 = .ok (s, tk) :=
  history_stabilise ha h

/-- **C05 cone.** necessary ⟺ reachable through child edges from the node of a linked observer -/
theorem necessary_iff_cone {env : Env} {s : State} (Q : QInv env s) (n : Nat) :
    s.isNecessary n = true ↔ InCone s n := Q.nec_iff_cone n

/-- in particular: a node function ran in a `stabilise` only if its node is in the cone of an observer that is
in use after the `stabilise` (and at most once) -/
theorem ran_only_in_cone {env : Env} {fuel : Nat} {s s' : State} (Q : QInv env s)
    (h : (stabilise env fuel).run.run s = (.ok (), s')) :
    ∃ t t3, DrainInv env t ∧ (drainHeap env fuel).run.run t = (.ok (), t3) ∧
      (drainTrace env fuel t).Nodup ∧
      ∀ m, m ∈ drainTrace env fuel t →
        ∃ (o : Nat) (ob : ObsRec), s'.observers[o]? = some ob ∧ ob.state = .inUse ∧ Reach s' ob.node m := by
  have R := stabilise_q Q h
  obtain ⟨t, t3, D, hd, -, -, -, -, hnd, hall⟩ := R.drain
  refine ⟨t, t3, D, hd, hnd, fun m hm => ?_⟩
  obtain ⟨o, ob, ho, hst, hr⟩ := (R.inv.nec_iff_cone m).1 (hall m hm).1
  rcases hst with hst | hst
  · exact ⟨o, ob, ho, hst, hr⟩
  · rcases (stabilised_reads R).2 o ob ho with h1 | h1 <;> rw [h1] at hst <;> cases hst

/-! ## total correctness: C04 for the fragment -/

/-- the linking cascade returns -/
theorem becameNecessary_returns {env : Env} {N fuel n : Nat} {s : State} {op : Nat → Op}
    (I : GInv env s op) (hb : HBo s op) (R : Room N s)
    (hop : op n = .linking 0) (hlow : ∀ m, op m ≠ .closed → n ≤ m)
    (hpar : ∀ p i, (p, i) ∈ (s.nodeD n).parents → op p ≠ .closed) (hf : 2 * n + 2 ≤ fuel) :
    Tot (becameNecessary env fuel n) s (fun _ s' => HBo s' (upd op n .closed)) :=
  becameNecessary_total I hb R hop hlow hpar hf

/-- the unlinking cascade returns -/
theorem checkIfUnnecessary_returns {env : Env} {fuel c : Nat} {s : State} {op : Nat → Op}
    (I : GInv env s op) (hb : HBo s op) (hlow : ∀ m, op m ≠ .closed → c ≤ m)
    (hcase : (s.isNecessary c = true ∧ op c = .closed) ∨ (s.isNecessary c = false ∧ op c = .unlinking 0))
    (hf : 3 * c + 3 ≤ fuel) :
    Tot (checkIfUnnecessary fuel c) s (fun _ s' => HBo s' (upd op c .closed)) :=
  checkIfUnnecessary_total I hb hlow hcase hf

/-- `stabilise` returns (pending observers allowed), and by `stabilise_pending` all of G2 holds for the result -/
theorem stabilise_returns {env : Env} {N fuel : Nat} {s : State} (Q : QInv env s) (T : TInv N s)
    (hf : 3 * s.nodes.size + 4 ≤ fuel) :
    ∃ s', (stabilise env fuel).run.run s = (.ok (), s') ∧ TInv N s' ∧ Stabilised env fuel s s' := by
  obtain ⟨_, s', h, T'⟩ := stabilise_total_q (env := env) Q T hf
  exact ⟨s', h, T', stabilise_q Q h⟩

/-- **G3, total.** Every static API action whose indices exist returns, and keeps both invariants. -/
theorem action_returns {env : Env} {N : Nat} {s : State} {a : Action} {tk : Array Nat}
    (Q : QInv env s) (T : TInv N s) (ha : StaticAction env a) (hok : ActionOK N s a) :
    ∃ r s', (stepAction env a tk).run.run s = (.ok r, s') ∧ r.2 = tk ∧ QInv env s' ∧ TInv N s' ∧
      Grown a s s' :=
  step_total Q T ha hok

theorem init_tinv (N : Nat) (d : Bool) : TInv N (State.init N d) := tinv_init N d

/-- **C04 for the fragment.** A valid history of static actions never panics. -/
theorem history_never_panics {env : Env} {N : Nat} {d : Bool} {acts : List Action}
    (ha : ∀ a, a ∈ acts → StaticAction env a) (hv : ValidHist N 0 0 0 acts) :
    ∃ s', runActions env acts (State.init N d) #[] = .ok (s', #[]) ∧ QInv env s' ∧ TInv N s' :=
  history_total ha hv

/-- hence, unconditionally: at every `stabilise` of a valid history of static actions, G2 and G4 hold -/
theorem valid_history_stabilise {env : Env} {N : Nat} {d : Bool} {as bs : List Action}
    (ha : ∀ a, a ∈ as ++ Action.stabilise :: bs → StaticAction env a)
    (hv : ValidHist N 0 0 0 (as ++ Action.stabilise :: bs)) :
    ∃ s1 tk1 s2 s, runActions env as (State.init N d) #[] = .ok (s1, tk1) ∧ QInv env s1 ∧
      (stabilise env fuelDefault).run.run s1 = (.ok (), s2) ∧ Stabilised env fuelDefault s1 s2 ∧
      ReadsOK env s2 ∧ ObsSettled s2 ∧ (∀ n, s2.isNecessary n = true ↔ InCone s2 n) ∧
      runActions env bs s2 tk1 = .ok (s, #[]) ∧ QInv env s := by
  obtain ⟨s, h, Q, -⟩ := history_total (env := env) (d := d) ha hv
  obtain ⟨s1, tk1, s2, h1, Q1, h2, R, h3, h4, h5, h6⟩ := history_stabilise ha h
  exact ⟨s1, tk1, s2, s, h1, Q1, h2, R, h3, h4, h5, h6, Q⟩

/-! ## non-vacuity -/

/-- var, var, map2, observe, stabilise, set, stabilise, disallow, stabilise -/
def exHist : List Action :=
  [.create (.var (.int 1)), .create (.var (.int 2)), .create (.map 0 [.outer 0, .outer 1]),
   .observe (.outer 2), .stabilise, .set 0 (.int 5), .stabilise, .disallow 0, .stabilise]

theorem exHist_static : ∀ a, a ∈ exHist → StaticAction Step.exEnv a := by
  intro a ha
  simp only [exHist, List.mem_cons, List.mem_nil_iff, or_false] at ha
  rcases ha with rfl | rfl | rfl | rfl | rfl | rfl | rfl | rfl | rfl
  all_goals first
    | trivial
    | (refine ⟨by decide, fun _ _ => rfl, ?_⟩
       intro a ha
       simp only [List.mem_cons, List.mem_nil_iff, or_false] at ha
       rcases ha with rfl | rfl <;> trivial)

theorem exHist_valid : ValidHist 128 0 0 0 exHist := by
  simp only [exHist, ValidHist, ActionOKc, grow, fuelDefault]
  refine ⟨⟨trivial, by decide⟩, ⟨trivial, by decide⟩, ⟨?_, by decide⟩, ⟨2, rfl, by decide⟩, by decide, by decide,
    by decide, by decide, by decide, trivial⟩
  intro a ha
  simp only [List.mem_cons, List.mem_nil_iff, or_false] at ha
  rcases ha with rfl | rfl
  · exact ⟨0, rfl, by decide⟩
  · exact ⟨1, rfl, by decide⟩

/-- the example history is valid, so it never panics (proved, not computed) and `valid_history_stabilise` applies -/
example : ∃ s', runActions Step.exEnv exHist (State.init 128 true) #[] = .ok (s', #[]) ∧
    QInv Step.exEnv s' ∧ TInv 128 s' :=
  history_never_panics exHist_static exHist_valid

/-- did the history run? -/
def ranOk (env : Env) (acts : List Action) : Bool :=
  match runActions env acts (State.init 128 true) #[] with
  | .ok _ => true
  | .error _ => false

/-- what observer `o` reads after the history -/
def readAfter (env : Env) (acts : List Action) (o : Nat) : Option Val :=
  match runActions env acts (State.init 128 true) #[] with
  | .ok (s, _) => match s.tryGetValue env o with | .ok v => some v | .error _ => none
  | .error _ => none

theorem ranOk_iff {env : Env} {acts : List Action} (h : ranOk env acts = true) :
    ∃ s tk, runActions env acts (State.init 128 true) #[] = .ok (s, tk) := by
  unfold ranOk at h
  rcases hx : runActions env acts (State.init 128 true) #[] with e | ⟨s, tk⟩
  · rw [hx] at h; cases h
  · exact ⟨s, tk, rfl⟩

set_option maxRecDepth 100000 in
/-- the example history runs (so `history_every_stabilise` applies to each of its three `stabilise`s) and the
final state satisfies the invariant -/
example : ∃ s tk, runActions Step.exEnv exHist (State.init 128 true) #[] = .ok (s, tk) ∧ QInv Step.exEnv s := by
  obtain ⟨s, tk, h⟩ := ranOk_iff (env := Step.exEnv) (acts := exHist) (by decide +kernel)
  exact ⟨s, tk, h, history_inv exHist_static h⟩

set_option maxRecDepth 100000 in
/-- the reads after the first and the second `stabilise`, and after the observer was disallowed and unlinked -/
example : readAfter Step.exEnv (exHist.take 5) 0 = some (.int 3) ∧
    readAfter Step.exEnv (exHist.take 7) 0 = some (.int 7) ∧
    readAfter Step.exEnv exHist 0 = none :=
  ⟨by decide +kernel, by decide +kernel, by decide +kernel⟩

end IncrVerif.Props.C01History
