import IncrVerif.Proofs.Necessity
/-!
# C05 — only nodes needed by a live observer are ever computed (and the edge part of C11)

The invariant `NecWF s` (`Proofs/Necessity.lean`):
* `e1` every recorded parent edge `(p, i) ∈ (s.nodeD c).parents` is a real edge: `p`, `c` name nodes and
  `(s.children p)[i]? = some c` (so `p` is valid: invalid nodes have no children);
* `e2` every recorded parent is necessary;
* `e3` a node whose recompute-heap marker is set (`(s.nodeD n).inRch`) is necessary and valid — with `HeapWF s`
  this is "every node in a bucket of the recompute heap is necessary and valid" (`NecWF.queued`);
* `e4` no parent edge is recorded twice;
* `kinds` the record tables agree with the node kinds (`KindOK (viewOf s)`: a bind-main / expert kind names an
  existing record, at most one node names a given record, the `main` field of a bind record is the bind-main
  node of that bind, bind-lhs-change kinds name existing records).
The full edge symmetry ("a necessary valid node is recorded by each of its children") is NOT part of it.

## PROVED HERE (all for `cfg.debug = true`; "ok" = the normal outcome of the call)
* `necwf_init`: the initial state satisfies `NecWF`.
* `NecWF` is preserved by the normal outcome of `stabilise`, `writeVar`, `subscribe`, `unsubscribe`,
  `disallowFutureUse`, `elabInstr [] v i`, `expertAddDependency`, `expertRemoveDependency`
  (`stabilise_ok`, …).  Behind these: one specification for EVERY function of `Engine/{Core,Expert,Recompute}`
  reachable from them (all cascades, `invalidateNode`, `propagateInvalidity`, `adjustHeights`,
  `changeChildBindRhs`, the expert API, node creation incl. `createBind`/`memoCall`/`perKey`/`mapOp`,
  `runEffects`, `perKeyDriver`, `recomputeOne`, `recompute`, `drainHeap`, `addNewObservers`,
  `unlinkDisallowedObservers`, `runAll`, `stabiliseEnd`), see `Proofs/Necessity.lean`.
* C05 proper: `popped_is_necessary` (a), `chain_is_necessary` (b), `stabiliseChecked_eq` (c: `stabilise` equals
  its copy that checks "necessary and valid" in front of every `recomputeOne`), `no_observers_no_work` (d).
* a non-vacuity example for each theorem on a concrete history (var, map, observer, two stabilisations).

## NOT PROVED HERE
* The PANIC outcome.  After a panic the invariant can really be broken: a panic in the middle of
  `becameUnnecessary` (e.g. `outOfFuel`, or a failing heap operation) leaves a node unnecessary while its
  children still record it (`e2`) and while it is still queued (`e3`).  All preservation statements are for
  the normal outcome only (hence the suffix `_ok`).
* Release builds (`cfg.debug = false`): not attempted.  The proofs use the debug assertions of `rchInsert`
  (`needs_to_be_computed`: the inserted node is necessary and valid) and of `add_parent`/`state_add_parent`
  (`the parent is necessary`); the model lets a `.abs` operand make the lhs-change node of a bind necessary
  without its bind-main node, so in release mode `e2` is not expected to be inductive for the MODEL (the Rust
  API never exposes lhs-change nodes).
* `setMaxHeightAllowed` (does not touch what the invariant reads; not stated), edge symmetry (E5), heights.
-/
namespace IncrVerif.Props.C05
open IncrVerif.Engine IncrVerif.Proofs IncrVerif.Proofs.Nec Std.Do

/-! ## 1–2: the invariant holds initially and is kept by every API entry point (normal outcome) -/

/-- The initial state satisfies the necessity / edge invariant. -/
theorem necwf_init (maxHeight : Nat) (debug : Bool) : NecWF (State.init maxHeight debug) :=
  Nec.necwf_init maxHeight debug

/-- If `stabilise` returns normally from a state satisfying the invariant (debug assertions on), the final
state satisfies it too. -/
theorem stabilise_ok (env : Env) (fuel : Nat) (s s' : State) (hN : NecWF s) (hd : s.cfg.debug = true)
    (hr : (stabilise env fuel).run.run s = (.ok (), s')) : NecWF s' ∧ s'.cfg.debug = true :=
  Nec.stabilise_ok env fuel s s' hN hd hr

/-- A var write (`set`, `update`, `modify`, `replace`, `replace_with`) that returns normally keeps the
invariant. -/
theorem writeVar_ok (x : Nat) (f : Val → Val) (isSet : Bool) (s s' : State) (a : Val) (hN : NecWF s)
    (hd : s.cfg.debug = true) (hr : (writeVar x f isSet).run.run s = (.ok a, s')) :
    NecWF s' ∧ s'.cfg.debug = true :=
  Nec.writeVar_ok x f isSet s s' a hN hd hr

/-- `subscribe` keeps the invariant. -/
theorem subscribe_ok (o hid : Nat) (s s' : State) (a : Except ObsError Nat) (hN : NecWF s)
    (hd : s.cfg.debug = true) (hr : (subscribe o hid).run.run s = (.ok a, s')) :
    NecWF s' ∧ s'.cfg.debug = true :=
  Nec.subscribe_ok o hid s s' a hN hd hr

/-- `unsubscribe` keeps the invariant. -/
theorem unsubscribe_ok (o token owner : Nat) (s s' : State) (a : Except ObsError Unit) (hN : NecWF s)
    (hd : s.cfg.debug = true) (hr : (unsubscribe o token owner).run.run s = (.ok a, s')) :
    NecWF s' ∧ s'.cfg.debug = true :=
  Nec.unsubscribe_ok o token owner s s' a hN hd hr

/-- `disallowFutureUse` (dropping an observer) keeps the invariant; the observer is unlinked, and its node
possibly made unnecessary, only by the next `stabilise`. -/
theorem disallowFutureUse_ok (o : Nat) (s s' : State) (hN : NecWF s)
    (hd : s.cfg.debug = true) (hr : (disallowFutureUse o).run.run s = (.ok (), s')) :
    NecWF s' ∧ s'.cfg.debug = true :=
  Nec.disallowFutureUse_ok o s s' hN hd hr

/-- Creating nodes with a top-level instruction keeps the invariant. -/
theorem elabInstr_ok (lv : Val) (i : Instr) (s s' : State) (a : Option Nat) (hN : NecWF s)
    (hd : s.cfg.debug = true) (hr : (elabInstr [] lv i).run.run s = (.ok a, s')) :
    NecWF s' ∧ s'.cfg.debug = true :=
  Nec.elabInstr_ok lv i s s' a hN hd hr

/-- `expertAddDependency` keeps the invariant. -/
theorem expertAddDependency_ok (env : Env) (fuel n child : Nat) (cb : Bool) (s s' : State) (a : Nat)
    (hN : NecWF s) (hd : s.cfg.debug = true)
    (hr : (expertAddDependency env fuel n child cb).run.run s = (.ok a, s')) :
    NecWF s' ∧ s'.cfg.debug = true :=
  Nec.expertAddDependency_ok env fuel n child cb s s' a hN hd hr

/-- `expertRemoveDependency` keeps the invariant. -/
theorem expertRemoveDependency_ok (fuel n dep : Nat) (s s' : State) (hN : NecWF s)
    (hd : s.cfg.debug = true) (hr : (expertRemoveDependency fuel n dep).run.run s = (.ok (), s')) :
    NecWF s' ∧ s'.cfg.debug = true :=
  Nec.expertRemoveDependency_ok fuel n dep s s' hN hd hr

/-! ## 3: only necessary nodes are computed -/

/-- **(a)** In a state that satisfies the invariant and whose recompute heap is well-formed, the node that
`remove_min` hands to `recompute` is necessary and valid. -/
theorem popped_is_necessary (s s' : State) (n : Nat) (hN : NecWF s) (hH : HeapWF s)
    (hr : rchRemoveMin.run.run s = (.ok (some n), s')) :
    s.isNecessary n = true ∧ (s.nodeD n).valid = true :=
  Nec.popped_is_necessary s s' n hN hH hr

/-- … and it still is in the state after the pop (which only clears the node's queue marker). -/
theorem popped_is_necessary' (s s' : State) (n : Nat) (hN : NecWF s) (hH : HeapWF s)
    (hr : rchRemoveMin.run.run s = (.ok (some n), s')) :
    s'.isNecessary n = true ∧ (s'.nodeD n).valid = true :=
  Nec.popped_is_necessary' s s' n hN hH hr

/-- **(b)** If `recomputeOne`, run from a state satisfying the invariant, hands back a parent `p` for direct
recomputation (the node `recompute` runs next), then the invariant holds in the resulting state and `p` is
necessary and valid there. -/
theorem chain_is_necessary (env : Env) (fuel n p : Nat) (s s' : State) (hN : NecWF s)
    (hd : s.cfg.debug = true) (hr : (recomputeOne env fuel n).run.run s = (.ok (some p), s')) :
    NecWF s' ∧ s'.cfg.debug = true ∧ s'.isNecessary p = true ∧ (s'.nodeD p).valid = true :=
  Nec.chain_is_necessary env fuel n p s s' hN hd hr

/-- **(c)** Every call of `recomputeOne` made by `stabilise` has a necessary, valid argument:
`stabiliseChecked` (`Proofs/Necessity.lean`) is `stabilise` with the ghost check
`assertM (s.isNecessary n && (s.nodeD n).valid) "C05:recompute-of-unnecessary-node"` in front of every call of
`recomputeOne` (in `recomputeChecked`, used by `drainHeapChecked`); from a state satisfying the invariant, with
a well-formed heap and debug assertions on, the two have the same outcome and final state — the check never
fires. -/
theorem stabiliseChecked_eq (env : Env) (fuel : Nat) (s : State) (hN : NecWF s) (hH : HeapWF s)
    (hd : s.cfg.debug = true) :
    (stabiliseChecked env fuel).run.run s = (stabilise env fuel).run.run s :=
  Nec.stabiliseChecked_eq env fuel s hN hH hd

/-- **(d)** If no node is necessary (in particular: no observer is in use and none is new), then in a state
satisfying the invariant with a well-formed heap the recompute heap is empty and `drainHeap` returns at once,
leaving the state untouched: nothing is computed. -/
theorem no_observers_no_work (env : Env) (fuel : Nat) (s : State) (hN : NecWF s) (hH : HeapWF s)
    (hnone : ∀ n, s.isNecessary n = false) :
    s.rch.length = 0 ∧ (drainHeap env (fuel + 1)).run.run s = (.ok (), s) :=
  Nec.no_observers_no_work env fuel s hN hH hnone

/-! ## non-vacuity: a concrete history (a var, a map over it, an observer on the map) -/

/-- user functions of the examples: every function is "+ 1" on the integer view, no effects -/
def exEnv : Env :=
  { cexEnv with fn := fun _ vs => .int ((vs.headD .unit).toInt + 1), fnEff := fun _ _ => [] }

def s0 : State := State.init 4 true
/-- node 0: a var -/
def s1 : State := ((elabInstr [] .unit (.var (.int 1))).run.run s0).2
/-- node 1: a map over node 0 -/
def s2 : State := ((elabInstr [] .unit (.map 0 [.abs 0])).run.run s1).2
/-- a new observer on node 1 -/
def s3 : State := { s2 with observers := #[{ node := 1 }], newObservers := [0] }
/-- after the first stabilisation -/
def s4 : State := ((stabilise exEnv 20).run.run s3).2
/-- after a write to the var -/
def s5 : State := ((writeVar 0 (fun _ => .int 7)).run.run s4).2
/-- inside the next stabilisation, after the var node has been popped -/
def s6 : State := (rchRemoveMin.run.run { s5 with status := .stabilising }).2

theorem run_s1 : (elabInstr [] .unit (.var (.int 1))).run.run s0 = (.ok (some 0), s1) :=
  run_ok_of _ _ _ (by decide +kernel)
theorem run_s2 : (elabInstr [] .unit (.map 0 [.abs 0])).run.run s1 = (.ok (some 1), s2) :=
  run_ok_of _ _ _ (by decide +kernel)
theorem run_s4 : (stabilise exEnv 20).run.run s3 = (.ok (), s4) :=
  run_ok_of _ _ _ (by decide +kernel)
theorem run_s5 : (writeVar 0 (fun _ => .int 7)).run.run s4 = (.ok (.int 1), s5) :=
  run_ok_of _ _ _ (by decide +kernel)
theorem run_s6 : rchRemoveMin.run.run { s5 with status := .stabilising } = (.ok (some 0), s6) :=
  run_ok_of _ _ _ (by decide +kernel)
theorem run_s7 : (recomputeOne exEnv 20 0).run.run s6 = (.ok (some 1), ((recomputeOne exEnv 20 0).run.run s6).2) :=
  run_ok_of _ _ _ (by decide +kernel)


theorem good_s0 : Good s0 := ⟨necwf_init 4 true, heapWF_init 4 true, rfl⟩
theorem good_s1 : Good s1 :=
  good_of_run good_s0 (elabInstr_ok _ _ _ _ _ good_s0.1 good_s0.2.2 run_s1) (elabInstr_spec .debug _ _ _) run_s1
theorem good_s2 : Good s2 :=
  good_of_run good_s1 (elabInstr_ok _ _ _ _ _ good_s1.1 good_s1.2.2 run_s2) (elabInstr_spec .debug _ _ _) run_s2
theorem good_s3 : Good s3 := good_s2.withObservers _ _
theorem good_s4 : Good s4 :=
  good_of_run good_s3 (stabilise_ok _ _ _ _ good_s3.1 good_s3.2.2 run_s4) (stabilise_spec _ _) run_s4
theorem good_s5 : Good s5 :=
  good_of_run good_s4 (writeVar_ok _ _ _ _ _ _ good_s4.1 good_s4.2.2 run_s5) (writeVar_spec .debug _ _ _) run_s5
theorem good_s5' : Good { s5 with status := .stabilising } := good_s5.withStatus _
theorem good_s6 : Good s6 := good_s5'.step rchRemoveMin_np (rchRemoveMin_spec .debug) run_s6

/-- `necwf_init`, `elabInstr_ok`: the two-node graph satisfies the invariant -/
example : NecWF s0 ∧ NecWF s2 := ⟨necwf_init 4 true, good_s2.1⟩

/-- `stabilise_ok`: the first stabilisation returns normally, keeps the invariant, and has made the observed
node and its input necessary (their values are 2 and 1) -/
example : NecWF s4 ∧ s4.isNecessary 1 = true ∧ s4.isNecessary 0 = true ∧
    (s4.nodes.map (·.value)) = #[some (.int 1), some (.int 2)] :=
  ⟨(stabilise_ok exEnv 20 s3 s4 good_s3.1 good_s3.2.2 run_s4).1, by decide +kernel, by decide +kernel,
    by decide +kernel⟩

/-- `writeVar_ok`: the write returns normally and queues the var node -/
example : NecWF s5 ∧ s5.rch.queues = #[[], [0], [], [], []] :=
  ⟨(writeVar_ok 0 _ false s4 s5 _ good_s4.1 good_s4.2.2 run_s5).1, by decide +kernel⟩

/-- `popped_is_necessary`: the node popped at the start of the second stabilisation (the var) is necessary -/
example : ({ s5 with status := .stabilising } : State).isNecessary 0 = true ∧
    (({ s5 with status := .stabilising } : State).nodeD 0).valid = true :=
  popped_is_necessary _ s6 0 good_s5'.1 good_s5'.2.1 run_s6

/-- `chain_is_necessary`: recomputing the var hands back its parent, the map node 1, which is necessary -/
example : ∃ s7, (recomputeOne exEnv 20 0).run.run s6 = (.ok (some 1), s7) ∧ NecWF s7 ∧
    s7.isNecessary 1 = true ∧ (s7.nodeD 1).valid = true :=
  ⟨_, run_s7, (chain_is_necessary exEnv 20 0 1 s6 _ good_s6.1 good_s6.2.2 run_s7).1,
    (chain_is_necessary exEnv 20 0 1 s6 _ good_s6.1 good_s6.2.2 run_s7).2.2⟩

/-- `stabiliseChecked_eq`: the second stabilisation with the ghost check returns normally (so the check did
not fire) and computes the new values 7 and 8 -/
example : (stabiliseChecked exEnv 20).run.run s5 = (stabilise exEnv 20).run.run s5 ∧
    (((stabilise exEnv 20).run.run s5).2.nodes.map (·.value)) = #[some (.int 7), some (.int 8)] ∧
    (match ((stabilise exEnv 20).run.run s5).1 with | .ok _ => true | .error _ => false) = true :=
  ⟨stabiliseChecked_eq exEnv 20 s5 good_s5.1 good_s5.2.1 good_s5.2.2, by decide +kernel, by decide +kernel⟩

theorem s2_none_necessary : ∀ n, s2.isNecessary n = false := by
  intro n
  match n with
  | 0 => decide +kernel
  | 1 => decide +kernel
  | n + 2 =>
    have hsz : s2.nodes.size = 2 := by decide +kernel
    show (s2.nodeD (n + 2)).isNecessary = false
    rw [nodeD_of_le s2 (n + 2) (by omega)]
    rfl

/-- `no_observers_no_work`: before an observer exists nothing is necessary, the heap is empty, `drainHeap`
does nothing -/
example : s2.rch.length = 0 ∧ (drainHeap exEnv 10).run.run s2 = (.ok (), s2) :=
  no_observers_no_work exEnv 9 s2 good_s2.1 good_s2.2.1 s2_none_necessary


deriving instance DecidableEq for Except

/-- `subscribe_ok`, `unsubscribe_ok`, `disallowFutureUse_ok` on the observer of the example -/
example : ∃ s', (subscribe 0 0).run.run s4 = (.ok (.ok 0), s') ∧ NecWF s' :=
  ⟨_, run_ok_of _ _ _ (by decide +kernel),
    (subscribe_ok 0 0 s4 _ _ good_s4.1 good_s4.2.2 (run_ok_of _ _ (.ok 0) (by decide +kernel))).1⟩

example : ∃ s', (unsubscribe 0 0 0).run.run s4 = (.ok (.ok ()), s') ∧ NecWF s' :=
  ⟨_, run_ok_of _ _ _ (by decide +kernel),
    (unsubscribe_ok 0 0 0 s4 _ _ good_s4.1 good_s4.2.2 (run_ok_of _ _ (.ok ()) (by decide +kernel))).1⟩

example : ∃ s', (disallowFutureUse 0).run.run s4 = (.ok (), s') ∧ NecWF s' :=
  ⟨_, run_ok_of _ _ _ (by decide +kernel),
    (disallowFutureUse_ok 0 s4 _ good_s4.1 good_s4.2.2 (run_ok_of _ _ _ (by decide +kernel))).1⟩

/-- an expert node 2 next to the graph of the example -/
def sE : State := ((elabInstr [] .unit (.expert 0)).run.run s4).2
theorem run_sE : (elabInstr [] .unit (.expert 0)).run.run s4 = (.ok (some 2), sE) :=
  run_ok_of _ _ _ (by decide +kernel)
theorem good_sE : Good sE :=
  good_of_run good_s4 (elabInstr_ok _ _ _ _ _ good_s4.1 good_s4.2.2 run_sE) (elabInstr_spec .debug _ _ _) run_sE

/-- `expertAddDependency_ok`: the expert node gets the var as a dependency -/
example : ∃ s', (expertAddDependency exEnv 20 2 0 false).run.run sE = (.ok 0, s') ∧ NecWF s' ∧
    s'.children 2 = [0] :=
  ⟨_, run_ok_of _ _ _ (by decide +kernel),
    (expertAddDependency_ok exEnv 20 2 0 false sE _ _ good_sE.1 good_sE.2.2
      (run_ok_of _ _ 0 (by decide +kernel))).1, by decide +kernel⟩

end IncrVerif.Props.C05
