import IncrVerif.Proofs.Necessity
/-!
# C05 — only nodes needed by a live observer are ever computed (and the edge part of C11)

The invariant `NecWF s` (`Proofs/Necessity.lean`):
* `e1` every recorded parent edge `(p, i) ∈ (s.nodeD c).parents` is a real edge: `p`, `c` name nodes and
  `(s.children p)[i]? = some c` (so `p` is valid: invalid nodes have no children);
* `e2` every recorded parent is necessary;
* `e3` a node whose recompute-heap marker is set (`(s.nodeD n).inRch`) is necessary and valid — with `HeapWF s`
  this is "every node in a bucket of the recompute heap is necessary and valid" (`NecWF.queued`);
* `e4` no parent edge is recorded twice;
* `kinds` the record tables agree with the node kinds (`KindOK (viewOf s)`: a bind-main / expert kind names an
  existing record, at most one node names a given record, the `main` field of a bind record is the bind-main
  node of that bind, bind-lhs-change kinds name existing records).
The full edge symmetry ("a necessary valid node is recorded by each of its children") is NOT part of it.

## PROVED HERE (all for `cfg.debug = true`; "ok" = the normal outcome of the call)
* `necwf_init`: the initial state satisfies `NecWF`.
* `NecWF` is preserved by the normal outcome of `stabilise`, `writeVar`, `subscribe`, `unsubscribe`,
  `disallowFutureUse`, `elabInstr [] v i`, `expertAddDependency`, `expertRemoveDependency`
  (`stabilise_ok`, …).  Behind these: one specification for EVERY function of `Engine/{Core,Expert,Recompute}`
  reachable from them (all cascades, `invalidateNode`, `propagateInvalidity`, `adjustHeights`,
  `changeChildBindRhs`, the expert API, node creation incl. `createBind`/`memoCall`/`perKey`/`mapOp`,
  `runEffects`, `perKeyDriver`, `recomputeOne`, `recompute`, `drainHeap`, `addNewObservers`,
  `unlinkDisallowedObservers`, `runAll`, `stabiliseEnd`), see `Proofs/Necessity.lean`.
* C05 proper: `popped_is_necessary` (a), `chain_is_necessary` (b), `stabiliseChecked_eq` (c: `stabilise` equals
  its copy that checks "necessary and valid" in front of every `recomputeOne`), `no_observers_no_work` (d).
* a non-vacuity example for each theorem on a concrete history (var, map, observer, two stabilisations).

## NOT PROVED HERE
* The PANIC outcome.  After a panic the invariant can really be broken: a panic in the middle of
  `becameUnnecessary` (e.g. `outOfFuel`, or a failing heap operation) leaves a node unnecessary while its
  children still record it (`e2`) and while it is still queued (`e3`).  All preservation statements are for
  the normal outcome only (hence the suffix `_ok`).
* Release builds (`cfg.debug = false`): the proofs use the debug assertions of `rchInsert`
  (`needs_to_be_computed`) and of `add_parent`/`state_add_parent` (`parent is necessary`); without them `e2`/`e3`
  are not inductive for the model (a `.abs` operand can make the lhs-change node of a bind necessary while its
  bind-main node is not).
* `setMaxHeightAllowed` (does not touch what the invariant reads; not stated), edge symmetry (E5), heights.
-/
namespace IncrVerif.Props.C05
open IncrVerif.Engine IncrVerif.Proofs IncrVerif.Proofs.Nec Std.Do

set_option mvcgen.warning false

theorem popped_mem (s0 : State) :
    ⦃fun s => ⌜s = s0⌝⦄ rchRemoveMin
    ⦃post⟨fun r _ => ⌜∀ n, r = some n → ∃ (k : Nat) (hk : k < s0.rch.queues.size), n ∈ s0.rch.queues[k]⌝,
      fun _ _ => ⌜True⌝⟩⦄ := by
  nv_mvcgen [-rchRemoveMin_v, rchRemoveMin, -dassert_v, dassert, -modNode_v, modNode]
  all_goals first
    | (intro n hn; cases hn; done)
    | skip
  rename_i s h _ _ lb n rest hq _ _
  intro m hm
  cases hm
  subst h
  have hlt : lb < s.rch.queues.size := (Array.getElem?_eq_some_iff.1 hq).1
  have hqe : s.rch.queues[lb] = n :: rest := (Array.getElem?_eq_some_iff.1 hq).2
  exact ⟨lb, hlt, by rw [hqe]; simp⟩


/-- plain form: the popped node sat in a bucket of the heap -/
theorem popped_in_heap (s s' : State) (n : Nat) (hr : rchRemoveMin.run.run s = (.ok (some n), s')) :
    ∃ (k : Nat) (hk : k < s.rch.queues.size), n ∈ s.rch.queues[k] := by
  have := (triple_iff rchRemoveMin _ _ _).1 (popped_mem s) s rfl
  rw [hr] at this
  exact this n rfl

/-- **C05 (a)**: in a state that satisfies the necessity invariant and whose recompute heap is well-formed, the
node `remove_min` hands to `recompute` is necessary and valid. -/
theorem popped_is_necessary (s s' : State) (n : Nat) (hN : NecWF s) (hH : HeapWF s)
    (hr : rchRemoveMin.run.run s = (.ok (some n), s')) :
    s.isNecessary n = true ∧ (s.nodeD n).valid = true := by
  obtain ⟨k, hk, hn⟩ := popped_in_heap s s' n hr
  exact hN.queued hH k hk n hn

/-- … and it still is after the pop (the pop only clears its queue marker) -/
theorem popped_is_necessary' (s s' : State) (n : Nat) (hN : NecWF s) (hH : HeapWF s)
    (hr : rchRemoveMin.run.run s = (.ok (some n), s')) :
    s'.isNecessary n = true ∧ (s'.nodeD n).valid = true := by
  obtain ⟨h1, h2⟩ := popped_is_necessary s s' n hN hH hr
  have hv := run_of_triple (R := fun r v v' => match r with
      | none => v' = v
      | some n => v' = v.setInRch n false) (fun v => rchRemoveMin_v v) s s' (some n) hr
  simp only at hv
  have e : (viewOf s').rn n = { (viewOf s).rn n with inRch := false } := by
    rw [hv]; simp [View.setInRch, View.setRn]
  constructor
  · rw [← viewOf_nec, e]; rw [← viewOf_nec] at h1; exact h1
  · rw [← viewOf_valid, e]; exact h2

/-- **C05 (b)**: if `recomputeOne` is run from a state satisfying the invariant and hands back a parent `p` for
direct recomputation, the invariant holds afterwards and `p` is necessary and valid. -/
theorem chain_is_necessary (env : Env) (fuel n p : Nat) (s s' : State) (hN : NecWF s)
    (hd : s.cfg.debug = true) (hr : (recomputeOne env fuel n).run.run s = (.ok (some p), s')) :
    NecWF s' ∧ s'.cfg.debug = true ∧ s'.isNecessary p = true ∧ (s'.nodeD p).valid = true := by
  have h := run_of_triple (R := fun r v v' => RPost r v v') (fun v => recomputeOne_v v env fuel n) s s' _ hr
    (necV_of_necWF hN hd)
  obtain ⟨h1, h2⟩ := h
  obtain ⟨g1, g2⟩ := necWF_of_necV h1
  obtain ⟨g3, g4⟩ := h2 p rfl
  exact ⟨g1, g2, by rw [← viewOf_nec]; exact g3, g4⟩


/-! ## (c) every node `stabilise` recomputes is necessary: ghost-instrumented copies -/

/-- ghost check: the node about to be recomputed is necessary and valid -/
def assertNec (n : Nat) : M Unit := do
  let s ← get
  assertM (s.isNecessary n && (s.nodeD n).valid) "C05:recompute-of-unnecessary-node"

/-- `recompute` with the ghost check in front of every `recomputeOne` -/
def recomputeChecked (env : Env) : Nat → Nat → M Unit
  | 0, _ => throw .outOfFuel
  | fuel+1, n => do
    assertNec n
    match ← recomputeOne env fuel n with
    | none => pure ()
    | some p => recomputeChecked env fuel p

/-- `drainHeap` on top of `recomputeChecked` -/
def drainHeapChecked (env : Env) : Nat → M Unit
  | 0 => throw .outOfFuel
  | fuel+1 => do
    match ← rchRemoveMin with
    | none => pure ()
    | some n =>
      recomputeChecked env fuel n
      drainHeapChecked env fuel

/-- `stabilise` on top of `drainHeapChecked` -/
def stabiliseChecked (env : Env) (fuel : Nat) : M Unit := do
  assertM ((← get).status == .notStabilising) "state:stabilise:status"
  modify fun s => { s with status := .stabilising }
  addNewObservers env fuel
  unlinkDisallowedObservers fuel
  drainHeapChecked env fuel
  stabiliseEnd env fuel

theorem run_assertNec (n : Nat) (s : State) (h1 : s.isNecessary n = true) (h2 : (s.nodeD n).valid = true) :
    (assertNec n).run.run s = (.ok (), s) := by
  simp [assertNec, run_bind, run_get, run_assertM, h1, h2]

theorem recomputeChecked_eq (env : Env) (fuel : Nat) : ∀ (n : Nat) (s : State), NecWF s → s.cfg.debug = true →
    s.isNecessary n = true → (s.nodeD n).valid = true →
    (recomputeChecked env fuel n).run.run s = (recompute env fuel n).run.run s := by
  induction fuel with
  | zero => intros; rfl
  | succ fuel ih =>
    intro n s hN hd h1 h2
    simp only [recomputeChecked, recompute, run_bind, run_assertNec n s h1 h2]
    rcases hr : (recomputeOne env fuel n).run.run s with ⟨r, s'⟩
    cases r with
    | error e => rfl
    | ok o =>
      cases o with
      | none => rfl
      | some p =>
        obtain ⟨g1, g2, g3, g4⟩ := chain_is_necessary env fuel n p s s' hN hd hr
        exact ih p s' g1 g2 g3 g4


/-- what the drain loop needs of a state: the invariant, a well-formed heap, debug assertions on -/
def Good (s : State) : Prop := NecWF s ∧ HeapWF s ∧ s.cfg.debug = true

theorem Good.step {α} {x : M α} (hn : ∀ v, NP v x) (hh : Pres .debug x) {s s' : State} {a : α}
    (hg : Good s) (hr : x.run.run s = (.ok a, s')) : Good s' := by
  obtain ⟨h1, h2, h3⟩ := hg
  obtain ⟨g1, g2⟩ := NP.run hn s s' a h1 h3 hr
  have := hh.run s ((HWF_debug_iff s).2 ⟨h2, h3⟩)
  rw [hr] at this
  exact ⟨g1, ((HWF_debug_iff s').1 this).1, g2⟩

theorem rchRemoveMin_np (v : View) : NP v rchRemoveMin := by
  nv_mvcgen [rchRemoveMin_v]
  intro h
  split at h
  · rw [h, ‹viewOf _ = v›]; exact fun h => h
  · rw [h, ‹viewOf _ = v›]; exact fun hN => necV_clear _ hN

theorem drainHeapChecked_eq (env : Env) (fuel : Nat) : ∀ (s : State), Good s →
    (drainHeapChecked env fuel).run.run s = (drainHeap env fuel).run.run s := by
  induction fuel with
  | zero => intros; rfl
  | succ fuel ih =>
    intro s hg
    simp only [drainHeapChecked, drainHeap, run_bind]
    rcases hr : rchRemoveMin.run.run s with ⟨r, s1⟩
    cases r with
    | error e => rfl
    | ok o =>
      cases o with
      | none => rfl
      | some n =>
        have hg1 : Good s1 := hg.step rchRemoveMin_np (rchRemoveMin_spec .debug) hr
        obtain ⟨p1, p2⟩ := popped_is_necessary' s s1 n hg.1 hg.2.1 hr
        have e := recomputeChecked_eq env fuel n s1 hg1.1 hg1.2.2 p1 p2
        simp only [run_bind, e]
        rcases hr2 : (recompute env fuel n).run.run s1 with ⟨r2, s2⟩
        cases r2 with
        | error e => rfl
        | ok u =>
          exact ih s2 (hg1.step (fun v => recompute_v v env fuel n) (recompute_spec env fuel n) hr2)

/-- **C05 (c)**: from a state satisfying the invariant (with a well-formed heap, debug assertions on),
`stabilise` behaves exactly like its ghost-instrumented copy, which checks in front of *every* call of
`recomputeOne` that the node is necessary and valid and would panic with the site
`"C05:recompute-of-unnecessary-node"` otherwise: the check never fires — only nodes needed by a live
observer are ever computed. -/
theorem stabiliseChecked_eq (env : Env) (fuel : Nat) (s : State) (hN : NecWF s) (hH : HeapWF s)
    (hd : s.cfg.debug = true) :
    (stabiliseChecked env fuel).run.run s = (stabilise env fuel).run.run s := by
  by_cases hst : (s.status == Status.notStabilising) = true
  · simp only [stabiliseChecked, stabilise, run_bind, run_get, run_assertM, run_modify, hst, if_true]
    have hg0 : Good { s with status := .stabilising } :=
      ⟨⟨hN.e1, hN.e2, hN.e3, hN.e4, hN.kinds⟩, ⟨hH.mem, hH.nodup, hH.length, hH.range⟩, hd⟩
    rcases hr1 : (addNewObservers env fuel).run.run { s with status := .stabilising } with ⟨r1, s1⟩
    cases r1 with
    | error e => rfl
    | ok u1 =>
      have hg1 : Good s1 := hg0.step (fun v => addNewObservers_v v env fuel) (addNewObservers_spec env fuel) hr1
      simp only []
      rcases hr2 : (unlinkDisallowedObservers fuel).run.run s1 with ⟨r2, s2⟩
      cases r2 with
      | error e => rfl
      | ok u2 =>
        have hg2 : Good s2 :=
          hg1.step (fun v => unlinkDisallowedObservers_v v fuel) (unlinkDisallowedObservers_spec .debug fuel) hr2
        simp only [drainHeapChecked_eq env fuel s2 hg2]
  · simp only [stabiliseChecked, stabilise, run_bind, run_get, run_assertM, hst]
    rfl


/-! ## (d) no necessary node, no work -/

theorem heap_empty_of_none_necessary (s : State) (hN : NecWF s) (hH : HeapWF s)
    (hnone : ∀ n, s.isNecessary n = false) : s.rch.length = 0 := by
  rw [hH.length]
  unfold bucketSum
  apply sum_length_of_all_empty
  intro x hx
  rw [Array.mem_toList_iff] at hx
  obtain ⟨k, hk, rfl⟩ := Array.mem_iff_getElem.1 hx
  cases hq : s.rch.queues[k] with
  | nil => rfl
  | cons n rest =>
    have := (hN.queued hH k hk n (by rw [hq]; simp)).1
    rw [hnone n] at this; cases this

theorem run_rchRemoveMin_empty (s : State) (h : s.rch.length = 0) :
    rchRemoveMin.run.run s = (.ok none, s) := by
  simp [rchRemoveMin, run_bind, run_get, h]
  rfl

/-- **C05 (d)**: if no node is necessary (in particular: no observer is in use and none is new) then, in a
state satisfying the invariant with a well-formed heap, the recompute heap is empty and `drainHeap` returns at
once without touching the state — nothing is computed. -/
theorem no_observers_no_work (env : Env) (fuel : Nat) (s : State) (hN : NecWF s) (hH : HeapWF s)
    (hnone : ∀ n, s.isNecessary n = false) :
    s.rch.length = 0 ∧ (drainHeap env (fuel + 1)).run.run s = (.ok (), s) := by
  have h0 := heap_empty_of_none_necessary s hN hH hnone
  refine ⟨h0, ?_⟩
  simp only [drainHeap, run_bind, run_rchRemoveMin_empty s h0]
  rfl


/-! ## the invariant holds initially and is kept by every API entry point (normal outcome) -/

/-- the initial state satisfies the invariant -/
theorem necwf_init (maxHeight : Nat) (debug : Bool) : NecWF (State.init maxHeight debug) :=
  necWF_init maxHeight debug

theorem VF.toNP {α} {x : M α} (h : ∀ v, VF v x) (v : View) : NP v x := by
  have := h v
  nv_mvcgen [this]
  intro hv; rw [hv]; exact fun h => h

/-- `stabilise` keeps the invariant (when it returns normally; debug assertions on) -/
theorem stabilise_ok (env : Env) (fuel : Nat) (s s' : State) (hN : NecWF s) (hd : s.cfg.debug = true)
    (hr : (stabilise env fuel).run.run s = (.ok (), s')) : NecWF s' ∧ s'.cfg.debug = true :=
  NP.run (fun v => stabilise_v v env fuel) s s' () hN hd hr

/-- `writeVar` (all five write operations on a var) keeps the invariant -/
theorem writeVar_ok (x : Nat) (f : Val → Val) (isSet : Bool) (s s' : State) (a : Val) (hN : NecWF s)
    (hd : s.cfg.debug = true) (hr : (writeVar x f isSet).run.run s = (.ok a, s')) :
    NecWF s' ∧ s'.cfg.debug = true :=
  NP.run (fun v => writeVar_v v x f isSet) s s' a hN hd hr

/-- `subscribe` keeps the invariant -/
theorem subscribe_ok (o hid : Nat) (s s' : State) (a : Except ObsError Nat) (hN : NecWF s)
    (hd : s.cfg.debug = true) (hr : (subscribe o hid).run.run s = (.ok a, s')) :
    NecWF s' ∧ s'.cfg.debug = true :=
  NP.run (VF.toNP fun v => subscribe_v v o hid) s s' a hN hd hr

/-- `unsubscribe` keeps the invariant -/
theorem unsubscribe_ok (o token owner : Nat) (s s' : State) (a : Except ObsError Unit) (hN : NecWF s)
    (hd : s.cfg.debug = true) (hr : (unsubscribe o token owner).run.run s = (.ok a, s')) :
    NecWF s' ∧ s'.cfg.debug = true :=
  NP.run (VF.toNP fun v => unsubscribe_v v o token owner) s s' a hN hd hr

/-- `disallowFutureUse` keeps the invariant (the observer is only unlinked by the next `stabilise`) -/
theorem disallowFutureUse_ok (o : Nat) (s s' : State) (hN : NecWF s)
    (hd : s.cfg.debug = true) (hr : (disallowFutureUse o).run.run s = (.ok (), s')) :
    NecWF s' ∧ s'.cfg.debug = true :=
  NP.run (VF.toNP fun v => disallowFutureUse_v v o) s s' () hN hd hr

/-- creating nodes at top level keeps the invariant -/
theorem elabInstr_ok (lv : Val) (i : Instr) (s s' : State) (a : Option Nat) (hN : NecWF s)
    (hd : s.cfg.debug = true) (hr : (elabInstr [] lv i).run.run s = (.ok a, s')) :
    NecWF s' ∧ s'.cfg.debug = true :=
  necWF_of_necV (run_of_triple (R := fun _ v v' => NecV v → Ext v v' ∧ NecV v')
    (fun v => elabInstr_v v [] lv i) s s' a hr (necV_of_necWF hN hd)).2

/-- `expertAddDependency` keeps the invariant -/
theorem expertAddDependency_ok (env : Env) (fuel n child : Nat) (cb : Bool) (s s' : State) (a : Nat)
    (hN : NecWF s) (hd : s.cfg.debug = true)
    (hr : (expertAddDependency env fuel n child cb).run.run s = (.ok a, s')) :
    NecWF s' ∧ s'.cfg.debug = true :=
  NP.run (fun v => expertAddDependency_v v env fuel n child cb) s s' a hN hd hr

/-- `expertRemoveDependency` keeps the invariant -/
theorem expertRemoveDependency_ok (fuel n dep : Nat) (s s' : State) (hN : NecWF s)
    (hd : s.cfg.debug = true) (hr : (expertRemoveDependency fuel n dep).run.run s = (.ok (), s')) :
    NecWF s' ∧ s'.cfg.debug = true :=
  NP.run (fun v => expertRemoveDependency_v v fuel n dep) s s' () hN hd hr

/-! ## non-vacuity: a concrete history (a var, a map over it, an observer on the map) -/

/-- user functions of the examples: every function is "+ 1" on the integer view, no effects -/
def exEnv : Env :=
  { cexEnv with fn := fun _ vs => .int ((vs.headD .unit).toInt + 1), fnEff := fun _ _ => [] }

def s0 : State := State.init 4 true
/-- node 0: a var -/
def s1 : State := ((elabInstr [] .unit (.var (.int 1))).run.run s0).2
/-- node 1: a map over node 0 -/
def s2 : State := ((elabInstr [] .unit (.map 0 [.abs 0])).run.run s1).2
/-- a new observer on node 1 -/
def s3 : State := { s2 with observers := #[{ node := 1 }], newObservers := [0] }
/-- after the first stabilisation -/
def s4 : State := ((stabilise exEnv 20).run.run s3).2
/-- after a write to the var -/
def s5 : State := ((writeVar 0 (fun _ => .int 7)).run.run s4).2
/-- inside the next stabilisation, after the var node has been popped -/
def s6 : State := (rchRemoveMin.run.run { s5 with status := .stabilising }).2

/-- a run whose outcome is (checked by evaluation to be) `ok a` -/
theorem run_ok_of {α} [DecidableEq α] (x : M α) (s : State) (a : α)
    (h : (match (x.run.run s).1 with | .ok b => decide (b = a) | .error _ => false) = true) :
    x.run.run s = (.ok a, (x.run.run s).2) := by
  rcases hr : x.run.run s with ⟨r, s'⟩
  rw [hr] at h
  cases r with
  | error e => simp at h
  | ok b => simp at h; rw [h]

theorem run_s1 : (elabInstr [] .unit (.var (.int 1))).run.run s0 = (.ok (some 0), s1) :=
  run_ok_of _ _ _ (by decide +kernel)
theorem run_s2 : (elabInstr [] .unit (.map 0 [.abs 0])).run.run s1 = (.ok (some 1), s2) :=
  run_ok_of _ _ _ (by decide +kernel)
theorem run_s4 : (stabilise exEnv 20).run.run s3 = (.ok (), s4) :=
  run_ok_of _ _ _ (by decide +kernel)
theorem run_s5 : (writeVar 0 (fun _ => .int 7)).run.run s4 = (.ok (.int 1), s5) :=
  run_ok_of _ _ _ (by decide +kernel)
theorem run_s6 : rchRemoveMin.run.run { s5 with status := .stabilising } = (.ok (some 0), s6) :=
  run_ok_of _ _ _ (by decide +kernel)
theorem run_s7 : (recomputeOne exEnv 20 0).run.run s6 = (.ok (some 1), ((recomputeOne exEnv 20 0).run.run s6).2) :=
  run_ok_of _ _ _ (by decide +kernel)


theorem good_of_run {α} {x : M α} {s s' : State} {a : α} (hg : Good s)
    (hn : NecWF s' ∧ s'.cfg.debug = true) (hh : Pres .debug x) (hr : x.run.run s = (.ok a, s')) : Good s' := by
  have := hh.run s ((HWF_debug_iff s).2 ⟨hg.2.1, hg.2.2⟩)
  rw [hr] at this
  exact ⟨hn.1, ((HWF_debug_iff s').1 this).1, hn.2⟩

theorem Good.withStatus {s : State} (h : Good s) (st : Status) : Good { s with status := st } :=
  ⟨⟨h.1.e1, h.1.e2, h.1.e3, h.1.e4, h.1.kinds⟩, ⟨h.2.1.mem, h.2.1.nodup, h.2.1.length, h.2.1.range⟩, h.2.2⟩

theorem Good.withObservers {s : State} (h : Good s) (obs : Array ObsRec) (no : List Nat) :
    Good { s with observers := obs, newObservers := no } :=
  ⟨⟨h.1.e1, h.1.e2, h.1.e3, h.1.e4, h.1.kinds⟩, ⟨h.2.1.mem, h.2.1.nodup, h.2.1.length, h.2.1.range⟩, h.2.2⟩

theorem good_s0 : Good s0 := ⟨necwf_init 4 true, heapWF_init 4 true, rfl⟩
theorem good_s1 : Good s1 :=
  good_of_run good_s0 (elabInstr_ok _ _ _ _ _ good_s0.1 good_s0.2.2 run_s1) (elabInstr_spec .debug _ _ _) run_s1
theorem good_s2 : Good s2 :=
  good_of_run good_s1 (elabInstr_ok _ _ _ _ _ good_s1.1 good_s1.2.2 run_s2) (elabInstr_spec .debug _ _ _) run_s2
theorem good_s3 : Good s3 := good_s2.withObservers _ _
theorem good_s4 : Good s4 :=
  good_of_run good_s3 (stabilise_ok _ _ _ _ good_s3.1 good_s3.2.2 run_s4) (stabilise_spec _ _) run_s4
theorem good_s5 : Good s5 :=
  good_of_run good_s4 (writeVar_ok _ _ _ _ _ _ good_s4.1 good_s4.2.2 run_s5) (writeVar_spec .debug _ _ _) run_s5
theorem good_s5' : Good { s5 with status := .stabilising } := good_s5.withStatus _
theorem good_s6 : Good s6 := good_s5'.step rchRemoveMin_np (rchRemoveMin_spec .debug) run_s6

/-- `necwf_init`, `elabInstr_ok`: the two-node graph satisfies the invariant -/
example : NecWF s0 ∧ NecWF s2 := ⟨necwf_init 4 true, good_s2.1⟩

/-- `stabilise_ok`: the first stabilisation returns normally, keeps the invariant, and has made the observed
node and its input necessary (their values are 2 and 1) -/
example : NecWF s4 ∧ s4.isNecessary 1 = true ∧ s4.isNecessary 0 = true ∧
    (s4.nodes.map (·.value)) = #[some (.int 1), some (.int 2)] :=
  ⟨(stabilise_ok exEnv 20 s3 s4 good_s3.1 good_s3.2.2 run_s4).1, by decide +kernel, by decide +kernel,
    by decide +kernel⟩

/-- `writeVar_ok`: the write returns normally and queues the var node -/
example : NecWF s5 ∧ s5.rch.queues = #[[], [0], [], [], []] :=
  ⟨(writeVar_ok 0 _ false s4 s5 _ good_s4.1 good_s4.2.2 run_s5).1, by decide +kernel⟩

/-- `popped_is_necessary`: the node popped at the start of the second stabilisation (the var) is necessary -/
example : ({ s5 with status := .stabilising } : State).isNecessary 0 = true ∧
    (({ s5 with status := .stabilising } : State).nodeD 0).valid = true :=
  popped_is_necessary _ s6 0 good_s5'.1 good_s5'.2.1 run_s6

/-- `chain_is_necessary`: recomputing the var hands back its parent, the map node 1, which is necessary -/
example : ∃ s7, (recomputeOne exEnv 20 0).run.run s6 = (.ok (some 1), s7) ∧ NecWF s7 ∧
    s7.isNecessary 1 = true ∧ (s7.nodeD 1).valid = true :=
  ⟨_, run_s7, (chain_is_necessary exEnv 20 0 1 s6 _ good_s6.1 good_s6.2.2 run_s7).1,
    (chain_is_necessary exEnv 20 0 1 s6 _ good_s6.1 good_s6.2.2 run_s7).2.2⟩

/-- `stabiliseChecked_eq`: the second stabilisation with the ghost check returns normally (so the check did
not fire) and computes the new values 7 and 8 -/
example : (stabiliseChecked exEnv 20).run.run s5 = (stabilise exEnv 20).run.run s5 ∧
    (((stabilise exEnv 20).run.run s5).2.nodes.map (·.value)) = #[some (.int 7), some (.int 8)] ∧
    (match ((stabilise exEnv 20).run.run s5).1 with | .ok _ => true | .error _ => false) = true :=
  ⟨stabiliseChecked_eq exEnv 20 s5 good_s5.1 good_s5.2.1 good_s5.2.2, by decide +kernel, by decide +kernel⟩

theorem s2_none_necessary : ∀ n, s2.isNecessary n = false := by
  intro n
  match n with
  | 0 => decide +kernel
  | 1 => decide +kernel
  | n + 2 =>
    have hsz : s2.nodes.size = 2 := by decide +kernel
    show (s2.nodeD (n + 2)).isNecessary = false
    rw [nodeD_of_le s2 (n + 2) (by omega)]
    rfl

/-- `no_observers_no_work`: before an observer exists nothing is necessary, the heap is empty, `drainHeap`
does nothing -/
example : s2.rch.length = 0 ∧ (drainHeap exEnv 10).run.run s2 = (.ok (), s2) :=
  no_observers_no_work exEnv 9 s2 good_s2.1 good_s2.2.1 s2_none_necessary


deriving instance DecidableEq for Except

/-- `subscribe_ok`, `unsubscribe_ok`, `disallowFutureUse_ok` on the observer of the example -/
example : ∃ s', (subscribe 0 0).run.run s4 = (.ok (.ok 0), s') ∧ NecWF s' :=
  ⟨_, run_ok_of _ _ _ (by decide +kernel),
    (subscribe_ok 0 0 s4 _ _ good_s4.1 good_s4.2.2 (run_ok_of _ _ (.ok 0) (by decide +kernel))).1⟩

example : ∃ s', (unsubscribe 0 0 0).run.run s4 = (.ok (.ok ()), s') ∧ NecWF s' :=
  ⟨_, run_ok_of _ _ _ (by decide +kernel),
    (unsubscribe_ok 0 0 0 s4 _ _ good_s4.1 good_s4.2.2 (run_ok_of _ _ (.ok ()) (by decide +kernel))).1⟩

example : ∃ s', (disallowFutureUse 0).run.run s4 = (.ok (), s') ∧ NecWF s' :=
  ⟨_, run_ok_of _ _ _ (by decide +kernel),
    (disallowFutureUse_ok 0 s4 _ good_s4.1 good_s4.2.2 (run_ok_of _ _ _ (by decide +kernel))).1⟩

/-- an expert node 2 next to the graph of the example -/
def sE : State := ((elabInstr [] .unit (.expert 0)).run.run s4).2
theorem run_sE : (elabInstr [] .unit (.expert 0)).run.run s4 = (.ok (some 2), sE) :=
  run_ok_of _ _ _ (by decide +kernel)
theorem good_sE : Good sE :=
  good_of_run good_s4 (elabInstr_ok _ _ _ _ _ good_s4.1 good_s4.2.2 run_sE) (elabInstr_spec .debug _ _ _) run_sE

/-- `expertAddDependency_ok`: the expert node gets the var as a dependency -/
example : ∃ s', (expertAddDependency exEnv 20 2 0 false).run.run sE = (.ok 0, s') ∧ NecWF s' ∧
    s'.children 2 = [0] :=
  ⟨_, run_ok_of _ _ _ (by decide +kernel),
    (expertAddDependency_ok exEnv 20 2 0 false sE _ _ good_sE.1 good_sE.2.2
      (run_ok_of _ _ 0 (by decide +kernel))).1, by decide +kernel⟩

end IncrVerif.Props.C05
