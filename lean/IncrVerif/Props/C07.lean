import IncrVerif.Proofs.Observers
/-!
# C07 (frame part) — observer reads move only at stabilise boundaries

Between two stabilisations the value an observer reads (`State.tryGetValue`, the model of
`Observer::try_get_value`) cannot move: var writes, node construction and the creation of new
observers leave the read of every existing observer unchanged — also when the call panics
(`r = .error _`; the model keeps the state as it was at the panic point).  A run is
`(m).run.run s : Except Panic α × State`.

Hypotheses.  The var-write, `set_cutoff` and new-observer theorems hold for EVERY state.  The
theorems about calls that append nodes need two well-formedness facts about the state (both hold in
every state built through the API with operands that name existing nodes, and are preserved by the
calls, see `wf_preserved_*`; both are necessary, see the two counterexamples at the end):
* `MapRefsBackward s`: the input of every MapRef node is an earlier node;
* `ObsNodesInRange s`: every observer record points at an existing node.

`s.status = .notStabilising` is never needed: the statements hold in every status (while
stabilising every read is `CurrentlyStabilising` before and after).

Non-vacuity examples use `Proofs.Obs.exState` / `Proofs.Obs.exEnv`: observer 0 is in use and reads `5`
through a MapRef over the node of var 0.
-/
namespace IncrVerif.Props.C07
open IncrVerif.Engine IncrVerif.Proofs.Obs

/-! ## the key lemmas -/

/-- `tryGetValue` depends only on `alive`, `status`, the observer's `node`/`state` and node values:
two states that agree on these give the same read. -/
theorem read_depends_on (env : Env) (s s' : State) (o : Nat) (ha : s'.alive = s.alive)
    (hs : s'.status = s.status)
    (ho : (s'.observers[o]?).map (fun x : ObsRec => (x.node, x.state))
        = (s.observers[o]?).map (fun x : ObsRec => (x.node, x.state)))
    (hv : ∀ ob, s.observers[o]? = some ob → s'.value env ob.node = s.value env ob.node) :
    s'.tryGetValue env o = s.tryGetValue env o := by
  rw [tryGetValue_eq_readTable, tryGetValue_eq_readTable, ha, hs]
  have ho' : (s'.observers[o]?).map obsCore = (s.observers[o]?).map obsCore := ho
  rw [ho']
  apply readTable_congr_value
  intro n st hn
  cases hob : s.observers[o]? with
  | none => rw [hob] at hn; cases hn
  | some ob =>
    rw [hob] at hn
    simp only [Option.map_some, obsCore, Option.some.injEq, Prod.mk.injEq] at hn
    rw [← hn.1]; exact hv ob hob

example : ({ exState with stabNum := 9 }).tryGetValue exEnv 0 = exState.tryGetValue exEnv 0 :=
  read_depends_on exEnv exState _ 0 rfl rfl rfl (fun _ _ => rfl)

/-- value congruence, same number of nodes: `State.value` depends only on the `kind`, `valid` and
`value` fields of the nodes. -/
theorem value_depends_on (env : Env) (s s' : State) (hsz : s'.nodes.size = s.nodes.size)
    (h : ∀ n, ((s'.nodeD n).kind, (s'.nodeD n).valid, (s'.nodeD n).value)
        = ((s.nodeD n).kind, (s.nodeD n).valid, (s.nodeD n).value)) (n : Nat) :
    s'.value env n = s.value env n := by
  simp only [State.value, hsz]
  exact valueWith_congr env.proj s s' h _ n

example : ({ exState with nodes := exState.nodes.modify 0 fun x => { x with height := 7 } }).value
    exEnv 1 = exState.value exEnv 1 := by
  refine value_depends_on exEnv exState _ (by simp) (fun n => ?_) 1
  simp only [State.nodeD, Array.getElem?_modify]
  split
  · cases exState.nodes[n]? <;> rfl
  · rfl

/-- value congruence, prefix: if the first state's nodes are a prefix of the second's up to fields
other than `kind`, `valid`, `value`, and its MapRef inputs are earlier nodes, every node of the
first state has the same value in both. -/
theorem value_depends_on_prefix (env : Env) (s s' : State) (hwf : MapRefsBackward s)
    (hle : s.nodes.size ≤ s'.nodes.size)
    (h : ∀ n, n < s.nodes.size →
      ((s'.nodeD n).kind, (s'.nodeD n).valid, (s'.nodeD n).value)
        = ((s.nodeD n).kind, (s.nodeD n).valid, (s.nodeD n).value))
    (n : Nat) (hn : n < s.nodes.size) : s'.value env n = s.value env n := by
  simp only [State.value]
  exact valueWith_congr_prefix env.proj s s' hwf h n hn _ _ (by omega) (by omega)

example : ((createNode (.const .unit) .top).run.run exState).2.value exEnv 1
    = exState.value exEnv 1 := by
  refine value_depends_on_prefix exEnv exState _ exState_mapRefsBackward (by decide) (fun n hn => ?_)
    1 (by decide)
  have h3 : n = 0 ∨ n = 1 ∨ n = 2 := by
    have : n < 3 := hn
    omega
  rcases h3 with rfl | rfl | rfl <;> rfl

/-! ## (a) var writes -/

/-- Any of the five var writes (`set`, `modify`, `update`, `replace`, `replace_with`: `writeVar`
with any `f`), in any status, whether it returns or panics, leaves every observer's read unchanged;
it also leaves `status`, `alive` and the numbers of nodes and observers unchanged. -/
theorem writeVar_frame (env : Env) (s : State) (v : Nat) (f : Val → Val) (isSet : Bool)
    (r : Except Panic Val) (s' : State) (hrun : (writeVar v f isSet).run.run s = (r, s')) :
    (∀ o : Nat, s'.tryGetValue env o = s.tryGetValue env o) ∧
      s'.status = s.status ∧ s'.alive = s.alive ∧ s'.nodes.size = s.nodes.size ∧
      s'.observers.size = s.observers.size := by
  have hf := (Pres.writeVar v f isSet).h s r s' hrun
  exact ⟨fun o => hf.read_eq env o, hf.status, hf.alive, hf.nodesEq, hf.obsEq⟩

/-- the write happens (the cell now holds 7, the call returned the old 5) and observer 0, which
reads the var through a MapRef, still reads 5 -/
example :
    exState.status = .notStabilising ∧
    ((writeVar 0 (fun _ => .int 7) true).run.run exState).1 = .ok (.int 5) ∧
    ((((writeVar 0 (fun _ => .int 7) true).run.run exState).2.vars[0]?).map (·.value))
      = some (.int 7) ∧
    ((writeVar 0 (fun _ => .int 7) true).run.run exState).2.tryGetValue exEnv 0 = .ok (.int 5) :=
  ⟨rfl, rfl, rfl, ((writeVar_frame exEnv exState 0 (fun _ => .int 7) true _ _ (run_eta _ _)).1 0).trans rfl⟩

/-- a write that panics (no such var): reads unchanged as well -/
example :
    ((writeVar 9 (fun _ => .int 7)).run.run exState).1 = .error (.site "model:no-such-var") ∧
    ((writeVar 9 (fun _ => .int 7)).run.run exState).2.tryGetValue exEnv 0
      = exState.tryGetValue exEnv 0 :=
  ⟨rfl, (writeVar_frame exEnv exState 9 (fun _ => .int 7) false _ _ (run_eta _ _)).1 0⟩

/-! ## (b) node construction -/

/-- what node construction does to the state, whether the call returns or panics (bad operand):
every `elabInstr` (hence `createNode`, `createVar`, `createBind` inside it) only appends nodes and
never removes an observer; the `kind`, `valid` and `value` of every existing node are untouched
(`set_cutoff` changes a `cutoff` field only); `status`, `alive` and the `node`/lifecycle state of
every existing observer are untouched. -/
theorem construction_appends (s : State) (loc : List Nat) (lhsVal : Val) (i : Instr)
    (r : Except Panic (Option Nat)) (s' : State)
    (hrun : (elabInstr loc lhsVal i).run.run s = (r, s')) :
    s'.status = s.status ∧ s'.alive = s.alive ∧ s.nodes.size ≤ s'.nodes.size ∧
      s.observers.size ≤ s'.observers.size ∧
      (∀ n, n < s.nodes.size →
        (s'.nodes[n]?).map (fun x : Node => (x.kind, x.valid, x.value))
          = (s.nodes[n]?).map (fun x : Node => (x.kind, x.valid, x.value))) ∧
      (∀ o, o < s.observers.size →
        (s'.observers[o]?).map (fun x : ObsRec => (x.node, x.state))
          = (s.observers[o]?).map (fun x : ObsRec => (x.node, x.state))) := by
  have hf := (Pres.elabInstr loc lhsVal i).h s r s' hrun
  exact ⟨hf.status, hf.alive, hf.nodesLe, hf.obsLe, hf.nodes, hf.obs⟩

example : exState.nodes.size = 3 ∧
    ((elabInstr [] .unit (.bind 0 (.outer 1))).run.run exState).2.nodes.size = 5 ∧
    ((elabInstr [] .unit (.bind 0 (.outer 1))).run.run exState).2.status = exState.status :=
  ⟨rfl, rfl, (construction_appends exState [] .unit (.bind 0 (.outer 1)) _ _ (run_eta _ _)).1⟩

/-- `createNode` never panics: it returns the index of the node it appended, the new node table is
the old one with one fresh node (no value, valid) pushed, and observers are untouched -/
theorem createNode_appends (s : State) (kind : Kind) (scope : Scope) (cutoff : CutoffK) :
    ∃ s', (createNode kind scope cutoff).run.run s = (.ok s.nodes.size, s') ∧
      s'.nodes = s.nodes.push { kind := kind, createdIn := scope, cutoff := cutoff } ∧
      s'.observers = s.observers :=
  createNode_run kind scope cutoff s

example : ((createNode (.const .unit) .top).run.run exState).1 = .ok 3 := rfl

/-- `Node::create` (`createNode`) leaves the read of every existing observer unchanged -/
theorem createNode_reads (env : Env) (s : State) (hwf : MapRefsBackward s)
    (hobs : ObsNodesInRange s) (kind : Kind) (scope : Scope) (cutoff : CutoffK)
    (r : Except Panic Nat) (s' : State)
    (hrun : (createNode kind scope cutoff).run.run s = (r, s')) (o : Nat)
    (ho : o < s.observers.size) : s'.tryGetValue env o = s.tryGetValue env o :=
  ((Pres.createNode kind scope cutoff).h s r s' hrun).read_eq env hwf hobs ho

/-- a new MapRef over the observed node: observer 0 still reads 5 -/
example : ((createNode (.mapRef 1 1) .top).run.run exState).2.tryGetValue exEnv 0 = .ok (.int 5) :=
  (createNode_reads exEnv exState exState_mapRefsBackward exState_obsNodesInRange (.mapRef 1 1) .top
    .eq _ _ (run_eta _ _) 0 (by decide)).trans rfl

/-- `Var::create` (`createVar`) leaves the read of every existing observer unchanged -/
theorem createVar_reads (env : Env) (s : State) (hwf : MapRefsBackward s)
    (hobs : ObsNodesInRange s) (v : Val) (scope : Scope) (r : Except Panic Nat) (s' : State)
    (hrun : (createVar v scope).run.run s = (r, s')) (o : Nat) (ho : o < s.observers.size) :
    s'.tryGetValue env o = s.tryGetValue env o :=
  ((Pres.createVar v scope).h s r s' hrun).read_eq env hwf hobs ho

example : ((createVar (.int 1) .top).run.run exState).2.tryGetValue exEnv 0 = .ok (.int 5) :=
  (createVar_reads exEnv exState exState_mapRefsBackward exState_obsNodesInRange (.int 1) .top _ _
    (run_eta _ _) 0 (by decide)).trans rfl

/-- every construction instruction (constant, var, map, fold, map_ref, map_with_old, bind, zip,
depend_on, set_cutoff, expert), run at top level or inside a bind body (`loc` arbitrary), returning
or panicking (bad operand), leaves the read of every existing observer unchanged -/
theorem elabInstr_reads (env : Env) (s : State) (hwf : MapRefsBackward s)
    (hobs : ObsNodesInRange s) (loc : List Nat) (lhsVal : Val) (i : Instr)
    (r : Except Panic (Option Nat)) (s' : State)
    (hrun : (elabInstr loc lhsVal i).run.run s = (r, s')) (o : Nat) (ho : o < s.observers.size) :
    s'.tryGetValue env o = s.tryGetValue env o :=
  ((Pres.elabInstr loc lhsVal i).h s r s' hrun).read_eq env hwf hobs ho

/-- a bind over the observed node is constructed (two nodes, one bind record): same read -/
example :
    ((elabInstr [] .unit (.bind 0 (.outer 1))).run.run exState).1 = .ok (some 4) ∧
    ((elabInstr [] .unit (.bind 0 (.outer 1))).run.run exState).2.tryGetValue exEnv 0
      = .ok (.int 5) :=
  ⟨rfl, (elabInstr_reads exEnv exState exState_mapRefsBackward exState_obsNodesInRange [] .unit
    (.bind 0 (.outer 1)) _ _ (run_eta _ _) 0 (by decide)).trans rfl⟩

/-- `set_cutoff` needs no well-formedness: in every state it leaves every read, `status`, `alive`
and the number of nodes unchanged -/
theorem setCutoff_frame (env : Env) (s : State) (loc : List Nat) (lhsVal : Val) (n : Opnd)
    (c : CutoffK) (r : Except Panic (Option Nat)) (s' : State)
    (hrun : (elabInstr loc lhsVal (.cutoff n c)).run.run s = (r, s')) :
    (∀ o : Nat, s'.tryGetValue env o = s.tryGetValue env o) ∧
      s'.status = s.status ∧ s'.alive = s.alive ∧ s'.nodes.size = s.nodes.size := by
  have hf := (Pres.elabCutoff loc lhsVal n c).h s r s' hrun
  exact ⟨fun o => hf.read_eq env o, hf.status, hf.alive, hf.nodesEq⟩

example :
    ((((elabInstr [] .unit (.cutoff (.outer 1) .never)).run.run exState).2.nodes[1]?).map (·.cutoff))
      = some .never ∧
    ((elabInstr [] .unit (.cutoff (.outer 1) .never)).run.run exState).2.tryGetValue exEnv 0
      = exState.tryGetValue exEnv 0 :=
  ⟨rfl, (setCutoff_frame exEnv exState [] .unit (.outer 1) .never _ _ (run_eta _ _)).1 0⟩

/-- the two well-formedness predicates are preserved by `createNode` when a MapRef's input names an
existing node (so they are invariants of construction, not just assumptions about one state) -/
theorem wf_preserved_createNode (s : State) (kind : Kind) (scope : Scope) (cutoff : CutoffK)
    (r : Except Panic Nat) (s' : State)
    (hrun : (createNode kind scope cutoff).run.run s = (r, s'))
    (hk : ∀ p i, kind = .mapRef p i → i < s.nodes.size)
    (hwf : MapRefsBackward s) (hobs : ObsNodesInRange s) :
    r = .ok s.nodes.size ∧ MapRefsBackward s' ∧ ObsNodesInRange s' := by
  refine ⟨?_, createNode_mapRefsBackward kind scope cutoff s s' r hrun hk hwf,
    createNode_obsNodesInRange kind scope cutoff s s' r hrun hobs⟩
  obtain ⟨s'', hr, _⟩ := createNode_run kind scope cutoff s
  rw [hr] at hrun
  cases hrun; rfl

example : MapRefsBackward ((createNode (.mapRef 1 1) .top).run.run exState).2 :=
  (wf_preserved_createNode exState (.mapRef 1 1) .top .eq _ _ (run_eta _ _)
    (by intro p i h; cases h; decide)
    exState_mapRefsBackward exState_obsNodesInRange).2.1

/-- … and by every step that appends no node and no observer (var writes, `set_cutoff`,
`subscribe`, `unsubscribe`) -/
theorem wf_preserved_writeVar (s : State) (v : Nat) (f : Val → Val) (isSet : Bool)
    (r : Except Panic Val) (s' : State) (hrun : (writeVar v f isSet).run.run s = (r, s'))
    (hwf : MapRefsBackward s) (hobs : ObsNodesInRange s) :
    MapRefsBackward s' ∧ ObsNodesInRange s' := by
  have hf := (Pres.writeVar v f isSet).h s r s' hrun
  exact ⟨hf.mapRefsBackward hwf, hf.obsNodesInRange hobs⟩

example : MapRefsBackward ((writeVar 0 (fun _ => .int 7)).run.run exState).2 :=
  (wf_preserved_writeVar exState 0 (fun _ => .int 7) false _ _ (run_eta _ _) exState_mapRefsBackward
    exState_obsNodesInRange).1

/-! ## (c) a new observer -/

/-- what the API action `observe` does in the model: on operand `#n` it returns the handle
`o<size>` and replaces the state by `pushObserver s n` (push a `created` record for node `n`, queue
it in `newObservers`, bump the active-observer counter) -/
theorem stepAction_observe (env : Env) (s : State) (n : Nat) (tokens : Array Nat) :
    (stepAction env (.observe (.abs n)) tokens).run.run s
      = (.ok (s!"ok o{s.observers.size}", tokens), pushObserver s n) := by
  simp only [stepAction, resolveOpnd, bumpCounter, run_bind, run_get, run_modify, run_pure,
    pure_bind]
  rfl

example : ((stepAction exEnv (.observe (.abs 0)) #[]).run.run exState).2.observers.size = 6 := by
  rw [stepAction_observe]; rfl

/-- creating an observer leaves the read of every existing observer unchanged (any state) -/
theorem observe_reads_old (env : Env) (s : State) (n : Nat) (o : Nat) (ho : o < s.observers.size) :
    (pushObserver s n).tryGetValue env o = s.tryGetValue env o :=
  pushObserver_read_old env s n ho

example : (pushObserver exState 0).tryGetValue exEnv 0 = .ok (.int 5) :=
  (observe_reads_old exEnv exState 0 0 (by decide)).trans rfl

/-- the new observer reads `NeverStabilised` (engine alive and not stabilising), whatever node it
watches — its value becomes visible only at the next stabilise boundary -/
theorem observe_read_new (env : Env) (s : State) (n : Nat) (ha : s.alive = true)
    (hs : s.status ≠ .stabilising) :
    (pushObserver s n).tryGetValue env s.observers.size = .error .neverStabilised :=
  pushObserver_read_new env s n ha hs

example : exState.value exEnv 0 = some (.int 5) ∧
    (pushObserver exState 0).tryGetValue exEnv 5 = .error .neverStabilised :=
  ⟨rfl, observe_read_new exEnv exState 0 rfl (by decide)⟩

/-- creating an observer of an existing node keeps `ObsNodesInRange`; `status`, `alive`, `nodes`
are untouched -/
theorem observe_frame (s : State) (n : Nat) :
    (pushObserver s n).status = s.status ∧ (pushObserver s n).alive = s.alive ∧
      (pushObserver s n).nodes = s.nodes ∧
      (n < s.nodes.size → ObsNodesInRange s → ObsNodesInRange (pushObserver s n)) :=
  ⟨rfl, rfl, rfl, pushObserver_obsNodesInRange s n⟩

example : ObsNodesInRange (pushObserver exState 0) :=
  (observe_frame exState 0).2.2.2 (by decide) exState_obsNodesInRange

/-! ## API level -/

/-- Every API action of the model other than `stabilise`, node construction, `observe`,
`disallow`/`drop` of an observer and `add_dependency` (`Action.isQuiet`: var writes and reads,
handle clones, var-handle drops, (un)subscribe, fault arming, `set_max_height_allowed`, `is_stable`,
stats), in any state and whether it returns or panics, leaves every observer's read unchanged, as
well as `status`, `alive` and the numbers of nodes and observers. -/
theorem quiet_action_frame (env : Env) (s : State) (a : Action) (tokens : Array Nat)
    (hq : Action.isQuiet a = true) (r : Except Panic (String × Array Nat)) (s' : State)
    (hrun : (stepAction env a tokens).run.run s = (r, s')) :
    (∀ o : Nat, s'.tryGetValue env o = s.tryGetValue env o) ∧
      s'.status = s.status ∧ s'.alive = s.alive ∧ s'.nodes.size = s.nodes.size ∧
      s'.observers.size = s.observers.size := by
  have hf := (Pres.stepAction_quiet env a tokens hq).h s r s' hrun
  exact ⟨fun o => hf.read_eq env o, hf.status, hf.alive, hf.nodesEq, hf.obsEq⟩

example : ((stepAction exEnv (.replace 0 (.int 7)) #[]).run.run exState).1 = .ok ("ok 5", #[]) ∧
    ((stepAction exEnv (.replace 0 (.int 7)) #[]).run.run exState).2.tryGetValue exEnv 0
      = exState.tryGetValue exEnv 0 :=
  ⟨rfl, (quiet_action_frame exEnv exState (.replace 0 (.int 7)) #[] rfl _ _ (run_eta _ _)).1 0⟩

/-- The API action `create i` (any construction instruction, returning or panicking) leaves the read
of every existing observer unchanged, in a state whose MapRef inputs are earlier nodes and whose
observers watch existing nodes. -/
theorem create_action_reads (env : Env) (s : State) (hwf : MapRefsBackward s)
    (hobs : ObsNodesInRange s) (i : Instr) (tokens : Array Nat)
    (r : Except Panic (String × Array Nat)) (s' : State)
    (hrun : (stepAction env (.create i) tokens).run.run s = (r, s')) (o : Nat)
    (ho : o < s.observers.size) : s'.tryGetValue env o = s.tryGetValue env o :=
  ((Pres.stepAction_create env i tokens).h s r s' hrun).read_eq env hwf hobs ho

example :
    ((stepAction exEnv (.create (.mapWithOld 0 (.outer 1))) #[]).run.run exState).1
      = .ok ("ok #3", #[]) ∧
    ((stepAction exEnv (.create (.mapWithOld 0 (.outer 1))) #[]).run.run exState).2.tryGetValue
      exEnv 0 = exState.tryGetValue exEnv 0 :=
  ⟨rfl, create_action_reads exEnv exState exState_mapRefsBackward exState_obsNodesInRange
    (.mapWithOld 0 (.outer 1)) #[] _ _ (run_eta _ _) 0 (by decide)⟩

/-! ## the two hypotheses of (b) are necessary -/

/-- counterexample without `ObsNodesInRange`: an in-use observer whose record points at node 3,
which does not exist, reads `ObservingInvalid`; constructing a MapRef (which becomes node 3) makes
it read 5.  (Unreachable through handles: `observe` is only ever given an existing node.) -/
example :
    MapRefsBackward exDanglingObs ∧
    exDanglingObs.tryGetValue exEnv 4 = .error .observingInvalid ∧
    ((elabInstr [] .unit (.mapRef 0 (.outer 0))).run.run exDanglingObs).2.tryGetValue exEnv 4
      = .ok (.int 5) :=
  ⟨exState_mapRefsBackward, rfl, rfl⟩

/-- counterexample without `MapRefsBackward`: node 1 is a MapRef whose input 3 does not exist yet;
observer 0 on node 1 reads `ObservingInvalid`, and constructing node 3 changes the read. -/
example :
    ObsNodesInRange exForwardRef ∧
    exForwardRef.tryGetValue exEnv 0 = .error .observingInvalid ∧
    ((elabInstr [] .unit (.mapRef 0 (.outer 0))).run.run exForwardRef).2.tryGetValue exEnv 0
      = .ok (.int 5) :=
  ⟨fun o ob h => by
    have := exState_obsNodesInRange o ob h
    simpa [exForwardRef] using this, rfl, rfl⟩

end IncrVerif.Props.C07
