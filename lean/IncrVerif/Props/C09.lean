import IncrVerif.Proofs.Handlers
/-!
# C09 — subscribers: Initialised once, Changed only on real change, then one Invalidated

(a) *automaton*: for ANY sequence of per-round classifications a handler sees, what it delivers is
`Initialised` once first, `Changed` exactly at the later rounds classified `changed`, one `Invalidated`
and nothing after.  (b) *engine link*: how the engine classifies a round.
The theorems are about `handlerStep`, `NodeUpdate.toPrev`, `State.nodeUpdate` — the definitions the
executable model (`runAll`, `stabiliseEnd`) runs.
-/
namespace IncrVerif.Props.C09
open IncrVerif.Engine IncrVerif.Proofs

/-- (a) the closed form of what a fresh handler delivers over any classification sequence in which
the node is never classified `unnecessary` (true for a subscription: see `nodeUpdate_ne_unnecessary`). -/
theorem automaton (nus : List NodeUpdate) (h : ∀ nu ∈ nus, nu ≠ .unnecessary) :
    deliveries .neverBeenUpdated nus = specDeliveries nus :=
  Proofs.deliveries_eq_spec nus h

/-- consequences spelled out: at most one `Initialised`, and only as the first delivery -/
theorem initialised_once (nus : List NodeUpdate) (h : ∀ nu ∈ nus, nu ≠ .unnecessary) :
    ((deliveries .neverBeenUpdated nus).drop 1).all (· != .necessary) = true :=
  Proofs.initialised_once nus h

/-- nothing is delivered after `Invalidated` -/
theorem nothing_after_invalidated (nus : List NodeUpdate) (h : ∀ nu ∈ nus, nu ≠ .unnecessary) :
    ∀ pre post, deliveries .neverBeenUpdated nus = pre ++ .invalidated :: post → post = [] :=
  Proofs.nothing_after_invalidated nus h

/-- `Changed` is delivered exactly for the rounds classified `changed` after the first delivery and
before invalidation: their number is the number of such rounds. -/
theorem changed_count (nus : List NodeUpdate) (h : ∀ nu ∈ nus, nu ≠ .unnecessary) :
    ((deliveries .neverBeenUpdated nus).filter (· == .changed)).length
      = (((nus.takeWhile (· != .invalidated)).drop 1).filter (· == .changed)).length :=
  Proofs.changed_count nus h

/-- (b) a node with an observer attached is never classified `unnecessary`, so a subscription can
never be handed `NodeUpdate::Unnecessary` (which the public wrapper turns into a panic). -/
theorem nodeUpdate_ne_unnecessary (env : Env) (s : State) (n : Nat)
    (h : (s.nodeD n).observers ≠ []) : s.nodeUpdate env n ≠ .unnecessary :=
  Proofs.nodeUpdate_ne_unnecessary env s n h

/-- (b) a round is classified `changed` only if the node's `changed_at` is this stabilisation
(the repaired D4 rule): an unchanged value is never reported as `Changed`. -/
theorem nodeUpdate_changed_iff (env : Env) (s : State) (n : Nat) :
    s.nodeUpdate env n = .changed ↔
      ((s.nodeD n).valid = true ∧ (s.nodeD n).isNecessary = true ∧ (s.value env n).isSome = true
        ∧ (s.nodeD n).changedAt + 1 = s.stabNum) :=
  Proofs.nodeUpdate_changed_iff env s n

/-- non-vacuity: a concrete classification sequence and what is delivered for it -/
example : deliveries .neverBeenUpdated [.changed, .necessary, .changed, .changed, .invalidated, .changed]
    = [.necessary, .changed, .changed, .invalidated] := by decide

end IncrVerif.Props.C09
