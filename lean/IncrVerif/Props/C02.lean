import IncrVerif.Proofs.StepStamp
/-!
# C02 — glitch-freedom, local part (LOCAL STEP theorems about `recomputeOne`)

PROVED HERE (for every state, one call of `recomputeOne env fuel n`):
* `step_begin_*`: the first thing the call does is bump `counters.recomputed` and stamp
  `recomputedAt n := s.stabNum` (`Step.started n s`); everything else — reading the inputs, running the
  user function, the cutoff, the notifications — runs from that state.  `step_invalid_node`,
  `step_missing_node`: this happens even when the call then panics at once.
* `step_stamp_kept`: if the call returns, `recomputedAt n = s.stabNum` still holds, the `recomputed`
  counter went up by exactly one, the round number did not move (kinds of `Step.Computes`).
* `step_stamp_all_kinds`: the same for EVERY kind of node (BindLhsChange, MapRef, Expert, per-key and
  incremental-map operator closures included), arbitrary side effects of user closures, with or
  without an injected fault, and EVERY outcome of the call (return or panic): nothing the engine does
  within a step lowers a stamp of the current round (`Proofs/StepStamp.lean`).
* `step_map_invokes_once`: a `map` node's function is invoked exactly once, on the values its inputs
  have at the moment of the call (one `inv` event carrying these values and the result; everything
  logged after it is cutoff/edge-callback noise, which `inv_is_not_noise` shows is never such an
  event).
* `step_not_stale`: after the step the node is not stale, provided no input claims to have changed
  in the future.

NOT PROVED HERE: the global property "within one stabilise every node function runs at most once, on
up-to-date arguments" — it needs the scheduling invariant of `drainHeap`/`recompute` (heights
increase along edges; a node is recomputed only when nothing lower is pending), developed
separately.  `step_stamp_kept`, `step_map_invokes_once`, `step_not_stale` are stated for the kinds of
`Step.Computes` (map with a user function without effects, built-in maps, var, const, fold,
map_with_old with a user-written machine, bind_main with a valid rhs that has a value);
BindLhsChange, MapRef, Expert nodes, the per-key / incremental-map operator closures and the
self-invalidating branch of BindMain are out of scope for those (but not for
`step_stamp_all_kinds`).

ASSUMPTIONS.  `s.panicCountdown = none` (no injected fault armed; `tick` is a no-op).  `0 ≤ s.stabNum`
in `step_not_stale`: `-1` is the "never" timestamp; the round number starts at 0 and only grows.
-/
namespace IncrVerif.Props.C02
open IncrVerif.Engine IncrVerif.Proofs IncrVerif.Proofs.Step

/-! ## 1. the stamp comes first, and is kept -/

/-- `map f args` (user function, no side effects, all args have a value): the call is
"stamp (`started n s`), log the invocation of `f` on the pre-state values, then `maybe_change_value`
with `f`'s result". -/
theorem step_begin_map (env : Env) (fuel n : Nat) (s : State) (nd : Node) (f : Nat)
    (args : List Nat) (vals : List Val)
    (hn : s.nodes[n]? = some nd) (hv : nd.valid = true) (hk : nd.kind = .map f args)
    (hf : f < fnZip) (hargs : args.map (s.value env) = vals.map some)
    (heff : env.fnEff f vals = []) (hp : s.panicCountdown = none) :
    (recomputeOne env fuel n).run.run s =
      (maybeChangeValue env fuel n (env.fn f vals)).run.run
        (logged [.inv s!"f{f}" n vals (env.fn f vals).render] (started n s)) :=
  recomputeOne_map_run env fuel n s nd f args vals hn hv hk hf
    ((valuesOf_eq_some_iff env s args vals).2 hargs) heff hp

example : exS.nodes[1]? = some (exS.nodeD 1) ∧ (exS.nodeD 1).valid = true ∧
    (exS.nodeD 1).kind = .map 0 [0] ∧ [0].map (exS.value exEnv) = [Val.int 1].map some ∧
    exEnv.fnEff 0 [.int 1] = [] ∧ exS.panicCountdown = none := ⟨rfl, rfl, rfl, rfl, rfl, rfl⟩

/-- what `started n s` is, field by field: node `n` has `recomputedAt = s.stabNum` (its other fields
and all other nodes are as in `s`), `counters.recomputed` is one more, and nothing else changed but
the debug-only `currentlyRunning` marker. -/
theorem started_facts (n : Nat) (s : State) (nd : Node) (hn : s.nodes[n]? = some nd) :
    (started n s).nodes[n]? = some { nd with recomputedAt := s.stabNum } ∧
    (∀ m, m ≠ n → (started n s).nodes[m]? = s.nodes[m]?) ∧
    (started n s).counters = { s.counters with recomputed := s.counters.recomputed + 1 } ∧
    (started n s).stabNum = s.stabNum ∧ (started n s).log = s.log ∧
    (started n s).vars = s.vars ∧ (started n s).rch = s.rch := by
  refine ⟨started_getElem? n s nd hn, ?_, rfl, rfl, rfl, rfl, rfl⟩
  intro m hm
  simp [started, Array.getElem?_modify, Ne.symm hm]

example : exS.nodes[1]? = some (exS.nodeD 1) := rfl

/-- `var c`: stamp, then `maybe_change_value` with the cell's value. -/
theorem step_begin_var (env : Env) (fuel n : Nat) (s : State) (nd : Node) (c : Nat) (vc : VarCell)
    (hn : s.nodes[n]? = some nd) (hv : nd.valid = true) (hk : nd.kind = .var c)
    (hc : s.vars[c]? = some vc) :
    (recomputeOne env fuel n).run.run s =
      (maybeChangeValue env fuel n vc.value).run.run (started n s) :=
  recomputeOne_var_run env fuel n s nd c vc hn hv hk hc

example : exS.nodes[0]? = some (exS.nodeD 0) ∧ (exS.nodeD 0).valid = true ∧
    (exS.nodeD 0).kind = .var 0 ∧ exS.vars[0]? = some { value := .int 4, setAt := 1, node := 0 } :=
  ⟨rfl, rfl, rfl, rfl⟩

/-- `const v`: stamp, then `maybe_change_value` with `v`. -/
theorem step_begin_const (env : Env) (fuel n : Nat) (s : State) (nd : Node) (v : Val)
    (hn : s.nodes[n]? = some nd) (hv : nd.valid = true) (hk : nd.kind = .const v) :
    (recomputeOne env fuel n).run.run s = (maybeChangeValue env fuel n v).run.run (started n s) :=
  recomputeOne_const_run env fuel n s nd v hn hv hk

example : exS.nodes[5]? = some (exS.nodeD 5) ∧ (exS.nodeD 5).valid = true ∧
    (exS.nodeD 5).kind = .const (.int 7) := ⟨rfl, rfl, rfl⟩

/-- `fold f init cs`: stamp, log the invocation on the pre-state values, then `maybe_change_value`
with the fold. -/
theorem step_begin_fold (env : Env) (fuel n : Nat) (s : State) (nd : Node) (f : Nat)
    (init : Val) (cs : List Nat) (vals : List Val)
    (hn : s.nodes[n]? = some nd) (hv : nd.valid = true) (hk : nd.kind = .fold f init cs)
    (hargs : cs.map (s.value env) = vals.map some) (hp : s.panicCountdown = none) :
    (recomputeOne env fuel n).run.run s =
      (maybeChangeValue env fuel n (vals.foldl (env.foldStep f) init)).run.run
        (logged [.inv s!"fold{f}" n vals (vals.foldl (env.foldStep f) init).render] (started n s)) :=
  recomputeOne_fold_run env fuel n s nd f init cs vals hn hv hk
    ((valuesOf_eq_some_iff env s cs vals).2 hargs) hp

example : exS.nodes[2]? = some (exS.nodeD 2) ∧ (exS.nodeD 2).valid = true ∧
    (exS.nodeD 2).kind = .fold 0 (.int 10) [0, 0] ∧
    [0, 0].map (exS.value exEnv) = [Val.int 1, Val.int 1].map some := ⟨rfl, rfl, rfl, rfl⟩

/-- `map_with_old g i`, user-written machine (`g < opBase`): stamp, run the machine once on (closure state, old value, input value), log it,
store value and closure state (`setWithOld`), then `maybe_change_value_manual` with the machine's own
"did change" answer. -/
theorem step_begin_mapWithOld (env : Env) (fuel n : Nat) (s : State) (nd : Node) (g i : Nat)
    (x σ' new : Val) (did : Bool)
    (hn : s.nodes[n]? = some nd) (hv : nd.valid = true) (hk : nd.kind = .mapWithOld g i)
    (hg : g < opBase) (hx : s.value env i = some x) (hp : s.panicCountdown = none)
    (hw : env.withOld g nd.oldState nd.value x = (σ', new, did)) :
    (recomputeOne env fuel n).run.run s =
      (maybeChangeValueManual env fuel n none did true).run.run
        (setWithOld n new σ'
          (logged [.inv s!"g{g}" n ((match nd.value with | some o => [o] | none => []) ++ [x])
            s!"{new.render},{did}"] (started n s))) :=
  recomputeOne_mapWithOld_run env fuel n s nd g i x σ' new did hn hv hk hg hx hp hw

example : exS.nodes[4]? = some (exS.nodeD 4) ∧ (exS.nodeD 4).kind = .mapWithOld 0 0 ∧ 0 < opBase ∧
    exS.value exEnv 0 = some (.int 1) ∧
    exEnv.withOld 0 (exS.nodeD 4).oldState (exS.nodeD 4).value (.int 1) = (.int 1, .int 2, true) :=
  ⟨rfl, rfl, by decide, rfl, rfl⟩

/-- `bind_main b lc` with a valid rhs `r0` that has value `v`: stamp, then `maybe_change_value` with
`v`. -/
theorem step_begin_bindMain (env : Env) (fuel n : Nat) (s : State) (nd : Node) (b lc r0 : Nat)
    (br : BindRec) (rn : Node) (v : Val)
    (hn : s.nodes[n]? = some nd) (hv : nd.valid = true) (hk : nd.kind = .bindMain b lc)
    (hb : s.binds[b]? = some br) (hr : br.rhs = some r0) (hrn : s.nodes[r0]? = some rn)
    (hrv : rn.valid = true) (hval : s.value env r0 = some v) :
    (recomputeOne env fuel n).run.run s = (maybeChangeValue env fuel n v).run.run (started n s) :=
  recomputeOne_bindMain_run env fuel n s nd b lc r0 br rn v hn hv hk hb hr hrn hrv hval

example : exS.nodes[6]? = some (exS.nodeD 6) ∧ (exS.nodeD 6).kind = .bindMain 0 0 ∧
    exS.binds[0]? = some { lhs := 0, body := 0, lhsChange := 0, main := 6, rhs := some 5 } ∧
    exS.nodes[5]? = some (exS.nodeD 5) ∧ (exS.nodeD 5).valid = true ∧
    exS.value exEnv 5 = some (.int 7) := ⟨rfl, rfl, rfl, rfl, rfl, rfl⟩

/-- An invalid node: the call panics (`invalid-node`) — but only after the stamp and the counter
bump; the final state is exactly `started n s`. -/
theorem step_invalid_node (env : Env) (fuel n : Nat) (s : State) (nd : Node)
    (hn : s.nodes[n]? = some nd) (hv : nd.valid = false) :
    (recomputeOne env fuel n).run.run s =
      (.error (.site "node:recompute_one:invalid-node"), started n s) :=
  recomputeOne_invalid_run env fuel n s nd hn hv

/-- `exS` with node 1 invalidated -/
def exSinvalid : State := { exS with nodes := exS.nodes.modify 1 fun x => { x with valid := false } }
example : exSinvalid.nodes[1]? = some (exSinvalid.nodeD 1) ∧ (exSinvalid.nodeD 1).valid = false :=
  ⟨rfl, rfl⟩

/-- A node that does not exist: the call panics (model-only panic site); the counter was bumped. -/
theorem step_missing_node (env : Env) (fuel n : Nat) (s : State) (hn : s.nodes[n]? = none) :
    (recomputeOne env fuel n).run.run s =
      (.error (.site "model:no-such-node"), started n s) :=
  recomputeOne_missing_run env fuel n s hn

example : exS.nodes[9]? = none := rfl

/-- Nothing in the step lowers the stamp: if the call returns (kinds of `Step.Computes`), then
`recomputedAt n = s.stabNum` in the final state, the `recomputed` counter went up by exactly one, the
round number did not move, and the node is still valid. -/
theorem step_stamp_kept (env : Env) (fuel n : Nat) (s s' : State) (nd : Node) (v σ : Val)
    (evs : List Event) (r : Option Nat)
    (hn : s.nodes[n]? = some nd) (hv : nd.valid = true) (hp : s.panicCountdown = none)
    (hc : Computes env s n nd v σ evs)
    (h : (recomputeOne env fuel n).run.run s = (.ok r, s')) :
    (s'.nodeD n).recomputedAt = s.stabNum ∧
    s'.counters.recomputed = s.counters.recomputed + 1 ∧
    s'.stabNum = s.stabNum ∧ (s'.nodeD n).valid = true := by
  have post := recomputeOne_post env fuel n s s' nd v σ evs r hn hv hp hc h
  refine ⟨post.recomputedAt, post.recomputed, post.frame.stabNum, ?_⟩
  rw [post.frame.valid n, nodeD_of_some hn]; exact hv

example : Computes exEnv exS 1 (exS.nodeD 1) (exEnv.fn 0 [.int 1]) (exS.nodeD 1).oldState
    [.inv s!"f{0}" 1 [.int 1] (exEnv.fn 0 [.int 1]).render] :=
  Computes.map 0 [0] [.int 1] rfl (by decide) rfl rfl
example : ∃ r s', (recomputeOne exEnv 5 1).run.run exS = (.ok r, s') :=
  (returned_iff _).1 (by decide +kernel)

/-- The stamp, for EVERY kind of node and EVERY outcome.  Whatever node `n` is (any kind, valid or
not), whatever the user closures run by the step do (bind bodies creating nodes, expert-node
callbacks adding and removing dependencies, var writes, invalidation cascades), whether or not an
injected fault is armed, and whether the call returns or panics (`r` is any result): in the final
state `recomputedAt n` is the current round, the round number is unchanged, the `recomputed` counter
went up by exactly one, and no node was removed.  (Invalidation also stamps `recomputedAt` with the
current round, so no validity proviso is needed.) -/
theorem step_stamp_all_kinds (env : Env) (fuel n : Nat) (s s' : State) (nd : Node)
    (r : Except Panic (Option Nat)) (hn : s.nodes[n]? = some nd)
    (h : (recomputeOne env fuel n).run.run s = (r, s')) :
    (s'.nodeD n).recomputedAt = s.stabNum ∧ s'.stabNum = s.stabNum ∧
      s'.counters.recomputed = s.counters.recomputed + 1 ∧ s.nodes.size ≤ s'.nodes.size :=
  recomputeOne_stamp env fuel n s s' nd r hn h

example : exS.nodes[3]? = some (exS.nodeD 3) ∧ (exS.nodeD 3).kind = .mapRef 0 0 ∧
    ∃ r s', (recomputeOne exEnv 5 3).run.run exS = (r, s') := ⟨rfl, rfl, _, _, rfl⟩

/-! ## 2. the function is invoked once, on the values of that moment -/

/-- `map f args` (user function, no side effects): the log of the final state is the log of the
initial state, then exactly one event `inv "f<f>" n vals result` — `vals` being the values of the
arguments IN THE PRE-STATE and `result = f vals` — then a tail consisting only of notification noise
(`Step.Noise`: `cut` events of cutoff checks, `inv "cb"` events of expert edge callbacks). -/
theorem step_map_invokes_once (env : Env) (fuel n : Nat) (s s' : State) (nd : Node) (f : Nat)
    (args : List Nat) (vals : List Val) (r : Option Nat)
    (hn : s.nodes[n]? = some nd) (hv : nd.valid = true) (hk : nd.kind = .map f args)
    (hf : f < fnZip) (hargs : args.map (s.value env) = vals.map some)
    (heff : env.fnEff f vals = []) (hp : s.panicCountdown = none)
    (h : (recomputeOne env fuel n).run.run s = (.ok r, s')) :
    ∃ tail, s'.log = tail ++ [Event.inv s!"f{f}" n vals (env.fn f vals).render] ++ s.log ∧
      ∀ e, e ∈ tail → Noise e :=
  (recomputeOne_map_post env fuel n s s' nd f args vals r hn hv hk hf
    ((valuesOf_eq_some_iff env s args vals).2 hargs) heff hp h).log

example : ((recomputeOne exEnv 5 1).run.run exS).2.log.length = 2 := by decide +kernel

/-- The invocation event of a map node's function is never itself a noise event (so "exactly one"
above is meaningful: the tail contains no second invocation of `f`). -/
theorem inv_is_not_noise (f n : Nat) (vals : List Val) (res : String) :
    ¬ Noise (.inv s!"f{f}" n vals res) :=
  inv_f_not_noise f n vals res

example : Noise (.cut 0 1 (.int 1) (.int 1) true) := trivial

/-! ## 3. the node is no longer stale -/

/-- After a step of a treated kind the node is not stale (`is_stale` is `false`), provided that in
the pre-state no child has a `changedAt` in the future (`≤ s.stabNum`; the step does not touch the
`changedAt` of any node other than `n`, see `C01.step_frame`), the node's own `changedAt` is not in
the future (matters only if the node is its own child), a var cell's `setAt` is not in the future,
and the round number is not the "never" timestamp. -/
theorem step_not_stale (env : Env) (fuel n : Nat) (s s' : State) (nd : Node) (v σ : Val)
    (evs : List Event) (r : Option Nat)
    (hn : s.nodes[n]? = some nd) (hv : nd.valid = true) (hp : s.panicCountdown = none)
    (hc : Computes env s n nd v σ evs)
    (h0 : 0 ≤ s.stabNum)
    (hself : nd.changedAt ≤ s.stabNum)
    (hch : ∀ c, c ∈ s.children n → (s.nodeD c).changedAt ≤ s.stabNum)
    (hvar : ∀ c vc, nd.kind = .var c → s.vars[c]? = some vc → vc.setAt ≤ s.stabNum)
    (h : (recomputeOne env fuel n).run.run s = (.ok r, s')) :
    s'.isStale n = false := by
  have post := recomputeOne_post env fuel n s s' nd v σ evs r hn hv hp hc h
  have hD := nodeD_of_some hn
  apply not_stale_after n s s' post.frame post.recomputedAt h0
  · rcases post.changedAt with h1 | h1
    · rw [h1]; exact Int.le_refl _
    · rw [h1, hD]; exact hself
  · rw [hD]; exact hc.not_expert
  · exact hch
  · rw [hD]; exact hvar

example : exS.isStale 0 = true ∧ (0 : Int) ≤ exS.stabNum ∧ (exS.nodeD 0).changedAt ≤ exS.stabNum ∧
    exS.children 0 = [] := ⟨rfl, by decide, by decide, rfl⟩
example : ((recomputeOne exEnv 5 0).run.run exS).2.isStale 0 = false := by decide +kernel

end IncrVerif.Props.C02
