import IncrVerif.Proofs.LeakH16
import IncrVerif.Props.C12
import IncrVerif.Props.C01History
/-!
# C12 (nothing leaks) for whole histories of static programs

C12, informally: "After all user handles to a subgraph (Incr, Var, Observer handles and closures holding them)
are dropped and one stabilise has run, every node of that subgraph has been released.  Handles may be dropped in
any order."  `Props/C12.lean` has the ownership model (`State.roots`, `State.aliveSet` = reachability from the
roots) and "the three drop actions only shrink the alive set"; what it lists as NOT proved — that after dropping
everything and ONE `stabilise` nothing is alive — is proved here for the static fragment of
`Props/C01History.lean`.

HISTORIES.  `acts ++ drops ++ [stabilise]`, run from `State.init N d` by `Quiet.runActions` (the fold of the
driver's `stepAction`, stopping at the first panic), where
* `acts` is ANY history of the static fragment (`Quiet.StaticAction env`: `create` of const/var/map/fold/zip over
  top-level operands, `observe`, `cloneObs`, `dropObs`, `disallow`, the five writes, `get`, `stabilise`,
  `isStable`, `stats`; user functions without effects) — so observers may already have been dropped, disallowed,
  unlinked, re-observed, and any number of `stabilise`s may have run;
* `drops` is ANY list of the four actions by which a program gives something up (`LeakH.DropAction`: `dropVar v`,
  `dropHandle n`, `dropObs o`, `disallow o`), in any order, with repetitions (a `dropObs`/`dropVar`/`dropHandle`
  of something that is not held any more is a no-op in the model), interleaved at will;
* after which the program holds nothing (`LeakH.HoldsNothing s`: `s.handles = []`, `s.slots = []`, every variable
  cell has `handles = 0`, every observer record has `clones = 0`; `holdsNothingB` is the same as a `Bool`).
No assumption on `cfg.debug`, the height limit, the fuel.

PROVED (partial correctness: each statement assumes that the calls return `.ok`; the LAST item is total).
* `all_dropped_then_stabilise_frees_everything`: for such a history, if the final `stabilise` returns `s'`, then
  `s'.roots = []` and `s'.aliveSet = []` (`C12.no_roots_nothing_alive`).  `history_frees_everything`: the same with
  the `stabilise` as the last action of the list.
* DROP-ORDER INDEPENDENCE, `drop_order_independent`: if `acts ++ drops` runs and ends with the program holding
  nothing, then for EVERY permutation `drops'` of `drops` the history `acts ++ drops'` also runs (no panic), also
  ends with the program holding nothing, and whatever the following `stabilise` returns has `aliveSet = []`.
  Behind it (`Proofs/LeakH9`, `LeakH10`): a drop that returns acts on the holdings `hold3 s` = (node handles, `Var`
  handle counts, observer clone counts) by `dropT`, a total function of the kind of the drop; the `dropT`s commute
  (`holdings_order_independent`: two permutations that run leave the same holdings); whether a drop returns depends
  only on the naming table, the shared cells and the numbers of cells/records, which no drop changes
  (`drops_run_iff_named`).  `drop_order_irrelevant`: the weaker form for a permutation that is known to run.
* `static_state_all_dropped`: the statement for a state reached by static actions alone (`drops = []`).
* `state_all_dropped` (state level): `DInv env s` and `HoldsNothing s` suffice.  `DInv env s` (`Proofs/LeakH6`):
  `Quiet.QInv env (strip s)` — the quiescent invariant of `C01History`, of the state with the program's node
  handles, `Var` handle counts and `deadVars` forgotten (the invariant never reads them: `qinv_strips`) —,
  `ObsDead s` (an observer with `clones = 0` is disallowed or unlinked) and `VarDead s` (a variable with
  `handles = 0` that is still linked to its watch node is queued in `deadVars`).
* what the final `stabilise` does, `stabilise_effect_on_roots` (= `LeakH.stabilise_freed`, from `QInv (strip s)`
  alone, dead variables allowed — `C01History.stabilise_pending` needs `deadVars = []`): program handles and shared
  cells unchanged; `vars = killVars deadVars vars` (exactly the queued cells get `linked := false`: `stabilise_end`
  breaks the `Var ↔ watch` cycle); the recompute heap is empty; every observer keeps `node` and `clones` and its
  state moves by `stabilisedState` (created ↦ in use, disallowed ↦ unlinked).
* the two history invariants behind it: `obsDead_every_history` — `ObsDead` holds after EVERY list of API actions
  from `State.init` (all actions of the model, no fragment restriction: `Observer::drop` of the last clone calls
  `disallow_future_use`, the lifecycle never moves back, `stabilise` keeps clone counts); `drop_phase_keeps` — each
  drop action keeps `DInv` (`dropVar`/`dropHandle` leave `strip s` unchanged, `dropObs`/`disallow` commute with
  `strip`).
* NODE HANDLES MAY BE DROPPED EARLY, `early_handle_drops_allowed`: the same (with drop-order independence) when
  `acts` interleaves `dropHandle` with the static actions (`LeakH.PrefixAction`), as programs do that keep only
  the observers and the `Var`s of a graph they have built; `exEarly`.
* TOTAL CORRECTNESS, `valid_history_frees_everything`: if `acts` is a VALID static history (`Quiet.ValidHist N 0 0 0
  acts`: existing indices, at most `N` nodes — `C01History.history_never_panics`), `3 * N + 4 ≤ fuelDefault`, every
  drop names something that exists after `acts` (`LeakH.OkCond`: the variable cell / the observer record exists,
  the operand of `dropHandle` resolves; `okCondB` is the same as a `Bool`), and the program holds nothing after
  the drops, then `acts ++ drops ++ [stabilise]` RUNS from `State.init N d` (no panic, no fuel exhaustion) and
  its final state has `roots = []`, `aliveSet = []`.  Behind it: `final_stabilise_returns`
  (= `LeakH.stabilise_total_strip`: `stabilise` returns from a state whose stripped form satisfies `QInv` and
  `TInv`, dead variables allowed; `stabiliseEnd_total_dead`), `TInv N (strip s)` is kept by the drops.
* Non-vacuity: `exStatic` (two vars, `map2`, `map`, `fold`, two observers, stabilise, set, stabilise) followed by
  `exDrops` (all nine handles in a mixed order) and by another order `exDrops'`: the history runs, `HoldsNothing`
  holds after the drops, the alive set is all five nodes before the drops, still non-empty after the drops and
  before the `stabilise` (the engine's own references: observers not yet unlinked, `Var ↔ watch` cycles), and `[]`
  after the `stabilise` — by evaluation AND by the theorems (`exAliveAfterDrops` and the `example`s after it: the
  partial theorem in both orders, the reversed order by `drop_order_independent` without evaluating it, and the total
  theorem: `exStatic_valid`, `namedAfter`); if only the first five drops are made, the `stabilise` releases n4 only
  (the hypothesis "holds nothing" matters).

ASSUMED.  Nothing beyond the hypotheses.  `roots`/`refsOf` are the ownership abstraction of `Engine/Alive.lean`
(validated against the crate by the differential check, not here).

NOT PROVED.
* `dropVar` INTERLEAVED with further static actions (dropping a `Var` handle, stabilising — which unlinks the
  variable — and going on): `StaticAction` has no `dropVar` (`C01History`'s `QInv` has `deadVars = []`); here the
  `Var` drops come after `acts` (`dropHandle` may come anywhere, `dropObs`/`disallow` are static actions); the
  total theorem is for prefixes of static actions only;
* the other half of C12, dropping the state itself (`dropAll`), and programs outside the static fragment (bind,
  map_ref, expert nodes, memo tables, subscriptions, shared cells that are filled: `slots` is always `[]` here).

OBSERVATION (model = crate): nodes are released only by the NEXT `stabilise` after the drops — an observer's node
stays rooted through `all_observers` until `unlink_disallowed_observers`, a variable's watch node through the
`Var ↔ watch` cycle until `stabilise_end`; `exAliveAfterDrops` shows this state.  No leak was found: every
ingredient listed in the task holds in the model.
-/
namespace IncrVerif.Props.C12History
open IncrVerif.Engine IncrVerif.Driver IncrVerif.Proofs IncrVerif.Proofs.Quiet IncrVerif.Proofs.LeakH

/-! ## state level -/

/-- what one `stabilise` does to the fields the ownership roots read; dead variables allowed -/
theorem stabilise_effect_on_roots {env : Env} {fuel : Nat} {s s' : State} (Q : QInv env (strip s))
    (h : (stabilise env fuel).run.run s = (.ok (), s')) :
    s'.handles = s.handles ∧ s'.slots = s.slots ∧ s'.vars = killVars s.deadVars s.vars ∧
    s'.rch.queues.toList.flatten = [] ∧ s'.observers.size = s.observers.size ∧
    ∀ (o : Nat) (ob : ObsRec), s.observers[o]? = some ob →
      ∃ ob', s'.observers[o]? = some ob' ∧ ob'.node = ob.node ∧ ob'.clones = ob.clones ∧
        ob'.state = stabilisedState ob.state :=
  let F := stabilise_freed Q h
  ⟨F.handles, F.slots, F.vars, F.heap, F.obsSize, F.obs⟩

/-- the quiescent invariant does not read the program's handles, `Var` handle counts, `deadVars` -/
theorem qinv_strips {env : Env} {s : State} (Q : QInv env s) : QInv env (strip s) := qinv_strip Q

/-- **C12, state level.** -/
theorem state_all_dropped {env : Env} {fuel : Nat} {s s' : State} (I : DInv env s) (H : HoldsNothing s)
    (h : (stabilise env fuel).run.run s = (.ok (), s')) : s'.roots = [] ∧ s'.aliveSet = [] :=
  have hr := freed_roots I H h
  ⟨hr, C12.no_roots_nothing_alive s' hr⟩

/-! ## the history invariants -/

/-- an observer without handles is disallowed or unlinked — after ANY list of API actions -/
theorem obsDead_every_history {env : Env} {N : Nat} {d : Bool} {acts : List Action} {s : State}
    {tk : Array Nat} (h : runActions env acts (State.init N d) #[] = .ok (s, tk)) : ObsDead s :=
  obsDead_run (obsDead_init N d) h

/-- each of `dropVar`, `dropHandle`, `dropObs`, `disallow` keeps `DInv` -/
theorem drop_phase_keeps {env : Env} {s s' : State} {a : Action} {tk : Array Nat} {r : String × Array Nat}
    (I : DInv env s) (ha : DropAction a) (h : (stepAction env a tk).run.run s = (.ok r, s')) : DInv env s' :=
  drop_step I ha h

/-- static history, then drops in any order: `DInv` -/
theorem history_then_drops {env : Env} {N : Nat} {d : Bool} {acts drops : List Action} {s : State}
    {tk : Array Nat} (ha : ∀ a, a ∈ acts → StaticAction env a) (hd : ∀ a, a ∈ drops → DropAction a)
    (h : runActions env (acts ++ drops) (State.init N d) #[] = .ok (s, tk)) : DInv env s :=
  history_dinv ha hd h

/-! ## C12 for whole histories -/

/-- **C12.** A history of the static fragment, then drops in any order after which the program holds nothing,
then one `stabilise`: nothing is alive. -/
theorem all_dropped_then_stabilise_frees_everything {env : Env} {N : Nat} {d : Bool} {fuel : Nat}
    {acts drops : List Action} {s s' : State} {tk : Array Nat}
    (ha : ∀ a, a ∈ acts → StaticAction env a) (hd : ∀ a, a ∈ drops → DropAction a)
    (hrun : runActions env (acts ++ drops) (State.init N d) #[] = .ok (s, tk)) (H : HoldsNothing s)
    (h : (stabilise env fuel).run.run s = (.ok (), s')) : s'.roots = [] ∧ s'.aliveSet = [] :=
  state_all_dropped (history_dinv ha hd hrun) H h

/-- the statement for a state reached by the static fragment alone -/
theorem static_state_all_dropped {env : Env} {N : Nat} {d : Bool} {fuel : Nat} {acts : List Action}
    {s s' : State} {tk : Array Nat} (ha : ∀ a, a ∈ acts → StaticAction env a)
    (hrun : runActions env acts (State.init N d) #[] = .ok (s, tk))
    (h1 : s.handles = []) (h2 : s.slots = [])
    (h3 : ∀ (c : Nat) (vc : VarCell), s.vars[c]? = some vc → vc.handles = 0)
    (h4 : ∀ (o : Nat) (ob : ObsRec), s.observers[o]? = some ob → ob.clones = 0)
    (h : (stabilise env fuel).run.run s = (.ok (), s')) : s'.aliveSet = [] :=
  (all_dropped_then_stabilise_frees_everything (drops := []) ha (fun _ hm => nomatch hm)
    (by rw [List.append_nil]; exact hrun) ⟨h1, h2, h3, h4⟩ h).2

/-- the same with the `stabilise` as the last action of the history -/
theorem history_frees_everything {env : Env} {N : Nat} {d : Bool} {acts drops : List Action} {s' : State}
    {tk' : Array Nat} (ha : ∀ a, a ∈ acts → StaticAction env a) (hd : ∀ a, a ∈ drops → DropAction a)
    (H : ∀ s tk, runActions env (acts ++ drops) (State.init N d) #[] = .ok (s, tk) → HoldsNothing s)
    (h : runActions env ((acts ++ drops) ++ [Action.stabilise]) (State.init N d) #[] = .ok (s', tk')) :
    s'.aliveSet = [] :=
  C12.no_roots_nothing_alive s' (history_freed ha hd H h)

/-- **Drop-order independence.** -/
theorem drop_order_independent {env : Env} {N : Nat} {d : Bool} {acts drops drops' : List Action} {s : State}
    {tk : Array Nat} (ha : ∀ a, a ∈ acts → StaticAction env a) (hd : ∀ a, a ∈ drops → DropAction a)
    (hp : drops'.Perm drops)
    (hrun : runActions env (acts ++ drops) (State.init N d) #[] = .ok (s, tk)) (H : HoldsNothing s) :
    ∃ s2 tk2, runActions env (acts ++ drops') (State.init N d) #[] = .ok (s2, tk2) ∧ HoldsNothing s2 ∧
      ∀ fuel s', (stabilise env fuel).run.run s2 = (.ok (), s') → s'.aliveSet = [] := by
  obtain ⟨s2, tk2, h2, H2, -, hfree⟩ := history_perm_freed ha hd hp hrun H
  exact ⟨s2, tk2, h2, H2, fun fuel s' hs => C12.no_roots_nothing_alive s' (hfree fuel s' hs)⟩

/-- the holdings (node handles, `Var` handle counts, observer clone counts) and the shared cells after two
permutations of a list of drops that both run from the same state are the same -/
theorem holdings_order_independent {env : Env} {drops drops' : List Action} {s s1 s2 : State}
    {tk tk1 tk2 : Array Nat} (hd : ∀ a, a ∈ drops → DropAction a) (hp : drops'.Perm drops)
    (h1 : runActions env drops s tk = .ok (s1, tk1)) (h2 : runActions env drops' s tk = .ok (s2, tk2)) :
    s2.handles = s1.handles ∧ s2.vars.map (·.handles) = s1.vars.map (·.handles) ∧
      s2.observers.map (·.clones) = s1.observers.map (·.clones) ∧ s2.slots = s1.slots :=
  have h := perm_hold hd hp h1 h2
  ⟨congrArg Hold3.handles h.1, congrArg Hold3.vars h.1, congrArg Hold3.obs h.1, h.2⟩

/-- a list of drops runs iff each drop names something that exists (`OkCond`: a variable cell, an observer
record, an operand that resolves), judged in the state before the first drop -/
theorem drops_run_iff_named {env : Env} {drops : List Action} {s : State} {tk : Array Nat}
    (hd : ∀ a, a ∈ drops → DropAction a) :
    (∃ s' tk', runActions env drops s tk = .ok (s', tk')) ↔ ∀ a, a ∈ drops → OkCond s a :=
  ⟨fun ⟨_, _, h⟩ => drops_conds_of_run (Frame4.refl s) hd h,
   fun hc => drops_run_of_conds (Frame4.refl s) hd hc⟩

/-- the weaker form: whichever permutation of the drops is run, if it ends with the program holding nothing -/
theorem drop_order_irrelevant {env : Env} {N : Nat} {d : Bool} {fuel : Nat}
    {acts drops drops' : List Action} {s s' : State} {tk : Array Nat}
    (ha : ∀ a, a ∈ acts → StaticAction env a) (hd : ∀ a, a ∈ drops → DropAction a)
    (hp : drops'.Perm drops)
    (hrun : runActions env (acts ++ drops') (State.init N d) #[] = .ok (s, tk)) (H : HoldsNothing s)
    (h : (stabilise env fuel).run.run s = (.ok (), s')) : s'.aliveSet = [] :=
  (all_dropped_then_stabilise_frees_everything ha (fun a hm => hd a (hp.mem_iff.1 hm)) hrun H h).2

/-- **node handles may be dropped at any time**: the prefix may interleave `dropHandle` with static actions -/
theorem early_handle_drops_allowed {env : Env} {N : Nat} {d : Bool} {acts drops drops' : List Action}
    {s : State} {tk : Array Nat} (ha : ∀ a, a ∈ acts → PrefixAction env a)
    (hd : ∀ a, a ∈ drops → DropAction a) (hp : drops'.Perm drops)
    (hrun : runActions env (acts ++ drops) (State.init N d) #[] = .ok (s, tk)) (H : HoldsNothing s) :
    ∃ s2 tk2, runActions env (acts ++ drops') (State.init N d) #[] = .ok (s2, tk2) ∧ HoldsNothing s2 ∧
      ∀ fuel s', (stabilise env fuel).run.run s2 = (.ok (), s') → s'.roots = [] ∧ s'.aliveSet = [] := by
  obtain ⟨s2, tk2, h2, H2, -, hfree⟩ := history_perm_freed_gen ha hd hp hrun H
  exact ⟨s2, tk2, h2, H2, fun fuel s' hs =>
    ⟨hfree fuel s' hs, C12.no_roots_nothing_alive s' (hfree fuel s' hs)⟩⟩

/-! ## total correctness -/

/-- the final `stabilise` returns: from a state whose stripped form satisfies the two invariants of
`C01History` (dead variables and dropped handles allowed) -/
theorem final_stabilise_returns {env : Env} {N fuel : Nat} {s : State} (Q : QInv env (strip s))
    (T : TInv N (strip s)) (hf : 3 * s.nodes.size + 4 ≤ fuel) :
    ∃ s', (stabilise env fuel).run.run s = (.ok (), s') :=
  stabilise_total_strip Q T hf

/-- **C12, total.** A valid static history, then drops of existing things after which the program holds nothing,
then `stabilise`: the history runs and nothing is alive at its end. -/
theorem valid_history_frees_everything {env : Env} {N : Nat} {d : Bool} {acts drops : List Action}
    (ha : ∀ a, a ∈ acts → StaticAction env a) (hv : ValidHist N 0 0 0 acts)
    (hd : ∀ a, a ∈ drops → DropAction a) (hfuel : 3 * N + 4 ≤ fuelDefault)
    (hnamed : ∀ s0 tk0, runActions env acts (State.init N d) #[] = .ok (s0, tk0) →
      ∀ a, a ∈ drops → OkCond s0 a)
    (H : ∀ s tk, runActions env (acts ++ drops) (State.init N d) #[] = .ok (s, tk) → HoldsNothing s) :
    ∃ s' tk', runActions env ((acts ++ drops) ++ [Action.stabilise]) (State.init N d) #[] = .ok (s', tk') ∧
      s'.roots = [] ∧ s'.aliveSet = [] := by
  obtain ⟨s', tk', h, hr⟩ := valid_history_freed ha hv hd hfuel hnamed H
  exact ⟨s', tk', h, hr, C12.no_roots_nothing_alive s' hr⟩

/-! ## non-vacuity -/

/-- n0 = var 1, n1 = var 2, n2 = n0 + n1, n3 = map n2, n4 = fold (+) 10 [n0, n3]; observers on n4 and n2 -/
def exStatic : List Action :=
  [.create (.var (.int 1)), .create (.var (.int 2)), .create (.map 0 [.outer 0, .outer 1]),
   .create (.map 0 [.outer 2]), .create (.fold 0 (.int 10) [.outer 0, .outer 3]),
   .observe (.outer 4), .observe (.outer 2), .stabilise, .set 0 (.int 5), .stabilise]

/-- all nine things the program holds, in a mixed order -/
def exDrops : List Action :=
  [.dropObs 1, .dropHandle (.outer 4), .dropVar 0, .dropHandle (.outer 0), .dropObs 0,
   .dropHandle (.outer 2), .dropVar 1, .dropHandle (.outer 1), .dropHandle (.outer 3)]

/-- another order: the reverse -/
def exDrops' : List Action := exDrops.reverse

theorem exStatic_static : ∀ a, a ∈ exStatic → StaticAction Step.exEnv a := by
  intro a ha
  simp only [exStatic, List.mem_cons, List.mem_nil_iff, or_false] at ha
  rcases ha with rfl | rfl | rfl | rfl | rfl | rfl | rfl | rfl | rfl | rfl
  all_goals first
    | trivial
    | (refine ⟨by decide, fun _ _ => rfl, ?_⟩
       intro a ha
       simp only [List.mem_cons, List.mem_nil_iff, or_false] at ha
       rcases ha with rfl | rfl <;> trivial)
    | (refine ⟨by decide, fun _ _ => rfl, ?_⟩
       intro a ha
       simp only [List.mem_cons, List.mem_nil_iff, or_false] at ha
       rcases ha with rfl; trivial)
    | (intro a ha
       simp only [List.mem_cons, List.mem_nil_iff, or_false] at ha
       rcases ha with rfl | rfl <;> trivial)

theorem exDrops_drop : ∀ a, a ∈ exDrops → DropAction a := by
  intro a ha
  simp only [exDrops, List.mem_cons, List.mem_nil_iff, or_false] at ha
  rcases ha with rfl | rfl | rfl | rfl | rfl | rfl | rfl | rfl | rfl <;> trivial

theorem exDrops'_perm : exDrops'.Perm exDrops := List.reverse_perm _

/-- the alive set after a history (`none`: it panicked) -/
def aliveAfter (env : Env) (acts : List Action) : Option (List Nat) :=
  match runActions env acts (State.init 128 true) #[] with
  | .ok (s, _) => some s.aliveSet
  | .error _ => none

/-- does the program hold nothing after the history? -/
def holdsNothingAfter (env : Env) (acts : List Action) : Bool :=
  match runActions env acts (State.init 128 true) #[] with
  | .ok (s, _) => holdsNothingB s
  | .error _ => false

theorem holdsNothingAfter_iff {env : Env} {acts : List Action} (h : holdsNothingAfter env acts = true) :
    ∃ s tk, runActions env acts (State.init 128 true) #[] = .ok (s, tk) ∧ HoldsNothing s := by
  unfold holdsNothingAfter at h
  rcases hx : runActions env acts (State.init 128 true) #[] with e | ⟨s, tk⟩
  · rw [hx] at h; cases h
  · rw [hx] at h; exact ⟨s, tk, rfl, holdsNothing_of_B h⟩

set_option maxRecDepth 100000 in
/-- by evaluation: before the drops all five nodes are alive; after the drops (either order) the program holds
nothing but the engine still does; after the `stabilise` nothing is alive; if only the first five drops are made
(both observers, the handles on n4 and n0, the first `Var`), the `stabilise` releases n4 only -/
theorem exAliveAfterDrops :
    aliveAfter Step.exEnv exStatic = some [1, 2, 3, 0, 4] ∧
    holdsNothingAfter Step.exEnv (exStatic ++ exDrops) = true ∧
    holdsNothingAfter Step.exEnv (exStatic ++ exDrops') = true ∧
    (aliveAfter Step.exEnv (exStatic ++ exDrops)).map List.isEmpty = some false ∧
    aliveAfter Step.exEnv ((exStatic ++ exDrops) ++ [.stabilise]) = some [] ∧
    aliveAfter Step.exEnv ((exStatic ++ exDrops') ++ [.stabilise]) = some [] ∧
    aliveAfter Step.exEnv ((exStatic ++ exDrops.take 5) ++ [.stabilise]) = some [1, 0, 2, 3] :=
  ⟨by decide +kernel, by decide +kernel, by decide +kernel, by decide +kernel, by decide +kernel,
    by decide +kernel, by decide +kernel⟩

/-- … and by the theorem: the hypotheses of `all_dropped_then_stabilise_frees_everything` hold for the example
(in both orders), so whatever the final `stabilise` returns has an empty alive set -/
example {fuel : Nat} : ∃ s tk, runActions Step.exEnv (exStatic ++ exDrops) (State.init 128 true) #[] = .ok (s, tk) ∧
    DInv Step.exEnv s ∧ HoldsNothing s ∧
    ∀ s', (stabilise Step.exEnv fuel).run.run s = (.ok (), s') → s'.aliveSet = [] := by
  obtain ⟨s, tk, h, H⟩ := holdsNothingAfter_iff exAliveAfterDrops.2.1
  exact ⟨s, tk, h, history_then_drops exStatic_static exDrops_drop h, H, fun s' hs =>
    (all_dropped_then_stabilise_frees_everything exStatic_static exDrops_drop h H hs).2⟩

example {fuel : Nat} : ∃ s tk, runActions Step.exEnv (exStatic ++ exDrops') (State.init 128 true) #[] = .ok (s, tk) ∧
    ∀ s', (stabilise Step.exEnv fuel).run.run s = (.ok (), s') → s'.aliveSet = [] := by
  obtain ⟨s, tk, h, H⟩ := holdsNothingAfter_iff exAliveAfterDrops.2.2.1
  exact ⟨s, tk, h, fun s' hs => drop_order_irrelevant exStatic_static exDrops_drop exDrops'_perm h H hs⟩

/-- the reversed order, by `drop_order_independent` from the first order (nothing evaluated for `exDrops'`) -/
example : ∃ s2 tk2, runActions Step.exEnv (exStatic ++ exDrops') (State.init 128 true) #[] = .ok (s2, tk2) ∧
    HoldsNothing s2 ∧
    ∀ fuel s', (stabilise Step.exEnv fuel).run.run s2 = (.ok (), s') → s'.aliveSet = [] := by
  obtain ⟨s, tk, h, H⟩ := holdsNothingAfter_iff exAliveAfterDrops.2.1
  exact drop_order_independent exStatic_static exDrops_drop exDrops'_perm h H

/-- a program that keeps only the observer and the `Var`: the node handles are dropped while the graph is built -/
def exEarly : List Action :=
  [.create (.var (.int 1)), .create (.map 0 [.outer 0]), .dropHandle (.outer 0), .observe (.outer 1),
   .dropHandle (.outer 1), .stabilise, .set 0 (.int 5), .stabilise]

theorem exEarly_prefix : ∀ a, a ∈ exEarly → PrefixAction Step.exEnv a := by
  intro a ha
  simp only [exEarly, List.mem_cons, List.mem_nil_iff, or_false] at ha
  rcases ha with rfl | rfl | rfl | rfl | rfl | rfl | rfl | rfl
  all_goals first
    | exact Or.inr ⟨_, rfl⟩
    | exact Or.inl trivial
    | (refine Or.inl ⟨by decide, fun _ _ => rfl, ?_⟩
       intro a ha
       simp only [List.mem_cons, List.mem_nil_iff, or_false] at ha
       rcases ha with rfl; trivial)

set_option maxRecDepth 100000 in
example : aliveAfter Step.exEnv exEarly = some [1, 0] ∧
    holdsNothingAfter Step.exEnv (exEarly ++ [.dropObs 0, .dropVar 0]) = true ∧
    aliveAfter Step.exEnv ((exEarly ++ [.dropObs 0, .dropVar 0]) ++ [.stabilise]) = some [] :=
  ⟨by decide +kernel, by decide +kernel, by decide +kernel⟩

set_option maxRecDepth 100000 in
example : ∃ s2 tk2, runActions Step.exEnv (exEarly ++ [.dropVar 0, .dropObs 0]) (State.init 128 true) #[]
    = .ok (s2, tk2) ∧ HoldsNothing s2 ∧
    ∀ fuel s', (stabilise Step.exEnv fuel).run.run s2 = (.ok (), s') → s'.roots = [] ∧ s'.aliveSet = [] := by
  obtain ⟨s, tk, h, H⟩ := holdsNothingAfter_iff
    (env := Step.exEnv) (acts := exEarly ++ [.dropObs 0, .dropVar 0]) (by decide +kernel)
  refine early_handle_drops_allowed exEarly_prefix ?_ (List.Perm.swap _ _ []) h H
  intro a ha
  simp only [List.mem_cons, List.mem_nil_iff, or_false] at ha
  rcases ha with rfl | rfl <;> trivial

theorem exStatic_valid : ValidHist 128 0 0 0 exStatic := by
  simp only [exStatic, ValidHist, ActionOKc, grow, fuelDefault]
  refine ⟨⟨trivial, by decide⟩, ⟨trivial, by decide⟩, ⟨?_, by decide⟩, ⟨?_, by decide⟩, ⟨?_, by decide⟩,
    ⟨4, rfl, by decide⟩, ⟨2, rfl, by decide⟩, by decide, by decide, by decide, trivial⟩
  all_goals
    intro a ha
    simp only [List.mem_cons, List.mem_nil_iff, or_false] at ha
    first
      | (rcases ha with rfl | rfl <;> exact ⟨_, rfl, by decide⟩)
      | (rcases ha with rfl; exact ⟨_, rfl, by decide⟩)

/-- do all the drops name existing things after the history? -/
def namedAfter (env : Env) (acts drops : List Action) : Bool :=
  match runActions env acts (State.init 128 true) #[] with
  | .ok (s, _) => drops.all (okCondB s)
  | .error _ => false

set_option maxRecDepth 100000 in
/-- the total theorem applies to the example: the history is valid, the drops name existing things, the program
holds nothing after them; hence (PROVED, not evaluated) the whole history runs and ends with nothing alive -/
example : ∃ s' tk', runActions Step.exEnv ((exStatic ++ exDrops) ++ [.stabilise]) (State.init 128 true) #[]
    = .ok (s', tk') ∧ s'.roots = [] ∧ s'.aliveSet = [] := by
  refine valid_history_frees_everything exStatic_static exStatic_valid exDrops_drop (by decide) ?_ ?_
  · intro s0 tk0 h0 a ha
    have hn : namedAfter Step.exEnv exStatic exDrops = true := by decide +kernel
    unfold namedAfter at hn
    rw [h0] at hn
    exact okCond_of_B (List.all_eq_true.1 hn a ha)
  · intro s tk hr
    have hh := exAliveAfterDrops.2.1
    unfold holdsNothingAfter at hh
    rw [hr] at hh
    exact holdsNothing_of_B hh

end IncrVerif.Props.C12History
