import IncrVerif.Proofs.MapRef29
/-!
# C01 for programs with `map_ref`: glitch-free propagation and the `didChange` invariant

Extension of `Props/C01Global.lean` (scheduling theorem, static fragment) and `Props/C01History.lean` (whole
histories of static programs) to the fragment STATIC + `map_ref`, the place of the two repaired defects D1
(`markMapRefUnknown` when a map_ref node becomes necessary while stale; sticky `didChange`; reset on recompute) and
D15 (a map_ref parent linking to a map_ref child whose change is still pending).

FRAGMENT (`MapRefH.RFrag env s`).  Every node of the state is valid and of kind `const`, `var`, `map f args` with
`f < projBase = 1000003` (a user function `f < fnZip`, which must have no side effects, or one of the built-ins
`fnZip`/`fnFirst`/`fnIdent`), `fold`, or `mapRef p input` with `p < 999997` (`projBase + p < fnPerKey`); the children
of a node were created before it (so chains `x.map_ref(p).map_ref(q)` of any length, map_ref nodes with several
parents, observed directly, unobserved and re-observed are all in the fragment); map_ref nodes have the default cutoff
`.eq`, the other nodes `.eq` or `.never` in M1 (`.eq` in M2/M3); no fault armed.  Both `cfg.debug` settings.

METHOD.  `virt g s` (`Proofs/MapRef1.lean`): the VIRTUAL STATIC STATE — every `mapRef p i` node is replaced by the
static node `map (projBase + p) [i]` that STORES the ghost value `g n`: "the projection the parents of `n` last
consumed"; `virtEnv env` interprets the function ids `projBase + p` as the projections `env.proj p`.  Parents, heights,
stamps, heap, staleness and necessity are the same in `s` and `virt g s`.  The invariants of the static fragment are
required of the virtual state; the actual engine SIMULATES the static engine on the virtual state
(`Proofs/MapRef3…9`: `Sim g x x'`) for everything except the recompute step of a map_ref node, whose effect on the
virtual state is described directly by `Sched.StepRel`.

THE `didChange` INVARIANT (`MapRefH.KInv env g s`): for every NECESSARY map_ref node `m` whose flag is DOWN, the ghost
value is what `m` reads now: `g m = s.value env m`.  Together with the consistency of the virtual state (a necessary,
non-stale parent `q` of `m` stores `F(… g m …)`) this says: the parents of a map_ref node must be re-run exactly when
the projection they consumed is no longer current, and whenever that is so the flag is up — so the node will fire
(`changedAt := now`) when it is recomputed, which it is because the scheduling invariant of the virtual state keeps it
stale-and-queued.  Preservation: `Proofs/MapRef10…12` (`childChanged_flags`: a successful `child_changed` raises the
flag of every map_ref node at or above the parent whose read value changed — this is where the cutoff `.eq` of the
map_ref nodes and the stickiness `didChange || did` enter; `mcvm_flags`, `mcv_keepsK`), `MapRef14` (the map_ref node's
own step resets the flag and re-defines the ghost value).

PROVED HERE.  M1 (single round; for the model, every state of the fragment, no bounds; partial correctness: each
statement assumes that the call returns `(.ok _, s')`).
* `recomputeOne_inv`, `recompute_inv`, `pop_recompute_inv`, `drainHeap_inv`: the drain invariant
  `MapRefH.DInvR env s g x` (`RFrag`; `Sched.Inv (virtEnv env) (virt g s) x`; `KInv env g s`;
  `propagateInvalidity = []`) is re-established, for new ghost values, by a successful `recomputeOne` on the current
  node (the analogue of `C01Global.recomputeOne_inv`, now with the `child_changed` recursion through chains of map_ref
  nodes and the `didChange` flags), by the direct-recompute chain, by a pop + `recompute`, and by `drainHeap`, which ends
  with an empty heap.
* `drained_values`: with the drain invariant and an empty heap every necessary node is valid, not stale, and its VALUE
  AS READ (`State.value env n`, which computes through map_ref nodes) is the from-scratch evaluation
  `MapRefH.evalR env s k n` (`mapRef p i ↦ env.proj p (evalR i)`).  `drainHeap_values`: hence after a successful
  `drainHeap` every necessary node reads its from-scratch value on the graph and variables of the initial state.

M2 (between API actions; `Proofs/MapRef17…`).  `MapRefH.QInvR env s g`: `RFrag`, the invariant `Quiet.QInv` of the
static fragment for the virtual state `virt g s`, and `KInv env g s`; `QInvRE env s := ∃ g, QInvR env s g`.
* `stabilise_pending`: from `QInvR` with ARBITRARY pending new/disallowed observers a successful `stabilise` ends in
  `QInvR` (new ghost values) with both lists empty, every necessary node non-stale and READING `evalR`; the state in
  which `drainHeap` starts satisfies the drain invariant of M1 (`StabilisedR.drain`).  The linking cascade
  (`addNewObservers`) is where D1 and D15 live: `Proofs/MapRef20…22` (`becameNecessary_keepsK`) prove that the
  `didChange` invariant is re-established for every node that becomes necessary — a stale map_ref node is marked
  together with the map_ref parents that have just linked to it (D1), and a map_ref parent linking to an
  already-necessary map_ref child whose flag is up is marked (D15); a non-stale map_ref node is unclean only through
  an unclean map_ref input (`Inherit`, from the consistency of ALL non-stale nodes in `QInv`).
* `action_keeps`: every API action of the fragment (`MapRefH.MapRefAction env a`: creation of `const`, `var`, pure `map`,
  `fold`, `zip`, `mapRef`, with operands naming top-level nodes; `observe`, `cloneObs`, `dropObs`, `disallow`; `set`,
  `modify`, `update`, `replace`, `replaceWith`, `get`; `stabilise`, `isStable`, `stats`) that returns keeps `QInvRE`.

M3 (whole histories).  `init_inv`, `history_inv`: every state reached from `State.init N d` by a history of actions of the
fragment satisfies `QInvRE`.  `history_every_stabilise`: at every `stabilise` of such a history the state before satisfies
the invariant, and afterwards EVERY OBSERVER IN USE READS THE FROM-SCRATCH VALUE of its node
(`MapRefH.ReadsOKR`: `tryGetValue env o = .ok v` with `evalR env s k (node of o) = some v`), no necessary node is stale,
every observer is in use or unlinked.  This is C01 for programs with map_ref — the statement D1 and D15 violated.
Non-vacuity: the two corpus histories `corpus/C01/d1_mapref_relink.hist` and `d15_mapref_late_parent.hist` are
histories of the fragment, run, and their final reads are the from-scratch values (`decide +kernel`).

ASSUMED / NOT PROVED.  Partial correctness throughout: every statement assumes that the call returns `(.ok _, s')`
(total correctness — that valid histories of the fragment never panic, the analogue of
`C01History.history_never_panics` — is NOT proved for the extended fragment).  Not in the fragment: `map_with_old`,
bind, expert nodes, `dependOn`/custom/`never`-on-map_ref cutoffs, functions with effects, memoised calls, subscriptions,
`dropVar`, `dropHandle`, `dropAll`, `setMaxHeight`, faults; projection ids `p ≥ 999997` and user function ids
`f ≥ 1000003` (the virtual encoding needs the id range `[projBase, fnPerKey)` for the projections).  "A node runs at most
once per round" (`drain_once`) is not restated for the extended fragment.  No counterexample was found: the invariant is
inductive, and 10000 random histories of the fragment (chains, re-observation) agree with the from-scratch oracle.
-/
namespace IncrVerif.Props.C01MapRef
open IncrVerif.Engine IncrVerif.Driver IncrVerif.Proofs IncrVerif.Proofs.Sched IncrVerif.Proofs.Quiet IncrVerif.Proofs.MapRefH

/-! ## M1: one round -/

/-- **M1, one `recomputeOne`.** On the current node `n` of the drain invariant a successful `recomputeOne`
re-establishes the invariant — for new ghost values `g'` — with the parent handed over for direct recomputation
(if any) as the new current node; the virtual graph is unchanged and `n` is stamped. -/
theorem recomputeOne_inv {env : Env} {g : Nat → Option Val} {fuel n : Nat} {s s' : State} {r : Option Nat}
    (D : DInvR env s g (some n)) (h : (recomputeOne env fuel n).run.run s = (.ok r, s')) :
    ∃ g', DInvR env s' g' r ∧ Frame (virt g s) (virt g' s') ∧
      ((virt g' s').nodeD n).recomputedAt = s.stabNum := by
  obtain ⟨g', D', f, hr⟩ := recomputeOneR_inv D h
  exact ⟨g', D', f.frame, hr⟩

/-- **M1, the direct-recompute chain.** -/
theorem recompute_inv {env : Env} {g : Nat → Option Val} {fuel n : Nat} {s s' : State}
    (D : DInvR env s g (some n)) (h : (recompute env fuel n).run.run s = (.ok (), s')) :
    ∃ g', DInvR env s' g' none ∧ Frame (virt g s) (virt g' s') := by
  obtain ⟨g', D', f⟩ := recomputeR_inv fuel n s s' g D h
  exact ⟨g', D', f.frame⟩

/-- **M1, one pop of `drainHeap`.** -/
theorem pop_recompute_inv {env : Env} {g : Nat → Option Val} {fuel n : Nat} {s s1 s' : State}
    (D : DInvR env s g none) (hpop : rchRemoveMin.run.run s = (.ok (some n), s1))
    (hrec : (recompute env fuel n).run.run s1 = (.ok (), s')) :
    ∃ g', DInvR env s' g' none ∧ Frame (virt g s) (virt g' s') := by
  obtain ⟨g', D', f⟩ := popR_recompute D hpop hrec
  exact ⟨g', D', f.frame⟩

/-- **M1, the drain.** A successful `drainHeap` from the drain invariant ends with the drain invariant and an empty
heap. -/
theorem drainHeap_inv {env : Env} {fuel : Nat} {s s' : State} (D : DrainInvR env s)
    (h : (drainHeap env fuel).run.run s = (.ok (), s')) : DrainInvR env s' ∧ s'.rch.length = 0 := by
  obtain ⟨g, D⟩ := D
  obtain ⟨g', D', he, -⟩ := drainHeapR_inv fuel s s' g D h
  exact ⟨⟨g', D'⟩, he⟩

/-- **M1, L1.** With the drain invariant and an empty heap, every necessary node is valid, is not stale, and what it
READS is its from-scratch evaluation. -/
theorem drained_values {env : Env} {s : State} (D : DrainInvR env s) (he : s.rch.length = 0) (n : Nat)
    (hn : s.isNecessary n = true) (k : Nat) (hk : (s.nodeD n).height.toNat < k) :
    (s.nodeD n).valid = true ∧ s.isStale n = false ∧ s.value env n = evalR env s k n ∧
      (evalR env s k n).isSome = true := by
  obtain ⟨g, D⟩ := D
  exact drainedR_values D he n hn k hk

/-- **M1: glitch-free propagation through map_ref nodes.** After a successful `drainHeap` from the drain invariant
every necessary node is (still) necessary, is not stale, and reads its from-scratch value — evaluated in the graph and
on the variable values of the initial state (which are those of the final state). -/
theorem drainHeap_values {env : Env} {fuel : Nat} {s s' : State} (D : DrainInvR env s)
    (h : (drainHeap env fuel).run.run s = (.ok (), s')) :
    s'.vars = s.vars ∧ ∀ n, s.isNecessary n = true → ∀ k, (s.nodeD n).height.toNat < k →
      s'.isNecessary n = true ∧ s'.isStale n = false ∧ s'.value env n = evalR env s k n ∧
        (evalR env s k n).isSome = true := by
  obtain ⟨g, D⟩ := D
  obtain ⟨-, -, -, -, hv, hall⟩ := drainHeapR_values D h
  exact ⟨hv, hall⟩

/-! ## M2: between API actions -/

/-- **M2, `stabilise` with pending observers.** See `MapRefH.StabilisedR` for the fields: `inv : QInvR env s' g'`,
`virt` (the conclusions of `C01History.stabilise_pending` for the virtual states: both observer lists empty, variables
and kinds unchanged, round number bumped, created observers in use, disallowed ones unlinked), `values` (every
necessary node is not stale and READS `evalR env s' k n`, which exists), `drain` (the state in which `drainHeap` starts
satisfies the drain invariant of M1; the drain ends with it and an empty heap). -/
theorem stabilise_pending {env : Env} {g : Nat → Option Val} {fuel : Nat} {s s' : State} (Q : QInvR env s g)
    (h : (stabilise env fuel).run.run s = (.ok (), s')) : ∃ g', StabilisedR env fuel s s' g g' :=
  stabiliseR Q h

/-- after a `stabilise` every in-use observer reads the from-scratch value of its node; no observer is pending; no
necessary node is stale -/
theorem stabilise_reads {env : Env} {g : Nat → Option Val} {fuel : Nat} {s s' : State} (Q : QInvR env s g)
    (h : (stabilise env fuel).run.run s = (.ok (), s')) :
    ReadsOKR env s' ∧ ObsSettled s' ∧ ∀ n, s'.isNecessary n = true → s'.isStale n = false := by
  obtain ⟨g', R⟩ := stabiliseR Q h
  exact stabilisedR_reads R

/-- **M2.** Every API action of the fragment static + map_ref that returns keeps the invariant. -/
theorem action_keeps {env : Env} {s s' : State} {a : Action} {tokens : Array Nat} {r : String × Array Nat}
    (Q : QInvRE env s) (ha : MapRefAction env a)
    (h : (stepAction env a tokens).run.run s = (.ok r, s')) : QInvRE env s' :=
  stepR Q ha h

/-- the invariant gives the drain invariant of M1 once nothing is pending: what `stabilise` drains -/
theorem inv_static {env : Env} {g : Nat → Option Val} {s : State} (Q : QInvR env s g) :
    RFrag env s ∧ QInv (virtEnv env) (virt g s) ∧ KInv env g s := ⟨Q.frag, Q.q, Q.k⟩

/-! ## M3: whole histories -/

theorem init_inv (env : Env) (maxHeight : Nat) (debug : Bool) : QInvRE env (State.init maxHeight debug) :=
  init_invR env maxHeight debug

theorem history_inv {env : Env} {N : Nat} {d : Bool} {acts : List Action} {s : State} {tk : Array Nat}
    (ha : ∀ a, a ∈ acts → MapRefAction env a)
    (h : runActions env acts (State.init N d) #[] = .ok (s, tk)) : QInvRE env s :=
  historyR ha h

/-- **M3: C01 for programs with map_ref.** At every `stabilise` of a history of actions of the fragment that runs from
the initial state: afterwards every observer in use reads the from-scratch value of its node. -/
theorem history_every_stabilise {env : Env} {N : Nat} {d : Bool} {as bs : List Action} {s : State}
    {tk : Array Nat} (ha : ∀ a, a ∈ as ++ Action.stabilise :: bs → MapRefAction env a)
    (h : runActions env (as ++ Action.stabilise :: bs) (State.init N d) #[] = .ok (s, tk)) :
    ∃ s1 tk1 s2, runActions env as (State.init N d) #[] = .ok (s1, tk1) ∧ QInvRE env s1 ∧
      (stabilise env fuelDefault).run.run s1 = (.ok (), s2) ∧ QInvRE env s2 ∧
      ReadsOKR env s2 ∧ ObsSettled s2 ∧ (∀ n, s2.isNecessary n = true → s2.isStale n = false) ∧
      runActions env bs s2 tk1 = .ok (s, tk) := by
  obtain ⟨s1, tk1, s2, g1, g2, h1, Q1, h2, R, h3, h4, h5, h6⟩ := historyR_stabilise ha h
  exact ⟨s1, tk1, s2, h1, ⟨g1, Q1⟩, h2, ⟨g2, R.inv⟩, h3, h4, h5, h6⟩

/-! ## non-vacuity: the two corpus histories of the repaired defects -/

/-- the definitions of the corpus histories: `proj p0 id`, `proj p1 fst`, `proj p2 snd`; `fn f<i> lin m c0 c1`;
`folddef fold<i> m a b c` -/
def exEnvM : Env where
  fn := fun f args =>
    if f == fnZip then (match args with | [a, b] => .pair a b | _ => .unit)
    else
      let x : Int := (args.headD .unit).toInt
      match f with
      | 0 => .int (emod (0 + 1 * x) 7)
      | 1 => .int (emod (2 + 2 * x) 7)
      | 2 => .int (emod (1 + 3 * x) 7)
      | 3 => .int (emod (1 + 2 * x) 2)
      | 4 => .int (emod (3 + 2 * x) 3)
      | _ => .int 0
  fnEff := fun _ _ => []
  foldStep := fun f acc x =>
    match f with
    | 0 => .int (emod (2 * acc.toInt + 3 * x.toInt + 0) 3)
    | 1 => .int (emod (2 * acc.toInt + 2 * x.toInt + 0) 7)
    | _ => acc
  proj := fun p v =>
    match p with
    | 1 => (match v with | .pair a _ => a | o => o)
    | 2 => (match v with | .pair _ b => b | o => o)
    | _ => v
  withOld := fun _ σ _ x => (σ, x, true)
  cutoff := fun _ a b => a == b
  body := fun _ _ => { instrs := [], ret := .outer 0 }
  handler := fun _ _ => []
  expertFn := fun _ _ _ => .unit
  withOldCalls := fun _ _ _ _ => []
  memo := fun _ => { instrs := [], ret := .abs 0 }
  perKey := fun _ => { instrs := [], ret := .loc 0 }

/-- `corpus/C01/d1_mapref_relink.hist` (D1): a map_ref node unlinked, its input changes, re-linked -/
def histD1 : List Action :=
  [.create (.var (.pair (.int 1) (.int 1))), .create (.mapRef 1 (.outer 0)), .create (.map 0 [.outer 1]),
   .observe (.outer 0), .observe (.outer 2), .stabilise, .set 0 (.pair (.int 1) (.int 2)), .stabilise,
   .dropObs 1, .set 0 (.pair (.int 2) (.int 2)), .stabilise, .observe (.outer 2), .stabilise]

/-- `corpus/C01/d15_mapref_late_parent.hist` (D15): a map_ref parent links to a map_ref child with a pending change -/
def histD15 : List Action :=
  [.create (.var (.int 4)), .create (.var (.int 1)), .create (.var (.int 0)),
   .create (.var (.pair (.int 0) (.int 1))), .create (.mapRef 1 (.outer 3)), .create (.mapRef 0 (.outer 4)),
   .create (.map 0 [.outer 5]), .observe (.outer 3), .observe (.outer 6), .stabilise, .disallow 1,
   .observe (.outer 6), .create (.mapRef 2 (.outer 4)), .disallow 2,
   .create (.fold 0 (.int 2) [.outer 4, .outer 6, .outer 4]), .observe (.outer 5),
   .create (.fold 1 (.int 2) [.outer 8, .outer 1, .outer 5]), .create (.mapRef 1 (.outer 0)),
   .create (.mapRef 0 (.outer 5)), .dropObs 3, .create (.zip (.outer 9) (.outer 8)), .create (.map 1 [.outer 12]),
   .set 3 (.pair (.int 1) (.int 1)), .create (.mapRef 2 (.outer 13)), .create (.map 2 [.outer 10]),
   .create (.zip (.outer 3) (.outer 7)), .create (.map 3 [.outer 16]), .create (.zip (.outer 17) (.outer 11)),
   .create (.map 4 [.outer 18]), .stabilise, .observe (.outer 19), .observe (.outer 6), .stabilise]

/-- a decidable version of `MapRefAction exEnvM` for the actions used in the examples -/
def okAction : Action → Bool
  | .create (.const _) | .create (.var _) => true
  | .create (.map f args) => decide (f < 5) && args.all fun o => match o with | .outer _ => true | _ => false
  | .create (.fold _ _ cs) => cs.all fun o => match o with | .outer _ => true | _ => false
  | .create (.zip (.outer _) (.outer _)) => true
  | .create (.mapRef p (.outer _)) => decide (p < 3)
  | .observe (.outer _) => true
  | .cloneObs _ | .dropObs _ | .disallow _ => true
  | .set _ _ | .modify _ _ | .update _ _ | .replace _ _ | .replaceWith _ _ | .get _ => true
  | .stabilise | .isStable | .stats => true
  | _ => false

set_option linter.unusedSimpArgs false in
theorem okAction_sound {a : Action} (h : okAction a = true) : MapRefAction exEnvM a := by
  have hall : ∀ (l : List Opnd), (l.all fun o => match o with | .outer _ => true | _ => false) = true →
      ∀ a, a ∈ l → OpndOK a := by
    intro l hl a ha
    have := List.all_eq_true.1 hl a ha
    cases a <;> first | trivial | cases this
  cases a <;> (try simp only [okAction] at h) <;> try (first | trivial | cases h)
  case create i =>
    cases i <;> (try simp only [okAction] at h) <;> try (first | trivial | cases h)
    case map f args =>
      simp only [Bool.and_eq_true, decide_eq_true_eq] at h
      refine ⟨by have := h.1; unfold projBase; omega, fun _ _ => rfl, hall args h.2⟩
    case fold f init cs => exact hall cs h
    case zip a b =>
      cases a <;> cases b <;> (try simp only [okAction] at h) <;> first | exact ⟨trivial, trivial⟩ | cases h
    case mapRef p i =>
      cases i <;> (try simp only [okAction] at h) <;> try cases h
      simp only [decide_eq_true_eq] at h
      exact ⟨by unfold projBase fnPerKey; omega, trivial⟩
  case observe n => cases n <;> (try simp only [okAction] at h) <;> first | trivial | cases h

theorem histD1_ok : ∀ a, a ∈ histD1 → MapRefAction exEnvM a := by
  intro a ha
  exact okAction_sound (List.all_eq_true.1 (by decide : histD1.all okAction = true) a ha)

theorem histD15_ok : ∀ a, a ∈ histD15 → MapRefAction exEnvM a := by
  intro a ha
  exact okAction_sound (List.all_eq_true.1 (by decide : histD15.all okAction = true) a ha)

/-- did the history run? -/
def ranOk (env : Env) (acts : List Action) : Bool :=
  match runActions env acts (State.init 128 true) #[] with
  | .ok _ => true
  | .error _ => false

/-- what observer `o` reads after the history -/
def readAfter (env : Env) (acts : List Action) (o : Nat) : Option Val :=
  match runActions env acts (State.init 128 true) #[] with
  | .ok (s, _) => match s.tryGetValue env o with | .ok v => some v | .error _ => none
  | .error _ => none

theorem ranOk_iff {env : Env} {acts : List Action} (h : ranOk env acts = true) :
    ∃ s tk, runActions env acts (State.init 128 true) #[] = .ok (s, tk) := by
  unfold ranOk at h
  rcases hx : runActions env acts (State.init 128 true) #[] with e | ⟨s, tk⟩
  · rw [hx] at h; cases h
  · exact ⟨s, tk, rfl⟩

set_option maxRecDepth 100000 in
/-- both corpus histories run (so `history_every_stabilise` applies to each of their `stabilise`s) and their final
states satisfy the invariant -/
example : (∃ s tk, runActions exEnvM histD1 (State.init 128 true) #[] = .ok (s, tk) ∧ QInvRE exEnvM s) ∧
    (∃ s tk, runActions exEnvM histD15 (State.init 128 true) #[] = .ok (s, tk) ∧ QInvRE exEnvM s) := by
  obtain ⟨s, tk, h⟩ := ranOk_iff (env := exEnvM) (acts := histD1) (by decide +kernel)
  obtain ⟨s', tk', h'⟩ := ranOk_iff (env := exEnvM) (acts := histD15) (by decide +kernel)
  exact ⟨⟨s, tk, h, history_inv histD1_ok h⟩, ⟨s', tk', h', history_inv histD15_ok h'⟩⟩

set_option maxRecDepth 100000 in
/-- D1: after the map_ref node was unlinked, its input changed twice, and it was re-linked, the dependant `n2 = f0(fst v0)`
reads `fst (2,2) = 2` (the defect read the stale `1`); D15: the late map_ref parent's dependant `n6` reads `1`, `n19`
reads `2` -/
example : readAfter exEnvM histD1 0 = some (.pair (.int 2) (.int 2)) ∧ readAfter exEnvM histD1 2 = some (.int 2) ∧
    readAfter exEnvM histD15 0 = some (.pair (.int 1) (.int 1)) ∧ readAfter exEnvM histD15 4 = some (.int 2) ∧
    readAfter exEnvM histD15 5 = some (.int 1) :=
  ⟨by decide +kernel, by decide +kernel, by decide +kernel, by decide +kernel, by decide +kernel⟩

end IncrVerif.Props.C01MapRef
