import IncrVerif.Proofs.MapRef16
/-!
# C01 for programs with `map_ref`: glitch-free propagation and the `didChange` invariant

Extension of `Props/C01Global.lean` (scheduling theorem, static fragment) and `Props/C01History.lean` (whole
histories of static programs) to the fragment STATIC + `map_ref`, the place of the two repaired defects D1
(`markMapRefUnknown` when a map_ref node becomes necessary while stale; sticky `didChange`; reset on recompute) and
D15 (a map_ref parent linking to a map_ref child whose change is still pending).

FRAGMENT (`MapRefH.RFrag env s`).  Every node of the state is valid and of kind `const`, `var`, `map f args` with
`f < projBase = 1000003` (a user function `f < fnZip`, which must have no side effects, or one of the built-ins
`fnZip`/`fnFirst`/`fnIdent`), `fold`, or `mapRef p input` with `p < 999997` (`projBase + p < fnPerKey`); the children
of a node were created before it (so chains `x.map_ref(p).map_ref(q)` of any length, map_ref nodes with several
parents, observed directly, unobserved and re-observed are all in the fragment); map_ref nodes have the default cutoff
`.eq`, the other nodes `.eq` or `.never` in M1 (`.eq` in M2/M3); no fault armed.  Both `cfg.debug` settings.

METHOD.  `virt g s` (`Proofs/MapRef1.lean`): the VIRTUAL STATIC STATE — every `mapRef p i` node is replaced by the
static node `map (projBase + p) [i]` that STORES the ghost value `g n`: "the projection the parents of `n` last
consumed"; `virtEnv env` interprets the function ids `projBase + p` as the projections `env.proj p`.  Parents, heights,
stamps, heap, staleness and necessity are the same in `s` and `virt g s`.  The invariants of the static fragment are
required of the virtual state; the actual engine SIMULATES the static engine on the virtual state
(`Proofs/MapRef3…9`: `Sim g x x'`) for everything except the recompute step of a map_ref node, whose effect on the
virtual state is described directly by `Sched.StepRel`.

THE `didChange` INVARIANT (`MapRefH.KInv env g s`): for every NECESSARY map_ref node `m` whose flag is DOWN, the ghost
value is what `m` reads now: `g m = s.value env m`.  Together with the consistency of the virtual state (a necessary,
non-stale parent `q` of `m` stores `F(… g m …)`) this says: the parents of a map_ref node must be re-run exactly when
the projection they consumed is no longer current, and whenever that is so the flag is up — so the node will fire
(`changedAt := now`) when it is recomputed, which it is because the scheduling invariant of the virtual state keeps it
stale-and-queued.  Preservation: `Proofs/MapRef10…12` (`childChanged_flags`: a successful `child_changed` raises the
flag of every map_ref node at or above the parent whose read value changed — this is where the cutoff `.eq` of the
map_ref nodes and the stickiness `didChange || did` enter; `mcvm_flags`, `mcv_keepsK`), `MapRef14` (the map_ref node's
own step resets the flag and re-defines the ghost value).

PROVED HERE (M1, single round; for the model, every state of the fragment, no bounds; partial correctness: each
statement assumes that the call returns `(.ok _, s')`).
* `recomputeOne_inv`, `recompute_inv`, `pop_recompute_inv`, `drainHeap_inv`: the drain invariant
  `MapRefH.DInvR env s g x` (`RFrag`; `Sched.Inv (virtEnv env) (virt g s) x`; `KInv env g s`;
  `propagateInvalidity = []`) is re-established, for new ghost values, by a successful `recomputeOne` on the current
  node (the analogue of `C01Global.recomputeOne_inv`, now with the `child_changed` recursion through chains of map_ref
  nodes and the `didChange` flags), by the direct-recompute chain, by a pop + `recompute`, and by `drainHeap`, which ends
  with an empty heap.
* `drained_values`: with the drain invariant and an empty heap every necessary node is valid, not stale, and its VALUE
  AS READ (`State.value env n`, which computes through map_ref nodes) is the from-scratch evaluation
  `MapRefH.evalR env s k n` (`mapRef p i ↦ env.proj p (evalR i)`).  `drainHeap_values`: hence after a successful
  `drainHeap` every necessary node reads its from-scratch value on the graph and variables of the initial state.
-/
namespace IncrVerif.Props.C01MapRef
open IncrVerif.Engine IncrVerif.Proofs IncrVerif.Proofs.Sched IncrVerif.Proofs.Quiet IncrVerif.Proofs.MapRefH

/-! ## M1: one round -/

/-- **M1, one `recomputeOne`.** On the current node `n` of the drain invariant a successful `recomputeOne`
re-establishes the invariant — for new ghost values `g'` — with the parent handed over for direct recomputation
(if any) as the new current node; the virtual graph is unchanged and `n` is stamped. -/
theorem recomputeOne_inv {env : Env} {g : Nat → Option Val} {fuel n : Nat} {s s' : State} {r : Option Nat}
    (D : DInvR env s g (some n)) (h : (recomputeOne env fuel n).run.run s = (.ok r, s')) :
    ∃ g', DInvR env s' g' r ∧ Frame (virt g s) (virt g' s') ∧
      ((virt g' s').nodeD n).recomputedAt = s.stabNum := by
  obtain ⟨g', D', f, hr⟩ := recomputeOneR_inv D h
  exact ⟨g', D', f.frame, hr⟩

/-- **M1, the direct-recompute chain.** -/
theorem recompute_inv {env : Env} {g : Nat → Option Val} {fuel n : Nat} {s s' : State}
    (D : DInvR env s g (some n)) (h : (recompute env fuel n).run.run s = (.ok (), s')) :
    ∃ g', DInvR env s' g' none ∧ Frame (virt g s) (virt g' s') := by
  obtain ⟨g', D', f⟩ := recomputeR_inv fuel n s s' g D h
  exact ⟨g', D', f.frame⟩

/-- **M1, one pop of `drainHeap`.** -/
theorem pop_recompute_inv {env : Env} {g : Nat → Option Val} {fuel n : Nat} {s s1 s' : State}
    (D : DInvR env s g none) (hpop : rchRemoveMin.run.run s = (.ok (some n), s1))
    (hrec : (recompute env fuel n).run.run s1 = (.ok (), s')) :
    ∃ g', DInvR env s' g' none ∧ Frame (virt g s) (virt g' s') := by
  obtain ⟨g', D', f⟩ := popR_recompute D hpop hrec
  exact ⟨g', D', f.frame⟩

/-- **M1, the drain.** A successful `drainHeap` from the drain invariant ends with the drain invariant and an empty
heap. -/
theorem drainHeap_inv {env : Env} {fuel : Nat} {s s' : State} (D : DrainInvR env s)
    (h : (drainHeap env fuel).run.run s = (.ok (), s')) : DrainInvR env s' ∧ s'.rch.length = 0 := by
  obtain ⟨g, D⟩ := D
  obtain ⟨g', D', he, -⟩ := drainHeapR_inv fuel s s' g D h
  exact ⟨⟨g', D'⟩, he⟩

/-- **M1, L1.** With the drain invariant and an empty heap, every necessary node is valid, is not stale, and what it
READS is its from-scratch evaluation. -/
theorem drained_values {env : Env} {s : State} (D : DrainInvR env s) (he : s.rch.length = 0) (n : Nat)
    (hn : s.isNecessary n = true) (k : Nat) (hk : (s.nodeD n).height.toNat < k) :
    (s.nodeD n).valid = true ∧ s.isStale n = false ∧ s.value env n = evalR env s k n ∧
      (evalR env s k n).isSome = true := by
  obtain ⟨g, D⟩ := D
  exact drainedR_values D he n hn k hk

/-- **M1: glitch-free propagation through map_ref nodes.** After a successful `drainHeap` from the drain invariant
every necessary node is (still) necessary, is not stale, and reads its from-scratch value — evaluated in the graph and
on the variable values of the initial state (which are those of the final state). -/
theorem drainHeap_values {env : Env} {fuel : Nat} {s s' : State} (D : DrainInvR env s)
    (h : (drainHeap env fuel).run.run s = (.ok (), s')) :
    s'.vars = s.vars ∧ ∀ n, s.isNecessary n = true → ∀ k, (s.nodeD n).height.toNat < k →
      s'.isNecessary n = true ∧ s'.isStale n = false ∧ s'.value env n = evalR env s k n ∧
        (evalR env s k n).isSome = true := by
  obtain ⟨g, D⟩ := D
  obtain ⟨-, -, -, -, hv, hall⟩ := drainHeapR_values D h
  exact ⟨hv, hall⟩

end IncrVerif.Props.C01MapRef
