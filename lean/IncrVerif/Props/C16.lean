import IncrVerif.Proofs.PerKey
import IncrVerif.Proofs.PerKeyLoop
/-!
# C16 — per-key operators (`incr_mapi_`, `incr_mapi_cutoff`): local facts

Model: the `.perKey` case of `elabInstr` (what `incr_mapi_` builds), `expertValue` (what the operator's
own expert nodes compute), `perKeyDriver` (the `lhs_change` closure: walks the symmetric diff of the
previous and the new input map), the record `PerKeyRec` (`prevMap`, `prevNodes`).  The whole-history
statement (the operator's output equals the map of the per-key results after every stabilisation) is
covered by differential testing, not here.

## PROVED HERE
* `perkey_creates`: with a resolvable operand the instruction creates exactly four nodes, in order:
  conversion map node, result expert node, `lhs_change` map node (function id `fnPerKey + op`), output
  conversion node; one expert record with `pk = some (op, none)` whose edge list is
  `[edge to lhs_change, no callback]`; one `PerKeyRec` with empty `prevMap`/`prevNodes`.
* `result_value`: the result node's value is the map `{k ↦ v}` over the `(k, (node, dep))` of `prevNodes`
  for which the callback of `dep` has stored `v`, built with `AMap.ofList`.
* `input_node_value`: a per-key input node for `key` returns `prevMap[key]`, and panics (the Rust
  `unwrap`) if the key is absent.
* `driver_no_change`: if the new map equals `prevMap` (strictly sorted), the driver does nothing at all:
  no node, no expert call, the state is unchanged (`driver_empty_diff`: the general form, for any new
  map whose diff is empty the only effect is `prevMap := newMap`).
* `driver_only_touches_diff_keys`: the driver IS `for (key, diff) in symmetricDiff prevMap newMap do
  perKeyStep … (key, diff)` followed by `prevMap := newMap` (`perKeyStep` = the loop body, copied from
  the code into `Proofs/PerKeyLoop.lean`); `diff_keys`: that list has strictly ascending keys and contains
  `(k, Left x)` / `(k, Right y)` / `(k, Unequal x y)` exactly for the keys only in `prevMap` / only in
  `newMap` / in both with different values (C18).
* what one iteration does, whether it returns or panics: `unequal_key_step` (at most
  `expert_make_stale`: no node, no expert record created, no operator record changed),
  `left_key_step` (entry dropped from `prevNodes`, dependency removed, node invalidated: nothing created),
  `right_key_step` (the per-key input node — an expert node with `pk = some (op, some key)` — is created
  first, and no node disappears afterwards).
* `driver_without_new_keys_creates_nothing`: if every key of the new map is a key of `prevMap`, the
  driver creates no node and no expert record.

## NOT PROVED HERE
* for a `Right` key: what the rest of the iteration builds (the nodes of the user's per-key template, the
  two dependencies) beyond "nodes are only appended";
* for `Unequal`/`Left` keys: that nodes of *other* keys are untouched field by field (only "nothing is
  created / no operator record changes" is proved; the cascades may re-queue or unlink other nodes);
* the operator's end-to-end correctness over a history; the behaviour of the per-key nodes' own
  recomputation (`recomputeOne`'s expert branch is treated in C14).
-/
namespace IncrVerif.Props.C16
open IncrVerif.Engine IncrVerif.Proofs.PerKey IncrVerif.Proofs.Own

/-- What `incr_mapi_` builds.  If the operand names node `a0`, the instruction returns the last of
exactly four new nodes (indices `N … N+3`, `N` the old node count), all created in the current scope:
`N` = conversion `map fnIdent [a0]`; `N+1` = the result, an expert node; `N+2` = the `lhs_change`
node `map (fnPerKey + op) [N]`; `N+3` = output conversion `map fnIdent [N+1]`.  One expert record is
added: `pk = some (op, none)`, node `N+1`, a single edge to `N+2` without callback, stale.  One operator
record is added with empty `prevMap` and `prevNodes`.  One dependency name is consumed. -/
theorem perkey_creates (loc : List Nat) (lhsVal : Val) (cut : Option CutoffK) (fam : Nat) (x : Opnd)
    (s : State) (a0 : Nat) (hres : resolve s loc x = .ok a0) :
    ∃ s', (elabInstr loc lhsVal (.perKey cut fam x)).run.run s = (.ok (some (s.nodes.size + 3)), s') ∧
      s'.nodes = (((s.nodes.push { kind := .map fnIdent [a0], createdIn := s.currentScope }).push
          { kind := .expert s.experts.size, createdIn := s.currentScope }).push
          { kind := .map (fnPerKey + s.perkeys.size) [s.nodes.size], createdIn := s.currentScope }).push
          { kind := .map fnIdent [s.nodes.size + 1], createdIn := s.currentScope } ∧
      s'.experts = s.experts.push
        { f := 0, pk := some (s.perkeys.size, none), node := s.nodes.size + 1,
          children := [{ dep := s.nextDep, child := s.nodes.size + 2, cb := none }], forceStale := true } ∧
      s'.perkeys = s.perkeys.push
        { fam := fam, cut := cut, result := s.nodes.size + 1, lhsChange := s.nodes.size + 2,
          prevMap := [], prevNodes := [] } ∧
      s'.nextDep = s.nextDep + 1 ∧ s'.currentScope = s.currentScope :=
  perKey_run loc lhsVal cut fam x s a0 hres

example : resolve exPkStart [] (.outer 0) = .ok 0 ∧
    ((elabInstr [] .unit (.perKey none 3 (.outer 0))).run.run exPkStart).1 = .ok (some 4) ∧
    ((elabInstr [] .unit (.perKey none 3 (.outer 0))).run.run exPkStart).2.nodes.size = 5 :=
  ⟨rfl, rfl, by decide⟩

/-- The operator's result node (`pk = some (op, none)`): its recompute closure returns the map
`{k ↦ v}` for the keys `k` of `prevNodes` whose dependency's callback has stored `v`
(integer view), as an ordered map. -/
theorem result_value (env : Env) (e : Nat) (depVals slotVals : List (Option Val)) (s : State)
    (er : ExpertRec) (op : Nat) (he : s.experts[e]? = some er) (hpk : er.pk = some (op, none)) :
    (expertValue env e depVals slotVals).run.run s =
      (.ok (.map (IncrVerif.AMap.ofList
        ((s.perkeys[op]?.getD default).prevNodes.filterMap fun (k, (_, dep)) =>
          match er.slots.lookup dep with
          | some v => some (k, v.toInt)
          | none => none))), s) :=
  expertValue_result env e depVals slotVals s er op he hpk

example : ((expertValue Proofs.Obs.exEnv 0 [] []).run.run exPkLive).1 = .ok (.map [(5, 42)]) := by
  rw [result_value _ _ _ _ _ _ 0 rfl rfl]; rfl

/-- A per-key input node (`pk = some (op, some key)`) returns `prevMap[key]`; if the key is not in
`prevMap` it panics (`prev_map.get(key).unwrap()`). -/
theorem input_node_value (env : Env) (e : Nat) (depVals slotVals : List (Option Val)) (s : State)
    (er : ExpertRec) (op : Nat) (key : Int) (he : s.experts[e]? = some er)
    (hpk : er.pk = some (op, some key)) :
    (expertValue env e depVals slotVals).run.run s =
      match ((s.perkeys[op]?.map (·.prevMap)).getD []).lookup key with
      | some v => (.ok (.int v), s)
      | none => (.error (.site "incremental-map:per-key:prev_map-unwrap"), s) :=
  expertValue_input env e depVals slotVals s er op key he hpk

example : ((expertValue Proofs.Obs.exEnv 1 [] []).run.run exPkLive).1 = .ok (.int 1) ∧
    ((expertValue Proofs.Obs.exEnv 2 [] []).run.run exPkLive).1
      = .error (.site "incremental-map:per-key:prev_map-unwrap") := by
  rw [input_node_value _ _ _ _ _ _ 0 5 rfl rfl, input_node_value _ _ _ _ _ _ 0 6 rfl rfl]
  exact ⟨rfl, rfl⟩

/-- If the symmetric diff of `prevMap` and the new map is empty, the driver's only effect is
`prevMap := newMap`: no node is created, no expert function is called, nothing is logged. -/
theorem driver_empty_diff (env : Env) (fuel op : Nat) (newMap : List (Int × Int)) (s : State)
    (hd : IncrVerif.MapOps.symmetricDiff (s.perkeys[op]?.getD default).prevMap newMap = []) :
    (perKeyDriver env fuel op newMap).run.run s =
      (.ok (), { s with perkeys := s.perkeys.modify op fun p => { p with prevMap := newMap } }) :=
  perKeyDriver_nil env fuel op newMap s hd

/-- If the input map did not change (and is strictly sorted, as every `BTreeMap` is), the driver does
nothing at all — per-key nodes of keys that did not change are not touched. -/
theorem driver_no_change (env : Env) (fuel op : Nat) (newMap : List (Int × Int)) (s : State)
    (hsame : newMap = (s.perkeys[op]?.getD default).prevMap) (hs : IncrVerif.AMap.Sorted newMap) :
    (perKeyDriver env fuel op newMap).run.run s = (.ok (), s) := by
  subst hsame; exact perKeyDriver_same env fuel op s hs

example : (perKeyDriver Proofs.Obs.exEnv 10 0 [(5, 1)]).run.run exPkLive = (.ok (), exPkLive) :=
  driver_no_change _ _ _ _ _ rfl (by decide)

/-! ## 4. which keys the driver touches -/

open IncrVerif.Proofs.PKL in
/-- The driver is a loop over the symmetric diff of `prevMap` (as stored when the driver starts) and the
new map, running `perKeyStep` (the loop body) on each entry in list order, followed by
`prevMap := newMap`. -/
theorem driver_only_touches_diff_keys (env : Env) (fuel op : Nat) (newMap : List (Int × Int)) :
    perKeyDriver env fuel op newMap = (do
      let pr := (← get).perkeys[op]?.getD default
      let sc := (← get).currentScope
      for kd in IncrVerif.MapOps.symmetricDiff pr.prevMap newMap do
        perKeyStep env fuel op sc kd
      modify fun s => { s with perkeys := s.perkeys.modify op fun p => { p with prevMap := newMap } }) :=
  perKeyDriver_eq_forIn env fuel op newMap

/-- The entries of that list: keys strictly ascending (each key at most once), and `(k, e)` is in it iff
`k` is only in the old map (`Left`), only in the new map (`Right`), or in both with different values
(`Unequal`).  Keys with equal values do not occur. -/
theorem diff_keys (prevMap newMap : List (Int × Int)) (hp : IncrVerif.AMap.Sorted prevMap)
    (hn : IncrVerif.AMap.Sorted newMap) :
    List.Pairwise (· < ·) ((IncrVerif.MapOps.symmetricDiff prevMap newMap).map (·.1)) ∧
    ∀ k e, (k, e) ∈ IncrVerif.MapOps.symmetricDiff prevMap newMap ↔
      ((∃ x, IncrVerif.AMap.lookup prevMap k = some x ∧ IncrVerif.AMap.lookup newMap k = none ∧ e = .left x) ∨
       (∃ y, IncrVerif.AMap.lookup prevMap k = none ∧ IncrVerif.AMap.lookup newMap k = some y ∧ e = .right y) ∨
       (∃ x y, IncrVerif.AMap.lookup prevMap k = some x ∧ IncrVerif.AMap.lookup newMap k = some y ∧ x ≠ y ∧
          e = .unequal x y)) :=
  ⟨IncrVerif.Proofs.symmetricDiff_ascending _ _ hp hn,
   fun k e => IncrVerif.Proofs.symmetricDiff_mem _ _ hp hn k e⟩

example : IncrVerif.MapOps.symmetricDiff [(5, 1), (7, 1)] [(5, 2), (6, 3), (7, 1)]
    = [(5, .unequal 1 2), (6, .right 3)] := by decide

open IncrVerif.Proofs.PKL in
/-- A key whose value changed: the iteration creates no node and no expert record and changes no
operator record (it only marks the key's node stale, if somebody still holds it). -/
theorem unequal_key_step (env : Env) (fuel op : Nat) (sc : Scope) (key a b : Int) (s s' : State) (r)
    (hrun : (perKeyStep env fuel op sc (key, .unequal a b)).run.run s = (r, s')) :
    s'.nodes.size = s.nodes.size ∧ s'.experts.size = s.experts.size ∧ s'.perkeys = s.perkeys :=
  have h := (step_unequal env fuel op sc key a b).h s r s' hrun
  ⟨h.nodes, h.experts, h.perkeys⟩

open IncrVerif.Proofs.PKL in
example : ((perKeyStep Proofs.Obs.exEnv 10 0 .top (5, .unequal 1 2)).run.run exPkLive).1 = .ok () := rfl

open IncrVerif.Proofs.PKL in
/-- A key that disappeared: the iteration creates nothing; the only change to the operator records is
that `prevNodes` of this operator loses the key (or nothing, if the iteration panicked at the lookup). -/
theorem left_key_step (env : Env) (fuel op : Nat) (sc : Scope) (key a : Int) (s s' : State) (r)
    (hrun : (perKeyStep env fuel op sc (key, .left a)).run.run s = (r, s')) :
    s'.nodes.size = s.nodes.size ∧ s'.experts.size = s.experts.size ∧
      (s'.perkeys = s.perkeys ∨
       s'.perkeys = s.perkeys.modify op fun p => { p with prevNodes := p.prevNodes.filter (·.1 != key) }) :=
  step_left env fuel op sc key a s s' r hrun

open IncrVerif.Proofs.PKL in
example : (((perKeyStep Proofs.Obs.exEnv 10 0 .top (5, .left 1)).run.run exPkLive).2.perkeys[0]?.map
    (·.prevNodes)) = some [] := by decide

open IncrVerif.Proofs.PKL in
/-- A new key: the iteration first creates the per-key input node — node `N` (the old node count), an
expert node in scope `sc` whose record (index = old record count) says `pk = some (op, some key)` — and
from there on nodes are only appended, whatever happens. -/
theorem right_key_step (env : Env) (fuel op : Nat) (sc : Scope) (key a : Int) (s s' : State) (r)
    (hrun : (perKeyStep env fuel op sc (key, .right a)).run.run s = (r, s')) :
    ∃ s1 : State,
      s1.nodes = s.nodes.push { kind := .expert s.experts.size, createdIn := sc } ∧
      s1.experts = s.experts.push { f := 0, pk := some (op, some key), node := s.nodes.size } ∧
      s1.nodes.size ≤ s'.nodes.size :=
  ⟨withInputNode op key sc s, withInputNode_nodes op key sc s, withInputNode_experts op key sc s,
   step_right env fuel op sc key a s s' r hrun⟩

open IncrVerif.Proofs.PKL in
example : ((perKeyStep Proofs.Obs.exEnv 10 0 .top (6, .right 3)).run.run exPkLive).2.nodes.size = 1 := by
  decide

/-- If every key of the new map is already a key of `prevMap` (both strictly sorted), the driver —
whether it returns or panics — creates no node and no expert record. -/
theorem driver_without_new_keys_creates_nothing (env : Env) (fuel op : Nat) (newMap : List (Int × Int))
    (s s' : State) (r)
    (hs : IncrVerif.AMap.Sorted (s.perkeys[op]?.getD default).prevMap)
    (hn : IncrVerif.AMap.Sorted newMap)
    (hkeys : ∀ k, IncrVerif.AMap.lookup (s.perkeys[op]?.getD default).prevMap k = none →
      IncrVerif.AMap.lookup newMap k = none)
    (hrun : (perKeyDriver env fuel op newMap).run.run s = (r, s')) :
    s'.nodes.size = s.nodes.size ∧ s'.experts.size = s.experts.size :=
  Proofs.PKL.driver_no_new_keys env fuel op newMap s s' r hs hn hkeys hrun

example : ((perKeyDriver Proofs.Obs.exEnv 10 0 [(5, 2)]).run.run exPkLive).2.perkeys[0]?.map (·.prevMap)
    = some [(5, 2)] := by decide

end IncrVerif.Props.C16
