import IncrVerif.Proofs.Ownership
/-!
# C12 — nothing leaks, no drop order is unsafe (the ownership component of the model)

The model's account of `Rc` ownership is `Engine/Alive.lean`: `State.refsOf n` (the strong references
node `n`'s kind holds), `State.roots` (node handles the program holds, shared cells, variables,
observers, queued nodes), and `State.aliveSet` = a fuel-bounded search from the roots.  The differential
check compares `aliveSet` with what the real crate still has allocated after every action.  The
theorems below are about these definitions, for *every* state (no reachability assumption).

`Reach s n` ("`n` is a root of `s`, or reachable from a root through `refsOf` edges") is
`Proofs.Own.Reach`.  `aliveSet` runs the search with fuel
`roots.length + Σ_{n < nodes.size} (refsOf n).length + 8`.

REMARK (history of a finding).  The model first ran the search with fuel
`nodes.size * (nodes.size + 2) + roots.length + 8`.  That was NOT enough: the search pushes duplicate
references, so on `const 1; const 2; fold … n0 ×30 n1` it ran out of fuel among the copies of `n0`, the
model's trace lacked the `snap n1` line the real crate prints, and completeness, `alive_antitone` and
`handle_is_alive` were false in the model (state `Own.exBigFold`).  `Engine/Alive.lean` was repaired to
the fuel above, which `search_exact_with_enough_fuel` shows to be enough for every state; all theorems
below are now unconditional (a non-existent node holds nothing: `nodeD` gives the default node, a
`.const`, so only indices `< nodes.size` contribute references).

## PROVED HERE
* `aliveSet_sound`, `aliveSet_complete`, `aliveSet_iff`: for EVERY state, `aliveSet` is exactly the set of
  nodes that are roots or reachable from a root: the fuel suffices.
* `search_exact_with_enough_fuel`: the same for any fuel `≥ roots.length + Σ (refsOf n).length`.
* `no_roots_nothing_alive`: no roots, nothing alive.
* `alive_antitone` (general), `drop_handle_shrinks`, `drop_observer_shrinks`, `drop_var_shrinks`:
  giving up a handle through the API actions `.dropHandle`, `.dropObs`, `.dropVar` (whatever they return)
  can only shrink the alive set.
* `drop_handle_is_quiet`: `.dropHandle` changes nothing but `handles`; `drop_handle_reads`: no observer
  reads anything different afterwards.
* membership: `handle_is_alive`, `slot_is_alive`, `var_is_alive`, `observed_is_alive`, `queued_is_alive`,
  `children_of_alive_alive`.
* `drop_var_handle_closed_form`, `drop_var_handle_fields`: what dropping a `Var` handle does, exactly;
  `drop_var_handle_never_panics`: it never panics when the variable exists, in any status (in particular
  while stabilising); `drop_var_effect_closed_form`, `drop_var_action_closed_form`: the effect `.dropVar`
  of user code and the API action `.dropVar` are this step; `drop_var_handle_no_such_var`;
  `write_effect_after_last_drop_is_noop`.

## NOT PROVED HERE
* that the engine's actions other than the three drops keep `aliveSet` in step with the real crate's
  allocation (that is what the differential check tests);
* that `refsOf`/`roots` are the right abstraction of the crate's `Rc` graph (validated by the same check).
-/
namespace IncrVerif.Props.C12
open IncrVerif.Engine IncrVerif.Proofs.Own

/-! ## 1–2. the search computes reachability -/

/-- Soundness: whatever the model reports as still allocated is a root (a handle the program holds,
a shared cell, a live variable, a held observer's node, a queued node) or is reachable from a root
through strong references.  Holds for every state, whatever the fuel. -/
theorem aliveSet_sound (s : State) (n : Nat) (h : n ∈ s.aliveSet) : Reach s n :=
  Proofs.Own.aliveSet_sound s n h

example : 3 ∈ exOwn.aliveSet ∧ Reach exOwn 3 := ⟨by decide, aliveSet_sound _ _ (by decide)⟩

/-- Completeness: every node reachable from a root is reported as allocated — the fuel of the search
suffices, in every state. -/
theorem aliveSet_complete (s : State) (n : Nat) (h : Reach s n) : n ∈ s.aliveSet :=
  Proofs.Own.aliveSet_complete s n h

example : Reach exOwn 0 ∧ 0 ∈ exOwn.aliveSet :=
  ⟨.step (.root (n := 1) (by decide)) (by decide), by decide⟩

/-- the state on which the fuel used before the repair ran out: node 1 is found now -/
example : Reach exBigFold 1 ∧ 1 ∈ exBigFold.aliveSet :=
  ⟨.step (.root (n := 2) (by decide)) (by decide), aliveSet_complete _ _
    (.step (.root (n := 2) (by decide)) (by decide))⟩

/-- The alive set is exactly the set of reachable nodes. -/
theorem aliveSet_iff (s : State) (n : Nat) : s.isAlive n = true ↔ Reach s n :=
  Proofs.Own.isAlive_iff s n

example : exOwn.isAlive 2 = false ∧ ¬ Reach exOwn 2 :=
  ⟨by decide, fun h => absurd ((aliveSet_iff exOwn 2).2 h) (by decide)⟩

/-- With ANY fuel of at least `roots.length + Σ_{n < nodes.size} (refsOf n).length`
the same search computes exactly the reachable set, for every state. -/
theorem search_exact_with_enough_fuel (s : State) (fuel : Nat)
    (hfuel : s.roots.length + degSum s.refsOf (List.range s.nodes.size) ≤ fuel) (n : Nat) :
    n ∈ reachFrom s.refsOf fuel s.roots [] ↔ Reach s n :=
  ⟨search_sound s fuel n, search_complete s fuel hfuel n⟩

example : exBigFold.roots.length + degSum exBigFold.refsOf (List.range exBigFold.nodes.size) = 32 ∧
    1 ∈ reachFrom exBigFold.refsOf 32 exBigFold.roots [] := by decide

/-! ## 3. nothing held, nothing allocated -/

/-- After every handle is dropped and the engine holds nothing (no shared cell, no live variable,
no held observer, empty recompute heap), everything is released. -/
theorem no_roots_nothing_alive (s : State) (h : s.roots = []) : s.aliveSet = [] := by
  unfold State.aliveSet; rw [h]; exact reachFrom_nil _ _

example : exOwnReleased.nodes.size = 4 ∧ exOwnReleased.roots = [] ∧ exOwnReleased.aliveSet = [] :=
  ⟨rfl, by decide, no_roots_nothing_alive _ (by decide)⟩

/-! ## 4. giving up a handle can only release nodes -/

/-- If two states hold the same strong references and every root of the second is a root of the
first, everything allocated in the second is allocated in the first. -/
theorem alive_antitone (s s' : State) (hrefs : s'.refsOf = s.refsOf)
    (hroots : ∀ n, n ∈ s'.roots → n ∈ s.roots) (n : Nat) (h : n ∈ s'.aliveSet) : n ∈ s.aliveSet :=
  aliveSet_subset s s' hrefs hroots n h

example : ∀ n, n ∈ ({ exOwn with handles := [] } : State).aliveSet → n ∈ exOwn.aliveSet :=
  alive_antitone exOwn _ rfl (by decide)

/-- Dropping a node handle (API action `.dropHandle`), whatever it returns, releases nodes or
nothing: no node becomes allocated. -/
theorem drop_handle_shrinks (env : Env) (o : Opnd) (tokens : Array Nat) (s s' : State) (r)
    (hrun : (stepAction env (.dropHandle o) tokens).run.run s = (r, s'))
    (n : Nat) (h : n ∈ s'.aliveSet) : n ∈ s.aliveSet :=
  ((shrink_dropHandle env o tokens).h s r s' hrun).alive n h

example : ((stepAction Proofs.Obs.exEnv (.dropHandle (.abs 1)) #[]).run.run exOwn).2.handles = [] := by
  decide

/-- Dropping an observer handle (API action `.dropObs`: the clone count goes down; the last drop
calls `disallow_future_use`, after which an observer that was in use stays held by the engine until
the next stabilisation) never makes a node allocated. -/
theorem drop_observer_shrinks (env : Env) (o : Nat) (tokens : Array Nat) (s s' : State) (r)
    (hrun : (stepAction env (.dropObs o) tokens).run.run s = (r, s'))
    (n : Nat) (h : n ∈ s'.aliveSet) : n ∈ s.aliveSet :=
  ((shrink_dropObs env o tokens).h s r s' hrun).alive n h

example : (((stepAction Proofs.Obs.exEnv (.dropObs 0) #[]).run.run exOwn).2.observers[0]?.map
    fun ob => (ob.clones, ob.state)) = some (0, .disallowed) := by decide

/-- Dropping a variable handle (API action `.dropVar`) never makes a node allocated. -/
theorem drop_var_shrinks (env : Env) (v : Nat) (tokens : Array Nat) (s s' : State) (r)
    (hrun : (stepAction env (.dropVar v) tokens).run.run s = (r, s'))
    (n : Nat) (h : n ∈ s'.aliveSet) : n ∈ s.aliveSet :=
  ((shrink_dropVar env v tokens).h s r s' hrun).alive n h

example : ((stepAction Proofs.Obs.exEnv (.dropVar 0) #[]).run.run exOwn).2.deadVars = [0] := by decide

/-! ## 5. dropping a node handle touches nothing else -/

/-- `.dropHandle o` either fails to resolve its operand (a panic of class `model:`, state unchanged),
or finds the program holds no handle on that node (`noop`, state unchanged), or removes one handle
from `handles` and changes nothing else: no node, no observer record, no value, no event. -/
theorem drop_handle_is_quiet (env : Env) (o : Opnd) (tokens : Array Nat) (s : State) :
    (stepAction env (.dropHandle o) tokens).run.run s =
      match resolve s [] o with
      | .error p => (.error p, s)
      | .ok n =>
        if s.handles.contains n then (.ok ("ok", tokens), { s with handles := s.handles.erase n })
        else (.ok ("noop", tokens), s) :=
  dropHandle_run env o tokens s

example : (stepAction Proofs.Obs.exEnv (.dropHandle (.outer 1)) #[]).run.run exOwn
    = (.ok ("ok", #[]), { exOwn with handles := [] }) := drop_handle_is_quiet _ _ _ _

/-- Hence no observer reads anything different after a handle is dropped. -/
theorem drop_handle_reads (env : Env) (o : Opnd) (tokens : Array Nat) (s s' : State) (r)
    (hrun : (stepAction env (.dropHandle o) tokens).run.run s = (r, s')) (ob : Nat) :
    s'.tryGetValue env ob = s.tryGetValue env ob :=
  ((Proofs.Obs.Pres.stepAction_quiet env (.dropHandle o) tokens rfl).h s r s' hrun).read_eq env ob

example : ((stepAction Proofs.Obs.exEnv (.dropHandle (.outer 1)) #[]).run.run exOwn).2.tryGetValue
    Proofs.Obs.exEnv 0 = exOwn.tryGetValue Proofs.Obs.exEnv 0 :=
  drop_handle_reads _ (.outer 1) #[] exOwn _ _ (Proofs.Obs.run_eta _ _) 0

/-! ## 6. what is certainly allocated -/

/-- A node the program holds a handle on is allocated. -/
theorem handle_is_alive (s : State) (n : Nat) (h : n ∈ s.handles) :
    s.isAlive n = true :=
  (aliveSet_iff s n).2 (.root ((mem_roots s n).2 (.inl h)))

example : exOwn.isAlive 1 = true := handle_is_alive _ _ (by decide)

/-- A node published in a shared cell is allocated. -/
theorem slot_is_alive (s : State) (k n : Nat) (h : (k, n) ∈ s.slots) :
    s.isAlive n = true :=
  (aliveSet_iff s n).2 (.root ((mem_roots s n).2 (.inr (.inl ⟨k, h⟩))))

example : ({ exOwn with slots := [(7, 2)] } : State).isAlive 2 = true :=
  slot_is_alive _ 7 _ (by decide)

/-- The watch node of a variable is allocated while the program holds the variable, and after that
until the `Var ↔ watch node` cycle is broken at the end of the next stabilisation. -/
theorem var_is_alive (s : State) (v : Nat) (vc : VarCell) (h : s.vars[v]? = some vc)
    (hheld : vc.handles > 0 ∨ vc.linked = true) : s.isAlive vc.node = true :=
  (aliveSet_iff s _).2 (.root ((mem_roots s _).2 (.inr (.inr (.inl
    ⟨vc, by rw [Array.mem_toList_iff, Array.mem_iff_getElem?]; exact ⟨v, h⟩, hheld, rfl⟩)))))

example : exOwn.isAlive 0 = true := var_is_alive exOwn 0 _ rfl (.inl (by decide))

/-- The node of an observer is allocated while the program holds the observer, and while the engine
holds it (in use, or disallowed and not yet unlinked). -/
theorem observed_is_alive (s : State) (o : Nat) (ob : ObsRec)
    (h : s.observers[o]? = some ob)
    (hheld : ob.clones > 0 ∨ ob.state = .inUse ∨ ob.state = .disallowed) :
    s.isAlive ob.node = true :=
  (aliveSet_iff s _).2 (.root ((mem_roots s _).2 (.inr (.inr (.inr (.inl
    ⟨ob, by rw [Array.mem_toList_iff, Array.mem_iff_getElem?]; exact ⟨o, h⟩, hheld, rfl⟩))))))

example : exOwn.isAlive 1 = true := observed_is_alive exOwn 0 _ rfl (.inr (.inl rfl))

/-- A node queued in the recompute heap is allocated. -/
theorem queued_is_alive (s : State) (h : Nat) (q : List Nat) (n : Nat)
    (hq : s.rch.queues[h]? = some q) (hn : n ∈ q) : s.isAlive n = true :=
  (aliveSet_iff s n).2 (.root ((mem_roots s n).2 (.inr (.inr (.inr (.inr
    ⟨q, by rw [Array.mem_toList_iff, Array.mem_iff_getElem?]; exact ⟨h, hq⟩, hn⟩))))))

example : exOwn.isAlive 3 = true := queued_is_alive exOwn 1 [3] 3 rfl (by decide)

/-- Every strong reference of an allocated node is allocated: inputs of a map/fold/map_ref, the lhs
and current rhs of a bind (held by both bind nodes), the change detector of a bind, the children of
an expert node's edges — whether or not the node is valid or necessary. -/
theorem children_of_alive_alive (s : State) (n c : Nat) (hn : s.isAlive n = true)
    (hc : c ∈ s.refsOf n) : s.isAlive c = true :=
  (aliveSet_iff s c).2 (.step ((aliveSet_iff s n).1 hn) hc)

example : exOwn.isAlive 0 = true := children_of_alive_alive exOwn 1 0 (by decide) (by decide)

/-! ## 7. dropping a `Var` handle: closed form, never a panic -/

/-- Closed form of dropping one public handle of an existing variable `v` (`impl Drop for Var`; the API
action `.dropVar`, and the effect `.dropVar` of a node function or handler, both run this).  It returns
whether a handle was left to drop.  If none was left the state is unchanged.  Otherwise the handle count
of `v` goes down by one, `v` is appended to `deadVars` exactly when this was the last handle
(`vc.handles = 1`), and NOTHING else changes: no node, no heap entry, no observer, no status, no
counter, no event. -/
theorem drop_var_handle_closed_form (s : State) (v : Nat) (vc : VarCell) (h : s.vars[v]? = some vc) :
    (dropVarHandle v).run.run s =
      (.ok (decide (vc.handles ≠ 0)),
       if vc.handles = 0 then s
       else { s with
         vars := s.vars.modify v fun x => { x with handles := x.handles - 1 },
         deadVars := if vc.handles = 1 then s.deadVars ++ [v] else s.deadVars }) :=
  dropVarHandle_run s v vc h

/-- The same by fields: the cell of `v` has one handle less (`0 - 1 = 0`: unchanged when none was left),
every other cell is untouched, `deadVars` is extended iff this was the last handle, and resetting
`vars` and `deadVars` gives back the state before: no other field changed. -/
theorem drop_var_handle_fields (s : State) (v : Nat) (vc : VarCell) (h : s.vars[v]? = some vc) :
    ∃ s', (dropVarHandle v).run.run s = (.ok (decide (vc.handles ≠ 0)), s') ∧
      s'.vars[v]? = some { vc with handles := vc.handles - 1 } ∧
      (∀ w, w ≠ v → s'.vars[w]? = s.vars[w]?) ∧
      s'.vars.size = s.vars.size ∧
      s'.deadVars = (if vc.handles = 1 then s.deadVars ++ [v] else s.deadVars) ∧
      { s' with vars := s.vars, deadVars := s.deadVars } = s := by
  refine ⟨_, dropVarHandle_run s v vc h, ?_⟩
  by_cases h0 : vc.handles = 0
  · have h1 : ¬ vc.handles = 1 := by omega
    rw [if_pos h0, if_neg h1]
    refine ⟨?_, fun _ _ => rfl, rfl, rfl, rfl⟩
    rw [h]; cases vc; simp_all
  · rw [if_neg h0]
    exact ⟨varDropped_getElem? s v vc h, fun w hw => varDropped_getElem?_ne s v w vc hw,
      by simp [varDropped], rfl, rfl⟩

example : (dropVarHandle 0).run.run exOwn =
    (.ok true, { exOwn with vars := #[{ value := .int 5, setAt := 0, node := 0, handles := 0 }],
                            deadVars := [0] }) := by
  rw [drop_var_handle_closed_form exOwn 0 _ rfl]; rfl

/-- Dropping a `Var` handle never panics when the variable exists — in ANY state: whatever the status
(not stabilising, stabilising, running on-update handlers), whether or not the variable was written,
is still linked, or has any handle left.  This is the clause "handles may be dropped in any order,
before or after stabilise" of the ownership contract, for `Var` handles; the status is left as it was. -/
theorem drop_var_handle_never_panics (s : State) (v : Nat) (vc : VarCell) (h : s.vars[v]? = some vc) :
    ∃ b s', (dropVarHandle v).run.run s = (.ok b, s') ∧ s'.status = s.status := by
  refine ⟨_, _, dropVarHandle_run s v vc h, ?_⟩
  split <;> rfl

/-- in particular in the middle of a stabilisation -/
example : ∃ b s', (dropVarHandle 0).run.run { exOwn with status := .stabilising } = (.ok b, s') ∧
    s'.status = .stabilising :=
  drop_var_handle_never_panics _ 0 _ rfl

/-- As an effect of user code (`Effect.dropVar`, run by a node function or an on-update handler during
stabilisation): the same step, never a panic when the variable exists. -/
theorem drop_var_effect_closed_form (env : Env) (s : State) (v : Nat) (vc : VarCell)
    (h : s.vars[v]? = some vc) :
    (runEffectBasic env (.dropVar v)).run.run s =
      (.ok (), ((dropVarHandle v).run.run s).2) := by
  rw [dropVar_effect_run env s v vc h, dropVarHandle_run s v vc h]

/-- As an API action: `"noop"` when no handle was left, `"ok"` otherwise; the same state change. -/
theorem drop_var_action_closed_form (env : Env) (tokens : Array Nat) (s : State) (v : Nat)
    (vc : VarCell) (h : s.vars[v]? = some vc) :
    (stepAction env (.dropVar v) tokens).run.run s =
      (.ok (if vc.handles = 0 then "noop" else "ok", tokens), ((dropVarHandle v).run.run s).2) := by
  rw [dropVar_action_run env tokens s v vc h, dropVarHandle_run s v vc h]

/-- The only failure: the variable does not exist (a `model:` panic — the history names a variable that
was never created; the state is unchanged). -/
theorem drop_var_handle_no_such_var (s : State) (v : Nat) (h : s.vars[v]? = none) :
    (dropVarHandle v).run.run s = (.error (.site "model:no-such-var"), s) :=
  dropVarHandle_run_none s v h

/-- After its last handle was dropped, writes through the variable by user code are no-ops: a closure
can only write through a handle it still owns. -/
theorem write_effect_after_last_drop_is_noop (env : Env) (s : State) (v : Nat) (vc : VarCell) (x : Val)
    (h : s.vars[v]? = some vc) (h0 : vc.handles = 0) :
    (runEffectBasic env (.setVar v x)).run.run s = (.ok (), s) := by
  simp only [runEffectBasic, withVarHandle, Proofs.Obs.run_bind, Proofs.Obs.run_get, h, h0,
    beq_self_eq_true, if_true, Proofs.Obs.run_pure]

end IncrVerif.Props.C12
