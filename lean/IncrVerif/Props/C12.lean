import IncrVerif.Proofs.Ownership
/-!
# C12 — nothing leaks, no drop order is unsafe (the ownership component of the model)

The model's account of `Rc` ownership is `Engine/Alive.lean`: `State.refsOf n` (the strong references
node `n`'s kind holds), `State.roots` (node handles the program holds, shared cells, variables,
observers, queued nodes), and `State.aliveSet` = a fuel-bounded search from the roots.  The differential
check compares `aliveSet` with what the real crate still has allocated after every action.  The
theorems below are about these definitions, for *every* state (no reachability assumption).

`Reach s n` ("`n` is a root of `s`, or reachable from a root through `refsOf` edges") is
`Proofs.Own.Reach`.  `aliveSet` runs the search with fuel
`roots.length + Σ_{n < nodes.size} (refsOf n).length + 8`.

REMARK (history of a finding).  The model first ran the search with fuel
`nodes.size * (nodes.size + 2) + roots.length + 8`.  That was NOT enough: the search pushes duplicate
references, so on `const 1; const 2; fold … n0 ×30 n1` it ran out of fuel among the copies of `n0`, the
model's trace lacked the `snap n1` line the real crate prints, and completeness, `alive_antitone` and
`handle_is_alive` were false in the model (state `Own.exBigFold`).  `Engine/Alive.lean` was repaired to
the fuel above, which `search_exact_with_enough_fuel` shows to be enough for every state; all theorems
below are now unconditional (a non-existent node holds nothing: `nodeD` gives the default node, a
`.const`, so only indices `< nodes.size` contribute references).

## PROVED HERE
* `aliveSet_sound`, `aliveSet_complete`, `aliveSet_iff`: for EVERY state, `aliveSet` is exactly the set of
  nodes that are roots or reachable from a root: the fuel suffices.
* `search_exact_with_enough_fuel`: the same for any fuel `≥ roots.length + Σ (refsOf n).length`.
* `no_roots_nothing_alive`: no roots, nothing alive.
* `alive_antitone` (general), `drop_handle_shrinks`, `drop_observer_shrinks`, `drop_var_shrinks`:
  giving up a handle through the API actions `.dropHandle`, `.dropObs`, `.dropVar` (whatever they return)
  can only shrink the alive set.
* `drop_handle_is_quiet`: `.dropHandle` changes nothing but `handles`; `drop_handle_reads`: no observer
  reads anything different afterwards.
* membership: `handle_is_alive`, `slot_is_alive`, `var_is_alive`, `observed_is_alive`, `queued_is_alive`,
  `children_of_alive_alive`.

## NOT PROVED HERE
* that the engine's actions other than the three drops keep `aliveSet` in step with the real crate's
  allocation (that is what the differential check tests);
* that `refsOf`/`roots` are the right abstraction of the crate's `Rc` graph (validated by the same check).
-/
namespace IncrVerif.Props.C12
open IncrVerif.Engine IncrVerif.Proofs.Own

/-! ## 1–2. the search computes reachability -/

/-- Soundness: whatever the model reports as still allocated is a root (a handle the program holds,
a shared cell, a live variable, a held observer's node, a queued node) or is reachable from a root
through strong references.  Holds for every state, whatever the fuel. -/
theorem aliveSet_sound (s : State) (n : Nat) (h : n ∈ s.aliveSet) : Reach s n :=
  Proofs.Own.aliveSet_sound s n h

example : 3 ∈ exOwn.aliveSet ∧ Reach exOwn 3 := ⟨by decide, aliveSet_sound _ _ (by decide)⟩

/-- Completeness: every node reachable from a root is reported as allocated — the fuel of the search
suffices, in every state. -/
theorem aliveSet_complete (s : State) (n : Nat) (h : Reach s n) : n ∈ s.aliveSet :=
  Proofs.Own.aliveSet_complete s n h

example : Reach exOwn 0 ∧ 0 ∈ exOwn.aliveSet :=
  ⟨.step (.root (n := 1) (by decide)) (by decide), by decide⟩

/-- the state on which the fuel used before the repair ran out: node 1 is found now -/
example : Reach exBigFold 1 ∧ 1 ∈ exBigFold.aliveSet :=
  ⟨.step (.root (n := 2) (by decide)) (by decide), aliveSet_complete _ _
    (.step (.root (n := 2) (by decide)) (by decide))⟩

/-- The alive set is exactly the set of reachable nodes. -/
theorem aliveSet_iff (s : State) (n : Nat) : s.isAlive n = true ↔ Reach s n :=
  Proofs.Own.isAlive_iff s n

example : exOwn.isAlive 2 = false ∧ ¬ Reach exOwn 2 :=
  ⟨by decide, fun h => absurd ((aliveSet_iff exOwn 2).2 h) (by decide)⟩

/-- With ANY fuel of at least `roots.length + Σ_{n < nodes.size} (refsOf n).length`
the same search computes exactly the reachable set, for every state. -/
theorem search_exact_with_enough_fuel (s : State) (fuel : Nat)
    (hfuel : s.roots.length + degSum s.refsOf (List.range s.nodes.size) ≤ fuel) (n : Nat) :
    n ∈ reachFrom s.refsOf fuel s.roots [] ↔ Reach s n :=
  ⟨search_sound s fuel n, search_complete s fuel hfuel n⟩

example : exBigFold.roots.length + degSum exBigFold.refsOf (List.range exBigFold.nodes.size) = 32 ∧
    1 ∈ reachFrom exBigFold.refsOf 32 exBigFold.roots [] := by decide

/-! ## 3. nothing held, nothing allocated -/

/-- After every handle is dropped and the engine holds nothing (no shared cell, no live variable,
no held observer, empty recompute heap), everything is released. -/
theorem no_roots_nothing_alive (s : State) (h : s.roots = []) : s.aliveSet = [] := by
  unfold State.aliveSet; rw [h]; exact reachFrom_nil _ _

example : exOwnReleased.nodes.size = 4 ∧ exOwnReleased.roots = [] ∧ exOwnReleased.aliveSet = [] :=
  ⟨rfl, by decide, no_roots_nothing_alive _ (by decide)⟩

/-! ## 4. giving up a handle can only release nodes -/

/-- If two states hold the same strong references and every root of the second is a root of the
first, everything allocated in the second is allocated in the first. -/
theorem alive_antitone (s s' : State) (hrefs : s'.refsOf = s.refsOf)
    (hroots : ∀ n, n ∈ s'.roots → n ∈ s.roots) (n : Nat) (h : n ∈ s'.aliveSet) : n ∈ s.aliveSet :=
  aliveSet_subset s s' hrefs hroots n h

example : ∀ n, n ∈ ({ exOwn with handles := [] } : State).aliveSet → n ∈ exOwn.aliveSet :=
  alive_antitone exOwn _ rfl (by decide)

/-- Dropping a node handle (API action `.dropHandle`), whatever it returns, releases nodes or
nothing: no node becomes allocated. -/
theorem drop_handle_shrinks (env : Env) (o : Opnd) (tokens : Array Nat) (s s' : State) (r)
    (hrun : (stepAction env (.dropHandle o) tokens).run.run s = (r, s'))
    (n : Nat) (h : n ∈ s'.aliveSet) : n ∈ s.aliveSet :=
  ((shrink_dropHandle env o tokens).h s r s' hrun).alive n h

example : ((stepAction Proofs.Obs.exEnv (.dropHandle (.abs 1)) #[]).run.run exOwn).2.handles = [] := by
  decide

/-- Dropping an observer handle (API action `.dropObs`: the clone count goes down; the last drop
calls `disallow_future_use`, after which an observer that was in use stays held by the engine until
the next stabilisation) never makes a node allocated. -/
theorem drop_observer_shrinks (env : Env) (o : Nat) (tokens : Array Nat) (s s' : State) (r)
    (hrun : (stepAction env (.dropObs o) tokens).run.run s = (r, s'))
    (n : Nat) (h : n ∈ s'.aliveSet) : n ∈ s.aliveSet :=
  ((shrink_dropObs env o tokens).h s r s' hrun).alive n h

example : (((stepAction Proofs.Obs.exEnv (.dropObs 0) #[]).run.run exOwn).2.observers[0]?.map
    fun ob => (ob.clones, ob.state)) = some (0, .disallowed) := by decide

/-- Dropping a variable handle (API action `.dropVar`) never makes a node allocated. -/
theorem drop_var_shrinks (env : Env) (v : Nat) (tokens : Array Nat) (s s' : State) (r)
    (hrun : (stepAction env (.dropVar v) tokens).run.run s = (r, s'))
    (n : Nat) (h : n ∈ s'.aliveSet) : n ∈ s.aliveSet :=
  ((shrink_dropVar env v tokens).h s r s' hrun).alive n h

example : ((stepAction Proofs.Obs.exEnv (.dropVar 0) #[]).run.run exOwn).2.deadVars = [0] := by decide

/-! ## 5. dropping a node handle touches nothing else -/

/-- `.dropHandle o` either fails to resolve its operand (a panic of class `model:`, state unchanged),
or finds the program holds no handle on that node (`noop`, state unchanged), or removes one handle
from `handles` and changes nothing else: no node, no observer record, no value, no event. -/
theorem drop_handle_is_quiet (env : Env) (o : Opnd) (tokens : Array Nat) (s : State) :
    (stepAction env (.dropHandle o) tokens).run.run s =
      match resolve s [] o with
      | .error p => (.error p, s)
      | .ok n =>
        if s.handles.contains n then (.ok ("ok", tokens), { s with handles := s.handles.erase n })
        else (.ok ("noop", tokens), s) :=
  dropHandle_run env o tokens s

example : (stepAction Proofs.Obs.exEnv (.dropHandle (.outer 1)) #[]).run.run exOwn
    = (.ok ("ok", #[]), { exOwn with handles := [] }) := drop_handle_is_quiet _ _ _ _

/-- Hence no observer reads anything different after a handle is dropped. -/
theorem drop_handle_reads (env : Env) (o : Opnd) (tokens : Array Nat) (s s' : State) (r)
    (hrun : (stepAction env (.dropHandle o) tokens).run.run s = (r, s')) (ob : Nat) :
    s'.tryGetValue env ob = s.tryGetValue env ob :=
  ((Proofs.Obs.Pres.stepAction_quiet env (.dropHandle o) tokens rfl).h s r s' hrun).read_eq env ob

example : ((stepAction Proofs.Obs.exEnv (.dropHandle (.outer 1)) #[]).run.run exOwn).2.tryGetValue
    Proofs.Obs.exEnv 0 = exOwn.tryGetValue Proofs.Obs.exEnv 0 :=
  drop_handle_reads _ (.outer 1) #[] exOwn _ _ (Proofs.Obs.run_eta _ _) 0

/-! ## 6. what is certainly allocated -/

/-- A node the program holds a handle on is allocated. -/
theorem handle_is_alive (s : State) (n : Nat) (h : n ∈ s.handles) :
    s.isAlive n = true :=
  (aliveSet_iff s n).2 (.root ((mem_roots s n).2 (.inl h)))

example : exOwn.isAlive 1 = true := handle_is_alive _ _ (by decide)

/-- A node published in a shared cell is allocated. -/
theorem slot_is_alive (s : State) (k n : Nat) (h : (k, n) ∈ s.slots) :
    s.isAlive n = true :=
  (aliveSet_iff s n).2 (.root ((mem_roots s n).2 (.inr (.inl ⟨k, h⟩))))

example : ({ exOwn with slots := [(7, 2)] } : State).isAlive 2 = true :=
  slot_is_alive _ 7 _ (by decide)

/-- The watch node of a variable is allocated while the program holds the variable, and after that
until the `Var ↔ watch node` cycle is broken at the end of the next stabilisation. -/
theorem var_is_alive (s : State) (v : Nat) (vc : VarCell) (h : s.vars[v]? = some vc)
    (hheld : vc.handles > 0 ∨ vc.linked = true) : s.isAlive vc.node = true :=
  (aliveSet_iff s _).2 (.root ((mem_roots s _).2 (.inr (.inr (.inl
    ⟨vc, by rw [Array.mem_toList_iff, Array.mem_iff_getElem?]; exact ⟨v, h⟩, hheld, rfl⟩)))))

example : exOwn.isAlive 0 = true := var_is_alive exOwn 0 _ rfl (.inl (by decide))

/-- The node of an observer is allocated while the program holds the observer, and while the engine
holds it (in use, or disallowed and not yet unlinked). -/
theorem observed_is_alive (s : State) (o : Nat) (ob : ObsRec)
    (h : s.observers[o]? = some ob)
    (hheld : ob.clones > 0 ∨ ob.state = .inUse ∨ ob.state = .disallowed) :
    s.isAlive ob.node = true :=
  (aliveSet_iff s _).2 (.root ((mem_roots s _).2 (.inr (.inr (.inr (.inl
    ⟨ob, by rw [Array.mem_toList_iff, Array.mem_iff_getElem?]; exact ⟨o, h⟩, hheld, rfl⟩))))))

example : exOwn.isAlive 1 = true := observed_is_alive exOwn 0 _ rfl (.inr (.inl rfl))

/-- A node queued in the recompute heap is allocated. -/
theorem queued_is_alive (s : State) (h : Nat) (q : List Nat) (n : Nat)
    (hq : s.rch.queues[h]? = some q) (hn : n ∈ q) : s.isAlive n = true :=
  (aliveSet_iff s n).2 (.root ((mem_roots s n).2 (.inr (.inr (.inr (.inr
    ⟨q, by rw [Array.mem_toList_iff, Array.mem_iff_getElem?]; exact ⟨h, hq⟩, hn⟩))))))

example : exOwn.isAlive 3 = true := queued_is_alive exOwn 1 [3] 3 rfl (by decide)

/-- Every strong reference of an allocated node is allocated: inputs of a map/fold/map_ref, the lhs
and current rhs of a bind (held by both bind nodes), the change detector of a bind, the children of
an expert node's edges — whether or not the node is valid or necessary. -/
theorem children_of_alive_alive (s : State) (n c : Nat) (hn : s.isAlive n = true)
    (hc : c ∈ s.refsOf n) : s.isAlive c = true :=
  (aliveSet_iff s c).2 (.step ((aliveSet_iff s n).1 hn) hc)

example : exOwn.isAlive 0 = true := children_of_alive_alive exOwn 1 0 (by decide) (by decide)

end IncrVerif.Props.C12
