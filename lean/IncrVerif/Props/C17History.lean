import IncrVerif.Proofs.TidyH8
import IncrVerif.Proofs.TidyH2
import IncrVerif.Proofs.TidyH17
import IncrVerif.Proofs.TidyH30
import IncrVerif.Proofs.TidyH54
import IncrVerif.Proofs.TidyH67
import IncrVerif.Props.C15History
import IncrVerif.Props.C01MapRef
/-!
# C17 for the whole event log of a `stabilise`; at most once per round and total correctness for the extended fragments

This file closes gaps listed as "NOT PROVED" in the headers of `Props/C15History.lean` (C17 only per operator step; at
most once; total correctness), `Props/C01MapRef.lean` (at most once per round not restated; total correctness),
`Props/C09History.lean`, `Props/C08History.lean`, `Props/C14History.lean` (total correctness).

PROVED (for the model).

T2c — C17 AS A STATEMENT ABOUT THE WHOLE LOG (fragment static + `map_with_old`, operator closures `g ≥ opBase`;
`Proofs/TidyH4…8`).  For ONE `stabilise` from a state satisfying the invariant between API actions (`MapOldH.QInvW`; every
state of a history of the fragment does), an operator node `n` = `mapWithOld g i`, and `new` = the events this `stabilise`
appends to the log:
* `stabilise_operator_log` (positional form, `TidyH.StabCalls`): EITHER `n` is not recomputed — its stamp, closure state
  and stored output are unchanged and `new` contains no user-function call of `n` (`TidyH.NoCalls n new`: every event is
  notification noise or not an `inv` event of `n`) — OR `n` is recomputed, exactly once, and
  `new = A ++ callEvents n (opCalls d g σ old x) ++ B` where `σ`/`old` are the closure state (= THE INPUT THE OPERATOR LAST
  RAN ON) and the stored output of `n` BEFORE the `stabilise`, `x` is the value the input node `i` has AFTER it (the current
  input value), and neither `A` nor `B` contains a user-function call of `n`.
* `stabilise_operator_calls` (filter form): `callsAt n new` — the `inv` events of node `n` in `new` other than expert edge
  callbacks, i.e. the `M{m}.fn`/`add`/`remove`/`update`/`merge` events of the operator — is `[]` if `n` did not run and
  is EXACTLY `callEvents n (opCalls d g σ old x)` if it did (`(s'.nodeD n).recomputedAt = s.stabNum`).  Together with
  `C15History.operator_states` (`σ = .unit ∧ old = none`, or `σ` canonical and `old = some (opSpec d g σ)`) and the
  characterisations of `opCalls` in `C15History` (`filter_map_step_calls` … : only keys whose binding differs, each at
  most once per role) this is C17's statement for the whole log of a `stabilise`.
* `history_operator_calls`: the same at every `stabilise` of a history whose actions pass `okAction d`.
* Non-vacuity: on `C15History.histFm` the last `stabilise` (the re-observed filter-map node `n2`) logs exactly the calls
  for `2 ↦ 2` and `4 ↦ 1`, which are `opCalls` of (the input it last ran on, the current input) (`decide +kernel`).

T1a / T2a — AT MOST ONCE PER ROUND (fragments static + `map_ref`, static + `map_with_old`; `Proofs/TidyH1…3`).
`stabilise_once_mapref`, `stabilise_once_mapold`: the nodes on which `recomputeOne` is invoked during a `stabilise`
(`Sched.drainTrace` of the state `t2` in which the drain of THIS `stabilise` starts — `t2` is tied to the run by the four
phase equations) are pairwise distinct; each is necessary (in `t2` and in the final state), had not run in this round,
and carries the stamp of this round at the end.  `drain_once_mapref`, `drain_once_mapold`: the same for a `drainHeap`
from the drain invariant, and every `recomputeOne` of the drain happens in a state with the drain invariant
(`TidyH.drainSteps`: the trace WITH the states).  `history_once_mapref`, `history_once_mapold`: at every `stabilise` of a
history.  The proof is `Sched.drain_once` redone over an abstract drain invariant (`TidyH.OnceKit`), instantiated with
`MapRefH.DInvR` / `MapOldH.DInvW` (whose scheduling invariant lives on the virtual state).

T1b — TOTAL CORRECTNESS, fragment static + `map_ref` (`Proofs/TidyH55…67`).  `mapref_history_never_panics`: a valid
history (`RT.ValidHistR` = `Quiet.ValidHist` of the virtual history: the same room `nodes ≤ N` and fuel
`3 * nodes + 4 ≤ fuelDefault` as for static programs, plus an existing operand for `create (mapRef p i)`) of the fragment
never panics; `mapref_action_returns`, `mapref_stabilise_returns`, `mapref_valid_history_stabilise` (C01 with map_ref,
unconditionally).  METHOD: `RT.BSimAt P g s x x'` = forward simulation ∧ converse, carrying an invariant `P`; the pieces
that exist only in the actual engine are proved to return by hand: `markMapRefUnknown` (fuel `N ≤ fuel + n`; recorded
parents have larger indices — derived from the invariant of the virtual state at the start of each phase) inside the
linking cascade (`N + 2n + 2 ≤ fuel`), `child_changed` through chains of map_ref nodes (drain fuel invariant
`unrun + size + 2 ≤ fuel`), the map_ref node's own step (`Sched.mcvm_safe` on the virtual notification walk).

T2b — TOTAL CORRECTNESS, fragment static + `map_with_old` (`Proofs/TidyH9…17`).  `mapold_history_never_panics`,
`mapop_history_never_panics`: a VALID history (`WT.ValidHistW N 0 0 0 0 acts`, decidable: operands name existing
top-level nodes, observer/variable indices exist, never more than `N` = height limit nodes — `create (mapOp …)` adds 3
nodes, 5 for merge —, `3 * nodes + 4 ≤ fuelDefault` at every `stabilise`) of actions of the fragment NEVER PANICS from
`State.init N d`; the final state satisfies `QInvW` and `WT.TInvW` (= `Quiet.TInv` without `top.size = nodes.size`, which
is false after a `mapOp` creation).  `mapold_action_returns`, `mapold_stabilise_returns`; `valid_history_operator_calls`:
hence C15/C17 unconditionally at every `stabilise` of a valid history.  METHOD: an EXACT simulation
`WT.SimAt s x x'` (same outcome — result or the same panic — from `s` and from `virt s`, final states related by `virt`)
for every engine function except the recompute of a map_with_old node; totality of the static fragment
(`Proofs/Quiet20…28`, `Sched10…13`) transfers through it (`WT.SimAt.tot`); the operator node's step: master equation +
`Sched.mcvm_safe` on the virtual notification walk.

T3 — TOTAL CORRECTNESS, subscriptions (`Proofs/TidyH18…24`) and write effects (`Proofs/TidyH25…30`).
`subs_history_never_panics`: a valid history (`SubsT.ValidHistS` = `Quiet.ValidHist` + every `subscribe` names an existing
observer) of the fragment of `Props/C09History.lean` never panics; `subs_valid_history_notifications`: hence every token
receives exactly its specified updates.  `effects_history_never_panics`: a valid history (`EffT.ValidHistW N B`:
additionally, at every `stabilise` all variables that functions/handlers may write — indices `< B`, `EffT.FnBound`,
`EffT.HBound` — exist) of the fragment V3 of `Props/C08History.lean` never panics; `effects_valid_history_stabilise`.
Each validity clause is necessary (kernel-checked witnesses: `subscribe` on a missing observer, a write to a missing
variable panic in the model).  No bound on the `is_stable` loop is claimed.

T4 — TOTAL CORRECTNESS, expert fragment X1 of `Props/C14History.lean` (`Proofs/TidyH31…54`).
`expert_history_never_panics`: a valid run (`XT.ValidRun`: `ExpertH.RunOK` — incl. the acyclicity hypothesis `AddDepOK` of
every `addDep` — plus existing indices, `nodes.size ≤ N`, `3 * nodes + 4 ≤ fuelDefault` for `stabilise`/`addDep`) never
panics; `expert_addDep_returns` (`adjustHeights` terminates: ranks increase along recorded parent edges, every node is
popped at most once, heights stay `≤ depth + 1 ≤ nodes.size ≤ N`); `expert_valid_history_stabilise`.  METHOD: converse
simulation `XT.SimRAt` (virtual run ok ⇒ actual run ok) mirroring `ExpertH23…31`, and ports of `Quiet21…28` onto the
ranked invariants `ExpertH.QR.*` with the height bound by DEPTH.  `ValidRun` is state-dependent (acyclicity is a property
of the current graph); `XT.validRunB` is a checker that runs the model.

ASSUMED.  T2c/T1a/T2a are partial-correctness statements (the `stabilise` returns) — unconditional for valid histories by
T1b/T2b.  Hypotheses are those of the fragments (`Props/C15History.lean`, `Props/C01MapRef.lean`, `Props/C09History.lean`,
`Props/C08History.lean`).
-/
namespace IncrVerif.Props.C17History
open IncrVerif IncrVerif.Engine IncrVerif.Driver IncrVerif.MapOps IncrVerif.Proofs IncrVerif.Proofs.Sched
open IncrVerif.Proofs.Quiet IncrVerif.Proofs.TidyH

/-! ## T2c: C17 for the whole log of a `stabilise` -/

section c17
open IncrVerif.Proofs.MapOldH

/-- **C17, whole log, positional form.** -/
theorem stabilise_operator_log {d : Defs} {n g i fuel : Nat} {s s' : State} (hg : opBase ≤ g)
    (Q : QInvW d.toEnv Canon (machSpec d) s) (hk : (s.nodeD n).kind = .mapWithOld g i)
    (h : (stabilise d.toEnv fuel).run.run s = (.ok (), s')) :
    ∃ new, s'.log = new ++ s.log ∧ (s.nodeD n).recomputedAt < s.stabNum ∧ StabCalls d n g i s s' new :=
  stabilise_calls hg Q hk h

/-- **C17, whole log.** In one `stabilise` (from the invariant between API actions) the user-function events of the
operator node `n` are: none, if `n` is not recomputed (then its closure state and stored output are unchanged); exactly
`opCalls d g σ old x` — `σ` = closure state = the input the operator last ran on, `old` = stored output, both BEFORE the
`stabilise`; `x` = the value of the input node AFTER it — if `n` is recomputed (`recomputedAt = ` this round), which
happens at most once (`stabilise_once_mapold`).  `(σ, old)` is the state of a fresh node or `(x0, opSpec d g x0)`. -/
theorem stabilise_operator_calls {d : Defs} {n g i fuel : Nat} {s s' : State} (hg : opBase ≤ g)
    (Q : QInvW d.toEnv Canon (machSpec d) s) (hk : (s.nodeD n).kind = .mapWithOld g i)
    (h : (stabilise d.toEnv fuel).run.run s = (.ok (), s')) :
    ∃ new, s'.log = new ++ s.log ∧
      ((s'.nodeD n).recomputedAt ≠ s.stabNum → callsAt n new = [] ∧
        (s'.nodeD n).oldState = (s.nodeD n).oldState ∧ (s'.nodeD n).value = (s.nodeD n).value) ∧
      ((s'.nodeD n).recomputedAt = s.stabNum → ∃ x, (s'.nodeD i).value = some x ∧ Canon x ∧
        callsAt n new = callEvents n (opCalls d g (s.nodeD n).oldState (s.nodeD n).value x)) ∧
      (((s.nodeD n).oldState = .unit ∧ (s.nodeD n).value = none) ∨
        (Canon (s.nodeD n).oldState ∧ (s.nodeD n).value = some (opSpec d g (s.nodeD n).oldState))) := by
  obtain ⟨new, h1, h2, h3⟩ := stabilise_calls hg Q hk h
  obtain ⟨a, b⟩ := stabCalls_filter h2 h3
  exact ⟨new, h1, a, b, (opSt_iff d g _ _).1 (opReach d g hg _ _ (Q.m.mach n g i hk))⟩

/-- **C17, whole log, an operator that has run before.** If the operator node `n` has a stored output before the
`stabilise` and is recomputed in it, then its closure state `x0` is the (canonical) input it last ran on, the input node
ends with a canonical value `x`, and the user-function events of `n` logged by the `stabilise` are exactly
`opCalls d g x0 (some (opSpec d g x0)) x`. -/
theorem stabilise_operator_rerun {d : Defs} {n g i fuel : Nat} {s s' : State} (hg : opBase ≤ g)
    (Q : QInvW d.toEnv Canon (machSpec d) s) (hk : (s.nodeD n).kind = .mapWithOld g i)
    (hran : (s.nodeD n).value ≠ none) (hrun : (s'.nodeD n).recomputedAt = s.stabNum)
    (h : (stabilise d.toEnv fuel).run.run s = (.ok (), s')) :
    ∃ new x x0, s'.log = new ++ s.log ∧ (s'.nodeD i).value = some x ∧ Canon x ∧ (s.nodeD n).oldState = x0 ∧ Canon x0 ∧
      callsAt n new = callEvents n (opCalls d g x0 (some (opSpec d g x0)) x) := by
  obtain ⟨new, e, -, b, hst⟩ := stabilise_operator_calls hg Q hk h
  obtain ⟨x, hx, hC, hc⟩ := b hrun
  rcases hst with ⟨-, hnone⟩ | ⟨hC0, hval⟩
  · exact absurd hnone hran
  · exact ⟨new, x, _, e, hx, hC, rfl, hC0, by rw [hc, hval]⟩

/-- **C17, whole log, `incr_filter_mapi`.** In one `stabilise` in which a filter-map node that has run before is
recomputed, the `M{m}.fn` events of the node are EXACTLY one call for every binding `k ↦ v` of the CURRENT input `x` that
the input `x0` it LAST RAN ON did not hold — never for removed or untouched keys. -/
theorem stabilise_filter_map_calls {d : Defs} {n g i m fuel : Nat} {s s' : State} (hg : opBase ≤ g)
    (Q : QInvW d.toEnv Canon (machSpec d) s) (hk : (s.nodeD n).kind = .mapWithOld g i)
    (hd : decodeOp g = (.fm, m)) (hran : (s.nodeD n).value ≠ none)
    (hrun : (s'.nodeD n).recomputedAt = s.stabNum) (h : (stabilise d.toEnv fuel).run.run s = (.ok (), s')) :
    ∃ new x x0 calls, s'.log = new ++ s.log ∧ (s'.nodeD i).value = some x ∧ (s.nodeD n).oldState = x0 ∧
      callsAt n new = callEvents n calls ∧
      ∀ c, c ∈ calls ↔ ∃ k v, c = (s!"M{m}.fn", [.int k, .int v], optStr (opFmFn (d.opParams m) k v)) ∧
        AMap.lookup (asMap x) k = some v ∧ AMap.lookup (asMap x0) k ≠ some v := by
  obtain ⟨new, x, x0, e, hx, hC, h0, hC0, hc⟩ := stabilise_operator_rerun hg Q hk hran hrun h
  exact ⟨new, x, x0, _, e, hx, h0, hc, fun c => C17_fm_calls_iff d g m hd x0 x hC0 hC c⟩

/-- **C17, whole log, the fold**: every user-function event of the node in the log of the `stabilise` is an
`add`/`remove`/`update` for a key whose binding differs between the input last run on and the current input. -/
theorem stabilise_fold_calls {d : Defs} {n g i m fuel : Nat} {rev upd : Bool} {s s' : State} (hg : opBase ≤ g)
    (Q : QInvW d.toEnv Canon (machSpec d) s) (hk : (s.nodeD n).kind = .mapWithOld g i)
    (hd : decodeOp g = (.fold rev upd, m)) (hran : (s.nodeD n).value ≠ none)
    (hrun : (s'.nodeD n).recomputedAt = s.stabNum) (h : (stabilise d.toEnv fuel).run.run s = (.ok (), s')) :
    ∃ new x x0 calls, s'.log = new ++ s.log ∧ (s'.nodeD i).value = some x ∧ (s.nodeD n).oldState = x0 ∧
      callsAt n new = callEvents n calls ∧
      ∀ c, c ∈ calls → ∃ k rest, c.2.1 = .int k :: rest ∧ AMap.lookup (asMap x) k ≠ AMap.lookup (asMap x0) k ∧
        (c.1 = s!"M{m}.add" ∨ c.1 = s!"M{m}.remove" ∨ c.1 = s!"M{m}.update") := by
  obtain ⟨new, x, x0, e, hx, hC, h0, hC0, hc⟩ := stabilise_operator_rerun hg Q hk hran hrun h
  exact ⟨new, x, x0, _, e, hx, h0, hc, C17_fold_calls d g m rev upd hd x0 x hC0 hC⟩

/-- **C17, whole log, merge**: every event is a `merge` call for a key whose binding differs in the left or the right
input. -/
theorem stabilise_merge_calls {d : Defs} {n g i m fuel : Nat} {s s' : State} (hg : opBase ≤ g)
    (Q : QInvW d.toEnv Canon (machSpec d) s) (hk : (s.nodeD n).kind = .mapWithOld g i)
    (hd : decodeOp g = (.merge, m)) (hran : (s.nodeD n).value ≠ none)
    (hrun : (s'.nodeD n).recomputedAt = s.stabNum) (h : (stabilise d.toEnv fuel).run.run s = (.ok (), s')) :
    ∃ new x x0 calls, s'.log = new ++ s.log ∧ (s'.nodeD i).value = some x ∧ (s.nodeD n).oldState = x0 ∧
      callsAt n new = callEvents n calls ∧
      ∀ c, c ∈ calls → ∃ k, c.1 = s!"M{m}.merge" ∧ (∃ l rr, c.2.1 = [.int k, l, rr]) ∧
        (AMap.lookup (mergeIn x).1 k ≠ AMap.lookup (mergeIn x0).1 k ∨
          AMap.lookup (mergeIn x).2 k ≠ AMap.lookup (mergeIn x0).2 k) := by
  obtain ⟨new, x, x0, e, hx, hC, h0, hC0, hc⟩ := stabilise_operator_rerun hg Q hk hran hrun h
  refine ⟨new, x, x0, _, e, hx, h0, hc, fun c hcm => ?_⟩
  obtain ⟨k, rfl, hdiff⟩ := C17_merge_calls_gen d g m hd x0 x hC0 hC c hcm
  exact ⟨k, rfl, ⟨_, _, rfl⟩, hdiff⟩

/-- **C17, whole log, partition**: every event is a call for a binding of the current input that the input last run on
did not hold. -/
theorem stabilise_partition_calls {d : Defs} {n g i m fuel : Nat} {s s' : State} (hg : opBase ≤ g)
    (Q : QInvW d.toEnv Canon (machSpec d) s) (hk : (s.nodeD n).kind = .mapWithOld g i)
    (hd : decodeOp g = (.part, m)) (hran : (s.nodeD n).value ≠ none)
    (hrun : (s'.nodeD n).recomputedAt = s.stabNum) (h : (stabilise d.toEnv fuel).run.run s = (.ok (), s')) :
    ∃ new x x0 calls, s'.log = new ++ s.log ∧ (s'.nodeD i).value = some x ∧ (s.nodeD n).oldState = x0 ∧
      callsAt n new = callEvents n calls ∧
      ∀ c, c ∈ calls → ∃ k v, c.1 = s!"M{m}.fn" ∧ c.2.1 = [.int k, .int v] ∧
        AMap.lookup (asMap x) k = some v ∧ AMap.lookup (asMap x0) k ≠ some v := by
  obtain ⟨new, x, x0, e, hx, hC, h0, hC0, hc⟩ := stabilise_operator_rerun hg Q hk hran hrun h
  refine ⟨new, x, x0, _, e, hx, h0, hc, fun c hcm => ?_⟩
  obtain ⟨k, v, rfl, h1, h2⟩ := C17_part_calls d g m hd x0 x hC0 hC c hcm
  exact ⟨k, v, rfl, rfl, h1, h2⟩

/-- **C17, whole log: an unchanged input costs no call**, whatever the operator: if the input node ends the `stabilise`
with the value the operator last ran on, the `stabilise` logs no user-function event of the operator node (whether or not
it is recomputed). -/
theorem stabilise_same_input_no_calls {d : Defs} {n g i fuel : Nat} {s s' : State} (hg : opBase ≤ g)
    (Q : QInvW d.toEnv Canon (machSpec d) s) (hk : (s.nodeD n).kind = .mapWithOld g i)
    (hran : (s.nodeD n).value ≠ none) (hsame : (s'.nodeD i).value = some (s.nodeD n).oldState)
    (h : (stabilise d.toEnv fuel).run.run s = (.ok (), s')) :
    ∃ new, s'.log = new ++ s.log ∧ callsAt n new = [] := by
  by_cases hrun : (s'.nodeD n).recomputedAt = s.stabNum
  · obtain ⟨new, x, x0, e, hx, hC, h0, hC0, hc⟩ := stabilise_operator_rerun hg Q hk hran hrun h
    rw [hsame] at hx
    cases hx
    refine ⟨new, e, ?_⟩
    rw [hc, ← h0, C17_same d g _ (by rw [h0]; exact hC0)]
    rfl
  · obtain ⟨new, e, a, -, -⟩ := stabilise_operator_calls hg Q hk h
    exact ⟨new, e, (a hrun).1⟩

/-- **C17 at every `stabilise` of a history** whose actions pass the decidable test `okAction d`. -/
theorem history_operator_calls (d : Defs) {N : Nat} {dbg : Bool} {as bs : List Action} {s : State} {tk : Array Nat}
    {n g i : Nat} (hg : opBase ≤ g) (ha : ∀ a, a ∈ as ++ Action.stabilise :: bs → okAction d a = true)
    (h : runActions d.toEnv (as ++ Action.stabilise :: bs) (State.init N dbg) #[] = .ok (s, tk)) :
    ∃ s1 tk1 s2 new, runActions d.toEnv as (State.init N dbg) #[] = .ok (s1, tk1) ∧
      (stabilise d.toEnv fuelDefault).run.run s1 = (.ok (), s2) ∧ runActions d.toEnv bs s2 tk1 = .ok (s, tk) ∧
      s2.log = new ++ s1.log ∧
      ((s1.nodeD n).kind = .mapWithOld g i →
        ((s2.nodeD n).recomputedAt ≠ s1.stabNum → callsAt n new = []) ∧
        ((s2.nodeD n).recomputedAt = s1.stabNum → ∃ x, (s2.nodeD i).value = some x ∧ Canon x ∧
          callsAt n new = callEvents n (opCalls d g (s1.nodeD n).oldState (s1.nodeD n).value x))) := by
  obtain ⟨s1, tk1, s2, h1, Q1, h2, -, -, -, -, h6⟩ :=
    historyW_stabilise (valOK_toEnv d) (fun a hm => okAction_sound (ha a hm)) h
  by_cases hk : (s1.nodeD n).kind = .mapWithOld g i
  · obtain ⟨new, e, a, b, -⟩ := stabilise_operator_calls hg Q1 hk h2
    exact ⟨s1, tk1, s2, new, h1, h2, h6, e, fun _ => ⟨fun hne => (a hne).1, b⟩⟩
  · obtain ⟨t1, t2, t3, -, r1, r2, r3, r4⟩ := stabilise_split h2
    -- the log only grows: take the difference
    obtain ⟨D2, W2, hst, hsd, hdv, hobs, hrec⟩ := prefix_drainInvW Q1 r1 r2
    obtain ⟨n1, e1, -⟩ := (addNewObservers_logN d.toEnv fuelDefault).h _ _ _ r1
    obtain ⟨n2, e2, -⟩ := (unlinkDisallowedObservers_logN fuelDefault).h _ _ _ r2
    obtain ⟨E, a1, a2, a3⟩ := end_finishedW (valOK_toEnv d) D2 hsd hdv hobs r3 r4
    have hlogE := stabiliseEnd_log a1 a2 a3 r4
    have hgrow : ∃ n3, t3.log = n3 ++ t2.log :=
      MapOldH.drain_steps_ind (valOK_toEnv d) (fun a b => ∃ l, b.log = l ++ a.log) (fun _ => ⟨[], rfl⟩)
        (fun a b c ⟨l1, e1⟩ ⟨l2, e2⟩ => ⟨l2 ++ l1, by rw [e2, e1, List.append_assoc]⟩)
        (fun s r s1 D h => by
          have hinv := rchRemoveMin_inv (heapInv_of_virt D.inv.heap) h
          cases r with
          | none => obtain ⟨rfl, -⟩ := hinv; exact ⟨[], rfl⟩
          | some m => obtain ⟨-, -, -, hs1, -⟩ := hinv; exact ⟨[], by rw [hs1]; rfl⟩)
        (fun s m fuel r s' D h => by
          obtain ⟨v, σ, evs, P, -⟩ := stepPost_frag D h
          obtain ⟨tail, hl, -⟩ := P.log
          exact ⟨tail ++ evs, by rw [hl, List.append_assoc]⟩) fuelDefault t2 t3 D2 r3
    obtain ⟨n3, e3⟩ := hgrow
    exact ⟨s1, tk1, s2, n3 ++ (n2 ++ n1), h1, h2, h6, by rw [hlogE, e3, e2, e1]; simp only [List.append_assoc],
      fun hk' => absurd hk' hk⟩

/-! ### non-vacuity -/

/-- the state after a history run from the initial state -/
def stateAfter (env : Env) (acts : List Action) : Option State :=
  match runActions env acts (State.init 128 true) #[] with
  | .ok (s, _) => some s
  | .error _ => none

/-- the user-function calls of node `n` logged by the actions after the first `k`, oldest first, rendered as in the
trace -/
def callsOf (env : Env) (acts : List Action) (k n : Nat) : List String :=
  match stateAfter env (acts.take k), stateAfter env acts with
  | some s1, some s2 => (callsAt n (s2.log.take (s2.log.length - s1.log.length))).reverse.map Event.render
  | _, _ => []

/-- what the theorem says they are: `opCalls` of (closure state, stored output) after the first `k` actions and the value
of the input node at the end -/
def specCalls (d : Defs) (acts : List Action) (k n g i : Nat) : List String :=
  match stateAfter d.toEnv (acts.take k), stateAfter d.toEnv acts with
  | some s1, some s2 =>
    match (s2.nodeD i).value with
    | some x => (callEvents n (opCalls d g (s1.nodeD n).oldState (s1.nodeD n).value x)).reverse.map Event.render
    | none => []
  | _, _ => []

set_option maxRecDepth 100000 in
/-- `C15History.histFm`: its last action is the `stabilise` after the filter-map node `n2` (closure `opBase + 0`, input
node `n1`) was re-observed; it last ran on `{1:3,2:1,5:3}`, the input is now `{2:2,4:1}`.  The user-function events of `n2`
in the log of THAT `stabilise` are the two calls for `2 ↦ 2` and `4 ↦ 1` — and they are `opCalls` of (input last run on,
stored output, current input), as `history_operator_calls` says.  In the `stabilise` before (actions 13–14: the node is
unobserved, the input was edited) the node logs nothing. -/
example : callsOf C15History.exD.toEnv C15History.histFm 15 2 = ["inv M0.fn@n2 (2,2)->2", "inv M0.fn@n2 (4,1)->()"] ∧
    callsOf C15History.exD.toEnv C15History.histFm 15 2 = specCalls C15History.exD C15History.histFm 15 2 opBase 1 ∧
    callsOf C15History.exD.toEnv (C15History.histFm.take 14) 12 2 = [] :=
  ⟨by decide +kernel, by decide +kernel, by decide +kernel⟩

end c17

/-! ## T2a: at most once per round, fragment static + `map_with_old` -/

section mapold
open IncrVerif.Proofs.MapOldH

/-- **at most once, the drain** (fragment static + map_with_old): the nodes run by a successful `drainHeap` from the
drain invariant are pairwise distinct; each is necessary, had not run in this round and is stamped afterwards; every
`recomputeOne` of the drain happens in a state with the drain invariant. -/
theorem drain_once_mapold {env : Env} {C : Val → Prop} {sp : Nat → Val → Val} (V : ValOK env C sp) {fuel : Nat}
    {s s' : State} (D : DrainInvW env C sp s) (h : (drainHeap env fuel).run.run s = (.ok (), s')) :
    (drainTrace env fuel s).Nodup ∧ (∀ m, m ∈ drainTrace env fuel s → RanOnce s s' m) ∧
      (drainSteps env fuel s).map (·.1) = drainTrace env fuel s ∧
      ∀ p, p ∈ drainSteps env fuel s → DInvW env C sp p.2 (some p.1) ∧ FrA s p.2 := by
  obtain ⟨a, b, c⟩ := drain_onceW V D h
  exact ⟨a, b, drainSteps_fst env fuel s, c⟩

/-- **at most once per round, and only necessary nodes** (fragment static + map_with_old): `t2` is the state in which the
drain of this `stabilise` starts. -/
theorem stabilise_once_mapold {env : Env} {C : Val → Prop} {sp : Nat → Val → Val} {fuel : Nat} {s s' : State}
    (V : ValOK env C sp) (Q : QInvW env C sp s) (h : (stabilise env fuel).run.run s = (.ok (), s')) :
    ∃ t1 t2 t3, (addNewObservers env fuel).run.run { s with status := .stabilising } = (.ok (), t1) ∧
      (unlinkDisallowedObservers fuel).run.run t1 = (.ok (), t2) ∧
      (drainHeap env fuel).run.run t2 = (.ok (), t3) ∧ (stabiliseEnd env fuel).run.run t3 = (.ok (), s') ∧
      DrainInvW env C sp t2 ∧ (drainTrace env fuel t2).Nodup ∧
      ∀ m, m ∈ drainTrace env fuel t2 → t2.isNecessary m = true ∧ s'.isNecessary m = true ∧
        (t2.nodeD m).recomputedAt < s.stabNum ∧ (s'.nodeD m).recomputedAt = s.stabNum :=
  stabilise_onceW V Q h

/-- at every `stabilise` of a history of the fragment -/
theorem history_once_mapold {env : Env} {C : Val → Prop} {sp : Nat → Val → Val} {N : Nat} {d : Bool}
    {as bs : List Action} {s : State} {tk : Array Nat} (V : ValOK env C sp)
    (ha : ∀ a, a ∈ as ++ Action.stabilise :: bs → WAction env C sp a)
    (h : runActions env (as ++ Action.stabilise :: bs) (State.init N d) #[] = .ok (s, tk)) :
    ∃ s1 tk1 s2 t2, runActions env as (State.init N d) #[] = .ok (s1, tk1) ∧
      (stabilise env fuelDefault).run.run s1 = (.ok (), s2) ∧ runActions env bs s2 tk1 = .ok (s, tk) ∧
      (drainTrace env fuelDefault t2).Nodup ∧
      ∀ m, m ∈ drainTrace env fuelDefault t2 → s2.isNecessary m = true ∧ (s2.nodeD m).recomputedAt = s1.stabNum := by
  obtain ⟨s1, tk1, s2, h1, Q1, h2, -, -, -, -, h6⟩ := historyW_stabilise V ha h
  obtain ⟨t1, t2, t3, -, -, -, -, -, hnd, hall⟩ := stabilise_onceW V Q1 h2
  exact ⟨s1, tk1, s2, t2, h1, h2, h6, hnd, fun m hm => ⟨(hall m hm).2.1, (hall m hm).2.2.2⟩⟩

/-! ### T2b: total correctness, fragment static + `map_with_old` -/

/-- **one action returns**: every action of the fragment whose indices exist (`WT.ActionOKW`: operands name top-level
nodes, observers/variables exist, room for the 1/3/5 new nodes of a creation, `3 * nodes + 4 ≤ fuelDefault` for a
`stabilise`) returns and keeps the invariants. -/
theorem mapold_action_returns {env : Env} {C : Val → Prop} {sp : Nat → Val → Val} {N : Nat} {s : State} {a : Action}
    {tk : Array Nat} (V : ValOK env C sp) (Q : QInvW env C sp s) (T : WT.TInvW N s) (ha : WAction env C sp a)
    (hok : WT.ActionOKW N s a) :
    ∃ r s', (stepAction env a tk).run.run s = (.ok r, s') ∧ r.2 = tk ∧ QInvW env C sp s' ∧ WT.TInvW N s' ∧
      WT.GrownW a s s' :=
  WT.step_totalW V Q T ha hok

/-- **`stabilise` returns** (fragment static + map_with_old, pending observers allowed). -/
theorem mapold_stabilise_returns {env : Env} {C : Val → Prop} {sp : Nat → Val → Val} {N fuel : Nat} {s : State}
    (V : ValOK env C sp) (Q : QInvW env C sp s) (T : WT.TInvW N s) (hf : 3 * s.nodes.size + 4 ≤ fuel) :
    ∃ s', (stabilise env fuel).run.run s = (.ok (), s') ∧ WT.TInvW N s' ∧ StabilisedW env C sp fuel s s' := by
  obtain ⟨_, s', h, T', -⟩ := WT.stabiliseW_total V Q T hf
  exact ⟨s', h, T', stabiliseW V Q h⟩

/-- **T2b: a valid history of the fragment static + map_with_old never panics** (`WT.ValidHistW N 0 0 0 0 acts`,
decidable: every operand names an existing top-level node, every observer / variable index exists, the number of nodes
never exceeds `N` = the height limit — a `mapOp` creation adds 3 nodes, 5 for merge —, `3 * nodes + 4 ≤ fuelDefault` at
every `stabilise`). -/
theorem mapold_history_never_panics {env : Env} {C : Val → Prop} {sp : Nat → Val → Val} {N : Nat} {d : Bool}
    {acts : List Action} (V : ValOK env C sp) (ha : ∀ a, a ∈ acts → WAction env C sp a)
    (hv : WT.ValidHistW N 0 0 0 0 acts) :
    ∃ s', runActions env acts (State.init N d) #[] = .ok (s', #[]) ∧ QInvW env C sp s' ∧ WT.TInvW N s' :=
  WT.history_totalW V ha hv

/-- the same for definition tables: actions pass `okAction d`, the history is valid -/
theorem mapop_history_never_panics (d : Defs) {N : Nat} {dbg : Bool} {acts : List Action}
    (ha : ∀ a, a ∈ acts → okAction d a = true) (hv : WT.ValidHistW N 0 0 0 0 acts) :
    ∃ s', runActions d.toEnv acts (State.init N dbg) #[] = .ok (s', #[]) ∧ DInv d s' ∧ WT.TInvW N s' :=
  WT.mapop_history_never_panics d ha hv

/-- hence, UNCONDITIONALLY for valid histories: every `stabilise` of a valid history of map operators returns, after it
every in-use observer reads the operators' definitions (`C15History.mapop_history_every_stabilise`), and the
user-function events of every operator node in its log are exactly `opCalls` of (input last run on, current input)
(`history_operator_calls`). -/
theorem valid_history_operator_calls (d : Defs) {N : Nat} {dbg : Bool} {as bs : List Action} {n g i : Nat}
    (hg : opBase ≤ g) (ha : ∀ a, a ∈ as ++ Action.stabilise :: bs → okAction d a = true)
    (hv : WT.ValidHistW N 0 0 0 0 (as ++ Action.stabilise :: bs)) :
    ∃ s1 tk1 s2 s new, runActions d.toEnv as (State.init N dbg) #[] = .ok (s1, tk1) ∧
      (stabilise d.toEnv fuelDefault).run.run s1 = (.ok (), s2) ∧ runActions d.toEnv bs s2 tk1 = .ok (s, #[]) ∧
      ReadsOKW d.toEnv (machSpec d) s2 ∧ s2.log = new ++ s1.log ∧
      ((s1.nodeD n).kind = .mapWithOld g i →
        ((s2.nodeD n).recomputedAt ≠ s1.stabNum → callsAt n new = []) ∧
        ((s2.nodeD n).recomputedAt = s1.stabNum → ∃ x, (s2.nodeD i).value = some x ∧ Canon x ∧
          callsAt n new = callEvents n (opCalls d g (s1.nodeD n).oldState (s1.nodeD n).value x))) := by
  obtain ⟨s, h, -, -⟩ := WT.mapop_history_never_panics d (dbg := dbg) ha hv
  obtain ⟨s1, tk1, s2, new, h1, h2, h3, e, hc⟩ := history_operator_calls d (n := n) (i := i) hg ha h
  obtain ⟨s1', tk1', s2', h1', h2', -, hr, -, -, -⟩ := C15History.mapop_history_every_stabilise d ha h
  rw [h1] at h1'
  cases h1'
  rw [h2] at h2'
  cases h2'
  exact ⟨s1, tk1, s2, s, new, h1, h2, h3, hr, e, hc⟩

/-- `C15History.histFm` and `histMerge` are valid (decided, not run) — so they never panic, by the theorem -/
example : WT.ValidHistW 128 0 0 0 0 C15History.histFm ∧ WT.ValidHistW 128 0 0 0 0 C15History.histMerge :=
  ⟨by decide, by decide⟩

example : ∃ s, runActions C15History.exD.toEnv C15History.histFm (State.init 128 true) #[] = .ok (s, #[]) ∧
    DInv C15History.exD s ∧ WT.TInvW 128 s :=
  mapop_history_never_panics C15History.exD
    (fun a h => List.all_eq_true.1 (by decide : C15History.histFm.all (okAction C15History.exD) = true) a h) (by decide)

/-- validity is needed: with room for 6 nodes only, `histFm` (7 nodes) is not valid -/
example : ¬ WT.ValidHistW 6 0 0 0 0 C15History.histFm := by decide

end mapold

/-! ## T1a: at most once per round, fragment static + `map_ref` -/

section mapref
open IncrVerif.Proofs.MapRefH

/-- **at most once, the drain** (fragment static + map_ref). -/
theorem drain_once_mapref {env : Env} {fuel : Nat} {s s' : State} (D : DrainInvR env s)
    (h : (drainHeap env fuel).run.run s = (.ok (), s')) :
    (drainTrace env fuel s).Nodup ∧ (∀ m, m ∈ drainTrace env fuel s → RanOnce s s' m) ∧
      (drainSteps env fuel s).map (·.1) = drainTrace env fuel s ∧
      ∀ p, p ∈ drainSteps env fuel s → (∃ g, DInvR env p.2 g (some p.1)) ∧ FrA s p.2 := by
  obtain ⟨a, b, c⟩ := drain_onceR D h
  exact ⟨a, b, drainSteps_fst env fuel s, c⟩

/-- **at most once per round, and only necessary nodes** (fragment static + map_ref): the nodes on which `recomputeOne`
is invoked during a `stabilise` from the invariant between API actions are pairwise distinct, and each is necessary. -/
theorem stabilise_once_mapref {env : Env} {g : Nat → Option Val} {fuel : Nat} {s s' : State} (Q : QInvR env s g)
    (h : (stabilise env fuel).run.run s = (.ok (), s')) :
    ∃ t1 t2 t3, (addNewObservers env fuel).run.run { s with status := .stabilising } = (.ok (), t1) ∧
      (unlinkDisallowedObservers fuel).run.run t1 = (.ok (), t2) ∧
      (drainHeap env fuel).run.run t2 = (.ok (), t3) ∧ (stabiliseEnd env fuel).run.run t3 = (.ok (), s') ∧
      DrainInvR env t2 ∧ (drainTrace env fuel t2).Nodup ∧
      ∀ m, m ∈ drainTrace env fuel t2 → t2.isNecessary m = true ∧ s'.isNecessary m = true ∧
        (t2.nodeD m).recomputedAt < s.stabNum ∧ (s'.nodeD m).recomputedAt = s.stabNum :=
  stabilise_onceR Q h

/-- at every `stabilise` of a history of the fragment -/
theorem history_once_mapref {env : Env} {N : Nat} {d : Bool} {as bs : List Action} {s : State} {tk : Array Nat}
    (ha : ∀ a, a ∈ as ++ Action.stabilise :: bs → MapRefAction env a)
    (h : runActions env (as ++ Action.stabilise :: bs) (State.init N d) #[] = .ok (s, tk)) :
    ∃ s1 tk1 s2 t2, runActions env as (State.init N d) #[] = .ok (s1, tk1) ∧
      (stabilise env fuelDefault).run.run s1 = (.ok (), s2) ∧ runActions env bs s2 tk1 = .ok (s, tk) ∧
      (drainTrace env fuelDefault t2).Nodup ∧
      ∀ m, m ∈ drainTrace env fuelDefault t2 → s2.isNecessary m = true ∧ (s2.nodeD m).recomputedAt = s1.stabNum := by
  obtain ⟨s1, tk1, s2, g1, g2, h1, Q1, h2, -, -, -, -, h6⟩ := historyR_stabilise ha h
  obtain ⟨t1, t2, t3, -, -, -, -, -, hnd, hall⟩ := stabilise_onceR Q1 h2
  exact ⟨s1, tk1, s2, t2, h1, h2, h6, hnd, fun m hm => ⟨(hall m hm).2.1, (hall m hm).2.2.2⟩⟩

/-! ### T1b: total correctness, fragment static + `map_ref` -/

/-- **T1b: a valid history of the fragment static + map_ref never panics.**  `RT.ValidHistR N 0 0 0 acts` is
`Quiet.ValidHist` of the virtual history (`RT.validHistR_iff`): existing operands (now also the operand of
`create (mapRef p i)`), observers and variables, at most `N` = height limit nodes, `3 * nodes + 4 ≤ fuelDefault` at every
`stabilise` — the SAME room and fuel as for static programs: the recursions that exist only in the actual engine
(`markMapRefUnknown` through the parents of map_ref nodes in the linking cascade, `child_changed` through chains of
map_ref nodes in the drain) fit into that fuel. -/
theorem mapref_history_never_panics {env : Env} {N : Nat} {d : Bool} {acts : List Action}
    (ha : ∀ a, a ∈ acts → MapRefAction env a) (hv : RT.ValidHistR N 0 0 0 acts) :
    ∃ s', runActions env acts (State.init N d) #[] = .ok (s', #[]) ∧ QInvRE env s' ∧ TInv N s' :=
  RT.historyR_total ha hv

/-- one action of the fragment whose indices exist returns and keeps the invariants -/
theorem mapref_action_returns {env : Env} {g : Nat → Option Val} {N : Nat} {s : State} {a : Action} {tk : Array Nat}
    (Q : QInvR env s g) (T : TInv N s) (ha : MapRefAction env a) (hok : RT.ActionOKR N s a) :
    ∃ r s', (stepAction env a tk).run.run s = (.ok r, s') ∧ r.2 = tk ∧ QInvRE env s' ∧ TInv N s' ∧ Grown a s s' :=
  RT.stepR_total Q T ha hok

/-- **`stabilise` returns** (fragment static + map_ref, pending observers allowed), and all of M2 holds for the result -/
theorem mapref_stabilise_returns {env : Env} {g : Nat → Option Val} {N fuel : Nat} {s : State} (Q : QInvR env s g)
    (T : TInv N s) (hf : 3 * s.nodes.size + 4 ≤ fuel) :
    ∃ s' g', (stabilise env fuel).run.run s = (.ok (), s') ∧ StabilisedR env fuel s s' g g' ∧ TInv N s' := by
  obtain ⟨_, s', h, ⟨g', R⟩, T'⟩ := RT.stabiliseR_total Q T hf
  exact ⟨s', g', h, R, T'⟩

/-- **C01 for programs with map_ref, total form**: at every `stabilise` of a VALID history (no assumption that anything
returns) the prefix runs, the `stabilise` returns, afterwards every observer in use reads the from-scratch value of its
node, no necessary node is stale; the rest runs. -/
theorem mapref_valid_history_stabilise {env : Env} {N : Nat} {d : Bool} {as bs : List Action}
    (ha : ∀ a, a ∈ as ++ Action.stabilise :: bs → MapRefAction env a)
    (hv : RT.ValidHistR N 0 0 0 (as ++ Action.stabilise :: bs)) :
    ∃ s1 s2 s, runActions env as (State.init N d) #[] = .ok (s1, #[]) ∧ QInvRE env s1 ∧
      (stabilise env fuelDefault).run.run s1 = (.ok (), s2) ∧ QInvRE env s2 ∧
      ReadsOKR env s2 ∧ ObsSettled s2 ∧ (∀ n, s2.isNecessary n = true → s2.isStale n = false) ∧
      runActions env bs s2 #[] = .ok (s, #[]) :=
  RT.historyR_total_stabilise ha hv

/-- the corpus histories of the repaired defects D1 and D15 are valid (decided, not run), hence never panic — in debug
and in release mode — by the theorem -/
example (d : Bool) :
    (∃ s', runActions C01MapRef.exEnvM C01MapRef.histD1 (State.init 128 d) #[] = .ok (s', #[]) ∧
      QInvRE C01MapRef.exEnvM s' ∧ TInv 128 s') ∧
    (∃ s', runActions C01MapRef.exEnvM C01MapRef.histD15 (State.init 128 d) #[] = .ok (s', #[]) ∧
      QInvRE C01MapRef.exEnvM s' ∧ TInv 128 s') :=
  ⟨mapref_history_never_panics C01MapRef.histD1_ok RT.histD1_valid,
   mapref_history_never_panics C01MapRef.histD15_ok RT.histD15_valid⟩

end mapref

/-! ## T3: total correctness for the subscription and the write-effect fragments -/

section subs
open IncrVerif.Proofs.SubsH IncrVerif.Proofs.TidyH.SubsT

/-- **T3a: a valid history of the fragment static + subscriptions never panics** (`Props/C09History.lean`: handlers
without effects, `SubsH.PureHandlers`).  `SubsT.ValidHistS` = `Quiet.ValidHist` (indices exist, at most `N` nodes,
`3 * nodes + 4 ≤ fuelDefault` at every `stabilise`) plus: every `subscribe` names an existing observer (`unsubscribe` /
`stateUnsub` need nothing: an unknown token is a no-op, the recorded owner of an issued token exists — `SubsT.TokIn`). -/
theorem subs_history_never_panics {env : Env} {N : Nat} {d : Bool} {acts : List Action}
    (heff : PureHandlers env) (ha : ∀ a, a ∈ acts → SubAction env a) (hv : ValidHistS N 0 0 0 acts) :
    ∃ s' tk', runActions env acts (State.init N d) #[] = .ok (s', tk') ∧ UInv env s' ∧ TInv N s' ∧ TokIn tk' s' :=
  SubsT.history_total heff ha hv

/-- one action of the fragment returns -/
theorem subs_action_returns {env : Env} {N : Nat} {s : State} {a : Action} {tk : Array Nat}
    (U : UInv env s) (T : TInv N s) (K : TokIn tk s) (heff : PureHandlers env) (ha : SubAction env a)
    (hok : ActionOK N s a) (hsub : SubsOK s a) :
    ∃ r s', (stepAction env a tk).run.run s = (.ok r, s') ∧ UInv env s' ∧ TInv N s' ∧ TokIn r.2 s' ∧ Grown a s s' :=
  SubsT.step_total U T K heff ha hok hsub

/-- hence C09 UNCONDITIONALLY for valid histories: the history runs, and for EVERY token the logged updates are exactly
the specified ones, `Initialised` once and first, then only `Changed` -/
theorem subs_valid_history_notifications {env : Env} {N : Nat} {d : Bool} {acts : List Action}
    (heff : PureHandlers env) (ha : ∀ a, a ∈ acts → SubAction env a) (hv : ValidHistS N 0 0 0 acts) :
    ∃ s' tk', runActions env acts (State.init N d) #[] = .ok (s', tk') ∧ UInv env s' ∧ TInv N s' ∧
      ∀ t, tokLog t s'.log = specT env t acts (State.init N d) #[] [] ∧ Shape (tokLog t s'.log) :=
  SubsT.valid_history_notifications heff ha hv

/-- the example histories of `Props/C09History.lean` are valid (decided), hence never panic by the theorem; `subscribe`
on an observer that does not exist panics in the model and is rejected by the validity checker -/
example : ValidHistS 128 0 0 0 C09History.exHist ∧ ValidHistS 128 0 0 0 C09History.exHist2 ∧
    ValidHistS 128 0 0 0 SubsT.exHist3 := ⟨SubsT.exHist_valid, SubsT.exHist2_valid, SubsT.exHist3_valid⟩

example : ∃ s' tk', runActions Step.exEnv C09History.exHist (State.init 128 true) #[] = .ok (s', tk') ∧
    UInv Step.exEnv s' ∧ TInv 128 s' ∧ TokIn tk' s' :=
  subs_history_never_panics C09History.exEnv_pure C09History.exHist_ok SubsT.exHist_valid

example : SubsT.ranOk Step.exEnv [.subscribe 0 0] = false ∧ SubsT.validHistB 128 0 0 0 [.subscribe 0 0] = false :=
  ⟨by decide +kernel, by decide +kernel⟩

end subs

section effects
open IncrVerif.Proofs.EffH IncrVerif.Proofs.TidyH.SubsT IncrVerif.Proofs.TidyH.EffT

/-- **T3b: a valid history of the write-effects fragment never panics** (`Props/C08History.lean`, V3: node functions and
update handlers that WRITE variables: `WOnly env`, `WHandlers env`).  `EffT.FnBound env B` / `EffT.HBound env B`: every
variable a function / a handler may write has index `< B`; `EffT.ValidHistW N B` = `SubsT.ValidHistS` plus: at every
`stabilise` at least `B` variables exist (a write to a variable that does not exist panics: `EffT.exBad`).  Only single
actions are claimed to return — the `is_stable` loop of a program is not bounded (a function that writes a variable it
depends on never stabilises). -/
theorem effects_history_never_panics {env : Env} {N B : Nat} {d : Bool} {acts : List Action}
    (hw : WOnly env) (hH : WHandlers env) (hFb : FnBound env B) (hHb : HBound env B)
    (ha : ∀ a, a ∈ acts → WAction env a) (hv : EffT.ValidHistW N B 0 0 0 acts) :
    ∃ s' tk', runActions env acts (State.init N d) #[] = .ok (s', tk') ∧ UInvE env s' ∧ TInv N s' ∧ TokIn tk' s' :=
  EffT.history_total_w hw hH hFb hHb ha hv

/-- one action of the fragment returns -/
theorem effects_action_returns {env : Env} {N B : Nat} {s : State} {a : Action} {tk : Array Nat}
    (hw : WOnly env) (hH : WHandlers env) (hFb : FnBound env B) (hHb : HBound env B) (UE : UInvE env s)
    (T : TInv N s) (K : TokIn tk s) (ha : WAction env a) (hok : ActionOK N s a) (hsub : SubsOK s a)
    (hstab : StabOK B s a) :
    ∃ r s', (stepAction env a tk).run.run s = (.ok r, s') ∧ UInvE env s' ∧ TInv N s' ∧ TokIn r.2 s' ∧ Grown a s s' :=
  EffT.step_total_w hw hH hFb hHb UE T K ha hok hsub hstab

/-- hence V3 of `Props/C08History.lean` UNCONDITIONALLY at every `stabilise` of a valid history -/
theorem effects_valid_history_stabilise {env : Env} {N B : Nat} {d : Bool} {as bs : List Action}
    (hw : WOnly env) (hH : WHandlers env) (hFb : FnBound env B) (hHb : HBound env B)
    (ha : ∀ a, a ∈ as ++ Action.stabilise :: bs → WAction env a)
    (hv : EffT.ValidHistW N B 0 0 0 (as ++ Action.stabilise :: bs)) :
    ∃ s1 tk1 s2 t2 t3 s tk, runActions env as (State.init N d) #[] = .ok (s1, tk1) ∧ UInvE env s1 ∧
      (stabilise env fuelDefault).run.run s1 = (.ok (), s2) ∧ WStab env fuelDefault s1 t2 t3 s2 ∧
      runActions env bs s2 tk1 = .ok (s, tk) ∧ UInvE env s :=
  EffT.valid_history_stabilise_w hw hH hFb hHb ha hv

/-- the example of `Props/C08History.lean` (a function writes `v1`, the handler writes it twice) is valid, hence never
panics by the theorem; a `stabilise` before the written variable exists panics and is rejected by the checker -/
example : EffT.ValidHistW 128 2 0 0 0 C08History.exHistH := EffT.exHistH_valid

example : SubsT.ranOk C08History.exEnvH EffT.exBad = false ∧ EffT.validHistWB 128 2 0 0 0 EffT.exBad = false :=
  ⟨by decide +kernel, by decide +kernel⟩

end effects

/-! ## T4: total correctness for the expert fragment X1 (top-level `addDep`) -/

section expert
open IncrVerif.Proofs.ExpertH IncrVerif.Proofs.TidyH.XT
-- (`ExpertH.QR` has its own copies of `runActions`, `ObsSettled`: same definitions, rank-ordered development)

/-- the copy of `runActions` in the rank-ordered development is `Quiet.runActions` -/
theorem qr_runActions_eq (env : Env) (acts : List Action) (s : State) (tk : Array Nat) :
    QR.runActions env acts s tk = Quiet.runActions env acts s tk := by
  induction acts generalizing s tk with
  | nil => rfl
  | cons a as ih =>
    simp only [QR.runActions, Quiet.runActions]
    rcases (stepAction env a tk).run.run s with ⟨_ | r, s'⟩
    · rfl
    · exact ih s' r.2

/-- **T4: a valid history of fragment X1 never panics.**  `XT.ValidRun env N acts s tk`: `ExpertH.RunOK` (every action,
in the state in which it is executed, is an action of X1: static actions, `create (expert f)` with a "sum" closure,
`addDep e c cb` under `ExpertH.AddDepOK` = the new edge closes no cycle, `stabilise`) plus `XT.ActionOKx N s a` (indices
exist; a creation leaves `nodes.size + 1 ≤ N`; `stabilise` and `addDep` have `3 * nodes.size + 4 ≤ fuelDefault`).  No
"cyclic" panic, no "height-limit" (the room condition `nodes.size ≤ N` is tight: a chain built by `addDep` reaches height
`nodes.size`), no assertion, no `model:` error, the fuel suffices — for both `cfg.debug` settings.  `XT.TInvX N s`: every
necessary node has height `≤ dp + 1` (`XT.dp` = the DEPTH, the longest child chain below the node — the bound that
survives the re-ranking of `addDep`), both heaps have `N + 1` buckets, `nodes.size ≤ N`, … -/
theorem expert_history_never_panics {env : Env} {N : Nat} {d : Bool} {acts : List Action}
    (hv : ValidRun env N acts (State.init N d) #[]) :
    ∃ s' tk', QR.runActions env acts (State.init N d) #[] = .ok (s', tk') ∧ (∃ rk, QInvX env rk s') ∧ TInvX N s' :=
  history_never_panicsX hv

/-- one valid action of X1 returns and keeps both invariants -/
theorem expert_action_returns {env : Env} {rk : Nat → Nat} {N : Nat} {s : State} {a : Action} {tk : Array Nat}
    (Q : QInvX env rk s) (T : TInvX N s) (ha : XActionOK env s a) (hok : ActionOKx N s a) :
    ∃ r s', (stepAction env a tk).run.run s = (.ok r, s') ∧ r.2 = tk ∧ (∃ rk', QInvX env rk' s') ∧ TInvX N s' ∧
      GrownX a s s' :=
  step_totalX Q T ha hok

/-- **`addDep` returns** under the acyclicity hypothesis: the linking cascade and `adjustHeights` terminate without
panic -/
theorem expert_addDep_returns {env : Env} {rk : Nat → Nat} {N : Nat} {s : State} {eo co : Opnd} {cb : Bool}
    {tk : Array Nat} (Q : QInvX env rk s) (T : TInvX N s) (ha : AddDepOK s eo co)
    (hok : ActionOKx N s (.addDep eo co cb)) :
    ∃ r s', (stepAction env (.addDep eo co cb) tk).run.run s = (.ok r, s') ∧ r.2 = tk ∧
      (∃ rk', QInvX env rk' s') ∧ TInvX N s' ∧ GrownX (.addDep eo co cb) s s' :=
  addDep_action_totalX Q T ha hok

/-- hence `C14History.history_every_stabilise` UNCONDITIONALLY at every `stabilise` of a valid history -/
theorem expert_valid_history_stabilise {env : Env} {N : Nat} {d : Bool} {as bs : List Action}
    (hv : ValidRun env N (as ++ Action.stabilise :: bs) (State.init N d) #[]) :
    ∃ s1 tk1 s2 rk1 s tk, QR.runActions env as (State.init N d) #[] = .ok (s1, tk1) ∧ QInvX env rk1 s1 ∧
      (stabilise env fuelDefault).run.run s1 = (.ok (), s2) ∧ StabilisedX env rk1 fuelDefault s1 s2 ∧
      ReadsOKX env s2 ∧ QR.ObsSettled s2 ∧ (∀ n, s2.isNecessary n = true → s2.isStale n = false) ∧
      QR.runActions env bs s2 tk1 = .ok (s, tk) ∧ (∃ rk, QInvX env rk s) ∧ TInvX N s :=
  valid_history_stabiliseX hv

/-- `C14History.exHistX` (expert created before its dependencies, `addDep` with height adjustment 3 → 5/6, duplicate
dependency) is a valid history — `XT.validRunB` evaluated by the kernel — hence never panics BY THE THEOREM -/
example : ∃ s' tk', QR.runActions C14History.exEnvX C14History.exHistX (State.init 128 true) #[] = .ok (s', tk') ∧
    (∃ rk, QInvX C14History.exEnvX rk s') ∧ TInvX 128 s' :=
  expert_history_never_panics exHistX_valid

end expert

end IncrVerif.Props.C17History
