import IncrVerif.Proofs.TidyH8
import IncrVerif.Proofs.TidyH2
import IncrVerif.Props.C15History
import IncrVerif.Props.C01MapRef
/-!
# C17 for the whole event log of a `stabilise`; at most once per round and total correctness for the extended fragments

This file closes gaps listed as "NOT PROVED" in the headers of `Props/C15History.lean` (C17 only per operator step; at
most once; total correctness), `Props/C01MapRef.lean` (at most once per round not restated; total correctness),
`Props/C09History.lean`, `Props/C08History.lean`, `Props/C14History.lean` (total correctness).

PROVED (for the model).

T2c — C17 AS A STATEMENT ABOUT THE WHOLE LOG (fragment static + `map_with_old`, operator closures `g ≥ opBase`;
`Proofs/TidyH4…8`).  For ONE `stabilise` from a state satisfying the invariant between API actions (`MapOldH.QInvW`; every
state of a history of the fragment does), an operator node `n` = `mapWithOld g i`, and `new` = the events this `stabilise`
appends to the log:
* `stabilise_operator_log` (positional form, `TidyH.StabCalls`): EITHER `n` is not recomputed — its stamp, closure state
  and stored output are unchanged and `new` contains no user-function call of `n` (`TidyH.NoCalls n new`: every event is
  notification noise or not an `inv` event of `n`) — OR `n` is recomputed, exactly once, and
  `new = A ++ callEvents n (opCalls d g σ old x) ++ B` where `σ`/`old` are the closure state (= THE INPUT THE OPERATOR LAST
  RAN ON) and the stored output of `n` BEFORE the `stabilise`, `x` is the value the input node `i` has AFTER it (the current
  input value), and neither `A` nor `B` contains a user-function call of `n`.
* `stabilise_operator_calls` (filter form): `callsAt n new` — the `inv` events of node `n` in `new` other than expert edge
  callbacks, i.e. the `M{m}.fn`/`add`/`remove`/`update`/`merge` events of the operator — is `[]` if `n` did not run and
  is EXACTLY `callEvents n (opCalls d g σ old x)` if it did (`(s'.nodeD n).recomputedAt = s.stabNum`).  Together with
  `C15History.operator_states` (`σ = .unit ∧ old = none`, or `σ` canonical and `old = some (opSpec d g σ)`) and the
  characterisations of `opCalls` in `C15History` (`filter_map_step_calls` … : only keys whose binding differs, each at
  most once per role) this is C17's statement for the whole log of a `stabilise`.
* `history_operator_calls`: the same at every `stabilise` of a history whose actions pass `okAction d`.
* Non-vacuity: on `C15History.histFm` the last `stabilise` (the re-observed filter-map node `n2`) logs exactly the calls
  for `2 ↦ 2` and `4 ↦ 1`, which are `opCalls` of (the input it last ran on, the current input) (`decide +kernel`).

T1a / T2a — AT MOST ONCE PER ROUND (fragments static + `map_ref`, static + `map_with_old`; `Proofs/TidyH1…3`).
`stabilise_once_mapref`, `stabilise_once_mapold`: the nodes on which `recomputeOne` is invoked during a `stabilise`
(`Sched.drainTrace` of the state `t2` in which the drain of THIS `stabilise` starts — `t2` is tied to the run by the four
phase equations) are pairwise distinct; each is necessary (in `t2` and in the final state), had not run in this round,
and carries the stamp of this round at the end.  `drain_once_mapref`, `drain_once_mapold`: the same for a `drainHeap`
from the drain invariant, and every `recomputeOne` of the drain happens in a state with the drain invariant
(`TidyH.drainSteps`: the trace WITH the states).  `history_once_mapref`, `history_once_mapold`: at every `stabilise` of a
history.  The proof is `Sched.drain_once` redone over an abstract drain invariant (`TidyH.OnceKit`), instantiated with
`MapRefH.DInvR` / `MapOldH.DInvW` (whose scheduling invariant lives on the virtual state).

ASSUMED.  T2c/T1a/T2a are partial-correctness statements (the `stabilise` returns); hypotheses are those of the fragments
(`Props/C15History.lean`, `Props/C01MapRef.lean`).
-/
namespace IncrVerif.Props.C17History
open IncrVerif IncrVerif.Engine IncrVerif.Driver IncrVerif.MapOps IncrVerif.Proofs IncrVerif.Proofs.Sched
open IncrVerif.Proofs.Quiet IncrVerif.Proofs.TidyH

/-! ## T2c: C17 for the whole log of a `stabilise` -/

section c17
open IncrVerif.Proofs.MapOldH

/-- **C17, whole log, positional form.** -/
theorem stabilise_operator_log {d : Defs} {n g i fuel : Nat} {s s' : State} (hg : opBase ≤ g)
    (Q : QInvW d.toEnv Canon (machSpec d) s) (hk : (s.nodeD n).kind = .mapWithOld g i)
    (h : (stabilise d.toEnv fuel).run.run s = (.ok (), s')) :
    ∃ new, s'.log = new ++ s.log ∧ (s.nodeD n).recomputedAt < s.stabNum ∧ StabCalls d n g i s s' new :=
  stabilise_calls hg Q hk h

/-- **C17, whole log.** In one `stabilise` (from the invariant between API actions) the user-function events of the
operator node `n` are: none, if `n` is not recomputed (then its closure state and stored output are unchanged); exactly
`opCalls d g σ old x` — `σ` = closure state = the input the operator last ran on, `old` = stored output, both BEFORE the
`stabilise`; `x` = the value of the input node AFTER it — if `n` is recomputed (`recomputedAt = ` this round), which
happens at most once (`stabilise_once_mapold`).  `(σ, old)` is the state of a fresh node or `(x0, opSpec d g x0)`. -/
theorem stabilise_operator_calls {d : Defs} {n g i fuel : Nat} {s s' : State} (hg : opBase ≤ g)
    (Q : QInvW d.toEnv Canon (machSpec d) s) (hk : (s.nodeD n).kind = .mapWithOld g i)
    (h : (stabilise d.toEnv fuel).run.run s = (.ok (), s')) :
    ∃ new, s'.log = new ++ s.log ∧
      ((s'.nodeD n).recomputedAt ≠ s.stabNum → callsAt n new = [] ∧
        (s'.nodeD n).oldState = (s.nodeD n).oldState ∧ (s'.nodeD n).value = (s.nodeD n).value) ∧
      ((s'.nodeD n).recomputedAt = s.stabNum → ∃ x, (s'.nodeD i).value = some x ∧ Canon x ∧
        callsAt n new = callEvents n (opCalls d g (s.nodeD n).oldState (s.nodeD n).value x)) ∧
      (((s.nodeD n).oldState = .unit ∧ (s.nodeD n).value = none) ∨
        (Canon (s.nodeD n).oldState ∧ (s.nodeD n).value = some (opSpec d g (s.nodeD n).oldState))) := by
  obtain ⟨new, h1, h2, h3⟩ := stabilise_calls hg Q hk h
  obtain ⟨a, b⟩ := stabCalls_filter h2 h3
  exact ⟨new, h1, a, b, (opSt_iff d g _ _).1 (opReach d g hg _ _ (Q.m.mach n g i hk))⟩

/-- **C17, whole log, an operator that has run before.** If the operator node `n` has a stored output before the
`stabilise` and is recomputed in it, then its closure state `x0` is the (canonical) input it last ran on, the input node
ends with a canonical value `x`, and the user-function events of `n` logged by the `stabilise` are exactly
`opCalls d g x0 (some (opSpec d g x0)) x`. -/
theorem stabilise_operator_rerun {d : Defs} {n g i fuel : Nat} {s s' : State} (hg : opBase ≤ g)
    (Q : QInvW d.toEnv Canon (machSpec d) s) (hk : (s.nodeD n).kind = .mapWithOld g i)
    (hran : (s.nodeD n).value ≠ none) (hrun : (s'.nodeD n).recomputedAt = s.stabNum)
    (h : (stabilise d.toEnv fuel).run.run s = (.ok (), s')) :
    ∃ new x x0, s'.log = new ++ s.log ∧ (s'.nodeD i).value = some x ∧ Canon x ∧ (s.nodeD n).oldState = x0 ∧ Canon x0 ∧
      callsAt n new = callEvents n (opCalls d g x0 (some (opSpec d g x0)) x) := by
  obtain ⟨new, e, -, b, hst⟩ := stabilise_operator_calls hg Q hk h
  obtain ⟨x, hx, hC, hc⟩ := b hrun
  rcases hst with ⟨-, hnone⟩ | ⟨hC0, hval⟩
  · exact absurd hnone hran
  · exact ⟨new, x, _, e, hx, hC, rfl, hC0, by rw [hc, hval]⟩

/-- **C17, whole log, `incr_filter_mapi`.** In one `stabilise` in which a filter-map node that has run before is
recomputed, the `M{m}.fn` events of the node are EXACTLY one call for every binding `k ↦ v` of the CURRENT input `x` that
the input `x0` it LAST RAN ON did not hold — never for removed or untouched keys. -/
theorem stabilise_filter_map_calls {d : Defs} {n g i m fuel : Nat} {s s' : State} (hg : opBase ≤ g)
    (Q : QInvW d.toEnv Canon (machSpec d) s) (hk : (s.nodeD n).kind = .mapWithOld g i)
    (hd : decodeOp g = (.fm, m)) (hran : (s.nodeD n).value ≠ none)
    (hrun : (s'.nodeD n).recomputedAt = s.stabNum) (h : (stabilise d.toEnv fuel).run.run s = (.ok (), s')) :
    ∃ new x x0 calls, s'.log = new ++ s.log ∧ (s'.nodeD i).value = some x ∧ (s.nodeD n).oldState = x0 ∧
      callsAt n new = callEvents n calls ∧
      ∀ c, c ∈ calls ↔ ∃ k v, c = (s!"M{m}.fn", [.int k, .int v], optStr (opFmFn (d.opParams m) k v)) ∧
        AMap.lookup (asMap x) k = some v ∧ AMap.lookup (asMap x0) k ≠ some v := by
  obtain ⟨new, x, x0, e, hx, hC, h0, hC0, hc⟩ := stabilise_operator_rerun hg Q hk hran hrun h
  exact ⟨new, x, x0, _, e, hx, h0, hc, fun c => C17_fm_calls_iff d g m hd x0 x hC0 hC c⟩

/-- **C17, whole log, the fold**: every user-function event of the node in the log of the `stabilise` is an
`add`/`remove`/`update` for a key whose binding differs between the input last run on and the current input. -/
theorem stabilise_fold_calls {d : Defs} {n g i m fuel : Nat} {rev upd : Bool} {s s' : State} (hg : opBase ≤ g)
    (Q : QInvW d.toEnv Canon (machSpec d) s) (hk : (s.nodeD n).kind = .mapWithOld g i)
    (hd : decodeOp g = (.fold rev upd, m)) (hran : (s.nodeD n).value ≠ none)
    (hrun : (s'.nodeD n).recomputedAt = s.stabNum) (h : (stabilise d.toEnv fuel).run.run s = (.ok (), s')) :
    ∃ new x x0 calls, s'.log = new ++ s.log ∧ (s'.nodeD i).value = some x ∧ (s.nodeD n).oldState = x0 ∧
      callsAt n new = callEvents n calls ∧
      ∀ c, c ∈ calls → ∃ k rest, c.2.1 = .int k :: rest ∧ AMap.lookup (asMap x) k ≠ AMap.lookup (asMap x0) k ∧
        (c.1 = s!"M{m}.add" ∨ c.1 = s!"M{m}.remove" ∨ c.1 = s!"M{m}.update") := by
  obtain ⟨new, x, x0, e, hx, hC, h0, hC0, hc⟩ := stabilise_operator_rerun hg Q hk hran hrun h
  exact ⟨new, x, x0, _, e, hx, h0, hc, C17_fold_calls d g m rev upd hd x0 x hC0 hC⟩

/-- **C17, whole log, merge**: every event is a `merge` call for a key whose binding differs in the left or the right
input. -/
theorem stabilise_merge_calls {d : Defs} {n g i m fuel : Nat} {s s' : State} (hg : opBase ≤ g)
    (Q : QInvW d.toEnv Canon (machSpec d) s) (hk : (s.nodeD n).kind = .mapWithOld g i)
    (hd : decodeOp g = (.merge, m)) (hran : (s.nodeD n).value ≠ none)
    (hrun : (s'.nodeD n).recomputedAt = s.stabNum) (h : (stabilise d.toEnv fuel).run.run s = (.ok (), s')) :
    ∃ new x x0 calls, s'.log = new ++ s.log ∧ (s'.nodeD i).value = some x ∧ (s.nodeD n).oldState = x0 ∧
      callsAt n new = callEvents n calls ∧
      ∀ c, c ∈ calls → ∃ k, c.1 = s!"M{m}.merge" ∧ (∃ l rr, c.2.1 = [.int k, l, rr]) ∧
        (AMap.lookup (mergeIn x).1 k ≠ AMap.lookup (mergeIn x0).1 k ∨
          AMap.lookup (mergeIn x).2 k ≠ AMap.lookup (mergeIn x0).2 k) := by
  obtain ⟨new, x, x0, e, hx, hC, h0, hC0, hc⟩ := stabilise_operator_rerun hg Q hk hran hrun h
  refine ⟨new, x, x0, _, e, hx, h0, hc, fun c hcm => ?_⟩
  obtain ⟨k, rfl, hdiff⟩ := C17_merge_calls_gen d g m hd x0 x hC0 hC c hcm
  exact ⟨k, rfl, ⟨_, _, rfl⟩, hdiff⟩

/-- **C17, whole log, partition**: every event is a call for a binding of the current input that the input last run on
did not hold. -/
theorem stabilise_partition_calls {d : Defs} {n g i m fuel : Nat} {s s' : State} (hg : opBase ≤ g)
    (Q : QInvW d.toEnv Canon (machSpec d) s) (hk : (s.nodeD n).kind = .mapWithOld g i)
    (hd : decodeOp g = (.part, m)) (hran : (s.nodeD n).value ≠ none)
    (hrun : (s'.nodeD n).recomputedAt = s.stabNum) (h : (stabilise d.toEnv fuel).run.run s = (.ok (), s')) :
    ∃ new x x0 calls, s'.log = new ++ s.log ∧ (s'.nodeD i).value = some x ∧ (s.nodeD n).oldState = x0 ∧
      callsAt n new = callEvents n calls ∧
      ∀ c, c ∈ calls → ∃ k v, c.1 = s!"M{m}.fn" ∧ c.2.1 = [.int k, .int v] ∧
        AMap.lookup (asMap x) k = some v ∧ AMap.lookup (asMap x0) k ≠ some v := by
  obtain ⟨new, x, x0, e, hx, hC, h0, hC0, hc⟩ := stabilise_operator_rerun hg Q hk hran hrun h
  refine ⟨new, x, x0, _, e, hx, h0, hc, fun c hcm => ?_⟩
  obtain ⟨k, v, rfl, h1, h2⟩ := C17_part_calls d g m hd x0 x hC0 hC c hcm
  exact ⟨k, v, rfl, rfl, h1, h2⟩

/-- **C17, whole log: an unchanged input costs no call**, whatever the operator: if the input node ends the `stabilise`
with the value the operator last ran on, the `stabilise` logs no user-function event of the operator node (whether or not
it is recomputed). -/
theorem stabilise_same_input_no_calls {d : Defs} {n g i fuel : Nat} {s s' : State} (hg : opBase ≤ g)
    (Q : QInvW d.toEnv Canon (machSpec d) s) (hk : (s.nodeD n).kind = .mapWithOld g i)
    (hran : (s.nodeD n).value ≠ none) (hsame : (s'.nodeD i).value = some (s.nodeD n).oldState)
    (h : (stabilise d.toEnv fuel).run.run s = (.ok (), s')) :
    ∃ new, s'.log = new ++ s.log ∧ callsAt n new = [] := by
  by_cases hrun : (s'.nodeD n).recomputedAt = s.stabNum
  · obtain ⟨new, x, x0, e, hx, hC, h0, hC0, hc⟩ := stabilise_operator_rerun hg Q hk hran hrun h
    rw [hsame] at hx
    cases hx
    refine ⟨new, e, ?_⟩
    rw [hc, ← h0, C17_same d g _ (by rw [h0]; exact hC0)]
    rfl
  · obtain ⟨new, e, a, -, -⟩ := stabilise_operator_calls hg Q hk h
    exact ⟨new, e, (a hrun).1⟩

/-- **C17 at every `stabilise` of a history** whose actions pass the decidable test `okAction d`. -/
theorem history_operator_calls (d : Defs) {N : Nat} {dbg : Bool} {as bs : List Action} {s : State} {tk : Array Nat}
    {n g i : Nat} (hg : opBase ≤ g) (ha : ∀ a, a ∈ as ++ Action.stabilise :: bs → okAction d a = true)
    (h : runActions d.toEnv (as ++ Action.stabilise :: bs) (State.init N dbg) #[] = .ok (s, tk)) :
    ∃ s1 tk1 s2 new, runActions d.toEnv as (State.init N dbg) #[] = .ok (s1, tk1) ∧
      (stabilise d.toEnv fuelDefault).run.run s1 = (.ok (), s2) ∧ runActions d.toEnv bs s2 tk1 = .ok (s, tk) ∧
      s2.log = new ++ s1.log ∧
      ((s1.nodeD n).kind = .mapWithOld g i →
        ((s2.nodeD n).recomputedAt ≠ s1.stabNum → callsAt n new = []) ∧
        ((s2.nodeD n).recomputedAt = s1.stabNum → ∃ x, (s2.nodeD i).value = some x ∧ Canon x ∧
          callsAt n new = callEvents n (opCalls d g (s1.nodeD n).oldState (s1.nodeD n).value x))) := by
  obtain ⟨s1, tk1, s2, h1, Q1, h2, -, -, -, -, h6⟩ :=
    historyW_stabilise (valOK_toEnv d) (fun a hm => okAction_sound (ha a hm)) h
  by_cases hk : (s1.nodeD n).kind = .mapWithOld g i
  · obtain ⟨new, e, a, b, -⟩ := stabilise_operator_calls hg Q1 hk h2
    exact ⟨s1, tk1, s2, new, h1, h2, h6, e, fun _ => ⟨fun hne => (a hne).1, b⟩⟩
  · obtain ⟨t1, t2, t3, -, r1, r2, r3, r4⟩ := stabilise_split h2
    -- the log only grows: take the difference
    obtain ⟨D2, W2, hst, hsd, hdv, hobs, hrec⟩ := prefix_drainInvW Q1 r1 r2
    obtain ⟨n1, e1, -⟩ := (addNewObservers_logN d.toEnv fuelDefault).h _ _ _ r1
    obtain ⟨n2, e2, -⟩ := (unlinkDisallowedObservers_logN fuelDefault).h _ _ _ r2
    obtain ⟨E, a1, a2, a3⟩ := end_finishedW (valOK_toEnv d) D2 hsd hdv hobs r3 r4
    have hlogE := stabiliseEnd_log a1 a2 a3 r4
    have hgrow : ∃ n3, t3.log = n3 ++ t2.log :=
      MapOldH.drain_steps_ind (valOK_toEnv d) (fun a b => ∃ l, b.log = l ++ a.log) (fun _ => ⟨[], rfl⟩)
        (fun a b c ⟨l1, e1⟩ ⟨l2, e2⟩ => ⟨l2 ++ l1, by rw [e2, e1, List.append_assoc]⟩)
        (fun s r s1 D h => by
          have hinv := rchRemoveMin_inv (heapInv_of_virt D.inv.heap) h
          cases r with
          | none => obtain ⟨rfl, -⟩ := hinv; exact ⟨[], rfl⟩
          | some m => obtain ⟨-, -, -, hs1, -⟩ := hinv; exact ⟨[], by rw [hs1]; rfl⟩)
        (fun s m fuel r s' D h => by
          obtain ⟨v, σ, evs, P, -⟩ := stepPost_frag D h
          obtain ⟨tail, hl, -⟩ := P.log
          exact ⟨tail ++ evs, by rw [hl, List.append_assoc]⟩) fuelDefault t2 t3 D2 r3
    obtain ⟨n3, e3⟩ := hgrow
    exact ⟨s1, tk1, s2, n3 ++ (n2 ++ n1), h1, h2, h6, by rw [hlogE, e3, e2, e1]; simp only [List.append_assoc],
      fun hk' => absurd hk' hk⟩

/-! ### non-vacuity -/

/-- the state after a history run from the initial state -/
def stateAfter (env : Env) (acts : List Action) : Option State :=
  match runActions env acts (State.init 128 true) #[] with
  | .ok (s, _) => some s
  | .error _ => none

/-- the user-function calls of node `n` logged by the actions after the first `k`, oldest first, rendered as in the
trace -/
def callsOf (env : Env) (acts : List Action) (k n : Nat) : List String :=
  match stateAfter env (acts.take k), stateAfter env acts with
  | some s1, some s2 => (callsAt n (s2.log.take (s2.log.length - s1.log.length))).reverse.map Event.render
  | _, _ => []

/-- what the theorem says they are: `opCalls` of (closure state, stored output) after the first `k` actions and the value
of the input node at the end -/
def specCalls (d : Defs) (acts : List Action) (k n g i : Nat) : List String :=
  match stateAfter d.toEnv (acts.take k), stateAfter d.toEnv acts with
  | some s1, some s2 =>
    match (s2.nodeD i).value with
    | some x => (callEvents n (opCalls d g (s1.nodeD n).oldState (s1.nodeD n).value x)).reverse.map Event.render
    | none => []
  | _, _ => []

set_option maxRecDepth 100000 in
/-- `C15History.histFm`: its last action is the `stabilise` after the filter-map node `n2` (closure `opBase + 0`, input
node `n1`) was re-observed; it last ran on `{1:3,2:1,5:3}`, the input is now `{2:2,4:1}`.  The user-function events of `n2`
in the log of THAT `stabilise` are the two calls for `2 ↦ 2` and `4 ↦ 1` — and they are `opCalls` of (input last run on,
stored output, current input), as `history_operator_calls` says.  In the `stabilise` before (actions 13–14: the node is
unobserved, the input was edited) the node logs nothing. -/
example : callsOf C15History.exD.toEnv C15History.histFm 15 2 = ["inv M0.fn@n2 (2,2)->2", "inv M0.fn@n2 (4,1)->()"] ∧
    callsOf C15History.exD.toEnv C15History.histFm 15 2 = specCalls C15History.exD C15History.histFm 15 2 opBase 1 ∧
    callsOf C15History.exD.toEnv (C15History.histFm.take 14) 12 2 = [] :=
  ⟨by decide +kernel, by decide +kernel, by decide +kernel⟩

end c17

/-! ## T2a: at most once per round, fragment static + `map_with_old` -/

section mapold
open IncrVerif.Proofs.MapOldH

/-- **at most once, the drain** (fragment static + map_with_old): the nodes run by a successful `drainHeap` from the
drain invariant are pairwise distinct; each is necessary, had not run in this round and is stamped afterwards; every
`recomputeOne` of the drain happens in a state with the drain invariant. -/
theorem drain_once_mapold {env : Env} {C : Val → Prop} {sp : Nat → Val → Val} (V : ValOK env C sp) {fuel : Nat}
    {s s' : State} (D : DrainInvW env C sp s) (h : (drainHeap env fuel).run.run s = (.ok (), s')) :
    (drainTrace env fuel s).Nodup ∧ (∀ m, m ∈ drainTrace env fuel s → RanOnce s s' m) ∧
      (drainSteps env fuel s).map (·.1) = drainTrace env fuel s ∧
      ∀ p, p ∈ drainSteps env fuel s → DInvW env C sp p.2 (some p.1) ∧ FrA s p.2 := by
  obtain ⟨a, b, c⟩ := drain_onceW V D h
  exact ⟨a, b, drainSteps_fst env fuel s, c⟩

/-- **at most once per round, and only necessary nodes** (fragment static + map_with_old): `t2` is the state in which the
drain of this `stabilise` starts. -/
theorem stabilise_once_mapold {env : Env} {C : Val → Prop} {sp : Nat → Val → Val} {fuel : Nat} {s s' : State}
    (V : ValOK env C sp) (Q : QInvW env C sp s) (h : (stabilise env fuel).run.run s = (.ok (), s')) :
    ∃ t1 t2 t3, (addNewObservers env fuel).run.run { s with status := .stabilising } = (.ok (), t1) ∧
      (unlinkDisallowedObservers fuel).run.run t1 = (.ok (), t2) ∧
      (drainHeap env fuel).run.run t2 = (.ok (), t3) ∧ (stabiliseEnd env fuel).run.run t3 = (.ok (), s') ∧
      DrainInvW env C sp t2 ∧ (drainTrace env fuel t2).Nodup ∧
      ∀ m, m ∈ drainTrace env fuel t2 → t2.isNecessary m = true ∧ s'.isNecessary m = true ∧
        (t2.nodeD m).recomputedAt < s.stabNum ∧ (s'.nodeD m).recomputedAt = s.stabNum :=
  stabilise_onceW V Q h

/-- at every `stabilise` of a history of the fragment -/
theorem history_once_mapold {env : Env} {C : Val → Prop} {sp : Nat → Val → Val} {N : Nat} {d : Bool}
    {as bs : List Action} {s : State} {tk : Array Nat} (V : ValOK env C sp)
    (ha : ∀ a, a ∈ as ++ Action.stabilise :: bs → WAction env C sp a)
    (h : runActions env (as ++ Action.stabilise :: bs) (State.init N d) #[] = .ok (s, tk)) :
    ∃ s1 tk1 s2 t2, runActions env as (State.init N d) #[] = .ok (s1, tk1) ∧
      (stabilise env fuelDefault).run.run s1 = (.ok (), s2) ∧ runActions env bs s2 tk1 = .ok (s, tk) ∧
      (drainTrace env fuelDefault t2).Nodup ∧
      ∀ m, m ∈ drainTrace env fuelDefault t2 → s2.isNecessary m = true ∧ (s2.nodeD m).recomputedAt = s1.stabNum := by
  obtain ⟨s1, tk1, s2, h1, Q1, h2, -, -, -, -, h6⟩ := historyW_stabilise V ha h
  obtain ⟨t1, t2, t3, -, -, -, -, -, hnd, hall⟩ := stabilise_onceW V Q1 h2
  exact ⟨s1, tk1, s2, t2, h1, h2, h6, hnd, fun m hm => ⟨(hall m hm).2.1, (hall m hm).2.2.2⟩⟩

end mapold

/-! ## T1a: at most once per round, fragment static + `map_ref` -/

section mapref
open IncrVerif.Proofs.MapRefH

/-- **at most once, the drain** (fragment static + map_ref). -/
theorem drain_once_mapref {env : Env} {fuel : Nat} {s s' : State} (D : DrainInvR env s)
    (h : (drainHeap env fuel).run.run s = (.ok (), s')) :
    (drainTrace env fuel s).Nodup ∧ (∀ m, m ∈ drainTrace env fuel s → RanOnce s s' m) ∧
      (drainSteps env fuel s).map (·.1) = drainTrace env fuel s ∧
      ∀ p, p ∈ drainSteps env fuel s → (∃ g, DInvR env p.2 g (some p.1)) ∧ FrA s p.2 := by
  obtain ⟨a, b, c⟩ := drain_onceR D h
  exact ⟨a, b, drainSteps_fst env fuel s, c⟩

/-- **at most once per round, and only necessary nodes** (fragment static + map_ref): the nodes on which `recomputeOne`
is invoked during a `stabilise` from the invariant between API actions are pairwise distinct, and each is necessary. -/
theorem stabilise_once_mapref {env : Env} {g : Nat → Option Val} {fuel : Nat} {s s' : State} (Q : QInvR env s g)
    (h : (stabilise env fuel).run.run s = (.ok (), s')) :
    ∃ t1 t2 t3, (addNewObservers env fuel).run.run { s with status := .stabilising } = (.ok (), t1) ∧
      (unlinkDisallowedObservers fuel).run.run t1 = (.ok (), t2) ∧
      (drainHeap env fuel).run.run t2 = (.ok (), t3) ∧ (stabiliseEnd env fuel).run.run t3 = (.ok (), s') ∧
      DrainInvR env t2 ∧ (drainTrace env fuel t2).Nodup ∧
      ∀ m, m ∈ drainTrace env fuel t2 → t2.isNecessary m = true ∧ s'.isNecessary m = true ∧
        (t2.nodeD m).recomputedAt < s.stabNum ∧ (s'.nodeD m).recomputedAt = s.stabNum :=
  stabilise_onceR Q h

/-- at every `stabilise` of a history of the fragment -/
theorem history_once_mapref {env : Env} {N : Nat} {d : Bool} {as bs : List Action} {s : State} {tk : Array Nat}
    (ha : ∀ a, a ∈ as ++ Action.stabilise :: bs → MapRefAction env a)
    (h : runActions env (as ++ Action.stabilise :: bs) (State.init N d) #[] = .ok (s, tk)) :
    ∃ s1 tk1 s2 t2, runActions env as (State.init N d) #[] = .ok (s1, tk1) ∧
      (stabilise env fuelDefault).run.run s1 = (.ok (), s2) ∧ runActions env bs s2 tk1 = .ok (s, tk) ∧
      (drainTrace env fuelDefault t2).Nodup ∧
      ∀ m, m ∈ drainTrace env fuelDefault t2 → s2.isNecessary m = true ∧ (s2.nodeD m).recomputedAt = s1.stabNum := by
  obtain ⟨s1, tk1, s2, g1, g2, h1, Q1, h2, -, -, -, -, h6⟩ := historyR_stabilise ha h
  obtain ⟨t1, t2, t3, -, -, -, -, -, hnd, hall⟩ := stabilise_onceR Q1 h2
  exact ⟨s1, tk1, s2, t2, h1, h2, h6, hnd, fun m hm => ⟨(hall m hm).2.1, (hall m hm).2.2.2⟩⟩

end mapref

end IncrVerif.Props.C17History
