import IncrVerif.Proofs.Memo
/-!
# C20 — `weak_memoize_fn`: same key, same live node; the function runs in its creation scope

Model: `memoCall env m key` (`Engine/Recompute.lean`): looks up `(m, key)` in `s.memos`; returns the
stored node if it is still allocated (`s.isAlive n`); otherwise it passes the fault hook `tick`, logs one
`note` event, runs the function body `elabTemplateBase (env.memo m) (.int key)` with
`currentScope := .top` (the scope the memoised function was created in), restores the scope and stores
the result.  `stabiliseEnd` sweeps the tables (entries whose node is no longer allocated are dropped).

Vocabulary (`Proofs/Memo.lean`): `stored s m key` is the table entry, `memoHit s m key` is the entry if
its node is alive, `memoNote m key` the logged event, `memoStart`/`memoFinish` the state just before the
body runs / just after it returned, `rhsNodes s b` is bind `b`'s `allNodesCreatedOnRhs`,
`gcMemos alive memos` the sweep.

## PROVED HERE
* `memo_hit`: an entry whose node is alive is returned as is: the function is not invoked, nothing changes.
* `memo_miss_runs_in_creation_scope` (no fault armed): a miss is exactly the body run from the state
  "one `note` event logged, `currentScope := .top`", followed by "scope restored, result stored";
  `memo_miss_result`: on return the caller's scope is back, exactly one event was logged (the body logs
  none), and the result is stored under `(m, key)`.
* `memo_nodes_have_top_scope` (any state, any outcome, faults included): every node a memoised call
  creates has `createdIn = .top`, existing nodes keep their scope, and NO bind's
  `allNodesCreatedOnRhs` changes: a node obtained from a memoised function inside a bind closure is not
  among the nodes that re-running that bind invalidates (`recomputeOne`, `bindLhsChange` branch,
  invalidates exactly the old `allNodesCreatedOnRhs`).
  `template_nodes_scope`: the general fact behind it (a template run in scope `sc` creates nodes in `sc`
  or at top level only).
* `memo_gc`, `memo_gc_lookup`: the sweep keeps exactly the entries whose node is alive;
  `stabilise_end_sweeps`: every `stabiliseEnd` that returns ends with the sweep.

## NOT PROVED HERE
* that the nodes re-running a bind invalidates are only those in `allNodesCreatedOnRhs` (and their
  dependants) — the invalidation theorem (C03) is developed elsewhere; here only "not registered";
* the whole-history statement "two calls with the same key return the same node as long as somebody
  holds it" (it follows from `memo_hit` + `memo_miss_result` + C12 `handle_is_alive` one call at a
  time; the history-level version is covered by differential testing);
* a panic raised inside the body (only `model:` operand errors can occur) leaves `currentScope = .top`.
-/
namespace IncrVerif.Props.C20
open IncrVerif.Engine IncrVerif.Proofs.Memo

/-- A hit: if the table of memo function `m` has node `n` under `key` and `n` is still allocated, the
call returns that same node; the function is not invoked and the state does not change at all. -/
theorem memo_hit (env : Env) (m : Nat) (key : Int) (s : State) (n : Nat)
    (hst : (s.memos.lookup m).bind (·.lookup key) = some n) (ha : s.isAlive n = true) :
    (memoCall env m key).run.run s = (.ok n, s) := by
  have h1 : stored s m key = some n := by
    unfold stored
    cases hl : s.memos.lookup m with
    | none => rw [hl] at hst; cases hst
    | some tbl => rw [hl] at hst; exact hst
  rw [memoCall_run]
  simp only [memoHit, h1, ha, if_true]

example : (memoCall exEnvMemo 3 5).run.run exMemoised = (.ok 1, exMemoised) :=
  memo_hit _ _ _ _ _ (by decide) (by decide)

/-- A miss (no entry, or the entry's node has been freed) with no fault armed: the call is exactly
the function body run with `currentScope := .top` after one `note` event was logged; when the body
returns `n`, the caller's scope is restored and `n` is stored under `(m, key)`. -/
theorem memo_miss_runs_in_creation_scope (env : Env) (m : Nat) (key : Int) (s : State)
    (hmiss : memoHit s m key = none) (hp : s.panicCountdown = none) :
    (memoCall env m key).run.run s =
      match (elabTemplateBase (env.memo m) (.int key)).run.run
          { s with log := memoNote m key :: s.log, currentScope := .top } with
      | (.ok n, s2) => (.ok n,
          { s2 with currentScope := s.currentScope,
                    memos := (m, (key, n) :: ((s2.memos.lookup m).getD []).filter (·.1 != key))
                               :: s2.memos.filter (·.1 != m) })
      | (.error e, s2) => (.error e, s2) :=
  memoCall_miss env m key s hmiss hp

example : memoHit exInBind 3 5 = none ∧ exInBind.panicCountdown = none ∧
    ((memoCall exEnvMemo 3 5).run.run exInBind).1 = .ok 1 := ⟨by decide, rfl, rfl⟩

/-- What a returning miss leaves behind: the current scope is what it was before the call, exactly
one event (the `note`) was logged — the body itself logs nothing — and the result is in the table. -/
theorem memo_miss_result (env : Env) (m : Nat) (key : Int) (s s' : State) (n : Nat)
    (hmiss : memoHit s m key = none) (hp : s.panicCountdown = none)
    (hrun : (memoCall env m key).run.run s = (.ok n, s')) :
    s'.currentScope = s.currentScope ∧ s'.log = memoNote m key :: s.log ∧
      ((s'.memos.lookup m).getD []).lookup key = some n :=
  memoCall_miss_ok env m key s s' n hmiss hp hrun

example : ((memoCall exEnvMemo 3 5).run.run exInBind).2.currentScope = .bind 0 ∧
    ((memoCall exEnvMemo 3 5).run.run exInBind).2.memos = [(3, [(5, 1)])] := by decide

/-- Every node created by a memoised call — whatever the state, whether the call returns or panics —
is created in the top-level scope; nodes that existed keep their scope; and no bind's
`allNodesCreatedOnRhs` changes, in particular not that of the bind whose closure is making the call.
So a node obtained from a memoised function inside a bind closure stays valid when that bind re-runs. -/
theorem memo_nodes_have_top_scope (env : Env) (m : Nat) (key : Int) (s s' : State) (r)
    (hrun : (memoCall env m key).run.run s = (r, s')) :
    s.nodes.size ≤ s'.nodes.size ∧
    (∀ i, s.nodes.size ≤ i → i < s'.nodes.size → (s'.nodeD i).createdIn = .top) ∧
    (∀ i, i < s.nodes.size → (s'.nodeD i).createdIn = (s.nodeD i).createdIn) ∧
    (∀ b, rhsNodes s' b = rhsNodes s b) :=
  have h := memoCall_newTop env m key s s' r hrun
  ⟨h.nodesLe, h.new, h.old, h.binds⟩

example : exInBind.currentScope = .bind 0 ∧
    ((memoCall exEnvMemo 3 5).run.run exInBind).2.nodes.size = 2 ∧
    (((memoCall exEnvMemo 3 5).run.run exInBind).2.nodeD 1).createdIn = .top ∧
    rhsNodes ((memoCall exEnvMemo 3 5).run.run exInBind).2 0 = [] := by decide

/-- The general fact: a template (without memoised calls) elaborated while the current scope is `sc`
creates nodes in `sc` or at top level only (`var`), leaves the current scope and the scope of existing
nodes alone, and at top level registers nothing with any bind. -/
theorem template_nodes_scope (t : Template) (lhs : Val) (init : List Nat) (s s' : State) (r)
    (hrun : (elabTemplateBase t lhs init).run.run s = (r, s')) :
    s'.currentScope = s.currentScope ∧ s.nodes.size ≤ s'.nodes.size ∧
    (∀ i, s.nodes.size ≤ i → i < s'.nodes.size →
      (s'.nodeD i).createdIn = s.currentScope ∨ (s'.nodeD i).createdIn = .top) ∧
    (∀ i, i < s.nodes.size → (s'.nodeD i).createdIn = (s.nodeD i).createdIn) ∧
    (s.currentScope = .top → ∀ b, rhsNodes s' b = rhsNodes s b) :=
  have h := elabTemplateBase_sc t lhs init s s' r hrun
  ⟨h.scope, h.nodesLe, h.new, h.old, h.binds⟩

example : (((elabTemplateBase (exEnvMemo.memo 3) (.int 5)).run.run exInBind).2.nodeD 1).createdIn
    = .bind 0 := by decide

/-- The sweep (`garbage_collect` of the weak tables): an entry `(key, n)` is in table `m` afterwards
iff it was there before and `n` is in the alive set the sweep was given. -/
theorem memo_gc (alive : List Nat) (memos : List (Nat × List (Int × Nat))) (m : Nat) (key : Int) (n : Nat) :
    (∃ tbl, (gcMemos alive memos).lookup m = some tbl ∧ (key, n) ∈ tbl) ↔
      (∃ tbl, memos.lookup m = some tbl ∧ (key, n) ∈ tbl) ∧ alive.contains n = true :=
  gcMemos_entry alive memos m key n

example : gcMemos [1, 0] [(3, [(5, 1), (6, 2)])] = [(3, [(5, 1)])] := by decide

/-- Table by table: the sweep filters each table, keeps every table (even an empty one) and their order. -/
theorem memo_gc_lookup (alive : List Nat) (memos : List (Nat × List (Int × Nat))) (m : Nat) :
    (gcMemos alive memos).lookup m = (memos.lookup m).map (·.filter fun e => alive.contains e.2) :=
  gcMemos_lookup alive memos m

example : (gcMemos [0] [(3, [(5, 1)])]).lookup 3 = some [] := by decide

/-- Every `stabiliseEnd` that returns ends with the sweep, applied with the alive set of the state
reached after the update handlers ran, followed only by `status := NotStabilising`. -/
theorem stabilise_end_sweeps (env : Env) (fuel : Nat) (s s' : State) (r)
    (hrun : (stabiliseEnd env fuel).run.run s = (.ok r, s')) :
    ∃ s1 : State, s' = { s1 with memos := gcMemos s1.aliveSet s1.memos, status := .notStabilising } :=
  stabiliseEnd_gc env fuel s r s' hrun

example : ((stabiliseEnd exEnvMemo 10).run.run { exMemoised with handles := [0] }).2.memos = [(3, [])] ∧
    ((stabiliseEnd exEnvMemo 10).run.run exMemoised).2.memos = [(3, [(5, 1)])] := by decide

end IncrVerif.Props.C20
