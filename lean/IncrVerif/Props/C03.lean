import IncrVerif.Proofs.Invalidation
import IncrVerif.Props.C10
/-!
# C03 — nodes built inside a bind never run after its input changed; they become invalid

A run is `(m).run.run s : Except Panic α × State`; `.ok r` is a normal return, `.error p` a panic (the
state of that moment is kept).  All theorems hold for EVERY state `s` (no reachability assumption);
hypotheses of the form `s.nodes[n]? = some nd` say "node `n` exists and `nd` is its record".

PROVED HERE
1. `invalid_never_stale`, `invalid_no_children`, `invalid_not_should`, `invalid_value_is_stored`:
   an invalid node is never stale, never needs to be computed, has no children, never "should be
   invalidated" (again), and the value read through it is its stored value.
2. `recompute_invalid_panics`, `recompute_chain_invalid_panics`: `recompute_one` / `recompute` on an
   existing invalid node panic with `node:recompute_one:invalid-node` (after the stamp and counter bump).
3. `invalidate_*`: `invalidate_node` on a missing node / without fuel panics, on an invalid node is
   the identity; on a valid node it factors into bookkeeping, detaching from the children (necessary
   nodes), the bind-main cascade, and a final part (`invalidate_factorisation`,
   `invalidate_necessary_factorisation`); the final part in closed form (`invalidate_finish`: node
   marked invalid, every parent pushed on the `propagate_invalidity` stack, the debug assertion cannot
   fire, heap removal iff the node is marked as queued); the leaf case (valid, not necessary, not a
   bind main) in closed form (`invalidate_leaf`, `invalidate_leaf_not_queued`,
   `invalidate_leaf_queued`, `invalidated_facts`); whatever the node: if the call returns, the node is
   invalid, and if it was valid before it has no stored value and is not marked as queued
   (`invalidate_returns_invalid`).
4. `invalidation_is_forever`: no function of the model ever makes an existing invalid node valid
   again — for every entry point and internal function listed in `Inval.Call` (`stabilise`, `writeVar`,
   `subscribe`, `unsubscribe`, `disallowFutureUse`, `elabInstrM`, the expert API, `runEffects`,
   `setMaxHeightAllowed`, `drainHeap`, `recompute`, `recomputeOne`, `invalidateNode`,
   `propagateInvalidity`, `changeChildBindRhs`, …), for every outcome (return or panic).  The underlying
   frame lemmas (`Inval.PresM.*`, one per function of the model) are in `Proofs/Invalidation.lean`.
5. `invalid_has_no_value`: a node that is invalid and has no stored value stays so, through every such
   call and outcome; `dead_node_reads_invalid`: an in-use observer of such a node reads
   `ObservingInvalid`.  `clean_kept_outside_recompute`, `clean_kept_by_step`: "if invalid then no stored
   value" is kept node by node by everything except the recompute of that very node.
   `value_in_invalid_node_release`: the state invariant "every invalid node has no
   stored value" is NOT inductive in release builds (machine-checked counterexample).
6. `lhs_change_invalidates_old_generation` (the heart): a `BindLhsChange` step of a bind that has run
   before, if it returns, leaves every node of the previous generation invalid (and without a stored
   value, if it was clean before); `lhs_change_phases` (the step as four phases);
   `create_node_registers`, `closure_registers_exactly` (after the closure ran, the bind's
   `allNodesCreatedOnRhs` is exactly the set of nodes created during this run in scope `bind b`).
7. `invalid_never_queued_debug` (debug builds: `insert` of an invalid node trips its precondition),
   `drain_of_invalid_min_panics` (a drain that takes an invalid node out of the heap panics),
   `propagate_skips_invalid`, `propagate_invalidates` (one step of `propagate_invalidity`).

NOT PROVED HERE
* For a necessary node, "after `remove_children` the children no longer list `n` as a parent" (only the
  factorisation of `invalidate_node` through `remove_children` is proved); the closed form of the
  bind-main cascade.
* The global statement "after `stabilise`, every node created by a superseded run of a bind closure
  is invalid and none of them was recomputed in between": it needs the scheduling invariant (heights) to
  show that the `BindLhsChange` node runs before the nodes of the old generation.  What is proved is the
  local step (6) plus "invalid is forever" (4) plus "an invalid node is never computed" (2, 7).
* Release builds: an invalid node CAN be inserted into the recompute heap (the precondition is a
  `debug_assert`); then the drain panics (7).  Nothing is claimed about heap well-formedness here
  (`Props/C11Heap.lean`).
* That the nodes registered by the closure stay registered until the next `BindLhsChange` step (the list
  is only cleared by that step and by the invalidation of the bind main).

ASSUMPTIONS are stated per theorem.  `Inval.Clean s r` means "if `r` is invalid in `s`, it has no stored
value"; it is preserved by everything except the recompute of `r` itself in the release-mode scenario of
`value_in_invalid_node_release`.
-/
namespace IncrVerif.Props.C03
open IncrVerif.Engine IncrVerif.Proofs IncrVerif.Proofs.Step IncrVerif.Proofs.Inval

/-! ## 1. an invalid node, seen by the scheduling predicates -/

/-- An invalid node is never stale, hence never needs to be computed.  No hypothesis: `is_stale` asks
for the node's kind, and an invalid node has none. -/
theorem invalid_never_stale (s : State) (n : Nat) (h : (s.nodeD n).valid = false) :
    s.isStale n = false ∧ s.needsToBeComputed n = false :=
  ⟨isStale_invalid s n h, needsToBeComputed_invalid s n h⟩

example : (exBdead.nodeD 4).valid = false := by decide +kernel

/-- An invalid node has no children (`try_fold_children` of an invalid node visits nothing). -/
theorem invalid_no_children (s : State) (n : Nat) (h : (s.nodeD n).valid = false) :
    s.children n = [] :=
  children_invalid s n h

example : exB.children 4 = [3] ∧ exBdead.children 4 = [] := by decide +kernel

/-- An invalid node never "should be invalidated" (again). -/
theorem invalid_not_should (s : State) (n : Nat) (h : (s.nodeD n).valid = false) :
    s.shouldBeInvalidated n = false :=
  shouldBeInvalidated_invalid s n h

example : exBdead.shouldBeInvalidated 4 = false := by decide +kernel

/-- The value read through an invalid node is its stored value — also for a MapRef node: an invalid
node has no kind any more, so nothing is read through its input. -/
theorem invalid_value_is_stored (env : Env) (s : State) (n : Nat) (h : (s.nodeD n).valid = false) :
    s.value env n = (s.nodeD n).value :=
  value_invalid env s n h

example : exBdead.value exEnvB 4 = none := by decide +kernel

/-! ## 2. an invalid node never produces a value again -/

/-- `recompute_one` on an existing invalid node panics (`invalid-node`); the final state is the initial
one with the stamp and the `recomputed` counter bumped (`Step.started`; also `C02.step_invalid_node`). -/
theorem recompute_invalid_panics (env : Env) (fuel n : Nat) (s : State) (nd : Node)
    (hn : s.nodes[n]? = some nd) (hv : nd.valid = false) :
    (recomputeOne env fuel n).run.run s =
      (.error (.site "node:recompute_one:invalid-node"), started n s) :=
  recomputeOne_invalid_run env fuel n s nd hn hv

example : exBdead.nodes[4]? = some (exBdead.nodeD 4) ∧ (exBdead.nodeD 4).valid = false :=
  ⟨rfl, by decide +kernel⟩

/-- … and so does the direct-recompute chain started on it. -/
theorem recompute_chain_invalid_panics (env : Env) (fuel n : Nat) (s : State) (nd : Node)
    (hn : s.nodes[n]? = some nd) (hv : nd.valid = false) :
    (recompute env (fuel + 1) n).run.run s =
      (.error (.site "node:recompute_one:invalid-node"), started n s) :=
  recompute_invalid_run env fuel n s nd hn hv

example : exBdead.nodes[4]? = some (exBdead.nodeD 4) ∧ (exBdead.nodeD 4).valid = false :=
  ⟨rfl, by decide +kernel⟩

/-! ## 3. `invalidate_node` -/

/-- Without fuel the model gives up (never a result). -/
theorem invalidate_out_of_fuel (n : Nat) (s : State) :
    (invalidateNode 0 n).run.run s = (.error .outOfFuel, s) :=
  invalidateNode_zero n s

example : (invalidateNode 0 4).run.run exB = (.error .outOfFuel, exB) := invalidate_out_of_fuel 4 exB

/-- A node that does not exist: model-only panic, nothing changes. -/
theorem invalidate_missing (fuel n : Nat) (s : State) (hn : s.nodes[n]? = none) :
    (invalidateNode (fuel + 1) n).run.run s = (.error (.site "model:no-such-node"), s) :=
  invalidateNode_missing fuel n s hn

example : exB.nodes[9]? = none := by decide +kernel

/-- On an already invalid node `invalidate_node` is the identity. -/
theorem invalidate_invalid_is_identity (fuel n : Nat) (s : State) (nd : Node)
    (hn : s.nodes[n]? = some nd) (hv : nd.valid = false) :
    (invalidateNode (fuel + 1) n).run.run s = (.ok (), s) :=
  invalidateNode_invalid fuel n s nd hn hv

example : exBdead.nodes[4]? = some (exBdead.nodeD 4) ∧ (exBdead.nodeD 4).valid = false :=
  ⟨rfl, by decide +kernel⟩

/-- On a valid node, `invalidate_node` is: the bookkeeping (`handled`: queued for the handler phase iff
it has update handlers and is not queued yet; `invStamped`: value dropped, `changedAt` and
`recomputedAt` set to the current round, `invalidated` counter bumped), then — from that state — detach
from the children if the node is necessary (`invDetach`), take the right-hand-side nodes along if it is a
bind main (`invCascade`), and finish (`invFinish`: mark invalid, schedule the parents, leave the
heap). -/
theorem invalidate_factorisation (fuel n : Nat) (s : State) (nd : Node)
    (hn : s.nodes[n]? = some nd) (hv : nd.valid = true) :
    (invalidateNode (fuel + 1) n).run.run s =
      (do invDetach fuel n nd.createdIn; invCascade fuel nd.kind; invFinish n).run.run
        (invStamped n (handled n s)) :=
  invalidateNode_run fuel n s nd hn hv

example : exB.nodes[3]? = some (exB.nodeD 3) ∧ (exB.nodeD 3).valid = true := ⟨rfl, rfl⟩

/-- A valid NECESSARY node that is not a bind main: bookkeeping, then `remove_children` (the node
lets go of its children, which may become unnecessary in turn), the height reset, and the final
part. -/
theorem invalidate_necessary_factorisation (fuel n : Nat) (s : State) (nd : Node)
    (hn : s.nodes[n]? = some nd) (hv : nd.valid = true) (hnec : nd.isNecessary = true)
    (hk : ∀ b lc, nd.kind ≠ .bindMain b lc) :
    (invalidateNode (fuel + 1) n).run.run s =
      (do removeChildren fuel n
          setHeight n ((← scopeHeight nd.createdIn) + 1)
          invFinish n).run.run (invStamped n (handled n s)) :=
  invalidateNode_necessary_run fuel n s nd hn hv hnec hk

example : exB.nodes[2]? = some (exB.nodeD 2) ∧ (exB.nodeD 2).valid = true ∧
    (exB.nodeD 2).isNecessary = true := ⟨rfl, rfl, rfl⟩

/-- The final part of `invalidate_node` on an existing node (`nd` is its record at that point): the node
is marked invalid, every parent is pushed on the `propagate_invalidity` stack (`pushParents`: the last
parent ends up on top), the debug assertion "does not need to be computed" CANNOT fire (the node is
invalid by then — no panic branch), and the node is removed from the recompute heap iff it is marked as
queued (`heightInRch ≥ 0`). -/
theorem invalidate_finish (n : Nat) (t : State) (nd : Node) (hn : t.nodes[n]? = some nd) :
    (invFinish n).run.run t =
      if nd.heightInRch ≥ 0 then (rchRemove n).run.run (pushParents nd.parents (markedInvalid n t))
      else (.ok (), pushParents nd.parents (markedInvalid n t)) :=
  invFinish_run n t nd hn

example : (pushParents (exB.nodeD 3).parents (markedInvalid 3 exB)).propagateInvalidity = [2] := by
  decide +kernel

/-- `remove` of a node that is marked as queued in bucket `h`, does not need to be computed and really
is at position `idx` of that bucket `q`: the marker is reset, the bucket loses the node
(`swap_remove_back`), the length goes down by one.  (If the marker names a bucket the node is not in,
`remove` panics — `recompute_heap:unlink:*`.) -/
theorem heap_remove (n : Nat) (s : State) (nd : Node) (q : List Nat) (idx : Nat)
    (hn : s.nodes[n]? = some nd) (hin : nd.heightInRch ≥ 0) (hntc : s.needsToBeComputed n = false)
    (hq : s.rch.queues[nd.heightInRch.toNat]? = some q) (hidx : q.idxOf? n = some idx) :
    (rchRemove n).run.run s = (.ok (), rchRemoved n nd.heightInRch.toNat q idx s) :=
  rchRemove_run n s nd q idx hn hin hntc hq hidx

example : (invalidated 4 exBq).nodes[4]? = some ((invalidated 4 exBq).nodeD 4) ∧
    ((invalidated 4 exBq).nodeD 4).heightInRch = 2 ∧
    (invalidated 4 exBq).needsToBeComputed 4 = false ∧
    (invalidated 4 exBq).rch.queues[2]? = some [4] ∧ [4].idxOf? 4 = some 0 :=
  ⟨rfl, by decide +kernel, by decide +kernel, by decide +kernel, by decide +kernel⟩

/-- The leaf case — a valid node that is NOT necessary and NOT a bind main (so: no cascade): the call
is the bookkeeping plus `valid := false` (`invalidated n s`), followed by the heap removal iff the node
is marked as queued.  The debug assertion cannot fire; no parent is scheduled (an unnecessary node has
no parents). -/
theorem invalidate_leaf (fuel n : Nat) (s : State) (nd : Node) (hn : s.nodes[n]? = some nd)
    (hv : nd.valid = true) (hnec : nd.isNecessary = false) (hk : ∀ b lc, nd.kind ≠ .bindMain b lc) :
    (invalidateNode (fuel + 1) n).run.run s =
      if nd.heightInRch ≥ 0 then (rchRemove n).run.run (invalidated n s)
      else (.ok (), invalidated n s) :=
  invalidateNode_leaf_run fuel n s nd hn hv hnec hk

example : exB.nodes[4]? = some (exB.nodeD 4) ∧ (exB.nodeD 4).valid = true ∧
    (exB.nodeD 4).isNecessary = false ∧ (exB.nodeD 4).kind = .map 0 [3] := ⟨rfl, rfl, rfl, rfl⟩

/-- … not marked as queued: returns normally, final state `invalidated n s`. -/
theorem invalidate_leaf_not_queued (fuel n : Nat) (s : State) (nd : Node) (hn : s.nodes[n]? = some nd)
    (hv : nd.valid = true) (hnec : nd.isNecessary = false) (hk : ∀ b lc, nd.kind ≠ .bindMain b lc)
    (hq : nd.heightInRch < 0) :
    (invalidateNode (fuel + 1) n).run.run s = (.ok (), invalidated n s) := by
  rw [invalidateNode_leaf_run fuel n s nd hn hv hnec hk, if_neg (by omega)]

example : (invalidateNode 3 4).run.run exB = (.ok (), invalidated 4 exB) :=
  invalidate_leaf_not_queued 2 4 exB (exB.nodeD 4) rfl rfl rfl
    (by intro b lc h; cases h) (by decide +kernel)

/-- `invalidated n s`, field by field: node `n` is invalid, has no value, both stamps are the current
round, it is flagged for the handler phase iff it has update handlers; other nodes are untouched; the
`invalidated` counter went up by one; `n` was appended to `handleAfterStab` iff it has update handlers
and was not queued yet; the `propagate_invalidity` stack, the heap and the binds are unchanged. -/
theorem invalidated_facts (n : Nat) (s : State) (nd : Node) (hn : s.nodes[n]? = some nd) :
    (invalidated n s).nodeD n =
      { nd with valid := false, value := none, changedAt := s.stabNum, recomputedAt := s.stabNum,
                inHandleAfterStab := nd.inHandleAfterStab || decide (nd.numOnUpdateHandlers > 0) } ∧
    (∀ m, m ≠ n → (invalidated n s).nodeD m = s.nodeD m) ∧
    (invalidated n s).counters = { s.counters with invalidated := s.counters.invalidated + 1 } ∧
    (invalidated n s).propagateInvalidity = s.propagateInvalidity ∧
    (invalidated n s).handleAfterStab =
      (if (s.nodeD n).numOnUpdateHandlers > 0 ∧ (s.nodeD n).inHandleAfterStab = false
       then s.handleAfterStab ++ [n] else s.handleAfterStab) ∧
    (invalidated n s).rch = s.rch ∧ (invalidated n s).binds = s.binds := by
  obtain ⟨h1, h2, h3, h4, h5, _, _⟩ := invalidated_fields n s
  exact ⟨invalidated_nodeD n s nd hn, fun m hm => invalidated_other n m s hm, h1, h2, h3, h4, h5⟩

example : (invalidated 4 exB).handleAfterStab = [4] ∧ (invalidated 3 exB).handleAfterStab = [] := by
  decide +kernel

/-- … marked as queued, and really in the bucket the marker names: returns normally; afterwards the
marker is reset and the node is out of its bucket. -/
theorem invalidate_leaf_queued (fuel n : Nat) (s : State) (nd : Node) (q : List Nat) (idx : Nat)
    (hn : s.nodes[n]? = some nd) (hv : nd.valid = true) (hnec : nd.isNecessary = false)
    (hk : ∀ b lc, nd.kind ≠ .bindMain b lc) (hin : nd.heightInRch ≥ 0)
    (hq : s.rch.queues[nd.heightInRch.toNat]? = some q) (hidx : q.idxOf? n = some idx) :
    (invalidateNode (fuel + 1) n).run.run s =
      (.ok (), rchRemoved n nd.heightInRch.toNat q idx (invalidated n s)) :=
  invalidateNode_leaf_queued_run fuel n s nd q idx hn hv hnec hk hin hq hidx

example : returned ((invalidateNode 3 4).run.run exBq) = true ∧
    (((invalidateNode 3 4).run.run exBq).2.nodeD 4).heightInRch = -1 ∧
    ((invalidateNode 3 4).run.run exBq).2.rch.queues[2]? = some [] := by decide +kernel

/-- Whatever the node (necessary or not, bind main or not): if `invalidate_node n` returns, `n` exists
and is invalid afterwards; and if it was valid before, it has no stored value any more and is not
marked as queued in the recompute heap. -/
theorem invalidate_returns_invalid (fuel n : Nat) (s s' : State)
    (h : (invalidateNode fuel n).run.run s = (.ok (), s')) :
    n < s.nodes.size ∧ (s'.nodeD n).valid = false ∧
      ((s.nodeD n).valid = true → (s'.nodeD n).value = none ∧ (s'.nodeD n).inRch = false) :=
  invalidateNode_ok h

example : returned ((invalidateNode 8 2).run.run exB) = true := by decide +kernel

/-! ## 4. invalidation is forever -/

/-- No function of the model ever sets `valid := true` on an existing node: for every call `c` of
`Inval.Call` (all public entry points, the expert API, and the internal functions named there), from
every state, whatever the outcome `r` (normal return or panic): a node that exists and is invalid before
the call exists and is invalid after it. -/
theorem invalidation_is_forever (c : Call) (s s' : State) (r : Except Panic Unit) (n : Nat)
    (h : c.run.run.run s = (r, s')) (hn : n < s.nodes.size) (hv : (s.nodeD n).valid = false) :
    n < s'.nodes.size ∧ (s'.nodeD n).valid = false :=
  have q := (Call.mono c).h s r s' h
  ⟨Nat.lt_of_lt_of_le hn q.size, q.keep n hn hv⟩

example : 4 < exBdead.nodes.size ∧ (exBdead.nodeD 4).valid = false := by decide +kernel

/-! ## 5. an invalidated node has no value, and observers see that -/

/-- A node that is invalid and has no stored value (which is what `invalidate_node` leaves behind,
`invalidate_returns_invalid`) stays so through every call of `Inval.Call`, whatever the outcome; the
value read through it — also when it is a MapRef node — is `none`. -/
theorem invalid_has_no_value (env : Env) (c : Call) (s s' : State) (r : Except Panic Unit) (n : Nat)
    (h : c.run.run.run s = (r, s')) (hn : n < s.nodes.size) (hv : (s.nodeD n).valid = false)
    (hval : (s.nodeD n).value = none) :
    (s'.nodeD n).valid = false ∧ (s'.nodeD n).value = none ∧ s'.value env n = none := by
  have q := (Call.mono c).h s r s' h
  have h1 := q.keep n hn hv
  have h2 := q.dead n hn hv hval
  exact ⟨h1, h2, by rw [value_invalid env s' n h1, h2]⟩

example : 4 < exBdead.nodes.size ∧ (exBdead.nodeD 4).valid = false ∧ (exBdead.nodeD 4).value = none := by
  decide +kernel

/-- An in-use observer of a node that is invalid and has no stored value reads `ObservingInvalid`
(`C10.read_inUse_invalid`), outside a stabilisation, while the engine state is alive. -/
theorem dead_node_reads_invalid (env : Env) (s : State) (o : Nat) (ob : ObsRec) (ha : s.alive = true)
    (hs : s.status ≠ .stabilising) (h : s.observers[o]? = some ob) (hst : ob.state = .inUse)
    (hv : (s.nodeD ob.node).valid = false) (hval : (s.nodeD ob.node).value = none) :
    s.tryGetValue env o = .error .observingInvalid :=
  C10.read_inUse_invalid env s o ob ha hs h hst (by rw [value_invalid env s _ hv, hval])

example : (invalidated 2 { exB with status := .notStabilising }).alive = true ∧
    (invalidated 2 { exB with status := .notStabilising }).observers[0]? = some { node := 2, state := .inUse } ∧
    ((invalidated 2 { exB with status := .notStabilising }).nodeD 2).valid = false ∧
    ((invalidated 2 { exB with status := .notStabilising }).nodeD 2).value = none :=
  ⟨rfl, rfl, by decide +kernel, by decide +kernel⟩

/-- "Clean" (if invalid, then no stored value) is kept, node by node, by every call that does not
recompute a node (`Call.noRecompute`: everything in `Inval.Call` except `stabilise`, `drainHeap`,
`recompute`, `recomputeOne`), whatever the outcome … -/
theorem clean_kept_outside_recompute (c : Call) (hc : c.noRecompute) (s s' : State)
    (r : Except Panic Unit) (m : Nat) (h : c.run.run.run s = (r, s')) (hm : m < s.nodes.size)
    (hcl : Clean s m) : Clean s' m :=
  ((Call.still c hc).h s r s' h).clean m hm (by simp) hcl

example : Call.noRecompute (.invalidateNode 3 4) ∧ 4 < exB.nodes.size ∧ Clean exB 4 :=
  ⟨trivial, by decide +kernel, fun h => absurd h (by decide +kernel)⟩

/-- … and by `recompute_one n` for every node other than `n` (for `n` itself see the finding below). -/
theorem clean_kept_by_step (env : Env) (fuel n : Nat) (s s' : State)
    (r : Except Panic (Option Nat)) (m : Nat) (h : (recomputeOne env fuel n).run.run s = (r, s'))
    (hm : m < s.nodes.size) (hmn : m ≠ n) (hcl : Clean s m) : Clean s' m :=
  ((PresM.recomputeOne_self env fuel n).h s r s' h).clean m hm
    (fun e => hmn (Option.some.inj e).symm) hcl

example : 4 < exB.nodes.size ∧ 4 ≠ 1 ∧ Clean exB 4 :=
  ⟨by decide +kernel, by decide, fun h => absurd h (by decide +kernel)⟩

/-- FINDING (release builds).  "Every invalid node has no stored value" is not an invariant of the model
without debug assertions: in the two-node state `Inval.cexS` (`debug = false`; node 1 is `map f1 [0]`,
observed) with an environment in which `f1` invalidates node 1 through the expert API
(`Effect.xInval`), `recompute_one 1` RETURNS; afterwards node 1 is invalid, yet holds the freshly
computed value 5, and its observer reads `5` instead of `ObservingInvalid`.  (`recompute_one` stores the
result with `maybe_change_value` without re-checking validity.  In a debug build the same call panics in
`assert_currently_running_node_is_child`.) -/
theorem value_in_invalid_node_release :
    cexS.cfg.debug = false ∧
    returned ((recomputeOne cexEnv 5 1).run.run cexS) = true ∧ (cexOut.nodeD 1).valid = false ∧
    (cexOut.nodeD 1).value = some (.int 5) ∧ cexRead = "5" ∧
    returned ((recomputeOne cexEnv 5 1).run.run { cexS with cfg := { debug := true } }) = false := by
  decide +kernel

/-! ## 6. the heart: a change of the bind's input invalidates the previous generation -/

/-- The `BindLhsChange` step, phase by phase, from the stamped state `Step.started n s`:
`lhsRunClosure` (forget the old list, run the closure in scope `bind b`, giving the new rhs),
`lhsRelink` (store the new rhs, stamp `changedAt`, `change_child_bind_rhs`), `lhsInvalidateOld` (if there
was an old rhs: `invalidate_node` on every node of the old list, then `propagate_invalidity`),
`lhsFinish` (debug assertion "still valid", then `maybe_change_value`). -/
theorem lhs_change_phases (env : Env) (fuel n : Nat) (s : State) (nd : Node) (b : Nat) (br : BindRec)
    (hn : s.nodes[n]? = some nd) (hv : nd.valid = true) (hk : nd.kind = .bindLhsChange b)
    (hb : s.binds[b]? = some br) :
    (recomputeOne env fuel n).run.run s =
      (do let rhs ← lhsRunClosure env n b br
          lhsRelink env fuel n b br s.stabNum rhs
          lhsInvalidateOld fuel br
          lhsFinish env fuel n).run.run (started n s) :=
  recomputeOne_bindLhsChange_run env fuel n s nd b br hn hv hk hb

example : exB.nodes[1]? = some (exB.nodeD 1) ∧ (exB.nodeD 1).valid = true ∧
    (exB.nodeD 1).kind = .bindLhsChange 0 ∧
    exB.binds[0]? = some { lhs := 0, body := 0, lhsChange := 1, main := 2, rhs := some 3,
                           allNodesCreatedOnRhs := [3, 4] } := ⟨rfl, rfl, rfl, rfl⟩

/-- THE HEART OF C03.  `n` is a valid `BindLhsChange` node of bind `b`; the bind has run before
(`br.rhs = some r0`), and `br.allNodesCreatedOnRhs` is the list of nodes the previous run of the closure
created.  If `recompute_one n` returns (no panic), then in the final state EVERY node of that list
exists and is invalid.  Moreover such a node `r` has no stored value (so that, by
`dead_node_reads_invalid`, its observers read `ObservingInvalid`), provided `r` existed before the step,
is not `n` itself, and was clean before (`Clean s r`: if already invalid, then without value).
By `invalidation_is_forever` and `recompute_invalid_panics` these nodes never become valid and never
compute again. -/
theorem lhs_change_invalidates_old_generation (env : Env) (fuel n : Nat) (s s' : State) (nd : Node)
    (b : Nat) (br : BindRec) (r0 : Nat) (res : Option Nat)
    (hn : s.nodes[n]? = some nd) (hv : nd.valid = true) (hk : nd.kind = .bindLhsChange b)
    (hb : s.binds[b]? = some br) (hr : br.rhs = some r0)
    (h : (recomputeOne env fuel n).run.run s = (.ok res, s')) :
    ∀ r, r ∈ br.allNodesCreatedOnRhs →
      r < s'.nodes.size ∧ (s'.nodeD r).valid = false ∧
      (r < s.nodes.size → r ≠ n → Clean s r → (s'.nodeD r).value = none) :=
  lhsChange_old_generation env fuel n s s' nd b br r0 res hn hv hk hb hr h

example : returned ((recomputeOne exEnvB 6 1).run.run exB) = true ∧
    (exBafter.nodeD 3).valid = false ∧ (exBafter.nodeD 4).valid = false ∧
    (exBafter.nodeD 3).value = none ∧ (exBafter.nodeD 4).value = none := by decide +kernel

/-- `Node::create` never fails; the new node's name is the old number of nodes; the final state is
`Inval.created …`: the node appended (valid, no value), the `created` counter bumped, and — for a node
created in scope `bind b` — the node's name appended to `binds[b].allNodesCreatedOnRhs`. -/
theorem create_node_registers (kind : Kind) (scope : Scope) (cutoff : CutoffK) (s : State) :
    (createNode kind scope cutoff).run.run s = (.ok s.nodes.size, created kind scope cutoff s) ∧
    ∀ b br, scope = .bind b → s.binds[b]? = some br →
      (created kind scope cutoff s).binds[b]? =
        some { br with allNodesCreatedOnRhs := br.allNodesCreatedOnRhs ++ [s.nodes.size] } := by
  refine ⟨createNode_run kind scope cutoff s, fun b br hsc hb => ?_⟩
  subst hsc
  simp [created, Array.getElem?_modify, hb]

example : rhsNodes (created (.const .unit) (.bind 0) .eq exB) 0 = [3, 4, 5] := by decide +kernel

/-- After the closure of bind `b` has run (phase 1 of the step; `s0` is the state it started from,
`s1` the state it ended in, whether it returned or panicked), the bind's `allNodesCreatedOnRhs`
(`rhsNodes s1 b`) is EXACTLY the set of nodes created during this run in scope `bind b` — the next
generation to be invalidated.  Hypothesis: the bind record exists. -/
theorem closure_registers_exactly (env : Env) (n b : Nat) (br : BindRec) (s0 s1 : State)
    (r : Except Panic Nat) (hb : b < s0.binds.size)
    (h : (lhsRunClosure env n b br).run.run s0 = (r, s1)) :
    s0.nodes.size ≤ s1.nodes.size ∧
    ∀ m, m ∈ rhsNodes s1 b ↔
      (s0.nodes.size ≤ m ∧ m < s1.nodes.size ∧ (s1.nodeD m).createdIn = .bind b) :=
  lhsRunClosure_registers env n b br s0 s1 r hb h

example : rhsNodes exBafter 0 = [5] ∧ exB.nodes.size = 5 ∧ exBafter.nodes.size = 6 ∧
    (exBafter.nodeD 5).createdIn = .bind 0 := by decide +kernel

/-! ## 7. an invalid node is never queued (debug builds), and a drain that meets one panics -/

/-- Debug builds: `insert` of an existing invalid node into the recompute heap trips the precondition
assertion (`needs_to_be_computed` is false for an invalid node); nothing changes.  In release builds
the assertion is compiled out and the node is linked like any other (see NOT PROVED HERE). -/
theorem invalid_never_queued_debug (n : Nat) (s : State) (nd : Node) (hn : s.nodes[n]? = some nd)
    (hv : nd.valid = false) (hd : s.cfg.debug = true) :
    (rchInsert n).run.run s = (.error (.site "recompute_heap:insert:precondition"), s) :=
  rchInsert_invalid_debug n s nd hn hv hd

example : exBdead.nodes[4]? = some (exBdead.nodeD 4) ∧ (exBdead.nodeD 4).valid = false ∧
    exBdead.cfg.debug = true := ⟨rfl, by decide +kernel, by decide +kernel⟩

/-- If the node the heap drain takes out of the heap (`remove_min`, giving state `s1`) is invalid, the
drain panics with `invalid-node`: such a node never produces a value. -/
theorem drain_of_invalid_min_panics (env : Env) (fuel n : Nat) (s s1 : State) (nd : Node)
    (hmin : rchRemoveMin.run.run s = (.ok (some n), s1))
    (hn : s1.nodes[n]? = some nd) (hv : nd.valid = false) :
    (drainHeap env (fuel + 2)).run.run s =
      (.error (.site "node:recompute_one:invalid-node"), started n s1) :=
  drainHeap_invalid_min env fuel n s s1 nd hmin hn hv

example : rchRemoveMin.run.run (markedInvalid 4 exBq) =
      (.ok (some 4), (rchRemoveMin.run.run (markedInvalid 4 exBq)).2) ∧
    ((rchRemoveMin.run.run (markedInvalid 4 exBq)).2.nodeD 4).valid = false :=
  ⟨rfl, by decide +kernel⟩

/-- `propagate_invalidity`: an invalid node on top of the stack is popped and skipped. -/
theorem propagate_skips_invalid (fuel n : Nat) (rest : List Nat) (s : State)
    (h : s.propagateInvalidity = n :: rest) (hv : (s.nodeD n).valid = false) :
    (propagateInvalidity (fuel + 1)).run.run s =
      (propagateInvalidity fuel).run.run { s with propagateInvalidity := rest } :=
  propagateInvalidity_skip fuel n rest s h hv

example : ({ exBdead with propagateInvalidity := [4] } : State).propagateInvalidity = [4] ∧
    (({ exBdead with propagateInvalidity := [4] } : State).nodeD 4).valid = false := by decide +kernel

/-- `propagate_invalidity`: a valid node on top of the stack that should be invalidated (an input of it
is invalid: a child of a map/fold/map_ref/map_with_old node, the lhs of a `BindLhsChange`, the change
detector of a `BindMain`) is popped and invalidated; then the walk continues. -/
theorem propagate_invalidates (fuel n : Nat) (rest : List Nat) (s : State)
    (h : s.propagateInvalidity = n :: rest) (hv : (s.nodeD n).valid = true)
    (hs : s.shouldBeInvalidated n = true) :
    (propagateInvalidity (fuel + 1)).run.run s =
      (do invalidateNode fuel n; propagateInvalidity fuel).run.run
        { s with propagateInvalidity := rest } :=
  propagateInvalidity_invalidates fuel n rest s h hv hs

example : ({ invalidated 3 exB with propagateInvalidity := [4] } : State).shouldBeInvalidated 4 = true ∧
    (({ invalidated 3 exB with propagateInvalidity := [4] } : State).nodeD 4).valid = true := by
  decide +kernel

end IncrVerif.Props.C03
