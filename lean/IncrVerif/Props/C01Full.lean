import IncrVerif.Proofs.FullH61
import IncrVerif.Proofs.FullH65
import IncrVerif.Proofs.FullH66
import IncrVerif.Proofs.FullH67
import IncrVerif.Proofs.FullH70
import IncrVerif.Proofs.FullH71
/-!
# C01 for the property's FULL combinator list IN ONE FRAGMENT: binds (incl. nested) + `map_ref` + `map_with_old` + `depend_on` + cutoffs `.eq`/`.never` + the static core

Property C01: *after every completed `stabilise`, each in-use observer on a valid node returns exactly the value obtained by evaluating that node's defining
expression from scratch on the current variable values — no matter how variable writes, node creation, observer creation / drop / disallow and `stabilise` calls
were interleaved before, including nodes that were unobserved for a while and are observed again.*

Earlier files prove this for the static core plus ONE extension each (`C01History`: static; `C01MapRef`: + `map_ref`; `C15History`: + `map_with_old`;
`C03Order`/`C03Nested`: + binds, nested binds; `C06History`: + arbitrary cutoffs).  This file proves it for the COMBINED fragment (stages S1 binds + map_ref, S2 + map_with_old, S3 + `depend_on` and the `cutoff` action).

## THE FRAGMENT (`FullH.HistFull env sp 0 acts`, `FullH.EnvS env sp`, `FullH.FirstFn env`; `Proofs/FullH3`, `FullH5`, `FullH12`, `FullH14`)

API actions: creation of `const`, `var`, pure `map` of arity 1…6 (user functions `f < fnZip` without effects, and the built-ins `fnZip`/`fnFirst`/`fnIdent`; `zip`),
`fold`, `dependOn a b` (= `map fnFirst [a,b]` with the cutoff `.dependOn a`: "`a.changedAt == n.changedAt`"), `mapRef p o` (projection ids `p < 100000`; CHAINS `x.map_ref(p).map_ref(q)` allowed), `mapWithOld m o` for a machine `m` satisfying the contract
`FullH.Good env sp m` (= `MapOldH.GoodMachine env (fun _ => True) m (sp m)`: from every reachable machine state, on every input, the machine outputs `sp m x`
and reports "unchanged" only if the previous output was that value, or there was none — e.g. `echo`), `bind body lhs` whose closure `body` builds, for every lhs value,
`const`/`lhsConst`/pure `map`/`fold`/`dependOn`/`mapRef`/`mapWithOld`/`bind body'` (NESTED binds, any depth) nodes over top-level handles created BEFORE the bind and its own earlier
locals (`FullH.BodyFull`); `observe`, `cloneObs`, `dropObs`, `disallow`; the five variable writes and `get`; `stabilise`, `isStable`, `stats`;
THE `cutoff n c` ACTION with `c = .never` or `c = .eq` on any handle.  So node cutoffs are `.eq`, `.never` or `.dependOn a` (`FullH.CutK`; change detectors `.never`).
`FullH.FirstFn env`: the built-in `fnFirst` returns its first argument (true of every `Defs.toEnv`, as `ZipPair`).  `FullH.EnvS env sp`: every closure body of the ENVIRONMENT (also bodies no bind uses) consists, for every lhs value, of such
instructions (a global well-formedness condition on the program text: function/projection/machine ids in range, machines `Good`, operands `n<k>`/`%j`).
In this fragment the nodes a closure creates cannot be named from outside (operands are handles of top-level nodes), so EVERY observed node is a top-level node and
stays valid for ever: the clause of C01 about observers on invalidated nodes is vacuous here (`QInv2.obsTop`, `N2.top`).

## METHOD (`Proofs/FullH1…61`, 10.5 kLoC; 16 helpers, ≈ 2 h 45 wall clock for the three stages)

`FullH.virt g s` (`FullH1`): THE VIRTUAL STATE — every `mapRef p i` node is replaced by the static node `map (pBase+p) [i]` STORING the ghost value `g n` ("the projection
the parents of `n` last consumed"), every `mapWithOld m i` node by `map (wBase+enc m) [i]` (same stored value), all `didChange` flags normalised, and EVERY CUTOFF OTHER THAN A CHANGE DETECTOR'S IS
READ AS `.eq` (`virtCut`: the cutoffs `.never` and `.dependOn a` of the actual state are invisible in the virtual state, so the `cutoff` action is a no-op there: `virtA` maps it to `stats`); `virtEnv env sp` interprets the
new function ids as the projections / the machines' specifications `sp m`, and TRANSLATES THE TEMPLATES of the closures (`virtT`), so the virtual closures build the virtual
nodes.  The virtual state lies in fragment F2 of `C03Nested` (static kinds + nested binds): ALL invariants and theorems of `NestH`/`BindH` (`DInv`, `F2Inv`, `GenOK2`, `QInv2`,
`StepRelB`, `StepL2`, `closure_spec2`, `relink_spec2`, `inval_spec2`, `den2_of_consistent`, `agree_large`, …) are applied to the VIRTUAL state as black boxes.
THE ACTUAL ENGINE SIMULATES THE VIRTUAL ENGINE (`FullH2`, `FullH6…13`, `FullH37`, `FullH41…44`, `FullH50`): `Sim K g x x'` — every successful run of `x` from `s` is matched by a
successful run of `x'` from `virt g s` ending in `virt g s'`, same result, SAME ghost; `SimX K x x'` — the same, but the ghost may be ERASED on nodes that end up invalid
(`invalidateNode` drops the value of a dying node: `GR g g' s s'`); states contain invalid nodes and pending invalidations (unlike `MapRefH.Fr`).  Simulated: every function of
`Engine/Core.lean` (heaps, `adjustHeights`, both necessity cascades, `invalidateNode`, `propagateInvalidity`, `stateAddParent`, `changeChildBindRhs`), node creation
(`createNode`/`createBind`/`elabInstr`/`elabTemplate`: virtualisation commutes with node creation), `maybeChangeValue`, `childChanged` (flag work is invisible), the recompute step of
every node that is NOT a map_ref / map_with_old node — incl. `bindMain` nodes and CHANGE DETECTORS (closure run, relink, invalidation of the old generation) —, the prefix of
`stabilise`, every API action.  A relation `VM s s'` is baked into every simulation: kinds, cutoffs and machine states of existing nodes are kept, invalid nodes stay invalid,
`didChange` flags are only RAISED, new nodes are pristine — so the ghost invariants below need almost no separate frame ladders.
THE THREE STEPS THAT ARE NOT SIMULATED are described directly by the step contract `BindH.StepRelB` of the virtual states: the step of a map_ref node (`FullH27…30`: `ch` = the old
flag; if it was down, the `didChange` invariant says the ghost already is the new projection) and of a map_with_old node (`FullH31…35`: the machine contract; the first run of a machine
that reports "unchanged" needs the `patch` device of `C15History`, redone for `BindH.DInv`), and THE VERDICT STEP (`FullH36`): the step of a static / `bindMain` node whose actual cutoff is `.never`
or `.dependOn a` — `ch` = the engine's verdict; `.never` only ever ADDS changes (`StepRelB` allows a spurious change), and when `.dependOn a` SUPPRESSES (`a.changedAt = n.changedAt`) the new value
`first(a, b)` IS the old one, by the new invariant `DepInv` (a valid `depend_on` node whose `changedAt` equals its input's stores what the input stores; with `CRl`: a node whose `changedAt` is the
current round has run in this round — so a changing input can never share its stamp with a `depend_on` parent that has not yet run; `FullH26`: both from `StepRelB`/`StepL2` of the virtual states).
THE GHOST INVARIANTS: `KInv env g s` — a valid NECESSARY map_ref node whose flag is DOWN reads its ghost value (D1/D15); `MInv env s` — the machine state of every valid map_with_old
node is reachable; `GSome g s` — a valid map_ref node whose flag is down HAS a ghost value (needed for the first "unchanged" run of a machine under a map_ref chain).  `KInv`
through: steps of static/bindMain nodes (`FullH15…18`: port of `childChanged_flags`/`mcv_keepsK`), the LINKING CASCADE in RANK order (`FullH20…22`: in graphs with binds a child may
have a larger index than its parent, the induction runs on the ghost rank of `NestH`), a RUN OF A CHANGE DETECTOR phase by phase (`FullH54…60`: the closure touches no old node and its
nodes start with the flag up; relinking = the linking cascade at the state right before `addParentWithoutAdjustingHeights rhs 1 main`; invalidation erases ghosts of dying nodes only and
a surviving map_ref node reads through surviving nodes), the prefix of `stabilise` (`FullH37…39`), API actions (`FullH49/50`).

## PROVED HERE (for the model, both `cfg.debug` settings; partial correctness: each statement assumes that the call / the history returns `.ok`)

* `recomputeOne_full`, `drainHeap_full`: THE DRAIN — from the drain invariant `FullH.DInvF env sp t s g x` (fragment facts; `BindH.DInv`, `NestH.AuxS2`, `NestH.GenOK2` of the VIRTUAL
  state; `KInv`, `MInv`, `GSome`) every successful `recomputeOne` on the current node re-establishes it for new ghost values (4 cases: simulated static/bindMain step; simulated run of
  a change detector incl. nested binds; map_ref step; map_with_old step), and `drainHeap` ends with it and an empty heap.
* `stabilise_full`: from the invariant between API actions `FullH.QInvF env sp s g` (`NestH.QG2` of the virtual state + ghost invariants) with ARBITRARY pending new / disallowed
  observers, `stabilise` re-establishes it; no necessary node is stale afterwards.
* `step_all`, `history_inv`: every API action of the fragment keeps `QInvFE`; every state reached from `State.init N d` by a history of the fragment satisfies it.
* `history_stabilise_virt`: AT EVERY `stabilise` OF A HISTORY OF THE FRAGMENT every in-use observer watches a named node `top[j]` and reads `Spec.denoteTop p' f j` (for all large `f`),
  where `p'` is the program text of the VIRTUAL history — the creation instructions so far with `mapRef p o` read as `map (proj p) [o]` and `mapWithOld m o` as `map (sp m) [o]`, closures
  likewise — evaluated from scratch on the current variable values by the text-level reference semantics `Spec/Denote.lean` (binds: evaluate the lhs, run the closure on that value,
  evaluate the template it returns, nested binds recursively; no node created by the engine is looked at).  This covers machines with ANY specification `sp m`.
* `history_stabilise_denote`: THE SAME FOR THE ACTUAL PROGRAM TEXT, when every machine is a pure identity machine (`sp m v = v`; `po m = true`: exactly the machines the reference
  semantics `Spec.denote` covers, `echo`): reads = `Spec.denoteTop (progOf env po as) f j` — C01 as the differential predicate `holds_C01` states it (`FullH51`: the virtual and the actual
  program text denote the same values).
* NON-VACUITY (`FullH62…71`, kernel-checked, see the `example`s at the end): `exHistG` (`depend_on` fires / is suppressed; `cutoff n never`: spurious change), and `exHistF` — a bind whose closure builds a map_ref CHAIN over an outer pair-valued variable `((a,b),c)`, a
  `map_with_old` identity machine on it, a `map`, and a NESTED bind whose closure builds another map_ref + machine; the pair variable is written (only `c`: the projection of the chain is
  unchanged and its parents are not recomputed; then `a`), the lhs changes (the generation with the chain, the machines and the inner bind is invalidated), the observer is disallowed,
  variables are written while nothing is observed, the node is observed again (fresh chain), the inner lhs changes.

## VALIDATION BY EXECUTION (before and while proving; `/tmp/c01full/HUNT.md`, `Hunt.lean`, `gen_full.py`)
2 300 generated histories of the combined fragment (pair and integer variables written one component at a time, map 1–3, fold, zip, map_ref chains, `map_with_old echo`, binds nested to
depth 2 with map_ref / map_with_old / bind inside closures, `depend_on`, observe / drop / re-observe, many `stabilise`): model = real implementation = reference predicate C01 on all,
0 panics.  With an instrumented drain maintaining the ghost, at every one of 246 149 drain states (121 844 `recomputeOne` steps: 33 649 map_ref steps — 3 307 with the flag down —, 9 172
map_with_old steps, 17 498 runs of change detectors, 8 281 of them killing a generation; 3 892 ghosts erased) the Boolean versions of `DInv`, `OrderInv`, `All2`/`GInv2` (virtual state), `KInv`,
and per step `StepRelB`/`StepL2` between the virtual states hold; after each `stabilise` reads = `den2` of the virtual state (119 584 reads); 260 783 field-by-field comparisons confirm the EXACT
simulation statements `Sim`/`SimX` (the virtual engine from `virt g s` ends in `virt g' s'`, `g'` = `g` erased on invalid nodes).  0 violations.  NO FINDING.  Side observations: `KInv` needs the
necessity premise (an unnecessary non-stale map_ref node above a stale unnecessary one reads a new value with its flag down); "flag up ⇒ stale ∨ queued" is false (`child_changed` raises the
flags of a whole chain at once); spurious changes exist (`markMapRefUnknown`), the converse never.

## ASSUMED / NOT PROVED HERE
* Partial correctness only (total correctness of the combined fragment — no panic, fuel — is not proved; `C03Nested.history_never_panics` covers binds, `C01History` the static core).
* NOT in the fragment: user cutoffs (`.fn`, `.boxed`, `.always`: with them C01 itself only holds "when cutoffs only suppress equal values" — `C06History` treats them for the static core), the `cutoff`
  instruction INSIDE closures, the composite incremental-map operators (`mapOp`, machines that need canonical inputs), expert nodes, effects, subscriptions, `var` created in closures, closures over
  younger top-level nodes, `setMaxHeight`, `dropVar`, memoised calls.
* `EnvS` is a condition on ALL closure bodies of the environment, not only on those a history uses (a history-relative version needs one more frame ladder for the `body` fields).
-/
namespace IncrVerif.Props.C01Full
open IncrVerif.Engine IncrVerif.Driver IncrVerif.Proofs IncrVerif.Proofs.FullH
open IncrVerif.Proofs.NestH (progOf ZipPair)

/-- **The drain, one step.** On the current node `n` of the drain invariant a successful `recomputeOne` re-establishes the invariant for new ghost values, the handed-over parent
being the new current node (static / `bindMain` / change-detector steps are simulated by the virtual engine; map_ref and map_with_old steps are described directly). -/
theorem recomputeOne_full {env : Env} {sp : Nat → Val → Val} (E : EnvS env sp) (hF : FirstFn env) {t s : State} {g : Nat → Option Val} {fuel n : Nat}
    {r : Option Nat} {s' : State} (D : DInvF env sp t s g (some n)) (h : (recomputeOne env fuel n).run.run s = (.ok r, s')) :
    ∃ g', DInvF env sp t s' g' r ∧ BindH.FrameB (virt g s) (virt g' s') ∧
      ((virt g' s').nodeD n).recomputedAt = s.stabNum ∧ ((virt g' s').nodeD n).valid = true :=
  recomputeOne_full' E hF D h

/-- **The drain.** A successful `drainHeap` from the drain invariant ends with the drain invariant (new ghost values) and an empty heap. -/
theorem drainHeap_full {env : Env} {sp : Nat → Val → Val} (E : EnvS env sp) (hF : FirstFn env) {fuel : Nat} {t s s' : State} {g : Nat → Option Val}
    (D : DInvF env sp t s g none) (h : (drainHeap env fuel).run.run s = (.ok (), s')) :
    ∃ g', DInvF env sp t s' g' none ∧ s'.rch.length = 0 ∧ BindH.FrameB (virt g s) (virt g' s') :=
  drainHeap_full' E hF D h

/-- **`stabilise`** from the invariant between API actions, with arbitrary pending new / disallowed observers: the invariant again (`StabF.inv`), both lists empty, cells unchanged,
every necessary node valid and not stale (`StabF.fresh`). -/
theorem stabilise_full {env : Env} {sp : Nat → Val → Val} (E : EnvS env sp) (hF : FirstFn env) {fuel : Nat} {s s' : State} {g : Nat → Option Val}
    (Q : QInvF env sp s g) (h : (stabilise env fuel).run.run s = (.ok (), s')) : ∃ g', StabF env sp s s' g' :=
  stabilise_full' E hF Q h

/-- **After a `stabilise` every in-use observer reads `den2` of its node in the virtual state** (the state-level from-scratch semantics of `C03Nested`, with map_ref nodes read as
projections and map_with_old nodes as their specification). -/
theorem stabilise_reads {env : Env} {sp : Nat → Val → Val} {s s' : State} {g' : Nat → Option Val} (R : StabF env sp s s' g') :
    ∀ (o : Nat) (ob : ObsRec), s'.observers[o]? = some ob → ob.state = .inUse →
      ∃ v, s'.tryGetValue env o = .ok v ∧ ∃ K, ∀ k, K ≤ k → NestH.den2 (VE env sp) (virt g' s') k ob.node = some v :=
  stabF_reads R

/-- **Every API action of the fragment keeps the invariant.** -/
theorem step_all {env : Env} {sp : Nat → Val → Val} (E : EnvS env sp) (hF : FirstFn env) {s s' : State} {a : Action} {tk : Array Nat} {r : String × Array Nat}
    (Q : QInvFE env sp s) (hA : ActionFull env sp s.top.size a) (h : (stepAction env a tk).run.run s = (.ok r, s')) : QInvFE env sp s' :=
  FullH.step_all E hF Q hA h

/-- **Whole histories.** Every state reached from the initial state by a history of the full fragment satisfies the invariant. -/
theorem history_inv {env : Env} {sp : Nat → Val → Val} (E : EnvS env sp) (hF : FirstFn env) {N : Nat} {d : Bool} {acts : List Action} {s : State} {tk : Array Nat}
    (hH : HistFull env sp 0 acts) (h : Quiet.runActions env acts (State.init N d) #[] = .ok (s, tk)) : QInvFE env sp s :=
  FullH.history_inv E hF hH h

/-- **C01 for the combined fragment, any machine specification.** At every `stabilise` of a history of the full fragment every in-use observer watches a named node and reads the
text-level from-scratch value of its handle in the program text of the virtual history (`mapRef p o` = `map (proj p) [o]`, `mapWithOld m o` = `map (sp m) [o]`). -/
theorem history_stabilise_virt {env : Env} {sp : Nat → Val → Val} (E : EnvS env sp) (hF : FirstFn env) (po : Nat → Bool) (Z : ZipPair env) {N : Nat} {d : Bool}
    {as bs : List Action} {s : State} {tk : Array Nat} (hH : HistFull env sp 0 (as ++ Action.stabilise :: bs))
    (h : Quiet.runActions env (as ++ Action.stabilise :: bs) (State.init N d) #[] = .ok (s, tk)) :
    ∃ s1 tk1 s2, Quiet.runActions env as (State.init N d) #[] = .ok (s1, tk1) ∧ QInvFE env sp s1 ∧
      (stabilise env fuelDefault).run.run s1 = (.ok (), s2) ∧ QInvFE env sp s2 ∧
      (∀ (o : Nat) (ob : ObsRec), s2.observers[o]? = some ob → ob.state = .inUse →
        ∃ v j, s2.tryGetValue env o = .ok v ∧ s2.top[j]? = some ob.node ∧
          ∃ F, ∀ f, F ≤ f → Spec.denoteTop (progOf (VE env sp) po (as.map virtA)) f j = some v) ∧
      (∀ n, s2.isNecessary n = true → (s2.nodeD n).valid = true ∧ s2.isStale n = false) ∧
      Quiet.runActions env bs s2 tk1 = .ok (s, tk) :=
  history_stabilise_virt' E hF po Z hH h

/-- **C01 FOR THE COMBINED FRAGMENT (identity machines): reads = the text-level reference semantics of the program built so far.**  For every history of the full fragment that runs
from the initial state — however variable writes, node creation, observer creation / drop / disallow and `stabilise` calls are interleaved — at every `stabilise` every in-use observer
reads `Spec.denoteTop` of its handle in the program text of the prefix, evaluated from scratch on the current variable values. -/
theorem history_stabilise_denote {env : Env} {sp : Nat → Val → Val} (E : EnvS env sp) (hF : FirstFn env) (po : Nat → Bool) (Z : ZipPair env)
    (hpo : ∀ m, po m = true) (hsp : ∀ m v, sp m v = v) {N : Nat} {d : Bool} {as bs : List Action}
    {s : State} {tk : Array Nat} (hH : HistFull env sp 0 (as ++ Action.stabilise :: bs))
    (h : Quiet.runActions env (as ++ Action.stabilise :: bs) (State.init N d) #[] = .ok (s, tk)) :
    ∃ s1 tk1 s2, Quiet.runActions env as (State.init N d) #[] = .ok (s1, tk1) ∧
      (stabilise env fuelDefault).run.run s1 = (.ok (), s2) ∧ QInvFE env sp s2 ∧
      (∀ (o : Nat) (ob : ObsRec), s2.observers[o]? = some ob → ob.state = .inUse →
        ∃ v j, s2.tryGetValue env o = .ok v ∧ s2.top[j]? = some ob.node ∧
          ∃ F, ∀ f, F ≤ f → Spec.denoteTop (progOf env po as) f j = some v) ∧
      Quiet.runActions env bs s2 tk1 = .ok (s, tk) :=
  history_stabilise_denote' E hF po Z hpo hsp hH h

/-! ## non-vacuity -/

/-- the example history is a history of the full fragment over an environment all of whose closures are of the fragment and whose machines are `Good`; it runs; the reads after the first
four `stabilise`s are `16`, `79` (only `c` written), `83` (`a` written), `1` (lhs odd: the generation with the map_ref chain is dead) -/
example : EnvS fEnv fSp ∧ (∀ m, Good fEnv fSp m) ∧ HistFull fEnv fSp 0 exHistF ∧
    (∃ s tk, Quiet.runActions fEnv exHistF (State.init 128 true) #[] = .ok (s, tk) ∧ QInvFE fEnv fSp s) ∧
    BindH.C2h.readB fEnv (exHistF.take 6) 0 = some (.int 16) ∧ BindH.C2h.readB fEnv (exHistF.take 8) 0 = some (.int 79) ∧
    BindH.C2h.readB fEnv (exHistF.take 10) 0 = some (.int 83) ∧ BindH.C2h.readB fEnv (exHistF.take 12) 0 = some (.int 1) := by
  obtain ⟨s, tk, h⟩ := exHistF_runs
  exact ⟨fEnv_envS, fEnv_good, exHistF_frag, ⟨s, tk, h, FullH.history_inv fEnv_envS fEnv_first exHistF_frag h⟩, exHistF_reads⟩

/-- unobserved for a while and observed again: after `disallow` + `stabilise` observer 0 is unlinked and the bind's main node is unnecessary; three writes later the node is observed again
(observer 1) and reads `8`, then — the INNER lhs changed — `78` -/
example : BindH.C2h.readB fEnv (exHistF.take 14) 0 = none ∧
    EX.factF (exHistF.take 14) (fun s => (s.observers[0]?.map (·.state), s.isNecessary 4)) = some (some .unlinked, false) ∧
    BindH.C2h.readB fEnv (exHistF.take 19) 1 = some (.int 8) ∧ BindH.C2h.readB fEnv exHistF 1 = some (.int 78) ∧
    BindH.C2h.readB fEnv exHistF 0 = none :=
  exHistF_reobserve

/-- the first generation: a map_ref chain `5 = n0.map_ref(fst)`, `6 = 5.map_ref(fst)` into the machine `7`, a nested bind (`9`, `10`) with its own map_ref `12` and machine `13`; after the
lhs change all of them are invalid -/
example : EX.factF (exHistF.take 6) (fun s => ((s.nodeD 5).kind, (s.nodeD 6).kind, (s.nodeD 7).kind, (s.nodeD 8).kind)) =
      some (.mapRef 1 0, .mapRef 1 5, .mapWithOld 7 6, .map 0 [7, 2]) ∧
    EX.factF (exHistF.take 12) (fun s => ([5, 6, 7, 8, 9, 10, 11, 12, 13].map fun n => (s.nodeD n).valid)) =
      some [false, false, false, false, false, false, false, false, false] :=
  ⟨exHistF_first.2.1, exHistF_lhs_switch.2.1⟩

/-- THE HEADLINE THEOREM APPLIES at each of the seven `stabilise`s of the example: every in-use observer reads `Spec.denoteTop` of its handle in the program text of the prefix — and the
reference semantics evaluates (kernel-checked) to the values read: `16, 79, 83, 1, (1), 8, 78` -/
example : (∀ {as bs : List Action}, exHistF = as ++ Action.stabilise :: bs →
      ∃ s tk s1 tk1 s2, Quiet.runActions fEnv exHistF (State.init 128 true) #[] = .ok (s, tk) ∧
        Quiet.runActions fEnv as (State.init 128 true) #[] = .ok (s1, tk1) ∧
        (stabilise fEnv fuelDefault).run.run s1 = (.ok (), s2) ∧ QInvFE fEnv fSp s2 ∧
        (∀ (o : Nat) (ob : ObsRec), s2.observers[o]? = some ob → ob.state = .inUse →
          ∃ v j, s2.tryGetValue fEnv o = .ok v ∧ s2.top[j]? = some ob.node ∧
            ∃ F, ∀ f, F ≤ f → Spec.denoteTop (progOf fEnv (fun _ => true) as) f j = some v) ∧
        Quiet.runActions fEnv bs s2 tk1 = .ok (s, tk)) ∧
    ([5, 7, 9, 11, 13, 18, 20].map fun k => Spec.denoteTop (progOf fEnv (fun _ => true) (exHistF.take k)) 10 3) =
      [some (.int 16), some (.int 79), some (.int 83), some (.int 1), some (.int 1), some (.int 8), some (.int 78)] :=
  ⟨fun e => exHistF_headline e, exHistF_denote⟩

/-- `depend_on` and the `cutoff` action (`exHistG`: `n3 := bind …` as above, `n4 := depend_on n3 n2`, `n5 := map first [n1, n2]`, `n6 := map f [n5, n5]`, all three observed): the history is of the
fragment (the `cutoff` action creates no handle) and runs; reads of `(n4, n5, n6)` after the five `stabilise`s -/
example : FirstFn fEnv ∧ HistFull fEnv fSp 0 exHistG ∧
    (∃ s tk, Quiet.runActions fEnv exHistG (State.init 128 true) #[] = .ok (s, tk) ∧ QInvFE fEnv fSp s) ∧
    EX.reads3 (exHistG.take 11) = (some (.int 16), some (.int 0), some (.int 0)) ∧
    EX.reads3 (exHistG.take 13) = (some (.int 18), some (.int 0), some (.int 0)) ∧
    EX.reads3 (exHistG.take 16) = (some (.int 20), some (.int 0), some (.int 0)) ∧
    EX.reads3 (exHistG.take 18) = (some (.int 1), some (.int 1), some (.int 2)) ∧
    EX.reads3 exHistG = (some (.int 1), some (.int 1), some (.int 2)) := by
  obtain ⟨s, tk, h⟩ := exHistG_runs
  exact ⟨fEnv_first, exHistG_frag, ⟨s, tk, h, FullH.history_inv fEnv_envS fEnv_first exHistG_frag h⟩, exHistG_reads⟩

/-- the stamps `(recomputedAt, changedAt)` show the three behaviours: (b) `n3` changes: the `depend_on` node (node 5, cutoff `.dependOn 4`) FIRES, while `n5` (node 6, cutoff `.eq`) is recomputed
with an equal value and does not change, its parent is not recomputed; (c) after `cutoff n5 never` node 6 is recomputed with an EQUAL value and STAMPS `changedAt` (spurious change), its parent
(node 7) is recomputed; (a) only the second operand of the `depend_on` node changes: it is recomputed (stamp 4) and its cutoff SUPPRESSES: `changedAt` stays 3 -/
example :
    EX.factF (exHistG.take 13) (fun s => (EX.stamps s 4, EX.stamps s 5, (s.nodeD 5).value)) = some ((1, 1), (1, 1), some (.int 18)) ∧
    EX.factF (exHistG.take 13) (fun s => (EX.stamps s 6, EX.stamps s 7, (s.nodeD 6).cutoff)) = some ((1, 0), (0, 0), .eq) ∧
    EX.factF (exHistG.take 16) (fun s => ((s.nodeD 6).cutoff, EX.stamps s 6, (s.nodeD 6).value)) = some (.never, (2, 2), some (.int 0)) ∧
    EX.factF exHistG (fun s => (EX.stamps s 4, EX.stamps s 5, (s.nodeD 5).value, (s.nodeD 5).cutoff)) = some ((3, 3), (4, 3), some (.int 1), .dependOn 4) :=
  ⟨exHistG_fires.1, exHistG_fires.2, exHistG_never.1, exHistG_suppressed.1⟩

/-- THE HEADLINE THEOREM APPLIES at each of the five `stabilise`s of `exHistG`, and the reference semantics evaluates (kernel-checked) to the values read -/
example : (∀ {as bs : List Action}, exHistG = as ++ Action.stabilise :: bs →
      ∃ s tk s1 tk1 s2, Quiet.runActions fEnv exHistG (State.init 128 true) #[] = .ok (s, tk) ∧
        Quiet.runActions fEnv as (State.init 128 true) #[] = .ok (s1, tk1) ∧
        (stabilise fEnv fuelDefault).run.run s1 = (.ok (), s2) ∧ QInvFE fEnv fSp s2 ∧
        (∀ (o : Nat) (ob : ObsRec), s2.observers[o]? = some ob → ob.state = .inUse →
          ∃ v j, s2.tryGetValue fEnv o = .ok v ∧ s2.top[j]? = some ob.node ∧
            ∃ F, ∀ f, F ≤ f → Spec.denoteTop (progOf fEnv (fun _ => true) as) f j = some v) ∧
        Quiet.runActions fEnv bs s2 tk1 = .ok (s, tk)) ∧
    ([10, 12, 15, 17, 19].map fun k => [4, 5, 6].map fun j => Spec.denoteTop (progOf fEnv (fun _ => true) (exHistG.take k)) 40 j) =
      [[some (.int 16), some (.int 0), some (.int 0)], [some (.int 18), some (.int 0), some (.int 0)], [some (.int 20), some (.int 0), some (.int 0)],
        [some (.int 1), some (.int 1), some (.int 2)], [some (.int 1), some (.int 1), some (.int 2)]] :=
  ⟨fun e => exHistG_headline e, exHistG_denote⟩

end IncrVerif.Props.C01Full
