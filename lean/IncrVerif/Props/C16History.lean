import IncrVerif.Proofs.PerKeyH109
import IncrVerif.Proofs.PerKeyH110
import IncrVerif.Proofs.PerKeyH111
import IncrVerif.Proofs.PerKeyH112
import IncrVerif.Proofs.PerKeyH113
import IncrVerif.Proofs.PerKeyH114
/-!
# C16 for whole histories — per-key operators (`incr_mapi_` …): the output is the per-key map of the current entries

C16 (informal): "for `incr_mapi_`, `incr_filter_mapi_` and their `_cutoff` variants on BTreeMap and OrdMap, where the user
function turns each key's `Incr<V>` into an `Incr` that may also depend on other variables, the observed output after every
stabilise equals the map obtained by applying the user's per-key computation to the current entries; for any sequence of
key insertions, removals and value changes combined with changes of the other variables, and across unobserve/re-observe".
`Props/C16.lean` has LOCAL facts (one call each).  Here: WHOLE HISTORIES, for the fragment below.

MODEL.  `create (perKey cut fam x)` (`elabInstr`, `Engine/Recompute.lean`) builds four nodes: a conversion `map fnIdent [x]`,
the RESULT (an expert node, record `pk = some (op, none)`), the CHANGE DETECTOR `map (fnPerKey + op) [conv]` and the output
conversion `map fnIdent [result]`.  A run of the change detector (`perKeyDriver`, inside the drain) diffs the map it LAST RAN
ON (`prevMap`) against the new input: for a NEW key it creates a per-key input node (expert node, `pk = some (op, some key)`,
value = the key's current value in `prevMap`), elaborates the user's template `env.perKey fam` over it (`%0`; `lhsconst` = the
key) and adds a dependency with a callback of the result on the template's return node; for a CHANGED value it makes the
per-key input node stale (`expert_make_stale`, skipped when nobody holds the node: the repaired D9); for a REMOVED key it
removes the dependency and invalidates the per-key node.  The result's value is the map assembled from the callback slots.

FRAGMENT (stage 1b; `PerKeyH.PActionOK env s a`, `PerKeyH.RunOKP env acts s tk`; decidable sufficient check `runOKPB`).
Static programs (`create` of `const`, `var` — map literals sorted —, pure `map`, `fold` with id `< xBase`, `zip`, over top-level
operands; `observe (.outer k)`, `cloneObs`, `dropObs`, `disallow`; `set`/`replace`, and `modify`/`update`/`replaceWith` on
variables that hold no map; `get`, `stabilise`, `isStable`, `stats`) PLUS `create (perKey cut fam x)` where `cut` is absent or
the default cutoff (`cut ∈ {none, some .eq}`: `incr_mapi_` and `incr_mapi_cutoff` with `Cutoff::PartialEq`), `x` names a
VARIABLE holding a sorted map and the family `env.perKey fam` is ANY template of PURE STATIC nodes (`PerKeyH.TemplOK`: `const`,
`lhsconst`, pure `map`, non-empty `fold`) over the per-key input node `%0`, earlier locals `%j` and top-level nodes `n<k>` that
exist when the operator is created: ALL the generator's families P0 `lhsconst ; map f0 %0 %1 ; ret %2`, P3
`lhsconst ; map f2 %0 n2 ; ret %2` (map2 with an outer variable), P4 (chain), and the families that IGNORE their input: P1
`map f1 n2 ; ret %1` (the per-key input node is never necessary, never computed) and P2 `ret n2` (no instance node at all: the
result depends, once per key, on ONE shared pre-existing node — duplicate dependencies on one child), and — STAGE 1 — a write to
a variable that holds a map stores a sorted map WITH AT LEAST THE SAME KEYS (`PerKeyH.PWriteOK`: key insertions and value changes in any number and order, NO KEY
REMOVAL).  Everything else is allowed: several operators (also over the same variable, also with templates that use the OUTPUT
of an older operator as an outer node), maps and observers on top of outputs, changing the outer variables, unobserving and
re-observing the output (the change detector then diffs against the map it last ran on, several edits back), both `cfg.debug`
settings.  The environment: `PerKeyH.EnvP env` (the built-in identity function is the identity; `toEnv_envP`).

METHOD (`Proofs/PerKeyH*.lean`, ≈110 files).  Three views of an actual state `s`:
(1) the STRUCTURAL TWIN `twL l s`: the change detector re-tagged `map fnIdent`, every record without its `pk` mark — an ordinary
state of fragment X1 of `Props/C14History.lean` under `twEnv env` (all closures are sums), on which the engine behaves
identically up to the log (`TSim`, port of the simulation calculus `ExpertH23–31`).  Every STRUCTURE- and SLOT-level theorem
of `ExpertH`/`DriverH` applies to it: `DriverH.addSpec`, `staleSpec` (expert API calls from `Mid` to `Mid`: link cascade,
`adjust_heights`, queueing), `SlotInv` (the callback discipline).
(2) the VALUE-FAITHFUL VIRTUAL STATIC STATE `V s` under `penv env`: a per-key input node is `fold xConst (.int prevMap[key]) [lc]`
(a constant), the result is `fold xAsm (asmInit tags) children` (`tags` = the key of each dependency in edge order; `asm_fold`:
the fold assembles exactly `AMap.ofList` of the tagged values), the change detector is `map fLc [conv]` (constant `()`).  The
engine on `s` is simulated on `V s` for everything but the runs of change detectors and expert nodes (`VSim`), so the static
theory (`QR.QInv`, `BindH.DInv`) applies to `V s` directly.
(3) `Kin`: `virt (twL l s)` and `V s` differ only in node kinds with the same children: kind-agnostic facts transfer.
A RUN OF A CHANGE DETECTOR is, on `V`, a REWIRING-WITH-CREATION step `PerKeyH.StepP` (pure contract; `stepP_inv'`: it keeps the
drain invariant `BindH.DInv` with a changing graph of `Props/C03Order.lean`) followed by a static step: the loop of
`perKeyDriver` is threaded through `Mid` of the twin (creation of the per-key node and the template instance:
`mid_mkNode`, `expertBlock_mid`, `elabTemplateBase_mid`; `expertAddDependency` on the NECESSARY result: `addSpec`, acyclicity
from the potential `Pot`; `expertMakeStale`: `staleSpec`; a per-key input node that is USED by its instance is necessary, hence ALIVE: `nec_alive`;
one that is not used has never been computed — virtual stamp `-1` —, and whether or not the run calls `expertMakeStale` on it
(`isAlive` is unknown) it is stale with virtual stamp `-1` afterwards), the bookkeeping `PKOK` (`prevNodes` ↔ dependencies of the
result ↔ per-key nodes ↔ template instances `Inst`; OWNERSHIP: private nodes are referenced only by private nodes or the
result, have no observer and no name; `EntryOK.input`: a per-key input node is reached from its instance's return node OR has
never been computed) is re-established at the end.  A RUN OF A PER-KEY INPUT NODE re-establishes the first alternative by the
OWNERSHIP WALK `priv_nec_below`: the node is current, hence necessary; its parents are private nodes of its OWN instance
(instances are disjoint ranges of consecutive nodes) or the result; heights increase along parent entries, so the walk ends
at the result, through the dependency of its own entry.

INVARIANTS.  Between API actions `PerKeyH.PQ env rk s`: `PFrag` (kinds, all nodes valid), `QR.QInv (penv env) rk (V s)` (the
quiescent invariant of the static fragment for the virtual state: edge symmetry exactly for necessary nodes, heights, the heap
holds exactly the necessary stale nodes, EVERY non-stale node stores its defining function of its children's values — for a
per-key node: `prevMap[key]`; for the result: the assembled map of its dependencies' values), `AhhEmpty`, `PKOK` (bookkeeping,
incl. the SEMANTIC LINK `OpOK.input`: a change detector that is not stale last ran on the current input map), `SlotInv`,
`NoRem` (stage 1: key sets grow along `prevMap ⊆ conversion node ⊆ var node ⊆ cell`).  Inside the drain: `PerKeyH.PD env s x` =
`BindH.DInv (penv env) (V s) x` + `AuxP`.

PROVED (for the model; partial correctness: each statement assumes that the call returns `(.ok _, s')`).
* `lc_run_keeps`, `expert_run_keeps`, `static_run_keeps`, `pop_keeps`: every step of the drain keeps `PD` (a run of a change
  detector; of a per-key input node / of the result: its value IS the virtual fold's value, by `SlotInv` + `penv_fold_result`;
  of any static node), with the frame `PStep`.
* `drain_keeps`: `drainHeap` keeps `PD`, ends with an empty heap, NO NODE RUNS TWICE.
* `stabilise_keeps` (`StabilisedP`): from `PQ` a successful `stabilise` ends in `PQ` (some rank), every necessary node is not
  stale, and `OutputOK`: the output node of every operator whose output is necessary stores the map
  `specMap … mx` = `{k ↦ F_fam(k, v) | (k, v) ∈ mx}` for the CURRENT value `mx` of its input variable, where `F_fam(k, v)` =
  `evalTempl`: from-scratch evaluation of the template with `%0 = v`, `lhsconst = k`, outer nodes at their current values.
* `action_keeps`: every action of the fragment keeps `PQ` (`create (perKey …)`: the rank is re-chosen — the result depends on
  the NEWER change detector).
* `history_inv`, `history_every_stabilise`, **`c16_history`**: at every `stabilise` of a history of the fragment that runs from
  the initial state, every in-use observer of an operator's output READS `.map mo` with `specMap … mx = some mo`.
* `specMap_map`: `specMap` is the entry-wise map when `F_fam` is defined on all entries.
* `runOKP_of_check'`: the decidable check implies `RunOKP`.
* Non-vacuity (kernel evaluation): `ckHist fam` (20 actions over `{1:3,5:0}`: insert key 6, change a value, change the outer
  variable, unobserve, two edits incl. a new key, re-observe, a last edit with two changes) IS a history of the fragment for
  ALL FIVE families P0–P4, and so is its variant `ckHistCut 3` with the explicit default cutoff (`example_fragment`); they run,
  and the theorem applies (`example_theorem`); the last read of P3 is `{1:3,5:6,6:0,8:6,9:5}` = `(v + 5) mod 7`
  (`example_read`), of P1 `{k ↦ 6}` = `(1 + n2) mod 7`, of P2 `{k ↦ 5}` = `n2` (`example_read_ignoring`); the check REJECTS a key
  removal (`example_rejected`).
  `exP3_*`, `exP0_*`, `exP4_*`, `exP1_*`, `exP2_*` (`Proofs/PerKeyH…`, imported here): the MODEL's reads on a 26-action
  history over all five families INCLUDING KEY REMOVALS (insert, change, remove, outer variable, unobserve + two edits +
  re-observe) equal `F_fam` of the entries (explicit functions `F3 o k v = (v + o) % 7`, …); same traces as the real
  implementation (`/tmp/perkey/hunt/ex/ex_P*.hist`).

VALIDATION.  An executable checker of `BindH.DInv (penv env) (V s) x` and of `PFrag`/`PKOK`/`AuxP`/`SlotInv`/`NoRem` was run at
every drain state of random histories of the generator profile `perkey` (see `/tmp/perkey/hunt`); it found the contract bug
`Pot.le` (repaired) and confirms the invariants on stage-1a histories; after a key REMOVAL exactly the clause "a valid node has
an invalid child" of `BGraph` fails for `V` as defined (the template nodes of the removed key stay valid): mapping an
invalidated per-key node to a valid never-computed `const` node repairs it on all checked states (design of stage 2).

ASSUMED / NOT PROVED.  Partial correctness throughout (no "never panics" theorem).  NOT covered: KEY REMOVAL (stage 2: every
simulation calculus used here assumes all nodes valid, `ExpertH.Fr`), the `_cutoff` variants with a NON-default cutoff
(`cut ∉ {none, some .eq}`; `QR.AllStatic` demands the default cutoff), `filter` (the model has no filtering variant), family P5 (binds in
the template), C17 for per-key nodes (unchanged keys are not recomputed: only the local facts of `Props/C16.lean`), observers
on internal nodes of an operator (`observe #…`).  No finding: model and real implementation agree on all checked histories.
-/
namespace IncrVerif.Props.C16History
open IncrVerif.Engine IncrVerif.Driver IncrVerif.Proofs IncrVerif.Proofs.Step IncrVerif.Proofs.Sched
open IncrVerif.Proofs.ExpertH IncrVerif.Proofs.PerKeyH
open IncrVerif.Props.C14History (readAfter ranOk)

/-! ## the fragment -/

/-- the harness' environments satisfy the assumption on the built-in identity -/
theorem toEnv_envP' (d : Defs) : EnvP d.toEnv := toEnv_envP d

/-- a decidable sufficient check of `RunOKP` for the harness' environments -/
theorem runOKP_of_check' {d : Defs} {acts : List Action} {s : State} {tk : Array Nat}
    (h : runOKPB d.toEnv (effOfDefs d) acts s tk = true) : RunOKP d.toEnv acts s tk := runOKP_of_check h

/-! ## the steps of the drain -/

/-- **a run of a per-key change detector keeps the drain invariant** (node creation, `expert_add_dependency` on the necessary
result with its link cascade and `adjust_heights`, `expert_make_stale`, inside the drain) -/
theorem lc_run_keeps (env : Env) : LcStepSpec env := lcStepSpec env

/-- **a run of a per-key input node or of an operator's result keeps the drain invariant** -/
theorem expert_run_keeps (env : Env) : XStepSpec env := xStepSpec env

/-- a run of any other node -/
theorem static_run_keeps {env : Env} (hE : EnvP env) : StaticStepSpec env := staticStepSpec hE

theorem pop_keeps (env : Env) : PopSpecP env := popSpecP env

/-- **the drain**: the invariant is kept, the heap is empty at the end, no node runs twice -/
theorem drain_keeps {env : Env} (hE : EnvP env) : DrainSpecP env := drainSpecP hE

/-- the pure contract: a rewiring-with-creation step keeps the drain invariant with a changing graph -/
theorem rewiring_with_creation_keeps {env : Env} {X : Nat → Prop} {n : Nat} {s s' : State}
    (I : BindH.DInv env s (some n)) (R : StepP env X n s s') (N : NewStale s s') : BindH.DInv env s' (some n) :=
  stepP_inv' I R N

/-! ## `stabilise`, actions, histories -/

/-- **`stabilise`** -/
theorem stabilise_keeps {env : Env} (hE : EnvP env) : StabSpecP env := stabSpecPE hE

/-- every action of the fragment but `stabilise` keeps the invariant between actions -/
theorem action_keeps (env : Env) : ActionSpecP env := actionSpecP env

theorem history_inv {env : Env} (hE : EnvP env) {N : Nat} {d : Bool} {acts : List Action} {s : State} {tk : Array Nat}
    (ha : RunOKP env acts (State.init N d) #[])
    (h : QR.runActions env acts (State.init N d) #[] = .ok (s, tk)) : ∃ rk, PQ env rk s :=
  history_inv_p hE ha h

theorem history_every_stabilise {env : Env} (hE : EnvP env) {N : Nat} {d : Bool} {as bs : List Action} {s : State}
    {tk : Array Nat} (ha : RunOKP env (as ++ Action.stabilise :: bs) (State.init N d) #[])
    (h : QR.runActions env (as ++ Action.stabilise :: bs) (State.init N d) #[] = .ok (s, tk)) :
    ∃ s1 tk1 s2 rk1, QR.runActions env as (State.init N d) #[] = .ok (s1, tk1) ∧ PQ env rk1 s1 ∧
      (stabilise env fuelDefault).run.run s1 = (.ok (), s2) ∧ StabilisedP env fuelDefault s1 s2 ∧
      QR.runActions env bs s2 tk1 = .ok (s, tk) :=
  history_every_stabilise_p hE ha h

/-- **C16 for whole histories (stage 1b: all templates of pure static nodes, `cut ∈ {none, eq}`, no key removal).**  At every `stabilise` of a history of the fragment that runs from the initial
state: in the state `s2` reached by that `stabilise`, every in-use observer `o` of the output node `pr.result + 2` of an
operator `op` reads a map `mo`, and `mo` is the specified map `{k ↦ F_fam(k, v)}` of the CURRENT value `mx` of the operator's
input variable (`vc.value`, the variable's cell) with the outer nodes `n<k>` at their current values. -/
theorem c16_history {env : Env} (hE : EnvP env) {N : Nat} {d : Bool} {as bs : List Action} {s : State}
    {tk : Array Nat} (ha : RunOKP env (as ++ Action.stabilise :: bs) (State.init N d) #[])
    (h : QR.runActions env (as ++ Action.stabilise :: bs) (State.init N d) #[] = .ok (s, tk)) :
    ∃ s1 tk1 s2, QR.runActions env as (State.init N d) #[] = .ok (s1, tk1) ∧
      (stabilise env fuelDefault).run.run s1 = (.ok (), s2) ∧ QR.runActions env bs s2 tk1 = .ok (s, tk) ∧
      ∀ (op : Nat) (pr : PerKeyRec) (o : Nat) (ob : ObsRec), s2.perkeys[op]? = some pr → s2.observers[o]? = some ob →
        ob.state = .inUse → ob.node = pr.result + 2 →
        ∃ x c vc mx mo, (s2.nodeD (pr.result - 1)).kind = .map fnIdent [x] ∧ (s2.nodeD x).kind = .var c ∧
          s2.vars[c]? = some vc ∧ vc.value = .map mx ∧
          s2.tryGetValue env o = .ok (.map mo) ∧
          specMap env (fun k => (s2.top[k]?).bind fun n => s2.value env n) (env.perKey pr.fam) mx = some mo := by
  obtain ⟨s1, tk1, s2, rk1, h1, -, h2, R, h3⟩ := history_every_stabilise hE ha h
  obtain ⟨rk2, Q2⟩ := R.inv
  exact ⟨s1, tk1, s2, h1, h2, h3, fun op pr o ob hpr ho hst hnode =>
    output_reads_of_pq hE Q2 R.settled op pr o ob hpr ho hst hnode⟩

/-- `specMap` is the entry-wise map when the per-key function is defined on every entry -/
theorem specMap_map {env : Env} {ov : Nat → Option Val} {t : Template} {F : Int → Int → Val} :
    ∀ (m : List (Int × Int)), (∀ kv, kv ∈ m → evalTempl env ov t kv.1 kv.2 = some (F kv.1 kv.2)) →
      specMap env ov t m = some (m.map fun kv => (kv.1, (F kv.1 kv.2).toInt))
  | [], _ => rfl
  | kv :: m, h => by
    have ih := specMap_map m (fun x hx => h x (List.mem_cons_of_mem _ hx))
    unfold specMap at ih ⊢
    rw [List.mapM_cons, h kv (List.mem_cons_self ..)]
    simp only [Option.map_some, Option.bind_eq_bind, Option.bind_some, List.map_cons]
    rw [ih]
    rfl

/-- no node runs twice in the drain of a `stabilise` -/
theorem stabilise_no_node_twice {env : Env} {fuel : Nat} {s s' : State} (R : StabilisedP env fuel s s') :
    ∃ t2, (drainTrace env fuel t2).Nodup := by
  obtain ⟨t1, t2, t3, -, -, -, -, -, -, hn, -⟩ := R.drain
  exact ⟨t2, hn⟩

/-! ## non-vacuity -/

/-- the example history (insert a key, change a value, change the outer variable, unobserve, edit twice, re-observe, edit)
is a history of the fragment for ALL FIVE families P0, P3, P4, P1 (`map f1 n2 ; ret %1`), P2 (`ret n2`) — the last two ignore
their input —, and so is its variant with the explicit default cutoff `perKey (some .eq) P3 n0` -/
theorem example_fragment : RunOKP ckEnv (ckHist 0) (State.init 128 true) #[] ∧
    RunOKP ckEnv (ckHist 3) (State.init 128 true) #[] ∧ RunOKP ckEnv (ckHist 4) (State.init 128 true) #[] ∧
    RunOKP ckEnv (ckHist 1) (State.init 128 true) #[] ∧ RunOKP ckEnv (ckHist 2) (State.init 128 true) #[] ∧
    RunOKP ckEnv (ckHistCut 3) (State.init 128 true) #[] :=
  ⟨ck_runOKP.1, ck_runOKP.2.1, ck_runOKP.2.2, ck_runOKP12.1, ck_runOKP12.2.1, ck_runOKP12.2.2⟩

/-- it runs, and its last read (family P3, observer `o1`) is `{k ↦ (v + 5) mod 7}` of `{1:5,5:1,6:2,8:1,9:0}` -/
theorem example_read : ranOk ckEnv (ckHist 3) = true ∧
    readAfter ckEnv (ckHist 3) 1 = some (.map [(1, 3), (5, 6), (6, 0), (8, 6), (9, 5)]) := ⟨ck_run.2.1, ck_run.2.2.2⟩

/-- the histories of the families that ignore their input run, and their last reads (observer `o1`) are `{k ↦ (1 + n2) mod 7}`
(P1) and `{k ↦ n2}` (P2) for `n2 = 5`; the cutoff variant reads what the plain P3 history reads -/
theorem example_read_ignoring : ranOk ckEnv (ckHist 1) = true ∧ ranOk ckEnv (ckHist 2) = true ∧
    ranOk ckEnv (ckHistCut 3) = true ∧
    readAfter ckEnv (ckHist 1) 1 = some (.map [(1, 6), (5, 6), (6, 6), (8, 6), (9, 6)]) ∧
    readAfter ckEnv (ckHist 2) 1 = some (.map [(1, 5), (5, 5), (6, 5), (8, 5), (9, 5)]) ∧
    readAfter ckEnv (ckHistCut 3) 1 = some (.map [(1, 3), (5, 6), (6, 0), (8, 6), (9, 5)]) := ck_run12

/-- the check rejects what is outside the fragment: key removal -/
theorem example_rejected : runOKPB ckEnv (effOfDefs ckDefs) (ckHistRm 3) (State.init 128 true) #[] = false := ck_reject

/-- the invariant holds in every state the example history reaches (the theorem applies) -/
theorem example_theorem {s : State} {tk : Array Nat}
    (h : QR.runActions ckEnv (ckHist 3) (State.init 128 true) #[] = .ok (s, tk)) : ∃ rk, PQ ckEnv rk s :=
  history_inv (toEnv_envP ckDefs) ck_runOKP.2.1 h

/-- the same for a family that ignores its input (P2 `ret n2`: one shared node for all keys) -/
theorem example_theorem_ignoring {s : State} {tk : Array Nat}
    (h : QR.runActions ckEnv (ckHist 2) (State.init 128 true) #[] = .ok (s, tk)) : ∃ rk, PQ ckEnv rk s :=
  history_inv (toEnv_envP ckDefs) ck_runOKP12.2.1 h

end IncrVerif.Props.C16History
