import IncrVerif.Proofs.GateF4
import IncrVerif.Proofs.OnceF6
/-!
# C06 (cutoffs gate propagation exactly) for the COMBINED fragment of `C01Full`

Property C06: *expert nodes aside, a dependant's function is re-invoked in a `stabilise` only if it has never run or at least one of its inputs produced a result that its cutoff
did not suppress since the dependant last ran; conversely, whenever an input's new result is not suppressed, every dependant needed by a live observer is re-invoked in that same
`stabilise`.*

`Props/C06` has the cutoff table and the two branches of one `maybeChangeValue`; `Props/C06History` proves the gating theorem for static programs with arbitrary cutoffs.  This file
proves both directions of the gate for the combined fragment of `Props/C01Full`, at every `stabilise` of every history.

## THE FRAGMENT (exactly the one of `C01Full` / `C02Full`: `FullH.HistFull env sp 0 acts`, `FullH.EnvS env sp`, `FullH.FirstFn env`)
binds (incl. nested, any depth) + `map_ref` (chains) + `map_with_old` (machines with the contract `FullH.Good`) + `depend_on` + the `cutoff n never/eq` action + the static core
(`const`, `var`, pure `map` 1…6, `zip`, `fold`), observers created / cloned / dropped / disallowed, the five variable writes, in any interleaving.  See the header of
`Props/C01Full.lean` for the precise definitions and for what is NOT in the fragment (user cutoffs, `cutoff` inside closures, incremental-map operators, expert nodes, effects, …).

## PROVED HERE (for the model, both `cfg.debug` settings; partial correctness: each statement assumes that the call / the history returns `.ok`)

The observable is the one of `C02Full`: `TidyH.drainSteps env fuel t2` = the list of (node, state) on which `drainHeap env fuel`, started in `t2`, invokes `recomputeOne` (pops and
direct-recompute chains, in order; first components = `Sched.drainTrace`), `t2` = THE state in which the drain of the `stabilise` in question starts, tied to the run by the four phase
equations.  "The cutoff of `c` did not suppress its result in round `k`" is the model's (and the engine's) own record of it: `changedAt c = k` (`maybe_change_value` stamps
`changed_at` iff `should_cutoff` is false or there was no old value; for the verdict itself see `Props/C06`, `Props/C06History.bump_iff`).

* (ONLY IF) `drain_stale` (a successful `drainHeap` from the drain invariant `FullH.DInvF`), `stabilise_only_if` (a successful `stabilise` from the invariant between API actions
  `QInvFE`), `history_c06` (every `stabilise` of every history of the fragment run from `State.init N d`) — `GateF.GateStab env fuel s s'`: for EVERY step `p` of the drain (node `p.1`
  handed to `recomputeOne` in state `p.2`):
  - `p.2.isStale p.1 = true`: the node is STALE in the engine's own sense (`State.isStale` = the model of `is_stale`, which `recomputeOne`'s callers consult) in the very state in
    which it is handed over, and
  - `GateF.Reason p.2 p.1` (= `isStale` unfolded, `stale_means`; the expert alternative excluded by the fragment): it HAS NEVER RUN (`recomputedAt = -1`), or it is a variable whose
    cell was written after it last ran (`recomputedAt < setAt`), or SOME CHILD `c ∈ p.2.children p.1` HAS `changedAt c > recomputedAt (p.1)`: an input produced, after the node last
    ran, a result that its cutoff did not suppress (children = the model's `try_fold_children`: map / fold arguments, the input of a map_ref / map_with_old node, the lhs of a change
    detector, the change detector and the CURRENT rhs of a bind's main node);
  - and (from `C02Full`) it is valid, necessary, not yet stamped in this round (`recomputedAt < s.stabNum`), the round number still being `s.stabNum`.
  Together with `C02Full.stabilise_once` (the steps are pairwise distinct nodes) and the local theorems of `Props/C02` (one `recomputeOne` = one invocation of the node's function): a
  node function is invoked in a `stabilise` only for one of the three reasons.
  `recomputeOne_handover` (ALL kinds of nodes, no invariant, purely syntactic): if `recomputeOne env fuel n` returns `some p` (direct-recompute handover) then in the state it
  returns `n` has just been stamped `changedAt = stabNum` and `p` is a recorded parent of `n` — a node is handed over only by a child whose result was NOT suppressed in this very call.
* (IF, changes are never lost) `stabilise_never_lost`, part of `stabilise_c06` / `history_c06` — `GateF.NeverLost s s'`: every stamp of the state `s` before the `stabilise` is from an
  earlier round (`recomputedAt, changedAt < s.stabNum`; so a stamp `= s.stabNum` in `s'` was written by THIS `stabilise`), `s'.stabNum = s.stabNum + 1`, and for every node `n` that is
  necessary in the final state `s'` and every child `c ∈ s'.children n`: IF `changedAt c = s.stabNum` (the result of `c` was not suppressed in this round) THEN `n` is valid and
  `recomputedAt n = s.stabNum`: `n` was recomputed in this same `stabilise`.  (From `C01Full.StabF.fresh`: no necessary node is stale afterwards, and the stamp invariant.)
* NON-VACUITY (kernel-checked): the theorem applies at each of the seven `stabilise`s of `C01Full`'s example history `exHistF` and at each of the five of `exHistG`
  (`depend_on`, `cutoff never`).  `exHistF_why` / `exHistG_why`: for four of these drains the kernel computes, per step, (node, stale?, `recomputedAt`, the children that changed since):
  e.g. the round after writing only the third component of the pair variable 0 runs `0` (written), the map_ref nodes `5`, `12` (child 0 changed), `13` (12 changed), `10`, `11`, `4`;
  `exHistF_gate`: after that round the map_ref node 5 carries `recomputedAt = 1` but `changedAt = 0` (its projection is unchanged: the change is suppressed), and its necessary parents
  6, 7 keep `recomputedAt = 0` — they did NOT run; 12's projection changed (`changedAt = 1`) and its necessary parent 13 has `recomputedAt = 1`.  In the next round (first component
  written) 6 runs because 5 changed and 7 because 6 changed.

## METHOD (`Proofs/GateF1…4`)
`GateF1`: a return-value ladder (`RetQ`) through `recomputeOne`: every `some p` comes out of `maybeChangeValueManual`, after the `changedAt` stamp, the parent list is read after
`maybeHandleAfterStabilisation` and the rest of the function is `Step.Quiet` (`Step.mcvm_true_quiet`).  `GateF2`: staleness along the drain: a popped node was queued, and
`BindH.DInv.qstale` (queued ⟹ stale, virtual state; `FullH.virt_isStale`) — the pop changes `heightInRch` only; a handed-over node `p`: the recorded parent entry is a child edge
(`BGraph.parent` of the invariant AFTER the step), `p` has not run in this round (`DInv.cur_facts`), its child `n` carries `changedAt = stabNum`.  The invariants come from
`FullH.recomputeOne_full`, `pop_full`, `recompute_full`.  `GateF3`: the `stabilise` prefix of `OnceF.stabilise_onceF`, `StabF.fresh` + `OnceF.fresh_inputs` + the stamp invariant for
the converse, histories through `OnceF.history_c02`.

## ASSUMED / NOT PROVED HERE
* Partial correctness only (as `C01Full`, `C02Full`).  Everything `C01Full` lists as outside the fragment is outside here; in particular expert nodes (excluded by C06 itself) and
  user cutoff predicates (`.fn`, `.boxed`, `.always`: covered for static programs by `C06History`).
* The converse is stated with the stamp `recomputedAt n = s.stabNum` ("`n` was recomputed in round `s.stabNum`"), not with membership of `n` in `drainTrace`: that a VALID node
  stamped in this round is in the trace (the converse of `C02Full`'s "every node of the trace is stamped") is NOT proved here (`invalidate_node` also writes `recomputed_at := now`
  on the dying nodes, so the frame needs validity).  Since all stamps are `< s.stabNum` when the drain starts and `recomputeOne` is the only writer of `recomputedAt` on a node that
  stays valid, this is the expected reading, but the frame lemma is missing.  `Proofs/GateF5…8` (NOT imported here) contain an unfinished attempt: the relation `GateF.RR ex` (invalid nodes stay
  invalid; every node outside `ex` keeps `recomputedAt` or is invalid afterwards), proved for every SUCCESSFUL run (`GateF.POk`) of every function reachable from `recomputeOne` —
  `invalidateNode` (`POk.invalidateNode`), `propagateInvalidity`, `changeChildBindRhs`, `elabTemplate`, `runEffects`, `maybeChangeValue`, … — but NOT for `recomputeOne` itself (tactic
  timeout), and not composed along the drain.
* WHICH verdict the cutoff gives (`changedAt` stamped iff `shouldCutoff` is false or there was no old value) is the local theorem of `Props/C06`; for `depend_on` nodes see
  `C06History.dependOn_verdict` (finding FC1).  It is not re-proved here for the kinds of the combined fragment; the map_ref / map_with_old nodes do not call `should_cutoff` (they
  propagate iff `didChange` / the machine's flag).
* `children` of a bind's main node contains the CURRENT rhs (in the state of the step); an rhs that was replaced earlier in the same drain is not a child any more.
-/
namespace IncrVerif.Props.C06Full
open IncrVerif.Engine IncrVerif.Driver IncrVerif.Proofs IncrVerif.Proofs.Sched IncrVerif.Proofs.TidyH IncrVerif.Proofs.FullH IncrVerif.Proofs.OnceF
open IncrVerif.Proofs.GateF

/-- **the handover** (all kinds of nodes, no hypothesis on the state): a parent `p` returned by `recomputeOne env fuel n` for direct recomputation is, in the state returned, a recorded
parent of `n`, and `n` has just been stamped as changed in this round -/
theorem recomputeOne_handover (env : Env) (fuel n : Nat) {s s' : State} {p : Nat} (h : (recomputeOne env fuel n).run.run s = (.ok (some p), s')) :
    (s'.nodeD n).changedAt = s'.stabNum ∧ p ∈ (s'.nodeD n).parents.map (·.1) :=
  GateF.recomputeOne_handover env fuel n s p s' h

/-- the model's `is_stale`, unfolded (all kinds) -/
theorem stale_means {s : State} {n : Nat} (h : s.isStale n = true) :
    (s.nodeD n).valid = true ∧
      ((s.nodeD n).recomputedAt = -1 ∨
       (∃ c vc, (s.nodeD n).kind = .var c ∧ s.vars[c]? = some vc ∧ (s.nodeD n).recomputedAt < vc.setAt) ∨
       (∃ c, c ∈ s.children n ∧ (s.nodeD n).recomputedAt < (s.nodeD c).changedAt) ∨
       (∃ e er, (s.nodeD n).kind = .expert e ∧ s.experts[e]? = some er ∧ er.forceStale = true)) :=
  isStale_cases h

/-- **(only if) the drain.** From the drain invariant of the combined fragment, every node a successful `drainHeap` hands to `recomputeOne` is stale at that moment. -/
theorem drain_stale {env : Env} {sp : Nat → Val → Val} (E : EnvS env sp) (hF : FirstFn env) {fuel : Nat} {t s s' : State} {g : Nat → Option Val}
    (D : DInvF env sp t s g none) (h : (drainHeap env fuel).run.run s = (.ok (), s')) :
    ∀ p, p ∈ drainSteps env fuel s → p.2.isStale p.1 = true :=
  drain_staleF (kit E hF) fuel t s s' g D h

/-- **(only if) ONE `stabilise`.** From the invariant between API actions: every step of the drain is on a node that is stale, for one of the three reasons, valid, necessary, not yet
stamped in this round. -/
theorem stabilise_only_if {env : Env} {sp : Nat → Val → Val} (E : EnvS env sp) (hF : FirstFn env) {fuel : Nat} {s s' : State} (Q : QInvFE env sp s)
    (h : (stabilise env fuel).run.run s = (.ok (), s')) :
    ∃ t1 t2 t3,
      (addNewObservers env fuel).run.run { s with status := .stabilising } = (.ok (), t1) ∧
      (unlinkDisallowedObservers fuel).run.run t1 = (.ok (), t2) ∧
      (drainHeap env fuel).run.run t2 = (.ok (), t3) ∧ (stabiliseEnd env fuel).run.run t3 = (.ok (), s') ∧
      (∀ p, p ∈ drainSteps env fuel t2 →
        p.2.isStale p.1 = true ∧
        ((p.2.nodeD p.1).recomputedAt = -1 ∨
         (∃ c vc, (p.2.nodeD p.1).kind = .var c ∧ p.2.vars[c]? = some vc ∧ (p.2.nodeD p.1).recomputedAt < vc.setAt) ∨
         (∃ c, c ∈ p.2.children p.1 ∧ (p.2.nodeD p.1).recomputedAt < (p.2.nodeD c).changedAt)) ∧
        (p.2.nodeD p.1).valid = true ∧ p.2.isNecessary p.1 = true ∧
          (p.2.nodeD p.1).recomputedAt < s.stabNum ∧ p.2.stabNum = s.stabNum) ∧
      (∀ m, (t2.nodeD m).recomputedAt < s.stabNum) :=
  (stabilise_c06 E hF Q h).1

/-- **(if) CHANGES ARE NEVER LOST.** After a `stabilise` of the combined fragment, every necessary node with a child whose result was not suppressed in this round was recomputed in this
round. -/
theorem stabilise_never_lost {env : Env} {sp : Nat → Val → Val} (E : EnvS env sp) (hF : FirstFn env) {fuel : Nat} {s s' : State} (Q : QInvFE env sp s)
    (h : (stabilise env fuel).run.run s = (.ok (), s')) :
    (∀ m, (s.nodeD m).recomputedAt < s.stabNum ∧ (s.nodeD m).changedAt < s.stabNum) ∧
    s'.stabNum = s.stabNum + 1 ∧
    ∀ n c, s'.isNecessary n = true → c ∈ s'.children n → (s'.nodeD c).changedAt = s.stabNum →
      (s'.nodeD n).valid = true ∧ (s'.nodeD n).recomputedAt = s.stabNum :=
  (stabilise_c06 E hF Q h).2.1

/-- **C06 for one `stabilise` of the combined fragment**: both halves, and the invariant again. -/
theorem stabilise_c06 {env : Env} {sp : Nat → Val → Val} (E : EnvS env sp) (hF : FirstFn env) {fuel : Nat} {s s' : State} (Q : QInvFE env sp s)
    (h : (stabilise env fuel).run.run s = (.ok (), s')) : GateStab env fuel s s' ∧ NeverLost s s' ∧ QInvFE env sp s' :=
  GateF.stabilise_c06 E hF Q h

/-- **C06 AT EVERY `stabilise` OF EVERY HISTORY OF THE COMBINED FRAGMENT** run from the initial state. -/
theorem history_c06 {env : Env} {sp : Nat → Val → Val} (E : EnvS env sp) (hF : FirstFn env) {N : Nat} {d : Bool} {as bs : List Action}
    {s : State} {tk : Array Nat} (hH : HistFull env sp 0 (as ++ Action.stabilise :: bs))
    (h : Quiet.runActions env (as ++ Action.stabilise :: bs) (State.init N d) #[] = .ok (s, tk)) :
    ∃ s1 tk1 s2, Quiet.runActions env as (State.init N d) #[] = .ok (s1, tk1) ∧ QInvFE env sp s1 ∧
      (stabilise env fuelDefault).run.run s1 = (.ok (), s2) ∧ QInvFE env sp s2 ∧
      GateStab env fuelDefault s1 s2 ∧ NeverLost s1 s2 ∧
      Quiet.runActions env bs s2 tk1 = .ok (s, tk) :=
  GateF.history_c06 E hF hH h

/-! ## non-vacuity -/

/-- the hypotheses hold for the example history `exHistF` of `C01Full` (environment, fragment, it runs), so C06 holds at each of its seven `stabilise`s -/
example : EnvS fEnv fSp ∧ FirstFn fEnv ∧ HistFull fEnv fSp 0 exHistF ∧
    (∃ s tk, Quiet.runActions fEnv exHistF (State.init 128 true) #[] = .ok (s, tk)) ∧
    (∀ {as bs : List Action}, exHistF = as ++ Action.stabilise :: bs →
      ∃ s tk s1 tk1 s2, Quiet.runActions fEnv exHistF (State.init 128 true) #[] = .ok (s, tk) ∧
        Quiet.runActions fEnv as (State.init 128 true) #[] = .ok (s1, tk1) ∧
        (stabilise fEnv fuelDefault).run.run s1 = (.ok (), s2) ∧
        GateStab fEnv fuelDefault s1 s2 ∧ NeverLost s1 s2 ∧
        Quiet.runActions fEnv bs s2 tk1 = .ok (s, tk)) :=
  ⟨fEnv_envS, fEnv_first, exHistF_frag, exHistF_runs, fun e => exHistF_c06 e⟩

/-- the same for `exHistG` (`depend_on`, `cutoff n never`) -/
example : HistFull fEnv fSp 0 exHistG ∧
    (∀ {as bs : List Action}, exHistG = as ++ Action.stabilise :: bs →
      ∃ s tk s1 tk1 s2, Quiet.runActions fEnv exHistG (State.init 128 true) #[] = .ok (s, tk) ∧
        Quiet.runActions fEnv as (State.init 128 true) #[] = .ok (s1, tk1) ∧
        (stabilise fEnv fuelDefault).run.run s1 = (.ok (), s2) ∧
        GateStab fEnv fuelDefault s1 s2 ∧ NeverLost s1 s2 ∧
        Quiet.runActions fEnv bs s2 tk1 = .ok (s, tk)) :=
  ⟨exHistG_frag, fun e => exHistG_c06 e⟩

/-- why the nodes of three drains of `exHistF` run, kernel-checked (`EX.whyAfter acts` = the steps of the drain of the `stabilise` that follows `acts`, each as (node, stale at that
moment?, `recomputedAt` at that moment, the children that changed after it last ran)).  After writing only the third component of the pair variable 0: the map_ref nodes 5 and 12
because of 0, 13 because of 12, … — not 6, 7.  After writing the first component: 6 because of 5, 7 because of 6.  After the lhs flips: the fresh node 14 because it never ran. -/
example :
    EX.whyAfter (exHistF.take 7) = some [(0, true, 0, []), (5, true, 0, [0]), (12, true, 0, [0]), (13, true, 0, [12]), (10, true, 0, [13]),
      (11, true, 0, [10]), (4, true, 0, [11])] ∧
    EX.whyAfter (exHistF.take 9) = some [(0, true, 1, []), (5, true, 1, [0]), (6, true, 0, [5]), (7, true, 0, [6]), (12, true, 1, [0]),
      (8, true, 0, [7]), (11, true, 1, [8]), (4, true, 1, [11])] ∧
    EX.whyAfter (exHistF.take 11) = some [(1, true, 0, []), (3, true, 0, [1]), (14, true, -1, []), (4, true, 2, [3, 14])] :=
  exHistF_why

/-- the same for the second `stabilise` of `exHistG` -/
example :
    EX.whyAfter (exHistG.take 12) = some [(2, true, 0, []), (6, true, 0, [2]), (12, true, 0, [2]), (17, true, -1, [0]), (18, true, -1, [17]),
      (11, true, 0, [2]), (13, true, 0, [12, 18]), (14, true, 0, [11]), (4, true, 0, [14]), (5, true, 0, [4, 2])] :=
  exHistG_why

/-- **the gate is visible**, kernel-checked: the state after the second `stabilise` of `exHistF` (round 1: only the third component of the pair variable 0 was written), as (`stabNum`,
[(`recomputedAt`, `changedAt`, children, necessary) of the nodes 0, 5, 6, 7, 12, 13]).  The map_ref node 5 ran (`recomputedAt = 1`), its result was suppressed (`changedAt = 0`), its
necessary parent 6 and 7 above did not run (`recomputedAt = 0`); the map_ref node 12 ran and changed (`changedAt = 1`) and its necessary parent 13 ran (`recomputedAt = 1`). -/
example :
    (BindH.C2h.stateB fEnv (exHistF.take 8)).map (fun s => (s.stabNum, [0, 5, 6, 7, 12, 13].map fun m =>
        ((s.nodeD m).recomputedAt, (s.nodeD m).changedAt, s.children m, s.isNecessary m))) =
      some (2, [(1, 1, [], true), (1, 0, [0], true), (0, 0, [5], true), (0, 0, [6], true), (1, 1, [0], true), (1, 1, [12], true)]) :=
  exHistF_gate

end IncrVerif.Props.C06Full
